#!/usr/bin/env python3
import json, jsonschema, glob, sys
ok = True
try:
    jsonschema.validate(json.load(open('/verif/MANIFEST.json')), json.load(open('/root/.vp/MANIFEST.schema.json')))
    print('MANIFEST ok')
except Exception as e:
    ok = False; print('MANIFEST INVALID', e)
es = json.load(open('/root/.vp/EVIDENCE.schema.json'))
for f in sorted(glob.glob('/verif/evidence/*.json')):
    try:
        jsonschema.validate(json.load(open(f)), es); print(f, 'ok')
    except Exception as e:
        ok = False; print(f, 'INVALID', str(e)[:300])
sys.exit(0 if ok else 1)
