// vrun <property> [--replay file]   |   vrun --child <property> <name>
package main

import (
	"encoding/json"
	"fmt"
	"os"
	"sort"

	"verif/harness/engines/run"
	"verif/harness/props/reg"

	_ "verif/harness/props/all"
)

func main() {
	if len(os.Args) < 2 {
		ids := []string{}
		for id := range reg.Props {
			ids = append(ids, id)
		}
		sort.Strings(ids)
		fmt.Println("usage: vrun <property>; registered:", ids)
		os.Exit(2)
	}
	if os.Args[1] == "--child" {
		p := reg.Props[os.Args[2]]
		if p == nil || p.Child == nil {
			fmt.Fprintln(os.Stderr, "no child for", os.Args[2])
			os.Exit(3)
		}
		c := run.OpenChild(p.ID, p.Level, os.Getenv("VERIF_WAL"))
		p.Child(c, os.Args[3])
		c.Finish()
		os.Exit(0)
	}
	p := reg.Props[os.Args[1]]
	if p == nil {
		fmt.Fprintln(os.Stderr, "unknown property", os.Args[1])
		os.Exit(2)
	}
	replay := len(os.Args) >= 4 && os.Args[2] == "--replay"
	if replay && p.Replay == nil {
		// generic replay: every case list is determined by (seed, tier), which the replay file records
		var doc struct {
			Seed int64  `json:"seed"`
			Tier string `json:"tier"`
			Sig  string `json:"sig"`
		}
		b, err := os.ReadFile(os.Args[3])
		if err != nil || json.Unmarshal(b, &doc) != nil {
			fmt.Println("cannot read replay file", os.Args[3])
			os.Exit(2)
		}
		os.Setenv("VERIF_SEED", fmt.Sprint(doc.Seed))
		os.Setenv("VERIF_TIER", doc.Tier)
		fmt.Printf("replaying %s with seed %d tier %s (expecting signature %s)\n", p.ID, doc.Seed, doc.Tier, doc.Sig)
	}
	c := run.Open(p.ID, p.Level)
	if replay && p.Replay != nil {
		p.Replay(c, os.Args[3])
	} else {
		p.Main(c)
	}
	code := c.Finish()
	run.CleanupScratch()
	os.Exit(code)
}
