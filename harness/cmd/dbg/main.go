// dbg: development aid — runs one LogQL query text through qryn's chain over a generated database.
package main

import (
	"fmt"
	"math/rand"
	"os"
	"time"

	"verif/harness/engines/chsql"
	"verif/harness/engines/logq"
)

type rawReq struct{ q string }

func main() {
	q := os.Args[1]
	r := rand.New(rand.NewSource(7))
	start := int64(1700000000) * 1e9 / 60e9 * 60e9
	end := start + 60e9
	o := logq.GenOpts{JSONLines: len(os.Args) > 2 && os.Args[2] == "json", Logfmt: len(os.Args) > 2 && os.Args[2] == "logfmt", MaxSeries: 3, MaxSamples: 6, StartNs: start, EndNs: end, Numeric: true}
	db := logq.NewDB(r, o)
	rn := logq.NewRunner(false, true)
	out := rn.RunText(db.Load(false), q, start, end, 5*time.Second, 0, 20*time.Second)
	fmt.Println("err:", out.Err, "timedout:", out.TimedOut, "matrix:", out.IsMatrix)
	for _, e := range out.Execs {
		fmt.Println("SQL:", e.SQL)
		if e.Err != nil {
			fmt.Println("  sql error:", e.Err)
		}
		if e.Result != nil {
			for _, row := range e.Result.Rows {
				fmt.Print("  row:")
				for _, x := range row {
					fmt.Print(" ", chsql.Format(x))
				}
				fmt.Println()
			}
		}
	}
	for _, e := range out.Entries {
		fmt.Printf("OUT %s @%d %q %v\n", logq.CanonLabels(e.Labels), e.TimestampNS, e.Message, e.Value)
	}
}
