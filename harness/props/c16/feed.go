package c16

import (
	"bytes"
	"context"
	"database/sql/driver"
	"errors"
	"fmt"
	"math/rand"
	"net/http/httptest"
	"net/url"
	"sync"
	"time"

	controllerv1 "github.com/metrico/qryn/reader/controller"
	rmodel "github.com/metrico/qryn/reader/model"
	"github.com/metrico/qryn/reader/prof"
	"github.com/metrico/qryn/reader/prof/parser"
	"github.com/metrico/qryn/reader/prof/shared"
	rservice "github.com/metrico/qryn/reader/service"
	sqlsel "github.com/metrico/qryn/reader/utils/sql_select"
	wmodel "github.com/metrico/qryn/writer/model"
	"github.com/metrico/qryn/writer/utils/numbercache"
	"github.com/metrico/qryn/writer/utils/unmarshal"

	"google.golang.org/protobuf/proto"

	"verif/harness/engines/chsql"
	"verif/harness/engines/gen"
	"verif/harness/engines/sqldrv"
)

type nocache struct{}

func (nocache) CheckAndSet(k uint64) bool              { return false }
func (n nocache) DB(string) numbercache.ICache[uint64] { return n }

// parseProfile runs one rendered /ingest request through the exported parser the route uses.
func parseProfile(rq gen.Request) (*wmodel.ProfileData, error) {
	u, err := url.Parse(rq.Path)
	if err != nil {
		return nil, err
	}
	q := u.Query()
	ctx := context.WithValue(context.Background(), "from", q.Get("from"))
	ctx = context.WithValue(ctx, "name", q.Get("name"))
	ctx = context.WithValue(ctx, "until", q.Get("until"))
	fn := unmarshal.UnmarshalBinaryStreamProfileProtoV2
	if rq.Proto == "pprof-multipart" {
		fn = unmarshal.UnmarshalProfileProtoV2
	}
	var pd *wmodel.ProfileData
	var perr error
	n := 0
	for resp := range fn(ctx, bytes.NewReader(rq.Body), nocache{}) {
		if resp.Error != nil {
			perr = resp.Error
			continue
		}
		if p, ok := resp.ProfileRequest.(*wmodel.ProfileData); ok && p != nil {
			pd = p
			n++
		}
	}
	if perr != nil {
		return nil, perr
	}
	if pd == nil || n != 1 {
		return nil, fmt.Errorf("parser produced %d profile responses", n)
	}
	return pd, nil
}

// member is one parsed profile of a merge multiset.
type member struct {
	pc    gen.ProfCase
	pd    *wmodel.ProfileData
	types []string // "type:unit"
	proto string
	// multiLine: rendered with inlined (multi-line) locations
	multiLine bool
}

func typeNames(pc *gen.ProfCase) []string {
	out := make([]string, len(pc.SampleTypes))
	for i, t := range pc.SampleTypes {
		out[i] = t[0] + ":" + t[1]
	}
	return out
}

func (m *member) has(tn string) bool {
	for _, t := range m.types {
		if t == tn {
			return true
		}
	}
	return false
}

// rowsFor projects the stored tree to one sample type the way the reader's SQL does
// (`arrayMap(x -> (x.1, x.2, x.3, arrayFirst(y -> y.1 == T, x.4).2, .3), tree)`), in the given row order.
func (m *member) rowsFor(tn string, order []int) (rows [][]any, fns [][]any) {
	rows = make([][]any, 0, len(m.pd.Tree))
	for _, i := range order {
		r := m.pd.Tree[i]
		sf, tt := valueOf(r.ValueArrTuple, tn)
		rows = append(rows, []any{r.Field1, r.Field2, r.Field3, sf, tt})
	}
	for _, f := range m.pd.Function {
		fns = append(fns, []any{f.ValueInt64, f.ValueStr})
	}
	return
}

// ---------------------------------------------------------------- SQL feed (E-CHSQL behind the reader's seam)

type sqlFeed struct {
	execs    int
	flipFrom int // > 0: executions from this number on hand siblings over in reverse order
	sess  *sqldrv.Session
	reg   *sqldrv.Registry
	svc   *rservice.ProfService
	db    *chsql.DB
	last  string // last statement the service issued
	lastQ string // last statement the replica issued
	err   error  // last interpreter error
	mu    sync.Mutex
	// gate, when set, holds every statement of the service until `want` statements have arrived or the wait is
	// over: concurrent requests are then all in flight at the database at the same moment
	gate *gate
}

type gate struct {
	mu      sync.Mutex
	want    int
	arrived int
	open    chan struct{}
}

func (g *gate) arrive() {
	g.mu.Lock()
	g.arrived++
	if g.arrived == g.want {
		close(g.open)
	}
	g.mu.Unlock()
	select {
	case <-g.open:
	case <-time.After(300 * time.Millisecond):
	}
}

func newSQLFeed(name string) *sqlFeed {
	f := &sqlFeed{}
	f.sess = sqldrv.NewSession(name, func(ctx context.Context, q string) (*sqldrv.Rows, error) {
		if g := f.gate; g != nil {
			g.arrive()
		}
		f.mu.Lock()
		defer f.mu.Unlock()
		f.last = q
		tree, fns, err := f.exec(q)
		if err != nil {
			f.err = err
			return nil, err
		}
		return sqldrv.NewRows([]string{"_tree", "_functions"}, [][]driver.Value{{tree, fns}}), nil
	})
	f.reg = sqldrv.NewRegistry(f.sess, "")
	f.svc = &rservice.ProfService{DataSession: rmodel.IDBRegistry(f.reg)}
	return f
}

// fill models what the profiles_mv / profiles_series_mv / profiles_series_gin_mv views make of
// the profiles_input rows (columns the merge statement reads; the fingerprint is a stand-in that
// is equal for equal (service, tags, type) like the real one).
func (f *sqlFeed) fill(r *rand.Rand, ms []*member) error {
	f.db = chsql.QrynSchema(false)
	p := f.db.Tables["profiles"]
	g := f.db.Tables["profiles_series_gin"]
	fps := map[string]uint64{}
	for _, m := range ms {
		pd := m.pd
		typeID := pd.Ptype[0] + ":" + pd.PeriodType[0] + ":" + pd.PeriodUnit[0]
		stu := chsql.Array{}
		for _, s := range pd.SamplesTypesUnits {
			stu = append(stu, chsql.Tuple{s.Str1, s.Str2})
		}
		fpKey := fmt.Sprint(pd.ServiceName[0], pd.Tags, typeID, pd.SamplesTypesUnits)
		fp, ok := fps[fpKey]
		if !ok {
			fp = uint64(1000 + len(fps))
			fps[fpKey] = fp
			date := chsql.Date(int32(pd.TimestampNs[0] / 1e9 / 86400))
			for _, t := range append(append([]wmodel.StrStr{}, pd.Tags...), wmodel.StrStr{Str1: "service_name", Str2: pd.ServiceName[0]}) {
				g.Rows = append(g.Rows, []chsql.Value{date, t.Str1, t.Str2, typeID, stu, pd.ServiceName[0], fp})
			}
		}
		va := chsql.Array{}
		for _, v := range pd.ValuesAgg {
			va = append(va, chsql.Tuple{v.ValueStr, v.ValueInt64, v.ValueInt32})
		}
		tree := make(chsql.Array, 0, len(pd.Tree))
		for _, i := range r.Perm(len(pd.Tree)) {
			row := pd.Tree[i]
			vals := chsql.Array{}
			for _, v := range row.ValueArrTuple {
				vals = append(vals, chsql.Tuple{v.ValueStr, v.FirstValueInt64, v.SecondValueInt64})
			}
			tree = append(tree, chsql.Tuple{row.Field1, row.Field2, row.Field3, vals})
		}
		fns := make(chsql.Array, 0, len(pd.Function))
		for _, fn := range pd.Function {
			fns = append(fns, chsql.Tuple{fn.ValueInt64, fn.ValueStr})
		}
		p.Rows = append(p.Rows, []chsql.Value{pd.TimestampNs[0], fp, typeID, stu, pd.ServiceName[0], pd.DurationNs[0], pd.PayloadType[0], "", va, tree, fns})
	}
	if err := p.Check(); err != nil {
		return err
	}
	return g.Check()
}

func (f *sqlFeed) exec(q string) (tree [][]any, fns [][]any, err error) {
	res, err := f.db.Exec(q)
	if err != nil {
		return nil, nil, err
	}
	if len(res.Rows) != 1 || len(res.Rows[0]) != 2 {
		return nil, nil, fmt.Errorf("merge statement returned %d rows", len(res.Rows))
	}
	ta, ok1 := res.Rows[0][0].(chsql.Array)
	fa, ok2 := res.Rows[0][1].(chsql.Array)
	if !ok1 || !ok2 {
		return nil, nil, fmt.Errorf("merge statement returned %T, %T", res.Rows[0][0], res.Rows[0][1])
	}
	tree = make([][]any, 0, len(ta))
	for _, v := range ta {
		t, ok := v.(chsql.Tuple)
		if !ok || len(t) != 5 {
			return nil, nil, fmt.Errorf("tree element %s", chsql.Format(v))
		}
		tree = append(tree, []any{t[0], t[1], t[2], t[3], t[4]})
	}
	// the statement orders the tree rows by parent id only: the order of siblings is the server's choice. For the
	// second side of a self-diff the siblings of each parent are handed over in the opposite order.
	f.execs++
	if f.flipFrom > 0 && f.execs >= f.flipFrom {
		for i := 0; i < len(tree); {
			j := i
			for j < len(tree) && tree[j][0] == tree[i][0] {
				j++
			}
			for a, b := i, j-1; a < b; a, b = a+1, b-1 {
				tree[a], tree[b] = tree[b], tree[a]
			}
			i = j
		}
	}
	fns = make([][]any, 0, len(fa))
	for _, v := range fa {
		t, ok := v.(chsql.Tuple)
		if !ok || len(t) != 2 {
			return nil, nil, fmt.Errorf("functions element %s", chsql.Format(v))
		}
		fns = append(fns, []any{t[0], t[1]})
	}
	return
}

type window struct {
	selector string
	typeID   string
	from, to time.Time
}

// replica does what ProfService.getTree does (PlanMergeTraces → statement → rows → NewTree →
// MergeTrie) but keeps the rows and the tree, which the service does not expose.
func (f *sqlFeed) replica(w window, tn string) (rows, fns [][]any, tree *rservice.Tree, err error) {
	script, err := parser.Parse(w.selector)
	if err != nil {
		return nil, nil, nil, err
	}
	tid, err := shared.ParseTypeId(w.typeID)
	if err != nil {
		return nil, nil, nil, err
	}
	db, _ := f.reg.GetDB(context.Background())
	sel, err := prof.PlanMergeTraces(context.Background(), script, &tid, w.from, w.to, db)
	if err != nil {
		return nil, nil, nil, err
	}
	q, err := sel.String(sqlsel.DefaultCtx())
	if err != nil {
		return nil, nil, nil, err
	}
	f.lastQ = q
	rows, fns, err = f.exec(q)
	if err != nil {
		return nil, nil, nil, err
	}
	tree = rservice.NewTree()
	tree.SampleTypes = []string{tn}
	tree.MergeTrie(rows, fns, tn)
	return rows, fns, tree, nil
}

// service calls the real exported entry point over the scripted driver.
func (f *sqlFeed) service(w window) (*prof.FlameGraph, error) {
	f.err = nil
	res, err := f.svc.MergeStackTraces(context.Background(), w.selector, w.typeID, w.from, w.to)
	if err != nil {
		if f.err != nil {
			return nil, f.err
		}
		return nil, err
	}
	if res == nil || res.Flamegraph == nil {
		return nil, errors.New("no flame graph in the response")
	}
	return res.Flamegraph, nil
}

// serviceHTTP asks through the production controller (protobuf body, as a Pyroscope client does), with the
// request's max_nodes set when maxNodes > 0.
func (f *sqlFeed) serviceHTTP(w window, maxNodes int64) (*prof.FlameGraph, error) {
	f.err = nil
	req := &prof.SelectMergeStacktracesRequest{ProfileTypeID: w.typeID, LabelSelector: w.selector, Start: w.from.UnixMilli(), End: w.to.UnixMilli()}
	if maxNodes > 0 {
		req.MaxNodes = &maxNodes
	}
	b, err := proto.Marshal(req)
	if err != nil {
		return nil, err
	}
	hr := httptest.NewRequest("POST", "/querier.v1.QuerierService/SelectMergeStacktraces", bytes.NewReader(b))
	hr.Header.Set("Content-Type", "application/proto")
	rec := httptest.NewRecorder()
	(&controllerv1.ProfController{ProfService: f.svc}).SelectMergeStackTraces(rec, hr)
	if rec.Code != 200 {
		if f.err != nil {
			return nil, f.err
		}
		return nil, fmt.Errorf("status %d: %s", rec.Code, rec.Body.String())
	}
	var res prof.SelectMergeStacktracesResponse
	if err := proto.Unmarshal(rec.Body.Bytes(), &res); err != nil {
		return nil, err
	}
	if res.Flamegraph == nil {
		return nil, errors.New("no flame graph in the response")
	}
	return res.Flamegraph, nil
}

// diffSelf asks for the diff of a selection with itself (ProfService.RenderDiff, both sides the same query and
// window) and returns the levels (7 values per bar: left offset, left total, left self, right offset, right total,
// right self, name index) and the two tick counts.
func (f *sqlFeed) diffSelf(w window) (levels [][]int64, left, right int64, err error) {
	f.err = nil
	q := w.typeID + w.selector
	f.mu.Lock()
	f.flipFrom = f.execs + 2 // the left side as the statement returns it, the right side with siblings reversed
	f.mu.Unlock()
	defer func() { f.mu.Lock(); f.flipFrom = 0; f.mu.Unlock() }()
	fb, err := f.svc.RenderDiff(context.Background(), q, q, w.from, w.from, w.to, w.to)
	if err != nil {
		if f.err != nil {
			return nil, 0, 0, f.err
		}
		return nil, 0, 0, err
	}
	if fb == nil || fb.FlamebearerProfileV1.Flamebearer == nil {
		return nil, 0, 0, errors.New("no flame graph in the diff")
	}
	return fb.FlamebearerProfileV1.Flamebearer.Levels, fb.FlamebearerProfileV1.LeftTicks, fb.FlamebearerProfileV1.RightTicks, nil
}

// serviceConcurrently sends one request per window at the same time (as the panels of one dashboard do); the
// statements are held at the database until all of them have arrived.
func (f *sqlFeed) serviceConcurrently(ws []window) ([]*prof.FlameGraph, []error) {
	f.err = nil
	f.gate = &gate{want: len(ws), open: make(chan struct{})}
	defer func() { f.gate = nil }()
	out := make([]*prof.FlameGraph, len(ws))
	errs := make([]error, len(ws))
	var wg sync.WaitGroup
	for i := range ws {
		wg.Add(1)
		go func(i int) {
			defer wg.Done()
			res, err := f.svc.MergeStackTraces(context.Background(), ws[i].selector, ws[i].typeID, ws[i].from, ws[i].to)
			switch {
			case err != nil:
				errs[i] = err
			case res == nil || res.Flamegraph == nil:
				errs[i] = errors.New("no flame graph in the response")
			default:
				out[i] = res.Flamegraph
			}
		}(i)
	}
	wg.Wait()
	return out, errs
}

func levelsOf(ls []*prof.Level) [][]int64 {
	out := make([][]int64, len(ls))
	for i, l := range ls {
		out[i] = l.Values
	}
	return out
}

func (f *sqlFeed) lastReplica() string { return f.lastQ }
