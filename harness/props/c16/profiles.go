package c16

import (
	"fmt"
	"math/rand"
	"strings"

	wmodel "github.com/metrico/qryn/writer/model"

	"verif/harness/engines/gen"
	"verif/harness/engines/run"
)

const multipartLimit = 100000 // Decompressor limit of the multipart parser (decompressed bytes)

type verdictA struct {
	findings []finding // judged
	probes   []finding
	nodes    int
	roots    []int64
	nameMode string // which multi-line interpretation matched
}

// judgeStored is Oracle A on one parser output.
func judgeStored(pc *gen.ProfCase, multiLine bool, pd *wmodel.ProfileData) verdictA {
	var v verdictA
	types := typeNames(pc)
	st := loadStored(types, pd.Tree, pd.Function)
	v.nodes = len(st.nodes)
	framed, all, _ := sums(pc)
	v.findings = append(v.findings, st.checkConservation(framed)...)
	for i := range types {
		var roots int64
		for _, n := range st.children[0] {
			roots += n.Total[i]
		}
		v.roots = append(v.roots, roots)
	}
	// values_agg: the stored per-type sum of the profile's sample values (all samples)
	if len(pd.ValuesAgg) != len(types) {
		v.findings = append(v.findings, finding{"agg/types", fmt.Sprintf("values_agg has %d entries for %d sample types", len(pd.ValuesAgg), len(types))})
	} else {
		for i, a := range pd.ValuesAgg {
			if a.ValueStr != types[i] || a.ValueInt64 != all[i] || int(a.ValueInt32) != len(pc.Stacks) {
				v.findings = append(v.findings, finding{"agg/sum≠profile", fmt.Sprintf("values_agg[%d] = (%q, sum %d, count %d); the profile has %q sum %d over %d samples", i, a.ValueStr, a.ValueInt64, a.ValueInt32, types[i], all[i], len(pc.Stacks))})
				break
			}
		}
	}
	if len(st.dupFn) > 0 {
		v.findings = append(v.findings, finding{"tree/function-id-two-names", fmt.Sprintf("function id %d is listed with two different names", st.dupFn[0])})
	}
	// reference fold by name path
	modes := []string{"first"}
	if multiLine {
		modes = []string{"first", "last", "expand"}
	}
	var firstJudged, firstProbe []finding
	for mi, mode := range modes {
		judged, probe := st.matchTrie(expectedTrie(pc, multiLine, mode))
		if mi == 0 {
			firstJudged, firstProbe = judged, probe
		}
		if len(judged) == 0 {
			v.nameMode = mode
			v.probes = append(v.probes, probe...)
			return v
		}
	}
	v.findings = append(v.findings, firstJudged...)
	v.probes = append(v.probes, firstProbe...)
	return v
}

func depthSigClass(maxDepth int) string {
	if maxDepth > levelClamp {
		return "depth>511"
	}
	return "depth≤511"
}

func protoShort(p string) string { return strings.TrimPrefix(p, "pprof-") }

func childProfiles(c *run.Ctx, cfg childCfg) {
	for i := 0; i < cfg.N; i++ {
		gi := cfg.Start + i
		r := c.Rng(fmt.Sprintf("c16/prof/%d", gi))
		s := chooseSpec(r, gi)
		id := fmt.Sprintf("p%d", gi)
		fam := newFamily(r, id, s.Types, s.Funcs)
		pc, ob := buildCase(r, fam, s, id)
		c.BeginCase(gi, map[string]any{"spec": s, "observed": ob})
		rec := "none"
		switch {
		case ob.Direct && ob.Indirect:
			rec = "both"
		case ob.Direct:
			rec = "direct"
		case ob.Indirect:
			rec = "indirect"
		}
		depthClass := "0"
		switch {
		case ob.MaxDepth > levelClamp:
			depthClass = ">511"
		case ob.MaxDepth > 60:
			depthClass = "61-511"
		case ob.MaxDepth > 8:
			depthClass = "9-60"
		case ob.MaxDepth > 0:
			depthClass = "1-8"
		}
		c.Case(fmt.Sprintf("profile|types=%d|samples=%s|depth=%s|rec=%s|shared=%v|noline=%v|multiline=%v|depth0=%v", s.Types, samplesClass(len(pc.Stacks)), depthClass, rec, ob.SharedPref, ob.NoLine, ob.MultiLine, ob.Depth0 > 0))
		c.Cover("profile sample types", fmt.Sprint(s.Types), 1)
		c.Cover("profile samples", samplesClass(len(pc.Stacks)), 1)
		c.Cover("profile max depth", depthClass, 1)
		c.Cover("profile recursion", rec, 1)
		feat := func(name string, on bool) {
			if on {
				c.Cover("profile features", name, 1)
				c.Floor("profile: "+name, 0, 1)
			}
		}
		feat("depth > 511", ob.MaxDepth > levelClamp)
		feat("direct recursion", ob.Direct)
		feat("indirect recursion", ob.Indirect)
		feat("shared prefix", ob.SharedPref)
		feat("shared function at another position", ob.SharedFn)
		feat("location without line", ob.NoLine)
		feat("multi-line location", ob.MultiLine)
		feat("0 samples", len(pc.Stacks) == 0)
		feat("depth-0 sample", ob.Depth0 > 0)
		feat("duplicate stacks", ob.DupStacks)
		feat("values ≥ 10^9", s.BigVals && len(pc.Stacks) > 0)

		rqB := gen.RenderProfile(r, pc, false, s.MultiLine)
		rqs := []gen.Request{rqB}
		if len(rqB.Body) <= multipartLimit {
			rqM := gen.RenderProfile(r, pc, true, s.MultiLine)
			if gi%2 == 0 {
				rqs = []gen.Request{rqM, rqB}
			} else {
				rqs = []gen.Request{rqB, rqM}
			}
		} else {
			c.Event("profiles larger than the multipart parser's 100 000-byte limit (binary parser only)", 1)
		}
		judgedAny := false
		for _, rq := range rqs {
			ps := protoShort(rq.Proto)
			pd, err := parseProfile(rq)
			if err != nil {
				c.Undecided(fmt.Sprintf("well-formed profile rejected by the %s parser: %s", ps, clip(err.Error(), 120)))
				c.Note(fmt.Sprintf("profile case %d (%d bytes) rejected by the %s parser: %v", gi, len(rq.Body), ps, err))
				continue
			}
			judgedAny = true
			c.Floor("profile: "+ps+" parser", 0, 1)
			c.Event("parser outputs judged ("+ps+")", 1)
			v := judgeStored(&pc, s.MultiLine, pd)
			c.Event("stored tree nodes checked", v.nodes)
			if v.nameMode != "" && v.nameMode != "first" {
				c.Event("multi-line locations stored as: "+v.nameMode, 1)
			}
			if ob.Depth0 > 0 {
				c.Event("depth-0 samples excluded from the root sum", ob.Depth0)
			}
			for _, p := range v.probes {
				c.Event("probe: below level 511: "+p.Sig, 1)
				c.Note(fmt.Sprintf("probe (not judged), case %d %s: %s", gi, ps, p.Desc))
			}
			seen := map[string]bool{}
			for _, f := range v.findings {
				sig := f.Sig + "/" + ps + "/" + depthSigClass(ob.MaxDepth)
				if seen[sig] {
					continue
				}
				seen[sig] = true
				mc := minimiseProfile(pc, s.MultiLine, rq.Proto, f.Sig)
				c.Violation(sig, fmt.Sprintf("%s [case %d: %d types, %d samples, max depth %d; minimal witness: %d samples, %d frames]", f.Desc, gi, s.Types, len(pc.Stacks), ob.MaxDepth, len(mc.Stacks), countFrames(&mc)),
					map[string]any{"case_index": gi, "proto": rq.Proto, "spec": s, "multiline": s.MultiLine, "finding": f, "minimal_case": clipCase(mc), "original_case": clipCase(pc)})
			}
			if cfg.Start == 0 && i < 3 && rq.Proto == rqs[0].Proto {
				c.Sample(map[string]any{"kind": "profile", "case_index": gi, "proto": rq.Proto, "spec": s, "observed": ob, "body_bytes": len(rq.Body), "stored_nodes": v.nodes,
					"stored_functions": len(pd.Function), "root_totals": v.roots, "values_agg": pd.ValuesAgg, "first_stack": firstStack(&pc)})
			}
		}
		if judgedAny {
			c.Floor("profiles parsed and judged", 0, 1)
		}
		c.EndCase(gi)
	}
}

func firstStack(pc *gen.ProfCase) any {
	if len(pc.Stacks) == 0 {
		return nil
	}
	st := pc.Stacks[0]
	var names []string
	for j, f := range st.Frames {
		if j >= 10 {
			names = append(names, fmt.Sprintf("…(%d more)", len(st.Frames)-10))
			break
		}
		if st.NoLine[j] {
			names = append(names, "n/a")
		} else {
			names = append(names, pc.Funcs[f])
		}
	}
	return map[string]any{"frames_root_first": names, "values": st.Values}
}

func countFrames(pc *gen.ProfCase) int {
	n := 0
	for _, st := range pc.Stacks {
		n += len(st.Frames)
	}
	return n
}

// clipCase keeps replay files small: at most 40 stacks, frames beyond 700 per stack never occur.
func clipCase(pc gen.ProfCase) any {
	if len(pc.Stacks) <= 40 {
		return pc
	}
	cp := pc
	cp.Stacks = pc.Stacks[:40]
	return map[string]any{"truncated_to_stacks": 40, "of": len(pc.Stacks), "case": cp}
}

// minimiseProfile shrinks a failing abstract case while the same finding signature persists:
// drop stacks, then cut frames from the leaf end and the root end, then drop sample types.
func minimiseProfile(pc gen.ProfCase, multiLine bool, proto string, sig string) gen.ProfCase {
	budget := 400
	fails := func(cand gen.ProfCase) bool {
		if budget <= 0 {
			return false
		}
		budget--
		rq := gen.RenderProfile(rand.New(rand.NewSource(1)), cand, proto == "pprof-multipart", multiLine)
		pd, err := parseProfile(rq)
		if err != nil {
			return false
		}
		for _, f := range judgeStored(&cand, multiLine, pd).findings {
			if f.Sig == sig {
				return true
			}
		}
		return false
	}
	cur := pc
	// 1. remove stacks (halves first, then single)
	for chunk := len(cur.Stacks) / 2; chunk >= 1; chunk /= 2 {
		for i := 0; i+chunk <= len(cur.Stacks); {
			cand := cur
			cand.Stacks = append(append([]gen.ProfStack{}, cur.Stacks[:i]...), cur.Stacks[i+chunk:]...)
			if fails(cand) {
				cur = cand
			} else {
				i += chunk
			}
		}
	}
	// 2. shorten stacks
	for si := range cur.Stacks {
		for _, fromLeaf := range []bool{true, false} {
			for cut := len(cur.Stacks[si].Frames) / 2; cut >= 1; cut /= 2 {
				for len(cur.Stacks[si].Frames) > cut {
					cand := cur
					cand.Stacks = append([]gen.ProfStack{}, cur.Stacks...)
					st := cur.Stacks[si]
					n := len(st.Frames)
					ns := gen.ProfStack{Values: st.Values}
					if fromLeaf {
						ns.Frames, ns.NoLine = append([]int{}, st.Frames[:n-cut]...), append([]bool{}, st.NoLine[:n-cut]...)
					} else {
						ns.Frames, ns.NoLine = append([]int{}, st.Frames[cut:]...), append([]bool{}, st.NoLine[cut:]...)
					}
					cand.Stacks[si] = ns
					if !fails(cand) {
						break
					}
					cur = cand
				}
			}
		}
	}
	// 3. drop trailing sample types
	for len(cur.SampleTypes) > 1 {
		cand := cur
		cand.SampleTypes = cur.SampleTypes[:len(cur.SampleTypes)-1]
		cand.Stacks = nil
		for _, st := range cur.Stacks {
			cand.Stacks = append(cand.Stacks, gen.ProfStack{Frames: st.Frames, NoLine: st.NoLine, Values: st.Values[:len(cand.SampleTypes)]})
		}
		if !fails(cand) {
			break
		}
		cur = cand
	}
	return cur
}
