// Package c16: profile call trees conserve weight from ingest to flame graph.
//
// Write side: generated pprof profiles go through the exported parsers of the /ingest route
// (multipart and binary); the emitted ProfileData.Tree/Function/ValuesAgg is the "stored call
// tree" (Oracle A: conservation per node and at the roots, names resolve, the multiset of
// (name path, self, total) equals an independent fold of the abstract profile).
// Read side: the stored trees of a multiset of profiles are merged by the reader's exported
// Tree.MergeTrie / BFS (a) profile by profile in every order with shuffled rows (direct fold) and
// (b) through the real PlanMergeTraces statement executed by E-CHSQL over a modelled `profiles`
// table, both by a replica of ProfService.getTree and by the real ProfService.MergeStackTraces
// over the scripted driver (Oracle B: merged totals = Σ inputs for every order; bars of every
// level ordered, disjoint and nested in their parent's span; names resolve; root = Σ inputs).
package c16

import (
	"fmt"
	"runtime"
	"sync"
	"time"

	"verif/harness/engines/run"
	"verif/harness/props/reg"
)

func init() {
	reg.Register(&reg.Prop{ID: "C16", Level: "exploration", Main: Main, Child: Child})
}

type childCfg struct {
	Start int `json:"start"`
	N     int `json:"n"`
}

func Main(c *run.Ctx) {
	c.SetRule("pprof profiles (1–4 sample types, 0–200 samples, stack depth 0–600 across the 511-level clamp, direct/indirect recursion, shared prefixes and frames, locations without line info, multi-line locations, duplicate stacks, zero and 10^12 values) " +
		"through the exported multipart and binary profile parsers → stored tree checks; multisets of 1–6 such profiles (repeats, differing sample-type sets) merged by Tree.MergeTrie/BFS in every order (≤ 4) or PRNG orders (> 4) with shuffled rows, " +
		"directly and through the real PlanMergeTraces statement on E-CHSQL (replica of getTree and real ProfService.MergeStackTraces); distinct key = sample types × samples class × depth class × recursion × shared × noline × multiline × depth-0 (profiles), " +
		"size × distinct × types × differing type sets × over-deep member (multisets)")
	c.Assume("depth-0 samples (no frame) have no place in a call tree: they are excluded from the root-sum and only counted")
	c.Assume("multi-line (inlined) locations: the stored name may be Line[0] (what the writer does), the last line, or one node per line; only 'names resolve to a function of that location' and conservation are judged")
	c.Assume("below level 511 node ids no longer encode the level; path identity there is only probed (event 'probe: …'), conservation of the sums is still judged")
	c.Assume("the SQL between write and read (arrayJoin over the stored tree, sum per (parent, function, node)) is executed by E-CHSQL; if its rows differ from a direct fold over the same stored trees the case is undecided (oracle disagreement), the merge/layout code is then still judged relative to the rows it was given")
	c.Assume("profiles_mv is modelled as the identity on tree/functions/sample_types_units/service_name; the fingerprint is a stand-in equal for equal (service, tags, type id, sample types)")
	nProf := c.Pick(300, 20000)
	nMerge := c.Pick(100, 3000)
	perProf := c.Pick(75, 1000)
	perMerge := c.Pick(25, 150)
	type job struct {
		name     string
		start, n int
	}
	var jobs []job
	for s := 0; s < nProf; s += perProf {
		jobs = append(jobs, job{"profiles", s, min(perProf, nProf-s)})
	}
	for s := 0; s < nMerge; s += perMerge {
		jobs = append(jobs, job{"merge", s, min(perMerge, nMerge-s)})
	}
	workers := max(2, min(6, runtime.NumCPU()/2))
	ch := make(chan job)
	var wg sync.WaitGroup
	for w := 0; w < workers; w++ {
		wg.Add(1)
		go func() {
			defer wg.Done()
			for j := range ch {
				runJob(c, j.name, j.start, j.n)
			}
		}()
	}
	for _, j := range jobs {
		ch <- j
	}
	close(ch)
	wg.Wait()

	c.Floor("profiles parsed and judged", nProf, 0)
	c.Floor("multisets merged and judged", nMerge, 0)
	for _, f := range []string{"profile: depth > 511", "profile: direct recursion", "profile: indirect recursion", "profile: shared prefix", "profile: shared function at another position",
		"profile: location without line", "profile: multi-line location", "profile: 0 samples", "profile: depth-0 sample", "profile: multipart parser", "profile: binary parser",
		"merge: ≥ 4 profiles", "merge: repeated profile", "merge: member deeper than 511", "merge: all permutations", "merge: sql feed (replica)", "merge: sql feed (real service)", "flame graphs checked", "flame graphs asked for with max_nodes below their node count", "diffs of a selection with itself checked"} {
		c.Floor(f, 1, 0)
	}
}

// runJob runs one chunk in a child; when the child dies on a case the rest of the chunk is
// continued in a new child (a death costs one case, not the chunk).
func runJob(c *run.Ctx, name string, start, n int) {
	end := start + n
	for restarts := 0; start < end; restarts++ {
		// every other chunk runs on one processor: what a parser goroutine gives back (pools, recycled buffers) is then
		// what the next parser goroutine gets, while the requests parsed earlier are still being held for the merge
		var env []string
		if (start/max(n, 1))%2 == 1 {
			env = []string{"GOMAXPROCS=1"}
		}
		out := c.RunChild(run.ChildSpec{Prop: "C16", Name: name, Cfg: childCfg{Start: start, N: end - start}, Env: env, Timeout: 20 * time.Minute})
		if out.Completed {
			return
		}
		if out.TimedOut {
			c.Undecided(fmt.Sprintf("%s child watchdog expired (cases %d…%d)", name, start, end-1))
			return
		}
		head, frame := run.PanicHead(out.Stderr)
		if out.OpenIdx < 0 || restarts >= 5 {
			c.Undecided(fmt.Sprintf("%s child ended outside a case (exit %d): %s", name, out.Exit, head))
			return
		}
		c.Violation("process-death/"+name+"/"+frame, fmt.Sprintf("process died while the %s case %d was parsed / merged / laid out: %s at %s; case %s", name, out.OpenIdx, head, frame, clip(string(out.OpenCase), 400)),
			map[string]any{"case": out.OpenCase, "stderr": tail(out.Stderr, 4000)})
		start = out.OpenIdx + 1
	}
}

func Child(c *run.Ctx, name string) {
	var cfg childCfg
	run.ChildCfg(&cfg)
	c.MaxSamples = 3
	switch name {
	case "profiles":
		childProfiles(c, cfg)
	case "merge":
		childMerge(c, cfg)
	}
}

func clip(s string, n int) string {
	if len(s) > n {
		return s[:n] + "…"
	}
	return s
}

func tail(s string, n int) string {
	if len(s) > n {
		return "…" + s[len(s)-n:]
	}
	return s
}
