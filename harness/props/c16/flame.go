package c16

import (
	"fmt"
	"sort"
	"strings"

	rservice "github.com/metrico/qryn/reader/service"
)

// ---------------------------------------------------------------- reference fold over merge inputs

type nkey [3]uint64 // parent id, function id, node id

// agg is the reference for "the sum of the inputs" of one sample type: Σ self / Σ total per
// (parent, function, node) over all rows of all member trees, plus the id → name table.
type agg struct {
	vals  map[nkey]pv
	names map[uint64]string
}

func newAgg() *agg { return &agg{vals: map[nkey]pv{}, names: map[uint64]string{}} }

func (a *agg) addRows(rows [][]any, fns [][]any) {
	for _, f := range fns {
		id := f[0].(uint64)
		if _, ok := a.names[id]; !ok {
			a.names[id] = f[1].(string)
		}
	}
	for _, r := range rows {
		k := nkey{r[0].(uint64), r[1].(uint64), r[2].(uint64)}
		v := a.vals[k]
		v.Self += r[3].(int64)
		v.Total += r[4].(int64)
		a.vals[k] = v
	}
}

func (a *agg) rootTotal() int64 {
	var t int64
	for k, v := range a.vals {
		if k[0] == 0 {
			t += v.Total
		}
	}
	return t
}

// byPath walks the aggregated table from parent id 0 and returns name-path → values for nodes
// with a non-zero total (zero-width nodes cannot be located in a flame graph).
func (a *agg) byPath() (map[string]pv, []string) {
	ch := map[uint64][]nkey{}
	for k := range a.vals {
		ch[k[0]] = append(ch[k[0]], k)
	}
	out := map[string]pv{}
	var bad []string
	type item struct {
		id   uint64
		path string
	}
	seen := map[nkey]bool{}
	stack := []item{{0, ""}}
	for len(stack) > 0 {
		it := stack[len(stack)-1]
		stack = stack[:len(stack)-1]
		for _, k := range ch[it.id] {
			v := a.vals[k]
			if v.Total == 0 || seen[k] {
				continue
			}
			seen[k] = true
			name, ok := a.names[k[1]]
			if !ok {
				name = fmt.Sprintf("?fn%d", k[1])
			}
			p := it.path + "\x00" + name
			if old, dup := out[p]; dup {
				bad = append(bad, "two input nodes share the name path "+showPath(p))
				v.Self += old.Self
				v.Total += old.Total
			}
			out[p] = v
			stack = append(stack, item{k[2], p})
		}
	}
	return out, bad
}

func showPath(p string) string {
	parts := strings.Split(strings.TrimPrefix(p, "\x00"), "\x00")
	if len(parts) > 10 {
		return strings.Join(parts[:5], ";") + fmt.Sprintf(";…(%d)…;", len(parts)-10) + strings.Join(parts[len(parts)-5:], ";")
	}
	return strings.Join(parts, ";")
}

// treeTable flattens the reader's merged tree (sample type index 0) to the same key space as agg.
func treeTable(t *rservice.Tree) map[nkey]pv {
	out := map[nkey]pv{}
	for parent, children := range t.Nodes {
		for _, n := range children {
			k := nkey{parent, n.FnID, n.NodeID}
			v := out[k]
			v.Self += n.Self[0]
			v.Total += n.Total[0]
			out[k] = v
		}
	}
	return out
}

func diffTables(got, want map[nkey]pv, names map[uint64]string) string {
	var d []string
	keys := make([]nkey, 0, len(want))
	for k := range want {
		keys = append(keys, k)
	}
	for k := range got {
		if _, ok := want[k]; !ok {
			keys = append(keys, k)
		}
	}
	sort.Slice(keys, func(i, j int) bool {
		for x := 0; x < 3; x++ {
			if keys[i][x] != keys[j][x] {
				return keys[i][x] < keys[j][x]
			}
		}
		return false
	})
	n := 0
	for _, k := range keys {
		g, gok := got[k]
		w, wok := want[k]
		if gok && wok && g == w {
			continue
		}
		n++
		if len(d) < 3 {
			switch {
			case !gok:
				d = append(d, fmt.Sprintf("node %d (%q, level field %d) missing, inputs sum to self %d total %d", k[2], names[k[1]], k[2]>>55, w.Self, w.Total))
			case !wok:
				d = append(d, fmt.Sprintf("node %d (%q) self %d total %d is in no input", k[2], names[k[1]], g.Self, g.Total))
			default:
				d = append(d, fmt.Sprintf("node %d (%q, level field %d): merged self %d total %d, inputs sum to self %d total %d", k[2], names[k[1]], k[2]>>55, g.Self, g.Total, w.Self, w.Total))
			}
		}
	}
	if n == 0 {
		return ""
	}
	return fmt.Sprintf("%d nodes differ: %s", n, strings.Join(d, "; "))
}

// ---------------------------------------------------------------- flame graph decoding

type bar struct {
	X, Total, Self int64
	Name           string
	Path           string // name path ("" when the bar has zero width or no parent)
}

// checkFlame decodes the flamebearer levels (groups of 4: offset delta to the end of the previous
// bar, total, self, name index) and checks the layout half of the property. It returns the
// name-path → values map of the non-zero bars.
func checkFlame(names []string, levels [][]int64, wantRoot int64) (map[string]pv, []finding, int) {
	var out []finding
	nBars := 0
	add := func(sig, f string, a ...any) {
		if len(out) < 6 {
			out = append(out, finding{sig, fmt.Sprintf(f, a...)})
		}
	}
	paths := map[string]pv{}
	if len(levels) == 0 {
		add("flame/no-root-level", "the flame graph has no level 0")
		return paths, out, nBars
	}
	if l0 := levels[0]; len(l0) != 4 || l0[0] != 0 || l0[3] != 0 || len(names) == 0 || names[0] != "total" {
		add("flame/root-level-format", "level 0 is %v with names[0]=%q; expected the single bar [0 total self 0] named \"total\"", clipInts(l0, 8), first(names))
		return paths, out, nBars
	}
	if levels[0][1] != wantRoot {
		add("flame/root-total≠sum-of-inputs", "level 0 total %d ≠ Σ root totals of the inputs %d", levels[0][1], wantRoot)
	}
	prev := []bar{{X: 0, Total: levels[0][1], Self: levels[0][2], Name: "total", Path: ""}}
	prevRooted := []bool{true}
	for li := 1; li < len(levels); li++ {
		vals := levels[li]
		if len(vals)%4 != 0 {
			add("flame/level-format", "level %d has %d values (not a multiple of 4)", li, len(vals))
			return paths, out, nBars
		}
		cur := make([]bar, 0, len(vals)/4)
		rooted := make([]bool, 0, len(vals)/4)
		var end int64
		pi := 0
		for j := 0; j < len(vals); j += 4 {
			delta, total, self, ni := vals[j], vals[j+1], vals[j+2], vals[j+3]
			b := bar{X: end + delta, Total: total, Self: self}
			if delta < 0 {
				add("flame/bars-overlap", "level %d bar %d: offset delta %d < 0 (starts at %d before the previous bar ends at %d)", li, j/4, delta, b.X, end)
			}
			if total < 0 || self < 0 {
				add("flame/negative-width", "level %d bar %d: total %d self %d", li, j/4, total, self)
			}
			if self > total {
				add("flame/self>total", "level %d bar %d: self %d > total %d", li, j/4, self, total)
			}
			if ni <= 0 || ni >= int64(len(names)) {
				add("flame/name-unresolved", "level %d bar %d (total %d): name index %d does not resolve to a function name (%d names)", li, j/4, total, ni, len(names))
			} else {
				b.Name = names[ni]
			}
			if delta >= 0 && total >= 0 {
				end = b.X + total
			}
			// parent: the bar of the previous level whose span contains this bar's span. Bars of a
			// valid level are ordered, so the candidates start at the first bar ending at or after b.X.
			if delta < 0 {
				pi = 0
			}
			for pi < len(prev) && prev[pi].X+prev[pi].Total < b.X {
				pi++
			}
			par := -1
			for q := pi; q < len(prev) && prev[q].X <= b.X; q++ {
				if b.X+b.Total <= prev[q].X+prev[q].Total {
					par = q
					if prev[q].Total > 0 {
						break // prefer a parent of real width (a zero-width bar fits several)
					}
				}
			}
			isRooted := false
			if par < 0 {
				add("flame/bar-outside-parent", "level %d bar %d %q spans [%d,%d) and no bar of level %d contains it", li, j/4, b.Name, b.X, b.X+b.Total, li-1)
			} else if b.Total > 0 && prevRooted[par] && b.Name != "" {
				b.Path = prev[par].Path + "\x00" + b.Name
				isRooted = true
				if old, dup := paths[b.Path]; dup {
					add("flame/path-drawn-twice", "level %d: two bars for path %q (totals %d and %d)", li, showPath(b.Path), old.Total, b.Total)
				}
				paths[b.Path] = pv{Self: self, Total: total}
			}
			cur = append(cur, b)
			nBars++
			rooted = append(rooted, isRooted)
		}
		prev, prevRooted = cur, rooted
	}
	return paths, out, nBars
}

func diffPaths(got, want map[string]pv) string {
	var keys []string
	for k := range want {
		keys = append(keys, k)
	}
	for k := range got {
		if _, ok := want[k]; !ok {
			keys = append(keys, k)
		}
	}
	sort.Strings(keys)
	n := 0
	var d []string
	for _, k := range keys {
		g, gok := got[k]
		w, wok := want[k]
		if gok && wok && g == w {
			continue
		}
		n++
		if len(d) < 3 {
			switch {
			case !gok:
				d = append(d, fmt.Sprintf("path %q (inputs: self %d total %d) has no bar", showPath(k), w.Self, w.Total))
			case !wok:
				d = append(d, fmt.Sprintf("bar %q self %d total %d is in no input", showPath(k), g.Self, g.Total))
			default:
				d = append(d, fmt.Sprintf("path %q: bar self %d total %d, inputs sum to self %d total %d", showPath(k), g.Self, g.Total, w.Self, w.Total))
			}
		}
	}
	if n == 0 {
		return ""
	}
	return fmt.Sprintf("%d paths differ: %s", n, strings.Join(d, "; "))
}

func clipInts(v []int64, n int) []int64 {
	if len(v) > n {
		return v[:n]
	}
	return v
}

func first(s []string) string {
	if len(s) == 0 {
		return ""
	}
	return s[0]
}
