package c16

import (
	"fmt"
	"math/rand"
	"os"
	"reflect"
	"sort"
	"time"

	"github.com/metrico/qryn/reader/prof"
	rservice "github.com/metrico/qryn/reader/service"

	"verif/harness/engines/gen"
	"verif/harness/engines/run"
)

func permutations(n int) [][]int {
	var out [][]int
	p := make([]int, n)
	for i := range p {
		p[i] = i
	}
	var rec func(k int)
	rec = func(k int) {
		if k == n {
			out = append(out, append([]int{}, p...))
			return
		}
		for i := k; i < n; i++ {
			p[k], p[i] = p[i], p[k]
			rec(k + 1)
			p[k], p[i] = p[i], p[k]
		}
	}
	rec(0)
	return out
}

type multiset struct {
	mi      int
	fam     family
	members []*member
	order   []int // positions → member index (with repeats)
	hetero  bool
	over    bool
}

func buildMultiset(c *run.Ctx, r *rand.Rand, mi int) (*multiset, error) {
	size := 1 + mi%6
	nT := 1 + r.Intn(4)
	ms := &multiset{mi: mi, fam: newFamily(r, fmt.Sprintf("m%d", mi), nT, 3+r.Intn(8))}
	k := 1 + r.Intn(size)
	ms.hetero = nT >= 2 && k >= 2 && r.Intn(4) == 0
	ms.over = mi%10 == 7
	for d := 0; d < k; d++ {
		s := spec{Types: nT, Samples: 1 + r.Intn(25), Depth: "shallow", Rec: []string{"none", "direct", "indirect", "both"}[r.Intn(4)], Shared: r.Intn(4) != 0,
			NoLine: r.Intn(3) == 0, MultiLine: r.Intn(4) == 0, Depth0: r.Intn(10) == 0, BigVals: r.Intn(10) == 0, Funcs: len(ms.fam.Funcs)}
		if r.Intn(3) == 0 {
			s.Depth = "mid"
		}
		if r.Intn(15) == 0 {
			s.Samples, s.Depth0 = 0, false
		}
		if ms.over && d == 0 {
			s.Depth, s.Samples, s.Depth0 = "over", 1+r.Intn(3), false
		}
		fam := ms.fam
		if ms.hetero && d > 0 && r.Intn(2) == 0 {
			// a member with a proper, non-empty subset of the family's sample types
			var sub [][2]string
			for _, t := range fam.Types {
				if r.Intn(2) == 0 {
					sub = append(sub, t)
				}
			}
			if len(sub) == 0 || len(sub) == len(fam.Types) {
				sub = fam.Types[:1]
			}
			fam.Types = sub
			s.Types = len(sub)
		}
		pc, _ := buildCase(r, fam, s, fmt.Sprintf("m%d_%d", mi, d))
		rq := gen.RenderProfile(r, pc, false, s.MultiLine)
		if d%2 == 0 && len(rq.Body) <= multipartLimit {
			rq = gen.RenderProfile(r, pc, true, s.MultiLine)
		}
		pd, err := parseProfile(rq)
		if err != nil {
			return nil, fmt.Errorf("member %d rejected by the %s parser: %v", d, protoShort(rq.Proto), err)
		}
		ms.members = append(ms.members, &member{pc: pc, pd: pd, types: typeNames(&pc), proto: rq.Proto, multiLine: s.MultiLine})
	}
	for d := 0; d < k; d++ {
		ms.order = append(ms.order, d)
	}
	for len(ms.order) < size {
		ms.order = append(ms.order, r.Intn(k))
	}
	r.Shuffle(len(ms.order), func(i, j int) { ms.order[i], ms.order[j] = ms.order[j], ms.order[i] })
	return ms, nil
}

func (ms *multiset) describe() map[string]any {
	var mem []any
	for _, m := range ms.members {
		mem = append(mem, map[string]any{"proto": m.proto, "types": m.types, "samples": len(m.pc.Stacks), "stored_nodes": len(m.pd.Tree), "case": clipCase(m.pc)})
	}
	return map[string]any{"multiset_index": ms.mi, "order": ms.order, "members": mem}
}

type reporter struct {
	c    *run.Ctx
	ms   *multiset
	seen map[string]bool
}

func (rp *reporter) violation(sig, desc string, extra map[string]any) {
	if rp.seen[sig] {
		return
	}
	rp.seen[sig] = true
	rep := rp.ms.describe()
	for k, v := range extra {
		rep[k] = v
	}
	rp.c.Violation(sig, fmt.Sprintf("%s [multiset %d: %d profiles (%d distinct), order %v]", desc, rp.ms.mi, len(rp.ms.order), len(rp.ms.members), rp.ms.order), rep)
}

// judgeTree checks one merged tree + its flame graph against a reference aggregate.
// It returns the table diff and the path diff (empty = equal) and reports layout findings.
func judgeTree(rp *reporter, feed string, tn string, tree *rservice.Tree, ref *agg, wantPaths map[string]pv, perm []int) (tableDiff, pathDiff string, bars int) {
	tableDiff = diffTables(treeTable(tree), ref.vals, ref.names)
	levels := levelsOf(tree.BFS(tn))
	wantRoot := ref.rootTotal()
	paths, fs, bars := checkFlame(tree.Names, levels, wantRoot)
	for _, f := range fs {
		rp.violation(f.Sig+"/"+feed, fmt.Sprintf("type %s, merge order %v: %s", tn, perm, f.Desc), map[string]any{"sample_type": tn, "perm": perm, "feed": feed, "levels_head": headLevels(levels, 6)})
	}
	if tot := tree.Total(); len(tot) != 1 || tot[0] != wantRoot {
		rp.violation("flame/total≠sum-of-inputs/"+feed, fmt.Sprintf("type %s, merge order %v: Tree.Total() = %v, Σ root totals of the inputs = %d", tn, perm, tot, wantRoot), map[string]any{"sample_type": tn, "perm": perm})
	}
	pathDiff = diffPaths(paths, wantPaths)
	return
}

func headLevels(l [][]int64, n int) [][]int64 {
	if len(l) > n {
		l = l[:n]
	}
	out := make([][]int64, len(l))
	for i := range l {
		out[i] = clipInts(l[i], 40)
	}
	return out
}

func childMerge(c *run.Ctx, cfg childCfg) {
	feed := newSQLFeed(fmt.Sprintf("c16-%d", os.Getpid()))
	for i := 0; i < cfg.N; i++ {
		mi := cfg.Start + i
		r := c.Rng(fmt.Sprintf("c16/merge/%d", mi))
		c.BeginCase(mi, map[string]any{"multiset_index": mi})
		ms, err := buildMultiset(c, r, mi)
		if err != nil {
			c.Case("")
			c.Undecided("merge input: " + clip(err.Error(), 120))
			c.EndCase(mi)
			continue
		}
		// the requests parsed first have been held while the later ones were parsed (as the pusher goroutines hold
		// them while other pushes are parsed): each must still be the tree of ITS profile
		for d, m := range ms.members {
			for _, f := range judgeStored(&m.pc, m.multiLine, m.pd).findings {
				c.Violation("held-request-changed/"+f.Sig+"/"+protoShort(m.proto), fmt.Sprintf("multiset %d: the request parsed for member %d no longer matches its profile after the %d later members were parsed: %s", mi, d, len(ms.members)-1-d, f.Desc),
					map[string]any{"multiset_index": mi, "member": d})
				break
			}
			c.Floor("parsed requests re-examined after later profiles were parsed", 0, 1)
		}
		size, k := len(ms.order), len(ms.members)
		repeated := size > k
		c.Case(fmt.Sprintf("merge|size=%d|distinct=%d|types=%d|differing-type-sets=%v|over-deep=%v", size, k, len(ms.fam.Types), ms.hetero, ms.over))
		c.Cover("merge size", fmt.Sprint(size), 1)
		c.Cover("merge distinct profiles", fmt.Sprint(k), 1)
		c.Cover("merge sample types", fmt.Sprint(len(ms.fam.Types)), 1)
		if size >= 4 {
			c.Floor("merge: ≥ 4 profiles", 0, 1)
		}
		if repeated {
			c.Floor("merge: repeated profile", 0, 1)
		}
		if ms.over {
			c.Floor("merge: member deeper than 511", 0, 1)
		}
		if ms.hetero {
			c.Cover("merge features", "members with differing sample-type sets", 1)
		}
		var perms [][]int
		if size <= 4 {
			perms = permutations(size)
			c.Floor("merge: all permutations", 0, 1)
		} else {
			id := make([]int, size)
			rev := make([]int, size)
			for j := range id {
				id[j], rev[j] = j, size-1-j
			}
			perms = [][]int{id, rev}
			for j := 0; j < 4; j++ {
				perms = append(perms, r.Perm(size))
			}
		}
		rp := &reporter{c: c, ms: ms, seen: map[string]bool{}}
		undecided := map[string]bool{}
		undecide := func(reason, note string) {
			if !undecided[reason] {
				undecided[reason] = true
				c.Undecided(reason)
				c.Note(fmt.Sprintf("multiset %d: %s: %s", mi, reason, note))
			}
		}
		tnames := typeNames(&gen.ProfCase{SampleTypes: ms.fam.Types})
		refs := map[string]*agg{}
		sampleOut := map[string]any{}
		// ---------------- direct fold: MergeTrie once per profile, every order, shuffled rows
		for _, tn := range tnames {
			ref := newAgg()
			inputs := 0
			for _, d := range ms.order {
				m := ms.members[d]
				if !m.has(tn) {
					continue
				}
				inputs++
				id := make([]int, len(m.pd.Tree))
				for j := range id {
					id[j] = j
				}
				ref.addRows(m.rowsFor(tn, id))
			}
			refs[tn] = ref
			wantPaths, bad := ref.byPath()
			for _, b := range bad {
				c.Note(fmt.Sprintf("multiset %d type %s: %s", mi, tn, b))
			}
			var tdOK, tdBad, pdOK, pdBad int
			var tdFirst, pdFirst string
			var tdPerm, pdPerm []int
			for _, perm := range perms {
				tree := rservice.NewTree()
				tree.SampleTypes = []string{tn}
				for _, pos := range perm {
					m := ms.members[ms.order[pos]]
					if !m.has(tn) {
						continue
					}
					rows, fns := m.rowsFor(tn, r.Perm(len(m.pd.Tree)))
					tree.MergeTrie(rows, fns, tn)
				}
				td, pd, bars := judgeTree(rp, "direct", tn, tree, ref, wantPaths, perm)
				c.Event("flame bars checked", bars)
				c.Event("merge orders judged (direct fold)", 1)
				c.Floor("flame graphs checked", 0, 1)
				if td == "" {
					tdOK++
				} else if tdBad++; tdFirst == "" {
					tdFirst, tdPerm = td, perm
				}
				if pd == "" {
					pdOK++
				} else if pdBad++; pdFirst == "" {
					pdFirst, pdPerm = pd, perm
				}
			}
			// one call with the unaggregated rows of all members, globally shuffled
			{
				var all [][]any
				var allF [][]any
				for _, d := range ms.order {
					m := ms.members[d]
					if !m.has(tn) {
						continue
					}
					rows, fns := m.rowsFor(tn, r.Perm(len(m.pd.Tree)))
					all = append(all, rows...)
					allF = append(allF, fns...)
				}
				r.Shuffle(len(all), func(a, b int) { all[a], all[b] = all[b], all[a] })
				tree := rservice.NewTree()
				tree.SampleTypes = []string{tn}
				tree.MergeTrie(all, allF, tn)
				td, pd, bars := judgeTree(rp, "direct", tn, tree, ref, wantPaths, nil)
				c.Event("flame bars checked", bars)
				c.Floor("flame graphs checked", 0, 1)
				if td != "" {
					tdBad++
					if tdFirst == "" {
						tdFirst = td + " (single call, all rows shuffled)"
					}
				} else {
					tdOK++
				}
				if pd != "" {
					pdBad++
					if pdFirst == "" {
						pdFirst = pd + " (single call, all rows shuffled)"
					}
				} else {
					pdOK++
				}
			}
			if tdBad > 0 {
				sig := "merge/totals≠sum-of-inputs/direct"
				if tdOK > 0 {
					sig = "merge/order-dependent/direct"
				}
				rp.violation(sig, fmt.Sprintf("type %s: merged tree ≠ Σ of the %d inputs in %d of %d merge/row orders (first: order %v): %s", tn, inputs, tdBad, tdBad+tdOK, tdPerm, tdFirst), map[string]any{"sample_type": tn, "perm": tdPerm})
			}
			if pdBad > 0 {
				sig := "flame/totals≠sum-of-inputs/direct"
				if pdOK > 0 {
					sig = "flame/order-dependent/direct"
				}
				rp.violation(sig, fmt.Sprintf("type %s: flame graph totals by name path ≠ Σ of the %d inputs in %d of %d merge/row orders (first: order %v): %s", tn, inputs, pdBad, pdBad+pdOK, pdPerm, pdFirst), map[string]any{"sample_type": tn, "perm": pdPerm})
			}
			if len(sampleOut) == 0 {
				sampleOut = map[string]any{"sample_type": tn, "inputs": inputs, "merged_nodes": len(ref.vals), "root_total": ref.rootTotal(), "orders": len(perms) + 1, "non_zero_paths": len(wantPaths)}
			}
		}
		// ---------------- SQL feed: the real statement on E-CHSQL
		sqlPerms := [][]int{perms[0]}
		if len(perms) > 1 {
			sqlPerms = append(sqlPerms, perms[1+r.Intn(len(perms)-1)])
		}
		m0 := ms.members[0]
		w := window{selector: fmt.Sprintf("{service_name=%q, grp=%q}", ms.fam.Service, ms.fam.ID),
			from: time.Unix(ms.fam.BaseSec-60, 0), to: time.Unix(ms.fam.BaseSec+3600, 0)}
		for pi, perm := range sqlPerms {
			var inOrder []*member
			for _, pos := range perm {
				inOrder = append(inOrder, ms.members[ms.order[pos]])
			}
			if err := feed.fill(r, inOrder); err != nil {
				undecide("E-CHSQL: cannot model the profiles table", err.Error())
				break
			}
			seqFG := map[string]*prof.FlameGraph{}
			var allW []window
			for _, tn := range tnames {
				ti := indexOf(tnames, tn)
				w.typeID = fmt.Sprintf("%s:%s:%s:%s:%s", m0.pd.Ptype[0], ms.fam.Types[ti][0], ms.fam.Types[ti][1], m0.pd.PeriodType[0], m0.pd.PeriodUnit[0])
				rows, fns, tree, err := feed.replica(w, tn)
				if err != nil {
					undecide("E-CHSQL: merge statement not executed", clip(err.Error(), 200))
					continue
				}
				c.Floor("merge: sql feed (replica)", 0, 1)
				c.Event("merge statements executed by E-CHSQL", 1)
				ref := refs[tn]
				got := newAgg()
				got.addRows(rows, fns)
				if len(got.vals) != len(rows) {
					undecide("oracle disagreement: the merge statement returned two rows for one (parent, function, node)", fmt.Sprintf("type %s: %d rows, %d keys", tn, len(rows), len(got.vals)))
				}
				if d := diffTables(got.vals, ref.vals, ref.names); d != "" {
					undecide("oracle disagreement: rows of the merge statement (E-CHSQL) ≠ direct fold over the same stored trees", fmt.Sprintf("type %s: %s; statement: %s", tn, d, clip(feed.lastReplica(), 300)))
				} else if !reflect.DeepEqual(fnSet(fns), ref.names) {
					undecide("oracle disagreement: functions of the merge statement (E-CHSQL) ≠ functions of the inputs", fmt.Sprintf("type %s: %d vs %d", tn, len(fns), len(ref.names)))
				}
				if !sort.SliceIsSorted(rows, func(a, b int) bool { return rows[a][0].(uint64) < rows[b][0].(uint64) }) {
					undecide("oracle disagreement: merge statement rows not ordered by parent id", tn)
				}
				// the merge/layout code is judged relative to the rows it was given
				wantPaths, _ := got.byPath()
				td, pd, bars := judgeTree(rp, "sql", tn, tree, got, wantPaths, perm)
				c.Event("flame bars checked", bars)
				c.Floor("flame graphs checked", 0, 1)
				if td != "" {
					rp.violation("merge/totals≠sum-of-inputs/sql", fmt.Sprintf("type %s: tree built from the merge statement's rows ≠ those rows: %s", tn, td), map[string]any{"sample_type": tn, "perm": perm})
				}
				if pd != "" {
					rp.violation("flame/totals≠sum-of-inputs/sql", fmt.Sprintf("type %s: flame graph totals by name path ≠ the merge statement's rows: %s", tn, pd), map[string]any{"sample_type": tn, "perm": perm})
				}
				if pi != 0 {
					continue
				}
				// the real entry point over the scripted driver
				fg, err := feed.service(w)
				if err != nil {
					undecide("real MergeStackTraces over E-CHSQL failed", clip(err.Error(), 200))
					continue
				}
				c.Floor("merge: sql feed (real service)", 0, 1)
				seqFG[tn] = fg
				allW = append(allW, w)
				lv := levelsOf(fg.Levels)
				paths, fs, bars := checkFlame(fg.Names, lv, got.rootTotal())
				c.Event("flame bars checked", bars)
				c.Floor("flame graphs checked", 0, 1)
				for _, f := range fs {
					rp.violation(f.Sig+"/service", fmt.Sprintf("type %s (ProfService.MergeStackTraces): %s", tn, f.Desc), map[string]any{"sample_type": tn, "levels_head": headLevels(lv, 6)})
				}
				if fg.Total != got.rootTotal() {
					rp.violation("flame/total≠sum-of-inputs/service", fmt.Sprintf("type %s: FlameGraph.Total = %d, Σ root totals of the inputs = %d", tn, fg.Total, got.rootTotal()), map[string]any{"sample_type": tn})
				}
				if d := diffPaths(paths, wantPaths); d != "" {
					rp.violation("flame/totals≠sum-of-inputs/service", fmt.Sprintf("type %s (ProfService.MergeStackTraces): flame graph totals by name path ≠ Σ inputs: %s", tn, d), map[string]any{"sample_type": tn})
				}
				if !reflect.DeepEqual(lv, levelsOf(tree.BFS(tn))) || !reflect.DeepEqual(fg.Names, tree.Names) {
					undecide("replica of getTree and the real MergeStackTraces returned different flame graphs for the same statement", tn)
				}
				// the diff of the selection with itself: both sides weigh Σ inputs, every bar has the same width on both
				// sides, and each level's bars add up to no more than the level above
				if dl, lt, rt, err := feed.diffSelf(w); err != nil {
					undecide("RenderDiff of a selection with itself failed", clip(err.Error(), 200))
				} else {
					c.Floor("diffs of a selection with itself checked", 0, 1)
					bad := ""
					if lt != got.rootTotal() || rt != got.rootTotal() {
						bad = fmt.Sprintf("leftTicks %d, rightTicks %d, Σ root totals of the inputs %d", lt, rt, got.rootTotal())
					}
					prevSum := int64(-1)
					for li, lv := range dl {
						if len(lv)%7 != 0 {
							bad = fmt.Sprintf("level %d has %d values (not a multiple of 7)", li, len(lv))
							break
						}
						var sum int64
						for j := 0; j+6 < len(lv) && bad == ""; j += 7 {
							if lv[j+1] != lv[j+4] || lv[j+2] != lv[j+5] {
								bad = fmt.Sprintf("level %d bar %d: left total/self %d/%d, right total/self %d/%d for one and the same selection", li, j/7, lv[j+1], lv[j+2], lv[j+4], lv[j+5])
							}
							sum += lv[j+1]
						}
						if bad == "" && prevSum >= 0 && sum > prevSum {
							bad = fmt.Sprintf("the bars of level %d add up to %d, those of level %d to %d", li, sum, li-1, prevSum)
						}
						if bad == "" && li == 1 && sum+0 > got.rootTotal() {
							bad = fmt.Sprintf("the bars of level 1 add up to %d, Σ inputs %d", sum, got.rootTotal())
						}
						if bad != "" {
							break
						}
						prevSum = sum
					}
					if bad == "" && len(dl) > 1 && len(wantPaths) > 0 {
						// level 1 holds the roots: their widths add up to Σ of the inputs' root totals
						var s1 int64
						for j := 0; j+6 < len(dl[1]); j += 7 {
							s1 += dl[1][j+1]
						}
						if s1 != got.rootTotal() {
							bad = fmt.Sprintf("the root bars add up to %d, Σ root totals of the inputs %d", s1, got.rootTotal())
						}
					}
					if bad != "" {
						rp.violation("diff/self-diff-inconsistent/service", fmt.Sprintf("type %s (ProfService.RenderDiff of a selection with itself): %s", tn, bad), map[string]any{"sample_type": tn, "levels_head": headLevels(dl, 4)})
					}
				}
				// the same question through the controller with the request's node limit set: whatever a reader leaves out
				// of the drawing, the weight stays (level 0 = Σ inputs) and every bar lies inside its parent
				for _, mn := range []int64{int64(max(bars/2, 1)), 3} {
					if bars < 4 {
						break
					}
					fgn, err := feed.serviceHTTP(w, mn)
					if err != nil {
						undecide("SelectMergeStacktraces through the controller failed", clip(err.Error(), 200))
						break
					}
					c.Floor("flame graphs asked for with max_nodes below their node count", 0, 1)
					lvn := levelsOf(fgn.Levels)
					_, fsn, _ := checkFlame(fgn.Names, lvn, got.rootTotal())
					for _, f := range fsn {
						rp.violation(f.Sig+"/max_nodes", fmt.Sprintf("type %s (SelectMergeStacktraces with max_nodes=%d, %d bars without the limit): %s", tn, mn, bars, f.Desc), map[string]any{"sample_type": tn, "max_nodes": mn, "levels_head": headLevels(lvn, 6)})
					}
					if fgn.Total != got.rootTotal() {
						rp.violation("flame/total≠sum-of-inputs/max_nodes", fmt.Sprintf("type %s: FlameGraph.Total = %d with max_nodes=%d, Σ root totals of the inputs = %d", tn, fgn.Total, mn, got.rootTotal()), map[string]any{"sample_type": tn, "max_nodes": mn})
					}
				}
			}
			// the sample types of one profile type asked for at the same time (two panels of one dashboard): every
			// caller must get the flame graph of ITS sample type, i.e. what the same request returned on its own
			if pi == 0 && len(allW) >= 2 && len(allW) == len(tnames) {
				fgs, errs := feed.serviceConcurrently(allW)
				for k, tn := range tnames {
					if errs[k] != nil {
						undecide("real MergeStackTraces over E-CHSQL failed (concurrent requests)", clip(errs[k].Error(), 200))
						continue
					}
					c.Floor("merge: sample types requested concurrently", 0, 1)
					want := seqFG[tn]
					if fgs[k].Total != want.Total || !reflect.DeepEqual(levelsOf(fgs[k].Levels), levelsOf(want.Levels)) || !reflect.DeepEqual(fgs[k].Names, want.Names) {
						rp.violation("flame/concurrent-request-answered-with-another-tree/service", fmt.Sprintf("type %s (ProfService.MergeStackTraces, %d sample types requested at the same time): total %d and %d levels, the same request on its own: total %d and %d levels (Σ inputs %d)",
							tn, len(tnames), fgs[k].Total, len(fgs[k].Levels), want.Total, len(want.Levels), refs[tn].rootTotal()), map[string]any{"sample_type": tn, "requested_together": tnames})
					}
				}
			}
		}
		if cfg.Start == 0 && i < 3 {
			sampleOut["kind"] = "merge"
			sampleOut["multiset_index"] = mi
			sampleOut["size"], sampleOut["distinct"], sampleOut["order"] = size, k, ms.order
			sampleOut["statement"] = clip(feed.lastReplica(), 700)
			c.Sample(sampleOut)
		}
		c.Floor("multisets merged and judged", 0, 1)
		c.EndCase(mi)
	}
}

func indexOf(s []string, v string) int {
	for i, x := range s {
		if x == v {
			return i
		}
	}
	return -1
}

func fnSet(fns [][]any) map[uint64]string {
	out := map[uint64]string{}
	for _, f := range fns {
		id := f[0].(uint64)
		if _, ok := out[id]; !ok {
			out[id] = f[1].(string)
		}
	}
	return out
}
