package c16

import (
	"fmt"
	"math/rand"
	"strings"

	"verif/harness/engines/gen"
)

// spec is the structural class of one generated profile (the c.Case key is derived from it).
type spec struct {
	Types     int    `json:"types"`
	Samples   int    `json:"samples"`
	Depth     string `json:"depth"` // shallow 1–8 | mid 9–60 | deep 61–511 | over 512–600
	Rec       string `json:"rec"`   // none | direct | indirect | both
	Shared    bool   `json:"shared"`
	NoLine    bool   `json:"noline"`
	MultiLine bool   `json:"multiline"`
	Depth0    bool   `json:"depth0"` // at least one sample without any frame
	BigVals   bool   `json:"bigvals"`
	Funcs     int    `json:"funcs"`
}

func samplesClass(n int) string {
	switch {
	case n == 0:
		return "0"
	case n == 1:
		return "1"
	case n <= 10:
		return "2-10"
	case n <= 50:
		return "11-50"
	}
	if n <= 200 {
		return "51-200"
	}
	if n < 2048 {
		return "201-2047"
	}
	return "2048+"
}

func (s spec) key() string {
	return fmt.Sprintf("types=%d|samples=%s|depth=%s|rec=%s|shared=%v|noline=%v|multiline=%v|depth0=%v", s.Types, samplesClass(s.Samples), s.Depth, s.Rec, s.Shared, s.NoLine, s.MultiLine, s.Depth0)
}

var sampleTypeNames = [][2]string{{"samples", "count"}, {"cpu", "nanoseconds"}, {"alloc_objects", "count"}, {"alloc_space", "bytes"}, {"inuse_space", "bytes"}, {"inuse_objects", "count"}}
var periodTypes = [][2]string{{"cpu", "nanoseconds"}, {"space", "bytes"}, {"goroutine", "count"}, {"block", "count"}, {"contentions", "count"}, {"wall", "nanoseconds"}}

// forced classes: the first indexes of every run pin the floors (depth > 511, recursion, shared
// frames, missing line info, 0 samples, multi-line, depth-0), the rest is PRNG-chosen.
func chooseSpec(r *rand.Rand, gi int) spec {
	s := spec{Types: 1 + r.Intn(4), Rec: "none", Funcs: 2 + r.Intn(14)}
	switch x := r.Intn(100); {
	case x < 6:
		s.Samples = 0
	case x < 14:
		s.Samples = 1
	case x < 55:
		s.Samples = 2 + r.Intn(9)
	case x < 88:
		s.Samples = 11 + r.Intn(40)
	default:
		s.Samples = 51 + r.Intn(150)
	}
	switch x := r.Intn(100); {
	case x < 45:
		s.Depth = "shallow"
	case x < 75:
		s.Depth = "mid"
	case x < 90:
		s.Depth = "deep"
	default:
		s.Depth = "over"
	}
	switch r.Intn(6) {
	case 0, 1:
		s.Rec = "direct"
	case 2:
		s.Rec = "indirect"
	case 3:
		s.Rec = "both"
	}
	s.Shared = r.Intn(3) != 0
	s.NoLine = r.Intn(3) == 0
	s.MultiLine = r.Intn(3) == 0
	s.Depth0 = r.Intn(8) == 0
	s.BigVals = r.Intn(10) == 0
	switch gi % 1000 {
	case 0:
		s.Depth, s.Samples = "over", max(s.Samples, 3)
	case 1:
		s.Rec, s.Samples = "direct", max(s.Samples, 3)
	case 2:
		s.Rec, s.Samples = "indirect", max(s.Samples, 3)
	case 3:
		s.Shared, s.Samples = true, max(s.Samples, 5)
	case 4:
		s.NoLine, s.Samples = true, max(s.Samples, 5)
	case 5:
		s.Samples = 0
	case 6:
		s.MultiLine, s.Samples = true, max(s.Samples, 5)
	case 7:
		s.Depth0, s.Samples = true, max(s.Samples, 3)
	case 8:
		s.Types, s.Samples, s.Depth = 4, 200, "over" // the largest class
	case 9:
		s.Depth, s.Rec, s.Samples, s.Funcs = "over", "direct", max(s.Samples, 2), 2
	}
	// big flat profiles (a heap or CPU profile of a large service has thousands of samples): shallow
	// stacks keep them cheap
	switch gi % 50 {
	case 17:
		s.Samples, s.Depth = 2048+r.Intn(3000), "shallow"
	case 41:
		s.Samples, s.Depth = 201+r.Intn(1800), "shallow"
	}
	if s.Samples == 0 {
		s.Depth0 = false
	}
	// keep the heavy corner (many samples × very deep) rare: it costs ≈ 100 k frames
	if s.Depth == "over" && s.Samples > 60 && gi%1000 != 8 {
		s.Samples = 2 + r.Intn(40)
	}
	if s.Depth == "deep" && s.Samples > 100 {
		s.Samples = 11 + r.Intn(60)
	}
	return s
}

func depthOf(r *rand.Rand, class string) int {
	switch class {
	case "shallow":
		return 1 + r.Intn(8)
	case "mid":
		return 9 + r.Intn(52)
	case "deep":
		switch r.Intn(6) {
		case 0:
			return 511
		case 1:
			return 510
		}
		return 61 + r.Intn(451)
	}
	switch r.Intn(5) {
	case 0:
		return 512
	case 1:
		return 600
	}
	return 513 + r.Intn(87)
}

// family fixes what profiles of one merge multiset share (names, types, identity).
type family struct {
	ID      string
	Types   [][2]string
	Period  [2]string
	Funcs   []string
	Service string
	BaseSec int64
}

func newFamily(r *rand.Rand, id string, nTypes, nFuncs int) family {
	f := family{ID: id, Service: "svc_" + id, BaseSec: 1700000000 + int64(r.Intn(80000))}
	perm := r.Perm(len(sampleTypeNames))
	for i := 0; i < nTypes; i++ {
		f.Types = append(f.Types, sampleTypeNames[perm[i]])
	}
	f.Period = periodTypes[r.Intn(len(periodTypes))]
	for i := 0; i < nFuncs; i++ {
		f.Funcs = append(f.Funcs, fmt.Sprintf("pkg%d.(*T).fn%d", i%3, i))
	}
	return f
}

// build draws the stacks of one profile of the family according to s. It returns the abstract
// case and what the draw really contains (observed features, used for floors and case keys).
type observed struct {
	MaxDepth   int  `json:"max_depth"`
	Direct     bool `json:"direct_recursion"`
	Indirect   bool `json:"indirect_recursion"`
	SharedPref bool `json:"shared_prefix"`
	SharedFn   bool `json:"shared_function_other_position"`
	NoLine     bool `json:"noline"`
	MultiLine  bool `json:"multiline"`
	Depth0     int  `json:"depth0_samples"`
	DupStacks  bool `json:"duplicate_stacks"`
	Frames     int  `json:"frames"`
}

func buildCase(r *rand.Rand, f family, s spec, pid string) (gen.ProfCase, observed) {
	pc := gen.ProfCase{ID: pid, SampleTypes: f.Types, PeriodType: f.Period, Funcs: f.Funcs, FromSec: f.BaseSec, UntilSec: f.BaseSec + 10,
		Service: f.Service, Tags: [][2]string{{"grp", f.ID}, {"pid", pid}}}
	nf := len(f.Funcs)
	var ob observed
	overDone := false
	for i := 0; i < s.Samples; i++ {
		st := gen.ProfStack{}
		d := depthOf(r, s.Depth)
		if s.Depth == "over" {
			// one guaranteed over-deep stack, the others mixed
			if overDone && r.Intn(3) != 0 {
				d = depthOf(r, []string{"shallow", "mid", "deep"}[r.Intn(3)])
			}
			overDone = true
		} else if s.Depth != "shallow" && r.Intn(3) == 0 {
			d = depthOf(r, "shallow")
		}
		if s.Depth0 && (i == 0 || r.Intn(10) == 0) {
			d = 0
		}
		// exact duplicate of an earlier stack
		if i > 0 && r.Intn(12) == 0 {
			prev := pc.Stacks[r.Intn(i)]
			st.Frames = append(st.Frames, prev.Frames...)
			st.NoLine = append(st.NoLine, prev.NoLine...)
			ob.DupStacks = ob.DupStacks || len(prev.Frames) > 0
			d = -1
		}
		if d > 0 && s.Shared && i > 0 && r.Intn(3) != 0 {
			prev := pc.Stacks[r.Intn(i)]
			if len(prev.Frames) > 0 {
				k := 1 + r.Intn(min(len(prev.Frames), d))
				st.Frames = append(st.Frames, prev.Frames[:k]...)
				st.NoLine = append(st.NoLine, prev.NoLine[:k]...)
			}
		}
		for d > 0 && len(st.Frames) < d {
			j := len(st.Frames)
			fn := r.Intn(nf)
			switch {
			case (s.Rec == "direct" || s.Rec == "both") && j > 0 && r.Intn(3) == 0:
				// run of the same function
				run := 1 + r.Intn(4)
				if r.Intn(10) == 0 {
					run = d
				}
				for k := 0; k < run && len(st.Frames) < d; k++ {
					st.Frames = append(st.Frames, st.Frames[j-1])
					st.NoLine = append(st.NoLine, false)
				}
				continue
			case (s.Rec == "indirect" || s.Rec == "both") && j > 1 && r.Intn(3) == 0:
				// repeat the last cycle of length 2 or 3: a→b→a→b / a→b→c→a→b→c
				cl := 2 + r.Intn(2)
				if cl > j {
					cl = j
				}
				reps := (1 + r.Intn(3)) * cl
				if r.Intn(10) == 0 {
					reps = d
				}
				for k := 0; k < reps && len(st.Frames) < d; k++ {
					st.Frames = append(st.Frames, st.Frames[len(st.Frames)-cl])
					st.NoLine = append(st.NoLine, false)
				}
				continue
			}
			st.Frames = append(st.Frames, fn)
			st.NoLine = append(st.NoLine, s.NoLine && r.Intn(5) == 0)
		}
		for t := 0; t < len(f.Types); t++ {
			v := int64(r.Intn(1000))
			switch {
			case r.Intn(15) == 0:
				v = 0
			case s.BigVals:
				v = int64(r.Intn(1000)) * 1_000_000_000
			}
			st.Values = append(st.Values, v)
		}
		pc.Stacks = append(pc.Stacks, st)
	}
	// observed features
	seenPref := map[string]bool{}
	fnDepth := map[int]int{}
	for _, st := range pc.Stacks {
		if len(st.Frames) == 0 {
			ob.Depth0++
			continue
		}
		ob.Frames += len(st.Frames)
		ob.MaxDepth = max(ob.MaxDepth, len(st.Frames))
		lastAt := map[int]int{}
		var pk strings.Builder
		for j, fn := range st.Frames {
			if st.NoLine[j] {
				ob.NoLine = true
			}
			if s.MultiLine && !st.NoLine[j] && fn%3 == 0 {
				ob.MultiLine = true
			}
			if j > 0 && st.Frames[j-1] == fn {
				ob.Direct = true
			} else if k, ok := lastAt[fn]; ok && k < j-1 {
				ob.Indirect = true
			}
			lastAt[fn] = j
			if dd, ok := fnDepth[fn]; ok && dd != j {
				ob.SharedFn = true
			}
			fnDepth[fn] = j
			if j < 8 {
				fmt.Fprintf(&pk, "%d/%v,", fn, st.NoLine[j])
				if j == 1 {
					if seenPref[pk.String()] {
						ob.SharedPref = true
					}
					seenPref[pk.String()] = true
				}
			}
		}
	}
	return pc, ob
}

// frameNames returns the function names a frame may legitimately be stored under, root first,
// for the interpretation `mode` of multi-line (inlined) locations:
//
//	first  – Line[0] only (what the writer does)
//	last   – the last line only (the physical caller)
//	expand – one node per line, callers first (pprof semantics: Line[last] calls … calls Line[0])
//
// gen.ProfCase.Build gives a location with line info Line[0] = Funcs[f] and, when multiLine
// and f%3 == 0, a second line Funcs[(f+1)%len].
func frameNames(pc *gen.ProfCase, st *gen.ProfStack, j int, multiLine bool, mode string) []string {
	if st.NoLine[j] {
		return []string{"n/a"}
	}
	f := st.Frames[j]
	if !multiLine || f%3 != 0 {
		return []string{pc.Funcs[f]}
	}
	second := pc.Funcs[(f+1)%len(pc.Funcs)]
	switch mode {
	case "last":
		return []string{second}
	case "expand":
		return []string{second, pc.Funcs[f]}
	}
	return []string{pc.Funcs[f]}
}
