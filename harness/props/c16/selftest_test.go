package c16

import (
	"math/rand"
	"testing"

	wmodel "github.com/metrico/qryn/writer/model"

	"verif/harness/engines/gen"
)

// Self-tests of the monitors on hand-made inputs (independent of qryn's code).

func sigs(fs []finding) map[string]bool {
	m := map[string]bool{}
	for _, f := range fs {
		m[f.Sig] = true
	}
	return m
}

func TestCheckFlameAcceptsValid(t *testing.T) {
	// total 10: a[0,6) (self 1: children b[0,3) c[3,5)), d[7,10) after a gap of 1 (self of root… no: gap)
	names := []string{"total", "n/a", "a", "b", "c", "d", "z"}
	levels := [][]int64{
		{0, 10, 0, 0},
		{0, 6, 1, 2, 1, 3, 3, 5},
		{0, 3, 3, 3, 0, 2, 2, 4, 0, 0, 0, 6}, // z: zero-width bar at x=5 (inside a's closed span)
		{},
	}
	paths, fs, bars := checkFlame(names, levels, 10)
	if len(fs) != 0 {
		t.Fatalf("valid graph flagged: %+v", fs)
	}
	if bars != 5 {
		t.Fatalf("bars=%d", bars)
	}
	want := map[string]pv{"\x00a": {1, 6}, "\x00d": {3, 3}, "\x00a\x00b": {3, 3}, "\x00a\x00c": {2, 2}}
	if d := diffPaths(paths, want); d != "" {
		t.Fatal(d)
	}
}

func TestCheckFlameFlags(t *testing.T) {
	names := []string{"total", "n/a", "a", "b", "c"}
	cases := []struct {
		name   string
		levels [][]int64
		root   int64
		sig    string
	}{
		{"child wider than parent", [][]int64{{0, 10, 0, 0}, {0, 4, 0, 2}, {0, 5, 5, 3}}, 10, "flame/bar-outside-parent"},
		{"child in the gap between parents", [][]int64{{0, 10, 0, 0}, {0, 4, 4, 2, 2, 4, 0, 3}, {4, 2, 2, 4}}, 10, "flame/bar-outside-parent"},
		{"second child not shifted", [][]int64{{0, 10, 0, 0}, {0, 4, 0, 2, 0, 6, 0, 3}, {0, 4, 4, 4, 0, 6, 6, 4}}, 10, ""},
		{"overlap", [][]int64{{0, 10, 0, 0}, {0, 6, 6, 2, -2, 4, 4, 3}}, 10, "flame/bars-overlap"},
		{"self > total", [][]int64{{0, 10, 0, 0}, {0, 6, 7, 2}}, 10, "flame/self>total"},
		{"unresolved name", [][]int64{{0, 10, 0, 0}, {0, 6, 6, 0}}, 10, "flame/name-unresolved"},
		{"name out of range", [][]int64{{0, 10, 0, 0}, {0, 6, 6, 9}}, 10, "flame/name-unresolved"},
		{"root total", [][]int64{{0, 9, 0, 0}, {0, 6, 6, 2}}, 10, "flame/root-total≠sum-of-inputs"},
		{"level format", [][]int64{{0, 10, 0, 0}, {0, 6, 6}}, 10, "flame/level-format"},
	}
	for _, c := range cases {
		_, fs, _ := checkFlame(names, c.levels, c.root)
		if c.sig == "" {
			if len(fs) != 0 {
				t.Errorf("%s: flagged %+v", c.name, fs)
			}
			continue
		}
		if !sigs(fs)[c.sig] {
			t.Errorf("%s: want %s, got %+v", c.name, c.sig, fs)
		}
	}
}

func storedOf(rows [][5]int64, names map[uint64]string) ([]wmodel.TreeRootStructure, []wmodel.Function) {
	var tr []wmodel.TreeRootStructure
	for _, r := range rows {
		tr = append(tr, wmodel.TreeRootStructure{Field1: uint64(r[0]), Field2: uint64(r[1]), Field3: uint64(r[2]),
			ValueArrTuple: []wmodel.ValuesArrTuple{{ValueStr: "samples:count", FirstValueInt64: r[3], SecondValueInt64: r[4]}}})
	}
	var fn []wmodel.Function
	for id, n := range names {
		fn = append(fn, wmodel.Function{ValueInt64: id, ValueStr: n})
	}
	return tr, fn
}

func TestStoredTreeMonitors(t *testing.T) {
	pc := gen.ProfCase{SampleTypes: [][2]string{{"samples", "count"}}, Funcs: []string{"a", "b", "c"}, Stacks: []gen.ProfStack{
		{Frames: []int{0, 1}, NoLine: []bool{false, false}, Values: []int64{5}},
		{Frames: []int{0, 2}, NoLine: []bool{false, false}, Values: []int64{7}},
		{Frames: []int{0}, NoLine: []bool{false}, Values: []int64{1}},
		{Frames: []int{}, NoLine: []bool{}, Values: []int64{100}}, // depth-0: excluded
	}}
	names := map[uint64]string{11: "a", 12: "b", 13: "c"}
	good := [][5]int64{{0, 11, 101, 1, 13}, {101, 12, 102, 5, 5}, {101, 13, 103, 7, 7}}
	check := func(rows [][5]int64) map[string]bool {
		tr, fn := storedOf(rows, names)
		st := loadStored([]string{"samples:count"}, tr, fn)
		framed, _, _ := sums(&pc)
		fs := st.checkConservation(framed)
		j, _ := st.matchTrie(expectedTrie(&pc, false, "first"))
		return sigs(append(fs, j...))
	}
	if s := check(good); len(s) != 0 {
		t.Fatalf("good tree flagged: %v", s)
	}
	if s := check([][5]int64{{0, 11, 101, 13, 13}, {101, 12, 102, 5, 5}, {101, 13, 103, 7, 7}}); !s["tree/total≠self+children"] || !s["tree/path-values"] {
		t.Errorf("self on every frame not flagged: %v", s)
	}
	if s := check([][5]int64{{0, 11, 101, 1, 12}, {101, 12, 102, 5, 5}, {101, 13, 103, 6, 6}}); !s["tree/roots≠profile-sum"] {
		t.Errorf("lost weight not flagged: %v", s)
	}
	if s := check([][5]int64{{0, 11, 101, 1, 13}, {101, 12, 102, 5, 5}, {999, 13, 103, 7, 7}}); !s["tree/total≠self+children"] || !s["tree/path-missing"] {
		t.Errorf("orphan not flagged: %v", s)
	}
	if s := check([][5]int64{{0, 11, 101, 1, 13}, {101, 12, 102, 5, 5}, {101, 14, 103, 7, 7}}); !s["tree/function-unresolved"] {
		t.Errorf("unresolved function not flagged: %v", s)
	}
	if s := check([][5]int64{{0, 11, 101, 1, 13}, {101, 13, 102, 5, 5}, {101, 12, 103, 7, 7}}); !s["tree/path-values"] {
		t.Errorf("swapped names not flagged: %v", s)
	}
}

func TestGeneratorReachesClasses(t *testing.T) {
	seen := map[string]bool{}
	for gi := 0; gi < 40; gi++ {
		r := rand.New(rand.NewSource(int64(gi)))
		s := chooseSpec(r, gi)
		fam := newFamily(r, "t", s.Types, s.Funcs)
		pc, ob := buildCase(r, fam, s, "t")
		if len(pc.Stacks) != s.Samples {
			t.Fatalf("samples %d≠%d", len(pc.Stacks), s.Samples)
		}
		for _, st := range pc.Stacks {
			if len(st.Frames) != len(st.NoLine) || len(st.Values) != s.Types || len(st.Frames) > 600 {
				t.Fatalf("malformed stack: %d frames %d noline %d values", len(st.Frames), len(st.NoLine), len(st.Values))
			}
		}
		if ob.MaxDepth > levelClamp {
			seen["over"] = true
		}
		if ob.Depth0 > 0 {
			seen["depth0"] = true
		}
		if len(pc.Stacks) == 0 {
			seen["empty"] = true
		}
	}
	for _, k := range []string{"over", "depth0", "empty"} {
		if !seen[k] {
			t.Errorf("class %s not generated in 40 cases", k)
		}
	}
}
