package c16

import (
	"fmt"
	"sort"
	"strings"

	wmodel "github.com/metrico/qryn/writer/model"

	"verif/harness/engines/gen"
)

const levelClamp = 511 // getNodeId clamps the level it hashes into the node id

// ---------------------------------------------------------------- expected call tree (reference fold)

// trie is the call tree of an abstract case, keyed by the path of function names.
type trie struct {
	nodes []tnode // nodes[0] is the synthetic root
	nT    int
}

type tnode struct {
	name     string
	parent   int
	depth    int
	children map[string]int
	self     []int64
	total    []int64
	seen     bool
}

func newTrie(nT int) *trie {
	return &trie{nodes: []tnode{{children: map[string]int{}, self: make([]int64, nT), total: make([]int64, nT)}}, nT: nT}
}

func (t *trie) child(p int, name string) int {
	if c, ok := t.nodes[p].children[name]; ok {
		return c
	}
	t.nodes = append(t.nodes, tnode{name: name, parent: p, depth: t.nodes[p].depth + 1, children: map[string]int{}, self: make([]int64, t.nT), total: make([]int64, t.nT)})
	c := len(t.nodes) - 1
	t.nodes[p].children[name] = c
	return c
}

func (t *trie) addStack(names []string, vals []int64) {
	if len(names) == 0 {
		return
	}
	p := 0
	for _, n := range names {
		p = t.child(p, n)
		for k, v := range vals {
			t.nodes[p].total[k] += v
		}
	}
	for k, v := range vals {
		t.nodes[p].self[k] += v
	}
}

func (t *trie) path(i int) string {
	var parts []string
	for ; i != 0; i = t.nodes[i].parent {
		parts = append(parts, t.nodes[i].name)
	}
	for l, r := 0, len(parts)-1; l < r; l, r = l+1, r-1 {
		parts[l], parts[r] = parts[r], parts[l]
	}
	if len(parts) > 12 {
		return strings.Join(parts[:6], ";") + fmt.Sprintf(";…(%d)…;", len(parts)-12) + strings.Join(parts[len(parts)-6:], ";")
	}
	return strings.Join(parts, ";")
}

// expectedTrie folds the abstract case: total on every frame of a stack, self on its leaf.
func expectedTrie(pc *gen.ProfCase, multiLine bool, mode string) *trie {
	t := newTrie(len(pc.SampleTypes))
	for si := range pc.Stacks {
		st := &pc.Stacks[si]
		var names []string
		for j := range st.Frames {
			names = append(names, frameNames(pc, st, j, multiLine, mode)...)
		}
		t.addStack(names, st.Values)
	}
	return t
}

// sums returns Σ values over samples with ≥ 1 frame, over all samples, and the number of depth-0 samples.
func sums(pc *gen.ProfCase) (framed, all []int64, depth0 int) {
	framed, all = make([]int64, len(pc.SampleTypes)), make([]int64, len(pc.SampleTypes))
	for _, st := range pc.Stacks {
		for k, v := range st.Values {
			all[k] += v
			if len(st.Frames) > 0 {
				framed[k] += v
			}
		}
		if len(st.Frames) == 0 {
			depth0++
		}
	}
	return
}

// ---------------------------------------------------------------- stored tree (what the parser emitted)

type snode struct {
	Parent, Fn, ID uint64
	Self, Total    []int64 // per sample type, looked up by name like the reader's SQL does (first match)
	Rows           int     // number of tree rows carrying this (parent, fn, id)
}

type stored struct {
	types    []string // "type:unit"
	nodes    map[[3]uint64]*snode
	order    [][3]uint64
	children map[uint64][]*snode // by parent id
	byID     map[uint64][]*snode
	names    map[uint64]string
	dupFn    []uint64
}

// valueOf mirrors `arrayFirst(y -> y.1 == '<type:unit>', x.4)`: first tuple of that name, else zeros.
func valueOf(vs []wmodel.ValuesArrTuple, name string) (self, total int64) {
	for _, v := range vs {
		if v.ValueStr == name {
			return v.FirstValueInt64, v.SecondValueInt64
		}
	}
	return 0, 0
}

// loadStored aggregates the tree rows by (parent, function, node) – what `GROUP BY rtree.1,
// rtree.2, rtree.3` + `sum` does with the rows of one profile.
func loadStored(types []string, tree []wmodel.TreeRootStructure, fns []wmodel.Function) *stored {
	s := &stored{types: types, nodes: map[[3]uint64]*snode{}, children: map[uint64][]*snode{}, byID: map[uint64][]*snode{}, names: map[uint64]string{}}
	for _, f := range fns {
		if old, ok := s.names[f.ValueInt64]; ok && old != f.ValueStr {
			s.dupFn = append(s.dupFn, f.ValueInt64)
			continue // the reader keeps the first name of an id
		}
		s.names[f.ValueInt64] = f.ValueStr
	}
	for _, row := range tree {
		k := [3]uint64{row.Field1, row.Field2, row.Field3}
		n := s.nodes[k]
		if n == nil {
			n = &snode{Parent: row.Field1, Fn: row.Field2, ID: row.Field3, Self: make([]int64, len(types)), Total: make([]int64, len(types))}
			s.nodes[k] = n
			s.order = append(s.order, k)
			s.children[n.Parent] = append(s.children[n.Parent], n)
			s.byID[n.ID] = append(s.byID[n.ID], n)
		}
		n.Rows++
		for i, tn := range types {
			sf, tt := valueOf(row.ValueArrTuple, tn)
			n.Self[i] += sf
			n.Total[i] += tt
		}
	}
	return s
}

type finding struct {
	Sig  string
	Desc string
}

// checkConservation is the first half of the property on one stored tree:
// total(n) = self(n) + Σ total(children(n)) per sample type, Σ root totals = Σ framed sample values.
func (s *stored) checkConservation(framed []int64) []finding {
	var out []finding
	add := func(sig, f string, a ...any) {
		if len(out) < 6 {
			out = append(out, finding{sig, fmt.Sprintf(f, a...)})
		}
	}
	keys := append([][3]uint64(nil), s.order...)
	sort.Slice(keys, func(i, j int) bool { return keys[i][2] < keys[j][2] })
	for _, k := range keys {
		n := s.nodes[k]
		lvl := int(n.ID >> 55)
		for i := range s.types {
			sum := n.Self[i]
			for _, ch := range s.children[n.ID] {
				sum += ch.Total[i]
			}
			if sum != n.Total[i] {
				add("tree/total≠self+children", "node %d (fn %q, parent %d, level field %d) type %s: total %d ≠ self %d + Σ children totals %d (%d children)",
					n.ID, s.names[n.Fn], n.Parent, lvl, s.types[i], n.Total[i], n.Self[i], sum-n.Self[i], len(s.children[n.ID]))
				break
			}
		}
		if _, ok := s.names[n.Fn]; !ok {
			add("tree/function-unresolved", "node %d references function id %d that is not in the function table (%d names)", n.ID, n.Fn, len(s.names))
		}
	}
	for i := range s.types {
		var roots int64
		for _, n := range s.children[0] {
			roots += n.Total[i]
		}
		if roots != framed[i] {
			add("tree/roots≠profile-sum", "type %s: Σ totals of the %d root nodes = %d, Σ sample values (samples with ≥ 1 frame) = %d", s.types[i], len(s.children[0]), roots, framed[i])
		}
	}
	return out
}

// matchTrie walks the stored tree from the root along resolved function names and compares it
// with the reference fold: the multiset of (path, self, total) must be equal. Mismatches that
// first appear below the level clamp are returned separately (probe only).
func (s *stored) matchTrie(t *trie) (judged, probe []finding) {
	add := func(depth int, sig, f string, a ...any) {
		dst := &judged
		if depth > levelClamp {
			dst = &probe
		}
		if len(*dst) < 6 {
			*dst = append(*dst, finding{sig, fmt.Sprintf(f, a...)})
		}
	}
	for i := range t.nodes {
		t.nodes[i].seen = false
	}
	type item struct {
		id uint64
		tn int
	}
	visited := map[*snode]bool{}
	stack := []item{{0, 0}}
	for len(stack) > 0 {
		it := stack[len(stack)-1]
		stack = stack[:len(stack)-1]
		for _, ch := range s.children[it.id] {
			if visited[ch] {
				add(t.nodes[it.tn].depth+1, "tree/cycle", "node %d reached twice while walking from the root", ch.ID)
				continue
			}
			visited[ch] = true
			name, ok := s.names[ch.Fn]
			depth := t.nodes[it.tn].depth + 1
			if !ok {
				add(depth, "tree/function-unresolved", "node %d under %q: function id %d has no name", ch.ID, t.path(it.tn), ch.Fn)
				continue
			}
			ci, ok := t.nodes[it.tn].children[name]
			if !ok {
				add(depth, "tree/unexpected-path", "stored node %q under path %q (level %d, total %v) does not exist in the profile", name, t.path(it.tn), depth, ch.Total)
				continue
			}
			tn := &t.nodes[ci]
			if tn.seen {
				add(depth, "tree/path-stored-twice", "path %q is stored by two nodes", t.path(ci))
				continue
			}
			tn.seen = true
			if !eq64(tn.self, ch.Self) || !eq64(tn.total, ch.Total) {
				add(depth, "tree/path-values", "path %q (level %d): stored self %v total %v, profile gives self %v total %v", t.path(ci), depth, ch.Self, ch.Total, tn.self, tn.total)
			}
			stack = append(stack, item{ch.ID, ci})
		}
	}
	for i := 1; i < len(t.nodes); i++ {
		if !t.nodes[i].seen {
			// report only the shallowest missing node of a missing subtree
			if p := t.nodes[i].parent; p != 0 && !t.nodes[p].seen {
				continue
			}
			add(t.nodes[i].depth, "tree/path-missing", "path %q (level %d, total %v) of the profile is not reachable from the root of the stored tree", t.path(i), t.nodes[i].depth, t.nodes[i].total)
		}
	}
	if len(visited) != len(s.nodes) {
		add(0, "tree/orphan-nodes", "%d of %d stored nodes are not reachable from parent id 0", len(s.nodes)-len(visited), len(s.nodes))
	}
	return
}

func eq64(a, b []int64) bool {
	if len(a) != len(b) {
		return false
	}
	for i := range a {
		if a[i] != b[i] {
			return false
		}
	}
	return true
}

type pv struct{ Self, Total int64 }
