package c13

import (
	"math/rand"
	"time"
)

// window is a requested time window in ns (before snapping to the granularity of the API).
type window struct {
	Class string `json:"class"`
	From  int64  `json:"from"`
	To    int64  `json:"to"`
}

const (
	sec  = int64(1e9)
	day  = 86400 * sec
	min_ = 60 * sec
	hour = 3600 * sec
)

func utc(y int, m time.Month, d, hh, mm, ss int) int64 {
	return time.Date(y, m, d, hh, mm, ss, 0, time.UTC).UnixNano()
}

// base days: ordinary, month ends (30/31/29 days), year end
var baseDays = []int64{
	utc(2023, 11, 14, 0, 0, 0),
	utc(2024, 3, 1, 0, 0, 0), // day after Feb 29
	utc(2024, 1, 1, 0, 0, 0), // year start
	utc(2024, 7, 1, 0, 0, 0), // after a 30-day month
	utc(2023, 8, 1, 0, 0, 0), // after a 31-day month, northern summer (DST in New York)
	utc(2024, 12, 10, 0, 0, 0),
}

var monthStarts = []int64{
	utc(2024, 3, 1, 0, 0, 0), utc(2024, 1, 1, 0, 0, 0), utc(2024, 7, 1, 0, 0, 0), utc(2023, 8, 1, 0, 0, 0), utc(2023, 12, 1, 0, 0, 0),
}

// windowClasses in a fixed order (case keys use the class name).
var windowClasses = []string{
	"aligned-hour", "unaligned-subsec-edges", "subsecond", "one-unit", "cross-midnight", "cross-month", "ends-in-first-30min",
	"inside-first-30min", "early-utc-day", "late-utc-day", "forty-days", "bucket-unaligned", "random",
}

// genWindow draws a window of the class. All times are multiples of 1 ns; positions snap them.
func genWindow(r *rand.Rand, class string) window {
	d0 := baseDays[r.Intn(len(baseDays))]
	w := window{Class: class}
	switch class {
	case "aligned-hour":
		w.From = d0 + int64(6+r.Intn(12))*hour
		w.To = w.From + hour
	case "unaligned-subsec-edges":
		w.From = d0 + int64(6+r.Intn(12))*hour + int64(r.Intn(3600))*sec + int64(1+r.Intn(999))*1e6 + int64(r.Intn(2))*int64(r.Intn(1e6))
		w.To = w.From + int64(30+r.Intn(3000))*sec + int64(1+r.Intn(998))*1e6
	case "subsecond":
		// inside one second: [x.2, x.7]
		s := d0 + int64(6+r.Intn(12))*hour + int64(r.Intn(3600))*sec
		w.From = s + int64(100+r.Intn(300))*1e6
		w.To = s + int64(500+r.Intn(400))*1e6
	case "one-unit":
		w.From = d0 + int64(6+r.Intn(12))*hour + int64(r.Intn(3600))*sec + int64(r.Intn(2))*int64(r.Intn(1e9))
		w.To = w.From + 1 // positions widen to one unit of their own
	case "cross-midnight":
		w.From = d0 - int64(1+r.Intn(50))*min_ - int64(r.Intn(60))*sec
		w.To = d0 + int64(31+r.Intn(60))*min_ + int64(r.Intn(60))*sec
	case "cross-month":
		m := monthStarts[r.Intn(len(monthStarts))]
		w.From = m - int64(1+r.Intn(120))*min_
		w.To = m + int64(31+r.Intn(120))*min_
	case "ends-in-first-30min":
		// starts the day before, ends in [00:00:01, 00:29:59] UTC
		w.From = d0 - int64(1+r.Intn(180))*min_
		w.To = d0 + int64(1+r.Intn(29*60+58))*sec
	case "inside-first-30min":
		w.From = d0 + int64(1+r.Intn(600))*sec
		w.To = w.From + int64(60+r.Intn(900))*sec
		if w.To >= d0+30*min_ {
			w.To = d0 + 30*min_ - sec
		}
	case "early-utc-day":
		// 00:40 … 03:50 UTC: still "yesterday" in America/New_York
		w.From = d0 + 40*min_ + int64(r.Intn(60))*min_
		w.To = w.From + int64(10+r.Intn(120))*min_
	case "late-utc-day":
		// 15:10 … 23:50 UTC: already "tomorrow" in Asia/Tokyo
		w.From = d0 + 15*hour + 10*min_ + int64(r.Intn(300))*min_
		w.To = w.From + int64(5+r.Intn(200))*min_
		if w.To >= d0+day {
			w.To = d0 + day - sec
		}
	case "forty-days":
		w.From = d0 - 40*day + int64(r.Intn(86400))*sec
		w.To = d0 + int64(r.Intn(86400))*sec
	case "bucket-unaligned":
		w.From = d0 + int64(6+r.Intn(12))*hour + int64(1+r.Intn(3599))*sec
		w.To = w.From + int64(61+r.Intn(1200))*sec
	default: // random
		w.From = d0 - 2*day + int64(r.Int63n(4*86400))*sec + int64(r.Intn(2))*int64(r.Intn(1e9))
		span := []int64{1, 1e6, sec, 17 * sec, 5 * min_, hour, 6 * hour, 25 * hour, 3 * day, 32 * day}[r.Intn(10)]
		w.To = w.From + span + int64(r.Intn(2))*int64(r.Intn(1e9))
	}
	return w
}

// windowFloors: the window classes the floors of every endpoint family refer to.
func isMidnight(w window) bool { return floorDiv(w.From, day) != floorDiv(w.To, day) }
func isMonth(w window) bool {
	a, b := time.Unix(0, w.From).UTC(), time.Unix(0, w.To).UTC()
	return a.Month() != b.Month() || a.Year() != b.Year()
}
func isSubSecond(w window) bool { return w.To-w.From < sec }
func endsEarly(w window) bool {
	return w.To-floorDiv(w.To, day)*day < 30*min_
}
