package c13

import (
	"bytes"
	"context"
	"encoding/json"
	"fmt"
	"regexp"
	"sort"
	"strconv"
	"strings"
	"time"

	rmodel "github.com/metrico/qryn/reader/model"
	"github.com/metrico/qryn/reader/service"
	"github.com/prometheus/prometheus/model/labels"
	"github.com/prometheus/prometheus/storage"

	"verif/harness/engines/chsql"
)

// outcome of one request against one database variant.
type outcome struct {
	Status   int
	Body     []byte
	TimedOut bool
	Stmts    []stmtRec
	Scans    []scanRec
}

func (o *outcome) unsupported() string {
	for _, s := range o.Stmts {
		if s.Uns {
			return s.Err
		}
	}
	return ""
}

func (o *outcome) sqlErr() string {
	for _, s := range o.Stmts {
		if s.Err != "" {
			return s.Err
		}
	}
	return ""
}

// exec runs the plan's request (HTTP through the router, or a direct Select) on the tables.
func (rg *rig) exec(p *plan, tb *tables) *outcome {
	rg.setDB(tb.db)
	o := &outcome{}
	if p.Direct != nil {
		o.Status, o.Body, o.TimedOut = rg.directSelect(p)
	} else {
		o.Status, o.Body, o.TimedOut = rg.do(p.Req, 20*time.Second)
	}
	o.Stmts, o.Scans = rg.take()
	return o
}

// directSelect calls CLokiQuerier.Select the way the PromQL engine does and renders what it handed over.
func (rg *rig) directSelect(p *plan) (status int, body []byte, timedOut bool) {
	type res struct {
		status int
		body   []byte
	}
	ch := make(chan res, 1)
	go func() {
		defer func() {
			if pn := recover(); pn != nil {
				ch <- res{599, []byte(fmt.Sprintf("panic: %v", pn))}
			}
		}()
		ctx, cancel := context.WithTimeout(context.Background(), 20*time.Second)
		defer cancel()
		qb := (&service.CLokiQueriable{ServiceData: rmodel.ServiceData{Session: rg.reg}}).SetOidAndDB(ctx)
		q, err := qb.Querier(ctx, p.Direct.Start, p.Direct.End)
		if err != nil {
			ch <- res{500, []byte(err.Error())}
			return
		}
		hints := &storage.SelectHints{Start: p.Direct.Start, End: p.Direct.End, Step: p.Direct.Step, Range: p.Direct.Range, Func: p.Direct.Func}
		ms := []*labels.Matcher{
			labels.MustNewMatcher(labels.MatchEqual, "__name__", "c13m"),
			labels.MustNewMatcher(labels.MatchEqual, "c13", p.Tag),
		}
		set := q.Select(true, hints, ms...)
		ss, ok := set.(*rmodel.SeriesSet)
		if !ok {
			ch <- res{500, []byte(fmt.Sprintf("unexpected series set %T", set))}
			return
		}
		if ss.Error != nil {
			ch <- res{500, []byte(ss.Error.Error())}
			return
		}
		type outSeries struct {
			Labels  map[string]string `json:"labels"`
			Samples [][2]string       `json:"samples"`
		}
		var out []outSeries
		for _, s := range ss.Series {
			os := outSeries{Labels: map[string]string{}}
			for _, l := range s.Labels() {
				os.Labels[l.Name] = l.Value
			}
			for _, sm := range s.Samples {
				os.Samples = append(os.Samples, [2]string{fmt.Sprint(sm.TimestampMs), strconv.FormatFloat(sm.Value, 'f', -1, 64)})
			}
			out = append(out, os)
		}
		b, _ := json.Marshal(map[string]any{"series": out})
		ch <- res{200, b}
	}()
	select {
	case r := <-ch:
		return r.status, r.body, false
	case <-time.After(25 * time.Second):
		return 0, nil, true
	}
}

// canon renders a JSON body with object keys sorted and every array sorted by the rendering of its
// elements (multiset comparison at every level: the order of series / points is not C13's subject).
func canon(body []byte) string {
	var v any
	dec := json.NewDecoder(bytes.NewReader(body))
	dec.UseNumber()
	if err := dec.Decode(&v); err != nil {
		return string(body)
	}
	return render(v)
}

func render(v any) string {
	switch x := v.(type) {
	case map[string]any:
		keys := make([]string, 0, len(x))
		for k := range x {
			keys = append(keys, k)
		}
		sort.Strings(keys)
		var sb strings.Builder
		sb.WriteByte('{')
		for i, k := range keys {
			if i > 0 {
				sb.WriteByte(',')
			}
			sb.WriteString(strconv.Quote(k))
			sb.WriteByte(':')
			sb.WriteString(render(x[k]))
		}
		sb.WriteByte('}')
		return sb.String()
	case []any:
		parts := make([]string, len(x))
		for i, e := range x {
			parts[i] = render(e)
		}
		sort.Strings(parts)
		return "[" + strings.Join(parts, ",") + "]"
	case string:
		return strconv.Quote(x)
	case json.Number:
		return x.String()
	case nil:
		return "null"
	}
	return fmt.Sprint(v)
}

// ---- WHERE features -----------------------------------------------------------------------------

var (
	reDate   = regexp.MustCompile(`(greaterOrEquals|greater|lessOrEquals|less)\((?:\w+\.)?date, (?:toDate\()?'(\d{4}-\d\d-\d\d)'\)?\)`)
	reDateIn = regexp.MustCompile(`in\((?:\w+\.)?date, (?:tuple\()?((?:'\d{4}-\d\d-\d\d'(?:, )?)+)\)`)
	reTs     = regexp.MustCompile(`(greaterOrEquals|greater|lessOrEquals|less)\((?:\w+\.)?(?:timestamp_ns|start_time_unix_nano), (-?\d+)\)`)
	reType   = regexp.MustCompile(`in\((?:\w+\.)?type, `)
	reKey    = regexp.MustCompile(`in\((?:\w+\.)?(?:fingerprint|trace_id|span_id), |in\(tuple\((?:\w+\.)?trace_id|equals\((?:\w+\.)?trace_id, `)
)

type whereInfo struct {
	HasDateLo, HasDateHi bool
	DateLo, DateHi       chsql.Date // inclusive
	HasTsLo, HasTsHi     bool
	TsLo, TsHi           int64 // inclusive
	HasType              bool
	KeyIn                bool
	MentionsDate         bool
	// DateSet: the days an `in(date, …)` condition enumerates (nil = no such condition)
	DateSet map[chsql.Date]bool
}

func parseDate(s string) (chsql.Date, bool) {
	t, err := time.Parse("2006-01-02", s)
	if err != nil {
		return 0, false
	}
	return chsql.Date(t.Unix() / 86400), true
}

func analyseWhere(w string) whereInfo {
	var wi whereInfo
	wi.MentionsDate = strings.Contains(w, "date,") || strings.Contains(w, "date)")
	for _, m := range reDate.FindAllStringSubmatch(w, -1) {
		d, ok := parseDate(m[2])
		if !ok {
			continue
		}
		switch m[1] {
		case "greaterOrEquals", "greater":
			if m[1] == "greater" {
				d++
			}
			if !wi.HasDateLo || d > wi.DateLo {
				wi.DateLo = d
			}
			wi.HasDateLo = true
		default:
			if m[1] == "less" {
				d--
			}
			if !wi.HasDateHi || d < wi.DateHi {
				wi.DateHi = d
			}
			wi.HasDateHi = true
		}
	}
	for _, m := range reDateIn.FindAllStringSubmatch(w, -1) {
		set := map[chsql.Date]bool{}
		for _, q := range strings.Split(m[1], ", ") {
			if d, ok := parseDate(strings.Trim(q, "'")); ok {
				set[d] = true
			}
		}
		if wi.DateSet == nil {
			wi.DateSet = set
		} else { // two enumerations: both must hold
			for d := range wi.DateSet {
				if !set[d] {
					delete(wi.DateSet, d)
				}
			}
		}
	}
	for _, m := range reTs.FindAllStringSubmatch(w, -1) {
		n, err := strconv.ParseInt(m[2], 10, 64)
		if err != nil {
			continue
		}
		switch m[1] {
		case "greaterOrEquals", "greater":
			if m[1] == "greater" {
				n++
			}
			if !wi.HasTsLo || n > wi.TsLo {
				wi.TsLo = n
			}
			wi.HasTsLo = true
		default:
			if m[1] == "less" {
				n--
			}
			if !wi.HasTsHi || n < wi.TsHi {
				wi.TsHi = n
			}
			wi.HasTsHi = true
		}
	}
	wi.HasType = reType.MatchString(w)
	wi.KeyIn = reKey.MatchString(w)
	return wi
}

var dataTables = map[string]bool{"samples_v3": true, "metrics_15s": true, "tempo_traces": true, "tempo_traces_attrs_gin": true, "profiles": true}
var indexTables = map[string]bool{"time_series": true, "time_series_gin": true, "tempo_traces_kv": true, "tempo_traces_attrs_gin": true,
	"profiles_series": true, "profiles_series_gin": true, "profiles_series_keys": true}

func localName(t string) string {
	t = strings.TrimSuffix(t, "_dist")
	if i := strings.LastIndex(t, "."); i >= 0 {
		t = t[i+1:]
	}
	return strings.Trim(t, "`")
}

func dateStr(d chsql.Date) string {
	return time.Unix(int64(d)*86400, 0).UTC().Format("2006-01-02")
}

func tsStr(ns int64) string {
	return time.Unix(0, ns).UTC().Format("2006-01-02T15:04:05.000000000Z")
}

func zoneClass(z string) string {
	switch z {
	case "America/New_York":
		return "west"
	case "Asia/Tokyo":
		return "east"
	}
	return "utc"
}

func clip(s string, n int) string {
	if len(s) > n {
		return s[:n] + "…"
	}
	return s
}
