// Package c13 decides property C13: every read is confined to the requested time window and to the
// signal type of the API that was called.
//
// The real reader (router → controllers → services → planners) runs in-process on a scripted
// database/sql driver whose handler executes every statement with E-CHSQL over generated tables that
// hold probe rows (just inside the window, indexed under the dates the writer stores), sentinel rows
// (just outside, at 1 ns … 1 month) and rows of the other signal. Two observers: the HTTP response
// and E-CHSQL's scan monitor (which base-table rows each statement admitted).
package c13

import (
	"encoding/json"
	"fmt"
	"math/rand"
	"os"
	"sort"
	"strings"
	"sync"
	"time"

	"verif/harness/engines/run"
	"verif/harness/props/reg"
)

func init() {
	reg.Register(&reg.Prop{ID: "C13", Level: "exploration", Main: Main, Child: Child, Replay: Replay})
}

// floorReq: what a whole run must have observed (0 in a replay of one case)
var floorReq = 100

var zones = []string{"UTC", "America/New_York", "Asia/Tokyo"}

// caseSpec identifies one case; everything else is derived from (seed, Idx).
type caseSpec struct {
	Seed  int64   `json:"seed"`
	Idx   int     `json:"idx"`
	Pos   string  `json:"pos"`
	Win   window  `json:"window"`
	Zone  string  `json:"reader_zone"`
	WZone string  `json:"writer_zone"`
	Var   variant `json:"variant"`
}

func (cs *caseSpec) key() string {
	k := fmt.Sprintf("%s|%s|%s|cluster=%v", cs.Pos, cs.Win.Class, zoneClass(cs.Zone), cs.Var.Cluster)
	if cs.Var.Complex {
		k += "|portioned"
	}
	if cs.Var.SmallLimit > 0 {
		k += "|limit<=4"
	}
	if cs.Var.Transient {
		k += "|transient-db-failure"
	}
	return k
}

// genCases is the fixed, PRNG-determined case list of a run.
func genCases(c *run.Ctx) []caseSpec {
	r := c.Rng("cases")
	var out []caseSpec
	perPos := map[string]int{}
	add := func(pos *position, class, zone string, cluster bool) {
		cs := caseSpec{Seed: c.Seed(), Idx: len(out), Pos: pos.Name, Win: genWindow(r, class), Zone: zone, WZone: zones[r.Intn(3)]}
		// the schema variants rotate per endpoint (every third case of an endpoint runs without the tempo_v2 marker,
		// every fourth without metrics_15s), so that each is met whatever the seed
		nth := perPos[pos.Name]
		perPos[pos.Name]++
		cs.Var = variant{Cluster: cluster, Metrics15: nth%4 != 1, TempoV2: nth%3 != 1}
		r.Intn(4)
		r.Intn(3)
		if strings.HasPrefix(pos.Name, "loki.query") && nth%5 == 3 {
			cs.Var.Transient = true
		}
		if strings.HasPrefix(pos.Name, "tempo.search.traceql") {
			cs.Var.Complex = r.Intn(2) == 0 // the portioned (complex request processor) path
			if cs.Var.Complex && r.Intn(2) == 0 {
				cs.Var.SmallLimit = 1 + r.Intn(4)
			}
		}
		out = append(out, cs)
	}
	// Loki tail: one session per reader zone (two in the thorough tier), layouts alternating
	for k := 0; k < c.Pick(3, 6); k++ {
		cs := caseSpec{Seed: c.Seed(), Idx: len(out), Pos: tailPos.Name, Win: window{Class: "wall-clock"}, Zone: zones[k%3], WZone: "UTC"}
		cs.Var = variant{Cluster: k%2 == 1, Metrics15: true, TempoV2: true}
		out = append(out, cs)
	}
	if c.Quick() {
		for pi := range positions {
			pos := &positions[pi]
			if strings.HasPrefix(pos.Name, "prom.select.") {
				// hint functions: three windows each, classes rotating over the functions and seeds
				for k := 0; k < 3; k++ {
					cl := windowClasses[(pi*3+k+int(c.Seed()))%len(windowClasses)]
					add(pos, cl, zones[(pi+k)%3], (pi+k)%2 == 0)
				}
				continue
			}
			// the combinations the design suspects, for every endpoint …
			add(pos, "early-utc-day", "America/New_York", pi%2 == 0)
			add(pos, "late-utc-day", "Asia/Tokyo", pi%2 == 1)
			add(pos, "ends-in-first-30min", "UTC", pi%2 == 0)
			// … and every other class once, zone and layout rotating over endpoints and seeds
			k := 0
			for _, cl := range windowClasses {
				if cl == "early-utc-day" || cl == "late-utc-day" || cl == "ends-in-first-30min" {
					continue
				}
				k++
				add(pos, cl, zones[(pi+k+int(c.Seed()))%3], (pi+k)%2 == 0)
			}
		}
		return out
	}
	for round := 0; round < 2; round++ {
		for pi := range positions {
			pos := &positions[pi]
			for _, cl := range windowClasses {
				for _, z := range zones {
					for _, cluster := range []bool{false, true} {
						if strings.HasPrefix(pos.Name, "prom.select.") && round == 1 {
							continue
						}
						add(pos, cl, z, cluster)
					}
				}
			}
		}
	}
	return out
}

type childCfg struct {
	Zone   string    `json:"zone"`
	Part   int       `json:"part"`
	Parts  int       `json:"parts"`
	Replay *caseSpec `json:"replay,omitempty"`
}

// Replay re-runs the case stored in a replay file (in a child with the reader zone of the case).
func Replay(c *run.Ctx, path string) {
	b, err := os.ReadFile(path)
	if err != nil {
		c.Undecided("cannot read replay file: " + err.Error())
		return
	}
	var doc struct {
		Case struct {
			Case *caseSpec `json:"case"`
		} `json:"case"`
	}
	if err := json.Unmarshal(b, &doc); err != nil || doc.Case.Case == nil {
		c.Undecided("replay file holds no case")
		return
	}
	cs := doc.Case.Case
	c.Note(fmt.Sprintf("replaying case %d: %s, window class %s, reader TZ=%s, writer TZ=%s", cs.Idx, cs.Pos, cs.Win.Class, cs.Zone, cs.WZone))
	runChild(c, childCfg{Zone: cs.Zone, Parts: 1, Replay: cs})
	c.Case("replay/a")
	c.Case("replay/b")
}

func Main(c *run.Ctx) {
	c.SetRule("per case (endpoint position x window class x reader zone x layout): small generated database with probes (at from, from+1ns, middle, to-1ns; index rows dated as the writer dates them), sentinels at {1 ns, 1 s, range bucket, 15 s, 1 day, 31 days} outside the allowed window on both sides (own series/trace/profile series and sharing the key of a probe), rows of the other signal, and 'grey' rows inside the widening the property allows. " +
		"Oracles: (e2e) no sentinel / other-signal marker in the response; response(full db) == response(db without sentinels and other-signal rows) as multisets; every probe the request selects is in the response. " +
		"(scan) from E-CHSQL scan events: no data-table scan with its own time bound admits a sentinel or other-signal row; every index-table scan's date bounds cover the dates of the probe index rows; index scans not restricted to already selected keys admit no other-signal row. " +
		"distinct key = position x window class x zone class x layout")
	c.Assume("E-CHSQL computes what ClickHouse returns for the emitted SQL with server time zone UTC (DESIGN appendix A, rule A17: Date columns compare with 'YYYY-MM-DD' literals as dates)")
	c.Assume("index dates: time_series/time_series_gin rows carry the UTC day of the sample (writer onEntries); tempo_traces_attrs_gin/tempo_traces_kv rows carry the span's calendar day in the WRITER's zone (onSpan + ch-go ToDate); profiles_series* rows carry toDate(intDiv(timestamp_ns,1e9)) = UTC day (profiles.sql)")
	c.Assume("window semantics: Loki [start,end) ns; Tempo [start,end] s; Pyroscope [start,end] ms; Prometheus Select (Start,End] ms with the left edge left open; HTTP PromQL adds the 5 min lookback (or the range) on the left and the controller's 15 s rounding. The instant `end` (and Prometheus' left edge) is never used for a probe or a sentinel")
	c.Assume("metric queries (LogQL range aggregations, PromQL): rows inside the range bucket enclosing from/to, or inside the 15 s storage bucket enclosing from/to, are neither sentinels nor probes (computed from the query, not from the SQL)")
	c.Assume("portioned TraceQL searches (complexity estimate answered with 25e6 index rows, half of the TraceQL cases): the shared trace keeps spans outside the window; for those spans only the scans of the attribute index are judged, because the trace-level fields of a search result are read from the whole trace by its id")
	c.Assume("dependent look-ups (scans without a time bound of their own that are restricted to keys produced by a confined scan: trace info by trace_id, labels by fingerprint) are confined by construction; sentinels own keys, so such a scan admits one only if the key scan leaked")
	c.Assume("a data-table bound narrower than the requested window (rows inside the window dropped, no index involved) is reported as probe-missing/cause=data-bound: the statement asks that the rows be restricted to the requested window, which a narrower bound does not implement either")
	c.Assume("Loki tail: the window is [connect time - 5 min, now] of the wall clock; the data is generated relative to the clock just before connecting, sentinels lie 1 ns … 31 days before (generation time - 5 min) and 1 ns … 31 days after (generation time + 10 min), so a delay only moves them further outside; a session longer than 10 min is inconclusive; probes are not required (wall clock)")

	cases := genCases(c)
	perZone := map[string]int{}
	for _, cs := range cases {
		perZone[cs.Zone]++
	}
	parts := 1
	if !c.Quick() {
		parts = 4
	}
	c.Floor("cases decided", len(cases)*9/10, 0)
	for _, p := range positions {
		c.Floor("endpoint evaluated: "+p.Name, 1, 0)
	}
	c.Floor("endpoint evaluated: "+tailPos.Name, 1, 0)
	for fam := range familyPositions() {
		for _, f := range []string{"midnight-crossing", "month-crossing", "sub-second", "ending in the first 30 min of a UTC day"} {
			c.Floor("family "+fam+": window "+f, 1, 0)
		}
	}
	c.Floor("probes found in responses", 100, 0)
	c.Floor("data-table scans judged", 100, 0)
	c.Floor("index-table scans judged", 100, 0)

	var wg sync.WaitGroup
	sem := make(chan struct{}, 3)
	for _, z := range zones {
		for part := 0; part < parts; part++ {
			wg.Add(1)
			go func(z string, part int) {
				defer wg.Done()
				sem <- struct{}{}
				defer func() { <-sem }()
				runChild(c, childCfg{Zone: z, Part: part, Parts: parts})
			}(z, part)
		}
	}
	wg.Wait()
	c.Extra("cases_planned", len(cases))
	names := []string{tailPos.Name}
	for _, p := range positions {
		names = append(names, p.Name)
	}
	sort.Strings(names)
	c.Extra("endpoint_positions", names)
	c.Extra("proposed_fixes", "harness/props/c13/proposed-fixes.diff.txt (with it applied only the prom.query_range 15 s end-bucket finding remains)")
}

func runChild(c *run.Ctx, cfg childCfg) {
	name := fmt.Sprintf("zone=%s part=%d/%d", cfg.Zone, cfg.Part, cfg.Parts)
	out := c.RunChild(run.ChildSpec{Prop: "C13", Name: "cases", Cfg: cfg, Env: []string{"TZ=" + cfg.Zone}, Timeout: 40 * time.Minute})
	if out.Completed {
		return
	}
	if out.TimedOut {
		c.Undecided(name + ": child watchdog expired")
		return
	}
	head, frame := run.PanicHead(out.Stderr)
	if head == "" {
		c.Undecided(fmt.Sprintf("%s: child ended without a verdict (exit %d): %s", name, out.Exit, clip(tailStr(out.Stderr, 300), 300)))
		return
	}
	// a process death is C12's subject; here it only means the cases after it were not evaluated
	c.Undecided(fmt.Sprintf("%s: process died: %s at %s; open case %s", name, head, frame, clip(string(out.OpenCase), 300)))
}

func tailStr(s string, n int) string {
	if len(s) > n {
		return s[len(s)-n:]
	}
	return s
}

func Child(c *run.Ctx, name string) {
	var cfg childCfg
	run.ChildCfg(&cfg)
	if tz := os.Getenv("TZ"); tz != cfg.Zone {
		c.Undecided("child: TZ not set as requested")
		return
	}
	if _, err := time.LoadLocation(cfg.Zone); err != nil {
		c.Undecided("child: zone data missing: " + err.Error())
		return
	}
	rg := newRig()
	if cfg.Replay != nil {
		floorReq = 0
		c.BeginCase(cfg.Replay.Idx, cfg.Replay)
		if cfg.Replay.Pos == tailPos.Name {
			runTail(c, rg, cfg.Replay)
		} else {
			runCase(c, rg, cfg.Replay)
		}
		c.EndCase(cfg.Replay.Idx)
		return
	}
	cases := genCases(c)
	n := 0
	// the tail sessions come last: their reader goroutines may issue one more statement after the close
	for _, tailRound := range []bool{false, true} {
		for i := range cases {
			cs := &cases[i]
			if cs.Zone != cfg.Zone || (cs.Pos == tailPos.Name) != tailRound {
				continue
			}
			n++
			if n%cfg.Parts != cfg.Part {
				continue
			}
			c.BeginCase(cs.Idx, cs)
			if tailRound {
				runTail(c, rg, cs)
			} else {
				runCase(c, rg, cs)
			}
			c.EndCase(cs.Idx)
		}
	}
}

// ---- one case -----------------------------------------------------------------------------------

type witness struct {
	Case    *caseSpec `json:"case"`
	Plan    *plan     `json:"plan"`
	Items   []*item   `json:"items"`
	SQL     []string  `json:"sql,omitempty"`
	Body    string    `json:"response,omitempty"`
	RefBody string    `json:"response_without_sentinels,omitempty"`
	Detail  string    `json:"detail"`
}

func runCase(c *run.Ctx, rg *rig, cs *caseSpec) {
	pos := positionByName(cs.Pos)
	if pos == nil {
		c.Undecided("unknown position " + cs.Pos)
		return
	}
	r := rand.New(rand.NewSource(run.SubSeed(cs.Seed, fmt.Sprintf("case/%d", cs.Idx))))
	tag := fmt.Sprintf("t%d", cs.Idx)
	p := newPlan(pos, cs.Win, tag, r)
	lp := pos.Family == "loki" || pos.Family == "prom"
	if pos.Family == "tempo" && !p.AllShared && !cs.Var.Complex {
		p.noShared = true
	}
	// (portioned TraceQL searches keep the shared trace: a trace found by an earlier portion is looked up again by
	// its id in the later ones, and its spans outside the window must stay outside)
	if cs.Var.SmallLimit > 0 {
		// the limit cuts the answer: which probes are in it is not judged, what the scans admit is
		p.Req.Query = strings.Replace(p.Req.Query, "limit=500", fmt.Sprintf("limit=%d", cs.Var.SmallLimit), 1)
		p.NoProbeCheck = true
		c.Floor("portioned searches with a limit an early portion fills", 0, 1)
	}
	items := p.genItems(lp)
	runPrepared(c, rg, pos, cs, p, items, nil)
}

// runPrepared builds the databases and runs the request (exec == nil: the plan's request).
func runPrepared(c *run.Ctx, rg *rig, pos *position, cs *caseSpec, p *plan, items []*item, exec func(tb *tables) *outcome) {
	tag := p.Tag
	wz, err := time.LoadLocation(cs.WZone)
	if err != nil {
		c.Undecided("writer zone data missing")
		return
	}
	build := func(v sel) (*tables, error) {
		switch pos.Family {
		case "loki", "prom":
			return buildLP(cs.Var.Cluster, items, v, tag, p.OwnType)
		case "tempo":
			return buildTraces(cs.Var.Cluster, items, v, tag, wz)
		default:
			return buildProfiles(cs.Var.Cluster, items, v, tag, p.TypePerItem)
		}
	}
	full, err := build(sel{variant: "full"})
	if err != nil {
		c.Undecided("generator: " + err.Error())
		return
	}
	ref, err := build(sel{variant: "ref"})
	if err != nil {
		c.Undecided("generator: " + err.Error())
		return
	}
	c.Case(cs.key())
	c.Cover("endpoint", pos.Name, 1)
	c.Cover("window class", cs.Win.Class, 1)
	c.Cover("reader zone", cs.Zone, 1)
	c.Cover("layout", fmt.Sprintf("cluster=%v", cs.Var.Cluster), 1)
	if pos.Family == "tempo" {
		c.Cover("writer zone (trace tag rows)", cs.WZone, 1)
	}
	rg.use(cs.Var)
	var of *outcome
	if exec != nil {
		of = exec(full)
	} else {
		// history: every third label request comes right after the same question on the other API (Loki <-> Prometheus)
		// for the same window and database - what the reader answered there is not an answer here
		if sib, ok := siblingRequest(pos.Name, p); ok && cs.Idx%3 == 1 {
			q := *p
			q.Req, q.Direct = sib, nil
			rg.exec(&q, full)
			c.Floor("label requests asked right after the other API's same question", 0, 1)
		}
		of = rg.exec(p, full)
	}
	c.Event("requests", 1)
	judge(c, rg, pos, cs, p, items, full, ref, of, build, exec != nil)
}

// siblingRequest: the same question for the same window on the other API.
func siblingRequest(pos string, p *plan) (httpReq, bool) {
	switch pos {
	case "loki.labels":
		return httpReq{Method: "GET", Path: "/api/v1/labels", Query: qs("start", secs(p.From), "end", secs(p.To))}, true
	case "prom.labels":
		return httpReq{Method: "GET", Path: "/loki/api/v1/labels", Query: qs("start", ns(p.From), "end", ns(p.To))}, true
	case "loki.label.values":
		return httpReq{Method: "GET", Path: "/api/v1/label/mk/values", Query: qs("start", secs(p.From), "end", secs(p.To))}, true
	case "prom.label.values":
		return httpReq{Method: "GET", Path: "/loki/api/v1/label/mk/values", Query: qs("start", ns(p.From), "end", ns(p.To))}, true
	}
	return httpReq{}, false
}

// judge applies the oracles to the outcome of the request on the full database. tail: the outcome is
// a websocket session (no reference request, probes not required: its window follows the wall clock).
func judge(c *run.Ctx, rg *rig, pos *position, cs *caseSpec, p *plan, items []*item, full, ref *tables, of *outcome,
	build func(v sel) (*tables, error), tail bool) {
	lp := pos.Family == "loki" || pos.Family == "prom"
	wit := func(detail string, o *outcome, refBody []byte) *witness {
		w := &witness{Case: cs, Plan: p, Items: items, Detail: detail}
		if o != nil {
			for _, s := range o.Stmts {
				w.SQL = append(w.SQL, clip(s.SQL, 6000))
			}
			w.Body = clip(string(o.Body), 6000)
		}
		if refBody != nil {
			w.RefBody = clip(string(refBody), 6000)
		}
		return w
	}
	decided := true
	und := func(reason string) {
		decided = false
		c.Undecided(pos.Name + ": " + reason)
		c.Cover("undecided", pos.Name+": "+reason, 1)
	}
	if of.TimedOut {
		und("request did not return")
		return
	}
	if u := of.unsupported(); u != "" {
		und("statement outside the interpreter's subset: " + clip(u, 120))
		return
	}
	if e := of.sqlErr(); e != "" {
		und("statement rejected by the interpreter: " + clip(e, 120))
		return
	}
	c.Sample(map[string]any{"case": cs, "request": p.Req.String(), "select": p.Direct, "allowed": []string{tsStr(p.ALo), tsStr(p.AHi)},
		"items": len(items), "statements": len(of.Stmts), "scans": len(of.Scans)})

	if os.Getenv("C13_DEBUG") != "" {
		fmt.Fprintf(os.Stderr, "REQUEST %s %s\nSTATUS %d\nBODY %s\n", p.Req.String(), p.Desc, of.Status, of.Body)
		for _, it := range items {
			fmt.Fprintf(os.Stderr, "ITEM %s %s %s %s shared=%v %s v=%d\n", it.Role, it.Side, it.Dist, tsStr(it.Ts), it.Shared, it.Marker, it.VMark)
		}
		for i, st := range of.Stmts {
			fmt.Fprintf(os.Stderr, "SQL %d rows=%d err=%s %s\n", i, st.Rows, st.Err, st.SQL)
		}
		for _, sc := range of.Scans {
			fmt.Fprintf(os.Stderr, "SCAN stmt=%d %s offered=%d admitted=%v where=%s\n", sc.Stmt, sc.Table, sc.Offered, sc.Admitted, sc.Where)
		}
	}
	zc := zoneClass(cs.Zone)
	if pos.Family == "tempo" {
		zc = "reader-" + zoneClass(cs.Zone) + "-writer-" + zoneClass(cs.WZone)
	}
	body := string(of.Body)
	has := func(b string, it *item) bool {
		if strings.Contains(b, it.Marker) {
			return true
		}
		return lp && strings.Contains(b, `"`+fmt.Sprint(it.VMark)+`"`)
	}

	// ---------------- scan level
	otherType := uint8(3) - p.OwnType
	type rej struct {
		table, side string
		wi          whereInfo
		where, sql  string
		row         rowMeta
	}
	probeRejIdx := map[*item][]rej{} // probe → index scans whose date bounds exclude its row
	probeRejData := map[*item][]rej{}
	var idxRej []rej // first rejection per (table, side)
	type scanLeak struct {
		table  string
		worst  *item
		leaked string
		wi     whereInfo
		where  string
	}
	var scanLeaks []scanLeak
	idxRejSeen := map[string]bool{}
	for _, sc := range of.Scans {
		tn := localName(sc.Table)
		meta := full.meta[tn]
		if meta == nil {
			continue // settings etc.
		}
		if len(meta) != sc.Offered {
			und(fmt.Sprintf("scan monitor: %s offered %d rows, generated %d", tn, sc.Offered, len(meta)))
			return
		}
		wi := analyseWhere(sc.Where)
		adm := map[int]bool{}
		for _, i := range sc.Admitted {
			adm[i] = true
		}
		sqlOf := ""
		if sc.Stmt < len(of.Stmts) {
			sqlOf = of.Stmts[sc.Stmt].SQL
		}
		hasTs := wi.HasTsLo || wi.HasTsHi
		hasDate := wi.HasDateLo || wi.HasDateHi || wi.DateSet != nil
		asData := dataTables[tn]
		if tn == "tempo_traces_attrs_gin" && !hasTs && hasDate && pos.Name == "tempo.search.tags" && !cs.Var.TempoV2 {
			// schema before tempo_v2: the attribute table has no usable timestamp, it is read as a
			// date-bounded index and the spans are confined by the scan of tempo_traces
			asData = false
		}
		if asData {
			// the only data table qryn reads by keys of an already confined scan is tempo_traces
			// (trace info / span payloads by trace_id, span_id)
			dependent := tn == "tempo_traces" && !hasTs && wi.KeyIn
			if dependent {
				c.Event("dependent look-ups (not judged)", 1)
			} else {
				c.Floor("data-table scans judged", floorReq, 1)
				c.Cover("data-table scans judged", tn, 1)
				var worst *item
				var leaked []string
				for _, i := range sc.Admitted {
					it := meta[i].It
					if it.Role == roleSentinel {
						leaked = append(leaked, fmt.Sprintf("%s-%s@%s", it.Side, it.Dist, tsStr(it.Ts)))
						if worst == nil || absDist(p, it) < absDist(p, worst) {
							worst = it
						}
					}
				}
				if worst != nil {
					scanLeaks = append(scanLeaks, scanLeak{tn, worst, clip(strings.Join(leaked, ", "), 400), wi, sc.Where})
				}
				if lp {
					for _, i := range sc.Admitted {
						if meta[i].Typ == otherType {
							c.Violation(fmt.Sprintf("%s/data-scan-other-type/%s", pos.Name, tn),
								fmt.Sprintf("%s: the scan of %s admitted a row of type %d (the API reads type %d): %s; where: %s. Request: %s %s",
									pos.Name, tn, otherType, p.OwnType, meta[i].It.Marker, clip(sc.Where, 300), p.Req.String(), p.Desc),
								wit("scan admitted other-type row; where="+sc.Where, of, nil))
							break
						}
					}
				}
				// probes a data bound cuts off (localises probe-missing)
				for i, m := range meta {
					if m.It.Role == roleProbe && !adm[i] && (!lp || m.Typ == p.OwnType) {
						ts := tsOf(tn, m)
						if wi.HasTsHi && ts > wi.TsHi {
							probeRejData[m.It] = append(probeRejData[m.It], rej{tn, "upper", wi, sc.Where, sqlOf, m})
						} else if wi.HasTsLo && ts < wi.TsLo {
							probeRejData[m.It] = append(probeRejData[m.It], rej{tn, "lower", wi, sc.Where, sqlOf, m})
						}
					}
				}
			}
		}
		if indexTables[tn] {
			if wi.MentionsDate && !hasDate {
				und("index scan with a date condition the monitor cannot read: " + clip(sc.Where, 120))
				return
			}
			c.Floor("index-table scans judged", floorReq, 1)
			c.Cover("index-table scans judged", tn, 1)
			if hasDate {
				for _, m := range meta {
					if m.It.Role != roleProbe || (lp && m.Typ != p.OwnType) {
						continue
					}
					side := ""
					if wi.HasDateLo && m.Date < wi.DateLo {
						side = "lower"
					}
					if wi.HasDateHi && m.Date > wi.DateHi {
						side = "upper"
					}
					if wi.DateSet != nil && !wi.DateSet[m.Date] {
						side = "upper"
						for d := range wi.DateSet {
							if d > m.Date {
								side = "lower" // a listed day lies after the probe's: the list starts too late or has a hole
							}
						}
					}
					if side == "" {
						continue
					}
					rj := rej{tn, side, wi, sc.Where, sqlOf, m}
					probeRejIdx[m.It] = append(probeRejIdx[m.It], rj)
					if !idxRejSeen[tn+"/"+side] {
						idxRejSeen[tn+"/"+side] = true
						idxRej = append(idxRej, rj)
					}
				}
			}
			if lp && !wi.KeyIn {
				for _, i := range sc.Admitted {
					if meta[i].Typ == otherType {
						c.Violation(fmt.Sprintf("%s/index-other-type/%s", pos.Name, tn),
							fmt.Sprintf("%s: the scan of %s admitted an index row of type %d (the API reads type %d): series %s; where: %s. Request: %s %s",
								pos.Name, tn, otherType, p.OwnType, meta[i].It.Marker, clip(sc.Where, 300), p.Req.String(), p.Desc),
							wit("index scan admitted other-type row; where="+sc.Where, of, nil))
						break
					}
				}
			}
		}
	}
	c.Event("scan events", len(of.Scans))

	// ---------------- end to end
	var or *outcome
	e2e := of.Status == 200
	if !e2e {
		// an error answer cannot be compared; what the scans showed stands
		if cs.Var.Transient {
			// the scripted connection failure surfaced as an error answer: nothing to compare end to end
			c.Event("error answers to a request whose first data statement failed at the connection level", 1)
		} else if len(idxRej) == 0 {
			und(fmt.Sprintf("status %d: %s", of.Status, clip(string(of.Body), 100)))
		} else {
			c.Event("error answers explained by a rejected index row", 1)
		}
	} else if tail {
		or = &outcome{Status: 200}
	} else {
		or = rg.exec(p, ref)
		c.Event("requests", 1)
		if or.TimedOut || or.Status != 200 || or.sqlErr() != "" {
			und("reference request failed")
			e2e = false
		}
	}
	missingByIdx := map[string][]string{} // table/side → probes missing from the response because of it
	e2eHits := ""
	if e2e {
		// (1) sentinels / other signal by marker
		var hit *item
		var hits []string
		for _, it := range items {
			if it.Role == roleSentinel && pos.Index {
				continue // index-only endpoints: a wider date range is allowed
			}
			if it.Role != roleSentinel && it.Role != roleOther {
				continue
			}
			if it.Role == roleOther && it.Shared && pos.Index {
				continue // same labels as a probe: not distinguishable in an index answer
			}
			if pos.Family == "tempo" && it.Shared && cs.Var.Complex {
				// a span of a trace the search found: the trace-level fields of a search result (root name, start
				// time) are read by trace id from the whole trace (the dependent look-up assumption); only the scans
				// of the attribute index are judged for such a row
				continue
			}
			// (a row of the other signal is in neither database's admissible answer: its marker text in the response is a
			// leak even when the request on the database without it answers the same - an answer kept from an earlier request)
			if has(body, it) && (!has(string(or.Body), it) || it.Role == roleOther && strings.Contains(body, it.Marker)) {
				hits = append(hits, describe(it))
				if hit == nil || absDist(p, it) < absDist(p, hit) {
					hit = it
				}
			}
		}
		if hit != nil {
			e2eHits = clip(strings.Join(hits, ", "), 500)
			// a leak the scan monitor localised is reported once, there, with this confirmation
			if !(hit.Role == roleSentinel && len(scanLeaks) > 0) {
				c.Violation(fmt.Sprintf("%s/sentinel-in-response/%s", pos.Name, sideDist(hit)),
					fmt.Sprintf("%s (reader TZ=%s): the response contains %s; allowed window [%s, %s], requested [%s, %s]. Request: %s %s",
						pos.Name, cs.Zone, e2eHits, tsStr(p.ALo), tsStr(p.AHi), tsStr(p.From), tsStr(p.To), p.Req.String(), p.Desc),
					wit("markers in response: "+strings.Join(hits, ", "), of, or.Body))
			}
		} else if !pos.Index && !tail && canon(of.Body) != canon(or.Body) {
			// (2) differential: find the single sentinel whose data changes the answer
			var culprit *item
			for _, it := range items {
				if it.Role != roleSentinel && it.Role != roleOther {
					continue
				}
				if pos.Family == "tempo" && it.Shared && cs.Var.Complex {
					continue
				}
				one, err := build(sel{variant: "ref", one: it})
				if err != nil {
					continue
				}
				oo := rg.exec(p, one)
				c.Event("requests", 1)
				if oo.Status == 200 && canon(oo.Body) != canon(or.Body) {
					if culprit == nil || absDist(p, it) < absDist(p, culprit) {
						culprit = it
					}
				}
			}
			if culprit != nil && culprit.Role == roleSentinel && len(scanLeaks) > 0 {
				e2eHits = "the response changes when the data of " + describe(culprit) + " is added to the database"
			} else if culprit != nil {
				c.Violation(fmt.Sprintf("%s/sentinel-in-response/%s", pos.Name, sideDist(culprit)),
					fmt.Sprintf("%s (reader TZ=%s): the response changes when the data of %s is added to the database (it contributes to an aggregate); allowed window [%s, %s], requested [%s, %s]. Request: %s %s",
						pos.Name, cs.Zone, describe(culprit), tsStr(p.ALo), tsStr(p.AHi), tsStr(p.From), tsStr(p.To), p.Req.String(), p.Desc),
					wit("differential: response with and without "+describe(culprit)+" differ", of, or.Body))
			} else {
				und("responses with and without sentinels differ but no single sentinel explains it")
			}
		} else {
			c.Event("cases without sentinel in response", 1)
		}
		// (3) probes
		if !p.NoProbeCheck {
			found, missing := 0, []*item{}
			for _, it := range items {
				if it.Role != roleProbe {
					continue
				}
				if it.Shared && !p.AllShared && !(pos.Family == "loki" && !p.Metric && !pos.Index) {
					continue // the probe of the mixed series shows only where line text is returned
				}
				if p.Expect != nil && !p.Expect(it) {
					continue
				}
				if has(string(or.Body), it) || has(body, it) {
					found++
					continue
				}
				missing = append(missing, it)
			}
			c.Floor("probes found in responses", floorReq, found)
			c.Event("probes found in responses", found)
			if found > 0 {
				c.Cover("endpoints with probes found", pos.Name, 1)
			}
			rep := map[string]bool{}
			for _, it := range missing {
				if rs := probeRejIdx[it]; len(rs) > 0 {
					k := rs[0].table + "/" + rs[0].side
					missingByIdx[k] = append(missingByIdx[k], fmt.Sprintf("%s@%s", it.Dist, tsStr(it.Ts)))
					continue
				}
				rs := probeRejData[it]
				if tail {
					c.Event("tail: probes not seen (window follows the wall clock; not judged)", 1)
					continue
				}
				if len(rs) == 0 {
					und("probe missing from the response, cause not localised: " + it.Dist)
					c.Note(fmt.Sprintf("%s: probe %s at %s missing, cause not localised; request %s %s", pos.Name, it.Dist, tsStr(it.Ts), p.Req.String(), p.Desc))
					continue
				}
				sig := fmt.Sprintf("%s/probe-missing/data-bound-%s/%s", pos.Name, rs[0].side, rs[0].table)
				if rep[sig] {
					continue
				}
				rep[sig] = true
				c.Violation(sig,
					fmt.Sprintf("%s (reader TZ=%s): the record at %s (%s of the window [%s, %s]) is missing from the response: the scan of %s is bounded by %s, narrower than the window. Request: %s %s",
						pos.Name, cs.Zone, tsStr(it.Ts), it.Dist, tsStr(p.From), tsStr(p.To), rs[0].table, boundsText(rs[0].wi), p.Req.String(), p.Desc),
					wit("probe "+describe(it)+" missing; data bound "+boundsText(rs[0].wi), of, or.Body))
			}
		}
	}
	// data scans that admitted rows outside the allowed window (with the end-to-end confirmation where there is one)
	for _, l := range scanLeaks {
		conf := ""
		if e2eHits != "" {
			conf = " End to end: the response contains " + e2eHits + "."
			if strings.HasPrefix(e2eHits, "the response changes") {
				conf = " End to end: " + e2eHits + "."
			}
		}
		var refBody []byte
		if or != nil {
			refBody = or.Body
		}
		c.Violation(fmt.Sprintf("%s/data-scan-outside-window/%s/%s-%s", pos.Name, l.table, l.worst.Side, l.worst.Dist),
			fmt.Sprintf("%s (reader TZ=%s): the scan of %s admitted rows outside the allowed window [%s, %s] (requested [%s, %s]): %s. Bounds of the scan: %s.%s Request: %s %s",
				pos.Name, cs.Zone, l.table, tsStr(p.ALo), tsStr(p.AHi), tsStr(p.From), tsStr(p.To), l.leaked, boundsText(l.wi), conf, p.Req.String(), p.Desc),
			wit("scan admitted "+l.leaked+" where="+l.where, of, refBody))
	}
	// index date bounds that do not cover the window (with the end-to-end confirmation where there is one)
	for _, rj := range idxRej {
		conf := ""
		if ms := missingByIdx[rj.table+"/"+rj.side]; len(ms) > 0 {
			conf = " End to end: missing from the response: " + clip(strings.Join(ms, ", "), 200) + "."
		} else if !e2e && of.Status != 200 {
			conf = fmt.Sprintf(" End to end: status %d %s.", of.Status, clip(string(of.Body), 120))
		}
		var refBody []byte
		if or != nil {
			refBody = or.Body
		}
		ep := pos.Name
		if strings.HasPrefix(ep, "prom.select.") {
			ep = "prom.select" // the labels fetch of Select does not depend on the hint function
		}
		c.Violation(fmt.Sprintf("%s/index-probe-rejected/%s/%s-date-bound/%s", ep, rj.table, rj.side, zc),
			fmt.Sprintf("%s (reader TZ=%s%s): the scan of %s is bounded by dates %s, which do not cover the window [%s, %s]: the index row dated %s of the record at %s (inside the window) is rejected.%s Request: %s %s",
				pos.Name, cs.Zone, writerNote(pos, cs), rj.table, dateBoundsText(rj.wi), tsStr(p.From), tsStr(p.To), dateStr(rj.row.Date), tsStr(rj.row.It.Ts), conf, p.Req.String(), p.Desc),
			wit(fmt.Sprintf("index row date %s outside %s; where=%s; sql=%s", dateStr(rj.row.Date), dateBoundsText(rj.wi), rj.where, clip(rj.sql, 400)), of, refBody))
	}
	if !decided {
		return
	}
	// floors on windows
	w := window{From: p.From, To: p.To}
	if isMidnight(w) {
		c.Floor("family "+pos.Family+": window midnight-crossing", 1, 1)
	}
	if isMonth(w) {
		c.Floor("family "+pos.Family+": window month-crossing", 1, 1)
	}
	if cs.Win.Class == "subsecond" || cs.Win.Class == "one-unit" {
		c.Floor("family "+pos.Family+": window sub-second", 1, 1)
	}
	if endsEarly(w) {
		c.Floor("family "+pos.Family+": window ending in the first 30 min of a UTC day", 1, 1)
	}
	c.Floor("endpoint evaluated: "+pos.Name, 1, 1)
	c.Floor("cases decided", 1, 1)
}

func tsOf(table string, m rowMeta) int64 {
	if table == "metrics_15s" {
		return floorTo(m.It.Ts, 15*sec)
	}
	return m.It.Ts
}

func absDist(p *plan, it *item) int64 {
	switch {
	case it.Role == roleOther:
		return 0
	case it.Ts < p.ALo:
		return p.ALo - it.Ts
	case it.Ts > p.AHi:
		return it.Ts - p.AHi
	}
	return 0
}

func sideDist(it *item) string {
	if it.Role == roleOther {
		return "other-type-" + it.Dist
	}
	return it.Side + "-" + it.Dist
}

func describe(it *item) string {
	sh := ""
	if it.Shared {
		sh = ", key shared with a probe"
	}
	if it.Role == roleOther {
		return fmt.Sprintf("the other-signal row %s at %s (%s%s)", it.Marker, tsStr(it.Ts), it.Dist, sh)
	}
	if it.Role == roleProbe {
		return fmt.Sprintf("%s at %s (%s%s)", it.Marker, tsStr(it.Ts), it.Dist, sh)
	}
	return fmt.Sprintf("the row %s at %s (%s %s the allowed window%s)", it.Marker, tsStr(it.Ts), it.Dist, it.Side, sh)
}

func writerNote(pos *position, cs *caseSpec) string {
	if pos.Family == "tempo" {
		return ", writer TZ=" + cs.WZone
	}
	return ""
}

func boundsText(wi whereInfo) string {
	lo, hi := "-inf", "+inf"
	if wi.HasTsLo {
		lo = tsStr(wi.TsLo)
	}
	if wi.HasTsHi {
		hi = tsStr(wi.TsHi)
	}
	return "timestamp in [" + lo + ", " + hi + "]"
}

func dateBoundsText(wi whereInfo) string {
	if wi.DateSet != nil {
		var ds []string
		for d := range wi.DateSet {
			ds = append(ds, dateStr(d))
		}
		sort.Strings(ds)
		return "{" + strings.Join(ds, ", ") + "}"
	}
	lo, hi := "-inf", "+inf"
	if wi.HasDateLo {
		lo = dateStr(wi.DateLo)
	}
	if wi.HasDateHi {
		hi = dateStr(wi.DateHi)
	}
	return "[" + lo + ", " + hi + "]"
}
