package c13

import (
	"encoding/hex"
	"encoding/json"
	"fmt"
	"hash/fnv"
	"sort"
	"strings"
	"time"

	"google.golang.org/protobuf/proto"

	"github.com/metrico/qryn/reader/prof"

	"verif/harness/engines/chsql"
)

// ---- abstract case data -------------------------------------------------------------------------

const (
	roleProbe    = "probe"
	roleSentinel = "sentinel"
	roleGrey     = "grey"  // inside the widening the property allows: neither required nor forbidden
	roleOther    = "other" // row of the other signal type (inside the window)
)

// item is one stored record (log line / metric sample / span / profile) of a case.
type item struct {
	Role   string `json:"role"`
	Side   string `json:"side,omitempty"` // before | after (sentinels)
	Dist   string `json:"dist,omitempty"` // sentinels: 1ns 1ms 1s bucket 15s 1d 1mo; probes: from from+1 mid to-1
	Ts     int64  `json:"ts"`
	Marker string `json:"marker"`           // unique text: label value / label name suffix / line text / span name / function name
	VMark  int64  `json:"vmark"`            // unique number: metric sample value / profile value
	Shared bool   `json:"shared,omitempty"` // stored in the "mixed" series / trace (same key as a probe) instead of its own
}

// rowMeta describes one generated table row (parallel to Table.Rows).
type rowMeta struct {
	It   *item
	Date chsql.Date // index tables: the stored date
	Typ  uint8      // logs/metrics tables: the stored type
}

type tables struct {
	db   *chsql.DB
	meta map[string][]rowMeta // local table name → per-row metadata
}

func (t *tables) add(table string, m rowMeta, row ...chsql.Value) {
	tb := t.db.Tables[table]
	tb.Rows = append(tb.Rows, row)
	t.meta[table] = append(t.meta[table], m)
}

func (t *tables) check() error {
	for n, tb := range t.db.Tables {
		if strings.HasSuffix(n, "_dist") {
			continue
		}
		if err := tb.Check(); err != nil {
			return err
		}
	}
	return nil
}

func newTables(cluster bool) *tables {
	return &tables{db: chsql.QrynSchema(cluster), meta: map[string][]rowMeta{}}
}

func utcDate(ns int64) chsql.Date { return chsql.Date(floorDiv(ns, 86400e9)) }

// localDate is the calendar date of the instant in the zone (what ch-go's ToDate stores for a
// time.Time built with time.Unix in a process running in that zone).
func localDate(ns int64, loc *time.Location) chsql.Date {
	t := time.Unix(floorDiv(ns, 1e9), 0).In(loc)
	_, off := t.Zone()
	return chsql.Date(floorDiv(t.Unix()+int64(off), 86400))
}

func floorDiv(a, b int64) int64 {
	q := a / b
	if a%b != 0 && (a < 0) != (b < 0) {
		q--
	}
	return q
}

func fnv64(s string) uint64 {
	h := fnv.New64a()
	h.Write([]byte(s))
	return h.Sum64()
}

func labelsJSON(m map[string]string) string {
	names := make([]string, 0, len(m))
	for n := range m {
		names = append(names, n)
	}
	sort.Strings(names)
	var sb strings.Builder
	sb.WriteByte('{')
	for i, n := range names {
		if i > 0 {
			sb.WriteByte(',')
		}
		k, _ := json.Marshal(n)
		v, _ := json.Marshal(m[n])
		sb.Write(k)
		sb.WriteByte(':')
		sb.Write(v)
	}
	sb.WriteByte('}')
	return sb.String()
}

// sel says which rows of which items a database variant holds.
//
//	full    everything
//	ref     no data rows of sentinels, nothing of the other signal; the index rows of the sentinels stay
//	        (an index may be wider than the window: what must not change the answer is the data)
//	ref+one ref plus the data rows of one more item
type sel struct {
	variant string
	one     *item
}

func (s sel) data(it *item) bool {
	if s.variant == "full" || it == s.one {
		return true
	}
	return it.Role == roleProbe || it.Role == roleGrey
}

func (s sel) index(it *item) bool {
	if s.variant == "full" || it == s.one {
		return true
	}
	return it.Role != roleOther
}

// byRole orders items probe, grey, other, sentinel (stable), so that an index row / 15 s bucket shared
// by several items is attributed to the probe among them.
func byRole(items []*item) []*item {
	rank := map[string]int{roleProbe: 0, roleGrey: 1, roleOther: 2, roleSentinel: 3}
	out := append([]*item(nil), items...)
	sort.SliceStable(out, func(i, j int) bool { return rank[out[i].Role] < rank[out[j].Role] })
	return out
}

// ---- logs / metrics -----------------------------------------------------------------------------

// seriesLabels: every series of a case carries c13=<tag>; an item of its own has mk=<marker> and the
// label name mk_<marker>; shared items live in the series mk=mixed<tag>.
func seriesLabels(tag string, it *item, metric bool) map[string]string {
	m := map[string]string{"c13": tag}
	if it.Shared {
		m["mk"] = "mixed" + tag
	} else {
		m["mk"] = it.Marker
		m["mk_"+it.Marker] = "1"
	}
	if metric {
		m["__name__"] = "c13m"
	}
	return m
}

// buildLP fills time_series / time_series_gin / samples_v3 / metrics_15s the way the writer and the
// materialized views do: series rows dated with the UTC day of each sample (writer/utils/unmarshal
// builder.go onEntries), one gin row per (series row, label), metrics_15s partial states per
// (fingerprint, 15 s bucket, type).
// ownType is the type the called API reads (1 logs, 2 metrics); items of role "other" are stored with
// the other type. twinOf: the "other" item flagged Shared is stored under the labels (hence the
// fingerprint) of the probe with Dist "mid".
func buildLP(cluster bool, items []*item, variant sel, tag string, ownType uint8) (*tables, error) {
	t := newTables(cluster)
	metric := ownType == 2
	otherType := uint8(3) - ownType
	var mid *item
	for _, it := range items {
		if it.Role == roleProbe && it.Dist == "mid" && !it.Shared {
			mid = it
		}
	}
	type skey struct {
		fp  uint64
		tp  uint8
		day chsql.Date
	}
	seenSeries := map[skey]bool{}
	type k15 struct {
		fp uint64
		ts int64
		tp uint8
	}
	type a15 struct {
		last      float64
		lastTs    int64
		max, min  float64
		count     uint64
		sum, byts float64
		it        *item
	}
	agg := map[k15]*a15{}
	var order []k15
	items = byRole(items)
	for _, it := range items {
		if !variant.index(it) {
			continue
		}
		tp := ownType
		lblIt := it
		if it.Role == roleOther {
			tp = otherType
			if it.Shared && mid != nil {
				lblIt = mid // same labels, same fingerprint, other type
			}
		}
		lbls := seriesLabels(tag, lblIt, metric)
		if it.Role == roleOther && !it.Shared {
			lbls = seriesLabels(tag, it, metric)
		}
		doc := labelsJSON(lbls)
		fp := fnv64(doc)
		day := utcDate(it.Ts)
		sk := skey{fp, tp, day}
		if !seenSeries[sk] {
			seenSeries[sk] = true
			m := rowMeta{It: it, Date: day, Typ: tp}
			t.add("time_series", m, day, fp, doc, "", tp)
			names := make([]string, 0, len(lbls))
			for n := range lbls {
				names = append(names, n)
			}
			sort.Strings(names)
			for _, n := range names {
				t.add("time_series_gin", m, day, n, lbls[n], fp, tp)
			}
		}
		if !variant.data(it) {
			continue
		}
		line, val := "", float64(it.VMark)
		if tp == 1 {
			line, val = "line "+it.Marker+" v="+fmt.Sprint(it.VMark), 0
		}
		t.add("samples_v3", rowMeta{It: it, Typ: tp}, fp, it.Ts, val, line, tp)
		k := k15{fp, floorDiv(it.Ts, 15e9) * 15e9, tp}
		a := agg[k]
		if a == nil {
			a = &a15{last: val, lastTs: it.Ts, max: val, min: val, it: it}
			agg[k] = a
			order = append(order, k)
		}
		// a 15 s bucket is attributed to its "worst" member: a sentinel or other-type row in it makes
		// the bucket a sentinel only if no probe/grey row shares it (generators keep them apart)
		if it.Ts >= a.lastTs {
			a.last, a.lastTs = val, it.Ts
		}
		if val > a.max {
			a.max = val
		}
		if val < a.min {
			a.min = val
		}
		a.count++
		a.sum += val
		a.byts += float64(len(line))
	}
	for _, k := range order {
		a := agg[k]
		t.add("metrics_15s", rowMeta{It: a.it, Typ: k.tp}, k.fp, k.ts, chsql.Tuple{a.last, a.lastTs}, a.max, a.min, a.count, a.sum, a.byts, k.tp)
	}
	return t, t.check()
}

// ---- traces -------------------------------------------------------------------------------------

func traceID(tag string, it *item) string {
	if it.Shared {
		return hex.EncodeToString(id16("mixed" + tag))
	}
	return hex.EncodeToString(id16(tag + it.Marker))
}

func id16(s string) []byte {
	a, b := fnv64("a"+s), fnv64("b"+s)
	out := make([]byte, 16)
	for i := 0; i < 8; i++ {
		out[i] = byte(a >> (8 * i))
		out[8+i] = byte(b >> (8 * i))
	}
	return out
}

func valID(s string) uint64 { return fnv64(s) % 10000 }

// buildTraces fills tempo_traces / tempo_traces_attrs_gin / tempo_traces_kv as the writer does
// (onSpan): one span row, one attribute row per tag dated with the span's calendar date in the
// WRITER's zone (MDate: time.Unix(ts/1e9, 0) converted by ch-go's ToDate with the zone offset), and
// the kv rows the materialized view derives (same date).
func buildTraces(cluster bool, items []*item, variant sel, tag string, writerZone *time.Location) (*tables, error) {
	t := newTables(cluster)
	kvSeen := map[string]bool{}
	items = byRole(items)
	for _, it := range items {
		if !variant.index(it) {
			continue
		}
		tid := string(id16(tag + it.Marker))
		if it.Shared {
			tid = string(id16("mixed" + tag))
		}
		sid := string(id16("s" + tag + it.Marker)[:8])
		svc := "svc" + it.Marker
		dur := int64(1000000)
		payload, _ := json.Marshal(map[string]any{
			"traceId": hex.EncodeToString([]byte(tid)), "id": hex.EncodeToString([]byte(sid)), "name": it.Marker,
			"timestamp": it.Ts / 1000, "duration": dur / 1000,
			"localEndpoint": map[string]any{"serviceName": svc},
			"tags":          map[string]string{"c13": tag, "mk": it.Marker},
		})
		date := localDate(it.Ts, writerZone)
		kvs := [][2]string{{"c13", tag}, {"mk", it.Marker}, {"mk_" + it.Marker, "1"}, {"name", it.Marker}, {"service.name", svc}}
		if variant.data(it) {
			t.add("tempo_traces", rowMeta{It: it}, "0", tid, sid, "", it.Marker, it.Ts, dur, svc, int8(1), string(payload))
		}
		for _, e := range kvs {
			if variant.data(it) {
				t.add("tempo_traces_attrs_gin", rowMeta{It: it, Date: date}, "0", date, e[0], e[1], tid, sid, it.Ts, dur)
			}
			k := fmt.Sprintf("%d\x00%s\x00%s", date, e[0], e[1])
			if !kvSeen[k] {
				kvSeen[k] = true
				t.add("tempo_traces_kv", rowMeta{It: it, Date: date}, "0", date, e[0], valID(e[1]), e[1])
			}
		}
	}
	return t, t.check()
}

// ---- profiles -----------------------------------------------------------------------------------

const profTypeID = "c13cpu:cpu:nanoseconds"
const profFullTypeID = "c13cpu:cpu:nanoseconds:cpu:nanoseconds"

func pprofPayload(it *item) string {
	p := &prof.Profile{
		SampleType:  []*prof.ValueType{{Type: 1, Unit: 2}},
		Sample:      []*prof.Sample{{LocationId: []uint64{1}, Value: []int64{it.VMark}}},
		Mapping:     []*prof.Mapping{{Id: 1, Filename: 4}},
		Location:    []*prof.Location{{Id: 1, MappingId: 1, Line: []*prof.Line{{FunctionId: 1, Line: 1}}}},
		Function:    []*prof.Function{{Id: 1, Name: 3, SystemName: 3, Filename: 4}},
		StringTable: []string{"", "cpu", "nanoseconds", it.Marker, "file.go"},
		TimeNanos:   it.Ts, DurationNanos: 1e9,
		PeriodType: &prof.ValueType{Type: 1, Unit: 2}, Period: 1,
	}
	b, err := proto.Marshal(p)
	if err != nil {
		panic(err)
	}
	return string(b)
}

// buildProfiles fills profiles / profiles_series / profiles_series_gin / profiles_series_keys as the
// materialized views of profiles.sql do: series rows dated toDate(intDiv(timestamp_ns, 1e9)) = the
// UTC day of the profile.
func buildProfiles(cluster bool, items []*item, variant sel, tag string, typePerItem bool) (*tables, error) {
	t := newTables(cluster)
	stu := chsql.Array{chsql.Tuple{"cpu", "nanoseconds"}}
	type skey struct {
		fp  uint64
		day chsql.Date
	}
	seen := map[skey]bool{}
	keySeen := map[string]bool{}
	items = byRole(items)
	for _, it := range items {
		if !variant.index(it) {
			continue
		}
		mk := it.Marker
		if it.Shared {
			mk = "mixed" + tag
		}
		svc := "svc" + mk
		profTypeID := profTypeID
		if typePerItem {
			profTypeID = it.Marker + ":cpu:nanoseconds"
		}
		// profiles_series_mv: tags = arrayConcat(input tags, [('service_name', service_name)])
		tagPairs := [][2]string{{"c13", tag}, {"mk", mk}, {"mk_" + mk, "1"}, {"service_name", svc}}
		tags := chsql.Array{}
		for _, p := range tagPairs {
			tags = append(tags, chsql.Tuple{p[0], p[1]})
		}
		fp := fnv64("prof" + tag + mk)
		day := utcDate(it.Ts)
		if !seen[skey{fp, day}] {
			seen[skey{fp, day}] = true
			m := rowMeta{It: it, Date: day}
			t.add("profiles_series", m, day, profTypeID, stu, svc, fp, tags)
			for _, p := range tagPairs {
				t.add("profiles_series_gin", m, day, p[0], p[1], profTypeID, stu, svc, fp)
				k := fmt.Sprintf("%d\x00%s\x00%s", day, p[0], p[1])
				if !keySeen[k] {
					keySeen[k] = true
					t.add("profiles_series_keys", m, day, p[0], p[1], fnv64(p[1])%50000)
				}
			}
		}
		if !variant.data(it) {
			continue
		}
		fnID := fnv64("fn" + it.Marker)
		nodeID := fnv64("node" + it.Marker)
		tree := chsql.Array{chsql.Tuple{uint64(0), fnID, nodeID, chsql.Array{chsql.Tuple{"cpu:nanoseconds", it.VMark, it.VMark}}}}
		funcs := chsql.Array{chsql.Tuple{fnID, it.Marker}}
		t.add("profiles", rowMeta{It: it}, uint64(it.Ts), fp, profTypeID, stu, svc, uint64(1e9), "pprof", pprofPayload(it),
			chsql.Array{chsql.Tuple{"cpu:nanoseconds", it.VMark, int32(1)}}, tree, funcs)
	}
	return t, t.check()
}
