package c13

import (
	"bytes"
	"context"
	"database/sql/driver"
	"errors"
	"fmt"
	"io"
	"net/http"
	"net/http/httptest"
	"net/url"
	"strings"
	"sync"
	"time"

	"verif/harness/engines/chsql"
	"verif/harness/engines/sqldrv"
)

// scanRec is one base-table scan observed by E-CHSQL's scan monitor, tagged with the statement
// (index into rig.stmts) it belongs to.
type scanRec struct {
	Stmt     int
	Table    string
	Alias    string
	Offered  int
	Admitted []int
	Where    string
}

type stmtRec struct {
	SQL  string
	Err  string
	Uns  bool // the interpreter does not support the statement
	Rows int
	// Scripted: answered with the scripted connection-level failure (variant.Transient), never executed
	Scripted bool
}

// rig is the real reader (router → controllers → services → planners) on a scripted driver whose
// handler executes every statement with E-CHSQL over the tables of the current case.
type rig struct {
	reader *sqldrv.Reader
	reg    *sqldrv.Registry
	sess   map[string]*sqldrv.Session // one per schema variant × layout (the reader caches version info per session name)

	mu      sync.Mutex
	db      *chsql.DB
	complex bool
	// transient: arm one connection-level failure per request (see variant.Transient)
	transient     bool
	transientLeft int
	stmts         []stmtRec
	scans         []scanRec
}

type variant struct {
	Cluster   bool `json:"cluster"`
	Metrics15 bool `json:"metrics15s"` // SHOW TABLES lists metrics_15s
	TempoV2   bool `json:"tempo_v2"`   // settings hold the tempo_v2 update (timestamp_ns/duration usable in the attrs index)
	// Complex: the TraceQL complexity estimate is answered with 25e6 index rows, so the search runs through the
	// complex request processor: three portions, the later ones also carrying the trace ids found so far
	Complex bool `json:"complex,omitempty"`
	// Transient: the first statement of the request that reads a data table fails with a connection-level error
	// (the server or a balancer closed the connection); whatever the reader does next — answer with an error, or
	// try again — must stay inside the window
	Transient bool `json:"transient,omitempty"`
	// SmallLimit > 0 (portioned searches only): the search asks for that many traces, so that an early portion
	// already fills the answer and the later ones run with whatever the processor carries over
	SmallLimit int `json:"small_limit,omitempty"`
}

func (v variant) name() string {
	return fmt.Sprintf("cl%v-m%v-t%v", b2i(v.Cluster), b2i(v.Metrics15), b2i(v.TempoV2))
}

func b2i(b bool) int {
	if b {
		return 1
	}
	return 0
}

var rigSeq int

func newRig() *rig {
	rigSeq++
	r := &rig{sess: map[string]*sqldrv.Session{}}
	first := r.session(variant{})
	r.reg = sqldrv.NewRegistry(first, "")
	r.reader = sqldrv.StartReader(r.reg, "")
	r.reader.Server.Close() // requests go straight to the router
	return r
}

func (r *rig) session(v variant) *sqldrv.Session {
	if s := r.sess[v.name()]; s != nil {
		return s
	}
	s := sqldrv.NewSession(fmt.Sprintf("c13-%d-%s", rigSeq, v.name()), r.handle)
	s.Tables = []string{"samples_v3", "time_series", "time_series_gin", "tempo_traces", "tempo_traces_attrs_gin", "tempo_traces_kv",
		"profiles", "profiles_series", "profiles_series_gin", "profiles_series_keys"}
	if v.Metrics15 {
		s.Tables = append(s.Tables, "metrics_15s")
	}
	if v.Cluster {
		for _, t := range append([]string{}, s.Tables...) {
			s.Tables = append(s.Tables, t+"_dist")
		}
	}
	s.Versions = map[string]string{}
	if v.TempoV2 {
		s.Versions["tempo_v2"] = "0"
	}
	r.sess[v.name()] = s
	return s
}

// use points the reader at the variant's session and layout.
func (r *rig) use(v variant) {
	r.mu.Lock()
	r.complex = v.Complex
	r.transient = v.Transient
	r.mu.Unlock()
	cl := ""
	if v.Cluster {
		cl = "cl"
	}
	r.reg.Use(r.session(v), cl)
}

func (r *rig) setDB(db *chsql.DB) {
	r.mu.Lock()
	defer r.mu.Unlock()
	r.db = db
	r.transientLeft = 0
	if r.transient {
		r.transientLeft = 1
	}
	r.stmts = nil
	r.scans = nil
	if db != nil {
		db.OnScan = func(ev chsql.ScanEvent) {
			// called from inside handle (which holds r.mu)
			r.scans = append(r.scans, scanRec{Stmt: len(r.stmts), Table: ev.Table, Alias: ev.Alias, Offered: ev.Offered,
				Admitted: append([]int(nil), ev.Admitted...), Where: ev.Where})
		}
	}
}

func (r *rig) take() ([]stmtRec, []scanRec) {
	r.mu.Lock()
	defer r.mu.Unlock()
	return append([]stmtRec(nil), r.stmts...), append([]scanRec(nil), r.scans...)
}

func (r *rig) handle(ctx context.Context, q string) (*sqldrv.Rows, error) {
	r.mu.Lock()
	defer r.mu.Unlock()
	db := r.db
	if db == nil {
		return nil, fmt.Errorf("code: 60, message: no database")
	}
	rec := stmtRec{SQL: q}
	if r.complex && strings.Contains(q, "pre_final") && strings.HasSuffix(strings.TrimSpace(q), "FROM pre_final") {
		// the complexity estimate (a count over the index, no rows of its own reach the answer)
		r.stmts = append(r.stmts, rec)
		return sqldrv.NewRows([]string{"_count"}, [][]driver.Value{{int64(25000000)}}), nil
	}
	if r.transientLeft > 0 && (strings.Contains(q, "samples_v3") || strings.Contains(q, "metrics_15s")) && !strings.Contains(q, "FROM settings") {
		r.transientLeft--
		rec.Scripted = true // not an interpreter verdict: the case goes on with whatever the reader does next
		r.stmts = append(r.stmts, rec)
		return nil, io.ErrUnexpectedEOF
	}
	res, err := db.Exec(q)
	var rows *sqldrv.Rows
	if err != nil {
		rec.Err = err.Error()
		rec.Uns = errors.Is(err, chsql.ErrUnsupported)
		err = fmt.Errorf("code: 62, message: %s", err.Error())
	} else {
		rec.Rows = len(res.Rows)
		cols := make([]string, len(res.Cols))
		for i, c := range res.Cols {
			cols[i] = c.Name
		}
		data := make([][]driver.Value, len(res.Rows))
		for i, row := range res.Rows {
			data[i] = make([]driver.Value, len(row))
			for j, v := range row {
				dv, cerr := toDriver(v, res.Cols[j].Type)
				if cerr != nil && err == nil {
					err = cerr
					rec.Err, rec.Uns = cerr.Error(), true
				}
				data[i][j] = dv
			}
		}
		rows = sqldrv.NewRows(cols, data)
	}
	r.stmts = append(r.stmts, rec)
	if err != nil {
		return nil, err
	}
	return rows, nil
}

// httpReq is one request to the reader.
type httpReq struct {
	Method string `json:"method"`
	Path   string `json:"path"`
	Query  string `json:"query,omitempty"`
	Body   string `json:"body,omitempty"`
	CType  string `json:"ctype,omitempty"`
}

func (h httpReq) String() string {
	s := h.Method + " " + h.Path
	if h.Query != "" {
		s += "?" + h.Query
	}
	if h.Body != "" {
		s += " body=" + h.Body
	}
	return s
}

// do serves the request through the real router; a hang is reported as timedOut (inconclusive).
func (r *rig) do(h httpReq, timeout time.Duration) (status int, body []byte, timedOut bool) {
	u := h.Path
	if h.Query != "" {
		u += "?" + h.Query
	}
	ctx, cancel := context.WithTimeout(context.Background(), timeout)
	defer cancel()
	req, err := http.NewRequestWithContext(ctx, h.Method, "http://reader"+u, bytes.NewBufferString(h.Body))
	if err != nil {
		return -1, []byte(err.Error()), false
	}
	if h.CType != "" {
		req.Header.Set("Content-Type", h.CType)
	}
	rec := httptest.NewRecorder()
	done := make(chan struct{})
	go func() {
		defer close(done)
		defer func() {
			if p := recover(); p != nil {
				rec.WriteHeader(599)
				fmt.Fprintf(rec, "panic: %v", p)
			}
		}()
		r.reader.Router.ServeHTTP(rec, req)
	}()
	select {
	case <-done:
	case <-time.After(timeout + 2*time.Second):
		return 0, nil, true
	}
	b, _ := io.ReadAll(rec.Result().Body)
	return rec.Code, b, false
}

// toDriver converts an E-CHSQL value into what clickhouse-go hands to database/sql for the column type.
func toDriver(v chsql.Value, typ string) (driver.Value, error) {
	switch x := v.(type) {
	case uint8:
		return uint64(x), nil
	case uint16:
		return uint64(x), nil
	case uint32:
		return uint64(x), nil
	case uint64:
		return x, nil
	case int8:
		return int64(x), nil
	case int16:
		return int64(x), nil
	case int32:
		return int64(x), nil
	case int64:
		return x, nil
	case float64:
		return x, nil
	case string:
		return x, nil
	case chsql.Null:
		return nil, nil
	case chsql.Date:
		return time.Unix(int64(x)*86400, 0).UTC(), nil
	case chsql.DateTime:
		return time.Unix(int64(x), 0).UTC(), nil
	case *chsql.Map:
		m := map[string]string{}
		for i, k := range x.Keys {
			ks, ok1 := k.(string)
			vs, ok2 := x.Vals[i].(string)
			if !ok1 || !ok2 {
				return nil, fmt.Errorf("c13: cannot convert map %s", typ)
			}
			m[ks] = vs
		}
		return m, nil
	case chsql.Tuple:
		out := make([]any, len(x))
		for i, e := range x {
			d, err := toDriver(e, "")
			if err != nil {
				return nil, err
			}
			out[i] = d
		}
		return out, nil
	case chsql.Array:
		inner := strings.TrimSuffix(strings.TrimPrefix(typ, "Array("), ")")
		switch {
		case strings.HasPrefix(inner, "Tuple"):
			out := make([][]any, len(x))
			for i, e := range x {
				d, err := toDriver(e, "")
				if err != nil {
					return nil, err
				}
				out[i], _ = d.([]any)
			}
			return out, nil
		case inner == "String" || strings.HasPrefix(inner, "FixedString") || strings.HasPrefix(inner, "LowCardinality"):
			out := make([]string, len(x))
			for i, e := range x {
				s, ok := e.(string)
				if !ok {
					return nil, fmt.Errorf("c13: %s holds %T", typ, e)
				}
				out[i] = s
			}
			return out, nil
		case strings.HasPrefix(inner, "Int"):
			out := make([]int64, len(x))
			for i, e := range x {
				d, _ := toDriver(e, "")
				n, ok := d.(int64)
				if !ok {
					return nil, fmt.Errorf("c13: %s holds %T", typ, e)
				}
				out[i] = n
			}
			return out, nil
		case strings.HasPrefix(inner, "UInt"):
			out := make([]uint64, len(x))
			for i, e := range x {
				d, _ := toDriver(e, "")
				n, ok := d.(uint64)
				if !ok {
					return nil, fmt.Errorf("c13: %s holds %T", typ, e)
				}
				out[i] = n
			}
			return out, nil
		case strings.HasPrefix(inner, "Float"):
			out := make([]float64, len(x))
			for i, e := range x {
				f, ok := e.(float64)
				if !ok {
					return nil, fmt.Errorf("c13: %s holds %T", typ, e)
				}
				out[i] = f
			}
			return out, nil
		}
		// untyped / nested: generic
		out := make([]any, len(x))
		for i, e := range x {
			d, err := toDriver(e, "")
			if err != nil {
				return nil, err
			}
			out[i] = d
		}
		return out, nil
	}
	return nil, fmt.Errorf("c13: cannot convert %T (%s)", v, typ)
}

func qs(kv ...string) string {
	v := url.Values{}
	for i := 0; i+1 < len(kv); i += 2 {
		v.Add(kv[i], kv[i+1])
	}
	return v.Encode()
}
