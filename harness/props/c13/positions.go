package c13

import (
	"encoding/json"
	"fmt"
	"math/rand"
	"sort"
)

// selectCall is a direct CLokiQuerier.Select (every SelectHints.Func the code distinguishes).
type selectCall struct {
	Start int64  `json:"start_ms"`
	End   int64  `json:"end_ms"`
	Step  int64  `json:"step_ms"`
	Range int64  `json:"range_ms"`
	Func  string `json:"func"`
}

// plan is everything a position derives from a window: the request, which rows count as outside,
// which must be found, and how the data is laid out.
type plan struct {
	r   *rand.Rand
	Tag string `json:"tag"`

	From int64 `json:"from"` // requested window, snapped to the API's unit (ns)
	To   int64 `json:"to"`
	// rows with ALo <= ts <= AHi are not sentinels (window + the widening the property allows +
	// the instants whose membership the API leaves open)
	ALo int64 `json:"allowed_lo"`
	AHi int64 `json:"allowed_hi"`
	// rows with PLo <= ts <= PHi are certainly inside the requested window
	PLo int64 `json:"probe_lo"`
	PHi int64 `json:"probe_hi"`

	Bucket      int64 `json:"bucket,omitempty"`   // range bucket of a metric query (ns)
	MinStep     int64 `json:"min_step"`           // nearest sentinel distance (ns)
	NsProbe     bool  `json:"-"`                  // also a probe at PLo+1ns
	Metric      bool  `json:"metric,omitempty"`   // metric query: widening to range bucket / 15 s storage boundaries allowed
	OwnType     uint8 `json:"own_type,omitempty"` // logs/metrics families: type the API reads
	AllShared   bool  `json:"-"`                  // all items in one trace (trace by id)
	TypePerItem bool  `json:"-"`                  // profile type name per item (ProfileTypes)
	noShared    bool  // no items sharing a key with a probe (trace search: trace-level info is a dependent look-up)

	Req    httpReq     `json:"request"`
	Direct *selectCall `json:"select,omitempty"`
	Desc   string      `json:"desc,omitempty"`

	// Expect says whether a probe must show in the response (nil: all probes must)
	Expect func(it *item) bool `json:"-"`
	// Opaque: the response carries no markers (pure aggregate): differential comparison incl. the
	// database without probes
	Opaque bool `json:"opaque,omitempty"`
	// NoProbeCheck: probes are not required end to end (the result model is outside C13)
	NoProbeCheck bool `json:"no_probe_check,omitempty"`
}

type position struct {
	Name   string
	Family string // loki prom tempo pyro
	Unit   int64  // ns per unit of the API's time parameters
	Index  bool   // answers from index tables only: a date range covering the window is all the property asks
	Weight int    // share in the schedule
	Plan   func(p *plan)
}

func floorTo(x, m int64) int64 { return floorDiv(x, m) * m }
func ceilTo(x, m int64) int64  { return -floorDiv(-x, m) * m }
func max64(a, b int64) int64 {
	if a > b {
		return a
	}
	return b
}
func min64(a, b int64) int64 {
	if a < b {
		return a
	}
	return b
}

// exact window [from, to]: `to` itself is left open by the APIs (half-open in some, closed in others)
func (p *plan) exact() {
	p.ALo, p.AHi = p.From, p.To
	p.PLo, p.PHi = p.From, p.To-1
}

// metric widening allowed by the property: enclosing range bucket and 15 s storage boundaries (a
// range bucket that does not start on a 15 s boundary is completed to the storage buckets it overlaps)
func (p *plan) widen(rng int64) {
	p.Metric = true
	p.Bucket = rng
	lo, hiExcl := floorTo(p.From, 15*sec), floorTo(p.To, 15*sec)+15*sec
	if rng > 0 {
		lo = min64(lo, floorTo(floorTo(p.From, rng), 15*sec))
		hiExcl = max64(hiExcl, ceilTo(floorTo(p.To, rng)+rng, 15*sec))
	}
	p.ALo, p.AHi = min64(lo, p.ALo), max64(hiExcl-1, p.AHi)
}

func ns(x int64) string   { return fmt.Sprint(x) }
func secs(x int64) string { return fmt.Sprint(floorDiv(x, sec)) }
func ms(x int64) string   { return fmt.Sprint(floorDiv(x, 1e6)) }

func durText(d int64) string {
	switch {
	case d%min_ == 0:
		return fmt.Sprintf("%dm", d/min_)
	case d%sec == 0:
		return fmt.Sprintf("%ds", d/sec)
	}
	return fmt.Sprintf("%dms", d/1e6)
}

func lokiRange(p *plan, q string, step int64, extra ...string) {
	kv := []string{"query", q, "start", ns(p.From), "end", ns(p.To), "limit", "1000"}
	if step > 0 {
		kv = append(kv, "step", fmt.Sprintf("%g", float64(step)/1e9))
	}
	kv = append(kv, extra...)
	p.Req = httpReq{Method: "GET", Path: "/loki/api/v1/query_range", Query: qs(kv...)}
	p.Desc = q
}

func lokiMetric(fn string, ranges []int64, stepMode string, by bool) func(p *plan) {
	return func(p *plan) {
		p.OwnType = 1
		p.exact()
		rng := ranges[p.r.Intn(len(ranges))]
		var step int64
		switch stepMode {
		case "lt":
			step = []int64{rng / 5, rng / 2, sec}[p.r.Intn(3)]
			if step < sec {
				step = sec
			}
			if step >= rng {
				step = rng
			}
		case "gt":
			step = rng * int64(2+p.r.Intn(3))
		default:
			step = rng
		}
		p.widen(rng)
		if step > rng {
			// tumbling buckets sampled every `step`: which buckets are represented is C08's subject
			p.NoProbeCheck = true
		}
		q := fmt.Sprintf(`%s({c13="%s"}[%s])`, fn, p.Tag, durText(rng))
		if by {
			q = fmt.Sprintf(`sum by (mk) (%s)`, q)
		}
		// keep the number of points small
		for (p.To-p.From)/step > 5000 {
			step *= 10
			if step > rng {
				p.NoProbeCheck = true
			}
		}
		lokiRange(p, q, step)
	}
}

func pyroBody(p *plan, fields map[string]any) {
	fields["start"] = floorDiv(p.From, 1e6)
	fields["end"] = floorDiv(p.To, 1e6)
	b, _ := json.Marshal(fields)
	p.Req.Method, p.Req.Body, p.Req.CType = "POST", string(b), "application/json"
}

func pyroSel(p *plan) string { return fmt.Sprintf(`{c13="%s"}`, p.Tag) }

var promFuncs = []string{"", "abs", "timestamp", "rate", "irate", "delta", "increase", "deriv", "idelta", "resets",
	"min_over_time", "max_over_time", "sum_over_time", "count_over_time", "avg_over_time", "last_over_time",
	"absent_over_time", "present_over_time", "stddev_over_time", "stdvar_over_time", "quantile_over_time",
	"sum", "min", "max", "avg", "group", "count", "topk", "foo"}

var promRangeFuncs = map[string]bool{"absent_over_time": true, "deriv": true, "idelta": true, "irate": true, "rate": true, "resets": true,
	"min_over_time": true, "max_over_time": true, "sum_over_time": true, "count_over_time": true, "stddev_over_time": true,
	"stdvar_over_time": true, "last_over_time": true, "present_over_time": true, "delta": true, "increase": true, "avg_over_time": true,
	"quantile_over_time": true}

func promHTTP(expr func(p *plan) (q string, rng int64), instant bool) func(p *plan) {
	return func(p *plan) {
		p.OwnType = 2
		if instant {
			q, rng := expr(p)
			look := int64(300) * sec
			if rng > 0 {
				look = rng
			}
			t := p.To
			p.From = t - look
			p.ALo, p.AHi = p.From, t+1e6-1 // the sample at exactly t-lookback is left open (Prometheus 2 includes, 3 excludes)
			p.PLo, p.PHi = p.From+1e6, t
			p.widen(0)
			p.Req = httpReq{Method: "GET", Path: "/api/v1/query", Query: qs("query", q, "time", secs(t))}
			p.Desc = q
			// the 15 s pre-aggregation may move a sample by up to 15 s: only probes robustly inside are required
			p.Expect = func(it *item) bool { return it.Ts >= p.PLo && it.Ts <= p.PHi }
			return
		}
		q, rng := expr(p)
		step := []int64{5, 15, 60, 30}[p.r.Intn(4)] * sec
		for (p.To-p.From)/step > 10000 {
			step *= 10
		}
		start, end := floorTo(p.From, 15*sec), ceilTo(p.To, 15*sec) // the controller widens to 15 s boundaries
		look := int64(300) * sec
		if rng > 0 {
			look = rng
		}
		p.ALo, p.AHi = start-look, end+1e6-1
		p.PLo, p.PHi = p.From+1e6, p.To-1
		p.widen(0)
		p.Req = httpReq{Method: "GET", Path: "/api/v1/query_range", Query: qs("query", q, "start", secs(p.From), "end", secs(p.To), "step", secs(step))}
		p.Desc = q
		margin, shift := int64(0), int64(0)
		if step >= 15*sec {
			// pre-aggregated path: samples are reported at the start of their 15 s bucket and of their
			// step bucket (multiples of the step since the epoch): how far that moves a point is C17's
			// subject; only probes visible under any such shift are required
			margin, shift = 15*sec, step
		}
		p.Expect = func(it *item) bool {
			// visible iff some evaluation time t = start + k*step <= end has the sample in (t-look, t]
			tsMs := floorDiv(it.Ts, 1e6) * 1e6
			for t := start; t <= end; t += step {
				if t >= tsMs+margin && t-look < tsMs-margin-shift {
					return true
				}
			}
			return false
		}
	}
}

func tempoSearch(q func(p *plan) []string, variantV2 bool) func(p *plan) {
	return func(p *plan) {
		p.exact()
		p.PLo = p.From + 1
		kv := append(q(p), "start", secs(p.From), "end", secs(p.To), "limit", "500")
		p.Req = httpReq{Method: "GET", Path: "/api/search", Query: qs(kv...)}
		p.Desc = fmt.Sprint(q(p))
	}
}

func tempoTagsV2(path func(p *plan) string, withQ bool) func(p *plan) {
	return func(p *plan) {
		p.exact()
		p.PLo = p.From + 1
		kv := []string{"start", secs(p.From), "end", secs(p.To)}
		if withQ {
			kv = append(kv, "q", fmt.Sprintf(`{.c13="%s"}`, p.Tag))
		}
		p.Req = httpReq{Method: "GET", Path: path(p), Query: qs(kv...)}
	}
}

var positions = []position{
	// ------------------------------------------------------------------ Loki
	{Name: "loki.query_range.log", Family: "loki", Unit: 1, Weight: 3, Plan: func(p *plan) {
		p.OwnType = 1
		p.exact()
		lokiRange(p, fmt.Sprintf(`{c13="%s"}`, p.Tag), 0, "direction", []string{"forward", "backward"}[p.r.Intn(2)])
	}},
	{Name: "loki.query_range.log.filter", Family: "loki", Unit: 1, Weight: 1, Plan: func(p *plan) {
		p.OwnType = 1
		p.exact()
		lokiRange(p, fmt.Sprintf(`{c13="%s", mk=~".+"} |= "line"`, p.Tag), 0)
	}},
	{Name: "loki.query_range.rate.lt15.step<range", Family: "loki", Unit: 1, Weight: 2, Plan: lokiMetric("rate", []int64{5 * sec, 10 * sec}, "lt", false)},
	{Name: "loki.query_range.rate.lt15.step>range", Family: "loki", Unit: 1, Weight: 1, Plan: lokiMetric("count_over_time", []int64{5 * sec, 10 * sec}, "gt", false)},
	{Name: "loki.query_range.rate.ge15.step<range", Family: "loki", Unit: 1, Weight: 2, Plan: lokiMetric("rate", []int64{15 * sec, min_, 5 * min_}, "lt", false)},
	{Name: "loki.query_range.rate.ge15.step>range", Family: "loki", Unit: 1, Weight: 1, Plan: lokiMetric("count_over_time", []int64{15 * sec, 20 * sec, min_}, "gt", false)},
	{Name: "loki.query_range.sumby.ge15", Family: "loki", Unit: 1, Weight: 1, Plan: lokiMetric("count_over_time", []int64{min_, 30 * sec}, "eq", true)},
	{Name: "loki.query_range.bytes.lt15", Family: "loki", Unit: 1, Weight: 1, Plan: lokiMetric("bytes_over_time", []int64{10 * sec, 5 * sec}, "eq", true)},
	// a range that does not divide 24 h (the SQL buckets are multiples of the range since the epoch)
	{Name: "loki.query_range.count.odd-range", Family: "loki", Unit: 1, Weight: 1, Plan: lokiMetric("count_over_time", []int64{7 * sec, 13 * sec, 7 * min_}, "eq", false)},
	{Name: "loki.query_range.unwrap", Family: "loki", Unit: 1, Weight: 1, Plan: func(p *plan) {
		p.OwnType = 1
		p.exact()
		rng := []int64{10 * sec, min_}[p.r.Intn(2)]
		p.widen(rng)
		step := rng
		for (p.To-p.From)/step > 5000 {
			step *= 10
			p.NoProbeCheck = true
		}
		lokiRange(p, fmt.Sprintf(`max_over_time({c13="%s"} | regexp "v=(?P<v>[0-9]+)" | unwrap v [%s]) by (mk)`, p.Tag, durText(rng)), step)
	}},
	{Name: "loki.query.log", Family: "loki", Unit: 1, Weight: 1, Plan: func(p *plan) {
		p.OwnType = 1
		p.From = p.To - 300*sec
		p.exact()
		q := fmt.Sprintf(`{c13="%s"}`, p.Tag)
		p.Req = httpReq{Method: "GET", Path: "/loki/api/v1/query", Query: qs("query", q, "time", ns(p.To), "limit", "1000")}
		p.Desc = q
	}},
	{Name: "loki.query.metric", Family: "loki", Unit: 1, Weight: 1, Plan: func(p *plan) {
		p.OwnType = 1
		p.From = p.To - 300*sec
		p.exact()
		rng := []int64{10 * sec, min_}[p.r.Intn(2)]
		p.widen(rng)
		q := fmt.Sprintf(`count_over_time({c13="%s"}[%s])`, p.Tag, durText(rng))
		p.Req = httpReq{Method: "GET", Path: "/loki/api/v1/query", Query: qs("query", q, "time", ns(p.To))}
		p.Desc = q
		p.NoProbeCheck = true // an instant vector keeps one value per series: which one is C08's subject
	}},
	{Name: "loki.labels", Family: "loki", Unit: 1, Index: true, Weight: 1, Plan: func(p *plan) {
		p.OwnType = 1
		p.exact()
		p.Req = httpReq{Method: "GET", Path: []string{"/loki/api/v1/labels", "/loki/api/v1/label"}[p.r.Intn(2)], Query: qs("start", ns(p.From), "end", ns(p.To))}
	}},
	{Name: "loki.label.values", Family: "loki", Unit: 1, Index: true, Weight: 1, Plan: func(p *plan) {
		p.OwnType = 1
		p.exact()
		p.Req = httpReq{Method: "GET", Path: "/loki/api/v1/label/mk/values", Query: qs("start", ns(p.From), "end", ns(p.To))}
	}},
	{Name: "loki.label.values.query", Family: "loki", Unit: 1, Index: true, Weight: 1, Plan: func(p *plan) {
		p.OwnType = 1
		p.exact()
		sel := fmt.Sprintf(`{c13="%s"}`, p.Tag)
		p.Req = httpReq{Method: "GET", Path: "/loki/api/v1/label/mk/values", Query: qs("start", ns(p.From), "end", ns(p.To), "query", sel, "match[]", sel)}
	}},
	{Name: "loki.series", Family: "loki", Unit: 1, Index: true, Weight: 1, Plan: func(p *plan) {
		p.OwnType = 1
		p.exact()
		p.Req = httpReq{Method: "GET", Path: "/loki/api/v1/series", Query: qs("start", ns(p.From), "end", ns(p.To), "match[]", fmt.Sprintf(`{c13="%s"}`, p.Tag))}
	}},
	// ------------------------------------------------------------------ Prometheus
	{Name: "prom.labels", Family: "prom", Unit: sec, Index: true, Weight: 1, Plan: func(p *plan) {
		p.OwnType = 2
		p.exact()
		p.Req = httpReq{Method: "GET", Path: "/api/v1/labels", Query: qs("start", secs(p.From), "end", secs(p.To))}
	}},
	{Name: "prom.label.values", Family: "prom", Unit: sec, Index: true, Weight: 1, Plan: func(p *plan) {
		p.OwnType = 2
		p.exact()
		p.Req = httpReq{Method: "GET", Path: "/api/v1/label/mk/values", Query: qs("start", secs(p.From), "end", secs(p.To))}
	}},
	{Name: "prom.label.values.match", Family: "prom", Unit: sec, Index: true, Weight: 1, Plan: func(p *plan) {
		p.OwnType = 2
		p.exact()
		p.Req = httpReq{Method: "GET", Path: "/api/v1/label/mk/values", Query: qs("start", secs(p.From), "end", secs(p.To), "match[]", fmt.Sprintf(`c13m{c13="%s"}`, p.Tag))}
	}},
	{Name: "prom.series", Family: "prom", Unit: sec, Index: true, Weight: 1, Plan: func(p *plan) {
		p.OwnType = 2
		p.exact()
		p.Req = httpReq{Method: "GET", Path: "/api/v1/series", Query: qs("start", secs(p.From), "end", secs(p.To), "match[]", fmt.Sprintf(`c13m{c13="%s"}`, p.Tag))}
	}},
	{Name: "prom.query_range.selector", Family: "prom", Unit: sec, Weight: 2, Plan: promHTTP(func(p *plan) (string, int64) {
		return fmt.Sprintf(`c13m{c13="%s"}`, p.Tag), 0
	}, false)},
	{Name: "prom.query_range.over_time", Family: "prom", Unit: sec, Weight: 2, Plan: promHTTP(func(p *plan) (string, int64) {
		rng := []int64{2 * min_, 5 * min_, 10 * min_}[p.r.Intn(3)]
		fn := []string{"max_over_time", "last_over_time", "sum_over_time", "count_over_time"}[p.r.Intn(4)]
		return fmt.Sprintf(`%s(c13m{c13="%s"}[%s])`, fn, p.Tag, durText(rng)), rng
	}, false)},
	{Name: "prom.query.selector", Family: "prom", Unit: sec, Weight: 1, Plan: promHTTP(func(p *plan) (string, int64) {
		return fmt.Sprintf(`c13m{c13="%s"}`, p.Tag), 0
	}, true)},
	{Name: "prom.query.over_time", Family: "prom", Unit: sec, Weight: 1, Plan: promHTTP(func(p *plan) (string, int64) {
		rng := []int64{min_, 5 * min_}[p.r.Intn(2)]
		return fmt.Sprintf(`max_over_time(c13m{c13="%s"}[%s])`, p.Tag, durText(rng)), rng
	}, true)},
	// ------------------------------------------------------------------ Tempo
	{Name: "tempo.trace", Family: "tempo", Unit: sec, Weight: 2, Plan: func(p *plan) {
		p.exact()
		p.AllShared = true
		it := &item{Shared: true}
		path := []string{"/api/traces/", "/tempo/api/traces/"}[p.r.Intn(2)] + traceID(p.Tag, it)
		if p.r.Intn(3) == 0 {
			path = "/api/traces/" + traceID(p.Tag, it) + "/json"
		}
		p.Req = httpReq{Method: "GET", Path: path, Query: qs("start", secs(p.From), "end", secs(p.To))}
	}},
	{Name: "tempo.search.tags", Family: "tempo", Unit: sec, Weight: 2, Plan: tempoSearch(func(p *plan) []string {
		return []string{"tags", fmt.Sprintf(`c13=%s`, p.Tag)}
	}, false)},
	{Name: "tempo.search.traceql", Family: "tempo", Unit: sec, Weight: 2, Plan: tempoSearch(func(p *plan) []string {
		return []string{"q", fmt.Sprintf(`{.c13="%s"}`, p.Tag)}
	}, false)},
	{Name: "tempo.search.traceql.and", Family: "tempo", Unit: sec, Weight: 1, Plan: tempoSearch(func(p *plan) []string {
		return []string{"q", fmt.Sprintf(`{.c13="%s" && name=~"c13.*"}`, p.Tag)}
	}, false)},
	{Name: "tempo.search.traceql.attrless", Family: "tempo", Unit: sec, Weight: 1, Plan: tempoSearch(func(p *plan) []string {
		return []string{"q", `{}`}
	}, false)},
	{Name: "tempo.search.traceql.agg", Family: "tempo", Unit: sec, Weight: 1, Plan: tempoSearch(func(p *plan) []string {
		return []string{"q", fmt.Sprintf(`{.c13="%s"} | count() > 0`, p.Tag)}
	}, false)},
	{Name: "tempo.tags.v1", Family: "tempo", Unit: sec, Index: true, Weight: 1, Plan: func(p *plan) {
		p.exact()
		p.PLo = p.From + 1
		p.Req = httpReq{Method: "GET", Path: []string{"/api/search/tags", "/tempo/api/search/tags"}[p.r.Intn(2)], Query: qs("start", secs(p.From), "end", secs(p.To))}
	}},
	{Name: "tempo.tag.values.v1", Family: "tempo", Unit: sec, Index: true, Weight: 1, Plan: func(p *plan) {
		p.exact()
		p.PLo = p.From + 1
		p.Req = httpReq{Method: "GET", Path: []string{"/api/search/tag/mk/values", "/tempo/api/search/tag/mk/values"}[p.r.Intn(2)], Query: qs("start", secs(p.From), "end", secs(p.To))}
	}},
	{Name: "tempo.v2.tags", Family: "tempo", Unit: sec, Index: true, Weight: 1, Plan: tempoTagsV2(func(p *plan) string { return "/api/v2/search/tags" }, false)},
	{Name: "tempo.v2.tags.q", Family: "tempo", Unit: sec, Weight: 1, Plan: tempoTagsV2(func(p *plan) string { return "/api/v2/search/tags" }, true)},
	{Name: "tempo.v2.tag.values", Family: "tempo", Unit: sec, Index: true, Weight: 1, Plan: tempoTagsV2(func(p *plan) string { return "/api/v2/search/tag/mk/values" }, false)},
	{Name: "tempo.v2.tag.values.q", Family: "tempo", Unit: sec, Weight: 1, Plan: tempoTagsV2(func(p *plan) string { return "/api/v2/search/tag/mk/values" }, true)},
	// ------------------------------------------------------------------ Pyroscope
	{Name: "pyro.ProfileTypes", Family: "pyro", Unit: 1e6, Index: true, Weight: 1, Plan: func(p *plan) {
		p.exact()
		p.TypePerItem = true
		p.Req.Path = "/querier.v1.QuerierService/ProfileTypes"
		pyroBody(p, map[string]any{})
	}},
	{Name: "pyro.LabelNames", Family: "pyro", Unit: 1e6, Index: true, Weight: 1, Plan: func(p *plan) {
		p.exact()
		p.Req.Path = "/querier.v1.QuerierService/LabelNames"
		f := map[string]any{}
		if p.r.Intn(2) == 0 {
			f["matchers"] = []string{pyroSel(p)}
		}
		pyroBody(p, f)
	}},
	{Name: "pyro.LabelValues", Family: "pyro", Unit: 1e6, Index: true, Weight: 1, Plan: func(p *plan) {
		p.exact()
		p.Req.Path = "/querier.v1.QuerierService/LabelValues"
		f := map[string]any{"name": "mk"}
		if p.r.Intn(2) == 0 {
			f["matchers"] = []string{pyroSel(p)}
		}
		pyroBody(p, f)
	}},
	{Name: "pyro.Series", Family: "pyro", Unit: 1e6, Index: true, Weight: 1, Plan: func(p *plan) {
		p.exact()
		p.Req.Path = "/querier.v1.QuerierService/Series"
		f := map[string]any{"matchers": []string{pyroSel(p)}}
		switch p.r.Intn(3) {
		case 0:
			f["label_names"] = []string{"mk"}
		case 1:
			f["matchers"] = []string{}
		}
		pyroBody(p, f)
	}},
	{Name: "pyro.SelectSeries", Family: "pyro", Unit: 1e6, Weight: 2, Plan: func(p *plan) {
		p.exact()
		p.Req.Path = "/querier.v1.QuerierService/SelectSeries"
		step := []int64{15, 60, 1}[p.r.Intn(3)]
		pyroBody(p, map[string]any{"profile_typeID": profFullTypeID, "label_selector": pyroSel(p), "group_by": []string{"mk"}, "step": step})
	}},
	{Name: "pyro.SelectMergeStacktraces", Family: "pyro", Unit: 1e6, Weight: 2, Plan: func(p *plan) {
		p.exact()
		p.Req.Path = "/querier.v1.QuerierService/SelectMergeStacktraces"
		pyroBody(p, map[string]any{"profile_typeID": profFullTypeID, "label_selector": pyroSel(p)})
	}},
	{Name: "pyro.SelectMergeProfile", Family: "pyro", Unit: 1e6, Weight: 2, Plan: func(p *plan) {
		p.exact()
		p.Req.Path = "/querier.v1.QuerierService/SelectMergeProfile"
		pyroBody(p, map[string]any{"profile_typeID": profFullTypeID, "label_selector": pyroSel(p)})
	}},
	{Name: "pyro.render-diff", Family: "pyro", Unit: 1e6, Weight: 2, Plan: func(p *plan) {
		p.exact()
		q := profFullTypeID + pyroSel(p)
		p.Req = httpReq{Method: "GET", Path: "/pyroscope/render-diff", Query: qs("leftQuery", q, "leftFrom", ms(p.From), "leftUntil", ms(p.To),
			"rightQuery", q, "rightFrom", ms(p.From), "rightUntil", ms(p.To))}
	}},
}

func init() {
	// CLokiQuerier.Select with every SelectHints.Func the code distinguishes
	for _, fn := range promFuncs {
		fn := fn
		name := fn
		if name == "" {
			name = "none"
		}
		positions = append(positions, position{Name: "prom.select." + name, Family: "prom", Unit: 1e6, Weight: 1, Plan: func(p *plan) {
			p.OwnType = 2
			// half of the cases start on a 15 s boundary (precondition of the pre-aggregated path)
			if p.r.Intn(2) == 0 {
				p.From = floorTo(p.From, 15*sec)
				if p.To <= p.From {
					p.To = p.From + 1e6
				}
			}
			step := []int64{0, 5000, 15000, 60000, 15000}[p.r.Intn(5)]
			rng := int64(0)
			if promRangeFuncs[fn] {
				rng = []int64{10000, 60000, 300000, 15000}[p.r.Intn(4)]
			}
			p.Direct = &selectCall{Start: floorDiv(p.From, 1e6), End: floorDiv(p.To, 1e6), Step: step, Range: rng, Func: fn}
			// [Start, End] in ms; a sample exactly at Start is left open (Prometheus 2 includes, 3 excludes);
			// a sample inside the millisecond End belongs to it
			p.ALo, p.AHi = p.From, p.To+1e6-1
			p.PLo, p.PHi = p.From+1e6, p.To
			if p.PLo > p.PHi {
				p.PLo = p.PHi
			}
			p.widen(0)
			if promRangeFuncs[fn] && step > rng {
				p.NoProbeCheck = true // only samples inside (t-range, t] of an evaluation time are needed
			}
			if step >= 15000 {
				// pre-aggregated rows stand for 15 s: a probe in the bucket holding Start may legitimately be cut
				lo := ceilTo(p.From+1, 15*sec)
				p.Expect = func(it *item) bool { return it.Ts >= lo }
			}
			p.Desc = fmt.Sprintf("Select(hints{Start:%d End:%d Step:%d Range:%d Func:%q}, c13=%q)", p.Direct.Start, p.Direct.End, step, rng, fn, p.Tag)
		}})
	}
}

func positionByName(n string) *position {
	for i := range positions {
		if positions[i].Name == n {
			return &positions[i]
		}
	}
	return nil
}

// endpointOf groups positions into the endpoints the floors refer to.
func familyPositions() map[string][]string {
	m := map[string][]string{}
	for _, p := range positions {
		m[p.Family] = append(m[p.Family], p.Name)
	}
	for _, v := range m {
		sort.Strings(v)
	}
	return m
}

// newPlan snaps the window to the position's unit and lets the position fill in the rest.
func newPlan(pos *position, w window, tag string, r *rand.Rand) *plan {
	p := &plan{r: r, Tag: tag, MinStep: 1}
	p.From = floorTo(w.From, pos.Unit)
	p.To = floorTo(w.To, pos.Unit)
	if p.To <= p.From {
		p.To = p.From + pos.Unit
	}
	p.NsProbe = pos.Unit == 1
	pos.Plan(p)
	if p.PHi < p.PLo {
		p.PHi = p.PLo
	}
	return p
}

// genItems lays out probes, sentinels, grey rows and rows of the other signal.
func (p *plan) genItems(lp bool) []*item {
	var items []*item
	n := map[string]int{}
	add := func(role, side, dist string, ts int64, shared bool) {
		if shared && p.noShared {
			return
		}
		for _, it := range items {
			if it.Ts == ts && it.Shared == (shared || p.AllShared) && it.Role == role {
				return
			}
		}
		n[role]++
		letter := map[string]string{roleProbe: "P", roleSentinel: "S", roleGrey: "G", roleOther: "O"}[role]
		base := map[string]int64{roleProbe: 100, roleSentinel: 7000000, roleGrey: 3000000, roleOther: 5000000}[role]
		it := &item{Role: role, Side: side, Dist: dist, Ts: ts, Shared: shared || p.AllShared,
			Marker: fmt.Sprintf("c13%s%02dx", letter, n[role]), VMark: base + int64(n[role])}
		items = append(items, it)
	}
	mid := p.PLo + (p.PHi-p.PLo)/2
	// probes
	add(roleProbe, "", "mid", mid, false)
	add(roleProbe, "", "from", p.PLo, false)
	if p.NsProbe && p.PLo+1 <= p.PHi {
		add(roleProbe, "", "from+1", p.PLo+1, false)
	}
	add(roleProbe, "", "to-1", p.PHi, false)
	if !p.AllShared {
		add(roleProbe, "", "mix", mid, true)
	}
	// sentinels
	type dist struct {
		name string
		d    int64
	}
	first := "1ns"
	switch p.MinStep {
	case 1e6:
		first = "1ms"
	case sec:
		first = "1s"
	}
	dists := []dist{{first, p.MinStep}, {"1s", sec}, {"15s", 15 * sec}, {"1d", day}, {"1mo", 31 * day}}
	if p.Bucket > 0 {
		dists = append(dists, dist{"bucket", p.Bucket})
	}
	for _, d := range dists {
		for _, shared := range []bool{false, true} {
			if p.AllShared && shared {
				continue
			}
			add(roleSentinel, "before", d.name, p.ALo-d.d, shared)
			add(roleSentinel, "after", d.name, p.AHi+d.d, shared)
		}
	}
	// grey: inside the allowed widening, outside the window
	if p.ALo < p.PLo {
		add(roleGrey, "before", "edge", p.ALo, false)
		if p.PLo-1 > p.ALo {
			add(roleGrey, "before", "near", p.PLo-1, true)
		}
	}
	if p.AHi > p.PHi {
		add(roleGrey, "after", "edge", p.AHi, false)
		if p.PHi+1 < p.AHi {
			add(roleGrey, "after", "near", p.PHi+1, true)
		}
	}
	// the other signal, inside the window
	if lp {
		add(roleOther, "", "twin", mid, true) // same labels (fingerprint) as the probe "mid"
		add(roleOther, "", "own", mid, false)
	}
	return items
}
