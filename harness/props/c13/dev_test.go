package c13

import (
	"fmt"
	"testing"
	"time"
)

func TestDevScan(t *testing.T) {
	r := newRig()
	tag := "t1"
	from := int64(1700000000) * 1e9
	to := from + 3600e9
	items := []*item{
		{Role: roleProbe, Dist: "mid", Ts: from + 1800e9, Marker: "c13P01x", VMark: 101},
		{Role: roleProbe, Dist: "from", Ts: from, Marker: "c13P02x", VMark: 102},
		{Role: roleSentinel, Side: "before", Dist: "1ns", Ts: from - 1, Marker: "c13S01x", VMark: 7000001},
		{Role: roleSentinel, Side: "after", Dist: "1s", Ts: to + 1e9, Marker: "c13S02x", VMark: 7000002, Shared: true},
		{Role: roleOther, Ts: from + 1800e9, Marker: "c13O01x", VMark: 5000001, Shared: true},
	}
	for _, cl := range []bool{false, true} {
		v := variant{Cluster: cl, Metrics15: true, TempoV2: true}
		r.use(v)
		tb, err := buildLP(cl, items, "full", tag, 1)
		if err != nil {
			t.Fatal(err)
		}
		r.setDB(tb.db)
		for _, q := range []string{`{c13="t1"}`, `rate({c13="t1"}[10s])`, `rate({c13="t1"}[1m])`, `sum by (mk) (count_over_time({c13="t1"}[1m]))`,
			`max_over_time({c13="t1"} | regexp "v=(?P<v>[0-9]+)" | unwrap v [10s]) by (mk)`} {
			r.setDB(tb.db)
			st, body, to_ := r.do(httpReq{Method: "GET", Path: "/loki/api/v1/query_range", Query: qs("query", q, "start", fmt.Sprint(from), "end", fmt.Sprint(to), "step", "5", "limit", "1000")}, 10*time.Second)
			fmt.Println("==", cl, q, st, to_, string(body))
			stmts, scans := r.take()
			for _, s := range stmts {
				fmt.Println("  SQL:", s.SQL, "ERR:", s.Err, s.Rows)
			}
			for _, s := range scans {
				fmt.Printf("  SCAN %d %s as %s offered=%d admitted=%v where=%s\n", s.Stmt, s.Table, s.Alias, s.Offered, s.Admitted, s.Where)
			}
		}
	}
}
