package c13

import (
	"fmt"
	"net/http/httptest"
	"strings"
	"time"

	"github.com/gorilla/websocket"

	"verif/harness/engines/run"
)

// tailPos is the Loki tail endpoint: a websocket over which the reader re-executes the log query
// every second for the window [connect time - 5 min (then: last line + 1 ns), now].
var tailPos = &position{Name: "loki.tail", Family: "loki", Unit: 1}

func runTail(c *run.Ctx, rg *rig, cs *caseSpec) {
	tag := fmt.Sprintf("t%d", cs.Idx)
	gen := time.Now().UnixNano()
	p := &plan{Tag: tag, MinStep: 1, OwnType: 1, NsProbe: true}
	p.From, p.To = gen-300*sec, gen
	p.ALo, p.AHi = gen-300*sec, gen+600*sec
	p.PLo, p.PHi = gen-240*sec, gen-sec
	q := fmt.Sprintf(`{c13="%s"}`, tag)
	p.Req = httpReq{Method: "GET", Path: "/loki/api/v1/tail", Query: qs("query", q)}
	p.Desc = q + " (websocket, 3 s)"
	items := p.genItems(true)
	runPrepared(c, rg, tailPos, cs, p, items, func(tb *tables) *outcome {
		rg.setDB(tb.db)
		o := &outcome{Status: 200}
		srv := httptest.NewServer(rg.reader.Router)
		defer srv.Close()
		u := "ws" + strings.TrimPrefix(srv.URL, "http") + p.Req.Path + "?" + p.Req.Query
		d := websocket.Dialer{HandshakeTimeout: 20 * time.Second}
		con, _, err := d.Dial(u, nil)
		if err != nil {
			o.Status, o.Body = 599, []byte("dial: "+err.Error())
			return o
		}
		var frames []string
		deadline := time.Now().Add(3200 * time.Millisecond)
		for time.Now().Before(deadline) {
			con.SetReadDeadline(deadline)
			_, msg, err := con.ReadMessage()
			if err != nil {
				break
			}
			frames = append(frames, string(msg))
		}
		con.WriteControl(websocket.CloseMessage, websocket.FormatCloseMessage(websocket.CloseNormalClosure, ""), time.Now().Add(time.Second))
		con.Close()
		time.Sleep(1300 * time.Millisecond) // the session's goroutine ends at its next tick
		o.Stmts, o.Scans = rg.take()
		o.Body = []byte("[" + strings.Join(frames, ",") + "]")
		if time.Now().UnixNano()-gen > 590*sec {
			o.TimedOut = true // the sentinels "after" may have come inside: inconclusive
		}
		c.Event("tail: frames received", len(frames))
		return o
	})
}
