// Package c18: schema initialisation survives failure at any statement and can simply be
// re-run (DESIGN §3 C18). The real maintenance.Update runs against E-CAT (engines/cat);
// faults are enumerated over every statement of the uninterrupted run.
package c18

import (
	"bytes"
	"crypto/sha1"
	"encoding/hex"
	"encoding/json"
	"fmt"
	"os"
	"runtime"
	"runtime/debug"
	"sort"
	"strconv"
	"strings"
	"sync"
	"text/template"

	"github.com/metrico/qryn/ctrl/qryn/maintenance"
	qsql "github.com/metrico/qryn/ctrl/qryn/sql"

	"verif/harness/engines/cat"
	"verif/harness/engines/run"
	"verif/harness/props/reg"
)

func init() {
	reg.Register(&reg.Prop{ID: "C18", Level: "fault_enumeration", Main: Main, Replay: Replay})
}

const dbName = "qryn"

// Config is one way main.go/ctrl can call Update (maintain.go upgradeDB).
type Config struct {
	Name     string `json:"name"`
	Cluster  string `json:"cluster"`
	Mode     int    `json:"mode"`
	Policy   string `json:"storage_policy"`
	Ordering string `json:"samples_ordering"`
	SkipUnav bool   `json:"skip_unavailable_shards"`
	TTLDays  int    `json:"ttl_days"`
}

func (cf *Config) cloud() bool { return cf.Mode&maintenance.CLUST_MODE_CLOUD != 0 }
func (cf *Config) dist() bool  { return cf.Mode&maintenance.CLUST_MODE_DISTRIBUTED != 0 }

func configs() []*Config {
	var out []*Config
	for _, pol := range []string{"", "tiered"} {
		suffix := ""
		if pol != "" {
			suffix = "+policy"
		}
		out = append(out,
			&Config{Name: "single" + suffix, Mode: maintenance.CLUST_MODE_SINGLE, Policy: pol, TTLDays: 7},
			&Config{Name: "cloud" + suffix, Mode: maintenance.CLUST_MODE_CLOUD, Policy: pol, TTLDays: 7},
			&Config{Name: "clustered" + suffix, Cluster: "qcl", Mode: maintenance.CLUST_MODE_SINGLE | maintenance.CLUST_MODE_DISTRIBUTED, Policy: pol, TTLDays: 7},
			&Config{Name: "clustered+cloud" + suffix, Cluster: "qcl", Mode: maintenance.CLUST_MODE_CLOUD | maintenance.CLUST_MODE_DISTRIBUTED, Policy: pol, TTLDays: 7},
		)
	}
	// the remaining Update parameters, once each
	out = append(out,
		&Config{Name: "single+ordering", Mode: maintenance.CLUST_MODE_SINGLE, Ordering: "fingerprint, timestamp_ns", TTLDays: 365},
		&Config{Name: "clustered+skipshards", Cluster: "qcl", Mode: maintenance.CLUST_MODE_SINGLE | maintenance.CLUST_MODE_DISTRIBUTED, SkipUnav: true, TTLDays: 1},
	)
	return out
}

// ---------------------------------------------------------------------------------------
// Independent reading of the migration files: a stream's scripts are the statements of
// its file in file order. Split on ';' outside quotes (not with update.go's splitter).

var streamFile = map[int]string{1: qsql.LogScript, 2: qsql.TracesScript, 3: qsql.LogDistScript,
	4: qsql.TracesDistScript, 5: qsql.ProfilesScript, 6: qsql.ProfilesDistScript}
var streamName = map[int]string{1: "log.sql", 2: "traces.sql", 3: "log_dist.sql", 4: "traces_dist.sql", 5: "profiles.sql", 6: "profiles_dist.sql"}

func (cf *Config) streams() []int {
	if cf.dist() {
		return []int{1, 3, 2, 4, 5, 6}
	}
	return []int{1, 2, 5}
}

func splitStatements(file string) []string {
	var lines []string
	for _, l := range strings.Split(file, "\n") {
		if strings.HasPrefix(l, "##") {
			continue
		}
		lines = append(lines, l)
	}
	text := strings.Join(lines, "\n")
	var out []string
	var cur strings.Builder
	quote := byte(0)
	for i := 0; i < len(text); i++ {
		ch := text[i]
		if quote != 0 {
			cur.WriteByte(ch)
			if ch == '\\' && i+1 < len(text) {
				i++
				cur.WriteByte(text[i])
			} else if ch == quote {
				quote = 0
			}
			continue
		}
		switch ch {
		case '\'', '`', '"':
			quote = ch
			cur.WriteByte(ch)
		case ';':
			if s := strings.TrimSpace(cur.String()); s != "" {
				out = append(out, s)
			}
			cur.Reset()
		default:
			cur.WriteByte(ch)
		}
	}
	if s := strings.TrimSpace(cur.String()); s != "" {
		out = append(out, s)
	}
	return out
}

// templating tokens as documented in the header of log.sql
func (cf *Config) env() map[string]string {
	env := map[string]string{"DB": dbName, "CLUSTER": cf.Cluster, "OnCluster": " ", "CREATE_SETTINGS": "",
		"SAMPLES_ORDER_RUL": "timestamp_ns", "DIST_CREATE_SETTINGS": "", "DefaultTtlDays": strconv.Itoa(cf.TTLDays)}
	if cf.Cluster != "" {
		env["OnCluster"] = "ON CLUSTER `" + cf.Cluster + "`"
	}
	pre := ""
	if cf.cloud() {
		pre = "Replicated"
	}
	for _, e := range []string{"ReplacingMergeTree", "MergeTree", "AggregatingMergeTree"} {
		env[e] = pre + e
	}
	if cf.Policy != "" {
		env["CREATE_SETTINGS"] = "SETTINGS storage_policy = '" + cf.Policy + "'"
	}
	if cf.Ordering != "" {
		env["SAMPLES_ORDER_RUL"] = cf.Ordering
	}
	if cf.SkipUnav {
		env["DIST_CREATE_SETTINGS"] = "SETTINGS skip_unavailable_shards = 1"
	}
	return env
}

// expected returns, per stream, the canonical text of every script in file order.
func (cf *Config) expected() (map[int][]string, error) {
	out := map[int][]string{}
	env := cf.env()
	for _, k := range cf.streams() {
		for i, st := range splitStatements(streamFile[k]) {
			tpl, err := template.New("s").Parse(st)
			if err != nil {
				return nil, fmt.Errorf("%s script %d: %v", streamName[k], i, err)
			}
			var buf bytes.Buffer
			if err := tpl.Execute(&buf, env); err != nil {
				return nil, fmt.Errorf("%s script %d: %v", streamName[k], i, err)
			}
			out[k] = append(out[k], cat.Normalize(buf.String()))
		}
	}
	return out, nil
}

// ---------------------------------------------------------------------------------------
// One run of the real Update.

func runUpdate(state *cat.Catalogue, cf *Config, f *cat.Fault) (cn *cat.Conn, err error) {
	if cf.Cluster != "" {
		// a cluster of two nodes behind one address: every start reaches the other node (its local tables hold
		// only what was written through it)
		state.Node = 1 - state.Node
	}
	cn = cat.NewConn(state, dbName, f)
	defer func() {
		if r := recover(); r != nil {
			err = fmt.Errorf("panic in Update: %v", r)
		}
	}()
	err = maintenance.Update(cn, dbName, cf.Cluster, cf.Mode, cf.TTLDays, cf.Policy, cf.Ordering, cf.SkipUnav, cat.NoLog{})
	return
}

type event struct {
	K, Idx   int
	Stmt     int
	Applied  bool
	Recorded int
	Text     string
}

type problem struct {
	Rule string
	K    int
	Idx  string
	Desc string
}

type summary struct {
	Err        error
	Stmts      int
	Events     []event
	Problems   []problem
	Undecided  []string
	Fired      bool
	FaultKind  string // effective kind of the fault that fired
	FaultK     int
	FaultIdx   string
	FaultVerb  string
	FaultStmt  string
	Unrecorded [][2]int // scripts whose effect was applied without a version record
	FailK      int      // locus of a non-injected error
	FailIdx    string
	FailStmt   string
	FailErr    string
}

type section struct {
	k        int
	recorded int
	hi       int
}

func isVerTable(s *cat.Stmt) bool {
	return s.Verb == cat.VCreateTable && (s.Name.Name == "ver" || s.Name.Name == "ver_dist")
}

// analyse derives from one statement log what was executed for which stream (DESIGN C18:
// "derive from the statement log") and checks the intra-run rules.
func analyse(cn *cat.Conn, err error, exp map[int][]string) *summary {
	s := &summary{Err: err, Stmts: 0, Fired: cn.Fired, FailIdx: "-", FaultIdx: "-"}
	for _, u := range cn.Unmodelled {
		s.Undecided = append(s.Undecided, "unmodelled statement: "+u)
	}
	var sec *section
	pending := -1 // index into s.Events of the script executed immediately before
	for _, e := range cn.Log {
		if e.Err == cat.ErrDead {
			continue
		}
		s.Stmts++
		st := e.Stmt
		if st == nil {
			continue
		}
		locusK, locusIdx, verb := 0, "pre", st.Verb
		if sec != nil {
			locusK = sec.k
		}
		switch {
		case isVerTable(st):
			sec, pending = nil, -1
		case st.Verb == cat.VSelectVer || st.Verb == cat.VSelectVerLast:
			k, _ := strconv.Atoi(st.Arg)
			locusK = k
			sec, pending = nil, -1
			if e.Applied && len(e.Result) == 1 {
				r := int(e.Result[0].(uint64))
				sec = &section{k: k, recorded: r, hi: r - 1}
			} else if e.Applied && st.Verb == cat.VSelectVerLast && len(e.Result) == 0 {
				// no version row: the database records nothing for this stream
				sec = &section{k: k, recorded: 0, hi: -1}
			}
		case st.Verb == cat.VInsert && st.Name.Name == "ver":
			verb = "INSERT ver"
			k, n := -1, -1
			for i, col := range st.Cols {
				v, _ := strconv.Atoi(st.Rows[0][i].Text)
				if col == "k" {
					k = v
				} else if col == "ver" {
					n = v
				}
			}
			locusK, locusIdx = k, strconv.Itoa(n-1)
			if sec == nil || sec.k != k {
				s.Problems = append(s.Problems, problem{"ver-outside-stream", k, strconv.Itoa(n - 1),
					fmt.Sprintf("version %d written for stream %d outside that stream's section", n, k)})
			} else if e.Applied {
				ok := pending >= 0 && s.Events[pending].Applied && s.Events[pending].Idx == n-1
				if !ok {
					s.Problems = append(s.Problems, problem{"ver-ahead", k, strconv.Itoa(n - 1),
						fmt.Sprintf("version %d of stream %d was recorded although script %d had not completed immediately before (statement %d)", n, k, n-1, e.Index)})
				}
				if n > sec.recorded {
					sec.recorded = n
				}
				if pending >= 0 {
					s.Events[pending].Recorded = n
				}
			}
			pending = -1
		case e.Op == "exec":
			// a migration script
			verb = st.Verb
			if sec == nil {
				s.Undecided = append(s.Undecided, "script statement outside a stream section: "+e.Short())
				break
			}
			idx := -1
			var cands []int
			for i, t := range exp[sec.k] {
				if t == st.Canon {
					cands = append(cands, i)
				}
			}
			for _, c := range cands {
				if c == sec.hi+1 {
					idx = c
				}
			}
			if idx < 0 {
				for _, c := range cands {
					if c == sec.recorded {
						idx = c
					}
				}
			}
			if idx < 0 {
				for _, c := range cands {
					if c > sec.hi {
						idx = c
						break
					}
				}
			}
			if idx < 0 && len(cands) > 0 {
				idx = cands[len(cands)-1]
			}
			if idx < 0 {
				s.Undecided = append(s.Undecided, fmt.Sprintf("statement of stream %d matches no script of %s as split by the oracle: %s", sec.k, streamName[sec.k], e.Short()))
				break
			}
			locusIdx = strconv.Itoa(idx)
			if idx > sec.hi+1 {
				s.Problems = append(s.Problems, problem{"skipped", sec.k, strconv.Itoa(sec.hi + 1),
					fmt.Sprintf("stream %d: script %d executed while script %d had not been executed (recorded version %d): skipped", sec.k, idx, sec.hi+1, sec.recorded)})
			}
			if idx < sec.recorded {
				s.Problems = append(s.Problems, problem{"reexecuted-recorded", sec.k, strconv.Itoa(idx),
					fmt.Sprintf("stream %d: script %d executed although version %d is already recorded (re-execution of a recorded script, or its version was recorded ahead): not in file order", sec.k, idx, sec.recorded)})
			}
			s.Events = append(s.Events, event{K: sec.k, Idx: idx, Stmt: e.Index, Applied: e.Applied, Text: e.Short()})
			pending = len(s.Events) - 1
			if e.Applied && idx > sec.hi {
				sec.hi = idx
			}
		}
		if e.Injected != "" {
			s.FaultKind = e.Injected
			if e.Injected == cat.Before && e.IsVersionWrite() {
				s.FaultKind = cat.VerWrite // failing the version write before its effect IS the version-write fault
			}
			s.FaultK, s.FaultIdx, s.FaultVerb, s.FaultStmt = locusK, locusIdx, verb, e.Short()
		} else if e.Err != nil {
			s.FailK, s.FailIdx, s.FailStmt, s.FailErr = locusK, locusIdx, e.Short(), e.Err.Error()
		}
	}
	for _, ev := range s.Events {
		if ev.Applied && ev.Recorded == 0 {
			s.Unrecorded = append(s.Unrecorded, [2]int{ev.K, ev.Idx})
		}
	}
	return s
}

// ---------------------------------------------------------------------------------------

type harness struct {
	cf       *Config
	exp      map[int][]string
	refCanon string
	refHash  string
	mu       sync.Mutex
	memo     map[string]*finishRes
	updates  int64 // Update invocations
}

func hash(s string) string {
	h := sha1.Sum([]byte(s))
	return hex.EncodeToString(h[:8])
}

// path: a sequence of faulted runs from an empty database.
type path struct {
	state  *cat.Catalogue
	faults []cat.Fault
	sums   []*summary
}

func (h *harness) count(n int) {
	h.mu.Lock()
	h.updates += int64(n)
	h.mu.Unlock()
}

func (h *harness) extend(p *path, f cat.Fault) *path {
	st := p.state.Clone()
	cn, err := runUpdate(st, h.cf, &f)
	h.count(1)
	np := &path{state: st, faults: append(append([]cat.Fault(nil), p.faults...), f)}
	np.sums = append(append([]*summary(nil), p.sums...), analyse(cn, err, h.exp))
	return np
}

type finishRes struct {
	Completed    bool
	Restarts     int
	RestartStmts int
	Fail         *summary
	Problems     []problem
	Undecided    []string
	FinalHash    string
	FinalDiff    []string
	IdleScripts  int
	IdleFirst    string
	IdleErr      string
	VerShort     []string
	Runs         int
}

// finish: restart without faults until initialisation completes (at most 3 times, or until
// a failed restart leaves the state unchanged), then one more run on the final state.
// Deterministic in the state, hence memoised by the state's canonical text.
func (h *harness) finish(state *cat.Catalogue) *finishRes {
	key := hash(state.Canon())
	h.mu.Lock()
	if r, ok := h.memo[key]; ok {
		h.mu.Unlock()
		return r
	}
	h.mu.Unlock()
	r := &finishRes{}
	st := state.Clone()
	prev := state.Canon()
	for r.Restarts < 3 {
		cn, err := runUpdate(st, h.cf, nil)
		r.Runs++
		r.Restarts++
		sm := analyse(cn, err, h.exp)
		if r.Restarts == 1 {
			r.RestartStmts = sm.Stmts
		}
		r.Problems = append(r.Problems, sm.Problems...)
		r.Undecided = append(r.Undecided, sm.Undecided...)
		if err == nil {
			r.Completed = true
			break
		}
		r.Fail = sm
		now := st.Canon()
		if now == prev {
			break // a further restart would do exactly the same
		}
		prev = now
	}
	if r.Completed {
		canon := st.Canon()
		r.FinalHash = hash(canon)
		if r.FinalHash != h.refHash && h.refCanon != "" {
			r.FinalDiff = cat.Diff(h.refCanon, canon)
		}
		for _, k := range h.cf.streams() {
			v, _ := st.VerMaxAllNodes(cat.QName{DB: dbName, Name: "ver"}, strconv.Itoa(k))
			if int(v) != len(h.exp[k]) {
				r.VerShort = append(r.VerShort, fmt.Sprintf("stream %d: version %d recorded, %s has %d scripts", k, v, streamName[k], len(h.exp[k])))
			}
		}
		cn, err := runUpdate(st, h.cf, nil)
		r.Runs++
		sm := analyse(cn, err, h.exp)
		r.Problems = append(r.Problems, sm.Problems...)
		r.Undecided = append(r.Undecided, sm.Undecided...)
		r.IdleScripts = len(sm.Events)
		if len(sm.Events) > 0 {
			r.IdleFirst = fmt.Sprintf("stream %d script %d: %s", sm.Events[0].K, sm.Events[0].Idx, sm.Events[0].Text)
		}
		if err != nil {
			r.IdleErr = err.Error()
		}
	}
	h.mu.Lock()
	if prev, ok := h.memo[key]; ok {
		r = prev // computed concurrently by another worker: count it once
	} else {
		h.memo[key] = r
		h.updates += int64(r.Runs)
	}
	h.mu.Unlock()
	return r
}

type viol struct {
	Sig, Desc string
	Replay    any
}

type outcome struct {
	caseKey   string
	viols     []viol
	undecided []string
	fired     bool
	completed bool
	kind      string
	verb      string
	restart   int // statements of the first clean restart
}

type replayCase struct {
	Config *Config     `json:"config"`
	Faults []cat.Fault `json:"faults"`
	Note   string      `json:"note,omitempty"`
}

// evaluate applies the C18 assertions to a path.
func (h *harness) evaluate(p *path) *outcome {
	o := &outcome{}
	kind, locK, locIdx, verb := "none", 0, "-", "-"
	unrec := map[[2]int]string{}
	for _, sm := range p.sums {
		if sm.Fired {
			o.fired = true
			kind, locK, locIdx, verb = sm.FaultKind, sm.FaultK, sm.FaultIdx, sm.FaultVerb
		}
		for _, u := range sm.Unrecorded {
			unrec[u] = kind
		}
		o.undecided = append(o.undecided, sm.Undecided...)
	}
	o.kind, o.verb = kind, verb
	rc := replayCase{Config: h.cf, Faults: p.faults}
	sig := func(k int, idx, knd, rule string) string {
		return fmt.Sprintf("stream=%d/script=%s/fault=%s/%s", k, idx, knd, rule)
	}
	faultsTxt := "no fault"
	if len(p.faults) > 0 {
		var fs []string
		for i, f := range p.faults {
			t := f.String()
			if i < len(p.sums) && p.sums[i].FaultStmt != "" {
				t += fmt.Sprintf(" [hit as %s: %s]", p.sums[i].FaultKind, p.sums[i].FaultStmt)
			}
			fs = append(fs, t)
		}
		faultsTxt = "faults " + strings.Join(fs, " ; ")
	}
	ctx := fmt.Sprintf("config %s, %s", h.cf.Name, faultsTxt)
	for _, sm := range p.sums {
		for _, pr := range sm.Problems {
			o.viols = append(o.viols, viol{sig(pr.K, pr.Idx, kind, pr.Rule), pr.Desc + " — " + ctx, rc})
		}
		// a faulted run that reports success although its fault fired is fine; a run without
		// fired fault that fails is judged by finish() below (same state, same code).
	}
	fr := h.finish(p.state)
	o.undecided = append(o.undecided, fr.Undecided...)
	o.restart = fr.RestartStmts
	o.completed = fr.Completed
	for _, pr := range fr.Problems {
		o.viols = append(o.viols, viol{sig(pr.K, pr.Idx, kind, pr.Rule), pr.Desc + " (during restart) — " + ctx, rc})
	}
	if !fr.Completed {
		f := fr.Fail
		k := kind
		if idx, err := strconv.Atoi(f.FailIdx); err == nil {
			if uk, ok := unrec[[2]int{f.FailK, idx}]; ok {
				k = uk
			}
		}
		o.viols = append(o.viols, viol{sig(f.FailK, f.FailIdx, k, "restart-fails"),
			fmt.Sprintf("initialisation cannot be completed by re-running it: after %d restart(s) without faults Update still fails at stream %d (%s) script %s `%s` with: %s — %s",
				fr.Restarts, f.FailK, streamName[f.FailK], f.FailIdx, f.FailStmt, f.FailErr, ctx), rc})
	} else {
		if len(fr.FinalDiff) > 0 {
			d := fr.FinalDiff
			if len(d) > 6 {
				d = d[:6]
			}
			o.viols = append(o.viols, viol{sig(locK, locIdx, kind, "final-differs"),
				fmt.Sprintf("after the restarts the catalogue differs from the uninterrupted run's: %s — %s", strings.Join(d, " || "), ctx), rc})
		}
		for _, v := range fr.VerShort {
			o.viols = append(o.viols, viol{sig(locK, locIdx, kind, "not-all-applied"), "initialisation reported success but " + v + " — " + ctx, rc})
		}
		if fr.IdleScripts > 0 {
			o.viols = append(o.viols, viol{sig(locK, locIdx, kind, "idle-executes-script"),
				fmt.Sprintf("a further run on the up-to-date database executed %d migration script(s), first %s — %s", fr.IdleScripts, fr.IdleFirst, ctx), rc})
		}
		if fr.IdleErr != "" {
			o.viols = append(o.viols, viol{sig(locK, locIdx, kind, "idle-fails"), "a further run on the up-to-date database failed: " + fr.IdleErr + " — " + ctx, rc})
		}
	}
	o.caseKey = fmt.Sprintf("%s|depth%d|%s|k%d|%s", h.cf.Name, len(p.faults), kind, locK, verb)
	if !o.fired && len(p.faults) > 0 {
		o.caseKey = "" // the fault point was never reached (verwrite after the last version write): same as no fault
	}
	return o
}

// parallel map preserving order.
func parallel[T any, R any](in []T, f func(T) R) []R {
	out := make([]R, len(in))
	n := runtime.NumCPU()
	if n > 16 {
		n = 16
	}
	if n > len(in) {
		n = len(in)
	}
	var wg sync.WaitGroup
	next := 0
	var mu sync.Mutex
	for w := 0; w < n; w++ {
		wg.Add(1)
		go func() {
			defer wg.Done()
			for {
				mu.Lock()
				i := next
				next++
				mu.Unlock()
				if i >= len(in) {
					return
				}
				out[i] = f(in[i])
			}
		}()
	}
	wg.Wait()
	return out
}

type totals struct {
	faultRuns, notFired, completed, failed int
}

func report(c *run.Ctx, o *outcome, t *totals) {
	c.Case(o.caseKey)
	for _, u := range o.undecided {
		c.Undecided(u)
	}
	for _, v := range o.viols {
		c.Violation(v.Sig, v.Desc, v.Replay)
	}
	if o.fired {
		t.faultRuns++
		c.Cover("fault_kind", o.kind, 1)
		c.Cover("faulted_statement", o.verb, 1)
	} else {
		t.notFired++
	}
	if o.completed {
		t.completed++
	} else {
		t.failed++
	}
}

func Main(c *run.Ctx) {
	debug.SetGCPercent(400)
	c.SetRule("real maintenance.Update against E-CAT; for every configuration and every statement index of the uninterrupted run x {before, after, verwrite}: " +
		"faulted run, then restarts without faults must complete, reach the uninterrupted run's catalogue (canonical comparison incl. ver and settings reads), " +
		"have executed scripts in file order without gaps (log-derived, scripts identified against an independent split of the .sql files), " +
		"never record a version whose script had not completed, and a further run executes no script")
	c.Assume("one catalogue stands for the whole cluster: ON CLUSTER statements reach every node and nodes never diverge (statements without ON CLUSTER in clustered mode are therefore not distinguished)")
	c.Assume("a statement is atomic: a fault leaves either none or all of its effect (ClickHouse DDL on Atomic databases); MV SELECTs are checked for source/target existence only, not for column references")
	c.Assume("INSERT INTO ver/settings rows become visible to the next read (ver_dist/settings_dist read the same rows)")
	thorough := !c.Quick()
	stmtsPer := map[string]int{}
	pointsPer := map[string]int{}
	distinctStates := map[string]int{}
	secondLevel := map[string]int{}
	var tot totals
	var updates int64
	exhaustive := true
	rng := c.Rng("c18-triple")
	tripleN, l1done := 0, 0
	for _, cf := range configs() {
		h := &harness{cf: cf, memo: map[string]*finishRes{}}
		exp, err := cf.expected()
		if err != nil {
			c.Undecided("oracle cannot render the scripts: " + err.Error())
			exhaustive = false
			continue
		}
		h.exp = exp
		// ---- uninterrupted run
		empty := &path{state: cat.New(dbName)}
		refState := cat.New(dbName)
		cn, uerr := runUpdate(refState, cf, nil)
		h.count(1)
		ref := analyse(cn, uerr, exp)
		refPath := &path{state: refState, sums: []*summary{ref}}
		h.refCanon = refState.Canon()
		h.refHash = hash(h.refCanon)
		N := ref.Stmts
		stmtsPer[cf.Name] = N
		rcase := replayCase{Config: cf}
		if uerr != nil {
			c.Case(cf.Name + "|uninterrupted")
			if len(ref.Undecided) > 0 {
				c.Undecided(ref.Undecided[0])
			} else {
				c.Violation(fmt.Sprintf("stream=%d/script=%s/fault=none/uninterrupted-fails", ref.FailK, ref.FailIdx),
					fmt.Sprintf("config %s: the uninterrupted initialisation of an empty database fails at `%s`: %s", cf.Name, ref.FailStmt, ref.FailErr), rcase)
			}
			exhaustive = false
			continue
		}
		// every script of every stream executed exactly once, in order
		got := map[int][]int{}
		for _, ev := range ref.Events {
			got[ev.K] = append(got[ev.K], ev.Idx)
		}
		for _, k := range cf.streams() {
			for i := range exp[k] {
				if i >= len(got[k]) || got[k][i] != i {
					c.Violation(fmt.Sprintf("stream=%d/script=%d/fault=none/not-applied-in-order", k, i),
						fmt.Sprintf("config %s: uninterrupted run executed scripts %v of %s, expected 0..%d in order", cf.Name, got[k], streamName[k], len(exp[k])-1), rcase)
					break
				}
			}
		}
		o := h.evaluate(refPath)
		o.caseKey = cf.Name + "|uninterrupted"
		report(c, o, &tot)
		c.Sample(map[string]any{"config": cf.Name, "statements": N, "scripts": len(ref.Events), "streams": cf.streams()})

		// ---- level 1: every statement index x every kind
		var l1 []cat.Fault
		for i := 0; i < N; i++ {
			for _, k := range cat.Kinds {
				l1 = append(l1, cat.Fault{Index: i, Kind: k})
			}
		}
		pointsPer[cf.Name] = len(l1)
		type l1res struct {
			p *path
			o *outcome
		}
		res1 := parallel(l1, func(f cat.Fault) l1res {
			p := h.extend(empty, f)
			return l1res{p, h.evaluate(p)}
		})
		for _, r := range res1 {
			report(c, r.o, &tot)
			l1done++
		}
		if thorough {
			// ---- level 2: from every distinct state a first fault can leave, a second fault at
			// every statement of the first restart x every kind (Update is deterministic in the
			// state, so first faults leaving the same state need the enumeration only once)
			seen := map[string]bool{}
			type l2task struct {
				p *path
				f cat.Fault
			}
			var tasks []l2task
			for _, r := range res1 {
				if !r.o.fired {
					continue
				}
				key := hash(r.p.state.Canon())
				if seen[key] {
					continue
				}
				seen[key] = true
				for j := 0; j < r.o.restart; j++ {
					for _, k := range cat.Kinds {
						tasks = append(tasks, l2task{r.p, cat.Fault{Index: j, Kind: k}})
					}
				}
			}
			distinctStates[cf.Name] = len(seen)
			secondLevel[cf.Name] = len(tasks)
			res2 := parallel(tasks, func(t l2task) l1res {
				p := h.extend(t.p, t.f)
				return l1res{p, h.evaluate(p)}
			})
			for _, r := range res2 {
				report(c, r.o, &tot)
			}
			// ---- level 3 (three faulted runs, then the clean restarts): PRNG sample
			for n := 0; n < 400 && len(res2) > 0; n++ {
				r := res2[rng.Intn(len(res2))]
				if r.o.restart == 0 {
					continue
				}
				p := h.extend(r.p, cat.Fault{Index: rng.Intn(r.o.restart), Kind: cat.Kinds[rng.Intn(len(cat.Kinds))]})
				report(c, h.evaluate(p), &tot)
				tripleN++
			}
		}
		updates += h.updates
	}
	c.Extra("statements_per_configuration", stmtsPer)
	c.Extra("fault_points_per_configuration", pointsPer)
	c.Extra("update_invocations", updates)
	c.Event("fault_runs", tot.faultRuns)
	c.Event("fault_points_never_reached", tot.notFired)
	c.Event("restart_sequences_completed", tot.completed)
	c.Event("restart_sequences_stuck", tot.failed)
	c.Event("update_invocations", int(updates))
	need := 0
	for _, n := range pointsPer {
		need += n
	}
	c.Floor("configurations", 8, len(stmtsPer))
	c.Floor("single_fault_points", need, l1done)
	c.Floor("restart_sequences_completed", 100, tot.completed)
	if thorough {
		c.Extra("second_level", map[string]any{
			"distinct_states_after_first_fault": distinctStates,
			"double_fault_plans":                secondLevel,
			"note":                              "second fault enumerated at every statement of the first restart x 3 kinds from every DISTINCT post-first-fault state; first faults that leave an identical catalogue (canonical text) share the enumeration because Update is a deterministic function of the catalogue",
			"triple_fault_plans_sampled":        tripleN,
			"triple_note":                       "three faulted runs before the clean restarts: PRNG sample (stream c18-triple), not exhaustive",
		})
	}
	// exhaustive = every statement index of every enumerated configuration x 3 kinds was run
	// (and, in thorough, every second fault point from every distinct intermediate state)
	c.Exhaustive(exhaustive)
	c.Note("exhaustive refers to single faults (quick) and single+double faults (thorough) over the enumerated configurations; triple faults are sampled")
}

// Replay re-runs one stored case verbosely.
func Replay(c *run.Ctx, file string) {
	b, err := os.ReadFile(file)
	if err != nil {
		fmt.Println("cannot read", file, err)
		c.Undecided("replay file unreadable")
		return
	}
	var doc struct {
		Case replayCase `json:"case"`
	}
	if err := json.Unmarshal(b, &doc); err != nil || doc.Case.Config == nil {
		fmt.Println("not a C18 replay file:", err)
		c.Undecided("replay file malformed")
		return
	}
	cf := doc.Case.Config
	h := &harness{cf: cf, memo: map[string]*finishRes{}}
	h.exp, _ = cf.expected()
	ref := cat.New(dbName)
	runUpdate(ref, cf, nil)
	h.refCanon = ref.Canon()
	h.refHash = hash(h.refCanon)
	p := &path{state: cat.New(dbName)}
	for _, f := range doc.Case.Faults {
		st := p.state.Clone()
		f := f
		cn, err := runUpdate(st, cf, &f)
		fmt.Printf("--- run with fault %s: returned %v\n", f.String(), err)
		for _, e := range cn.Log[max(0, len(cn.Log)-6):] {
			fmt.Printf("   %3d %-9s applied=%-5v err=%v  %s\n", e.Index, e.Injected, e.Applied, e.Err, e.Short())
		}
		p = &path{state: st, faults: append(p.faults, f), sums: append(p.sums, analyse(cn, err, h.exp))}
	}
	st := p.state.Clone()
	for i := 1; i <= 3; i++ {
		cn, err := runUpdate(st, cf, nil)
		fmt.Printf("--- restart %d without faults: returned %v (%d statements)\n", i, err, len(cn.Log))
		if err == nil {
			break
		}
		for _, e := range cn.Log[max(0, len(cn.Log)-3):] {
			fmt.Printf("   %3d applied=%-5v err=%v  %s\n", e.Index, e.Applied, e.Err, e.Short())
		}
	}
	o := h.evaluate(p)
	c.Case(o.caseKey)
	c.Case(o.caseKey + "|replay")
	keys := []string{}
	for _, v := range o.viols {
		c.Violation(v.Sig, v.Desc, v.Replay)
		keys = append(keys, v.Sig)
	}
	sort.Strings(keys)
	fmt.Println("signatures:", keys)
}
