// Package c08: the SQL generated for LogQL metric queries computes the defined aggregates.
// Two comparison points: the rows of the executed SQL (exact, for step ≤ range) and the
// points after the real Go post-processors (weaker relations valid for any step).
package c08

import (
	"encoding/json"
	"errors"
	"fmt"
	"math"
	"os"
	"sort"
	"strings"
	"time"

	"verif/harness/engines/chsql"
	"verif/harness/engines/logq"
	"verif/harness/engines/run"
	"verif/harness/props/c07"
	"verif/harness/props/reg"
)

func init() {
	reg.Register(&reg.Prop{ID: "C08", Level: "translation_validation", Main: Main, Child: Child, Replay: Replay})
}

type childCfg struct {
	Start int `json:"start"`
	N     int `json:"n"`
}

func Main(c *run.Ctx) {
	c.SetRule("(metric query, database) pairs: every range function × vector aggregation × by/without (prefix and suffix) × comparison × topk/bottomk, ranges 1 s…1 h, steps range/4, range, 3×range, " +
		"pipelines with line filters, label filters and json extraction; databases with series sharing / not sharing grouped labels and numeric values; each pipeline is also run under a range below and above the 15 s shortcut threshold; " +
		"distinct key = query shape × range class × step class; violations are minimised and signed with the minimal failing shape")
	c.Assume("bucket = floor(ts/range)·range; the bucket starting exactly at the window end (qryn evaluates one whole bucket beyond an aligned end) is not judged; series identity ignores the unwrapped label")
	c.Assume("floats compared with relative tolerance 1e-9")
	total := c.Pick(4000, 100000)
	per := c.Pick(1000, 5000)
	c07.RunChildren(c, "C08", total, per)
	c.Floor("queries compared at the SQL boundary", total/4, 0)
	c.Floor("queries compared after the Go post-processors", total/2, 0)
	c.Floor("queries above the 15 s shortcut threshold", total/20, 0)
	c.Floor("non-empty expected results", total/5, 0)
}

func feq(a, b float64) bool {
	if a == b {
		return true
	}
	d := math.Abs(a - b)
	return d <= 1e-12 || d <= 1e-9*math.Max(math.Abs(a), math.Abs(b))
}

type pt struct {
	key      string
	ts       int64
	v        float64
	alt      float64
	hasAlt   bool
	optional bool
}

func (p pt) matches(v float64) bool { return feq(p.v, v) || (p.hasAlt && feq(p.alt, v)) }

// mayVanish: under one of the accepted readings the point is zero (dropped) or absent.
func (p pt) mayVanish() bool { return p.optional || p.v == 0 || (p.hasAlt && p.alt == 0) }

func normKey(labels map[string]string, unwrapped string) string {
	if unwrapped == "" {
		return logq.CanonLabels(labels)
	}
	m := map[string]string{}
	for k, v := range labels {
		if k != unwrapped {
			m[k] = v
		}
	}
	return logq.CanonLabels(m)
}

func unwrappedLabel(m *logq.MetricQuery) string {
	for _, s := range m.Log.Stages {
		if s.Kind == "unwrap" {
			return s.Val
		}
	}
	return ""
}

type Verdict struct {
	Kind, Detail string
	Decided      bool
	SQLCompared  bool
	Nexp         int
	Out          *logq.Output
}

func Judge(rn *logq.Runner, db *logq.DB, ch *chsql.DB, req *logq.Request) Verdict {
	return JudgeOpts(rn, db, ch, req, true)
}

// JudgeOpts: sqlLevel=false skips the comparison at the SQL boundary (split pipelines: the
// last statement is only the SQL half).
func JudgeOpts(rn *logq.Runner, db *logq.DB, ch *chsql.DB, req *logq.Request, sqlLevel bool) Verdict {
	m := req.Metric
	dur := int64(m.Range)
	from, to := req.StartNs, req.EndNs
	evalFrom, evalTo := from/dur*dur, to/dur*dur+dur
	exp, err := logq.EvalMetric(db, m, evalFrom, evalTo)
	var probe *logq.ErrProbe
	if errors.As(err, &probe) {
		if m.Agg == "count" && m.AggGrp == nil && m.AggCmp == nil && m.TopK == 0 {
			// not judged against the definition (is the ungrouped aggregate one series or one per stream?), but under
			// either reading a count is a whole number of series, at least 1
			out := rn.Run(ch, req, 20*time.Second)
			if out.TimedOut || out.Err != nil {
				return Verdict{Detail: "probe: " + probe.Why}
			}
			for _, e := range out.Entries {
				if e.Value < 1 || e.Value != math.Trunc(e.Value) {
					return Verdict{Out: out, Decided: true, Kind: "out-ungrouped-count-not-a-count", Detail: fmt.Sprintf("count() without grouping: output value %v at %d for series %s is not a whole number of series (every reading of the ungrouped aggregate counts series)", e.Value, e.TimestampNS, logq.CanonLabels(e.Labels))}
				}
			}
			return Verdict{Out: out, Detail: "probe: " + probe.Why + " (count checked to be a whole number >= 1)"}
		}
		return Verdict{Detail: "probe: " + probe.Why}
	}
	if err != nil {
		return Verdict{Detail: "evaluator: " + err.Error()}
	}
	// "widened at most to whole range buckets": at the two edge buckets the strict window is
	// an equally valid reading, so both values are accepted there
	strict, err := logq.EvalMetric(db, m, from, to)
	if errors.As(err, &probe) {
		return Verdict{Detail: "probe: " + probe.Why}
	}
	if err != nil {
		return Verdict{Detail: "evaluator: " + err.Error()}
	}
	out := rn.Run(ch, req, 20*time.Second)
	v := Verdict{Out: out}
	if out.TimedOut {
		v.Detail = "timeout"
		return v
	}
	if out.Err != nil {
		var raise *chsql.RaiseError
		switch {
		case errors.Is(out.Err, chsql.ErrUnsupported):
			v.Detail = "oracle: " + out.Err.Error()
		case errors.As(out.Err, &raise):
			v.Kind, v.Detail, v.Decided = "sql-raises/"+raise.Rule, "ClickHouse would reject the generated statement: "+raise.Error(), true
		case len(out.Execs) == 0:
			v.Detail = "rejected before SQL: " + out.Err.Error()
		default:
			v.Kind, v.Detail, v.Decided = "query-error", "the query failed after its SQL ran: "+out.Err.Error(), true
		}
		return v
	}
	v.Decided = true
	unw := unwrappedLabel(m)
	// expected points: judged buckets start before the window end
	type bk struct {
		key string
		ts  int64
	}
	alt := map[bk]float64{} // strict-window value of a bucket (differs from the widened one only at the edges)
	for _, p := range strict {
		alt[bk{normKey(p.Labels, unw), p.Ts}] = p.Value
	}
	var judged, all []pt
	for _, p := range exp {
		q := pt{key: normKey(p.Labels, unw), ts: p.Ts, v: p.Value}
		if a, ok := alt[bk{q.key, q.ts}]; ok && !feq(a, q.v) {
			q.alt, q.hasAlt = a, true
		} else if !ok {
			q.optional = true // only entries outside the strict window fall into this bucket
		}
		all = append(all, q)
		if p.Ts < to {
			judged = append(judged, q)
		}
	}
	// buckets present only under the strict reading (e.g. a comparison that holds for the strict value only)
	for _, p := range strict {
		k := bk{normKey(p.Labels, unw), p.Ts}
		found := false
		for _, q := range all {
			if q.key == k.key && q.ts == k.ts {
				found = true
			}
		}
		if !found {
			q := pt{key: k.key, ts: k.ts, v: p.Value, optional: true}
			all = append(all, q)
			if p.Ts < to {
				judged = append(judged, q)
			}
		}
	}
	v.Nexp = len(judged)
	// ---- (i) SQL boundary, exact for step ≤ range
	if sqlLevel && int64(req.Step) <= dur && len(out.Execs) > 0 {
		last := out.Execs[len(out.Execs)-1]
		if last.Result != nil {
			ci := map[string]int{}
			for i, c := range last.Result.Cols {
				ci[c.Name] = i
			}
			li, vi, ti := ci["labels"], ci["value"], ci["timestamp_ns"]
			if _, ok := ci["labels"]; ok {
				var got []pt
				okShape := true
				for _, row := range last.Result.Rows {
					lm, ok1 := row[li].(*chsql.Map)
					val, ok2 := toF(row[vi])
					ts, ok3 := toI(row[ti])
					if !ok1 || !ok2 || !ok3 {
						okShape = false
						break
					}
					labels := map[string]string{}
					for i, k := range lm.Keys {
						ks, _ := k.(string)
						vs, _ := lm.Vals[i].(string)
						labels[ks] = vs
					}
					if ts >= to {
						continue
					}
					if val == 0 {
						continue // zero-valued points are dropped by the post-processors; not an aggregate the definition produces
					}
					got = append(got, pt{key: normKey(labels, unw), ts: ts, v: val})
				}
				if okShape {
					v.SQLCompared = true
					if k, d := diffPoints(judgedNonZero(judged), got); k != "" {
						v.Kind, v.Detail = "sql-"+k, d
						return v
					}
				}
			}
		}
	}
	// ---- (ii) after the Go post-processors
	expByKey := map[string][]pt{}
	for _, p := range all {
		if p.v != 0 || (p.hasAlt && p.alt != 0) {
			expByKey[p.key] = append(expByKey[p.key], p)
		}
	}
	gotByKey := map[string][]pt{}
	for _, e := range out.Entries {
		k := normKey(e.Labels, unw)
		gotByKey[k] = append(gotByKey[k], pt{key: k, ts: e.TimestampNS, v: e.Value})
	}
	// one point per output series (fingerprint) and timestamp
	type fpTs struct {
		fp  uint64
		key string
		ts  int64
	}
	seenTs := map[fpTs]float64{}
	for _, e := range out.Entries {
		id := fpTs{e.Fingerprint, logq.CanonLabels(e.Labels), e.TimestampNS}
		if v0, dup := seenTs[id]; dup {
			v.Kind, v.Detail = "out-timestamp-twice", fmt.Sprintf("series %s (fingerprint %d): two output points at %d (values %v and %v)", normKey(e.Labels, unw), e.Fingerprint, e.TimestampNS, v0, e.Value)
			return v
		}
		seenTs[id] = e.Value
	}
	for k, ps := range gotByKey {
		es, ok := expByKey[k]
		if !ok {
			v.Kind, v.Detail = "out-unexpected-series", fmt.Sprintf("output series %s (e.g. value %v at %d) is not a series the definition produces; expected series: %v", k, ps[0].v, ps[0].ts, keys(expByKey))
			return v
		}
		for _, p := range ps {
			found := false
			for _, e := range es {
				if e.matches(p.v) {
					found = true
					break
				}
			}
			if !found {
				v.Kind, v.Detail = "out-wrong-value", fmt.Sprintf("series %s: output value %v at %d equals no bucket value of that series (bucket values: %v)", k, p.v, p.ts, vals(es))
				return v
			}
		}
	}
	judgedByKey := map[string][]pt{}
	for _, p := range judged {
		if !p.mayVanish() {
			judgedByKey[p.key] = append(judgedByKey[p.key], p)
		}
	}
	hasZero := map[string]bool{}
	for _, p := range all {
		if p.v == 0 || (p.hasAlt && p.alt == 0) {
			hasZero[p.key] = true
		}
	}
	for k, es := range judgedByKey {
		ps, ok := gotByKey[k]
		if !ok && int64(req.Step) > dur && hasZero[k] {
			continue // step > range samples one bucket per step; a zero-valued one makes the series vanish legitimately
		}
		if !ok {
			// a series all of whose judged buckets start before `from` and are cut off by the grid is still expected: FixPeriod clamps idxFrom to 0
			v.Kind, v.Detail = "out-missing-series", fmt.Sprintf("series %s with non-zero buckets %v is missing from the output (output series: %v)", k, vals(es), keys(gotByKey))
			return v
		}
		if int64(req.Step) <= dur && from%dur == 0 && dur%int64(req.Step) == 0 {
			// aligned window: every bucket start is a grid position of the step re-bucketing
			for _, e := range es {
				found := false
				for _, p := range ps {
					if e.matches(p.v) {
						found = true
						break
					}
				}
				if !found {
					v.Kind, v.Detail = "out-missing-bucket", fmt.Sprintf("series %s: bucket %d with value %v is not represented in the output (output values: %v)", k, e.ts, e.v, vals(ps))
					return v
				}
			}
		}
	}
	return v
}

func judgedNonZero(ps []pt) []pt {
	var out []pt
	for _, p := range ps {
		if p.v != 0 || (p.hasAlt && p.alt != 0) {
			out = append(out, p)
		}
	}
	return out
}

func toF(v chsql.Value) (float64, bool) {
	switch x := v.(type) {
	case float64:
		return x, true
	case uint64:
		return float64(x), true
	case int64:
		return float64(x), true
	}
	return 0, false
}

func toI(v chsql.Value) (int64, bool) {
	switch x := v.(type) {
	case int64:
		return x, true
	case uint64:
		return int64(x), true
	}
	return 0, false
}

func keys(m map[string][]pt) []string {
	var out []string
	for k := range m {
		out = append(out, k)
	}
	sort.Strings(out)
	if len(out) > 6 {
		out = out[:6]
	}
	return out
}

func vals(ps []pt) []string {
	var out []string
	for _, p := range ps {
		out = append(out, fmt.Sprintf("%v@%d", p.v, p.ts))
	}
	if len(out) > 8 {
		out = out[:8]
	}
	return out
}

// diffPoints compares expected and got (series, bucket, value) multisets at the SQL boundary.
func diffPoints(exp, got []pt) (string, string) {
	type k struct {
		key string
		ts  int64
	}
	em := map[k][]pt{}
	for _, p := range exp {
		em[k{p.key, p.ts}] = append(em[k{p.key, p.ts}], p)
	}
	gm := map[k][]float64{}
	for _, p := range got {
		gm[k{p.key, p.ts}] = append(gm[k{p.key, p.ts}], p.v)
	}
	eseries, ereq, gseries := map[string]bool{}, map[string]bool{}, map[string]bool{}
	for kk, ps := range em {
		eseries[kk.key] = true
		if !ps[0].mayVanish() {
			ereq[kk.key] = true
		}
	}
	for kk := range gm {
		gseries[kk.key] = true
	}
	for s := range gseries {
		if !eseries[s] {
			return "unexpected-series", fmt.Sprintf("the SQL returns series %s which the definition does not produce (expected series %v)", s, setKeys(eseries))
		}
	}
	for s := range ereq {
		if !gseries[s] {
			return "missing-series", fmt.Sprintf("the SQL does not return series %s (returned %v)", s, setKeys(gseries))
		}
	}
	for kk, eps := range em {
		gvs, ok := gm[kk]
		if !ok {
			if eps[0].mayVanish() {
				continue
			}
			return "missing-bucket", fmt.Sprintf("series %s bucket %d: expected %v, the SQL has no row", kk.key, kk.ts, eps[0].v)
		}
		if len(gvs) != len(eps) {
			return "duplicate-rows", fmt.Sprintf("series %s bucket %d: %d rows for one (series, bucket)", kk.key, kk.ts, len(gvs))
		}
		if !eps[0].matches(gvs[0]) {
			return "wrong-value", fmt.Sprintf("series %s bucket %d: SQL value %v, definition gives %v", kk.key, kk.ts, gvs[0], eps[0].v)
		}
	}
	for kk, gvs := range gm {
		if _, ok := em[kk]; !ok {
			return "unexpected-bucket", fmt.Sprintf("series %s bucket %d: SQL value %v but no matching entry falls into that bucket", kk.key, kk.ts, gvs)
		}
	}
	return "", ""
}

func setKeys(m map[string]bool) []string {
	var out []string
	for k := range m {
		out = append(out, k)
	}
	sort.Strings(out)
	if len(out) > 6 {
		out = out[:6]
	}
	return out
}

// shrink removes query parts while the same kind of mismatch persists.
func Shrink(rn *logq.Runner, db *logq.DB, ch *chsql.DB, req logq.Request, kind string) logq.Request {
	cur := req
	try := func(mut func(m *logq.MetricQuery) bool) bool {
		m := *cur.Metric
		m.Log.Stages = append([]logq.Stage{}, cur.Metric.Log.Stages...)
		m.Log.Matchers = append([]logq.Matcher{}, cur.Metric.Log.Matchers...)
		if !mut(&m) {
			return false
		}
		t := cur
		t.Metric = &m
		if v := Judge(rn, db, ch, &t); v.Decided && v.Kind == kind {
			cur = t
			return true
		}
		return false
	}
	for round := 0; round < 6; round++ {
		changed := false
		changed = try(func(m *logq.MetricQuery) bool { ok := m.TopCmp != nil; m.TopCmp = nil; return ok }) || changed
		changed = try(func(m *logq.MetricQuery) bool { ok := m.TopK > 0; m.TopK, m.TopCmp = 0, nil; return ok }) || changed
		changed = try(func(m *logq.MetricQuery) bool { ok := m.AggCmp != nil; m.AggCmp = nil; return ok }) || changed
		changed = try(func(m *logq.MetricQuery) bool { ok := m.RangeCmp != nil; m.RangeCmp = nil; return ok }) || changed
		changed = try(func(m *logq.MetricQuery) bool {
			ok := m.Agg != ""
			m.Agg, m.AggGrp, m.AggCmp = "", nil, nil
			return ok
		}) || changed
		changed = try(func(m *logq.MetricQuery) bool { ok := m.AggGrp != nil; m.AggGrp = nil; return ok }) || changed
		changed = try(func(m *logq.MetricQuery) bool { ok := m.RangeGrp != nil; m.RangeGrp = nil; return ok }) || changed
		for i := 0; i < len(cur.Metric.Log.Stages); i++ {
			i := i
			if try(func(m *logq.MetricQuery) bool {
				if m.Log.Stages[i].Kind == "unwrap" {
					return false
				}
				m.Log.Stages = append(m.Log.Stages[:i], m.Log.Stages[i+1:]...)
				return true
			}) {
				changed = true
				break
			}
		}
		if len(cur.Metric.Log.Matchers) > 1 {
			changed = try(func(m *logq.MetricQuery) bool { m.Log.Matchers = m.Log.Matchers[:1]; return true }) || changed
		}
		if !changed {
			break
		}
	}
	return cur
}

func rangeClass(d time.Duration) string {
	if d < 15*time.Second {
		return "<15s"
	}
	return ">=15s"
}

func Child(c *run.Ctx, name string) {
	var cfg childCfg
	run.ChildCfg(&cfg)
	runners := map[bool]*logq.Runner{false: logq.NewRunner(false, true), true: logq.NewRunner(true, true)}
	shrunk := 0
	ranges := []time.Duration{time.Second, 5 * time.Second, 10 * time.Second, 15 * time.Second, time.Minute, time.Hour, time.Second, 10 * time.Second, time.Minute,
		250 * time.Millisecond, 500 * time.Millisecond, 7 * time.Second, 13 * time.Second, 7 * time.Minute} // incl. sub-second ranges and ranges that do not divide a day
	for i := 0; i < cfg.N; i++ {
		gi := cfg.Start + i
		// consecutive pairs share everything but the range: the same pipeline below and above the shortcut threshold
		r := c.Rng(fmt.Sprintf("c08/case/%d", gi/2))
		rng := ranges[r.Intn(len(ranges))]
		if gi%2 == 1 {
			if rng < 15*time.Second {
				rng = time.Minute
			} else {
				rng = 10 * time.Second
			}
		}
		start := int64(1700000000+r.Intn(2)*86400) * 1e9
		start = start / 60e9 * 60e9 // minute aligned (also 15 s aligned)
		if r.Intn(3) == 0 && rng < 15*time.Second {
			start += int64(1+r.Intn(7)) * 1e9 // unaligned to the range
		}
		span := []int64{20, 60, 300, 3600, 7200}[r.Intn(5)]
		if rng == time.Hour {
			span = 7200
		}
		end := start + span*1e9
		stepK := r.Intn(3)
		step := []time.Duration{rng / 4, rng, 3 * rng}[stepK]
		if step < time.Second {
			step = time.Second
		}
		o := logq.GenOpts{Hostile: false, JSONLines: r.Intn(3) == 0, Numeric: true, MaxSeries: 6, MaxSamples: 25, StartNs: start, EndNs: end, StepAlign: int64(rng)}
		if gi%3 == 1 && r.Intn(2) == 0 {
			o.MaxSeries, o.MaxSamples = 40, 40
		}
		db := logq.NewDB(r, o)
		req := logq.Request{Metric: logq.GenMetricQuery(r, db, o, rng), StartNs: start, EndNs: end, Step: step}
		cluster := gi%7 == 6
		rn := runners[cluster]
		// every third case: a consumer that pauses after every message (a slow client) and a database big enough for
		// results of several hundred rows (the result scanner hands rows on in slices of 100)
		rn.Pace = 0
		if gi%3 == 1 {
			rn.Pace = 150 * time.Microsecond
		}
		ch := db.Load(cluster)
		shape := req.Shape()
		c.BeginCase(gi, map[string]any{"query": req.QueryString(), "shape": shape})
		v := Judge(rn, db, ch, &req)
		c.Case(fmt.Sprintf("%s|range%s|step%d|cluster=%v", shape, rangeClass(rng), stepK, cluster))
		if i < 3 {
			s := map[string]any{"query": req.QueryString(), "start": start, "end": end, "step": step.String(), "series": len(db.Series), "samples": len(db.Samples), "expected_points": v.Nexp}
			if v.Out != nil && len(v.Out.Execs) > 0 {
				s["sql"] = clip(v.Out.Execs[len(v.Out.Execs)-1].SQL, 1500)
			}
			c.Sample(s)
		}
		if !v.Decided {
			switch {
			case strings.HasPrefix(v.Detail, "probe:"):
				c.Cover("probes", v.Detail, 1)
			case strings.HasPrefix(v.Detail, "rejected before SQL"):
				c.Cover("not-judged", clip(v.Detail, 120), 1)
			default:
				c.Undecided(clip(v.Detail, 80))
			}
			c.EndCase(gi)
			continue
		}
		c.Extra("programs", gi+1)
		c.Floor("queries compared after the Go post-processors", 0, 1)
		if v.SQLCompared {
			c.Floor("queries compared at the SQL boundary", 0, 1)
		}
		if rng >= 15*time.Second {
			c.Floor("queries above the 15 s shortcut threshold", 0, 1)
		}
		if v.Nexp > 0 {
			c.Floor("non-empty expected results", 0, 1)
		}
		c.Cover("range function", req.Metric.Fn, 1)
		if v.Kind != "" {
			minReq := req
			if shrunk < 25 {
				shrunk++
				minReq = Shrink(rn, db, ch, req, v.Kind)
			}
			mv := Judge(rn, db, ch, &minReq)
			sqlText := ""
			if mv.Out != nil && len(mv.Out.Execs) > 0 {
				sqlText = mv.Out.Execs[len(mv.Out.Execs)-1].SQL
			}
			c.Violation(v.Kind+"/"+minReq.SigShape()+"/range"+rangeClass(rng), fmt.Sprintf("query %s over [%d,%d) step %s: %s", minReq.QueryString(), start, end, step, mv.Detail),
				map[string]any{"case_index": gi, "query": minReq.QueryString(), "original_query": req.QueryString(), "original_detail": v.Detail, "request": minReq, "db": db, "cluster": cluster, "sql": sqlText})
		}
		c.EndCase(gi)
	}
}

func clip(s string, n int) string {
	if len(s) > n {
		return s[:n] + "…"
	}
	return s
}

// Replay re-runs a stored case and prints what both sides computed.
func Replay(c *run.Ctx, path string) {
	b, err := os.ReadFile(path)
	if err != nil {
		fmt.Println(err)
		return
	}
	var doc struct {
		Case struct {
			Request logq.Request `json:"request"`
			DB      logq.DB      `json:"db"`
			Cluster bool         `json:"cluster"`
		} `json:"case"`
	}
	if err := json.Unmarshal(b, &doc); err != nil {
		fmt.Println(err)
		return
	}
	req, db := doc.Case.Request, doc.Case.DB
	rn := logq.NewRunner(doc.Case.Cluster, true)
	v := Judge(rn, &db, db.Load(doc.Case.Cluster), &req)
	fmt.Println("query:", req.QueryString(), "window", req.StartNs, req.EndNs, "step", req.Step)
	fmt.Println("verdict:", v.Kind, "|", v.Detail)
	dur := int64(req.Metric.Range)
	exp, err := logq.EvalMetric(&db, req.Metric, req.StartNs/dur*dur, req.EndNs/dur*dur+dur)
	fmt.Println("expected (widened):", err)
	for _, p := range exp {
		fmt.Printf("  %s @%d = %v\n", p.Key, p.Ts, p.Value)
	}
	if v.Out != nil {
		for _, e := range v.Out.Execs {
			fmt.Println("SQL:", e.SQL)
			if e.Err != nil {
				fmt.Println("  error:", e.Err)
			}
			if e.Result != nil {
				for _, row := range e.Result.Rows {
					fmt.Print("  row:")
					for _, x := range row {
						fmt.Print(" ", chsql.Format(x))
					}
					fmt.Println()
				}
			}
		}
		fmt.Println("output entries:")
		for _, e := range v.Out.Entries {
			fmt.Printf("  %s @%d = %v\n", logq.CanonLabels(e.Labels), e.TimestampNS, e.Value)
		}
	}
	c.Case("replay")
	if v.Kind != "" {
		c.Violation(v.Kind+"/"+req.SigShape(), v.Detail, doc.Case)
	}
}
