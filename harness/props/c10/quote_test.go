package c10

import (
	"math/rand"
	"strconv"
	"testing"

	"github.com/metrico/qryn/reader/logql/logql_parser"
	profparser "github.com/metrico/qryn/reader/prof/parser"
	traceql_parser "github.com/metrico/qryn/reader/traceql/parser"
	promparser "github.com/prometheus/prometheus/promql/parser"
)

func testStrings() []string {
	out := append([]string{}, fixedCorpus...)
	r := rand.New(rand.NewSource(7))
	for i := 0; i < 800; i++ {
		out = append(out, genString(r))
	}
	for i := 0; i < 300; i++ {
		out = append(out, genIdent(r))
	}
	return out
}

// The renderers are only useful if the REAL front-end parsers give back the bytes the renderer
// says they give back (eff).
func TestFormsAgainstRealParsers(t *testing.T) {
	n := map[string]int{}
	for _, s := range testStrings() {
		if len(s) > 70000 {
			continue
		}
		for _, f := range formsLogQL {
			text, eff, ok := f.render(s)
			if !ok {
				continue
			}
			// through the real LogQL lexer and parser, as a stream matcher value
			script, err := logql_parser.Parse(`{a=` + text + `}`)
			if err != nil {
				if f.name == "dq" || f.name == "dq-u" || f.name == "bt" {
					t.Fatalf("form %s: LogQL refuses %q (from %q): %v", f.name, text, s, err)
				}
				continue
			}
			got, err := script.StrSelector.StrSelCmds[0].Val.Unquote()
			if err != nil {
				t.Fatalf("form %s: LogQL cannot unquote %q (from %q): %v", f.name, text, s, err)
			}
			if got != eff {
				t.Fatalf("form %s: LogQL yields %q for %q, expected %q (string %q)", f.name, got, text, eff, s)
			}
			n["logql/"+f.name]++
			ts, err := traceql_parser.Parse(`{.a=` + text + `}`)
			if err != nil {
				t.Fatalf("form %s: TraceQL refuses %q (from %q): %v", f.name, text, s, err)
			}
			got, err = ts.Head.AttrSelector.Head.Val.StrVal.Unquote()
			if err != nil || got != eff {
				t.Fatalf("form %s: TraceQL yields %q (%v) for %q, expected %q", f.name, got, err, text, eff)
			}
			n["traceql/"+f.name]++
		}
		for _, f := range []form{formGoDQ, formGoDQX} {
			text, eff, _ := f.render(s)
			got, err := strconv.Unquote(text)
			if err != nil || got != eff || eff != s {
				t.Fatalf("form %s: strconv.Unquote(%q) = %q, %v; expected %q", f.name, text, got, err, s)
			}
			n["go/"+f.name]++
			// through the real Pyroscope selector parser
			sc, err := profparser.Parse(`{a=` + text + `}`)
			if err != nil {
				// the selector lexer does not let a raw newline … through `\\.`; strconv.Quote never emits one
				t.Fatalf("form %s: selector parser refuses %q (from %q): %v", f.name, text, s, err)
			}
			got, err = sc.Selectors[0].Val.Unquote()
			if err != nil || got != s {
				t.Fatalf("form %s: selector parser yields %q (%v) for %q, expected %q", f.name, got, err, text, s)
			}
			n["prof/"+f.name]++
		}
		for _, f := range formsProm {
			text, eff, ok := f.render(s)
			if !ok {
				continue
			}
			e, err := promparser.ParseExpr(`up{a=` + text + `}`)
			if err != nil {
				continue // e.g. a raw string with a byte the PromQL lexer refuses: a front-end rejection
			}
			vs := e.(*promparser.VectorSelector)
			got := ""
			for _, m := range vs.LabelMatchers {
				if m.Name == "a" {
					got = m.Value
				}
			}
			if got != eff && got != jsonValid(eff) {
				t.Fatalf("form %s: PromQL yields %q for %q, expected %q", f.name, got, text, eff)
			}
			n["promql/"+f.name]++
		}
		if text, eff, ok := formRawTick.render(s); ok {
			if sc, err := profparser.Parse(`{a=` + text + `}`); err == nil {
				got, err := sc.Selectors[0].Val.Unquote()
				if err != nil || got != eff {
					t.Fatalf("raw-bt: selector parser yields %q (%v) for %q, expected %q", got, err, text, eff)
				}
				n["prof/raw-bt"]++
			}
		}
	}
	for _, k := range []string{"logql/dq", "logql/bt", "logql/dq-u", "traceql/dq", "go/go-dq", "prof/go-dq", "promql/go-dq", "promql/prom-sq", "promql/raw-bt", "prof/raw-bt"} {
		if n[k] < 100 {
			t.Errorf("only %d strings went through %s", n[k], k)
		}
	}
	t.Log(n)
}

func TestClassifiers(t *testing.T) {
	for s, want := range map[string]string{"": "empty", "a'b": "quote", `a\'`: "quote+backslash", "\x00'": "nul", "\xff": "invalid-utf8", "a%": "like-wildcard", "zq": "other", "sleep(3)": "sql-fragment"} {
		if got := classOf(s); got != want {
			t.Errorf("classOf(%q) = %s, want %s", s, got, want)
		}
	}
	if f := features(`a'\%`); f != "quote+backslash+wildcard" {
		t.Errorf("features = %s", f)
	}
	if e := expLineRegex("abc"); e.class != "literal-regex" || !e.slots[0]([]byte(`%abc%`)) || e.slots[0]([]byte(`%abc\%`)) {
		t.Errorf("expLineRegex literal: %+v", e.class)
	}
	if e := expLineRegex("(?i)a%c"); e.class != "literal-regex-fold" || !e.slots[0]([]byte(`%a\%c%`)) || e.slots[0]([]byte(`%a%c%`)) {
		t.Errorf("expLineRegex fold: %+v", e.class)
	}
	if e := expLineRegex("a.*"); e.class != "regex" || !e.slots[0]([]byte(`a.*`)) {
		t.Errorf("expLineRegex regex: %+v", e.class)
	}
	if e := expContains(`x'`); !e.slots[0]([]byte(`%x'%`)) || e.slots[0]([]byte(`%x\%`)) {
		t.Errorf("expContains")
	}
}
