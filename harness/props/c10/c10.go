// Package c10: request strings can never change the structure of SQL sent to ClickHouse.
//
// The REAL reader (router, controllers, parsers, planners, SQL builder) runs in a child process
// on top of the scripted database/sql driver (E-SQLDRV), which records every statement. For
// every string-valued position of every query language / URL the statements produced for a
// harmless marker string are compared, token by token (E-LEX, a ClickHouse token lexer written
// independently of qryn), with the statements produced for a hostile string in the same
// position.
package c10

import (
	"encoding/json"
	"fmt"
	"os"
	"sort"
	"strconv"
	"strings"
	"sync"
	"time"

	"verif/harness/engines/run"
	"verif/harness/props/reg"
)

func init() {
	reg.Register(&reg.Prop{ID: "C10", Level: "exploration", Main: Main, Child: Child, Replay: Replay})
}

type childCfg struct {
	Lane  int `json:"lane"`
	Lanes int `json:"lanes"`
	Start int `json:"start"` // lane-local case index to start from
	K     int `json:"k"`     // strings per position
	// Concurrent > 0: that many goroutines, each with a reader of its own, walk the positions at the same time
	// (request rendering shares process-wide helpers; what one request's string becomes must not depend on
	// what other requests render at that moment)
	Concurrent int `json:"concurrent,omitempty"`
}

// caseRef is the replayable description of one (position, string) pair.
type caseRef struct {
	Position string  `json:"position"`
	Ordinal  int     `json:"ordinal"`
	Form     string  `json:"form,omitempty"`
	Variant  variant `json:"variant"`
	String   string  `json:"string_quoted"` // Go-quoted (clipped if longer than 200 bytes)
	Len      int     `json:"len"`
}

// Replay re-evaluates the (position, form, variant, string) of a stored violation in this
// process (the reader runs in-process; a replayed case that kills the process shows that too).
func Replay(c *run.Ctx, path string) {
	b, err := os.ReadFile(path)
	if err != nil {
		c.Undecided("cannot read replay file: " + err.Error())
		return
	}
	var doc struct {
		Case struct {
			Case caseRef `json:"case"`
		} `json:"case"`
	}
	if err := json.Unmarshal(b, &doc); err != nil {
		c.Undecided("cannot parse replay file: " + err.Error())
		return
	}
	ref := doc.Case.Case
	s, err := strconv.Unquote(ref.String)
	if err != nil || len(s) != ref.Len {
		c.Undecided("the stored string is clipped; re-run the check with the seed stored in the file")
		return
	}
	e := &env{c: c, rig: newRig(), benign: map[benignKey]*benignVal{}, minis: map[string]int{}, known: map[string][]knownSig{}}
	for _, p := range positions() {
		if p.name != ref.Position {
			continue
		}
		for fi, f := range p.forms {
			if f.name != ref.Form {
				continue
			}
			// make pair() start with the stored form
			k := 0
			for (k+len(p.name))%len(p.forms) != fi {
				k++
			}
			e.pair(p, s, k, ref.Variant, ref)
			c.Case(p.name + "|replay")
			return
		}
	}
	c.Undecided("position or form of the stored case not found")
}

func stringsPerPosition(c *run.Ctx, nPos int) int {
	total := c.Pick(3000, 200000)
	k := (total + nPos - 1) / nPos
	// every position sees the whole core list plus seed-chosen strings
	if k < nCore+12 {
		k = nCore + 12
	}
	return k
}

func Main(c *run.Ctx) {
	ps := positions()
	c.SetRule("case = (position, hostile string); a position is a request template with one hole (query-language string, identifier slot, URL path variable, JSON field) plus the transform from the user's string to the value an SQL literal must decode to; " +
		"distinct key = position × hostile class × accepted/rejected by the front end; oracle = same statement count, same token kinds, same non-literal token texts as for a harmless string of the same front-end class, " +
		"every statement lexes to completion, every literal that differs decodes (rule A1, and as the server decodes) to the intended value")
	c.Assume("the database is a scripted driver answering every statement with an empty result (the TraceQL complexity estimate with 2*10^7 in the 'cx' variants); only the statement text is examined")
	c.Event("hostile strings taken from the reader sources (placeholder-like tokens)", len(dictStrings))
	c.Assume("a string that selects another planner by a documented front-end rule (empty string, regex that is only a literal, JSON path / template / regex-group structure) is compared with a harmless string of the same class")
	c.Assume("JSON-quoted languages (LogQL, TraceQL, Pyroscope JSON bodies) cannot carry invalid UTF-8: the user's string is then the string with U+FFFD in place of every offending byte")
	k := stringsPerPosition(c, len(ps))
	lanes := c.Pick(4, 12)
	if lanes > len(ps) {
		lanes = len(ps)
	}
	var wg sync.WaitGroup
	for l := 0; l < lanes; l++ {
		wg.Add(1)
		go func(l int) {
			defer wg.Done()
			n := laneCases(len(ps), l, lanes, k)
			start := 0
			for start < n {
				out := c.RunChild(run.ChildSpec{Prop: "C10", Name: "pairs", Cfg: childCfg{Lane: l, Lanes: lanes, Start: start, K: k}, Timeout: 40 * time.Minute})
				if out.Completed {
					break
				}
				if out.OpenIdx < 0 {
					if out.TimedOut {
						c.Undecided("child watchdog expired outside a case")
					} else {
						c.Undecided(fmt.Sprintf("child ended (exit %d) outside a case", out.Exit))
						c.Note("child ended outside a case: " + tail(out.Stderr, 1500))
					}
					break
				}
				var open caseRef
				json.Unmarshal(out.OpenCase, &open)
				head, frame := run.PanicHead(out.Stderr)
				switch {
				case out.TimedOut:
					c.Undecided("child watchdog expired inside a case")
					c.Note(fmt.Sprintf("no answer within the watchdog: %s string %s", open.Position, clipq(open.String)))
				default:
					// the reader process died on this request: C12's subject, not a statement-shape
					// question; no statement can be examined, the case is counted as not decided
					c.Case(open.Position + "|" + "process-death")
					c.Cover("reader process died (C12 material)", open.Position+" "+head+" "+frame, 1)
					c.Note(fmt.Sprintf("reader process died at %s string %s: %s at %s", open.Position, clipq(open.String), head, frame))
				}
				start = out.OpenIdx + 1
			}
		}(l)
	}
	wg.Wait()
	// the same pairs, several requests in flight at once
	if out := c.RunChild(run.ChildSpec{Prop: "C10", Name: "concurrent", Cfg: childCfg{Lanes: 1, K: c.Pick(3, 12), Concurrent: 6}, Timeout: 20 * time.Minute}); !out.Completed {
		head, frame := run.PanicHead(out.Stderr)
		if out.TimedOut {
			c.Undecided("concurrent lane: child watchdog expired")
		} else {
			c.Cover("reader process died (C12 material)", "concurrent lane "+head+" "+frame, 1)
			c.Undecided("concurrent lane: child ended early")
		}
	}
	c.Floor("pairs evaluated with six requests in flight", 200, 0)
	for _, p := range ps {
		c.Floor("evaluated:"+p.name, 1, 0)
		if !p.restricted && !p.silent && p.name != "tempo.tags.whole" && p.name != "prof.selector.whole" {
			c.Floor("reached-sql-with-quote:"+p.name, 1, 0)
			c.Floor("reached-sql-with-backslash:"+p.name, 1, 0)
		}
	}
	var restricted, silent []string
	for _, p := range ps {
		if p.restricted {
			restricted = append(restricted, p.name)
		}
		if p.silent {
			silent = append(silent, p.name)
		}
	}
	c.Extra("positions_restricted_by_the_front_end", restricted)
	c.Extra("positions_not_expected_to_reach_sql", silent)
	c.Extra("positions", len(ps))
	c.Extra("strings_per_position", k)
}

func clipq(s string) string {
	if len(s) > 200 {
		return s[:200] + "…"
	}
	return s
}

func tail(s string, n int) string {
	if len(s) > n {
		return s[len(s)-n:]
	}
	return s
}

// lanePositions: position p belongs to lane p % lanes (each position's harmless statements are
// then cached in one process only).
func lanePositions(nPos, lane, lanes int) []int {
	var out []int
	for p := lane; p < nPos; p += lanes {
		out = append(out, p)
	}
	return out
}

func laneCases(nPos, lane, lanes, k int) int { return len(lanePositions(nPos, lane, lanes)) * k }

// fixedCorpus is the deduplicated fixed part of the string list.
var fixedCorpus = func() []string {
	seen := map[string]bool{}
	var out []string
	for _, l := range [][]string{coreStrings, dictStrings, {longStrings[1]}, extraStrings, longStrings} {
		for _, s := range l {
			if !seen[s] {
				seen[s] = true
				out = append(out, s)
			}
		}
	}
	return out
}()

var nCore = func() int {
	seen := map[string]bool{}
	for _, l := range [][]string{coreStrings, dictStrings} {
		for _, s := range l {
			seen[s] = true
		}
	}
	return len(seen) + 1
}()

// stringFor returns the hostile string with ordinal k at position p (determined by the seed).
func stringFor(c *run.Ctx, p *position, k int) string {
	pname := p.name
	if k < nCore {
		return fixedCorpus[k]
	}
	if !c.Quick() && k < len(fixedCorpus) {
		return fixedCorpus[k]
	}
	r := c.Rng(fmt.Sprintf("c10/str/%s/%d", pname, k))
	if p.restricted && r.Intn(3) == 0 {
		// identifier slots and hex ids: strings their lexers accept
		return genIdent(r)
	}
	if c.Quick() && r.Intn(3) != 0 {
		return fixedCorpus[nCore+r.Intn(len(fixedCorpus)-nCore)]
	}
	return genString(r)
}

var quickVariants = []int{0, 7, 14, 9, 3, 12}

func variantFor(c *run.Ctx, p, k int) variant {
	if c.Quick() {
		return variantOf(quickVariants[(k+p)%len(quickVariants)])
	}
	return variantOf((k + 5*p) % nVariants)
}

type benignKey struct {
	pos, form, class string
	v                variant
}

type benignVal struct {
	out   outcome
	lexed []lexed
	exp   expectation
	text  string
}

type env struct {
	c      *run.Ctx
	rig    *rig
	benign map[benignKey]*benignVal
	minis  map[string]int
	known  map[string][]knownSig
}

func Child(c *run.Ctx, name string) {
	var cfg childCfg
	if err := run.ChildCfg(&cfg); err != nil {
		panic(err)
	}
	ps := positions()
	if cfg.Concurrent > 0 {
		var wg sync.WaitGroup
		for g := 0; g < cfg.Concurrent; g++ {
			wg.Add(1)
			e := &env{c: c, rig: newRig(), benign: map[benignKey]*benignVal{}, minis: map[string]int{}, known: map[string][]knownSig{}}
			go func(g int, e *env) {
				defer wg.Done()
				for k := 0; k < cfg.K; k++ {
					for pi := g; pi < len(ps); pi += cfg.Concurrent {
						p := ps[pi]
						s := stringFor(c, p, 1000+k)
						v := variantFor(c, pi, 1000+k)
						e.pair(p, s, 1000+k, v, caseRef{Position: p.name, Ordinal: 1000 + k, Variant: v, String: fmt.Sprintf("%q", clipq(s)), Len: len(s)})
						c.Floor("pairs evaluated with six requests in flight", 0, 1)
					}
				}
			}(g, e)
		}
		wg.Wait()
		return
	}
	mine := lanePositions(len(ps), cfg.Lane, cfg.Lanes)
	e := &env{c: c, rig: newRig(), benign: map[benignKey]*benignVal{}, minis: map[string]int{}, known: map[string][]knownSig{}}
	n := len(mine) * cfg.K
	for j := cfg.Start; j < n; j++ {
		k := j / len(mine)
		pi := mine[j%len(mine)]
		p := ps[pi]
		s := stringFor(c, p, k)
		v := variantFor(c, pi, k)
		ref := caseRef{Position: p.name, Ordinal: k, Variant: v, String: fmt.Sprintf("%q", clipq(s)), Len: len(s)}
		c.BeginCase(j, ref)
		e.pair(p, s, k, v, ref)
		c.EndCase(j)
	}
}

func (e *env) benignFor(p *position, f form, class string, free bool, v variant, fresh bool) (*benignVal, string) {
	key := benignKey{p.name, f.name, class, v}
	if !fresh {
		if b, ok := e.benign[key]; ok {
			return b, ""
		}
	}
	bs := marker
	if p.benign != nil {
		bs = p.benign(class)
	} else if class == "empty" {
		bs = ""
	}
	_, beff, _ := f.render(bs)
	wrapped := bs
	if p.pre != nil {
		var ok bool
		if wrapped, ok = p.pre(bs); !ok {
			return nil, "the harmless string cannot be wrapped"
		}
	}
	text, _, ok := f.render(wrapped)
	if !ok {
		return nil, "the harmless string cannot be written in form " + f.name
	}
	exp := p.expect(beff)
	if !free && exp.class != class {
		return nil, fmt.Sprintf("harmless string %q has class %s, wanted %s", bs, exp.class, class)
	}
	out := e.rig.do(p.build(text), v)
	b := &benignVal{out: out, lexed: lexAll(out.Stmts), exp: exp, text: text}
	e.benign[key] = b
	return b, ""
}

type attempt struct {
	form     form
	text     string
	eff      string
	exp      expectation
	out      outcome
	rejected bool
}

// run one hostile string through one form; ok=false if the form cannot express it
func (e *env) attempt(p *position, f form, s string, v variant) (*attempt, bool) {
	_, eff, _ := f.render(s)
	wrapped := s
	if p.pre != nil {
		var ok bool
		if wrapped, ok = p.pre(s); !ok {
			return nil, false
		}
	}
	text, _, ok := f.render(wrapped)
	if !ok {
		return nil, false
	}
	a := &attempt{form: f, text: text, eff: eff, exp: p.expect(eff)}
	a.out = e.rig.do(p.build(text), v)
	a.rejected = len(a.out.Stmts) == 0 && (a.out.Status >= 300 || a.out.Status == 0)
	return a, true
}

func (e *env) judge(p *position, a *attempt, v variant, fresh bool) (verdict, string) {
	b, why := e.benignFor(p, a.form, a.exp.class, a.exp.free, v, fresh)
	if b == nil {
		return verdict{}, why
	}
	if len(b.out.Stmts) == 0 && !p.silent && p.altBenign != "" && len(a.out.Stmts) > 0 {
		// the front end takes this string but not the harmless one of its class: compare with the number
		nb, why := e.benignFor(p, a.form, "number", true, v, fresh)
		if nb == nil || len(nb.out.Stmts) == 0 {
			return verdict{}, "neither the harmless string nor the harmless number is accepted: " + why
		}
		return compareSlot(nb.lexed, lexAll(a.out.Stmts), p.altBenign), ""
	}
	if len(b.out.Stmts) == 0 && !p.silent {
		return verdict{}, fmt.Sprintf("the harmless request sent no statement (status %d %s)", b.out.Status, clip(b.out.Body+b.out.Err, 200))
	}
	partial := a.out.Status >= 400 || a.out.Status == 0
	return compare(b.lexed, lexAll(a.out.Stmts), b.exp, a.exp, a.eff, partial), ""
}

func (e *env) pair(p *position, s string, k int, v variant, ref caseRef) {
	c := e.c
	class := classOf(s)
	first := (k + len(p.name)) % len(p.forms)
	var last *attempt
	tried := 0
	for i := 0; i < len(p.forms); i++ {
		f := p.forms[(first+i)%len(p.forms)]
		a, ok := e.attempt(p, f, s, v)
		if !ok {
			continue
		}
		tried++
		last = a
		c.Cover("form", p.name+" "+f.name+" "+map[bool]string{true: "rejected", false: "accepted"}[a.rejected], 1)
		if !a.rejected {
			break
		}
	}
	if last == nil {
		c.Case("")
		c.Cover("not expressible", p.name, 1)
		return
	}
	ref.Form = last.form.name
	if last.rejected {
		c.Case(p.name + "|" + class + "|rejected")
		c.Cover("rejected by the front end", p.name, 1)
		c.Cover("rejection status", fmt.Sprintf("%s %d", p.name, last.out.Status), 1)
		c.Floor("evaluated:"+p.name, 1, 1)
		return
	}
	if last.eff == marker || (last.exp.class == "empty" && last.eff == "") {
		// the hostile request IS the harmless request
		c.Case("")
		c.Cover("accepted", p.name, 1)
		c.Floor("evaluated:"+p.name, 1, 1)
		return
	}
	ver, why := e.judge(p, last, v, false)
	if why != "" {
		c.Case(p.name + "|" + class + "|undecided")
		c.Undecided(p.name + ": " + why)
		return
	}
	if ver.rule != "" {
		// rule out anything that depends on the moment (schema cache refresh, date): take a
		// fresh harmless reference and send the hostile request again
		if a2, ok := e.attempt(p, last.form, s, v); ok {
			last = a2
			ver, why = e.judge(p, last, v, true)
			if why != "" {
				c.Undecided(p.name + ": " + why)
				return
			}
		}
	}
	c.Case(p.name + "|" + class + "|accepted")
	c.Cover("accepted", p.name, 1)
	c.Cover("expectation class", p.name+" "+last.exp.class, 1)
	c.Floor("evaluated:"+p.name, 1, 1)
	if ver.rule == "" {
		if ver.reached && !last.exp.free {
			c.Cover("reached SQL in a literal", p.name, 1)
			if hasQuote(last.eff) {
				c.Floor("reached-sql-with-quote:"+p.name, 1, 1)
			}
			if hasBackslash(last.eff) {
				c.Floor("reached-sql-with-backslash:"+p.name, 1, 1)
			}
		} else if !last.exp.free {
			c.Cover("accepted but no literal carries the string", p.name, 1)
		}
		if k < 3 || (hasQuote(s) && k%7 == 0) {
			c.Sample(map[string]any{"position": p.name, "form": last.form.name, "variant": v.String(), "string": fmt.Sprintf("%q", clipq(s)), "hole": clipq(last.text),
				"status": last.out.Status, "statements": len(last.out.Stmts), "literals_carrying_it": ver.carried, "class": last.exp.class})
		}
		return
	}
	e.report(p, last, s, v, ver, ref)
}

// report minimises the witness and records the violation. The signature is
// <position>/<rule>/<features of the minimised witness>; a later witness at the same position
// and rule whose string has all the features of an already minimised one is attributed to that
// signature without minimising again (so one escaping mistake hit by thousands of generated
// strings stays one signature, while a mistake that needs other bytes gets its own).
func (e *env) report(p *position, a *attempt, s string, v variant, ver verdict, ref caseRef) {
	c := e.c
	pre := p.name + "/" + ver.rule
	have := map[string]bool{}
	for _, f := range strings.Split(features(a.eff), "+") {
		have[f] = true
	}
	for _, k := range e.known[pre] {
		all := true
		for _, f := range k.feats {
			if !have[f] {
				all = false
			}
		}
		if all {
			c.Violation(k.sig, "(further witness of the same signature)", nil)
			return
		}
	}
	minS, minA, minVer := s, a, ver
	sig := pre + "/other"
	if len(e.known[pre]) < 12 {
		minS, minA, minVer = e.minimise(p, a.form, s, v, ver)
		fs := features(minA.eff)
		sig = pre + "/" + fs
		e.known[pre] = append(e.known[pre], knownSig{feats: strings.Split(fs, "+"), sig: sig})
	}
	b, _ := e.benignFor(p, minA.form, minA.exp.class, minA.exp.free, v, false)
	stmtH, stmtB := "", ""
	if minVer.stmt < len(minA.out.Stmts) {
		stmtH = minA.out.Stmts[minVer.stmt]
	}
	if b != nil && minVer.stmt < len(b.out.Stmts) {
		stmtB = b.out.Stmts[minVer.stmt]
	}
	desc := fmt.Sprintf("position %s, user string %q written as %q (variant %s): %s", p.name, clipq(minS), clipq(minA.text), v, minVer.detail)
	ref.String = fmt.Sprintf("%q", clipq(minS))
	ref.Len = len(minS)
	ref.Form = minA.form.name
	req := p.build(minA.text)
	c.Violation(sig, desc, map[string]any{
		"case": ref, "original_string": fmt.Sprintf("%q", clipq(s)), "rule": minVer.rule, "detail": minVer.detail,
		"request":           map[string]any{"method": req.Method, "path": req.Path, "query": req.Query, "body": clipq(req.Body)},
		"hostile_statement": fmt.Sprintf("%q", clip(stmtH, 4000)), "harmless_statement": fmt.Sprintf("%q", clip(stmtB, 4000)),
	})
}

type knownSig struct {
	feats []string
	sig   string
}

// minimise: ddmin over the bytes of s (then a pass of single-byte removal) keeping "the same
// rule fires at this position".
func (e *env) minimise(p *position, f form, s string, v variant, ver verdict) (string, *attempt, verdict) {
	budget := 300
	var bestA *attempt
	bestV := ver
	test := func(t string) bool {
		if budget <= 0 {
			return false
		}
		budget--
		a, ok := e.attempt(p, f, t, v)
		if !ok || a.rejected {
			return false
		}
		if a.eff == marker || (a.exp.class == "empty" && a.eff == "") {
			return false
		}
		vv, why := e.judge(p, a, v, false)
		if why != "" || vv.rule != ver.rule {
			return false
		}
		bestA, bestV = a, vv
		return true
	}
	cur := s
	n := 2
	for len(cur) >= 2 && budget > 0 {
		chunk := (len(cur) + n - 1) / n
		reduced := false
		for i := 0; i < len(cur); i += chunk {
			end := min(i+chunk, len(cur))
			cand := cur[:i] + cur[end:]
			if cand != "" && test(cand) {
				cur = cand
				n = max(n-1, 2)
				reduced = true
				break
			}
		}
		if !reduced {
			if n >= len(cur) {
				break
			}
			n = min(n*2, len(cur))
		}
	}
	if bestA == nil {
		a, _ := e.attempt(p, f, s, v)
		return s, a, ver
	}
	return cur, bestA, bestV
}

// summary helpers used by the exploratory test
func sortedKeys[V any](m map[string]V) []string {
	out := make([]string, 0, len(m))
	for k := range m {
		out = append(out, k)
	}
	sort.Strings(out)
	return out
}

var _ = strings.Contains
