package c10

import (
	"context"
	"fmt"
	"time"

	"github.com/metrico/qryn/reader/logql/logql_parser"
	"github.com/metrico/qryn/reader/logql/logql_transpiler_v2/clickhouse_planner"
	"github.com/metrico/qryn/reader/logql/logql_transpiler_v2/shared"
	promtr "github.com/metrico/qryn/reader/promql/transpiler"
	sql "github.com/metrico/qryn/reader/utils/sql_select"
	"github.com/metrico/qryn/reader/utils/tables"
	"github.com/prometheus/prometheus/model/labels"
	"github.com/prometheus/prometheus/storage"
)

// Planners that exist and are exported but that no route reaches today (label_format is parsed
// and then not planned; line_format is always evaluated inside the reader) are driven directly,
// so that wiring them later does not open an unchecked path. Findings here are not request
// reachable and are only reported for the shape rules.

func (r *rig) plannerCtx(v variant) (*shared.PlannerContext, error) {
	conn, err := r.reg.GetDB(context.Background())
	if err != nil {
		return nil, err
	}
	ctx := &shared.PlannerContext{
		IsCluster: v.Cluster,
		From:      time.Unix(tFrom, 0),
		To:        time.Unix(tTo, 0),
		Limit:     100,
		Ctx:       context.Background(),
		CHDb:      conn.Session,
		Step:      5 * time.Second,
		Type:      shared.SAMPLES_TYPE_LOGS,
	}
	tables.PopulateTableNames(ctx, conn)
	return ctx, nil
}

// labelsSource is a minimal upstream planner offering the columns the format planners patch.
type labelsSource struct{}

func (labelsSource) Process(ctx *shared.PlannerContext) (sql.ISelect, error) {
	return sql.NewSelect().Select(
		sql.NewSimpleCol("samples.timestamp_ns", "timestamp_ns"),
		sql.NewSimpleCol("samples.fingerprint", "fingerprint"),
		sql.NewSimpleCol("samples.labels", "labels"),
		sql.NewSimpleCol("samples.string", "string"),
		sql.NewSimpleCol("toFloat64(0)", "value"),
	).From(sql.NewSimpleCol(ctx.SamplesTableName, "samples")), nil
}

func render(sel sql.ISelect) ([]string, error) {
	s, err := sel.String(&sql.Ctx{Params: map[string]sql.SQLObject{}, Result: map[string]sql.SQLObject{}})
	if err != nil {
		return nil, err
	}
	return []string{s}, nil
}

func directLabelFormatQuery(q string) func(r *rig, v variant) ([]string, error) {
	return func(r *rig, v variant) ([]string, error) {
		script, err := logql_parser.Parse(q)
		if err != nil {
			return nil, err
		}
		if script.StrSelector == nil || len(script.StrSelector.Pipelines) != 1 || script.StrSelector.Pipelines[0].LabelFormat == nil {
			return nil, fmt.Errorf("not a label_format query")
		}
		ctx, err := r.plannerCtx(v)
		if err != nil {
			return nil, err
		}
		p := &clickhouse_planner.LabelFormatPlanner{Main: labelsSource{}, Expr: script.StrSelector.Pipelines[0].LabelFormat}
		sel, err := p.Process(ctx)
		if err != nil {
			return nil, err
		}
		return render(sel)
	}
}

func directLabelFormat(hole string) func(r *rig, v variant) ([]string, error) {
	return directLabelFormatQuery(`{a="b"} | label_format z=` + hole + `, w=a`)
}

func directLabelFormatName(hole string) func(r *rig, v variant) ([]string, error) {
	return directLabelFormatQuery(`{a="b"} | label_format ` + hole + `="x{{.a}}y", w=` + hole)
}

func directLineFormat(hole string) func(r *rig, v variant) ([]string, error) {
	return func(r *rig, v variant) ([]string, error) {
		script, err := logql_parser.Parse(`{a="b"} | line_format ` + hole)
		if err != nil {
			return nil, err
		}
		if script.StrSelector == nil || len(script.StrSelector.Pipelines) != 1 || script.StrSelector.Pipelines[0].LineFormat == nil {
			return nil, fmt.Errorf("not a line_format query")
		}
		val, err := script.StrSelector.Pipelines[0].LineFormat.Val.Unquote()
		if err != nil {
			return nil, err
		}
		ctx, err := r.plannerCtx(v)
		if err != nil {
			return nil, err
		}
		p := &clickhouse_planner.LineFormatPlanner{Main: labelsSource{}, Template: val}
		sel, err := p.Process(ctx)
		if err != nil {
			return nil, err
		}
		return render(sel)
	}
}

func directPromMatcher(name, value string, tp int) func(r *rig, v variant) ([]string, error) {
	return func(r *rig, v variant) ([]string, error) {
		ctx, err := r.plannerCtx(v)
		if err != nil {
			return nil, err
		}
		ctx.Type = shared.SAMPLES_TYPE_METRICS
		// labels.NewMatcher compiles regex matchers; build the struct directly so that any
		// byte string arrives at the translation
		ms := []*labels.Matcher{
			{Type: labels.MatchEqual, Name: "__name__", Value: "up"},
			{Type: labels.MatchType(tp), Name: name, Value: value},
		}
		res, err := promtr.TranspileLabelMatchers(&storage.SelectHints{Start: tFrom * 1000, End: tTo * 1000, Step: 15000}, ctx, ms...)
		if err != nil {
			return nil, err
		}
		return render(res.Query)
	}
}
