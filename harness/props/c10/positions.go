package c10

import (
	"bytes"
	"fmt"
	"net/url"
	"regexp"
	"regexp/syntax"
	"strings"

	"verif/harness/engines/lex"
)

// An expectation says, for one user string at one position, which planner-relevant class the
// string belongs to (strings of one class must give one token structure) and what each SQL
// literal that carries the string has to decode to. It is written from the property's point of
// view (DESIGN C10 "O"): identity for matcher/filter/tag values, names and regexes; "a LIKE
// pattern that means: contains s" for line filters; JSON-path component; format template.
type expectation struct {
	class string
	// free: the position is a little language of its own (JSON path, template, raw identifier
	// slot, regex with groups): the statement's shape legitimately depends on the string; only
	// the shape-independent rules are checked.
	free bool
	// slots: a literal that differs between the benign and the hostile statement must satisfy
	// the same slot in both (slot i of the benign expectation for the benign literal, slot i
	// of the hostile expectation for the hostile literal).
	slots []func(dec []byte) bool
	// what the slots mean, for messages
	want []string
}

// eq: the literal decodes to v. For a v that is not valid UTF-8 the value with U+FFFD in place of
// every offending byte is accepted as well: text front ends (URL-decoded parameters run through
// rune-based lexers, JSON documents) have no way to carry such bytes and replace them; that is
// sanitisation, not a change of meaning the property is about.
func eq(v string) func([]byte) bool {
	v2 := jsonValid(v)
	return func(d []byte) bool { return string(d) == v || string(d) == v2 }
}

// likeContains: the decoded literal is a LIKE pattern (rule A2) that means "contains v".
func likeContains(v string) func([]byte) bool {
	v2 := jsonValid(v)
	return func(d []byte) bool {
		lit, ok := lex.LikeContains(d)
		return ok && (bytes.Equal(lit, []byte(v)) || bytes.Equal(lit, []byte(v2)))
	}
}

func expIdentity(eff string) expectation {
	if eff == "" {
		return expectation{class: "empty", slots: []func([]byte) bool{eq("")}, want: []string{"the empty string"}}
	}
	return expectation{class: "str", slots: []func([]byte) bool{eq(eff)}, want: []string{"the string itself"}}
}

// identity, possibly inside a composite value pre+s+suf (e.g. "<sampleType>:<sampleUnit>")
func expIn(contexts ...[2]string) func(string) expectation {
	return func(eff string) expectation {
		e := expectation{class: "str"}
		if eff == "" {
			e.class = "empty"
		}
		for _, c := range contexts {
			e.slots = append(e.slots, eq(c[0]+eff+c[1]))
			e.want = append(e.want, fmt.Sprintf("%q + the string + %q", c[0], c[1]))
		}
		return e
	}
}

// Prometheus and Pyroscope regex matchers (=~, !~) are FULLY ANCHORED by definition, while
// ClickHouse match() searches: the literal that means "the whole value matches s" is
// ^(?:s)$. Whether a reader anchors at all is C17's question, not this property's, so the bare
// regex is accepted as the second reading; either way the harmless and the hostile literal must
// be built the same way around the user's string.
var expAnchoredRegex = expIn([2]string{"^(?:", ")$"}, [2]string{"", ""})

// |= and != : "the line contains s".
func expContains(eff string) expectation {
	cl := "str"
	if eff == "" {
		cl = "empty" // an empty filter may be dropped or let a shortcut planner in
	}
	return expectation{class: cl, slots: []func([]byte) bool{likeContains(eff)}, want: []string{"a LIKE pattern meaning: contains the string"}}
}

// |~ and !~ : "the line matches regex s". A regex that is only a literal (optionally
// case-insensitive) may be rendered as [i]like '%literal%'; the class keeps the benign and the
// hostile string on the same side of that rewriting.
func expLineRegex(eff string) expectation {
	if eff == "" {
		return expectation{class: "empty", slots: []func([]byte) bool{eq("")}, want: []string{"the empty regex"}}
	}
	exp, err := syntax.Parse(eff, syntax.PerlX)
	if err == nil && exp.Op == syntax.OpLiteral && exp.Flags&^(syntax.PerlX|syntax.FoldCase) == 0 {
		lit := string(exp.Rune)
		cl := "literal-regex"
		lc := likeContains(lit)
		if exp.Flags&syntax.FoldCase != 0 {
			// (?i): the pattern is used with ilike; any spelling that is equal under case folding
			// means the same
			cl = "literal-regex-fold"
			lc = func(d []byte) bool {
				got, ok := lex.LikeContains(d)
				return ok && strings.EqualFold(string(got), lit)
			}
		}
		return expectation{class: cl, slots: []func([]byte) bool{lc, eq(eff)},
			want: []string{"a LIKE pattern meaning: contains the literal the regex stands for", "the regex itself"}}
	}
	return expectation{class: "regex", slots: []func([]byte) bool{eq(eff)}, want: []string{"the regex itself"}}
}

func benignLineRegex(class string) string {
	switch class {
	case "literal-regex-fold":
		return "(?i)" + marker
	case "regex":
		return marker + ".*x"
	case "empty":
		return ""
	}
	return marker
}

// `| regexp "<s>"`: the pattern is handed to extractAllGroupsHorizontal with the group names
// removed ("(?P<name>" becomes "("); the names become literals of their own. Without any
// parenthesis the pattern is the string itself; with parentheses the number of literals depends
// on the string: free.
func expRegexpParser(eff string) expectation {
	if eff == "" {
		return expectation{class: "empty", free: true}
	}
	if strings.ContainsAny(eff, "()") {
		return expectation{class: "groups", free: true}
	}
	return expectation{class: "str", slots: []func([]byte) bool{eq(eff)}, want: []string{"the pattern itself"}}
}

// format() template text: the planners that build it are not reachable from a request today
// (label_format is not planned, line_format is evaluated in the reader), so the check only asks
// that the text is in ONE literal; whether `{`/`}` are escaped for format() is not demanded.
func expTemplate(eff string) expectation {
	if eff == "" {
		return expectation{class: "empty", free: true}
	}
	if strings.Contains(eff, "{{") {
		return expectation{class: "actions", free: true}
	}
	esc := strings.NewReplacer("{", "{{", "}", "}}").Replace(eff)
	return expectation{class: "text", slots: []func([]byte) bool{eq(eff), eq(esc)}, want: []string{"the text itself", "the text with {/} doubled"}}
}

func expFree(eff string) expectation { return expectation{class: "free", free: true} }

// identifier slots: a string the language's lexer takes as ONE identifier must arrive as that
// identifier; anything else re-shapes the user's own query (or is refused): free.
func expIdent(re *regexp.Regexp, strip func(string) string) func(string) expectation {
	return func(eff string) expectation {
		if re.MatchString(eff) && !reservedWords[eff] {
			v := eff
			if strip != nil {
				v = strip(eff)
			}
			return expectation{class: "ident", slots: []func([]byte) bool{eq(v)}, want: []string{"the identifier"}}
		}
		return expectation{class: "free", free: true}
	}
}

var reservedWords = map[string]bool{"and": true, "or": true, "by": true, "without": true, "json": true, "logfmt": true, "regexp": true,
	"unwrap": true, "unwrap_value": true, "drop": true, "line_format": true, "label_format": true, "_entry": true,
	"name": true, "duration": true, "count": true, "sum": true, "min": true, "max": true, "avg": true,
	"service_name": true, "__name__": true, "__period_type__": true, "__period_unit__": true, "__sample_type__": true, "__sample_unit__": true, "__profile_type__": true}

var (
	reLogQLIdent   = regexp.MustCompile(`^[a-zA-Z][a-zA-Z0-9_]*$`) // (a leading _ makes a macro name)
	reTraceQLIdent = regexp.MustCompile(`^[a-zA-Z_][.a-zA-Z0-9_-]*$`)
	reHex32        = regexp.MustCompile(`^[0-9a-fA-F]{32}$`)
)

// URL tag names of the Tempo value endpoints: the scope prefix is not part of the key.
func stripTagScopeV1(t string) string {
	if strings.HasPrefix(t, "span.") {
		t = t[5:]
	}
	if strings.HasPrefix(t, ".") {
		t = t[1:]
	}
	if len(t) >= 10 && strings.HasPrefix(t, "resource.") {
		t = t[9:]
	}
	return t
}

func expTagNameV1(eff string) expectation { return expIdentity(stripTagScopeV1(eff)) }

type position struct {
	name  string
	forms []form
	// pre wraps the user's string into the value that is then quoted by the form (nested
	// languages, e.g. a JSON path inside a LogQL string)
	pre    func(s string) (string, bool)
	build  func(hole string) *request
	expect func(eff string) expectation
	benign func(class string) string
	// restricted: the front end is expected to keep quotes and backslashes out (identifier
	// slots, hex ids): no "accepted with a quote" floor
	restricted bool
	// silent: the string is not expected to reach SQL at all (evaluated in the reader)
	silent bool
	// altBenign: a slot that takes numbers. When the front end accepts the hostile string but refuses the harmless
	// string of its class, the statement is compared with the one for this number: same tokens, one token in the
	// number's place
	altBenign string
}

var rePlainNumber = regexp.MustCompile(`^-?[0-9]+(\.[0-9]+)?$`)

const (
	tFrom = int64(1700000000)
	tTo   = tFrom + 3600
)

func ns(s int64) string  { return fmt.Sprintf("%d", s*1000000000) }
func sec(s int64) string { return fmt.Sprintf("%d", s) }
func ms(s int64) string  { return fmt.Sprintf("%d", s*1000) }

func get(path string, kv ...string) *request {
	q := url.Values{}
	for i := 0; i+1 < len(kv); i += 2 {
		q.Add(kv[i], kv[i+1])
	}
	return &request{Method: "GET", Path: path, Query: q}
}

func lokiRange(q string) *request {
	return get("/loki/api/v1/query_range", "query", q, "start", ns(tFrom), "end", ns(tTo), "step", "5", "limit", "100")
}
func lokiInstant(q string) *request {
	return get("/loki/api/v1/query", "query", q, "time", ns(tTo), "limit", "100")
}
func lokiSeries(m string) *request {
	return get("/loki/api/v1/series", "match[]", m, "match[]", `{other="zz"}`, "start", ns(tFrom), "end", ns(tTo))
}
func lokiValues(name, m string) *request {
	r := get("/loki/api/v1/label/"+name+"/values", "start", ns(tFrom), "end", ns(tTo))
	if m != "" {
		r.Query.Add("match[]", m)
	}
	return r
}
func promRange(q string) *request {
	return get("/api/v1/query_range", "query", q, "start", sec(tFrom), "end", sec(tTo), "step", "15")
}
func promInstant(q string) *request {
	return get("/api/v1/query", "query", q, "time", sec(tTo))
}
func promSeries(m string) *request {
	return get("/api/v1/series", "match[]", m, "start", sec(tFrom), "end", sec(tTo))
}
func promValues(name, m string) *request {
	r := get("/api/v1/label/"+name+"/values", "start", sec(tFrom), "end", sec(tTo))
	if m != "" {
		r.Query.Add("match[]", m)
	}
	return r
}
func tempoSearchQ(q string) *request {
	return get("/api/search", "q", q, "start", sec(tFrom), "end", sec(tTo), "limit", "20")
}
func tempoSearchTags(tags string) *request {
	return get("/api/search", "tags", tags, "start", sec(tFrom), "end", sec(tTo), "limit", "20", "minDuration", "1ms", "maxDuration", "10s")
}
func profPost(method string, body string) *request {
	return &request{Method: "POST", Path: "/querier.v1.QuerierService/" + method, Body: body, CType: "application/json"}
}

const profType = `process_cpu:cpu:nanoseconds:cpu:nanoseconds`

func profRange() string { return `"start":` + ms(tFrom) + `,"end":` + ms(tTo) }

// tpl substitutes the hole into a query template
func tpl(t string, ep func(string) *request) func(string) *request {
	return func(hole string) *request { return ep(strings.Replace(t, "§", hole, 1)) }
}

// jsonStr puts a query text into a JSON document as a string value
func jsonStr(s string) string { return jsonQuote(s) }

func positions() []*position {
	var ps []*position
	add := func(p *position) {
		if p.expect == nil {
			p.expect = expIdentity
		}
		ps = append(ps, p)
	}
	str := func(name string, forms []form, build func(string) *request) *position {
		p := &position{name: name, forms: forms, build: build}
		add(p)
		return p
	}

	// ---------------- LogQL ----------------
	for _, op := range []struct{ n, op string }{{"eq", "="}, {"ne", "!="}, {"re", "=~"}, {"nre", "!~"}} {
		str("logql.stream."+op.n, formsLogQL, tpl(`{job="j", a`+op.op+`§}`, lokiRange))
	}
	str("logql.stream.eq.instant", formsLogQL, tpl(`{a=§}`, lokiInstant))
	str("logql.stream.eq.metric", formsLogQL, tpl(`sum by (a) (rate({a=§, b=~"x.*"}[1m]))`, lokiRange))
	str("logql.stream.re.10matchers", formsLogQL, tpl(`{a="1",b="2",c="3",d="4",e="5",f="6",g="7",h="8",i=~§,j!="10"}`, lokiRange))
	str("logql.line.contains", formsLogQL, tpl(`{a="b"} |= §`, lokiRange)).expect = expContains
	str("logql.line.notcontains", formsLogQL, tpl(`{a="b"} != §`, lokiRange)).expect = expContains
	str("logql.line.contains.chain", formsLogQL, tpl(`{a="b"} |= "x%y" != § |~ "z.*"`, lokiRange)).expect = expContains
	str("logql.line.contains.metric10s", formsLogQL, tpl(`count_over_time({a="b"} |= § [10s])`, lokiRange)).expect = expContains
	str("logql.line.contains.metric1m", formsLogQL, tpl(`sum(rate({a="b"} |= § [1m])) by (a)`, lokiRange)).expect = expContains
	p := str("logql.line.re", formsLogQL, tpl(`{a="b"} |~ §`, lokiRange))
	p.expect, p.benign = expLineRegex, benignLineRegex
	p = str("logql.line.nre", formsLogQL, tpl(`{a="b"} !~ §`, lokiRange))
	p.expect, p.benign = expLineRegex, benignLineRegex
	p = str("logql.line.re.metric", formsLogQL, tpl(`bytes_rate({a="b"} |~ § [10s])`, lokiRange))
	p.expect, p.benign = expLineRegex, benignLineRegex
	for _, op := range []struct{ n, op string }{{"eq", "="}, {"ne", "!="}, {"re", "=~"}, {"nre", "!~"}} {
		// before any parser: evaluated on the label document of time_series
		str("logql.labelfilter.series."+op.n, formsLogQL, tpl(`{a="b"} | lvl`+op.op+`§`, lokiRange))
		// after a parser: evaluated on the labels map
		str("logql.labelfilter.map."+op.n, formsLogQL, tpl(`{a="b"} | json x="y" | x`+op.op+`§ and (n > 5 or m=~"k.*")`, lokiRange))
	}
	str("logql.labelfilter.map.metric", formsLogQL, tpl(`sum(rate({a="b"} | json x="x" | x=§ [10s])) by (x)`, lokiRange))
	p = str("logql.json.path", formsLogQL, tpl(`{a="b"} | json x=§`, lokiRange))
	p.restricted = true // a path is made of identifiers, quoted fields and indexes: see logql.json.path.field for the quoted form
	p.expect = func(eff string) expectation {
		if reLogQLIdent.MatchString(eff) || regexp.MustCompile(`^[a-zA-Z_][a-zA-Z0-9_]*$`).MatchString(eff) {
			return expectation{class: "ident", slots: []func([]byte) bool{eq(eff)}, want: []string{"the single path component"}}
		}
		return expectation{class: "free", free: true}
	}
	p = str("logql.json.path.field", formsLogQL, tpl(`{a="b"} | json x=§, y="d"`, lokiRange))
	p.pre = func(s string) (string, bool) { return `zz[` + jsonQuote(s) + `].yy`, true }
	p.expect = func(eff string) expectation { return expIdentity(jsonValid(eff)) }
	p = str("logql.json.path.field.tick", formsLogQL, tpl(`{a="b"} | json x=§ | x="1"`, lokiRange))
	p.pre = func(s string) (string, bool) {
		t, _, ok := formTick.render(s)
		return `zz[` + t + `]`, ok
	}
	p.expect = func(eff string) expectation { return expIdentity(jsonValid(eff)) }
	str("logql.regexp.pattern", formsLogQL, tpl(`{a="b"} | regexp § | n >= 2`, lokiRange)).expect = expRegexpParser
	p = str("logql.regexp.pattern.named", formsLogQL, tpl(`{a="b"} | regexp §`, lokiRange))
	p.pre = func(s string) (string, bool) { return `(?P<n>[0-9]+) ` + s, true }
	p.expect = func(eff string) expectation {
		if strings.ContainsAny(eff, "()") {
			return expectation{class: "groups", free: true}
		}
		return expectation{class: "str", slots: []func([]byte) bool{eq(`([0-9]+) ` + eff)}, want: []string{`"([0-9]+) " + the pattern`}}
	}
	str("logql.drop.value", formsLogQL, tpl(`{a="b"} | json x="y" | drop y, z=§`, lokiRange))
	str("logql.drop.value.first", formsLogQL, tpl(`{a="b"} | drop z=§`, lokiRange))
	p = str("logql.line_format.http", formsLogQL, tpl(`{a="b"} | line_format §`, lokiRange))
	p.expect, p.silent = expTemplate, true
	p = str("logql.label_format.const.http", formsLogQL, tpl(`{a="b"} | label_format z=§`, lokiRange))
	p.expect, p.silent = expTemplate, true
	p = str("logql.json.path.field.unwrap", formsLogQL, tpl(`sum_over_time({a="b"} | json v=§ | unwrap v [10s]) by (a)`, lokiRange))
	p.pre = func(s string) (string, bool) { return `[` + jsonQuote(s) + `]`, true }
	p.expect = func(eff string) expectation { return expIdentity(jsonValid(eff)) }
	str("logql.series.match.eq", formsLogQL, tpl(`{a=§}`, lokiSeries))
	str("logql.series.match.re", formsLogQL, tpl(`{a="b", c=~§}`, lokiSeries))
	str("logql.values.match.eq", formsLogQL, func(h string) *request { return lokiValues("job", `{a=`+h+`}`) })
	str("logql.values.match.nre", formsLogQL, func(h string) *request { return lokiValues("job", `{a="b", c!~`+h+`}`) })
	str("loki.values.name", formsPathSeg, func(h string) *request { return lokiValues(h, "") })
	str("loki.values.name.match", formsPathSeg, func(h string) *request { return lokiValues(h, `{a="b"}`) })

	// identifier slots of LogQL (the string is pasted in as it is)
	ident := func(name, t string, ep func(string) *request, re *regexp.Regexp) *position {
		p := str(name, formsRaw, tpl(t, ep))
		p.expect, p.restricted = expIdent(re, nil), true
		return p
	}
	ident("logql.ident.stream-label", `{§="x"}`, lokiRange, reLogQLIdent)
	ident("logql.ident.by", `sum by (a, §) (rate({a="b"}[10s]))`, lokiRange, reLogQLIdent)
	ident("logql.ident.without", `avg without (§) (count_over_time({a="b"}[10s])) > 1`, lokiRange, reLogQLIdent)
	ident("logql.ident.by.unwrap", `avg_over_time({a="b"} | json v="v" | unwrap v [10s]) by (§)`, lokiRange, reLogQLIdent)
	ident("logql.ident.unwrap", `sum_over_time({a="b"} | json v="v" | unwrap § [10s])`, lokiRange, reLogQLIdent)
	ident("logql.ident.labelfilter.series", `{a="b"} | §="x"`, lokiRange, reLogQLIdent)
	ident("logql.ident.labelfilter.map", `{a="b"} | json y="y" | §="x"`, lokiRange, reLogQLIdent)
	ident("logql.ident.labelfilter.num", `{a="b"} | json y="y" | § > 5`, lokiRange, reLogQLIdent)
	ident("logql.ident.json.label", `{a="b"} | json §="a.b"`, lokiRange, reLogQLIdent)
	ident("logql.ident.drop", `{a="b"} | drop §`, lokiRange, reLogQLIdent)
	ident("logql.ident.drop.valued", `{a="b"} | drop §="v"`, lokiRange, reLogQLIdent)
	ident("logql.ident.regexp.group", `{a="b"} | regexp "(?P<§>[0-9]+) x"`, lokiRange, reLogQLIdent)
	ident("logql.ident.json.path.word", `{a="b"} | json x="a.§[0]"`, lokiRange, reLogQLIdent)

	// planners that no request reaches today, called directly
	p = str("logql.label_format.const.direct", formsLogQL, func(h string) *request { return &request{direct: directLabelFormat(h)} })
	p.expect = expTemplate
	p = str("logql.line_format.direct", formsLogQL, func(h string) *request { return &request{direct: directLineFormat(h)} })
	p.expect = expTemplate
	ident("logql.ident.label_format.direct", `§`, func(h string) *request { return &request{direct: directLabelFormatName(h)} }, reLogQLIdent)

	// label NAMES written as quoted strings (UTF-8 / dotted names): today's LogQL grammar refuses them (counted as
	// rejected by the front end); wherever a front end accepts one, the name is a user string like any value
	for _, q := range []struct{ n, t string }{
		{"labelfilter.series", `{a="b"} | §="x"`}, {"labelfilter.map", `{a="b"} | json y="y" | §="x"`}, {"labelfilter.num", `{a="b"} | json y="y" | § > 5`},
		{"labelfilter.re", `{a="b"} | logfmt | §=~"x.*"`}, {"stream", `{§="x"}`}, {"by", `sum by (§) (rate({a="b"}[10s]))`}, {"drop", `{a="b"} | drop §`},
	} {
		str("logql.quoted-name."+q.n, formsLogQL, tpl(q.t, lokiRange)).restricted = true
	}
	// ---------------- PromQL ----------------
	str("promql.quoted-name.label", formsProm, tpl(`{__name__="up", §="x"}`, promRange)).restricted = true
	str("promql.quoted-name.by", formsProm, tpl(`sum by (§) (up{a="x"})`, promRange)).restricted = true
	for _, op := range []struct{ n, op string }{{"eq", "="}, {"ne", "!="}, {"re", "=~"}, {"nre", "!~"}} {
		p := str("promql.matcher."+op.n, formsProm, tpl(`up{job`+op.op+`§}`, promRange))
		if op.n == "re" || op.n == "nre" {
			p.expect = expAnchoredRegex
		}
	}
	str("promql.matcher.eq.instant", formsProm, tpl(`rate(up{job=§}[1m])`, promInstant))
	str("promql.matcher.metricname", formsProm, tpl(`{__name__=§, a="b"}`, promRange))
	str("promql.matcher.re.agg", formsProm, tpl(`sum by (job) (avg_over_time(up{a=~§}[5m]))`, promRange)).expect = expAnchoredRegex
	str("prom.series.match.eq", formsProm, tpl(`up{job=§}`, promSeries))
	str("prom.series.match.metricname.re", formsProm, tpl(`{__name__=~§}`, promSeries)).expect = expAnchoredRegex
	str("prom.values.match.eq", formsProm, func(h string) *request { return promValues("job", `up{a=`+h+`}`) })
	str("prom.values.match.nre", formsProm, func(h string) *request { return promValues("job", `{a="b", c!~`+h+`}`) }).expect = expAnchoredRegex
	str("prom.values.name", formsPathSeg, func(h string) *request { return promValues(h, "") })
	str("prom.values.name.match", formsPathSeg, func(h string) *request { return promValues(h, `up{a="b"}`) })
	p = ident("promql.ident.label", `up{§="x"}`, promRange, regexp.MustCompile(`^[a-zA-Z_][a-zA-Z0-9_]*$`))
	p = ident("promql.ident.metric", `§{a="x"}`, promRange, regexp.MustCompile(`^[a-zA-Z_:][a-zA-Z0-9_:]*$`))
	p = ident("promql.ident.by", `sum by (§) (up{a="x"})`, promRange, regexp.MustCompile(`^[a-zA-Z_][a-zA-Z0-9_]*$`))
	p.silent = true
	// the matcher translation called directly with arbitrary bytes (values the PromQL parser
	// refuses still arrive through other storage.Queryable callers)
	str("promql.matcher.direct.value", formsRaw, func(h string) *request { return &request{direct: directPromMatcher("job", h, 0)} })
	str("promql.matcher.direct.value.re", formsRaw, func(h string) *request { return &request{direct: directPromMatcher("job", h, 2)} }).expect = expAnchoredRegex
	str("promql.matcher.direct.name", formsRaw, func(h string) *request { return &request{direct: directPromMatcher(h, "v", 0)} })

	// ---------------- TraceQL ----------------
	for _, op := range []struct{ n, op string }{{"eq", "="}, {"ne", "!="}, {"re", "=~"}, {"nre", "!~"}} {
		str("traceql.attr."+op.n, formsLogQL, tpl(`{.a`+op.op+`§}`, tempoSearchQ))
	}
	// ordering comparisons with a quoted value (refused at the pinned commit; a front end that takes quoted numbers
	// must still keep the value in one token)
	for _, op := range []struct{ n, op string }{{"gt", ">"}, {"ge", ">="}, {"lt", "<"}, {"le", "<="}} {
		p := str("traceql.attr."+op.n+".quoted", formsLogQL, tpl(`{.a `+op.op+` §}`, tempoSearchQ))
		p.restricted, p.altBenign = true, "27"
		p.expect = func(eff string) expectation {
			if rePlainNumber.MatchString(eff) {
				return expectation{class: "number", free: true}
			}
			return expIdentity(eff)
		}
		p.benign = func(class string) string {
			if class == "number" {
				return "27"
			}
			return marker
		}
	}
	str("traceql.attr.span.re", formsLogQL, tpl(`{span.x=~§ && resource.c!="d"}`, tempoSearchQ))
	str("traceql.attr.resource.eq", formsLogQL, tpl(`{resource.service.name=§ || .n > 5}`, tempoSearchQ))
	str("traceql.name.eq", formsLogQL, tpl(`{name=§}`, tempoSearchQ))
	str("traceql.name.re", formsLogQL, tpl(`{name=~§ && duration > 1s}`, tempoSearchQ))
	str("traceql.attr.eq.agg", formsLogQL, tpl(`{.a=§} | count() > 2`, tempoSearchQ))
	str("traceql.attr.eq.and", formsLogQL, tpl(`{.a=§} && {.c="d"}`, tempoSearchQ))
	str("traceql.attr.eq.or", formsLogQL, tpl(`{.a="b"} || {.c=§} | avg(duration) > 1ms`, tempoSearchQ))
	str("traceql.tags-v2.q", formsLogQL, func(h string) *request {
		return get("/api/v2/search/tags", "q", `{.a=`+h+`}`, "start", sec(tFrom), "end", sec(tTo))
	})
	str("traceql.values-v2.q", formsLogQL, func(h string) *request {
		return get("/api/v2/search/tag/span.http.method/values", "q", `{.a=`+h+` && name="x"}`, "start", sec(tFrom), "end", sec(tTo))
	})
	p = str("tempo.values-v2.tag", formsPathSeg, func(h string) *request {
		return get("/api/v2/search/tag/"+h+"/values", "q", `{.a="b"}`, "start", sec(tFrom), "end", sec(tTo))
	})
	p.expect = func(eff string) expectation {
		// the scope prefix is not part of the key
		for _, pre := range []string{"span.", "resource.", "."} {
			if strings.HasPrefix(eff, pre) {
				return expectation{class: "scoped", free: true}
			}
		}
		return expIdentity(eff)
	}
	p = str("tempo.values-v2.tag.noquery", formsPathSeg, func(h string) *request {
		return get("/api/v2/search/tag/"+h+"/values", "start", sec(tFrom), "end", sec(tTo))
	})
	p.silent = true
	str("tempo.values-v2.tag.notime", formsPathSeg, func(h string) *request { return get("/api/v2/search/tag/" + h + "/values") }).expect = expTagNameV1
	str("tempo.values.tag", formsPathSeg, func(h string) *request { return get("/api/search/tag/" + h + "/values") }).expect = expTagNameV1
	str("tempo.values.tag.alias", formsPathSeg, func(h string) *request { return get("/tempo/api/search/tag/" + h + "/values") }).expect = expTagNameV1
	p = ident("traceql.ident.attr", `{.§="x"}`, tempoSearchQ, reTraceQLIdent)
	p = ident("traceql.ident.attr.span", `{span.§=~"x.*"}`, tempoSearchQ, reTraceQLIdent)
	p = ident("traceql.ident.attr.num", `{resource.§ > 5}`, tempoSearchQ, reTraceQLIdent)
	p = ident("traceql.ident.agg", `{.a="b"} | max(.§) >= 3`, tempoSearchQ, reTraceQLIdent)
	p = str("tempo.trace.id", formsPathSeg, func(h string) *request { return get("/api/traces/" + h) })
	p.restricted = true
	p.expect = func(eff string) expectation {
		if reHex32.MatchString(eff) {
			return expectation{class: "hex", slots: []func([]byte) bool{eq(eff)}, want: []string{"the id"}}
		}
		return expectation{class: "free", free: true}
	}
	p.benign = func(class string) string { return "0123456789abcdef0123456789abcdef" }
	p = str("tempo.trace.id.window", formsPathSeg, func(h string) *request {
		return get("/tempo/api/traces/"+h, "start", sec(tFrom), "end", sec(tTo))
	})
	p.restricted, p.expect, p.benign = true, ps[len(ps)-2].expect, ps[len(ps)-2].benign

	// Tempo tag search: tags=<name><op><value> pairs
	for _, op := range []struct{ n, op string }{{"eq", "="}, {"ne", "!="}, {"re", "=~"}, {"nre", "!~"}} {
		str("tempo.tags.value."+op.n, formsTag, tpl(`service.name`+op.op+`§ http.method=GET`, tempoSearchTags))
	}
	str("tempo.tags.value.second", formsTag, tpl(`a=b http.url=§`, tempoSearchTags))
	str("tempo.tags.name", formsTag, tpl(`§="x" http.method=GET`, tempoSearchTags))
	str("tempo.tags.name.re", formsTag, tpl(`a=b §=~x.*`, tempoSearchTags))
	p = str("tempo.tags.whole", formsRaw, tpl(`§`, tempoSearchTags))
	p.expect, p.benign = expFree, func(string) string { return "a=" + marker }

	// ---------------- Pyroscope ----------------
	sel := func(h string) string { return `{service_name="x", a!="b", ` + h + `}` }
	profBody := func(method string, mk func(h string) string) func(string) *request {
		return func(h string) *request { return profPost(method, mk(h)) }
	}
	for _, op := range []struct{ n, op string }{{"eq", "="}, {"ne", "!="}, {"re", "=~"}, {"nre", "!~"}} {
		op := op
		p := str("prof.selector."+op.n, formsGo, profBody("SelectMergeStacktraces", func(h string) string {
			return `{"profile_typeID":` + jsonStr(profType) + `,"label_selector":` + jsonStr(sel(`c`+op.op+h)) + `,` + profRange() + `}`
		}))
		if op.n == "re" || op.n == "nre" {
			p.expect = expAnchoredRegex
		}
	}
	for _, special := range []string{"service_name", "__name__", "__period_type__", "__period_unit__", "__sample_type__", "__sample_unit__", "__profile_type__"} {
		special := special
		str("prof.selector.special."+special, formsGo, profBody("SelectMergeProfile", func(h string) string {
			return `{"profile_typeID":` + jsonStr(profType) + `,"label_selector":` + jsonStr(`{a="b", `+special+`=~`+h+`}`) + `,` + profRange() + `}`
		})).expect = expAnchoredRegex
	}
	str("prof.selector.series", formsGo, profBody("SelectSeries", func(h string) string {
		return `{"profile_typeID":` + jsonStr(profType) + `,"label_selector":` + jsonStr(sel(`c=`+h)) + `,` + profRange() + `,"group_by":["a"],"step":15}`
	}))
	str("prof.selector.labelnames", formsGo, profBody("LabelNames", func(h string) string {
		return `{"matchers":[` + jsonStr(`{a=`+h+`}`) + `],` + profRange() + `}`
	}))
	str("prof.selector.labelvalues", formsGo, profBody("LabelValues", func(h string) string {
		return `{"name":"service_name","matchers":[` + jsonStr(`{a="b"}`) + `,` + jsonStr(`{c!~`+h+`}`) + `],` + profRange() + `}`
	})).expect = expAnchoredRegex
	str("prof.selector.seriesapi", formsGo, profBody("Series", func(h string) string {
		return `{"matchers":[` + jsonStr(`{a=`+h+`}`) + `],"label_names":["a"],` + profRange() + `}`
	}))
	str("prof.selector.analyze", formsGo, profBody("AnalyzeQuery", func(h string) string {
		return `{"query":` + jsonStr(`{a=`+h+`, service_name="x"}`) + `,` + profRange() + `}`
	}))
	str("prof.selector.renderdiff", formsGo, func(h string) *request {
		return get("/pyroscope/render-diff", "leftQuery", profType+`{a=`+h+`}`, "leftFrom", ms(tFrom), "leftUntil", ms(tTo),
			"rightQuery", profType+`{a="c"}`, "rightFrom", ms(tFrom), "rightUntil", ms(tTo))
	})
	str("prof.labelvalues.name", formsJSON, profBody("LabelValues", func(h string) string {
		return `{"name":` + h + `,"matchers":[` + jsonStr(`{a="b"}`) + `],` + profRange() + `}`
	}))
	str("prof.labelvalues.name.nomatchers", formsJSON, profBody("LabelValues", func(h string) string {
		return `{"name":` + h + `,` + profRange() + `}`
	}))
	str("prof.series.label_names", formsJSON, profBody("Series", func(h string) string {
		return `{"matchers":[` + jsonStr(`{a="b"}`) + `],"label_names":["a",` + h + `],` + profRange() + `}`
	}))
	str("prof.selectseries.group_by", formsJSON, profBody("SelectSeries", func(h string) string {
		return `{"profile_typeID":` + jsonStr(profType) + `,"label_selector":` + jsonStr(`{a="b"}`) + `,` + profRange() + `,"group_by":[` + h + `,"z"],"step":15}`
	}))
	// profile type id: <name>:<sample type>:<sample unit>:<period type>:<period unit>; a ":" in
	// the string moves the field borders (the user's own request changes): free.
	typePart := func(i int) func(string) (string, bool) {
		return func(s string) (string, bool) {
			parts := strings.Split(profType, ":")
			parts[i] = s
			return strings.Join(parts, ":"), true
		}
	}
	for i, part := range []string{"name", "sample_type", "sample_unit", "period_type", "period_unit"} {
		i := i
		p = str("prof.type_id."+part, formsJSON, profBody([]string{"SelectMergeStacktraces", "SelectSeries", "SelectMergeProfile", "SelectMergeStacktraces", "SelectSeries"}[i], func(h string) string {
			return `{"profile_typeID":` + h + `,"label_selector":` + jsonStr(`{a="b"}`) + `,` + profRange() + `,"step":15}`
		}))
		p.pre = typePart(i)
		p.expect = func(eff string) expectation {
			if strings.Contains(eff, ":") && i != 4 {
				return expectation{class: "colon", free: true}
			}
			e := expIn([2]string{"", ""}, [2]string{"", ":nanoseconds"}, [2]string{"cpu:", ""})(eff)
			if eff == "" {
				e.free = true
			}
			return e
		}
	}
	// SelectSeries with the other aggregation (AVERAGE divides by a count looked up by sample type and unit)
	const avg = `,"aggregation":1`
	str("prof.selector.series.avg", formsGo, profBody("SelectSeries", func(h string) string {
		return `{"profile_typeID":` + jsonStr(profType) + `,"label_selector":` + jsonStr(sel(`c=`+h)) + `,` + profRange() + `,"group_by":["a"],"step":15` + avg + `}`
	}))
	str("prof.selectseries.group_by.avg", formsJSON, profBody("SelectSeries", func(h string) string {
		return `{"profile_typeID":` + jsonStr(profType) + `,"label_selector":` + jsonStr(`{a="b"}`) + `,` + profRange() + `,"group_by":[` + h + `,"z"],"step":15` + avg + `}`
	}))
	for i, part := range []string{"name", "sample_type", "sample_unit", "period_type", "period_unit"} {
		i := i
		p = str("prof.type_id."+part+".avg", formsJSON, profBody("SelectSeries", func(h string) string {
			return `{"profile_typeID":` + h + `,"label_selector":` + jsonStr(`{a="b"}`) + `,` + profRange() + `,"step":15` + avg + `}`
		}))
		p.pre = typePart(i)
		p.expect = func(eff string) expectation {
			if strings.Contains(eff, ":") && i != 4 {
				return expectation{class: "colon", free: true}
			}
			e := expIn([2]string{"", ""}, [2]string{"", ":nanoseconds"}, [2]string{"cpu:", ""})(eff)
			if eff == "" {
				e.free = true
			}
			return e
		}
	}
	p = str("prof.selector.whole", formsJSON, profBody("SelectMergeStacktraces", func(h string) string {
		return `{"profile_typeID":` + jsonStr(profType) + `,"label_selector":` + h + `,` + profRange() + `}`
	}))
	p.expect, p.benign = expFree, func(string) string { return `{a="` + marker + `"}` }
	return ps
}
