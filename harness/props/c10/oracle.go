package c10

import (
	"fmt"
	"strings"

	"verif/harness/engines/lex"
)

const (
	ruleUnterminated = "unterminated"
	ruleOutside      = "bytes-outside-literal"
	ruleStructure    = "token-structure-differs"
	ruleDecode       = "literal-decodes-wrong"
)

type verdict struct {
	rule    string // "" = no violation
	detail  string
	stmt    int  // index of the offending statement
	reached bool // at least one literal carried the hostile string (decoded to what was intended)
	carried int  // number of literals that carried it
}

type lexed struct {
	sql  string
	toks []lex.Token
}

func lexAll(stmts []string) []lexed {
	out := make([]lexed, len(stmts))
	for i, s := range stmts {
		out[i] = lexed{s, lex.Lex(s)}
	}
	return out
}

func clip(s string, n int) string {
	if len(s) > n {
		return s[:n/2] + "…" + s[len(s)-n/2:]
	}
	return s
}

// fragments of the user's string that must not show up outside literals: the whole string if it
// is short, else windows of 4 bytes that contain a character with a meaning in SQL.
func fragments(s string) []string {
	special := func(c byte) bool {
		return strings.IndexByte("'\"`\\-/*#;$(){}%_=", c) >= 0 || c < 0x20 || c >= 0x80
	}
	anySpecial := false
	for i := 0; i < len(s); i++ {
		if special(s[i]) {
			anySpecial = true
		}
	}
	if !anySpecial {
		if len(s) >= 6 {
			return []string{s}
		}
		return nil
	}
	if len(s) <= 4 {
		if len(s) >= 2 {
			return []string{s}
		}
		return nil
	}
	var out []string
	for i := 0; i+4 <= len(s) && len(out) < 64; i++ {
		w := s[i : i+4]
		if special(w[0]) || special(w[1]) || special(w[2]) || special(w[3]) {
			out = append(out, w)
		}
	}
	return out
}

// outside looks for the user's bytes in tokens of h that are not string literals and that the
// benign statement does not have.
func outside(b, h []lex.Token, eff string) string {
	have := map[string]bool{}
	for _, t := range b {
		have[t.Text] = true
	}
	fr := fragments(eff)
	for _, t := range h {
		if t.Kind == lex.String || have[t.Text] {
			continue
		}
		for _, f := range fr {
			if strings.Contains(t.Text, f) {
				return fmt.Sprintf("the %s token %q carries the user's bytes %q", t.Kind, clip(t.Text, 120), f)
			}
		}
	}
	return ""
}

// compareSlot: b is the statement list for a harmless number in the slot, h the one for the hostile string. Every
// statement must lex to completion and have the tokens of b, with one string or number token where b has the number.
func compareSlot(b, h []lexed, num string) verdict {
	for i, st := range h {
		for _, t := range st.toks {
			if t.Kind.Unterminated() {
				return verdict{rule: ruleUnterminated, stmt: i, detail: fmt.Sprintf("statement %d does not lex to completion: %s token starting at byte %d: %q", i, t.Kind, t.Pos, clip(t.Text, 160))}
			}
		}
	}
	if len(b) != len(h) {
		return verdict{rule: ruleStructure, stmt: min(len(h), len(b)), detail: fmt.Sprintf("%d statements for the hostile string, %d for a harmless number in its place", len(h), len(b))}
	}
	for i := range b {
		bt, ht := b[i].toks, h[i].toks
		if len(bt) != len(ht) {
			return verdict{rule: ruleStructure, stmt: i, detail: fmt.Sprintf("statement %d has %d tokens for the hostile string, %d for a harmless number in its place", i, len(ht), len(bt))}
		}
		for k := range bt {
			if bt[k].Text == num && bt[k].Kind != lex.String {
				if ht[k].Kind != lex.String && ht[k].Kind != bt[k].Kind {
					return verdict{rule: ruleStructure, stmt: i, detail: fmt.Sprintf("statement %d token %d is %s %q where a harmless number gives %s %q", i, k, ht[k].Kind, clip(ht[k].Text, 80), bt[k].Kind, bt[k].Text)}
				}
				continue
			}
			if bt[k].Kind != ht[k].Kind || bt[k].Text != ht[k].Text {
				return verdict{rule: ruleStructure, stmt: i, detail: fmt.Sprintf("statement %d token %d is %s %q for the hostile string, %s %q for a harmless number in its place", i, k, ht[k].Kind, clip(ht[k].Text, 80), bt[k].Kind, clip(bt[k].Text, 80))}
			}
		}
	}
	return verdict{reached: true}
}

func decodeBoth(tok string) (a1, server []byte, err error) {
	a1, err = lex.DecodeString(tok)
	if err != nil {
		return
	}
	server, err = lex.DecodeStringServer(tok)
	return
}

// compare applies the C10 oracle to the statements of the benign request (b, expectation eb)
// and of the hostile request (h, expectation eh, effective user string eff).
// partial: the hostile request was answered with an error after it had sent some statements; a
// shorter statement list is then compared as a prefix.
func compare(b, h []lexed, eb, eh expectation, eff string, partial bool) verdict {
	// rule 1: every statement lexes to completion
	for i, st := range h {
		for _, t := range st.toks {
			if t.Kind.Unterminated() {
				return verdict{rule: ruleUnterminated, stmt: i, detail: fmt.Sprintf("statement %d does not lex to completion: %s token starting at byte %d: %q", i, t.Kind, t.Pos, clip(t.Text, 160))}
			}
		}
	}
	if eh.free {
		// shape may depend on the string; every literal must still be a well-formed literal
		for i, st := range h {
			for _, t := range st.toks {
				if t.Kind == lex.String {
					if _, _, err := decodeBoth(t.Text); err != nil {
						return verdict{rule: ruleDecode, stmt: i, detail: fmt.Sprintf("statement %d: literal %q: %v", i, clip(t.Text, 160), err)}
					}
				}
			}
		}
		return verdict{reached: len(h) > 0}
	}
	n := len(h)
	if len(h) != len(b) {
		if !(partial && len(h) < len(b)) {
			v := verdict{rule: ruleStructure, stmt: min(len(h), len(b)), detail: fmt.Sprintf("%d statements for the hostile string, %d for the harmless one", len(h), len(b))}
			return v
		}
	}
	v := verdict{}
	for i := 0; i < n; i++ {
		bt, ht := b[i].toks, h[i].toks
		diff := ""
		if len(bt) != len(ht) {
			diff = fmt.Sprintf("statement %d has %d tokens for the hostile string, %d for the harmless one", i, len(ht), len(bt))
		} else {
			for k := range bt {
				if bt[k].Kind != ht[k].Kind {
					diff = fmt.Sprintf("statement %d token %d is %s %q for the hostile string, %s %q for the harmless one", i, k, ht[k].Kind, clip(ht[k].Text, 80), bt[k].Kind, clip(bt[k].Text, 80))
					break
				}
				if bt[k].Kind != lex.String && bt[k].Text != ht[k].Text {
					diff = fmt.Sprintf("statement %d token %d (%s) is %q for the hostile string, %q for the harmless one", i, k, ht[k].Kind, clip(ht[k].Text, 80), clip(bt[k].Text, 80))
					break
				}
			}
		}
		if diff != "" {
			if o := outside(bt, ht, eff); o != "" {
				return verdict{rule: ruleOutside, stmt: i, detail: diff + "; " + o}
			}
			return verdict{rule: ruleStructure, stmt: i, detail: diff}
		}
		for k := range bt {
			if bt[k].Kind != lex.String || bt[k].Text == ht[k].Text {
				continue
			}
			ba, bs, err := decodeBoth(bt[k].Text)
			if err != nil {
				return verdict{rule: ruleDecode, stmt: i, detail: fmt.Sprintf("statement %d: the harmless literal %q does not decode: %v", i, clip(bt[k].Text, 120), err)}
			}
			ha, hs, err := decodeBoth(ht[k].Text)
			if err != nil {
				return verdict{rule: ruleDecode, stmt: i, detail: fmt.Sprintf("statement %d token %d: literal %q does not decode: %v", i, k, clip(ht[k].Text, 160), err)}
			}
			ok := false
			for si := range eh.slots {
				if si < len(eb.slots) && eb.slots[si](ba) && eb.slots[si](bs) && eh.slots[si](ha) && eh.slots[si](hs) {
					ok = true
					break
				}
			}
			if !ok {
				return verdict{rule: ruleDecode, stmt: i, detail: fmt.Sprintf("statement %d token %d: literal %q decodes to %q (harmless counterpart %q), intended: %s of %q",
					i, k, clip(ht[k].Text, 160), clip(string(ha), 160), clip(bt[k].Text, 60), strings.Join(eh.want, " | "), clip(eff, 160))}
			}
			v.carried++
		}
	}
	v.reached = v.carried > 0
	return v
}
