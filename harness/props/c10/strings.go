package c10

import (
	"math/rand"
	"regexp"
	"strings"
	"unicode/utf8"
)

// marker is the harmless string every hostile string is compared with.
const marker = "zqmarkerqz"

// coreStrings: every position sees all of these in every tier (the quick tier has room for
// little more). They contain the witnesses of every escaping mistake the design lists.
var coreStrings = []string{
	`'`, `x'`, `'x`, `a'b`, `\`, `x\`, `\\`, `\'`, `x\'`, `\\'`, `\\\'`, `''`,
	`') OR 1=1 --`, `\') OR 1=1 --`, `'; DROP TABLE samples_v3; --`,
	`a\%`, `100%`, `a_b`, `%'`, `\_`,
	"\x00", "a\x00'", "\n", "'\n--", `--`, `/*`, `*/`, `#`, `;`, `$$`, `$1`, `x$1 OR 1 OR $2`, `a?b`,
	"\xff", "\xff'", "é'日本", `"`, "`", `"'` + "`",
	`{}`, `}}`, `sleep(3)`, `(SELECT 1)`, "ʼ＇’", ``,
	// strings that are re-serialised into another query language on their way (Prometheus match[] -> LogQL text)
	"\\`", "a`,env=`prod", "a`, b=`c",
	// a choice between plain texts (regex positions may answer it without the regex engine)
	`a|'`, `error|can't|fatal`, `x|',string,'`,
	// accepted by identifier slots, still meaningful to SQL
	`select`, `OR`, `a--b`, `x.y-z`, `sleep`, `x__1`,
	// a UTF-8 lead byte directly before a quote or a backslash (an escaper that copies "multi-byte characters" by the
	// length their first byte announces skips what follows)
	"\xe2' OR 1=1 --", "\xf0\x9f'", "\xc3\\", "\xe2\x80'",
	// a number, then more (slots that take numbers)
	`1 OR 1=1`, `500) OR (1=1`, `27`, `1e3; --`,
}

// extraStrings: the rest of the fixed corpus (thorough tier sees all of it at every position,
// the quick tier a PRNG-chosen part).
var extraStrings = []string{
	`'''`, `''''`, `\\\\'`, `\\\\\'`, `\\\\\\`, `x\\`, `x\\\`, `\'x`, `\"`, "\\`", `\/`, `\e`, `\N`, `\x27`, `'`, `\047`, `%27`, `&#39;`, `\0`, `\n`, `\x`, `\x2`, `\xzz`,
	`' OR '1'='1`, `x' OR 'x'='x' --`, `' UNION SELECT 1 --`, `' UNION ALL SELECT name FROM system.tables --`, `'))) OR 1=1 --`, `') == (1)) OR ((1) == (1`, `'); SELECT sleep(3); --`,
	`x' /*`, `x' --`, `x' #`, `*/ x`, `/* x */`, `/*/`, `-- x`, `# x`, `;;`, `a;b`, `a -- b`, `a/**/b`,
	`$$x$$`, `$a$`, `$a$'$a$`, `$`, `x$$'`, `$$'$$`,
	// placeholders of client-side argument binding (numeric, positional, named)
	`$1`, `$2`, `x$1 OR 1 OR $2`, `$1'`, `?`, `a?b`, `@a`, `@p1`,
	`%`, `_`, `%_`, `%%`, `\%`, `\\%`, `\\\%`, `a%b'`, `_'`, `\%'`, `%\`, `_\`, `a\_b\%c`, `\\_`,
	"a\x00b", "\x00\x00", "\x00'", "\\\x00", "a\nb", "\r\n", "\r", "\t", "\b", "\x1a", "\x1a'", "\x7f", "\x1b", "\x0b", "\x0c", "\\\n", "'\r\n'",
	"\xc3", "\xe2\x80", "\xc0\xa7", "\xc0\xa7 OR 1=1", "\xfe\xff", "\xf0\x9f", "a\xffb'", "\xbf\x27", "\xbf\\\x27", "\xa1\x5c\x27",
	"é", "日本語", "😀", "😀'", "é\\", "\u200b'", " ", "\ufeff", "ÿ", " '",
	"ʼ", "‘", "’", "＇", "″", "′", "ˈ", "՚", "｀", "＼", "＼'",
	`{`, `}`, `{{`, `{0}`, `{x}`, `{{.a}}`, `{{`, `{{"'"}}`, `{0}'{1}`, `}}'{{`,
	`now()`, `(select sleep(3))`, `sleep(3)--`, `1)) OR ((1`, `x) OR (1=1`, `cityHash64('x')`, `url('http://x/', CSV, 'a String')`, `system.tables`, `a.b[0]`, `a["b"]`, `[0]`,
	`x" OR "1"="1`, `" --`, "x` OR `a", "``", "`--", `\"'`, `'"'`, `"\'`,
	`\\'--`, `\\\\'--`, `\'\'`, `'\'`, `\''`, `'\\`, `'\\'`, `''\`, `a''b`, `a\'\'b`,
	` `, `  x  `, `x y`, ` '`, `' `, `=`, `!=`, `=~`, `~`, `!`, `,`, `|`, `||`, `&&`, `(`, `)`, `[`, `]`, `<`, `>`, `.`, `..`, `../x`, `a/b`, `a/b'`, `?`, `&x=1`, `+`, `a+b`, `%2F`,
	`.*`, `.+`, `a.*'`, `(?i)abc`, `(?i)a'b`, `(?i)a%b`, `[']`, `a|'`, `^'$`, `\d+'`, `(?P<x>a)'`, `(a)(b)`, `(`, `a\.b`, `a\.b'`, `\Qa'b\E`, `x{2}`, `(?s).`, `\`,
	`deadbeefdeadbeefdeadbeefdeadbeef`, `DEADBEEF00000000deadbeef00000000`, `0123456789abcdef0123456789abcdef0123456789abcdef0123456789abcdef`, `0123456789abcdef`,
	`true`, `null`, `NULL`, `0`, `1e9`, `-1`, `0x27`, `1'`, `1 OR 1=1`, `__name__`, `zqmarkerqz'`,
}

func repeat(s string, n int) string { return strings.Repeat(s, n) }

// longStrings: 64 KiB class.
var longStrings = []string{
	repeat("a", 65536),
	repeat("a", 65535) + `'`,
	repeat(`'`, 65536),
	repeat(`\'`, 32768),
	repeat(`\`, 65535) + `'`,
	`'` + repeat("b", 65535),
	repeat("é'", 21846),
	repeat("%_\\", 21846),
}

// atoms are glued together by the generator.
var atoms = []string{
	`'`, `'`, `'`, `\`, `\`, `\\`, `\'`, `''`, `"`, "`", `%`, `_`, `\%`, `\_`,
	"\x00", "\n", "\r", "\t", "\b", "\x1a", "\x7f",
	`--`, `/*`, `*/`, `#`, `;`, `$$`, `{`, `}`, `{{`, `}}`, `(`, `)`, `,`, ` `, `=`, `.`, `|`, `~`, `!`,
	"\xff", "\xc3", "\xe2\x80", "\xc0\xa7", "é", "日", "😀", "ʼ", "＇",
	`a`, `x`, `zq`, `0`, `1`, ` OR `, `1=1`, `sleep(3)`, `SELECT`, `\x27`, `'`, `\e`, `\N`, `\"`, `(?i)`, `.*`, `\.`,
}

// genString draws a generated hostile string.
func genString(r *rand.Rand) string {
	n := 1 + r.Intn(8)
	if r.Intn(6) == 0 {
		n += r.Intn(24)
	}
	var sb strings.Builder
	for i := 0; i < n; i++ {
		switch r.Intn(12) {
		case 0:
			sb.WriteByte(byte(r.Intn(256)))
		case 1:
			// a run of backslashes before a quote, odd or even
			sb.WriteString(strings.Repeat(`\`, 1+r.Intn(6)))
			sb.WriteByte('\'')
		default:
			sb.WriteString(atoms[r.Intn(len(atoms))])
		}
	}
	s := sb.String()
	switch r.Intn(10) {
	case 0:
		s += `'`
	case 1:
		s += `\`
	case 2:
		s = `'` + s
	}
	return s
}

var identWords = []string{"select", "SELECT", "union", "or", "OR", "and", "sleep", "drop", "table", "from", "where", "x", "a", "zq", "_", "__", "0", "1", "27", "x27", "name", "duration", "span", "resource"}

// genIdent draws a string made of identifier characters only (plus the `.`, `-` and `:` some
// identifier lexers admit), or a hexadecimal id.
func genIdent(r *rand.Rand) string {
	if r.Intn(5) == 0 {
		const hexd = "0123456789abcdefABCDEF"
		n := []int{32, 32, 32, 16, 64, 31, 33}[r.Intn(7)]
		b := make([]byte, n)
		for i := range b {
			b[i] = hexd[r.Intn(len(hexd))]
		}
		return string(b)
	}
	var sb strings.Builder
	n := 1 + r.Intn(4)
	for i := 0; i < n; i++ {
		if i > 0 {
			sb.WriteString([]string{"_", "_", "", ".", "-", "--", ":", "__"}[r.Intn(8)])
		}
		sb.WriteString(identWords[r.Intn(len(identWords))])
	}
	return sb.String()
}

var unicodeQuotes = []string{"ʼ", "‘", "’", "＇", "″", "′", "ˈ", "՚", "｀", "＼"}
var funcRe = regexp.MustCompile(`(?i)[a-z_][a-z0-9_]*\(|\bselect\b|\bunion\b|\bor\b`)

// classOf names the hostile class of a string (first matching feature in a fixed order); it is
// part of the distinct-case key.
func classOf(s string) string {
	has := func(sub string) bool { return strings.Contains(s, sub) }
	switch {
	case s == "":
		return "empty"
	case len(s) >= 60000:
		return "64KiB"
	case has("\x00"):
		return "nul"
	case !utf8.ValidString(s):
		return "invalid-utf8"
	case has("\n") || has("\r"):
		return "newline"
	case has(`'`) && has(`\`):
		return "quote+backslash"
	case has(`'`) && (has("--") || has("/*") || has("#") || has(";")):
		return "quote+comment"
	case has(`'`):
		return "quote"
	case has(`\`) && (has("%") || has("_")):
		return "backslash+wildcard"
	case has(`\`):
		return "backslash"
	case has("`"):
		return "backtick"
	case has(`"`):
		return "dquote"
	case has("--") || has("/*") || has("*/") || has("#"):
		return "comment"
	case has(";"):
		return "semicolon"
	case has("$"):
		return "dollar"
	case has("%") || has("_"):
		return "like-wildcard"
	case has("{") || has("}"):
		return "brace"
	case func() bool {
		for _, q := range unicodeQuotes {
			if has(q) {
				return true
			}
		}
		return false
	}():
		return "unicode-quote"
	case func() bool {
		for i := 0; i < len(s); i++ {
			if s[i] < 0x20 || s[i] == 0x7f {
				return true
			}
		}
		return false
	}():
		return "control"
	case func() bool {
		for i := 0; i < len(s); i++ {
			if s[i] >= 0x80 {
				return true
			}
		}
		return false
	}():
		return "multibyte"
	case funcRe.MatchString(s):
		return "sql-fragment"
	}
	return "other"
}

// features names what a (minimised) witness is made of; it is the third component of a
// violation signature, so that different escaping mistakes at one position get different
// signatures.
func features(s string) string {
	var fs []string
	add := func(ok bool, name string) {
		if ok {
			fs = append(fs, name)
		}
	}
	has := func(sub string) bool { return strings.Contains(s, sub) }
	add(s == "", "empty")
	add(has(`'`), "quote")
	add(has(`\`), "backslash")
	add(has(`"`), "dquote")
	add(has("`"), "backtick")
	add(has("%") || has("_"), "wildcard")
	add(has("{") || has("}"), "brace")
	add(has("\x00"), "nul")
	add(has("\n") || has("\r"), "newline")
	add(!utf8.ValidString(s), "invalid-utf8")
	ctrl := false
	for i := 0; i < len(s); i++ {
		if (s[i] < 0x20 && s[i] != 0 && s[i] != '\n' && s[i] != '\r') || s[i] == 0x7f {
			ctrl = true
		}
	}
	add(ctrl, "control")
	add(has("--") || has("/*") || has("*/") || has("#"), "comment")
	add(has(";"), "semicolon")
	add(has("$"), "dollar")
	if len(fs) == 0 {
		return "plain"
	}
	return strings.Join(fs, "+")
}

func hasQuote(s string) bool     { return strings.Contains(s, `'`) }
func hasBackslash(s string) bool { return strings.Contains(s, `\`) }
