package c10

import (
	"fmt"
	"os"
	"strings"
	"testing"

	"verif/harness/engines/run"
)

// TestExplore is a development aid: C10_EXPLORE=1 go test -run Explore -v ./props/c10/
// prints, per position, what the harmless request produces and how a few hostile strings fare.
func TestExplore(t *testing.T) {
	if os.Getenv("C10_EXPLORE") == "" {
		t.Skip("development aid")
	}
	run.VerifDir = t.TempDir()
	c := run.Open("C10", "exploration")
	e := &env{c: c, rig: newRig(), benign: map[benignKey]*benignVal{}, minis: map[string]int{}, known: map[string][]knownSig{}}
	only := os.Getenv("C10_POS")
	dump := os.Getenv("C10_DUMP") != ""
	hostile := []string{`x'`, `a\b`, `a\%`, "\xff'", `"`, "`", ""}
	if h := os.Getenv("C10_STR"); h != "" {
		hostile = strings.Split(h, "|")
	}
	for _, p := range positions() {
		if only != "" && !strings.Contains(p.name, only) {
			continue
		}
		for _, v := range []variant{{}, {Cluster: true, Metrics15s: true, TempoV2: true, Complex: true}} {
			f := p.forms[0]
			exp := p.expect(marker)
			b, why := e.benignFor(p, f, exp.class, exp.free, v, false)
			if b == nil {
				fmt.Printf("%-45s %s BENIGN-FAIL %s\n", p.name, v, why)
				continue
			}
			n := 0
			for _, s := range b.out.Stmts {
				n += strings.Count(s, marker)
			}
			fmt.Printf("%-45s %s status=%d stmts=%d marker-occurrences=%d hole=%s %s\n", p.name, v, b.out.Status, len(b.out.Stmts), n, b.text, clip(b.out.Err, 100))
			if len(b.out.Stmts) == 0 {
				fmt.Printf("    body: %s\n", clip(b.out.Body, 300))
			}
			if dump {
				for _, s := range b.out.Stmts {
					fmt.Printf("    SQL: %s\n", clip(s, 3000))
				}
			}
			for _, h := range hostile {
				for _, f := range p.forms {
					a, ok := e.attempt(p, f, h, v)
					if !ok {
						continue
					}
					if a.rejected {
						fmt.Printf("    %-12q %-8s rejected status=%d %s\n", h, f.name, a.out.Status, clip(a.out.Body+a.out.Err, 120))
						continue
					}
					ver, why := e.judge(p, a, v, false)
					fmt.Printf("    %-12q %-8s accepted status=%d class=%s stmts=%d carried=%d rule=%q %s %s\n", h, f.name, a.out.Status, a.exp.class, len(a.out.Stmts), ver.carried, ver.rule, why, clip(ver.detail, 300))
					if dump {
						for _, s := range a.out.Stmts {
							fmt.Printf("        SQL: %s\n", clip(s, 3000))
						}
					}
				}
			}
		}
	}
}
