package c10

import (
	"fmt"
	"net/url"
	"strconv"
	"strings"
	"unicode/utf8"
)

// A form renders the user's bytes into the text of one query language with that language's own
// quoting, so that the front-end PARSER yields the bytes again. eff is what the language
// defines the parser to yield (JSON-style strings cannot carry invalid UTF-8: every offending
// byte becomes U+FFFD - that, not the raw byte, is then "the user's string"); ok=false means
// the string cannot be written in this form.
type form struct {
	name   string
	render func(s string) (text string, eff string, ok bool)
}

// jsonValid is the value a JSON string decoder yields for raw bytes s placed in a JSON string.
func jsonValid(s string) string {
	if utf8.ValidString(s) {
		return s
	}
	var sb strings.Builder
	for i := 0; i < len(s); {
		r, n := utf8.DecodeRuneInString(s[i:])
		if r == utf8.RuneError && n == 1 {
			sb.WriteString("�")
		} else {
			sb.WriteString(s[i : i+n])
		}
		i += n
	}
	return sb.String()
}

// jsonQuote writes s as a JSON string: only what JSON requires is escaped, other bytes are raw.
func jsonQuote(s string) string {
	var sb strings.Builder
	sb.WriteByte('"')
	for i := 0; i < len(s); i++ {
		c := s[i]
		switch {
		case c == '"':
			sb.WriteString(`\"`)
		case c == '\\':
			sb.WriteString(`\\`)
		case c == '\n':
			sb.WriteString(`\n`)
		case c == '\t':
			sb.WriteString(`\t`)
		case c < 0x20:
			fmt.Fprintf(&sb, `\u%04x`, c)
		default:
			sb.WriteByte(c)
		}
	}
	sb.WriteByte('"')
	return sb.String()
}

// jsonQuoteU writes every character that is not an ASCII letter or digit as \uXXXX
// (surrogate pairs above the BMP): a second spelling of the same string.
func jsonQuoteU(s string) (string, bool) {
	if !utf8.ValidString(s) {
		return "", false
	}
	var sb strings.Builder
	sb.WriteByte('"')
	for _, r := range s {
		switch {
		case (r >= 'a' && r <= 'z') || (r >= 'A' && r <= 'Z') || (r >= '0' && r <= '9'):
			sb.WriteRune(r)
		case r >= 0x10000:
			r -= 0x10000
			fmt.Fprintf(&sb, `\u%04x\u%04x`, 0xd800+(r>>10), 0xdc00+(r&0x3ff))
		default:
			fmt.Fprintf(&sb, `\u%04x`, r)
		}
	}
	sb.WriteByte('"')
	return sb.String(), true
}

// LogQL / TraceQL strings: "…" with JSON escapes, or `…` raw where \` is a back-tick.
var formJSONDQ = form{"dq", func(s string) (string, string, bool) { return jsonQuote(s), jsonValid(s), true }}
var formJSONDQU = form{"dq-u", func(s string) (string, string, bool) {
	t, ok := jsonQuoteU(s)
	return t, s, ok
}}

// back-tick form of the LogQL/TraceQL lexers: `([^`\\]|\\.)*` ; the parser turns \` into `
// and keeps every other byte. A run of backslashes before a back-tick or before the end must be
// even, or the token would end elsewhere; control characters are not expressible (the parser
// passes the body through a JSON decoder that refuses them).
var formTick = form{"bt", func(s string) (string, string, bool) {
	for i := 0; i < len(s); i++ {
		if s[i] < 0x20 {
			return "", "", false
		}
	}
	run := 0
	var sb strings.Builder
	sb.WriteByte('`')
	for i := 0; i < len(s); i++ {
		c := s[i]
		if c == '`' {
			if run%2 != 0 {
				return "", "", false
			}
			sb.WriteString("\\`")
			run = 0
			continue
		}
		if c == '\\' {
			run++
		} else {
			run = 0
		}
		sb.WriteByte(c)
	}
	if run%2 != 0 {
		return "", "", false
	}
	sb.WriteByte('`')
	return sb.String(), jsonValid(s), true
}}

// Go-style double-quoted string (strconv.Unquote is the parser: Tempo tags, Pyroscope
// selectors, PromQL): carries any byte string exactly.
var formGoDQ = form{"go-dq", func(s string) (string, string, bool) { return strconv.Quote(s), s, true }}

// Go-style with \xHH for every byte that is not an ASCII letter or digit.
var formGoDQX = form{"go-dq-x", func(s string) (string, string, bool) {
	var sb strings.Builder
	sb.WriteByte('"')
	for i := 0; i < len(s); i++ {
		c := s[i]
		if (c >= 'a' && c <= 'z') || (c >= 'A' && c <= 'Z') || (c >= '0' && c <= '9') {
			sb.WriteByte(c)
		} else {
			fmt.Fprintf(&sb, `\x%02x`, c)
		}
	}
	sb.WriteByte('"')
	return sb.String(), s, true
}}

// PromQL single-quoted string.
var formPromSQ = form{"prom-sq", func(s string) (string, string, bool) {
	q := strconv.Quote(s)
	q = q[1 : len(q)-1]
	q = strings.ReplaceAll(q, `\"`, `"`)
	// escape single quotes that are not already escaped: strconv.Quote never emits \' so every
	// quote is a bare one
	q = strings.ReplaceAll(q, `'`, `\'`)
	return `'` + q + `'`, s, true
}}

// raw back-tick string without escapes (PromQL, Pyroscope selectors).
var formRawTick = form{"raw-bt", func(s string) (string, string, bool) {
	if strings.Contains(s, "`") || s == "" {
		return "", "", false
	}
	return "`" + s + "`", s, true
}}

// Tempo `tags=` bare word: [^ !=~"]+
var formTagLiteral = form{"bare", func(s string) (string, string, bool) {
	if s == "" {
		return "", "", false
	}
	for i := 0; i < len(s); i++ {
		switch s[i] {
		case ' ', '!', '=', '~', '"', '\t', '\n', '\r', '\f', '\v':
			return "", "", false
		}
	}
	return s, s, true
}}

// the string as it is (identifier positions, URL parameters that are not a query language)
var formRaw = form{"raw", func(s string) (string, string, bool) { return s, s, true }}

// a JSON document field (Pyroscope bodies)
var formJSONField = form{"json", func(s string) (string, string, bool) { return jsonQuote(s), jsonValid(s), true }}
var formJSONFieldU = form{"json-u", func(s string) (string, string, bool) {
	t, ok := jsonQuoteU(s)
	return t, s, ok
}}

// one URL path segment; gorilla/mux matches {var} against the decoded path and a variable does
// not span "/" (the router answers 404/301 before any handler runs: a front-end rejection).
var formPathSeg = form{"path", func(s string) (string, string, bool) {
	if s == "" {
		return "", "", false
	}
	return url.PathEscape(s), s, true
}}

var (
	formsLogQL   = []form{formJSONDQ, formTick, formJSONDQU}
	formsGo      = []form{formGoDQ, formRawTick, formGoDQX}
	formsProm    = []form{formGoDQ, formPromSQ, formRawTick}
	formsTag     = []form{formGoDQ, formTagLiteral, formGoDQX}
	formsRaw     = []form{formRaw}
	formsJSON    = []form{formJSONField, formJSONFieldU}
	formsPathSeg = []form{formPathSeg}
)
