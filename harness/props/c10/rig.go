package c10

import (
	"bytes"
	"context"
	"database/sql/driver"
	"fmt"
	"io"
	"net/http"
	"net/url"
	"strings"
	"sync"
	"time"

	"verif/harness/engines/sqldrv"
)

// A variant selects the database layout the planners see.
type variant struct {
	Cluster    bool `json:"cluster"`
	Metrics15s bool `json:"metrics15s"`
	TempoV2    bool `json:"tempo_v2"`
	Complex    bool `json:"complex"` // the TraceQL complexity estimate answers > 10^7 (complex processors)
}

func (v variant) String() string {
	b := func(x bool, s string) string {
		if x {
			return s
		}
		return "-"
	}
	return b(v.Cluster, "cl") + b(v.Metrics15s, "m15") + b(v.TempoV2, "tv2") + b(v.Complex, "cx")
}

func variantOf(i int) variant {
	return variant{Cluster: i&1 != 0, Metrics15s: i&2 != 0, TempoV2: i&4 != 0, Complex: i&8 != 0}
}

const nVariants = 16

type request struct {
	Method string     `json:"method"`
	Path   string     `json:"path"` // already escaped
	Query  url.Values `json:"query,omitempty"`
	Body   string     `json:"body,omitempty"`
	CType  string     `json:"ctype,omitempty"`
	// direct, if set, calls an exported planner instead of sending an HTTP request
	direct func(r *rig, v variant) ([]string, error)
}

type outcome struct {
	Status int
	Err    string
	Stmts  []string
	Body   string
}

type rig struct {
	reader   *sqldrv.Reader
	reg      *sqldrv.Registry
	sessions map[variant]*sqldrv.Session
	client   *http.Client
	mu       sync.Mutex
	complex  bool
	schema   map[string]bool // exact texts of the schema-discovery statements (no request text in them)
}

var rigSeq int
var rigMu sync.Mutex

func newRig() *rig {
	rigMu.Lock()
	defer rigMu.Unlock()
	r := &rig{sessions: map[variant]*sqldrv.Session{}, schema: map[string]bool{}}
	rigSeq++
	for i := 0; i < nVariants; i++ {
		v := variantOf(i)
		if v.Complex {
			continue // same session as the non-complex one, the handler is switched
		}
		s := sqldrv.NewSession(fmt.Sprintf("c10-%d-%s", rigSeq, v), r.handler)
		s.Tables = []string{"samples_v3", "time_series"}
		if v.Metrics15s {
			s.Tables = append(s.Tables, "metrics_15s")
		}
		s.Versions = map[string]string{"v3_1": "0"}
		if v.TempoV2 {
			s.Versions["tempo_v2"] = "0"
		}
		r.sessions[v] = s
	}
	first := r.sessions[variant{}]
	r.reg = sqldrv.NewRegistry(first, "")
	r.reader = sqldrv.StartReader(r.reg, "")
	r.client = &http.Client{Timeout: 30 * time.Second, CheckRedirect: func(*http.Request, []*http.Request) error { return http.ErrUseLastResponse }}
	return r
}

func (r *rig) session(v variant) *sqldrv.Session {
	v.Complex = false
	return r.sessions[v]
}

func (r *rig) handler(ctx context.Context, q string) (*sqldrv.Rows, error) {
	cols := []string{"a", "b", "c", "d", "e", "f", "g", "h"}
	// the TraceQL complexity estimate: fixed text up to here, no request text before it
	if strings.HasPrefix(q, "WITH pre_final as (") {
		r.mu.Lock()
		cx := r.complex
		r.mu.Unlock()
		if cx {
			return sqldrv.NewRows([]string{"_count"}, [][]driver.Value{{int64(20000000)}}), nil
		}
		return sqldrv.NewRows([]string{"_count"}, nil), nil
	}
	return sqldrv.NewRows(cols, nil), nil
}

func isSchemaStmt(q string) bool {
	t := strings.TrimSpace(q)
	if strings.HasPrefix(t, "SHOW TABLES") && !strings.ContainsAny(t, "'\"`\\") {
		return true
	}
	const a = "SELECT argMax(name, inserted_at) as _name , argMax(value, inserted_at) as _value \nFROM settings"
	if strings.HasPrefix(t, a) && (t == a+" WHERE type='update' GROUP BY fingerprint HAVING _name!=''" || t == a+"_dist WHERE type='update' GROUP BY fingerprint HAVING _name!=''") {
		return true
	}
	return false
}

// do sends one request under one variant and returns the statements it made the reader send.
func (r *rig) do(req *request, v variant) outcome {
	s := r.session(v)
	cl := ""
	if v.Cluster {
		cl = "cl"
	}
	r.reg.Use(s, cl)
	r.mu.Lock()
	r.complex = v.Complex
	r.mu.Unlock()
	if req.direct != nil {
		st, err := req.direct(r, v)
		o := outcome{Status: 200, Stmts: st}
		if err != nil {
			o.Status, o.Err = 400, err.Error()
		}
		return o
	}
	from := s.LogLen()
	u := r.reader.Server.URL + req.Path
	if len(req.Query) > 0 {
		u += "?" + req.Query.Encode()
	}
	var o outcome
	hr, err := http.NewRequest(req.Method, u, bytes.NewBufferString(req.Body))
	if err != nil {
		o.Err = "build: " + err.Error()
		return o
	}
	if req.CType != "" {
		hr.Header.Set("Content-Type", req.CType)
	}
	resp, err := r.client.Do(hr)
	if err != nil {
		o.Err = err.Error()
	} else {
		b, _ := io.ReadAll(io.LimitReader(resp.Body, 1<<16))
		io.Copy(io.Discard, resp.Body)
		resp.Body.Close()
		o.Status = resp.StatusCode
		o.Body = string(b)
	}
	// handlers write their answer after the last statement of the request was issued; the
	// statements of a request are therefore all logged when the answer has been read
	for _, st := range s.Statements(from) {
		if isSchemaStmt(st.SQL) {
			continue
		}
		o.Stmts = append(o.Stmts, st.SQL)
	}
	return o
}
