package c10

import (
	"io/fs"
	"os"
	"path/filepath"
	"regexp"
	"sort"
	"strings"
)

// dictStrings: a dictionary taken from the tree under test. Every token in the reader's own sources that
// looks like something a text substitution could key on ($__name, ${name}, {{name}}, %%name%%, __name__,
// <<name>>, @@name, #{name}) becomes a hostile string at every position: a value that happens to hold the
// program's own placeholder must stay the value. (The fuzzing-dictionary idea: the corpus cannot guess a
// private keyword, the sources spell it out.)
var dictRe = regexp.MustCompile(`\$__[A-Za-z_][A-Za-z0-9_]*|\$\{[A-Za-z_][A-Za-z0-9_]*\}|%%[A-Za-z_]+%%|\{\{ *[A-Za-z_.]+ *\}\}|__[A-Za-z][A-Za-z_]+__|<<[A-Za-z_]+>>|@@[A-Za-z_]+|#\{[A-Za-z_]+\}`)

const dictCap = 16

func repoDir() string {
	if d := os.Getenv("VERIF_REPO"); d != "" {
		return d
	}
	return "/repo"
}

var dictStrings = func() []string {
	seen := map[string]bool{}
	filepath.WalkDir(filepath.Join(repoDir(), "reader"), func(p string, d fs.DirEntry, err error) error {
		if err != nil || d.IsDir() || !strings.HasSuffix(p, ".go") || strings.HasSuffix(p, "_test.go") || strings.HasSuffix(p, ".pb.go") {
			return nil
		}
		b, err := os.ReadFile(p)
		if err != nil {
			return nil
		}
		for _, m := range dictRe.FindAllString(string(b), -1) {
			seen[m] = true
		}
		return nil
	})
	var out []string
	for s := range seen {
		out = append(out, s)
	}
	// '$' and '%' sort before letters, '{' and '_' after: the sigil forms come first when the cap cuts
	sort.Strings(out)
	if len(out) > dictCap {
		out = out[:dictCap]
	}
	return out
}()
