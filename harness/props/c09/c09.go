// Package c09: a LogQL result does not depend on which engine ran each pipeline stage.
// Three monitors: (1) split pipelines (json / logfmt / line_format force the rest into the
// in-process engine) against the direct evaluator; (2) cross-engine agreement: the same
// pipeline once entirely in SQL and once forced in-process by an identity line_format stage;
// (3) the in-process chain fed by a scripted upstream in random channel batchings.
package c09

import (
	"errors"
	"fmt"
	"math/rand"
	"os"
	"regexp"
	"sort"
	"strings"
	"time"

	"github.com/metrico/qryn/reader/logql/logql_parser"
	"github.com/metrico/qryn/reader/logql/logql_transpiler_v2"
	"github.com/metrico/qryn/reader/logql/logql_transpiler_v2/internal_planner"
	"github.com/metrico/qryn/reader/logql/logql_transpiler_v2/shared"

	"verif/harness/engines/chsql"
	"verif/harness/engines/logq"
	"verif/harness/engines/run"
	"verif/harness/props/c07"
	"verif/harness/props/c08"
	"verif/harness/props/reg"
)

func init() {
	reg.Register(&reg.Prop{ID: "C09", Level: "exploration", Main: Main, Child: Child})
}

type childCfg struct {
	Start int `json:"start"`
	N     int `json:"n"`
}

func Main(c *run.Ctx) {
	c.SetRule("pipelines with a split point (json, logfmt, line_format) followed by in-process stages (line and label filters, json with parameters, regexp, label_format, drop, line_format, unwrap, range and vector aggregation with by/without, comparison), limits 0/1/k; " +
		"databases whose lines are valid / nested / malformed / non-object JSON or logfmt, up to 250 samples per series (several channel batches); " +
		"monitors: direct evaluator, SQL-only vs forced in-process plan of the same pipeline, scripted upstream in random batchings; distinct key = monitor × query shape × limit class")
	c.Assume("malformed / non-object JSON lines under a json stage are probes (only robustness is judged there)")
	total := c.Pick(3000, 60000)
	per := c.Pick(1000, 5000)
	c07.RunChildren(c, "C09", total, per)
	c.Floor("split pipelines compared with the direct evaluator", total/6, 0)
	c.Floor("pipelines compared across engines (SQL vs in-process)", total/6, 0)
	c.Floor("in-process chains driven by a scripted upstream in random batchings", total/8, 0)
	c.Floor("metric pipelines", total/10, 0)
	c.Floor("results spanning more than one upstream channel message", 5, 0)
	c.Floor("in-process chains over malformed lines checked for series identity and batching invariance", total/200, 0)
}

func strp(s string) *string { return &s }

var zeroN = regexp.MustCompile(`("n":|\bn=)\d+`)

// genSplitLog: [sql stages]* splitter [go stages]*
func genSplitLog(r *rand.Rand, db *logq.DB, o logq.GenOpts) *logq.LogQuery {
	q := logq.GenLogQuery(r, db, logq.GenOpts{Hostile: o.Hostile, JSONLines: false}) // matchers + maybe line/label filters
	// keep only stages that do not change labels before the split
	var pre []logq.Stage
	for _, s := range q.Stages {
		if s.Kind == "line" || s.Kind == "label" {
			pre = append(pre, s)
		}
	}
	q.Stages = pre
	var extracted []string
	switch {
	case o.JSONLines:
		q.Stages = append(q.Stages, logq.Stage{Kind: "json"})
		extracted = []string{"lvl2", "n", "msg", "nested_a_b"}
	case o.Logfmt:
		q.Stages = append(q.Stages, logq.Stage{Kind: "logfmt"})
		extracted = []string{"lvl2", "n", "msg", "path"}
	default:
		q.Stages = append(q.Stages, logq.Stage{Kind: "line_format", Val: "{{._entry}}"})
	}
	n := r.Intn(4)
	for i := 0; i < n; i++ {
		switch r.Intn(8) {
		case 0, 1:
			l := "lvl"
			v := []string{"err", "info", "dbg"}[r.Intn(3)]
			if len(extracted) > 0 && r.Intn(3) != 0 {
				l = "lvl2"
			}
			fn := []string{"=", "!="}[r.Intn(2)]
			q.Stages = append(q.Stages, logq.Stage{Kind: "label", Filter: &logq.LFilter{Label: l, Fn: fn, Str: strp(v)}})
		case 2:
			if len(extracted) > 0 {
				q.Stages = append(q.Stages, logq.Stage{Kind: "label", Filter: &logq.LFilter{Label: "n", Fn: []string{">", ">=", "<", "==", "!="}[r.Intn(5)], Num: fmt.Sprint(r.Intn(20))}})
			}
		case 3:
			ops := []string{"|=", "!=", "|~", "!~"}
			if last := q.Stages[len(q.Stages)-1].Kind; last == "json" || last == "logfmt" {
				// "| json != \"x\"" is read by the grammar as a label filter on a label called json
				ops = []string{"|=", "|~"}
			}
			q.Stages = append(q.Stages, logq.Stage{Kind: "line", Op: ops[r.Intn(len(ops))], Val: []string{"error", "warn", "GET", "u1", "deep1", "x"}[r.Intn(6)]})
		case 4:
			// one to three parameters; the same label may be named more than once (with different values, or bare
			// and with a value)
			var ps []logq.Param
			for k, np := 0, 1+r.Intn(3); k < np; k++ {
				p := logq.Param{A: []string{"lvl", "pod", "lvl2", "msg"}[r.Intn(4)]}
				if k > 0 && r.Intn(2) == 0 {
					p.A = ps[0].A
				}
				if r.Intn(2) == 0 {
					p.HasB, p.B = true, []string{"err", "info", "p1", "dbg"}[r.Intn(4)]
				}
				ps = append(ps, p)
			}
			q.Stages = append(q.Stages, logq.Stage{Kind: "drop", Params: ps})
		case 5:
			if r.Intn(2) == 0 {
				q.Stages = append(q.Stages, logq.Stage{Kind: "label_format", Params: []logq.Param{{A: "copy", B: "app"}}})
			} else {
				q.Stages = append(q.Stages, logq.Stage{Kind: "label_format", Params: []logq.Param{{A: "const", B: "c" + fmt.Sprint(r.Intn(3)), BConst: true}}})
			}
		case 6:
			q.Stages = append(q.Stages, logq.Stage{Kind: "line_format", Val: []string{"{{.app}}|{{._entry}}", "lvl={{.lvl}} app={{.app}}", "{{._entry}}"}[r.Intn(3)]})
		case 7:
			if o.JSONLines {
				q.Stages = append(q.Stages, logq.Stage{Kind: "jsonp", Params: []logq.Param{{A: "deep", B: "nested.a.b"}}})
			}
		}
	}
	return q
}

type entryRow struct {
	labels string
	ts     int64
	line   string
}

func outRows(out *logq.Output) []string {
	var g []string
	for _, x := range out.Entries {
		g = append(g, fmt.Sprintf("%s|%d|%q", logq.CanonLabels(x.Labels), x.TimestampNS, x.Message))
	}
	sort.Strings(g)
	return g
}

func outPoints(out *logq.Output) []string {
	var g []string
	for _, x := range out.Entries {
		g = append(g, fmt.Sprintf("%s|%d|%.9g", logq.CanonLabels(x.Labels), x.TimestampNS, x.Value))
	}
	sort.Strings(g)
	return g
}

func diffSorted(a, b []string) (onlyA, onlyB []string) {
	am, bm := map[string]int{}, map[string]int{}
	for _, x := range a {
		am[x]++
	}
	for _, x := range b {
		bm[x]++
	}
	for k, n := range am {
		if bm[k] < n {
			onlyA = append(onlyA, k)
		}
	}
	for k, n := range bm {
		if am[k] < n {
			onlyB = append(onlyB, k)
		}
	}
	sort.Strings(onlyA)
	sort.Strings(onlyB)
	return
}

func Child(c *run.Ctx, name string) {
	var cfg childCfg
	run.ChildCfg(&cfg)
	rn := logq.NewRunner(false, true)
	shrunk := 0
	for i := 0; i < cfg.N; i++ {
		gi := cfg.Start + i
		r := c.Rng(fmt.Sprintf("c09/case/%d", gi))
		mon := gi % 3
		start := int64(1700000000+r.Intn(2)*86400) * 1e9
		start = start / 60e9 * 60e9
		if gi%3 == 1 {
			start += int64(1+r.Intn(47)) * 1e9 // a window that does not start on a multiple of the range
		}
		end := start + int64([]int{20, 60, 600, 3600}[r.Intn(4)])*1e9
		o := logq.GenOpts{JSONLines: r.Intn(2) == 0, MaxSeries: 5, MaxSamples: 30, StartNs: start, EndNs: end, Numeric: true, NegN: gi%5 == 3}
		if !o.JSONLines {
			o.Logfmt = r.Intn(2) == 0
		}
		if r.Intn(10) == 0 {
			o.MaxSamples = 250 // several channel messages of 100 entries
		}
		// every fourth case the consumer pauses after every message (a slow client): upstream stages block on their sends
		rn.Pace = 0
		if gi%4 == 1 {
			rn.Pace = 100 * time.Microsecond
		}
		o.Malformed = (o.JSONLines || o.Logfmt) && gi%3 == 2 && r.Intn(3) == 0
		db := logq.NewDB(r, o)
		if gi%21 == 0 && (o.JSONLines || o.Logfmt) && len(db.Series) > 0 {
			// one whole series whose numeric field is 0 on every line: its range aggregates are exactly 0, a value an
			// enclosing vector aggregation has to count like any other
			fp := db.Series[0].FP
			for k := range db.Samples {
				if db.Samples[k].FP == fp {
					db.Samples[k].Line = zeroN.ReplaceAllString(db.Samples[k].Line, "${1}0")
				}
			}
			c.Cover("databases", "a series whose numeric field is always 0", 1)
		}
		ch := db.Load(false)
		metric := r.Intn(3) == 0
		switch mon {
		case 0: // split pipeline vs evaluator
			lq := genSplitLog(r, db, o)
			req := logq.Request{StartNs: start, EndNs: end, Step: 5 * time.Second, Limit: []int64{0, 0, 1, 5, 100, 1000}[r.Intn(6)], Forward: false}
			zeroCase := gi%21 == 0 && (o.JSONLines || o.Logfmt) && len(db.Series) > 0
			if zeroCase {
				// the database has a series whose numeric field is always 0: a plain nested aggregation over everything,
				// so that the zero inner values take part in the outer aggregation
				metric = true
				parser := "json"
				if o.Logfmt {
					parser = "logfmt"
				}
				lq = &logq.LogQuery{Matchers: []logq.Matcher{{Label: "env", Op: "!=", Val: "nomatch"}}, Stages: []logq.Stage{{Kind: parser}}}
			}
			if metric {
				rng := []time.Duration{5 * time.Second, 10 * time.Second, time.Minute}[r.Intn(3)]
				m := &logq.MetricQuery{Range: rng, Log: *lq, Fn: []string{"rate", "count_over_time", "bytes_rate", "bytes_over_time"}[r.Intn(4)]}
				if (o.JSONLines || o.Logfmt) && (r.Intn(2) == 0 || zeroCase) {
					m.Fn = []string{"sum_over_time", "avg_over_time", "min_over_time", "max_over_time", "first_over_time", "last_over_time"}[r.Intn(6)]
					m.Log.Stages = append(m.Log.Stages, logq.Stage{Kind: "unwrap", Val: "n"})
					m.RangeGrp = &logq.Grouping{By: true, Labels: []string{"app", "lvl2"}[:1+r.Intn(2)], Suffix: r.Intn(2) == 0}
				}
				// a vector aggregation over the range aggregation: the inner series reach it through the shared in-process
				// aggregator, where an inner value of exactly 0 is a value like any other (more often over unwrapped values)
				if r.Intn(2) == 0 || m.RangeGrp != nil && r.Intn(2) == 0 || zeroCase {
					m.Agg = []string{"sum", "avg", "min", "max", "count"}[r.Intn(5)]
					m.AggGrp = &logq.Grouping{By: r.Intn(2) == 0, Labels: []string{"app", "lvl2", "env"}[:1+r.Intn(3)], Suffix: r.Intn(2) == 0}
					if r.Intn(4) == 0 {
						m.AggCmp = &logq.Cmp{Op: []string{">", "<", ">=", "!="}[r.Intn(4)], Val: []string{"0", "1", "2"}[r.Intn(3)]}
					}
				}
				req.Metric, req.Limit = m, 0
				req.Step = []time.Duration{rng, rng / 2, 2 * rng}[r.Intn(3)]
				if req.Step < time.Second {
					req.Step = time.Second
				}
			} else {
				req.Log = lq
			}
			shape := req.Shape()
			c.BeginCase(gi, map[string]any{"query": req.QueryString(), "shape": shape, "monitor": "split-vs-evaluator"})
			c.Case(fmt.Sprintf("split|%s|limit=%d", shape, min(req.Limit, 2)))
			if i < 2 {
				c.Sample(map[string]any{"monitor": "split-vs-evaluator", "query": req.QueryString(), "series": len(db.Series), "samples": len(db.Samples), "limit": req.Limit})
			}
			var kind, detail string
			var decided bool
			var nout int
			if metric {
				v := c08.JudgeOpts(rn, db, ch, &req, false)
				kind, detail, decided = v.Kind, v.Detail, v.Decided
				if v.Out != nil {
					nout = len(v.Out.Entries)
				}
			} else {
				var out *logq.Output
				kind, detail, decided, _, out, _ = c07.Judge(rn, db, ch, &req)
				if out != nil {
					nout = len(out.Entries)
				}
			}
			if os.Getenv("C09_DEBUG") != "" && gi%21 == 0 && metric {
				f, _ := os.OpenFile(os.Getenv("C09_DEBUG"), os.O_APPEND|os.O_CREATE|os.O_WRONLY, 0644)
				defer f.Close()
				fmt.Fprintf(f, "C09DBG gi=%d decided=%v kind=%q detail=%.80q q=%s\n", gi, decided, kind, detail, req.QueryString())
			}
			if !decided {
				note(c, detail)
				c.EndCase(gi)
				continue
			}
			c.Floor("split pipelines compared with the direct evaluator", 0, 1)
			if metric {
				c.Floor("metric pipelines", 0, 1)
			}
			if nout > 100 {
				c.Floor("results spanning more than one upstream channel message", 0, 1)
			}
			if kind != "" {
				min := req
				if shrunk < 20 {
					shrunk++
					if metric {
						min = c08.Shrink(rn, db, ch, req, kind)
					} else {
						min = c07.Shrink(rn, db, ch, req, kind)
					}
				}
				c.Violation("split/"+kind+"/"+min.SigShape(), fmt.Sprintf("split pipeline %s over [%d,%d) limit %d: %s (original query %s)", min.QueryString(), start, end, min.Limit, detail, req.QueryString()),
					map[string]any{"case_index": gi, "monitor": "split-vs-evaluator", "request": min, "original": req, "db": db})
			}
			c.EndCase(gi)
		case 1: // cross-engine: SQL-only plan vs forced in-process plan
			o2 := o
			lq := logq.GenLogQuery(r, db, o2)
			reqSQL := logq.Request{StartNs: start, EndNs: end, Step: 5 * time.Second, Limit: []int64{0, 0, 1, 5, 1000}[r.Intn(5)]}
			var forced logq.LogQuery
			forced.Matchers = lq.Matchers
			forced.Stages = append([]logq.Stage{{Kind: "line_format", Val: "{{._entry}}"}}, lq.Stages...)
			reqGo := reqSQL
			if metric {
				rng := []time.Duration{5 * time.Second, 10 * time.Second}[r.Intn(2)]
				mk := func(l logq.LogQuery) *logq.MetricQuery {
					m := &logq.MetricQuery{Range: rng, Log: l, Fn: []string{"rate", "count_over_time", "bytes_rate", "bytes_over_time"}[gi%4]}
					if gi%2 == 0 {
						m.Agg = []string{"sum", "avg", "min", "max", "count"}[gi%5]
						m.AggGrp = &logq.Grouping{By: gi%4 < 2, Labels: []string{"app", "env"}[:1+gi%2]}
					}
					return m
				}
				reqSQL.Metric, reqGo.Metric = mk(*lq), mk(forced)
				reqSQL.Limit, reqGo.Limit = 0, 0
				reqSQL.Step, reqGo.Step = rng, rng
			} else {
				reqSQL.Log, reqGo.Log = lq, &forced
			}
			shape := reqSQL.Shape()
			c.BeginCase(gi, map[string]any{"query": reqGo.QueryString(), "shape": shape, "monitor": "cross-engine"})
			c.Case(fmt.Sprintf("cross|%s|limit=%d", shape, min(reqSQL.Limit, 2)))
			if i < 4 {
				c.Sample(map[string]any{"monitor": "cross-engine", "sql_query": reqSQL.QueryString(), "inprocess_query": reqGo.QueryString(), "limit": reqSQL.Limit})
			}
			a := rn.Run(ch, &reqSQL, 20*time.Second)
			b := rn.Run(ch, &reqGo, 20*time.Second)
			if a.TimedOut || b.TimedOut {
				c.Undecided("timeout")
				c.EndCase(gi)
				continue
			}
			if a.Err != nil || b.Err != nil {
				switch {
				case a.Err != nil && b.Err != nil:
					c.Cover("not-judged", "both engines reject / fail", 1)
				case isOracle(a.Err) || isOracle(b.Err):
					c.Undecided("oracle: unsupported SQL")
				case a.Err == nil && len(b.Execs) == 0:
					c.Cover("not-judged", "in-process plan rejected before SQL: "+clip(b.Err.Error(), 80), 1)
				if f := os.Getenv("C09_DEBUG"); f != "" {
					if fh, err := os.OpenFile(f, os.O_APPEND|os.O_CREATE|os.O_WRONLY, 0644); err == nil {
						fmt.Fprintf(fh, "rejected: %s :: %v\n", reqGo.QueryString(), b.Err)
						fh.Close()
					}
				}
				default:
					c.Violation("cross/one-engine-fails/"+reqSQL.SigShape(), fmt.Sprintf("pipeline %s: SQL path error=%v, in-process path (%s) error=%v", reqSQL.QueryString(), a.Err, reqGo.QueryString(), b.Err),
						map[string]any{"case_index": gi, "monitor": "cross-engine", "sql_request": reqSQL, "inprocess_request": reqGo, "db": db})
				}
				c.EndCase(gi)
				continue
			}
			c.Floor("pipelines compared across engines (SQL vs in-process)", 0, 1)
			if metric {
				c.Floor("metric pipelines", 0, 1)
			}
			var ra, rb []string
			if metric {
				ra, rb = outPoints(a), outPoints(b)
			} else {
				ra, rb = outRows(a), outRows(b)
			}
			onlyA, onlyB := diffSorted(ra, rb)
			if len(onlyA)+len(onlyB) > 0 {
				limited := reqSQL.Limit > 0 && int64(len(ra)) >= reqSQL.Limit
				if limited && len(ra) == len(rb) && !metric {
					// both cut by the limit: the choice among equal timestamps may differ; compare with the evaluator instead
					k, d, dec, _, _, _ := c07.Judge(rn, db, ch, &reqGo)
					if dec && k != "" {
						c.Violation("cross/limit/"+k+"/"+reqSQL.SigShape(), fmt.Sprintf("in-process plan %s limit %d: %s", reqGo.QueryString(), reqGo.Limit, d),
							map[string]any{"case_index": gi, "monitor": "cross-engine", "inprocess_request": reqGo, "db": db})
					}
				} else {
					kind := "entries-differ"
					if metric {
						kind = "values-differ"
					}
					if reqSQL.Limit == 0 && len(rb) == 0 && len(ra) > 0 {
						kind = "limit-0-means-nothing-in-process"
					} else if len(ra) != len(rb) && reqSQL.Limit > 0 {
						kind = "limit-count-differs"
					}
					c.Violation("cross/"+kind+"/"+sigOfCross(reqSQL, kind), fmt.Sprintf("the same pipeline gives different results: SQL plan %s → %d results, in-process plan %s → %d results (limit %d); only SQL: %v; only in-process: %v",
						reqSQL.QueryString(), len(ra), reqGo.QueryString(), len(rb), reqSQL.Limit, first(onlyA, 2), first(onlyB, 2)),
						map[string]any{"case_index": gi, "monitor": "cross-engine", "sql_request": reqSQL, "inprocess_request": reqGo, "db": db, "only_sql": first(onlyA, 10), "only_inprocess": first(onlyB, 10)})
				}
			}
			c.EndCase(gi)
		case 2: // scripted upstream, random batchings
			lq := genSplitLog(r, db, o)
			// the upstream part (before the split) is evaluated by the reference evaluator and fed
			// in random batchings to the real in-process chain built from the rest of the pipeline
			split := 0
			for j, s := range lq.Stages {
				if s.Kind == "json" || s.Kind == "logfmt" || s.Kind == "line_format" {
					split = j
					break
				}
			}
			up := logq.LogQuery{Matchers: lq.Matchers, Stages: lq.Stages[:split]}
			rest := logq.LogQuery{Matchers: lq.Matchers, Stages: lq.Stages[split:]}
			req := logq.Request{Log: lq, StartNs: start, EndNs: end, Step: 5 * time.Second, Limit: []int64{0, 3, 1000}[r.Intn(3)]}
			c.BeginCase(gi, map[string]any{"query": req.QueryString(), "shape": req.Shape(), "monitor": "scripted-upstream"})
			c.Case(fmt.Sprintf("upstream|%s|limit=%d", req.Shape(), min(req.Limit, 2)))
			upEntries, err := logq.EvalLog(db, &up, start, end)
			exp, err2 := logq.EvalLog(db, lq, start, end)
			var probe *logq.ErrProbe
			if errors.As(err, &probe) || errors.As(err2, &probe) {
				c.Cover("probes", probe.Why, 1)
				if err == nil {
					// what the stages make of a malformed line is not settled, but two things are whatever they make of
					// it: entries with one fingerprint carry one label set (the fingerprint is the series identity every
					// later stage and the response writer group by), and the result does not depend on how the upstream
					// rows were cut into channel messages
					structural(c, gi, db, rest, req, upEntries)
				}
				c.EndCase(gi)
				continue
			}
			if err != nil || err2 != nil {
				c.Undecided("evaluator error")
				c.EndCase(gi)
				continue
			}
			// newest first, as the SQL half of a split plan delivers them (ORDER BY timestamp_ns desc)
			sort.SliceStable(upEntries, func(a, b int) bool { return upEntries[a].Ts > upEntries[b].Ts })
			script, perr := logql_parser.Parse(rest.String())
			if perr != nil {
				c.Cover("generator", "rest of the pipeline not parsed by qryn: "+clip(perr.Error(), 60), 1)
				c.EndCase(gi)
				continue
			}
			upstream := &scripted{entries: upEntries, r: c.Rng(fmt.Sprintf("c09/batch/%d", gi))}
			proc, perr := internal_planner.Plan(script, upstream)
			if perr != nil {
				c.Cover("not-judged", "in-process plan rejected: "+clip(perr.Error(), 60), 1)
				c.EndCase(gi)
				continue
			}
			out := runChain(proc, &req)
			if out.TimedOut {
				c.Undecided("timeout")
				c.EndCase(gi)
				continue
			}
			c.Floor("in-process chains driven by a scripted upstream in random batchings", 0, 1)
			if upstream.batches > 1 {
				c.Floor("results spanning more than one upstream channel message", 0, 1)
			}
			c.Cover("batchings", fmt.Sprintf("%d messages", min(upstream.batches, 6)), 1)
			if out.Err != nil {
				c.Violation("upstream/chain-error/"+req.SigShape(), fmt.Sprintf("in-process chain for %s failed: %v", rest.String(), out.Err), map[string]any{"case_index": gi, "request": req, "db": db})
				c.EndCase(gi)
				continue
			}
			kind, detail, _ := c07.Compare(exp, out, req.Limit, false)
			if kind != "" {
				c.Violation("upstream/"+kind+"/"+req.SigShape(), fmt.Sprintf("in-process chain for %s (limit %d, %d upstream messages): %s", rest.String(), req.Limit, upstream.batches, detail),
					map[string]any{"case_index": gi, "monitor": "scripted-upstream", "request": req, "db": db, "batches": upstream.batches})
			}
			c.EndCase(gi)
		}
	}
}

func structural(c *run.Ctx, gi int, db *logq.DB, rest logq.LogQuery, req logq.Request, upEntries []logq.Entry) {
	sort.SliceStable(upEntries, func(a, b int) bool { return upEntries[a].Ts > upEntries[b].Ts })
	script, perr := logql_parser.Parse(rest.String())
	if perr != nil {
		return
	}
	var outs [][]string
	for k := 0; k < 2; k++ {
		upstream := &scripted{entries: upEntries, r: c.Rng(fmt.Sprintf("c09/batch/%d/%d", gi, k))}
		proc, perr := internal_planner.Plan(script, upstream)
		if perr != nil {
			return
		}
		out := runChain(proc, &req)
		if out.TimedOut || out.Err != nil {
			return
		}
		byFP := map[uint64]string{}
		for _, e := range out.Entries {
			l := logq.CanonLabels(e.Labels)
			if prev, ok := byFP[e.Fingerprint]; ok && prev != l {
				c.Violation("upstream/one-fingerprint-two-label-sets/"+req.SigShape(), fmt.Sprintf("in-process chain for %s: entries with fingerprint %d carry the label sets %s and %s (line %q); grouping by series merges them",
					rest.String(), e.Fingerprint, prev, l, clip(e.Message, 80)), map[string]any{"case_index": gi, "monitor": "scripted-upstream/structural", "request": req, "db": db})
				return
			}
			byFP[e.Fingerprint] = l
		}
		outs = append(outs, outRows(out))
	}
	c.Floor("in-process chains over malformed lines checked for series identity and batching invariance", 0, 1)
	if req.Limit == 0 {
		if a, b := diffSorted(outs[0], outs[1]); len(a)+len(b) > 0 {
			c.Violation("upstream/result-depends-on-batching/"+req.SigShape(), fmt.Sprintf("in-process chain for %s: two cuts of the same upstream rows into channel messages give different results; only first: %v; only second: %v",
				rest.String(), first(a, 2), first(b, 2)), map[string]any{"case_index": gi, "monitor": "scripted-upstream/structural", "request": req, "db": db})
		}
	}
}

func sigOfCross(req logq.Request, kind string) string {
	if strings.HasPrefix(kind, "limit-0") {
		return "any"
	}
	return req.SigShape()
}

func isOracle(err error) bool { return err != nil && errors.Is(err, chsql.ErrUnsupported) }

func note(c *run.Ctx, detail string) {
	switch {
	case strings.HasPrefix(detail, "oracle:") || strings.HasPrefix(detail, "evaluator:") || detail == "timeout":
		c.Undecided(clip(detail, 80))
	case strings.HasPrefix(detail, "rejected before SQL"):
		c.Cover("not-judged", clip(detail, 100), 1)
	default:
		c.Cover("probes", detail, 1)
	}
}

// scripted is an upstream RequestProcessor delivering entries in random batchings.
type scripted struct {
	entries []logq.Entry
	r       interface{ Intn(int) int }
	batches int
}

func (s *scripted) IsMatrix() bool { return false }
func (s *scripted) Process(ctx *shared.PlannerContext, in chan []shared.LogEntry) (chan []shared.LogEntry, error) {
	out := make(chan []shared.LogEntry)
	var msgs [][]shared.LogEntry
	i := 0
	for i < len(s.entries) {
		n := 1 + s.r.Intn(7)
		if s.r.Intn(5) == 0 {
			n = 1 + s.r.Intn(120)
		}
		if i+n > len(s.entries) {
			n = len(s.entries) - i
		}
		var m []shared.LogEntry
		for _, e := range s.entries[i : i+n] {
			l := map[string]string{}
			for k, v := range e.Labels {
				l[k] = v
			}
			m = append(m, shared.LogEntry{TimestampNS: e.Ts, Fingerprint: e.FP, Labels: l, Message: e.Line, Value: e.Value})
		}
		msgs = append(msgs, m)
		if s.r.Intn(6) == 0 {
			msgs = append(msgs, []shared.LogEntry{}) // empty message
		}
		i += n
	}
	s.batches = len(msgs)
	go func() {
		defer close(out)
		for _, m := range msgs {
			select {
			case out <- m:
			case <-ctx.Ctx.Done():
				return
			}
		}
	}()
	return out, nil
}

func runChain(proc shared.RequestProcessor, req *logq.Request) *logq.Output {
	return logq.RunProcessor(proc, req, 20*time.Second)
}

func first(s []string, n int) []string {
	if len(s) > n {
		return s[:n]
	}
	return s
}

func clip(s string, n int) string {
	if len(s) > n {
		return s[:n] + "…"
	}
	return s
}

var _ = logql_transpiler_v2.BreakpointNo
