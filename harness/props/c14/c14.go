// Package c14: query translation is deterministic and a prepared plan can be re-executed.
// (a) the same query translated again — interleaved with translations of other queries, from
// one and from several goroutines — yields byte-identical SQL; (b) one plan object executed
// repeatedly with advancing windows (as live tailing does) yields, each time, the statement a
// fresh translation yields for that window, or at least a statement returning the same rows.
package c14

import (
	"context"
	"database/sql/driver"
	"encoding/json"
	"fmt"
	"io"
	"math/rand"
	"net/http"
	"net/url"
	"os"
	"regexp"
	"sort"
	"strconv"
	"strings"
	"sync"
	"sync/atomic"
	"time"

	"verif/harness/engines/chsql"
	"verif/harness/engines/logq"
	"verif/harness/engines/run"
	"verif/harness/engines/sqldrv"
	"verif/harness/props/c07"
	"verif/harness/props/reg"
)

func init() {
	reg.Register(&reg.Prop{ID: "C14", Level: "exploration", Main: Main, Child: Child})
}

type childCfg struct {
	Start int `json:"start"`
	N     int `json:"n"`
	// History != "": the child translates the fixed request list of the history monitor in that order
	// ("forward" | "reverse" | "rotated") and writes the statements of every request to Out
	History string `json:"history,omitempty"`
	Out     string `json:"out,omitempty"`
}

func Main(c *run.Ctx) {
	c.SetRule("queries: LogQL log / metric / split pipelines (generators of C07–C09), TraceQL searches incl. the complex multi-portion processor, Pyroscope selects; " +
		"(a) every query is translated 3 times, interleaved with other queries, sequentially and from 8 goroutines; (b) one LogQL plan object is executed 5 times with advancing windows and compared with fresh translations; " +
		"distinct key = monitor × language × query shape")
	c.Assume("two statements have the same meaning if they are byte-identical after the time-bound literals were aligned by using the same window, or if the reference interpreter returns the same rows for both on the same tables")
	total := c.Pick(1200, 24000)
	per := c.Pick(600, 3000)
	c07.RunChildren(c, "C14", total, per)
	c.Floor("queries translated repeatedly (determinism)", total/3, 0)
	c.Floor("plans re-executed with advancing windows", total/4, 0)
	c.Floor("TraceQL requests handled by the multi-portion processor", 3, 0)
	c.Floor("concurrent translation rounds", 1, 0)
	historyMonitor(c)
}

// historyMonitor: a request's statements must not depend on which requests the process translated before it.
// Three fresh processes translate the same request list in different orders; per request the statements of the
// three processes must be identical. (Process-wide caches keyed too coarsely show up here and nowhere else.)
func historyMonitor(c *run.Ctx) {
	res := map[string]map[string][]string{}
	for _, order := range []string{"forward", "reverse", "rotated"} {
		outp := fmt.Sprintf("%s/c14-history-%s.json", run.Scratch(), order)
		out := c.RunChild(run.ChildSpec{Prop: "C14", Name: "history-" + order, Cfg: childCfg{History: order, Out: outp}, Timeout: 10 * time.Minute})
		if !out.Completed {
			c.Undecided("history child " + order + " did not complete")
			return
		}
		b, err := os.ReadFile(outp)
		m := map[string][]string{}
		if err != nil || json.Unmarshal(b, &m) != nil {
			c.Undecided("history child " + order + " left no result")
			return
		}
		res[order] = m
	}
	for name, ref := range res["forward"] {
		c.Case("history|" + name)
		c.Floor("requests translated after different histories in separate processes", 0, 1)
		for _, order := range []string{"reverse", "rotated"} {
			got := res[order][name]
			if !eqs(ref, got) {
				c.Violation("history/sql-depends-on-earlier-requests/"+strings.SplitN(name, " ", 2)[0], fmt.Sprintf("request %s: its statements differ between a process that translated the request list forward and one that translated it %s: %s", name, order, firstDiff(ref, got)),
					map[string]any{"request": name, "forward": ref, order: got})
				break
			}
		}
	}
	c.Floor("requests translated after different histories in separate processes", 20, 0)
}

type histReq struct {
	Name string
	Do   func(tq *traceRig, rn *logq.Runner, ch *chsql.DB) []string
}

func historyRequests(c *run.Ctx) []histReq {
	var out []histReq
	// Pyroscope: profile types that share name and period but differ in sample type, and unrelated ones
	types := []string{"process_cpu:cpu:nanoseconds:cpu:nanoseconds", "process_cpu:samples:count:cpu:nanoseconds", "memory:alloc_objects:count:space:bytes", "memory:inuse_space:bytes:space:bytes",
		"memory:alloc_space:bytes:space:bytes", "goroutine:goroutine:count:goroutine:count", "block:contentions:count:contentions:count", "block:delay:nanoseconds:contentions:count"}
	for _, tid := range types {
		tid := tid
		for _, ep := range []string{"SelectMergeStacktraces", "SelectSeries", "SelectMergeProfile"} {
			ep := ep
			body := `{"profile_typeID":"` + tid + `","label_selector":"{service_name=\"x\"}","start":1700000000000,"end":1700003600000,"group_by":["a"],"step":15}`
			out = append(out, histReq{"pyroscope " + ep + " " + tid, func(tq *traceRig, rn *logq.Runner, ch *chsql.DB) []string {
				s, _ := tq.post("/querier.v1.QuerierService/"+ep, body)
				return s
			}})
		}
	}
	for _, q := range []string{`{.a = "x"}`, `{.a = "y"}`, `{.a = "x" && duration > 1s}`, `{name = "op"} | count() > 1`, `{.a = "x"} || {.b = "y"}`, `{resource.service.name = "api"}`} {
		q := q
		out = append(out, histReq{"traceql " + q, func(tq *traceRig, rn *logq.Runner, ch *chsql.DB) []string {
			s, _ := tq.search(q, 0)
			return s
		}})
	}
	r := c.Rng("c14/history")
	start := int64(1700000000) / 60 * 60 * 1e9
	o := logq.GenOpts{JSONLines: true, MaxSeries: 4, MaxSamples: 6, StartNs: start, EndNs: start + 300e9, Numeric: true}
	db := logq.NewDB(r, o)
	for k := 0; k < 30; k++ {
		req := genReq(r, db, o, k%3)
		out = append(out, histReq{fmt.Sprintf("logql %d %s", k, req.QueryString()), func(tq *traceRig, rn *logq.Runner, ch *chsql.DB) []string {
			return sqls(rn.Run(ch, &req, 20*time.Second))
		}})
	}
	// sibling queries: the same outer form around different operands (what a canonical text that drops part of the
	// query would make one entry of)
	for k, q := range []string{
		`topk(2, quantile_over_time(0.5, {app="alpha"} | json | unwrap n [10s]) by (lvl2))`,
		`topk(2, quantile_over_time(0.9, {app="bravo"} | logfmt | unwrap v [1m]))`,
		`topk(2,quantile_over_time(0.99,{env="delta"}|json|unwrap n[30s]) by (app))`,
		`bottomk(1, quantile_over_time(0.5, {app="alpha"} | json | unwrap n [10s]))`,
		`bottomk(1, quantile_over_time(0.5, {app="carol"} | json | unwrap n [20s]))`,
		`topk(2, sum by (app) (rate({app="alpha"} [1m])))`,
		`topk(2, sum by (app) (rate({app="bravo"} [1m])))`,
		`topk(2, avg_over_time({app="alpha"} | json | unwrap n [10s]))`,
		`topk(2, avg_over_time({app="bravo"} | json | unwrap n [10s]))`,
		`sum by (app) (quantile_over_time(0.5, {app="alpha"} | json | unwrap n [10s]))`,
		`sum by (app) (quantile_over_time(0.9, {app="bravo"} | json | unwrap n [10s]))`,
		`topk(2, quantile_over_time(0.5, {app="alpha"} | json | unwrap n [10s])) > 1`,
		`topk(2, quantile_over_time(0.5, {app="bravo"} | json | unwrap n [5s])) > 1`,
		// the same without a parser stage: translated to one statement, nothing runs in the server
		`topk(2, quantile_over_time(0.5, {app="alpha"} | json n="n" | unwrap n [10s]) by (app))`,
		`topk(2, quantile_over_time(0.99, {env="delta"} | json n="n" | unwrap n [5s]) by (env))`,
		`bottomk(2, quantile_over_time(0.5, {app="alpha"} | json n="n" | unwrap n [10s]) by (app))`,
		`bottomk(2, quantile_over_time(0.9, {app="bravo"} | json m="n" | unwrap m [20s]) by (app))`,
		`topk(2, quantile_over_time(0.5, {app="alpha"} | unwrap num [10s]) by (env))`,
		`topk(2, quantile_over_time(0.9, {app="bravo"} | unwrap num [1m]))`,
		`bottomk(1, quantile_over_time(0.5, {app="alpha"} | unwrap num [10s]))`,
		`bottomk(1, quantile_over_time(0.75, {env="delta"} | unwrap num [20s]) by (app))`,
		`topk(2, quantile_over_time(0.5, {app="alpha"} | unwrap num [10s])) > 1`,
		`topk(2, quantile_over_time(0.5, {app="carol"} | unwrap num [5s])) > 1`,
	} {
		q := q
		out = append(out, histReq{fmt.Sprintf("logql sibling %d %s", k, q), func(tq *traceRig, rn *logq.Runner, ch *chsql.DB) []string {
			return sqls(rn.RunText(ch, q, start, start+300e9, 5*time.Second, 100, 20*time.Second))
		}})
	}
	// the same query over different windows - just after a UTC midnight, at noon of that day, the evening before,
	// either side of 00:30 - so that each history asks them in another order (what a memo keyed by too little of the
	// window would answer from the previous request)
	day := int64(1700006400) // 2023-11-15 00:00:00 UTC
	wins := []struct {
		n    string
		from int64
	}{{"00:10", day + 600}, {"12:00", day + 43200}, {"eve 18:00", day - 21600}, {"00:29:59", day + 1799}, {"00:30:01", day + 1801}, {"23:59", day + 86340}, {"next 00:05", day + 86700}}
	for _, q := range []string{`{app="alpha"} |= "x"`, `rate({app="alpha"} [1m])`, `sum by (app) (count_over_time({env="delta"} | json [1m]))`} {
		for _, w := range wins {
			q, w := q, w
			out = append(out, histReq{fmt.Sprintf("logql window %s %s", w.n, q), func(tq *traceRig, rn *logq.Runner, ch *chsql.DB) []string {
				return sqls(rn.RunText(ch, q, w.from*1e9, (w.from+300)*1e9, 5*time.Second, 100, 20*time.Second))
			}})
		}
	}
	for _, w := range wins {
		w := w
		body := fmt.Sprintf(`{"profile_typeID":"process_cpu:cpu:nanoseconds:cpu:nanoseconds","label_selector":"{service_name=\"x\"}","start":%d,"end":%d}`, w.from*1000, (w.from+300)*1000)
		out = append(out, histReq{"pyroscope window " + w.n, func(tq *traceRig, rn *logq.Runner, ch *chsql.DB) []string {
			s, _ := tq.post("/querier.v1.QuerierService/SelectMergeStacktraces", body)
			return s
		}})
	}
	histDB = db
	return out
}

var histDB *logq.DB

func childHistory(c *run.Ctx, cfg childCfg) {
	reqs := historyRequests(c)
	rn := logq.NewRunner(false, true)
	tq := newTraceRig()
	ch := histDB.Load(false)
	order := make([]int, len(reqs))
	for i := range order {
		order[i] = i
	}
	switch cfg.History {
	case "reverse":
		for i, j := 0, len(order)-1; i < j; i, j = i+1, j-1 {
			order[i], order[j] = order[j], order[i]
		}
	case "rotated":
		h := len(order) / 2
		order = append(order[h:], order[:h]...)
		// and neighbours swapped, so that members of one family meet in the other order
		for i := 0; i+1 < len(order); i += 2 {
			order[i], order[i+1] = order[i+1], order[i]
		}
	}
	res := map[string][]string{}
	for _, i := range order {
		res[reqs[i].Name] = reqs[i].Do(tq, rn, ch)
	}
	b, _ := json.Marshal(res)
	os.WriteFile(cfg.Out, b, 0644)
}

func sqls(out *logq.Output) []string {
	var s []string
	for _, e := range out.Execs {
		s = append(s, e.SQL)
	}
	return s
}

func rowsOf(out *logq.Output) []string {
	var g []string
	for _, x := range out.Entries {
		g = append(g, fmt.Sprintf("%s|%d|%q|%.9g", logq.CanonLabels(x.Labels), x.TimestampNS, x.Message, x.Value))
	}
	sort.Strings(g)
	return g
}

func eqs(a, b []string) bool {
	if len(a) != len(b) {
		return false
	}
	for i := range a {
		if a[i] != b[i] {
			return false
		}
	}
	return true
}

func firstDiff(a, b []string) string {
	for i := 0; i < len(a) && i < len(b); i++ {
		if a[i] != b[i] {
			x, y := a[i], b[i]
			j := 0
			for j < len(x) && j < len(y) && x[j] == y[j] {
				j++
			}
			lo := max(0, j-60)
			return fmt.Sprintf("statement %d differs at byte %d: …%s… vs …%s…", i, j, x[lo:min(len(x), j+120)], y[lo:min(len(y), j+120)])
		}
	}
	return fmt.Sprintf("%d vs %d statements", len(a), len(b))
}

func genReq(r *rand.Rand, db *logq.DB, o logq.GenOpts, kind int) logq.Request {
	start := o.StartNs
	end := o.EndNs
	switch kind {
	case 0:
		return logq.Request{Log: logq.GenLogQuery(r, db, o), StartNs: start, EndNs: end, Step: 5 * time.Second, Limit: []int64{0, 10, 100}[r.Intn(3)]}
	case 1:
		rng := []time.Duration{5 * time.Second, 10 * time.Second, time.Minute}[r.Intn(3)]
		return logq.Request{Metric: logq.GenMetricQuery(r, db, o, rng), StartNs: start, EndNs: end, Step: rng}
	default:
		q := logq.GenLogQuery(r, db, logq.GenOpts{})
		var pre []logq.Stage
		for _, s := range q.Stages {
			if s.Kind == "line" || s.Kind == "label" {
				pre = append(pre, s)
			}
		}
		q.Stages = pre
		split := logq.Stage{Kind: "line_format", Val: "{{._entry}}"}
		if o.JSONLines {
			split = logq.Stage{Kind: "json"}
		}
		q.Stages = append(q.Stages, split)
		if r.Intn(2) == 0 {
			q.Stages = append(q.Stages, logq.Stage{Kind: "line", Op: "|=", Val: "error"})
		}
		return logq.Request{Log: q, StartNs: start, EndNs: end, Step: 5 * time.Second, Limit: 100}
	}
}

// what legitimately differs between the statements of the portions of one TraceQL request: the portion's
// random filter and the trace ids carried over from earlier portions
var portionVar = regexp.MustCompile(`cityHash64\(trace_id\) % [0-9]+\) == \([0-9]+\)|unhex\('[0-9a-fA-F]*'\)(, ?unhex\('[0-9a-fA-F]*'\))*`)

// dedupDisjuncts: "x or y or y" means "x or y". The attribute pre-filter of a TraceQL plan gains one more copy of
// `or ((key) == ('<aggregated attribute>'))` with every execution of the plan object (the meaning stays the same, which is
// all the property asks of a re-execution); identical neighbouring disjuncts are read as one.
func dedupDisjuncts(s string) string {
	for {
		t := repeatedDisjunct.ReplaceAllString(s, "$1")
		if t == s {
			return s
		}
		s = t
	}
}

// Go's regexp has no back-references: the repeated text is found by scanning
var repeatedDisjunct = regexpDup{}

type regexpDup struct{}

var keyDisjunct = regexp.MustCompile(` or \(\(key\) == \('[^']*'\)\)`)

func (regexpDup) ReplaceAllString(s, _ string) string {
	locs := keyDisjunct.FindAllStringIndex(s, -1)
	for i := 1; i < len(locs); i++ {
		a, b := locs[i-1], locs[i]
		if a[1] == b[0] && s[a[0]:a[1]] == s[b[0]:b[1]] {
			return s[:b[0]] + s[b[1]:]
		}
	}
	return s
}

var portionMod = regexp.MustCompile(`cityHash64\(trace_id\) % ([0-9]+)\)`)

func Child(c *run.Ctx, name string) {
	var cfg childCfg
	run.ChildCfg(&cfg)
	if cfg.History != "" {
		childHistory(c, cfg)
		return
	}
	rn := logq.NewRunner(false, true)
	tq := newTraceRig()
	for i := 0; i < cfg.N; i++ {
		gi := cfg.Start + i
		r := c.Rng(fmt.Sprintf("c14/case/%d", gi))
		start := int64(1700000000+r.Intn(2)*86400) / 60 * 60 * 1e9
		o := logq.GenOpts{JSONLines: r.Intn(3) == 0, MaxSeries: 4, MaxSamples: 12, StartNs: start, EndNs: start + 300e9, Numeric: true}
		db := logq.NewDB(r, o)
		ch := db.Load(false)
		switch gi % 4 {
		case 0, 1: // LogQL determinism + re-execution
			req := genReq(r, db, o, r.Intn(3))
			other := genReq(r, db, o, r.Intn(3))
			shape := req.Shape()
			c.BeginCase(gi, map[string]any{"query": req.QueryString(), "shape": shape})
			c.Case("logql|" + shape)
			if i < 3 {
				c.Sample(map[string]any{"monitor": "logql", "query": req.QueryString(), "interleaved_with": other.QueryString()})
			}
			// (a) three translations interleaved with another query
			a1 := rn.Run(ch, &req, 20*time.Second)
			rn.Run(ch, &other, 20*time.Second)
			a2 := rn.Run(ch, &req, 20*time.Second)
			rn.Run(ch, &other, 20*time.Second)
			a3 := rn.Run(ch, &req, 20*time.Second)
			if a1.TimedOut || a2.TimedOut || a3.TimedOut {
				c.Undecided("timeout")
				c.EndCase(gi)
				continue
			}
			if (a1.Err == nil) != (a2.Err == nil) || (a1.Err == nil) != (a3.Err == nil) {
				c.Violation("logql/outcome-changes-between-translations/"+req.SigShape(), fmt.Sprintf("query %s: errors of three translations: %v / %v / %v", req.QueryString(), a1.Err, a2.Err, a3.Err), map[string]any{"request": req, "db": db})
			} else if len(a1.Execs) > 0 {
				c.Floor("queries translated repeatedly (determinism)", 0, 1)
				if !eqs(sqls(a1), sqls(a2)) || !eqs(sqls(a1), sqls(a3)) {
					d := firstDiff(sqls(a1), sqls(a2))
					if eqs(sqls(a1), sqls(a2)) {
						d = firstDiff(sqls(a1), sqls(a3))
					}
					c.Violation("logql/sql-differs-between-translations/"+req.SigShape(), fmt.Sprintf("query %s translated three times (interleaved with %s): %s", req.QueryString(), other.QueryString(), d),
						map[string]any{"request": req, "other": other, "sql1": sqls(a1), "sql2": sqls(a2), "sql3": sqls(a3)})
				}
			}
			// (b) one plan object, five executions with advancing windows, vs fresh plans
			chain, err := rn.PlanChain(req.QueryString())
			if err != nil {
				c.Cover("not-judged", "query rejected at planning", 1)
				c.EndCase(gi)
				continue
			}
			reexecOK := true
			for k := 0; k < 5 && reexecOK; k++ {
				w := req
				w.StartNs = req.StartNs + int64(k)*7e9
				w.EndNs = req.EndNs + int64(k)*7e9
				reused := rn.ExecChain(chain, ch, &w, 20*time.Second)
				fresh := rn.Run(ch, &w, 20*time.Second)
				if reused.TimedOut || fresh.TimedOut {
					c.Undecided("timeout")
					break
				}
				if (reused.Err == nil) != (fresh.Err == nil) {
					c.Violation("logql/reexecution-outcome-differs/"+req.SigShape(), fmt.Sprintf("query %s: execution %d of one plan object: error %v, a fresh translation for the same window: error %v", req.QueryString(), k+1, reused.Err, fresh.Err),
						map[string]any{"request": w, "execution": k + 1, "db": db})
					reexecOK = false
					break
				}
				if reused.Err != nil {
					break
				}
				if !eqs(sqls(reused), sqls(fresh)) {
					// harmless differences (alias numbering) are tolerated if the meaning is the same
					if !eqs(rowsOf(reused), rowsOf(fresh)) {
						c.Violation("logql/reexecution-changes-meaning/"+req.SigShape(), fmt.Sprintf("query %s: execution %d of one plan object returns other rows than a fresh translation for the same window [%d,%d): %s; rows %d vs %d",
							req.QueryString(), k+1, w.StartNs, w.EndNs, firstDiff(sqls(reused), sqls(fresh)), len(reused.Entries), len(fresh.Entries)),
							map[string]any{"request": w, "execution": k + 1, "db": db, "sql_reused": sqls(reused), "sql_fresh": sqls(fresh)})
						reexecOK = false
					} else {
						c.Cover("re-execution", "statement text differs, same rows", 1)
					}
				} else {
					c.Cover("re-execution", "identical statement", 1)
				}
			}
			c.Floor("plans re-executed with advancing windows", 0, 1)
			c.EndCase(gi)
		case 2: // TraceQL determinism incl. multi-portion processor
			q := traceQueries[r.Intn(len(traceQueries))]
			complexity := []int64{0, 0, 25000000, 35000000}[r.Intn(4)]
			c.BeginCase(gi, map[string]any{"query": q, "shape": "traceql"})
			c.Case(fmt.Sprintf("traceql|%s|complex=%v", q, complexity > 0))
			s1, st1 := tq.search(q, complexity)
			tq.search(traceQueries[r.Intn(len(traceQueries))], 0)
			s2, st2 := tq.search(q, complexity)
			if st1 != st2 {
				c.Violation("traceql/status-changes-between-translations", fmt.Sprintf("TraceQL %s: status %d then %d", q, st1, st2), map[string]any{"q": q, "complexity": complexity})
			} else if len(s1) > 0 {
				c.Floor("queries translated repeatedly (determinism)", 0, 1)
				if !eqs(s1, s2) {
					c.Violation("traceql/sql-differs-between-translations", fmt.Sprintf("TraceQL %s (complexity answer %d): %s", q, complexity, firstDiff(s1, s2)), map[string]any{"q": q, "complexity": complexity, "sql1": s1, "sql2": s2})
				}
				if complexity > 0 {
					c.Floor("TraceQL requests handled by the multi-portion processor", 0, 1)
					// statements of the portions of one request: the same text apart from the random filter and carried trace ids
					byShape := map[string]int{}
					var shapes []string
					for _, st := range s1[1:] {
						sh := dedupDisjuncts(portionVar.ReplaceAllString(st, "#"))
						if byShape[sh] == 0 {
							shapes = append(shapes, sh)
						}
						byShape[sh]++
					}
					// every statement kind must occur once per portion: the number of portions is the modulus of the random
					// filter, and a text that occurs a number of times that is not a multiple of it belongs to a portion
					// whose statement differs from the others
					maxN := 0
					for _, n := range byShape {
						maxN = max(maxN, n)
					}
					portions := 0
					for _, st := range s1[1:] {
						if m := portionMod.FindStringSubmatch(st); m != nil {
							portions, _ = strconv.Atoi(m[1])
							break
						}
					}
					for _, sh := range shapes {
						if !strings.Contains(sh, "tempo_traces_attrs_gin") {
							continue
						}
						if (byShape[sh] != maxN && maxN > 1) || (portions > 1 && byShape[sh]%portions != 0) {
							c.Violation("traceql/portion-statement-changes", fmt.Sprintf("TraceQL %s processed in portions: the statement of one portion differs from the others in more than its random filter (%d shapes among %d statements), e.g. %s", q, len(shapes), len(s1)-1, clip(sh, 300)),
								map[string]any{"q": q, "complexity": complexity, "sql": s1})
							break
						}
					}
				}
			}
			if gi%8 == 2 {
				// two portioned searches with nothing in common at the same time: each must issue exactly the statements
				// it issues on its own (told apart by the attribute each of them names)
				qa, qb := `{.onlya="va"} | count() > 1`, `{.onlyb="vb" && duration > 1s}`
				refA, _ := tq.search(qa, 25000000)
				refB, _ := tq.search(qb, 25000000)
				all := tq.searchTogether([]string{qa, qb}, 25000000)
				var gotA, gotB []string
				for _, st := range all {
					hasA, hasB := strings.Contains(st, "onlya"), strings.Contains(st, "onlyb")
					switch {
					case hasA && !hasB:
						gotA = append(gotA, st)
					case hasB && !hasA:
						gotB = append(gotB, st)
					case hasA && hasB:
						c.Violation("traceql/concurrent-searches-share-a-statement", fmt.Sprintf("two TraceQL searches run at the same time: one statement carries conditions of both: %s", clip(st, 400)), map[string]any{"qa": qa, "qb": qb})
					}
				}
				norm := func(l []string) []string {
					o := make([]string, len(l))
					for i, x := range l {
						o[i] = dedupDisjuncts(x)
					}
					sort.Strings(o)
					return o
				}
				c.Floor("TraceQL searches translated while another was between its portions", 0, 1)
				if !eqs(norm(gotA), norm(refA)) || !eqs(norm(gotB), norm(refB)) {
					c.Violation("traceql/statements-differ-under-concurrent-searches", fmt.Sprintf("TraceQL %s and %s processed in portions at the same time: the first issued %d statements (%d on its own), the second %d (%d on its own); %s",
						qa, qb, len(gotA), len(refA), len(gotB), len(refB), firstDiff(norm(refA), norm(gotA))+" / "+firstDiff(norm(refB), norm(gotB))), map[string]any{"qa": qa, "qb": qb, "together": all})
				}
			}
			if i < 6 {
				c.Sample(map[string]any{"monitor": "traceql", "q": q, "complexity_answer": complexity, "statements": len(s1)})
			}
			c.EndCase(gi)
		case 3: // Pyroscope determinism + concurrent translations of LogQL
			p := profRequests[r.Intn(len(profRequests))]
			c.BeginCase(gi, map[string]any{"query": p.path, "shape": "pyroscope"})
			c.Case("pyroscope|" + p.path + "|" + clip(p.body, 40))
			s1, st1 := tq.post(p.path, p.body)
			tq.post(profRequests[r.Intn(len(profRequests))].path, profRequests[0].body)
			s2, st2 := tq.post(p.path, p.body)
			if st1 != st2 || !eqs(s1, s2) {
				c.Violation("pyroscope/sql-differs-between-translations", fmt.Sprintf("%s %s: status %d/%d: %s", p.path, p.body, st1, st2, firstDiff(s1, s2)), map[string]any{"path": p.path, "body": p.body, "sql1": s1, "sql2": s2})
			} else if len(s1) > 0 {
				c.Floor("queries translated repeatedly (determinism)", 0, 1)
			}
			if gi%16 == 3 {
				// 8 goroutines translating a mix of queries: per query the multiset of statements must not depend on the schedule
				reqs := []logq.Request{genReq(r, db, o, 0), genReq(r, db, o, 1), genReq(r, db, o, 2)}
				ref := make([][]string, len(reqs))
				for j := range reqs {
					ref[j] = sqls(rn.Run(ch, &reqs[j], 20*time.Second))
				}
				var wg sync.WaitGroup
				var mu sync.Mutex
				bad := ""
				for g := 0; g < 8; g++ {
					wg.Add(1)
					go func(g int) {
						defer wg.Done()
						grn := logq.NewRunner(false, true)
						for k := 0; k < 6; k++ {
							j := (g + k) % len(reqs)
							got := sqls(grn.Run(ch, &reqs[j], 20*time.Second))
							if !eqs(got, ref[j]) {
								mu.Lock()
								bad = fmt.Sprintf("query %s translated concurrently: %s", reqs[j].QueryString(), firstDiff(ref[j], got))
								mu.Unlock()
							}
						}
					}(g)
				}
				wg.Wait()
				c.Floor("concurrent translation rounds", 0, 1)
				if bad != "" {
					c.Violation("logql/sql-differs-under-concurrent-translation", bad, map[string]any{"requests": reqs})
				}
			}
			c.EndCase(gi)
		}
	}
}

func clip(s string, n int) string {
	if len(s) > n {
		return s[:n] + "…"
	}
	return s
}

// ---- TraceQL / Pyroscope rig: real reader routes, statements recorded, empty answers ----

var traceQueries = []string{
	`{.a="b"}`, `{span.a="b" && resource.c!="d" || name=~"x.*"}`, `{.n > 5 && duration > 1s}`, `{.a="b"} | count() > 2`, `{.a="b"} | avg(duration) > 1ms`, `{.a="b"} | max(.n) >= 3`,
	`{.a="b"} && {.c="d"}`, `{.a="b"} || {.c="d"}`, `{.a="b" && .a="b"}`, `{.http.status=500 || .http.status=503} | count() > 1`, `{name="GET /x" && .svc=~"a|b"} | min(.n) < 4`,
	// every unit the grammar takes for a duration
	`{.a="b"} | avg(duration) > 1d`, `{.a="b"} | max(duration) >= 2h`, `{.a="b"} | min(duration) < 1.5s`, `{.a="b"} | sum(duration) > 3m`, `{duration > 1d && .a="b"}`, `{.a="b"} | avg(duration) > 10us`, `{.a="b"} | avg(duration) > 7ns`,
}

type profReq struct{ path, body string }

var profTid = `process_cpu:cpu:nanoseconds:cpu:nanoseconds`
var profRequests = []profReq{
	{"/querier.v1.QuerierService/LabelNames", `{"matchers":["{service_name=\"x\"}"],"start":1700000000000,"end":1700003600000}`},
	{"/querier.v1.QuerierService/LabelValues", `{"name":"service_name","matchers":["{a=\"b\"}"],"start":1700000000000,"end":1700003600000}`},
	{"/querier.v1.QuerierService/SelectMergeStacktraces", `{"profile_typeID":"` + profTid + `","label_selector":"{service_name=\"x\", a!=\"b\", c=~\"d.*\"}","start":1700000000000,"end":1700003600000}`},
	{"/querier.v1.QuerierService/SelectSeries", `{"profile_typeID":"` + profTid + `","label_selector":"{service_name=\"x\"}","start":1700000000000,"end":1700003600000,"group_by":["a"],"step":15}`},
	{"/querier.v1.QuerierService/Series", `{"matchers":["{a=\"b\"}"],"label_names":["a"],"start":1700000000000,"end":1700003600000}`},
	{"/querier.v1.QuerierService/SelectMergeProfile", `{"profile_typeID":"` + profTid + `","label_selector":"{a=\"b\"}","start":1700000000000,"end":1700003600000}`},
}

type traceRig struct {
	sess       *sqldrv.Session
	rd         *sqldrv.Reader
	mu         sync.Mutex
	complexity int64
	first      bool
	conc       atomic.Int64 // > 0: concurrent searches, every complexity probe is answered with this value
}

func newTraceRig() *traceRig {
	t := &traceRig{}
	t.sess = sqldrv.NewSession("c14-trace", func(ctx context.Context, q string) (*sqldrv.Rows, error) {
		if c := t.conc.Load(); c > 0 {
			// concurrent searches: the complexity probe is recognised by its text, every other statement takes a few
			// milliseconds, so that the requests are between their portions at the same time
			if strings.Contains(q, "as _count") {
				return sqldrv.NewRows([]string{"c"}, [][]driver.Value{{c}}), nil
			}
			time.Sleep(3 * time.Millisecond)
			return sqldrv.NewRows([]string{"a", "b", "c", "d", "e", "f", "g", "h"}, nil), nil
		}
		t.mu.Lock()
		defer t.mu.Unlock()
		if t.first && t.complexity > 0 {
			t.first = false
			return sqldrv.NewRows([]string{"c"}, [][]driver.Value{{t.complexity}}), nil
		}
		t.first = false
		return sqldrv.NewRows([]string{"a", "b", "c", "d", "e", "f", "g", "h"}, nil), nil
	})
	t.sess.Versions = map[string]string{"tempo_v2": "0"}
	t.sess.Tables = []string{"samples_v3", "time_series", "metrics_15s", "tempo_traces", "tempo_traces_attrs_gin"}
	t.rd = sqldrv.StartReader(sqldrv.NewRegistry(t.sess, ""), "")
	return t
}

func (t *traceRig) do(req *http.Request, complexity int64) ([]string, int) {
	t.mu.Lock()
	t.complexity, t.first = complexity, true
	t.mu.Unlock()
	from := t.sess.LogLen()
	cl := http.Client{Timeout: 20 * time.Second}
	resp, err := cl.Do(req)
	status := 0
	if err == nil {
		io.Copy(io.Discard, resp.Body)
		resp.Body.Close()
		status = resp.StatusCode
	}
	var out []string
	for _, s := range t.sess.Statements(from) {
		if strings.Contains(s.SQL, "FROM settings") || strings.HasPrefix(strings.TrimSpace(s.SQL), "SHOW TABLES") {
			continue
		}
		out = append(out, s.SQL)
	}
	return out, status
}

func (t *traceRig) search(q string, complexity int64) ([]string, int) {
	u := t.rd.Server.URL + "/api/search?" + url.Values{"q": {q}, "start": {"1700000000"}, "end": {"1700003600"}, "limit": {"20"}}.Encode()
	req, _ := http.NewRequest("GET", u, nil)
	return t.do(req, complexity)
}

// searchTogether runs the searches at the same time (all of them portioned) and returns every statement issued.
func (t *traceRig) searchTogether(qs []string, complexity int64) []string {
	t.conc.Store(complexity)
	defer t.conc.Store(0)
	from := t.sess.LogLen()
	var wg sync.WaitGroup
	for _, q := range qs {
		wg.Add(1)
		go func(q string) {
			defer wg.Done()
			u := t.rd.Server.URL + "/api/search?" + url.Values{"q": {q}, "start": {"1700000000"}, "end": {"1700003600"}, "limit": {"20"}}.Encode()
			cl := http.Client{Timeout: 20 * time.Second}
			if resp, err := cl.Get(u); err == nil {
				io.Copy(io.Discard, resp.Body)
				resp.Body.Close()
			}
		}(q)
	}
	wg.Wait()
	var out []string
	for _, s := range t.sess.Statements(from) {
		if strings.Contains(s.SQL, "FROM settings") || strings.HasPrefix(strings.TrimSpace(s.SQL), "SHOW TABLES") {
			continue
		}
		out = append(out, s.SQL)
	}
	return out
}

func (t *traceRig) post(path, body string) ([]string, int) {
	req, _ := http.NewRequest("POST", t.rd.Server.URL+path, strings.NewReader(body))
	req.Header.Set("Content-Type", "application/json")
	return t.do(req, 0)
}
