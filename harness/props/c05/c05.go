// Package c05: no request body can crash or wedge the ingest side.
// Robustness fuzzing of the real writer (router, middleware, parsers, insert services) in
// child processes, with liveness, goroutine-census and canary monitors.
package c05

import (
	"bytes"
	"compress/gzip"
	"encoding/json"
	"fmt"
	"mime/multipart"
	"os"
	"runtime"
	"strings"
	"sync"
	"sync/atomic"
	"time"

	"verif/harness/engines/chw"
	"verif/harness/engines/gen"
	"verif/harness/engines/run"
	"verif/harness/props/reg"
)

func init() {
	reg.Register(&reg.Prop{ID: "C05", Level: "exploration", Main: Main, Child: Child})
}

type childCfg struct {
	Start int `json:"start"`
	N     int `json:"n"`
	Lane  int `json:"lane"`
}

const exitStall = 7

func Main(c *run.Ctx) {
	c.SetRule("hostile requests = valid bodies of every ingest route mutated (byte level, JSON-structure level, protobuf with absent sub-messages, boundary ids, query parameters, lying encodings, headers) or random bytes; " +
		"each is followed by a well-formed canary push; distinct key = route class × content type × mutation operator × answer class")
	c.Assume("a request unanswered after 15 s counts as wedged only if two goroutine dumps 2 s apart show the same goroutine of the request in the same qryn frames")
	c.Assume("database = fake insert client that always succeeds")
	c.Assume("every second lane runs with GOMAXPROCS 1 or 2, the others with all processors; every fourth lane has db_bulk = 64 KiB (size-triggered flushes)")
	total := c.Pick(12000, 240000)
	lanes := c.Pick(8, 14)
	per := (total + lanes - 1) / lanes
	var wg sync.WaitGroup
	for l := 0; l < lanes; l++ {
		wg.Add(1)
		go func(l int) {
			defer wg.Done()
			start, end := l*per, min(total, (l+1)*per)
			for start < end {
				cc := childCfg{Start: start, N: end - start, Lane: l}
				// odd lanes run the writer on one or two processors (a small pod): goroutines a request starts queue
				// behind the one that started them, instead of running beside it
				var env []string
				if l%2 == 1 {
					env = []string{fmt.Sprintf("GOMAXPROCS=%d", 1+(l/2)%2)}
				}
				out := c.RunChild(run.ChildSpec{Prop: "C05", Name: "fuzz", Cfg: cc, Env: env, Timeout: 20 * time.Minute, MemKB: 24 << 20})
				if out.Completed {
					break
				}
				var open gen.HostileCase
				json.Unmarshal(out.OpenCase, &open)
				if out.OpenIdx < 0 {
					if out.TimedOut {
						c.Undecided("child watchdog expired outside a case")
					} else {
						c.Undecided(fmt.Sprintf("child ended (exit %d) outside a case", out.Exit))
						c.Note("child ended outside a case: " + tail(out.Stderr, 1500))
					}
					break
				}
				switch {
				case out.Exit == exitStall:
					// violation (or undecided) already reported by the child
				case out.TimedOut:
					c.Undecided("child watchdog expired inside case")
				default:
					head, frame := run.PanicHead(out.Stderr)
					if head == "" {
						head = fmt.Sprintf("exit %d", out.Exit)
					}
					sig := "process-death/" + routeOf(open) + "/" + frame
					c.Violation(sig, fmt.Sprintf("the ingest process died on one request: %s %s (content-type %q, operator %s): %s at %s", open.Req.Method, open.Req.Path, open.Req.ContentType, open.Op, head, frame),
						map[string]any{"case_index": out.OpenIdx, "case": open, "stderr_tail": tail(out.Stderr, 5000)})
					c.Case(open.Class + "|death")
				}
				start = out.OpenIdx + 1
			}
		}(l)
	}
	wg.Wait()
	for _, r := range gen.IngestRoutes {
		c.Floor("route:"+r, 1, 0)
	}
	c.Floor("canary pushes acknowledged and found intact", total/4, 0)
	c.Floor("multi-portion bodies pushed while another client pushes", c.Pick(100, 300), 0)
	c.Floor("multi-portion bodies uploaded slowly while every INSERT fails", c.Pick(10, 200), 0)
	c.Floor("bursts of eight clients pushing bodies with label names never seen before", c.Pick(50, 500), 0)
	c.Floor("inflating uploads (256 KiB on the wire, 256 MiB inflated) with the allocation meter read around them", c.Pick(50, 500), 0)
}

func routeOf(h gen.HostileCase) string {
	if i := strings.Index(h.Class, "|"); i > 0 {
		return h.Class[:i]
	}
	return "?"
}

func tail(s string, n int) string {
	if len(s) > n {
		return s[len(s)-n:]
	}
	return s
}

var whitelist = []string{
	"writer/service.(*InsertServiceV2).Run", "writer/service.(*InsertServiceV2RoundRobin).Run", "writer/service.(*InsertServiceV2Multimodal).Run",
	"writer/utils/numbercache.", "writer/watchdog.", "writer/utils/stat.", "writer/utils/logger", "CreateStaticServiceRegistry", "verif/harness",
}

func qrynActive(gs []run.Goroutine) map[string]run.Goroutine {
	out := map[string]run.Goroutine{}
	for _, g := range gs {
		fr := g.QrynFrames()
		if len(fr) == 0 {
			continue
		}
		skip := false
		for _, w := range whitelist {
			if strings.Contains(g.Signature(), w) {
				skip = true
			}
		}
		if !skip {
			out[g.ID] = g
		}
	}
	return out
}

// stuckInQryn: goroutines with qryn frames (outside the whitelist) that sit in the same frames in two dumps 2 s apart.
func stuckInQryn() []run.Goroutine {
	d1 := qrynActive(run.Census())
	time.Sleep(2 * time.Second)
	d2 := qrynActive(run.Census())
	var stuck []run.Goroutine
	for id, g := range d1 {
		if g2, ok := d2[id]; ok && strings.Join(g.QrynFrames(), "<") == strings.Join(g2.QrynFrames(), "<") {
			st := strings.SplitN(g2.State, ",", 2)[0]
			if st != "running" && st != "runnable" {
				stuck = append(stuck, g2)
			}
		}
	}
	return stuck
}

func Child(c *run.Ctx, name string) {
	var cfg childCfg
	if err := run.ChildCfg(&cfg); err != nil {
		panic(err)
	}
	led := chw.NewLedger(nil)
	wcfg := chw.WriterCfg{DBTimer: 0.002, RetryAttempts: 1, ChannelsSample: 2, ChannelsTimeSeries: 2}
	if cfg.Lane%4 == 2 {
		// a size-triggered flush as well (db_bulk): batches are cut by size, and one portion can be larger than the cap
		wcfg.DBBulk = 64 << 10
	}
	w := chw.StartWriter(wcfg, led)
	sess := chw.NewSession(w)
	sess.Timeout = 15 * time.Second
	var canaries []*chw.Item
	mkCanary := func(i int) *chw.Item {
		r := c.Rng(fmt.Sprintf("c05/canary/%d", i))
		proto := []string{"loki-json-values", "loki-proto", "remote-write"}[((i%3)+3)%3]
		lc := gen.NewLogCase(r, gen.LogOpts{ID: fmt.Sprintf("cn%d", i), Proto: proto, Streams: 1, MaxEntries: 3, BaseNs: 1700000000000000000})
		it := &chw.Item{Kind: "logs", Req: gen.Render(r, proto, lc), Phase: "canary", Single: true}
		return it
	}
	// warm-up and baseline census
	warm := mkCanary(-1 - cfg.Lane)
	warm.Rec = sess.Send(0, &warm.Req)
	canaries = append(canaries, warm)
	time.Sleep(50 * time.Millisecond)
	base := run.CensusCount(run.Census(), whitelist)
	nBig := 0
	for i := 0; i < cfg.N; i++ {
		gi := cfg.Start + i
		r := c.Rng(fmt.Sprintf("c05/case/%d", gi))
		hc := gen.NewHostile(r, fmt.Sprintf("h%d", gi), gi)
		c.BeginCase(gi, hc)
		if i < 2 {
			c.Sample(map[string]any{"method": hc.Req.Method, "path": hc.Req.Path, "content_type": hc.Req.ContentType, "headers": hc.Req.Headers, "op": hc.Op, "body_prefix": fmt.Sprintf("%q", clip(hc.Req.Body, 160))})
		}
		if gi%400 == 123 {
			// the database refuses every INSERT while a body of several MiB is still being uploaded: the early
			// portions have failed for good before the parser has produced the later ones
			led.SetScript(func(table string, nth int, blk *chw.Block) chw.Outcome { return chw.Err })
			rr := c.Rng(fmt.Sprintf("c05/dbdown/%d", gi))
			proto := []string{"loki-json-values", "loki-json-entries"}[rr.Intn(2)]
			big := gen.Render(rr, proto, gen.NewLogCase(rr, gen.LogOpts{ID: fmt.Sprintf("dd%d", gi), Proto: proto, Streams: 4, MaxEntries: 3, BaseNs: 1700000000000000000, Huge: true}))
			big.SlowUploadMs = 25
			br := sess.Send(2, &big)
			led.SetScript(nil)
			c.Floor("multi-portion bodies uploaded slowly while every INSERT fails", 0, 1)
			if br.Status >= 200 && br.Status < 300 {
				c.Cover("db-down big body", "answered 2xx (C01's subject)", 1)
			}
		}
		if gi%50 == 7 && nBig < 40 {
			nBig++ // the ledger keeps every row of the child: a bounded number of multi-MiB bodies per child
			// a body of several MiB (the parser hands it on in portions while it is still reading), whole or cut off
			// near its end, while another client's well-formed pushes arrive: the portions already handed on are being
			// copied into the shared batch while the parser works on the next one
			rr := c.Rng(fmt.Sprintf("c05/big/%d", gi))
			proto := []string{"loki-json-values", "loki-json-entries", "loki-json-values"}[rr.Intn(3)]
			// either every stream is a portion of its own, or one stream crosses the portion size and short ones follow
			// (the next portion is then ready microseconds after the first was handed on)
			lo := gen.LogOpts{ID: fmt.Sprintf("bg%d", gi), Proto: proto, Streams: 3, MaxEntries: 3, BaseNs: 1700000000000000000, Huge: true}
			if rr.Intn(2) == 0 {
				lo.Huge, lo.Big, lo.Streams = false, true, 2+rr.Intn(4)
			}
			big := gen.Render(rr, proto, gen.NewLogCase(rr, lo))
			cut := rr.Intn(2) == 0
			if cut {
				big.Body = big.Body[:len(big.Body)-1-rr.Intn(2000)]
			}
			if rr.Intn(3) == 0 {
				big.SlowUploadMs = 2 // otherwise at full speed: the parser is never short of bytes
			}
			var wgb sync.WaitGroup
			var side []*chw.Item
			wgb.Add(1)
			go func() {
				defer wgb.Done()
				for k := 0; k < 4; k++ {
					cn := mkCanary(1000000 + gi*8 + k)
					cn.Rec = sess.Send(2, &cn.Req)
					side = append(side, cn)
				}
			}()
			br := sess.Send(3, &big)
			wgb.Wait()
			canaries = append(canaries, side...)
			if !cut && br.Status >= 200 && br.Status < 300 {
				// a whole, well-formed body that was acknowledged: its rows are judged like a canary's (each in a
				// successful block, none torn), so that portions mixed up among themselves are seen too
				bi := &chw.Item{Kind: "logs", Req: big, Phase: "canary"}
				bi.Rec = br
				canaries = append(canaries, bi)
			}
			c.Floor("multi-portion bodies pushed while another client pushes", 0, 1)
			c.Cover("big body", fmt.Sprintf("%s one-portion-per-stream=%v cut=%v answered %dxx", proto, lo.Huge, cut, br.Status/100), 1)
			if br.Status == 0 {
				if stuck := stuckInQryn(); len(stuck) > 0 {
					top := stuck[0].QrynFrames()[0]
					raw := ""
					for _, g := range stuck {
						raw += g.Raw + "\n\n"
					}
					c.Violation("wedged/multi-portion-body/"+top, fmt.Sprintf("no HTTP answer for a well-formed %s push of %d bytes (one stream per portion: %v, cut off: %v) after %v; %d goroutine(s) of the request are blocked in the same qryn frames in two dumps 2 s apart, innermost %s [%s]; writer configuration %+v",
						proto, len(big.Body), lo.Huge, cut, sess.Timeout, len(stuck), top, stuck[0].State, wcfg),
						map[string]any{"case_index": gi, "big_body": true, "client_error": br.Err, "goroutines": clipS(raw, 6000)})
				} else {
					c.Undecided("multi-portion body unanswered (" + clipS(br.Err, 100) + ")")
				}
				os.Exit(exitStall)
			}
		}
		if gi%200 == 123 {
			// the database goes away for a moment: one INSERT fails (connection-level errors among the scripted ones)
			// and the reconnect made right after it is refused once. The push caught in it must still be answered.
			var failed atomic.Int32
			led.SetScript(func(table string, nth int, blk *chw.Block) chw.Outcome {
				if failed.Add(1) <= 2 {
					return chw.Err
				}
				return chw.OK
			})
			led.RefuseNext(1)
			cn := mkCanary(2000000 + gi)
			cn.Rec = sess.Send(4, &cn.Req)
			led.SetScript(nil)
			c.Floor("pushes caught in a failed INSERT followed by a refused reconnect", 0, 1)
			if cn.Rec.Status == 0 {
				if stuck := stuckInQryn(); len(stuck) > 0 {
					top := stuck[0].QrynFrames()[0]
					c.Violation("wedged/after-failed-insert-and-refused-reconnect/"+top, fmt.Sprintf("a well-formed %s push got no HTTP answer within %v after its INSERT failed and the reconnect was refused once; %d goroutine(s) of the request are blocked in the same qryn frames in two dumps 2 s apart, innermost %s [%s]",
						cn.Req.Proto, sess.Timeout, len(stuck), top, stuck[0].State), map[string]any{"case_index": gi, "refuse": true})
				} else {
					c.Undecided("push unanswered after a failed INSERT and a refused reconnect, no goroutine stuck in qryn frames")
				}
				os.Exit(exitStall)
			}
			c.Cover("failed INSERT + refused reconnect", fmt.Sprintf("answered %dxx", cn.Rec.Status/100), 1)
		}
		if gi%100 == 33 {
			// a burst: eight clients push at the same moment, every body with label names nobody has sent before
			// (agents starting together, keys generated per pod or request): whatever the parsers keep between requests
			// is written by all of them at once
			var wgb sync.WaitGroup
			var bmu sync.Mutex
			var burst []*chw.Item
			for cl := 0; cl < 8; cl++ {
				wgb.Add(1)
				go func(cl int) {
					defer wgb.Done()
					rb := c.Rng(fmt.Sprintf("c05/burst/%d/%d", gi, cl))
					for j := 0; j < 6; j++ {
						proto := []string{"loki-json-values", "loki-proto", "remote-write", "influx-log", "loki-json-entries"}[rb.Intn(5)]
						var pool []string
						for k := 0; k < 8; k++ {
							pool = append(pool, fmt.Sprintf("k%d_%d_%d_%d", gi, cl, j, k))
						}
						lc := gen.NewLogCase(rb, gen.LogOpts{ID: fmt.Sprintf("bu%d-%d-%d", gi, cl, j), Proto: proto, Streams: 1 + rb.Intn(3), MaxEntries: 3, BaseNs: 1700000000000000000, LabelPool: pool})
						it := &chw.Item{Kind: "logs", Req: gen.Render(rb, proto, lc), Phase: "canary", Single: true}
						it.Rec = sess.Send(10+cl, &it.Req)
						bmu.Lock()
						burst = append(burst, it)
						bmu.Unlock()
					}
				}(cl)
			}
			wgb.Wait()
			canaries = append(canaries, burst...)
			c.Floor("bursts of eight clients pushing bodies with label names never seen before", 0, 1)
		}
		if gi%100 == 66 {
			// an upload that inflates: a well-formed multipart /ingest request whose gzip'd profile part is 256 KiB on the
			// wire and 256 MiB of zeros once inflated. The writer refuses uploads of more than 100 000 bytes uncompressed;
			// refusing must not mean inflating the whole part first (the process is ended by the kernel long before a
			// real bomb of this ratio is through). Monitor: bytes allocated by the process while the request is handled.
			inflOnce.Do(func() { inflReq = inflatingUpload(256 << 20) })
			rq := inflReq
			var m0, m1 runtime.MemStats
			runtime.ReadMemStats(&m0)
			brec := sess.Send(1, &rq)
			runtime.ReadMemStats(&m1)
			grown := m1.TotalAlloc - m0.TotalAlloc
			c.Floor("inflating uploads (256 KiB on the wire, 256 MiB inflated) with the allocation meter read around them", 0, 1)
			c.Cover("inflating upload", fmt.Sprintf("answered %dxx, %d MiB allocated meanwhile", brec.Status/100, grown>>20), 1)
			if grown > 64<<20 {
				c.Violation("inflating-upload/held-in-memory", fmt.Sprintf("a multipart /ingest upload of %d bytes whose profile part inflates to 256 MiB was answered %d, and the process allocated %d MiB while handling it (bound: 64 MiB; the limit the decompressor enforces is 100 000 bytes): the part is inflated in full before its size is looked at",
					len(rq.Body), brec.Status, grown>>20), map[string]any{"case_index": gi, "stage": "inflating-upload", "allocated": grown, "status": brec.Status})
			}
		}
		rec := sess.Send(1, &hc.Req)
		timedOut := func(e string) bool {
			return strings.Contains(e, "Client.Timeout") || strings.Contains(e, "deadline exceeded")
		}
		if rec.Status == 0 && !timedOut(rec.Err) {
			if strings.Contains(rec.Err, "invalid header") || strings.HasPrefix(rec.Err, "build:") || strings.Contains(rec.Err, "invalid URL") || strings.Contains(rec.Err, "invalid method") {
				// the client library refused to send it: not a request
				c.Case("")
				c.Cover("generator", "request not sendable", 1)
				c.EndCase(gi)
				continue
			}
			// connection closed without a response: try once more to rule out a transport hiccup
			rec2 := sess.Send(1, &hc.Req)
			if rec2.Status == 0 && !timedOut(rec2.Err) {
				c.Case(hc.Class + "|no-response")
				c.Violation("no-response/"+routeOf(hc)+"/"+strings.SplitN(hc.Op, ":", 2)[0], fmt.Sprintf("%s %s (content-type %q, operator %s): the connection was closed twice without any HTTP response (%s)", hc.Req.Method, hc.Req.Path, hc.Req.ContentType, hc.Op, rec2.Err),
					map[string]any{"case_index": gi, "case": hc, "client_error": rec2.Err})
				c.EndCase(gi)
				continue
			}
			rec = rec2
		}
		if rec.Status == 0 {
			// no answer: is a goroutine of the request stuck in qryn code?
			d1 := qrynActive(run.Census())
			time.Sleep(2 * time.Second)
			d2 := qrynActive(run.Census())
			var stuck []run.Goroutine
			for id, g := range d1 {
				if g2, ok := d2[id]; ok && strings.Join(g.QrynFrames(), "<") == strings.Join(g2.QrynFrames(), "<") {
					stuck = append(stuck, g2)
				}
			}
			if len(stuck) > 0 {
				fr := stuck[0].QrynFrames()
				top := fr[0]
				for _, g := range stuck { // prefer a parser / handler frame over generic ones
					if f := g.QrynFrames(); strings.Contains(f[0], "unmarshal") {
						top = f[0]
					}
				}
				raw := ""
				for _, g := range stuck {
					raw += g.Raw + "\n\n"
				}
				c.Case(hc.Class + "|no-answer")
				c.Violation("wedged/"+routeOf(hc)+"/"+top, fmt.Sprintf("no HTTP answer for %s %s (content-type %q, operator %s) after %v; %d goroutine(s) of the request sit in the same qryn frames in two dumps 2 s apart, innermost %s [%s]",
					hc.Req.Method, hc.Req.Path, hc.Req.ContentType, hc.Op, sess.Timeout, len(stuck), top, stuck[0].State),
					map[string]any{"case_index": gi, "case": hc, "client_error": rec.Err, "goroutines": clipS(raw, 6000)})
			} else {
				c.Case(hc.Class + "|no-answer")
				c.Undecided("request unanswered at the client timeout but no goroutine stuck in qryn frames (" + rec.Err + ")")
			}
			// the process may now hold a spinning/blocked goroutine: end this child, the parent resumes after the case
			os.Exit(exitStall)
		}
		cls := fmt.Sprintf("%dxx", rec.Status/100)
		c.Case(hc.Class + "|" + cls)
		c.Cover("route/status", routeOf(hc)+"/"+cls, 1)
		c.Cover("operator", strings.SplitN(hc.Op, ":", 2)[0], 1)
		for _, rt := range gen.IngestRoutes {
			if strings.HasPrefix(hc.Req.Path, rt) || (strings.HasPrefix(rt, "/idx") && strings.Contains(hc.Req.Path, "_")) {
				c.Floor("route:"+rt, 1, 1)
			}
		}
		// canary: a well-formed push from "another client" right after the hostile one
		cn := mkCanary(gi)
		cn.Rec = sess.Send(2, &cn.Req)
		canaries = append(canaries, cn)
		if cn.Rec.Status == 0 && timedOut(cn.Rec.Err) && len(stuckInQryn()) == 0 {
			// no answer within the client timeout and nothing of the request sits still in qryn code: a loaded
			// machine, not a verdict
			c.Undecided("canary push unanswered at the client timeout, no goroutine stuck in qryn frames")
			os.Exit(exitStall)
		}
		if cn.Rec.Status < 200 || cn.Rec.Status > 299 {
			c.Violation("canary-rejected-after/"+routeOf(hc)+"/"+strings.SplitN(hc.Op, ":", 2)[0], fmt.Sprintf("after %s %s (operator %s, answered %d) a well-formed %s push was answered %d %s %s: the server no longer serves other clients' requests correctly",
				hc.Req.Method, hc.Req.Path, hc.Op, rec.Status, cn.Req.Proto, cn.Rec.Status, clipS(cn.Rec.Body, 150), cn.Rec.Err),
				map[string]any{"case_index": gi, "case": hc, "canary_proto": cn.Req.Proto})
			if cn.Rec.Status == 0 {
				os.Exit(exitStall)
			}
		}
		c.EndCase(gi)
	}
	// batch integrity: every block rectangular; every canary row acknowledged whole
	blocks := led.Snapshot()
	for _, b := range blocks {
		if !b.Rect || b.EncodeErr != "" {
			c.Violation("batch-corrupted/"+strings.TrimSuffix(b.Table, "_dist"), fmt.Sprintf("hostile input left a non-rectangular block in the batch shared with other clients: %s rows %v (%s)", b.Table, b.ColRows, b.EncodeErr),
				map[string]any{"start": cfg.Start, "n": cfg.N, "table": b.Table, "column_rows": b.ColRows})
		}
	}
	a := chw.AnalyzeOpts(canaries, blocks, true)
	okCan := 0
	for i, cn := range canaries {
		if cn.Rec == nil || cn.Rec.Status < 200 || cn.Rec.Status > 299 {
			continue
		}
		good := true
		for k := range a.Expected[i] {
			if !a.AckedOK(k, cn.Rec.AnsT) {
				good = false
				c.Violation("canary-rows-lost", fmt.Sprintf("canary push %d acknowledged %d but row %s is in no successful block", i, cn.Rec.Status, k), map[string]any{"start": cfg.Start})
				break
			}
		}
		if good {
			okCan++
		}
	}
	for i, f := range a.Foreign {
		if i < 3 {
			c.Violation("canary-rows-torn", "a row attributed to a well-formed canary stream is not a submitted row: "+f, map[string]any{"start": cfg.Start, "all": a.Foreign})
		}
	}
	c.Floor("canary pushes acknowledged and found intact", 0, okCan)
	c.Event("insert_blocks", len(blocks))
	// goroutine census: everything started for the requests must be gone
	var diff []string
	for t := 0; t < 30; t++ {
		diff = run.CensusDiff(base, run.CensusCount(run.Census(), whitelist))
		if len(diff) == 0 {
			break
		}
		time.Sleep(100 * time.Millisecond)
	}
	if len(diff) > 0 {
		c.Violation("goroutine-leak/"+clipS(diff[0], 120), fmt.Sprintf("after %d hostile requests and 3 s of quiescence %d kinds of request goroutines are still alive, e.g. %s", cfg.N, len(diff), diff[0]),
			map[string]any{"start": cfg.Start, "n": cfg.N, "leaked": diff})
	}
	c.Event("census_checks", 1)
	w.Shutdown()
}

func clip(b []byte, n int) []byte {
	if len(b) > n {
		return b[:n]
	}
	return b
}

func clipS(s string, n int) string {
	if len(s) > n {
		return s[:n] + "…"
	}
	return s
}

var (
	inflOnce sync.Once
	inflReq  gen.Request
)

// inflatingUpload: a multipart /ingest request whose "profile" part is a gzip stream of n zero bytes.
func inflatingUpload(n int) gen.Request {
	var gzbuf bytes.Buffer
	gz, _ := gzip.NewWriterLevel(&gzbuf, gzip.BestCompression)
	zeros := make([]byte, 1<<20)
	for w := 0; w < n; w += len(zeros) {
		gz.Write(zeros)
	}
	gz.Close()
	var body bytes.Buffer
	mw := multipart.NewWriter(&body)
	fw, _ := mw.CreateFormFile("profile", "profile.pprof")
	fw.Write(gzbuf.Bytes())
	mw.Close()
	return gen.Request{Proto: "pprof-multipart", Method: "POST", Path: "/ingest?name=inflate%7Brid%3Dinflate%7D&from=1700000000&until=1700000010",
		ContentType: mw.FormDataContentType(), Body: body.Bytes()}
}
