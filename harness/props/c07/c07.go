// Package c07: the SQL generated for a LogQL log query selects exactly the matching lines.
// Translation validation by execution: qryn's real parser + planner chain produce SQL, the
// reference interpreter (E-CHSQL) executes it on generated tables, and the rows that come out
// of the real row scanner are compared with a direct LogQL evaluator (E-REF).
package c07

import (
	"encoding/json"
	"errors"
	"fmt"
	"sort"
	"strings"
	"time"

	"verif/harness/engines/chsql"
	"verif/harness/engines/logq"
	"verif/harness/engines/run"
	"verif/harness/props/reg"
)

func init() {
	reg.Register(&reg.Prop{ID: "C07", Level: "translation_validation", Main: Main, Child: Child})
}

type childCfg struct {
	Start int `json:"start"`
	N     int `json:"n"`
}

func Main(c *run.Ctx) {
	c.SetRule("(query, database) pairs: queries generated from an abstract LogQL model (matchers = != =~ !~, line filters |= != |~ !~, label filters with and/or/parentheses over string and numeric comparisons, json with parameters, regexp, drop), " +
		"rendered to text and parsed/planned by qryn; databases of 1–8 series × 0–30 samples with hostile label values and lines, samples at the window edges and of the metric type; " +
		"distinct key = query shape (literals abstracted) × limit class × direction × cluster; violations are minimised by deleting stages/matchers and signed with the minimal failing shape")
	c.Assume("ClickHouse semantics = E-CHSQL (DESIGN Appendix A); LogQL semantics = DESIGN Appendix E, judged cases constructed so that every reasonable reading agrees, others are probes")
	total := c.Pick(3000, 120000)
	per := c.Pick(1000, 6000)
	RunChildren(c, "C07", total, per)
	c.Floor("queries whose result was compared row by row", total*6/10, 0)
	c.Floor("non-empty expected results", total/5, 0)
	c.Floor("queries with a limit that cut the result", 5, 0)
}

// RunChildren is shared by C07/C08/C09.
func RunChildren(c *run.Ctx, prop string, total, per int) {
	for s := 0; s < total; s += per {
		start := s
		for start < min(total, s+per) {
			cc := childCfg{Start: start, N: min(total, s+per) - start}
			out := c.RunChild(run.ChildSpec{Prop: prop, Name: "tv", Cfg: cc, Timeout: 15 * time.Minute})
			if out.Completed {
				break
			}
			if out.TimedOut {
				c.Undecided("child watchdog expired")
				break
			}
			if out.OpenIdx < 0 {
				c.Undecided(fmt.Sprintf("child ended (exit %d) outside a case", out.Exit))
				c.Note("child ended outside a case: " + tail(out.Stderr, 1200))
				break
			}
			head, frame := run.PanicHead(out.Stderr)
			var oc struct {
				Query string `json:"query"`
				Shape string `json:"shape"`
			}
			json.Unmarshal(out.OpenCase, &oc)
			c.Case(oc.Shape + "|death")
			c.Violation("process-death/"+frame, fmt.Sprintf("the process died while answering query %s: %s at %s", oc.Query, head, frame),
				map[string]any{"case_index": out.OpenIdx, "case": out.OpenCase, "stderr": tail(out.Stderr, 4000)})
			start = out.OpenIdx + 1
		}
	}
}

func tail(s string, n int) string {
	if len(s) > n {
		return s[len(s)-n:]
	}
	return s
}

type row struct {
	labels string
	ts     int64
	line   string
}

func (r row) key() string { return fmt.Sprintf("%s|%d|%q", r.labels, r.ts, r.line) }

// compare returns "" if got is a correct answer for the expected entries under limit/direction.
func Compare(exp []logq.Entry, out *logq.Output, limit int64, forward bool) (kind string, detail string, cut bool) {
	var e []row
	for _, x := range exp {
		e = append(e, row{logq.CanonLabels(x.Labels), x.Ts, x.Line})
	}
	var g []row
	for _, x := range out.Entries {
		g = append(g, row{logq.CanonLabels(x.Labels), x.TimestampNS, x.Message})
	}
	expCount := map[string]int{}
	for _, r := range e {
		expCount[r.key()]++
	}
	gotCount := map[string]int{}
	for _, r := range g {
		gotCount[r.key()]++
	}
	if limit > 0 && int64(len(e)) > limit {
		cut = true
		sort.Slice(e, func(i, j int) bool {
			if forward {
				return e[i].ts < e[j].ts
			}
			return e[i].ts > e[j].ts
		})
		cutTs := e[limit-1].ts
		if int64(len(g)) != limit {
			return "limit-count", fmt.Sprintf("limit %d with %d matching lines: %d lines returned", limit, len(e), len(g)), cut
		}
		for k, n := range gotCount {
			if expCount[k] < n {
				return "limit-foreign-line", "a returned line is not a matching line (or is duplicated): " + k, cut
			}
		}
		// every line strictly on the kept side of the cut must be present
		for _, r := range e {
			strictly := r.ts > cutTs
			if forward {
				strictly = r.ts < cutTs
			}
			if strictly && gotCount[r.key()] < expCount[r.key()] {
				return "limit-not-newest", fmt.Sprintf("limit %d: line %s is %s than the cut (%d) but is missing from the result", limit, r.key(), map[bool]string{true: "older", false: "newer"}[forward], cutTs), cut
			}
		}
		return "", "", cut
	}
	var missing, extra []string
	for k, n := range expCount {
		if gotCount[k] < n {
			missing = append(missing, k)
		}
	}
	for k, n := range gotCount {
		if expCount[k] < n {
			extra = append(extra, k)
		}
	}
	sort.Strings(missing)
	sort.Strings(extra)
	switch {
	case len(missing) > 0 && len(extra) > 0:
		// same line under other labels?
		lineOnly := func(k string) string { return k[strings.Index(k, "|"):] }
		if lineOnly(missing[0]) == lineOnly(extra[0]) || sameLines(missing, extra) {
			return "wrong-labels", fmt.Sprintf("line returned under other labels: expected %s got %s", missing[0], extra[0]), cut
		}
		return "wrong-lines", fmt.Sprintf("%d matching lines missing (e.g. %s) and %d non-matching lines returned (e.g. %s)", len(missing), missing[0], len(extra), extra[0]), cut
	case len(missing) > 0:
		return "lines-missing", fmt.Sprintf("%d of %d matching lines missing, e.g. %s", len(missing), len(e), missing[0]), cut
	case len(extra) > 0:
		return "lines-extra", fmt.Sprintf("%d lines returned that do not match the query (or lie outside the window / are not log samples), e.g. %s", len(extra), extra[0]), cut
	}
	return "", "", cut
}

func sameLines(a, b []string) bool {
	strip := func(s []string) string {
		o := make([]string, len(s))
		for i, k := range s {
			o[i] = k[strings.Index(k, "|"):]
		}
		sort.Strings(o)
		return strings.Join(o, "\n")
	}
	return strip(a) == strip(b)
}

// judge runs one request and classifies the outcome.
func Judge(rn *logq.Runner, db *logq.DB, ch *chsql.DB, req *logq.Request) (kind, detail string, decided bool, cut bool, out *logq.Output, nexp int) {
	exp, err := logq.EvalLog(db, req.Log, req.StartNs, req.EndNs)
	var probe *logq.ErrProbe
	if errors.As(err, &probe) {
		return "", probe.Why, false, false, nil, 0
	}
	if err != nil {
		return "", "evaluator: " + err.Error(), false, false, nil, 0
	}
	out = rn.Run(ch, req, 20*time.Second)
	if out.TimedOut {
		return "", "timeout", false, false, out, len(exp)
	}
	if out.Err != nil {
		var raise *chsql.RaiseError
		switch {
		case errors.Is(out.Err, chsql.ErrUnsupported):
			return "", "oracle: " + out.Err.Error(), false, false, out, len(exp)
		case errors.As(out.Err, &raise):
			return "sql-raises/" + raise.Rule, "ClickHouse would reject the generated statement: " + raise.Error(), true, false, out, len(exp)
		case len(out.Execs) == 0:
			return "", "rejected before SQL: " + out.Err.Error(), false, false, out, len(exp) // unsupported by qryn
		}
		return "query-error", "the query failed after its SQL ran: " + out.Err.Error(), true, false, out, len(exp)
	}
	kind, detail, cut = Compare(exp, out, req.Limit, req.Forward)
	return kind, detail, true, cut, out, len(exp)
}

// shrink deletes stages and matchers while the same kind of mismatch persists.
func Shrink(rn *logq.Runner, db *logq.DB, ch *chsql.DB, req logq.Request, kind string) logq.Request {
	cur := req
	lq := *req.Log
	cur.Log = &lq
	changed := true
	budget := 40
	for changed && budget > 0 {
		changed = false
		for i := 0; i < len(cur.Log.Stages) && budget > 0; i++ {
			t := cur
			q := *cur.Log
			q.Stages = append(append([]logq.Stage{}, cur.Log.Stages[:i]...), cur.Log.Stages[i+1:]...)
			t.Log = &q
			budget--
			if k, _, dec, _, _, _ := Judge(rn, db, ch, &t); dec && k == kind {
				cur, changed = t, true
				break
			}
		}
		if changed {
			continue
		}
		for i := 0; i < len(cur.Log.Matchers) && len(cur.Log.Matchers) > 1 && budget > 0; i++ {
			t := cur
			q := *cur.Log
			q.Matchers = append(append([]logq.Matcher{}, cur.Log.Matchers[:i]...), cur.Log.Matchers[i+1:]...)
			t.Log = &q
			budget--
			if k, _, dec, _, _, _ := Judge(rn, db, ch, &t); dec && k == kind {
				cur, changed = t, true
				break
			}
		}
		if !changed && cur.Limit != 0 && budget > 0 {
			t := cur
			t.Limit = 0
			budget--
			if k, _, dec, _, _, _ := Judge(rn, db, ch, &t); dec && k == kind {
				cur, changed = t, true
			}
		}
	}
	return cur
}

func Child(c *run.Ctx, name string) {
	var cfg childCfg
	run.ChildCfg(&cfg)
	runners := map[bool]*logq.Runner{false: logq.NewRunner(false, true), true: logq.NewRunner(true, true)}
	shrunk := 0
	for i := 0; i < cfg.N; i++ {
		gi := cfg.Start + i
		r := c.Rng(fmt.Sprintf("c07/case/%d", gi))
		start := int64(1700000000+r.Intn(3)*86400-r.Intn(2)*43200) * 1e9
		end := start + int64([]int{1, 10, 60, 600, 3600, 90000}[r.Intn(6)])*1e9
		o := logq.GenOpts{Hostile: r.Intn(2) == 0, JSONLines: r.Intn(3) == 0, MaxSeries: 8, MaxSamples: 30, StartNs: start, EndNs: end}
		db := logq.NewDB(r, o)
		req := logq.Request{Log: logq.GenLogQuery(r, db, o), StartNs: start, EndNs: end, Step: 5 * time.Second,
			Limit: []int64{0, 1, 3, 10, 100, 1000}[r.Intn(6)], Forward: r.Intn(3) == 0}
		cluster := gi%5 == 4
		rn := runners[cluster]
		ch := db.Load(cluster)
		shape := req.Shape()
		c.BeginCase(gi, map[string]any{"query": req.QueryString(), "shape": shape})
		kind, detail, decided, cut, out, nexp := Judge(rn, db, ch, &req)
		lim := "nolimit"
		if req.Limit > 0 {
			lim = "limit"
		}
		c.Case(fmt.Sprintf("%s|%s|fwd=%v|cluster=%v", shape, lim, req.Forward, cluster))
		if i < 3 {
			sample := map[string]any{"query": req.QueryString(), "start": req.StartNs, "end": req.EndNs, "limit": req.Limit, "forward": req.Forward, "series": len(db.Series), "samples": len(db.Samples), "expected_lines": nexp}
			if out != nil && len(out.Execs) > 0 {
				sample["sql"] = out.Execs[len(out.Execs)-1].SQL
			}
			c.Sample(sample)
		}
		if !decided {
			switch {
			case strings.HasPrefix(detail, "oracle:") || strings.HasPrefix(detail, "evaluator:") || detail == "timeout":
				c.Undecided(clip(detail, 80))
			case strings.HasPrefix(detail, "rejected before SQL"):
				c.Cover("not-judged", "rejected by qryn before any SQL (unsupported)", 1)
			default:
				c.Cover("probes", detail, 1)
			}
			c.EndCase(gi)
			continue
		}
		c.Floor("queries whose result was compared row by row", 0, 1)
		c.Extra("programs", gi+1)
		if nexp > 0 {
			c.Floor("non-empty expected results", 0, 1)
		}
		if cut {
			c.Floor("queries with a limit that cut the result", 0, 1)
		}
		if kind != "" {
			minReq := req
			if shrunk < 25 {
				shrunk++
				minReq = Shrink(rn, db, ch, req, kind)
			}
			_, mdetail, _, _, mout, _ := Judge(rn, db, ch, &minReq)
			sqlText := ""
			if mout != nil && len(mout.Execs) > 0 {
				sqlText = mout.Execs[len(mout.Execs)-1].SQL
			}
			c.Violation(kind+"/"+minReq.SigShape(), fmt.Sprintf("query %s over [%d,%d) limit %d forward %v: %s", minReq.QueryString(), req.StartNs, req.EndNs, minReq.Limit, req.Forward, mdetail),
				map[string]any{"case_index": gi, "query": minReq.QueryString(), "original_query": req.QueryString(), "original_detail": detail, "request": minReq, "db": db, "cluster": cluster, "sql": sqlText})
		}
		c.EndCase(gi)
	}
}

func clip(s string, n int) string {
	if len(s) > n {
		return s[:n] + "…"
	}
	return s
}
