package all

import _ "verif/harness/props/c13"
