// Package all links every property check into vrun.
package all
