// Package reg is the registry of property checks compiled into vrun.
package reg

import "verif/harness/engines/run"

type Prop struct {
	ID    string
	Level string
	// Main runs the check in the parent process.
	Main func(c *run.Ctx)
	// Child runs a named child task (crash-isolated); may be nil.
	Child func(c *run.Ctx, name string)
	// Replay re-runs a stored case; may be nil.
	Replay func(c *run.Ctx, path string)
}

var Props = map[string]*Prop{}

func Register(p *Prop) { Props[p.ID] = p }
