package c12

import (
	"context"
	"database/sql/driver"
	"fmt"
	"io"
	"math/rand"
	"net"
	"os"
	"strings"
	"syscall"

	"verif/harness/engines/rdcat"
)

// dbPlan scripts the database for one case.
type dbPlan struct {
	// Target: ordinal of the statement (among those the request issues, schema lookups
	// excluded) the plan applies to; -1 = every statement. Other statements get a few
	// well-shaped rows.
	Target int `json:"target"`
	// Mode: ok | err-open | err-row | cancel-open | cancel-row | hold (rows are held at row
	// HoldAt until the client has gone away)
	Mode  string `json:"mode"`
	ErrAt int    `json:"err_at"`
	// Shape: empty | one | few | batch (exactly 100) | many (10^4)
	Shape string      `json:"shape"`
	Twist rdcat.Twist `json:"twist,omitempty"`
}

func (p dbPlan) class() string {
	s := p.Mode + "/" + p.Shape
	if p.Twist != "" {
		s += "/" + string(p.Twist)
	}
	return s
}

// ccase is one C12 case.
type ccase struct {
	Idx    int           `json:"idx"`
	Gen    rdcat.GenCase `json:"gen"`
	DB     dbPlan        `json:"db"`
	Client string        `json:"client"` // normal | abandon-early | abandon-mid | ws-read | ws-close | ws-plain
	Tail   bool          `json:"tail,omitempty"`
}

// trigger is the input class used to recognise a repeat of a confirmed wedge or crasher.
func (c *ccase) trigger() string {
	return c.Gen.Endpoint + "|" + shapeClass(c.Gen.QueryShape) + "|" + strings.Join(c.Gen.Specials, ",") + "|" + c.DB.class() + "|" + c.Client
}

// wedgeKey is the coarser input class used to avoid re-running a confirmed wedge (17 s each).
func (c *ccase) wedgeKey() string {
	return "wedge:" + c.Gen.Endpoint + "|" + strings.Join(c.Gen.Specials, ",") + "|" + c.DB.Mode + fmt.Sprint(c.DB.Target) + "|" + c.Client
}

// shapeClass abstracts the query shape for trigger keys (metric vs log etc.).
func shapeClass(s string) string {
	switch {
	case strings.HasPrefix(s, "mut:"), strings.HasPrefix(s, "random"):
		return "garbled"
	case strings.HasPrefix(s, "metric"):
		return "metric"
	case strings.HasPrefix(s, "log"):
		return "log"
	}
	return s
}

func (c *ccase) class(answer string) string {
	return c.Gen.Class() + "|" + c.DB.class() + "|" + c.Client + "|" + answer
}

var shapes = []string{"empty", "one", "one", "few", "few", "few", "batch", "many"}
var modes = []string{"ok", "ok", "ok", "ok", "ok", "ok", "err-open", "err-row", "err-row", "cancel-open", "cancel-row", "err-conn"}

// connErrs: what a statement returns while the database cannot be reached or drops every connection
var connErrs = []error{io.EOF, io.ErrUnexpectedEOF, syscall.ECONNRESET, syscall.EPIPE, driver.ErrBadConn,
	&net.OpError{Op: "dial", Net: "tcp", Err: syscall.ECONNREFUSED}, &net.OpError{Op: "read", Net: "tcp", Err: syscall.ECONNRESET}}

func genCase(r *rand.Rand, idx int) *ccase {
	if r.Intn(12) == 0 && os.Getenv("VERIF_C12_ENDPOINT") == "" {
		return directed(r, idx)
	}
	ep := rdcat.PickEndpoint(r)
	if only := os.Getenv("VERIF_C12_ENDPOINT"); only != "" && rdcat.ByName(only) != nil { // development aid
		ep = rdcat.ByName(only)
	}
	c := &ccase{Idx: idx, Gen: ep.Gen(r), Client: "normal"}
	c.DB = dbPlan{Target: []int{0, 0, 0, 1, -1, -1}[r.Intn(6)], Mode: modes[r.Intn(len(modes))], Shape: shapes[r.Intn(len(shapes))]}
	if r.Intn(4) == 0 {
		c.DB.Twist = rdcat.Twists[r.Intn(len(rdcat.Twists))]
	}
	// result-set shapes that only one kind of statement can have: a third of the cases of the endpoints that read a call tree
	for _, k := range ep.Kinds {
		if k == rdcat.KProfTree && r.Intn(3) != 0 {
			// two thirds of the cases of the endpoints that read a call tree: a tree of an unexpected shape (cyclic, or
			// rows with fewer / other elements than the reader indexes), mostly behind a request the endpoint accepts
			c.DB.Twist, c.DB.Target = rdcat.TwCycle, -1
			if r.Intn(2) == 0 {
				c.DB.Twist = []rdcat.Twist{rdcat.TwShortID, rdcat.TwWrongType, rdcat.TwNull, rdcat.TwStrForNum, rdcat.TwFewCols}[r.Intn(5)]
			}
			if r.Intn(4) != 0 {
				c.DB.Mode = "ok"
			}
			if r.Intn(3) != 0 {
				// a request the endpoint accepts, so that the stored tree is read at all
				c.Gen = rdcat.GenCase{Req: ep.Canon, Endpoint: ep.Name, QueryShape: "canonical"}
			}
		}
	}
	for _, k := range ep.Kinds {
		if (k == rdcat.KPromSamples || k == rdcat.KStreams || k == rdcat.KMatrix || k == rdcat.KProfPoints) && r.Intn(5) == 0 {
			// one label set stored under several fingerprints, in every statement of the request
			c.DB.Twist, c.DB.Target = rdcat.TwTwins, -1
			if r.Intn(4) != 0 {
				c.DB.Mode = "ok"
			}
			if c.DB.Shape == "empty" || c.DB.Shape == "one" {
				c.DB.Shape = "batch"
			}
			if r.Intn(3) != 0 {
				c.Gen = rdcat.GenCase{Req: ep.Canon, Endpoint: ep.Name, QueryShape: "canonical"}
			}
			break
		}
	}
	if c.DB.Mode == "err-row" || c.DB.Mode == "cancel-row" {
		c.DB.ErrAt = []int{0, 1, 2, 50, 99, 100, 101, 5000}[r.Intn(8)]
	}
	if c.DB.Mode == "err-conn" {
		c.DB.Target = -1
	}
	if r.Intn(40) == 0 {
		c.DB.Mode, c.DB.ErrAt, c.DB.Twist = "err-schema", r.Intn(2), ""
	}
	switch r.Intn(12) {
	case 0:
		c.Client = "abandon-early"
	case 1, 2:
		c.Client = "abandon-mid"
		if c.DB.Mode == "ok" && r.Intn(2) == 0 {
			c.DB.Mode = "hold"
			c.DB.ErrAt = []int{0, 1, 50, 150}[r.Intn(4)]
			c.DB.Shape = []string{"few", "batch", "many", "many"}[r.Intn(4)]
		}
	}
	return c
}

// goSideQueries continue in Go after the SQL stage (parsers without parameters, line_format):
// the pipelines whose goroutines the leak monitors watch.
var goSideQueries = []string{
	`{a="b"} | json`, `{a="b"} | logfmt`, `{a="b"} | json | x="1"`, `{a="b"} | logfmt | level="err" | line_format "{{.msg}}"`, `{a="b"} | json | drop level | label_format z=x`,
	`{a="b"} | line_format "{{.a}}" |= "b"`, `{a="b"} | json | v > 50`, `{a="b"} | logfmt | n >= 5 and level="info"`,
	`rate({a="b"} | json [5s])`, `count_over_time({a="b"} | logfmt | level="err" [10s])`, `sum by (x) (count_over_time({a="b"} | json [10s]))`, `bytes_rate({a="b"} | logfmt [1m])`,
	`sum_over_time({a="b"} | json | unwrap v [10s])`, `avg_over_time({a="b"} | logfmt | unwrap v [10s]) by (x)`, `max_over_time({a="b"} | json | unwrap v [5s]) > 3`, `absent_over_time({a="b"} | json [10s])`,
	`first_over_time({a="b"} | logfmt | unwrap n [10s])`, `stddev_over_time({a="b"} | json | unwrap v [1m])`, `avg(rate({a="b"} | json [10s])) by (level)`,
}

// directed builds a case aimed at the mechanisms C12 names: database failing midway, limit
// reached early, client going away, on a pipeline that runs in Go.
func directed(r *rand.Rand, idx int) *ccase {
	q := goSideQueries[r.Intn(len(goSideQueries))]
	shape := "log-go"
	if !strings.HasPrefix(q, "{") {
		shape = "metric-go"
	}
	c := &ccase{Idx: idx, Client: "normal"}
	kv := []string{"query", q, "start", fmt.Sprint(rdcat.FromS * 1e9), "end", fmt.Sprint(rdcat.ToS * 1e9), "step", "5"}
	scenario := []string{"limit-early", "db-error-midway", "client-leaves", "plain", "limit-early-forward", "limit-boundary", "step-boundary", "no-step-long-window"}[r.Intn(8)]
	c.DB = dbPlan{Target: 0, Mode: "ok", Shape: []string{"batch", "many", "many"}[r.Intn(3)]}
	var specials []string
	switch scenario {
	case "limit-early", "limit-early-forward":
		kv = append(kv, "limit", []string{"1", "5", "99", "100", "101"}[r.Intn(5)])
		if scenario == "limit-early-forward" {
			kv = append(kv, "direction", "forward")
		}
		specials = []string{"limit=small"}
	case "limit-boundary":
		// boundary limits on pipelines whose results are assembled in Go (a limit is applied in several places there)
		v := []string{"-1", "0", "-9223372036854775808", "9223372036854775807", "1e3", ""}[r.Intn(6)]
		kv = append(kv, "limit", v)
		specials = []string{"limit=boundary:" + v}
	case "step-boundary":
		// steps around the millisecond resolution on instant/range metric pipelines (points per series explode)
		v := []string{"0.001", "0.01", "0.0005", "1e-3", "0.02", "300", "86400"}[r.Intn(7)]
		for i := 0; i+1 < len(kv); i += 2 {
			if kv[i] == "step" {
				kv[i+1] = v
			}
		}
		kv = append(kv, "limit", "5000")
		specials = []string{"step=boundary:" + v}
	case "no-step-long-window":
		// a metric (or log) query over years with the step left out: whatever the default step is, the work must stay
		// bounded
		q = []string{`sum by (a) (rate({a="b"}[1m]))`, `rate({a="b"}[5m])`, `count_over_time({a="b"} | json [1h])`, q}[r.Intn(4)]
		start := []string{"0", "1", fmt.Sprint((rdcat.ToS - 5*365*86400) * 1e9), fmt.Sprint((rdcat.ToS - 90*86400) * 1e9)}[r.Intn(4)]
		kv = []string{"query", q, "start", start, "end", fmt.Sprint(rdcat.ToS * 1e9), "limit", "100"}
		shape = "metric-go"
		specials = []string{"step=absent", "window=long"}
	case "db-error-midway":
		kv = append(kv, "limit", "5000")
		c.DB.Mode = []string{"err-row", "cancel-row"}[r.Intn(2)]
		c.DB.ErrAt = []int{1, 99, 100, 101, 250, 5000}[r.Intn(6)]
	case "client-leaves":
		kv = append(kv, "limit", "5000")
		c.Client = []string{"abandon-early", "abandon-mid"}[r.Intn(2)]
		if r.Intn(2) == 0 {
			c.DB.Mode, c.DB.ErrAt = "hold", []int{1, 150}[r.Intn(2)]
		}
	default:
		kv = append(kv, "limit", "5000")
	}
	path := "/loki/api/v1/query_range"
	ep := "loki.query_range"
	if scenario != "no-step-long-window" && (r.Intn(4) == 0 || strings.HasSuffix(scenario, "-boundary") && r.Intn(2) == 0) {
		path, ep = "/loki/api/v1/query", "loki.query"
		stepV := "5"
		for i := 0; i+1 < len(kv); i += 2 {
			if kv[i] == "step" {
				stepV = kv[i+1]
			}
		}
		kv = []string{"query", q, "time", fmt.Sprint(rdcat.ToS * 1e9), "step", stepV, "limit", kv[len(kv)-1]}
	}
	c.Gen = rdcat.GenCase{Req: rdcat.Req{Method: "GET", Path: path, RawQuery: rdcat.Q(kv...)}, Endpoint: ep, QueryShape: shape + ":" + scenario, Specials: specials}
	return c
}

func genTailCase(r *rand.Rand, idx int) *ccase {
	ep := rdcat.ByName("loki.tail")
	c := &ccase{Idx: idx, Gen: ep.Gen(r), Tail: true}
	c.DB = dbPlan{Target: -1, Mode: []string{"ok", "ok", "ok", "err-open", "err-row"}[r.Intn(5)], Shape: []string{"empty", "one", "few", "batch"}[r.Intn(4)]}
	if r.Intn(4) == 0 {
		c.DB.Twist = []rdcat.Twist{rdcat.TwFp0, rdcat.TwStrForNum, rdcat.TwNull, rdcat.TwTsOutside}[r.Intn(4)]
	}
	if c.DB.Mode == "err-row" {
		c.DB.ErrAt = r.Intn(3)
	}
	c.Client = []string{"ws-read", "ws-read", "ws-close", "ws-plain"}[r.Intn(4)]
	// pinned: a tail that never has a line to send (nothing stored, or the database failing), left by a client that
	// just drops the connection
	switch idx % 5 {
	case 0:
		c.DB.Mode, c.DB.Shape, c.DB.Twist, c.Client = "ok", "empty", "", "ws-read"
	case 1:
		c.DB.Mode, c.DB.Twist, c.Client = "err-open", "", "ws-close"
	case 2:
		c.DB.Mode, c.DB.Shape, c.DB.Twist, c.Client = "ok", "empty", "", "ws-close"
	case 3:
		// the client leaves while a poll is in flight: the statement's rows are held until it has gone
		c.DB.Mode, c.DB.ErrAt, c.DB.Shape, c.DB.Twist, c.Client = "hold", []int{0, 1}[idx/5%2], "few", "", "ws-read"
		c.DB.Target = -2 // not the statement the session starts with: every poll that follows
	}
	return c
}

func shapeRows(shape string) int {
	switch shape {
	case "empty":
		return 0
	case "one":
		return 1
	case "few":
		return 7
	case "batch":
		return 100
	case "many":
		return 10000
	}
	return 3
}

// answer builds the scripted answer of statement number n (kind k) for the case.
func (c *ccase) answer(ctx context.Context, n int, k rdcat.Kind, hold func(i int)) rdcat.Answer {
	r := rand.New(rand.NewSource(int64(c.Idx)*1000003 + int64(n)))
	targeted := c.DB.Target == -1 || c.DB.Target == n || c.DB.Target == -2 && n >= 1 // -2: every statement but the first
	// complexity probes must stay small or the TraceQL planner switches strategy; keep them plain unless targeted
	if !targeted {
		return rdcat.OK(k, rdcat.WellShaped(k, r, 3, rdcat.FromS*1e9, rdcat.ToS*1e9))
	}
	switch c.DB.Mode {
	case "err-conn":
		// the database is away for as long as the request lasts: every statement fails at the connection level
		return rdcat.Answer{Err: connErrs[c.Idx%len(connErrs)]}
	case "err-open":
		return rdcat.Answer{Err: fmt.Errorf("code: 241, message: scripted failure at open (Memory limit exceeded)")}
	case "cancel-open":
		return rdcat.Answer{Err: context.Canceled}
	}
	rows := rdcat.WellShaped(k, r, shapeRows(c.DB.Shape), rdcat.FromS*1e9, rdcat.ToS*1e9)
	cols := rdcat.ColNames(k)
	if c.DB.Twist != "" {
		cols, rows = rdcat.ApplyTwist(k, c.DB.Twist, r, rows)
	}
	a := rdcat.Answer{Cols: cols, Rows: rows, ErrAt: -1}
	switch c.DB.Mode {
	case "err-row":
		a.ErrAt = min(c.DB.ErrAt, len(rows))
		a.RowErr = fmt.Errorf("code: 241, message: scripted failure while reading row %d", a.ErrAt)
	case "cancel-row":
		a.ErrAt = min(c.DB.ErrAt, len(rows))
		a.RowErr = context.Canceled
	case "hold":
		at := min(c.DB.ErrAt, len(rows))
		a.Block = func(i int) {
			if i == at {
				hold(i)
			}
		}
	}
	return a
}

var _ driver.Value
