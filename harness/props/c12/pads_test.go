package c12

import "testing"

func TestPads(t *testing.T) {
	c := `{"idx":100,"gen":{"req":{"method":"GET","path":"/loki/api/v1/tail","raw_query":"query=%7Bn%3D~%22x%22%7D+%7C+line_format+%22%7B%7B+printf+%5C%22%2510000000d%5C%22+1+%7D%7D%22&start=1700000000000000000"}}}`
	if !pads(c) {
		t.Fatal("padding template not recognised")
	}
	if pads(`{"raw_query":"query=%7Ba%3D%22b%22%7D+%7C+line_format+%22%7B%7B+printf+%5C%22%255d%5C%22+1+%7D%7D%22"}`) {
		t.Fatal("narrow width recognised as padding")
	}
}
