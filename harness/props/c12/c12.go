// Package c12: no query can crash, hang or leak work on the read side.
//
// Crash-isolated robustness fuzzing of every read endpoint of the real reader (router,
// controllers, services, planners, post-processors) on top of the scripted database/sql
// driver: grammar-generated / mutated / random query texts, boundary parameter values, hostile
// result-set shapes, database errors at open and at row k, cancelled contexts, clients that go
// away. Monitors: process death, missing HTTP answer (with two goroutine dumps), connection
// closed without response, driver.Rows left open, goroutine census.
package c12

import (
	"bytes"
	"context"
	"encoding/json"
	"fmt"
	"log"
	"net"
	"net/http"
	"net/url"
	"os"
	"regexp"
	"runtime"
	"sort"
	"strconv"
	"strings"
	"sync"
	"sync/atomic"
	"time"

	"github.com/gorilla/websocket"

	"verif/harness/engines/rdcat"
	"verif/harness/engines/run"
	"verif/harness/engines/sqldrv"
	"verif/harness/props/reg"
)

func init() {
	reg.Register(&reg.Prop{ID: "C12", Level: "exploration", Main: Main, Child: Child, Replay: Replay})
}

type childCfg struct {
	Start int      `json:"start"`
	N     int      `json:"n"`
	Lane  int      `json:"lane"`
	Tail  bool     `json:"tail"`
	Skip  []string `json:"skip"` // trigger classes of confirmed wedges / repeated crashers: not re-executed
	// Concurrent > 0: one round of the concurrent lane (requests per client); Start is the round number
	Concurrent int `json:"concurrent,omitempty"`
	// Outage: the database-outage round
	Outage bool `json:"outage,omitempty"`
}

const (
	exitStall   = 7
	exitLeak    = 8
	exitRecycle = 9
	clientWait  = 15 * time.Second
	memKB       = 8 << 20 // ulimit -v: an allocation bomb is a prompt, attributable death
)

type openCase struct {
	Trigger  string          `json:"trigger"`
	WedgeKey string          `json:"wedge_key"`
	Endpoint string          `json:"endpoint"`
	Case     json.RawMessage `json:"case"`
}

func Main(c *run.Ctx) {
	c.SetRule("a case = request (endpoint × query text from the LogQL/PromQL/TraceQL/Pyroscope grammars, mutated or random bytes × boundary values of start/end/step/limit/direction/time/since/interval/durations/path ids) × database script (result shape empty/1/7/100/10^4 rows, wrong column types, NULLs, fingerprint 0, timestamps outside the window, short ids, malformed payloads, error at open / at row k, cancelled context, rows held until the client left) × client behaviour (reads everything, leaves before the first byte, leaves mid-response); " +
		"distinct key = endpoint × query shape × special parameters × database script class × client behaviour × answer class")
	c.Assume("a request unanswered after 15 s counts as wedged only if two goroutine dumps 2 s apart show a goroutine of the request in the same qryn frames; otherwise the case is undecided")
	c.Assume("bounded progress: a request unanswered after 15 s that is still computing is a violation when its live heap keeps growing past 1 GiB (runaway) or when its goroutine is running in the same qryn function in eleven dumps over 60 s with a flat heap (spinning) - the scripted result sets hold at most 10 000 rows and the lane serves one request at a time; anything else still computing is undecided")
	c.Assume("quiescence = every driver.Rows opened for the request is closed and the census of goroutines with qryn frames is back at its pre-request value within 3 s (5 s for the tail endpoint, whose poll loop ticks once per second); dbVersion.throttle (sleeps 10 s by design) and the harness are whitelisted")
	c.Assume(fmt.Sprintf("children run under ulimit -v %d KiB; exceeding it is a process death attributed to the open case", memKB))
	c.Assume("an input class (endpoint × query shape class × special parameters × database script × client) that was confirmed as a wedge once, or as a process death three times, in this run is not executed again (counted under coverage table 'skipped'); its signature is already reported")
	total := c.Pick(2000, 100000)
	lanes := c.Pick(4, 12)
	tails := c.Pick(10, 120)
	per := (total + lanes - 1) / lanes
	var mu sync.Mutex
	hits := map[string]int{}
	skip := map[string]bool{}
	skipList := func() []string {
		mu.Lock()
		defer mu.Unlock()
		var out []string
		for k := range skip {
			out = append(out, k)
		}
		sort.Strings(out)
		return out
	}
	lane := func(l, start, end int, tail bool) {
		for start < end {
			cc := childCfg{Start: start, N: end - start, Lane: l, Tail: tail, Skip: skipList()}
			out := c.RunChild(run.ChildSpec{Prop: "C12", Name: "fuzz", Cfg: cc, Timeout: 45 * time.Minute, MemKB: memKB})
			if out.Completed {
				break
			}
			var open openCase
			json.Unmarshal(out.OpenCase, &open)
			if out.OpenIdx < 0 {
				if out.TimedOut {
					c.Undecided("child watchdog expired outside a case")
				} else {
					c.Undecided(fmt.Sprintf("child ended (exit %d) outside a case", out.Exit))
					c.Note("child ended outside a case: " + tailS(out.Stderr, 1500))
				}
				break
			}
			switch {
			case out.Exit == exitRecycle:
				// the child had grown large (address space is capped) and handed over after a finished case
			case out.Exit == exitLeak:
				// reported by the child; it ended itself so that what it leaked cannot disturb later cases
				mu.Lock()
				skip[open.WedgeKey] = true
				mu.Unlock()
			case out.Exit == exitStall:
				// reported by the child (wedge or undecided); do not run this input class again
				mu.Lock()
				skip[open.WedgeKey] = true
				mu.Unlock()
			case out.TimedOut:
				c.Undecided("child watchdog expired inside a case")
			default:
				switch verdict, key := reportDeath(c, out, open); verdict {
				case "skip-wedge":
					mu.Lock()
					skip[key] = true
					mu.Unlock()
				case "death":
					mu.Lock()
					hits[open.Trigger]++
					if hits[open.Trigger] >= 3 {
						skip[open.Trigger] = true
					}
					mu.Unlock()
				}
			}
			start = out.OpenIdx + 1
		}
	}
	var wg sync.WaitGroup
	for l := 0; l < lanes; l++ {
		wg.Add(1)
		go func(l int) {
			defer wg.Done()
			lane(l, l*per, min(total, (l+1)*per), false)
		}(l)
	}
	wg.Add(1)
	go func() { defer wg.Done(); lane(lanes, 0, tails, true) }()
	wg.Wait()
	concurrentLane(c)
	for _, e := range rdcat.Endpoints {
		c.Floor("endpoint:"+e.Name, 1, 0)
	}
	c.Floor("requests answered", total/2, 0)
	c.Floor("quiescence checks passed", total/2, 0)
	c.Floor("client went away mid-response", c.Pick(20, 1000), 0)
	c.Floor("database error at row k", c.Pick(50, 2500), 0)
	c.Floor("requests on a database whose first schema lookup fails", c.Pick(10, 500), 0)
}

// reportDeath judges a child that ended inside a case without reporting it itself. It returns "undecided",
// "skip-wedge" (with the input class not to run again) or "death".
func reportDeath(c *run.Ctx, out run.ChildOutcome, open openCase) (string, string) {
	head, frame := deathHead(out.Stderr)
	if head == "" {
		head = fmt.Sprintf("exit %d (signaled %v)", out.Exit, out.Signaled)
	}
	if frame == "" {
		frame = "no-qryn-frame"
	}
	if strings.Contains(out.Stderr, "watchdog") && strings.Contains(head, "ping") {
		c.Undecided("reader watchdog fired")
		return "undecided", ""
	}
	m := runawayRe.FindStringSubmatch(out.Stderr)
	if m != nil && m[1] != fmt.Sprint(out.OpenIdx) {
		m = nil
	}
	if u := inUseRe.FindStringSubmatch(head); m == nil && u != nil {
		// children hand over to a fresh one when they hold more than 3 GiB after a case: what is in use beyond that
		// was acquired while the open case ran
		if n, _ := strconv.ParseInt(u[1], 10, 64); n >= 5<<30 {
			m = []string{"", "", "at most 3221225472 (hand-over bound)", u[1], ""}
		}
	}
	if m != nil && strings.Contains(head, "out of memory") {
		// the live heap grew by more than heapGrowthLimit while this case was open
		if m[4] != "" {
			frame = m[4]
		}
		sig := "process-death/" + sigEndpoint(open.Endpoint) + "/" + frame + "/out-of-memory/grown-during-request"
		if pads(string(open.Case)) {
			sig = paddingSig
		}
		c.Violation(sig, fmt.Sprintf("the reader process died on one request to %s: %s; the live heap had grown from %s to %s bytes while the request was open (computing in %s); case: %s", open.Endpoint, head, m[2], m[3], frame, clip(string(open.Case), 900)),
			map[string]any{"case_index": out.OpenIdx, "case": open, "stderr_tail": tailS(out.Stderr, 6000)})
		c.Case(open.Trigger + "|death")
		c.Cover("deaths", sig, 1)
		return "skip-wedge", open.WedgeKey
	}
	if n := oomBlock(head); n > 0 && n < 1<<30 {
		// the address-space cap was hit by a modest allocation: the space was used up by
		// earlier requests of this child, the open case is not shown to be the cause
		c.Undecided("address space of the child exhausted by a modest allocation")
		c.Cover("deaths-undecided", sigEndpoint(open.Endpoint)+"|"+clip(head, 80), 1)
		return "undecided", ""
	}
	sig := "process-death/" + sigEndpoint(open.Endpoint) + "/" + frame
	if strings.Contains(head, "out of memory") {
		// an allocation the request asked for: say which kind of request (a PromQL subquery is pre-allocated by
		// the vendored engine, one point per inner step, before any sample limit applies)
		sig += "/out-of-memory"
		dec := strings.NewReplacer("%5B", "[", "%5D", "]", "%3A", ":", "%5b", "[", "%5d", "]", "%3a", ":").Replace(string(open.Case))
		if subqueryRe.MatchString(dec) {
			sig += "/promql-subquery"
		}
		if pads(string(open.Case)) {
			sig = paddingSig
		}
	}
	c.Violation(sig, fmt.Sprintf("the reader process died on one request to %s: %s at %s; case: %s", open.Endpoint, head, frame, clip(string(open.Case), 900)),
		map[string]any{"case_index": out.OpenIdx, "case": open, "stderr_tail": tailS(out.Stderr, 6000)})
	c.Case(open.Trigger + "|death")
	c.Cover("deaths", sig, 1)
	return "death", ""
}

// concurrentLane runs the rounds of the concurrent lane, one child each (a runtime-fatal error ends the child).
func concurrentLane(c *run.Ctx) {
	c.Assume("concurrent lane: 8 clients send Go-side LogQL pipelines (every registered line_format function, arguments taken from the line) and canonical requests of the other families at once; a process death in a round is attributed to the lane, not to one request")
	rounds := c.Pick(3, 12)
	perClient := c.Pick(25, 120)
	var wg sync.WaitGroup
	sem := make(chan struct{}, c.Pick(3, 4))
	// the outage round runs beside them (it spends half a minute waiting for the registry's ping interval)
	wg.Add(1)
	go func() {
		defer wg.Done()
		out := c.RunChild(run.ChildSpec{Prop: "C12", Name: "fuzz", Cfg: childCfg{Start: 2000000, N: 1, Lane: 200, Outage: true}, Timeout: 10 * time.Minute, MemKB: memKB})
		if !out.Completed && out.Exit != exitStall {
			if out.TimedOut {
				c.Undecided("child watchdog expired in the outage round")
			} else if out.OpenIdx >= 0 {
				var open openCase
				json.Unmarshal(out.OpenCase, &open)
				reportDeath(c, out, open)
			} else {
				c.Undecided(fmt.Sprintf("child of the outage round ended (exit %d) outside the round", out.Exit))
			}
		}
	}()
	for rd := 0; rd < rounds; rd++ {
		wg.Add(1)
		go func(rd int) {
			defer wg.Done()
			sem <- struct{}{}
			defer func() { <-sem }()
			runConcurrentRound(c, rd, perClient)
		}(rd)
	}
	wg.Wait()
	c.Floor("requests answered while other requests were in flight", rounds*perClient*4, 0)
	c.Floor("requests answered around a database outage", 5, 0)
}

func runConcurrentRound(c *run.Ctx, rd, perClient int) {
	out := c.RunChild(run.ChildSpec{Prop: "C12", Name: "fuzz", Cfg: childCfg{Start: 1000000 + rd, N: 1, Lane: 100 + rd, Concurrent: perClient}, Timeout: 15 * time.Minute, MemKB: memKB})
	if out.Completed {
		return
	}
	if out.TimedOut {
		c.Undecided("child watchdog expired in the concurrent lane")
		return
	}
	if out.OpenIdx < 0 {
		c.Undecided(fmt.Sprintf("child of the concurrent lane ended (exit %d) outside the round", out.Exit))
		c.Note("concurrent lane child ended outside the round: " + tailS(out.Stderr, 1500))
		return
	}
	head, frame := deathHead(out.Stderr)
	if head == "" {
		head = fmt.Sprintf("exit %d (signaled %v)", out.Exit, out.Signaled)
	}
	if frame == "" {
		frame = "no-qryn-frame"
	}
	if n := oomBlock(head); n > 0 {
		c.Undecided("address space of the concurrent-lane child exhausted")
		return
	}
	sig := "process-death/concurrent/" + frame
	c.Violation(sig, fmt.Sprintf("the reader process died while 8 clients were sending requests at once (round %d, %d requests per client): %s at %s", rd, perClient, head, frame),
		map[string]any{"case_index": 1000000 + rd, "concurrent": concSpec{Round: 1000000 + rd, Clients: 8, PerClient: perClient}, "stderr_tail": tailS(out.Stderr, 6000)})
	c.Case("concurrent|death")
	c.Cover("deaths", sig, 1)
}

// paddingRe: a line_format template whose printf pads to 100000 columns or more. The memory such a request needs
// is (rows read) x (width asked for), both chosen by the client: whether it ends as an out-of-memory death or as
// a runaway depends on the machine, so both are filed under one signature.
var paddingRe = regexp.MustCompile(`printf[^}]*%[-+ #0]*[0-9]{6,}`)

const paddingSig = "memory-unbounded/line_format-padding"

func pads(caseJSON string) bool {
	dec := caseJSON
	if u, err := url.QueryUnescape(strings.ReplaceAll(caseJSON, "+", " ")); err == nil {
		dec = u
	}
	dec = strings.NewReplacer(`\\\"`, `"`, `\\"`, `"`, `\"`, `"`, `\u0026`, "&").Replace(dec)
	return paddingRe.MatchString(dec) || paddingRe.MatchString(caseJSON)
}

var subqueryRe = regexp.MustCompile(`\[[^\]\[]*:[^\]\[]*\]`)

// deathHead extracts the first panic / fatal error line of a dying process and the innermost
// qryn frame of the goroutine that caused it.
func deathHead(stderr string) (head, frame string) {
	lines := strings.Split(stderr, "\n")
	for i, l := range lines {
		if strings.HasPrefix(l, "panic:") || strings.HasPrefix(l, "fatal error:") || strings.HasPrefix(l, "runtime: out of memory") {
			head = strings.TrimSpace(l)
			for _, m := range lines[i:] {
				if strings.HasPrefix(m, "github.com/metrico/qryn/") {
					m = strings.TrimPrefix(m, "github.com/metrico/qryn/")
					if j := strings.LastIndex(m, "("); j > 0 {
						m = m[:j]
					}
					return head, m
				}
			}
			return
		}
	}
	return
}

var runawayRe = regexp.MustCompile(`VERIF-RUNAWAY case=(\d+) heap_at_start=(\d+) heap_now=(\d+) computing=(\S*)`)
var inUseRe = regexp.MustCompile(`\((\d+) in use\)`)
var oomRe = regexp.MustCompile(`cannot allocate (\d+)-byte block`)

// oomBlock returns the size of the allocation that failed (0 if the head is not an out-of-memory report).
func oomBlock(head string) int64 {
	m := oomRe.FindStringSubmatch(head)
	if m == nil {
		return 0
	}
	n, _ := strconv.ParseInt(m[1], 10, 64)
	return n
}

func tailS(s string, n int) string {
	if len(s) > n {
		return s[len(s)-n:]
	}
	return s
}

func clip(s string, n int) string {
	if len(s) > n {
		return s[:n] + "…"
	}
	return s
}

var whitelist = []string{"dbVersion.throttle", "verif/harness"}

func census() map[string]int { return run.CensusCount(run.Census(), whitelist) }

func qrynActive(gs []run.Goroutine) map[string]run.Goroutine {
	out := map[string]run.Goroutine{}
	for _, g := range gs {
		if len(g.QrynFrames()) == 0 {
			continue
		}
		sig := g.Signature()
		skip := false
		for _, w := range whitelist {
			if strings.Contains(sig, w) {
				skip = true
			}
		}
		if !skip {
			out[g.ID] = g
		}
	}
	return out
}

// panicLog captures what net/http logs when a handler panics (the connection is then closed
// without a response): "http: panic serving …: <value>\n<stack>".
type panicLog struct {
	mu  sync.Mutex
	buf bytes.Buffer
}

func (p *panicLog) Write(b []byte) (int, error) {
	p.mu.Lock()
	defer p.mu.Unlock()
	if p.buf.Len() > 1<<20 {
		p.buf.Reset()
	}
	os.Stderr.Write(b)
	return p.buf.Write(b)
}

func (p *panicLog) take() string {
	p.mu.Lock()
	defer p.mu.Unlock()
	s := p.buf.String()
	p.buf.Reset()
	return s
}

var frameRe = regexp.MustCompile(`(?m)^github\.com/metrico/qryn/([^\s(]+(?:\([^)]*\))?[^\s(]*)\(`)

// panicFrame extracts the panic value and the innermost qryn frame from a net/http panic log.
func panicFrame(logTxt string) (string, string) {
	i := strings.Index(logTxt, "http: panic serving")
	if i < 0 {
		return "", ""
	}
	t := logTxt[i:]
	head := t
	if j := strings.Index(t, "\n"); j > 0 {
		head = t[:j]
	}
	if j := strings.Index(head, ": "); j > 0 {
		head = head[j+2:]
	}
	if j := strings.Index(head, ": "); j > 0 { // drop the remote address
		head = head[j+2:]
	}
	for _, l := range strings.Split(t, "\n") {
		if strings.HasPrefix(l, "github.com/metrico/qryn/") && !strings.Contains(l, "tamePanic") {
			f := strings.TrimPrefix(l, "github.com/metrico/qryn/")
			if j := strings.LastIndex(f, "("); j > 0 {
				f = f[:j]
			}
			return head, f
		}
	}
	return head, ""
}

// connTrack follows the server's view of its connections (http.Server.ConnState): a
// connection is active from the moment a request was read until its handler returned.
type connTrack struct {
	mu     sync.Mutex
	active map[string]bool
	last   map[string]http.ConnState
}

func (t *connTrack) hook(c net.Conn, st http.ConnState) {
	addr := c.RemoteAddr().String()
	t.mu.Lock()
	defer t.mu.Unlock()
	switch st {
	case http.StateActive:
		t.active[addr] = true
	case http.StateIdle, http.StateClosed, http.StateHijacked:
		delete(t.active, addr)
	}
	t.last[addr] = st
	if len(t.last) > 4096 {
		for k, v := range t.last {
			if v == http.StateClosed {
				delete(t.last, k)
			}
		}
	}
}

func (t *connTrack) activeN() int {
	t.mu.Lock()
	defer t.mu.Unlock()
	return len(t.active)
}

// done reports whether the server has finished with the connection from addr.
func (t *connTrack) done(addr string) bool {
	t.mu.Lock()
	defer t.mu.Unlock()
	st, ok := t.last[addr]
	return ok && (st == http.StateClosed || st == http.StateHijacked)
}

type fuzzer struct {
	conns        *connTrack
	harnessFault atomic.Pointer[string]
	heap0        atomic.Uint64
	c            *run.Ctx
	sess         *sqldrv.Session
	reg          *sqldrv.Registry
	rd           *sqldrv.Reader
	cl           *rdcat.Client
	plog         *panicLog
	cur          atomic.Pointer[ccase]
	nstmt        atomic.Int64
	kinds        sync.Map
	gone         atomic.Pointer[chan struct{}]
	nsess        int
	lane         int
	// conc answers statements while no sequential case is current (the concurrent lane)
	conc func(ctx context.Context, k rdcat.Kind, q string) rdcat.Answer
}

func (f *fuzzer) newSession() {
	f.nsess++
	s := sqldrv.NewSession(fmt.Sprintf("c12-%d-%d-%d", f.lane, os.Getpid(), f.nsess), nil)
	s.Tables = []string{"samples_v3", "time_series", "metrics_15s"}
	s.SetHandler(func(ctx context.Context, q string) (rows *sqldrv.Rows, err error) {
		defer func() {
			if r := recover(); r != nil { // a fault of the harness must never look like one of the reader
				msg := fmt.Sprintf("harness fault in the scripted driver: %v", r)
				f.harnessFault.Store(&msg)
				rows, err = nil, fmt.Errorf("%s", msg)
			}
		}()
		k := rdcat.Classify(q)
		f.kinds.Store(string(k), true)
		cs := f.cur.Load()
		if cs == nil {
			if f.conc != nil {
				return f.conc(ctx, k, q).SQLRows()
			}
			return rdcat.OK(k, nil).SQLRows()
		}
		n := int(f.nstmt.Add(1)) - 1
		return cs.answer(ctx, n, k, f.hold).SQLRows()
	})
	f.sess = s
	if f.reg == nil {
		f.reg = sqldrv.NewRegistry(s, "")
	} else {
		f.reg.Use(s, "")
	}
}

// hold blocks a row stream until the client of the current case has gone away (bounded).
func (f *fuzzer) hold(i int) {
	ch := f.gone.Load()
	if ch == nil {
		return
	}
	select {
	case <-*ch:
		// the client has gone; give the server the time to notice it before the rows flow again (the point of a held
		// case is what the request does with rows that arrive after its client left)
		time.Sleep(300 * time.Millisecond)
	case <-time.After(5 * time.Second):
	}
}

func (f *fuzzer) openRows() int64 {
	return atomic.LoadInt64(&f.sess.Opened) - atomic.LoadInt64(&f.sess.Closed)
}

// quiesce waits until the rows opened since `openBefore` are closed and the census is back at
// base; it returns what is still there after the bound.
func (f *fuzzer) quiesce(base map[string]int, openBefore int64, bound time.Duration) (leakedRows int64, leakedG []string) {
	deadline := time.Now().Add(bound)
	wait := 200 * time.Microsecond
	for {
		leakedRows = f.openRows() - openBefore
		leakedG = nil
		if leakedRows <= 0 && f.conns.activeN() == 0 {
			leakedG = run.CensusDiff(base, census())
			if len(leakedG) == 0 {
				return 0, nil
			}
		}
		if time.Now().After(deadline) {
			if leakedG == nil {
				leakedG = run.CensusDiff(base, census())
			}
			return
		}
		time.Sleep(wait)
		if wait < 50*time.Millisecond {
			wait *= 2
		}
	}
}

func startReader(f *fuzzer) *sqldrv.Reader {
	rd := sqldrv.StartReader(f.reg, "")
	rd.Server.Config.ErrorLog = log.New(f.plog, "", 0)
	f.conns = &connTrack{active: map[string]bool{}, last: map[string]http.ConnState{}}
	rd.Server.Config.ConnState = f.conns.hook
	return rd
}

func Child(c *run.Ctx, name string) {
	var cfg childCfg
	if err := run.ChildCfg(&cfg); err != nil {
		panic(err)
	}
	skip := map[string]bool{}
	for _, s := range cfg.Skip {
		skip[s] = true
	}
	if cfg.Concurrent > 0 {
		childConcurrent(c, cfg)
		return
	}
	if cfg.Outage {
		childOutage(c, cfg)
		return
	}
	f := &fuzzer{c: c, lane: cfg.Lane, plog: &panicLog{}}
	f.newSession()
	f.rd = startReader(f)
	f.cl = rdcat.NewClient(f.rd.Server.URL, clientWait)
	// warm-up: one canonical request per family, then the baseline
	for _, n := range []string{"loki.query_range", "prom.query_range", "tempo.search.traceql", "pyro.LabelNames"} {
		f.cl.Do(rdcat.ByName(n).Canon)
	}
	time.Sleep(20 * time.Millisecond)
	for i := 0; i < cfg.N; i++ {
		gi := cfg.Start + i
		var cs *ccase
		if cfg.Tail {
			cs = genTailCase(c.Rng(fmt.Sprintf("c12/tail/%d", gi)), gi)
		} else {
			cs = genCase(c.Rng(fmt.Sprintf("c12/case/%d", gi)), gi)
		}
		trig := cs.trigger()
		if skip[trig] || skip[cs.wedgeKey()] {
			c.Cover("skipped", cs.Gen.Endpoint+"|"+cs.DB.class()+"|"+cs.Client, 1)
			continue
		}
		cb, _ := json.Marshal(cs)
		if len(cb) > 6000 {
			// keep the WAL line small: long query texts are reproducible from the seed and index
			short := *cs
			short.Gen.Req.RawQuery = clip(short.Gen.Req.RawQuery, 1500)
			short.Gen.Req.Body = clip(short.Gen.Req.Body, 1500)
			short.Gen.Req.Path = clip(short.Gen.Req.Path, 500)
			cb, _ = json.Marshal(short)
		}
		c.BeginCase(gi, openCase{Trigger: trig, WedgeKey: cs.wedgeKey(), Endpoint: cs.Gen.Endpoint, Case: cb})
		if i < 3 {
			c.Sample(map[string]any{"endpoint": cs.Gen.Endpoint, "request": clip(cs.Gen.Req.String(), 300), "db": cs.DB, "client": cs.Client})
		}
		if cs.DB.Mode == "err-schema" {
			// a database the reader has not seen yet (its schema lookups are not cached) whose first version lookup or
			// first SHOW TABLES fails; this request may fail, every later one must still be answered
			f.newSession()
			kind := []string{"show-tables", "settings"}[cs.DB.ErrAt%2]
			var fired atomic.Bool
			f.sess.SchemaFault = func(k string) error {
				if k == kind && fired.CompareAndSwap(false, true) {
					return fmt.Errorf("code: 209, message: scripted failure of the %s lookup (socket timeout)", k)
				}
				return nil
			}
			c.Floor("requests on a database whose first schema lookup fails", 0, 1)
		}
		f.plog.take()
		base := census()
		openBefore := f.openRows()
		stopHeap := f.watchHeap(gi)
		f.nstmt.Store(0)
		gone := make(chan struct{})
		f.gone.Store(&gone)
		f.cur.Store(cs)
		t0 := time.Now()
		outcome := f.send(cs, gone)
		tSend := time.Since(t0)
		if hf := f.harnessFault.Swap(nil); hf != nil {
			stopHeap()
			c.Case("")
			c.Undecided(*hf)
			f.cur.Store(nil)
			c.EndCase(gi)
			continue
		}
		if outcome.kind == "unsendable" {
			stopHeap()
			c.Case("")
			c.Cover("generator", "request not sendable", 1)
			f.cur.Store(nil)
			c.EndCase(gi)
			continue
		}
		if outcome.kind == "no-answer" {
			f.judgeNoAnswer(cs, gi, outcome)
			os.Exit(exitStall)
		}
		c.Floor("endpoint:"+cs.Gen.Endpoint, 0, 1)
		c.Case(cs.class(outcome.answer))
		c.Cover("endpoint/answer", cs.Gen.Endpoint+"/"+outcome.answer, 1)
		c.Cover("db-script", cs.DB.class(), 1)
		c.Cover("client", cs.Client, 1)
		if outcome.kind == "answered" {
			c.Floor("requests answered", 0, 1)
		}
		if outcome.answer == "5xx-tamed-panic" {
			c.Cover("tamed-handler-panics", cs.Gen.Endpoint+"|"+shapeClass(cs.Gen.QueryShape)+"|"+cs.DB.class(), 1)
		}
		if outcome.kind == "abandoned" && cs.Client == "abandon-mid" {
			c.Floor("client went away mid-response", 0, 1)
		}
		if cs.DB.Mode == "err-row" || cs.DB.Mode == "cancel-row" {
			c.Floor("database error at row k", 0, 1)
		}
		if outcome.kind == "no-response" {
			plog := f.plog.take()
			head, frame := panicFrame(plog)
			where := frame
			if where == "" {
				where = cs.DB.class()
			}
			c.Violation("no-response/"+sigEndpoint(cs.Gen.Endpoint)+"/"+where, fmt.Sprintf("%s: the connection was closed twice without any HTTP response (%s); the handler panicked: %s at %s; request %s; database script %s",
				cs.Gen.Endpoint, outcome.err, head, frame, clip(cs.Gen.Req.String(), 400), cs.DB.class()),
				map[string]any{"case_index": gi, "case": json.RawMessage(cb), "client_error": outcome.err, "panic": head, "frame": frame, "panic_log": clip(plog, 4000)})
		}
		// quiescence: everything started for the request must be gone
		bound := 3 * time.Second
		if cs.Gen.Endpoint == "loki.tail" {
			bound = 5 * time.Second
		}
		lr, lg := f.quiesce(base, openBefore, bound)
		if (len(lg) > 0 || lr > 0) && computing(lg) != "" {
			// something of the request is still running (not blocked): give it more time
			lr, lg = f.quiesce(base, openBefore, 7*time.Second)
			bound += 7 * time.Second
		}
		f.cur.Store(nil)
		stopHeap()
		ep := sigEndpoint(cs.Gen.Endpoint)
		leak := true
		switch {
		case (len(lg) > 0 || lr > 0) && computing(lg) != "":
			c.Undecided("work of the request still computing " + bound.String() + " after it ended, in " + computing(lg))
			c.Cover("still-computing-after-request", cs.Gen.Endpoint+"|"+computing(lg)+"|"+cs.Client, 1)
		case len(lg) > 0:
			var rows []string
			if lr > 0 {
				rows = f.sess.OpenRows()
			}
			dump := ""
			for _, g := range run.Census() {
				for _, l := range lg {
					if g.Signature() == l {
						dump += g.Raw + "\n\n"
						break
					}
				}
			}
			c.Violation("goroutine-leak/"+ep+"/"+leakFrame(lg, rowsLeakClass(cs)), fmt.Sprintf("%s: %v after the request ended (%s) %d kind(s) of goroutines started for it are still alive and blocked (and %d driver.Rows still open), e.g. %s; request %s; database script %s; client %s",
				cs.Gen.Endpoint, bound, outcome.answer, len(lg), lr, clip(lg[0], 300), clip(cs.Gen.Req.String(), 300), cs.DB.class(), cs.Client),
				map[string]any{"case_index": gi, "case": json.RawMessage(cb), "leaked": lg, "open_rows": clipAll(rows, 300), "goroutines": clip(dump, 6000)})
		case lr > 0:
			rows := f.sess.OpenRows()
			kind := rdcat.KUnknown
			if len(rows) > 0 {
				kind = rdcat.Classify(rows[len(rows)-1])
			}
			c.Violation("rows-not-closed/"+ep+"/"+rowsLeakClass(cs), fmt.Sprintf("%s: %v after the request ended (%s) %d driver.Rows opened for it (statement kind %s) are still open and no goroutine of the request is left to close them; request %s; database script %s; client %s",
				cs.Gen.Endpoint, bound, outcome.answer, lr, kind, clip(cs.Gen.Req.String(), 300), cs.DB.class(), cs.Client),
				map[string]any{"case_index": gi, "case": json.RawMessage(cb), "open_rows": clipAll(rows, 300)})
		default:
			leak = false
			c.Floor("quiescence checks passed", 0, 1)
		}
		if d := time.Since(t0); d > time.Second {
			c.Cover("slow-cases(>1s)", fmt.Sprintf("%s|%s|%s|%s send=%.1fs total=%.1fs", cs.Gen.Endpoint, cs.DB.class(), cs.Client, outcome.answer, tSend.Seconds(), d.Seconds()), 1)
		}
		var ms runtime.MemStats
		runtime.ReadMemStats(&ms)
		if ms.Sys > 3<<30 && !leak && i+1 < cfg.N {
			// a large (survived) allocation keeps its address space: hand over to a fresh child
			c.EndCase(gi)
			c.Event("children_recycled_for_memory", 1)
			c.BeginCase(gi, openCase{Trigger: "-recycle-", Endpoint: cs.Gen.Endpoint})
			os.Exit(exitRecycle)
		}
		if leak {
			// what was left behind must not disturb (or be attributed to) later cases: this child
			// ends here with the case open, the parent resumes after it
			os.Exit(exitLeak)
		}
		c.EndCase(gi)
	}
	f.kinds.Range(func(k, _ any) bool { c.Cover("statement-kinds", k.(string), 1); return true })
	// no Server.Close(): it waits for outstanding handlers, and a leaked handler never returns
}

func clipAll(ss []string, n int) []string {
	out := make([]string, 0, len(ss))
	for _, s := range ss {
		out = append(out, clip(s, n))
	}
	return out
}

// rowsLeakClass names the circumstance under which rows stayed open.
func rowsLeakClass(cs *ccase) string {
	switch {
	case cs.DB.Mode == "err-open" || cs.DB.Mode == "cancel-open" || cs.DB.Mode == "err-row" || cs.DB.Mode == "cancel-row":
		return "database-error"
	case cs.Client != "normal":
		return "client-gone"
	case cs.DB.Twist != "":
		return "odd-result-shape"
	}
	return "plain-result"
}

// computing returns the innermost qryn frame of a leaked goroutine that is running or runnable
// (still working rather than blocked), "" if all of them are blocked.
func computing(leaked []string) string {
	if len(leaked) == 0 {
		return ""
	}
	for _, g := range run.Census() {
		st := strings.SplitN(g.State, ",", 2)[0]
		if st != "running" && st != "runnable" && st != "syscall" {
			continue
		}
		for _, l := range leaked {
			if g.Signature() == l && len(g.QrynFrames()) > 0 {
				return g.QrynFrames()[0]
			}
		}
	}
	return ""
}

// sigEndpoint maps alternative routes of one handler to one name, for signatures.
func sigEndpoint(e string) string {
	switch e {
	case "tempo.trace.alt", "tempo.trace.json":
		return "tempo.trace"
	case "tempo.search.alt":
		return "tempo.search.traceql"
	case "tempo.tags.alt":
		return "tempo.tags"
	case "tempo.tag.values.alt":
		return "tempo.tag.values"
	case "loki.label":
		return "loki.labels"
	}
	return e
}

// leakFrame names the kind of goroutine that was left behind: the entry function (outermost
// qryn frame) of a leaked goroutine, preferring goroutines the request started over the
// handler goroutine itself; among several kinds the alphabetically first.
func leakFrame(sigs []string, circumstance string) string {
	var own, handler []string
	for _, sig := range sigs {
		parts := strings.SplitN(sig, " :: ", 2)
		entry := "created-by:" + parts[0]
		if len(parts) == 2 && parts[1] != "" {
			fs := strings.Split(parts[1], " < ")
			entry = fs[len(fs)-1]
		}
		if strings.HasPrefix(parts[0], "net/http.") {
			handler = append(handler, entry)
		} else {
			own = append(own, entry)
		}
	}
	sort.Strings(own)
	sort.Strings(handler)
	if len(own) > 0 {
		return own[0] + "/" + circumstance
	}
	return handler[0] // the handler itself is stuck: the frame says where
}

type outcome struct {
	kind   string // answered | no-response | no-answer | abandoned | unsendable
	answer string // status class or client-side outcome
	err    string
	status int
}

func (f *fuzzer) send(cs *ccase, gone chan struct{}) outcome {
	switch cs.Client {
	case "abandon-early", "abandon-mid":
		after := 0
		if cs.Client == "abandon-mid" {
			after = 64
		}
		n, err := f.cl.Abandon(cs.Gen.Req, after, 300*time.Millisecond)
		time.Sleep(2 * time.Millisecond)
		close(gone)
		// the server may not even have read the request yet: wait until it has dealt with the connection
		for t0 := time.Now(); time.Since(t0) < 3*time.Second && !f.conns.done(f.cl.LastAbandonAddr); {
			time.Sleep(500 * time.Microsecond)
		}
		if err != nil {
			return outcome{kind: "abandoned", answer: "abandon-error", err: err.Error()}
		}
		return outcome{kind: "abandoned", answer: fmt.Sprintf("abandoned-after-%d-bytes", min(n, 64)/64*64)}
	case "ws-read", "ws-close":
		defer close(gone)
		u := "ws" + strings.TrimPrefix(f.cl.Base, "http") + cs.Gen.Req.Target()
		d := websocket.Dialer{HandshakeTimeout: 5 * time.Second}
		conn, resp, err := d.Dial(u, nil)
		if err != nil {
			st := 0
			if resp != nil {
				st = resp.StatusCode
			}
			if st == 0 && (strings.Contains(err.Error(), "malformed") || strings.Contains(err.Error(), "invalid")) {
				return outcome{kind: "unsendable"}
			}
			return outcome{kind: "answered", answer: fmt.Sprintf("ws-handshake-%d", st), status: st, err: err.Error()}
		}
		if cs.Client == "ws-read" {
			conn.SetReadDeadline(time.Now().Add(2500 * time.Millisecond))
			n := 0
			for n < 3 {
				if _, _, err := conn.ReadMessage(); err != nil {
					break
				}
				n++
			}
			conn.Close()
			return outcome{kind: "answered", answer: fmt.Sprintf("ws-%d-messages", min(n, 1))}
		}
		conn.Close()
		return outcome{kind: "answered", answer: "ws-closed-at-once"}
	}
	defer close(gone)
	resp := f.cl.Do(cs.Gen.Req)
	if resp.Status == 0 && !resp.TimedOut {
		if strings.HasPrefix(resp.Err, "build:") || strings.Contains(resp.Err, "invalid URL") || strings.Contains(resp.Err, "invalid header") || strings.Contains(resp.Err, "invalid control character") {
			return outcome{kind: "unsendable"}
		}
		// closed without a response: once more, to rule out a transport hiccup
		resp2 := f.cl.Do(cs.Gen.Req)
		if resp2.Status == 0 && !resp2.TimedOut {
			return outcome{kind: "no-response", answer: "no-response", err: resp2.Err}
		}
		resp = resp2
	}
	if resp.Status == 0 {
		return outcome{kind: "no-answer", answer: "no-answer", err: resp.Err}
	}
	if resp.TimedOut { // headers arrived, the body never ended
		return outcome{kind: "no-answer", answer: "body-never-ended", err: resp.Err, status: resp.Status}
	}
	if resp.Status == 500 && string(resp.Body) == "Internal Server Error" {
		// controller/utils.go tamePanic: a handler panic turned into an answer
		return outcome{kind: "answered", answer: "5xx-tamed-panic", status: resp.Status}
	}
	return outcome{kind: "answered", answer: fmt.Sprintf("%dxx", resp.Status/100), status: resp.Status}
}

// heapGrowthLimit: growth of the live heap during ONE request (result sets have at most 10000 short rows) beyond
// which the request is held to consume memory without bound.
const heapGrowthLimit = 3 << 30

func heapNow() uint64 {
	var ms runtime.MemStats
	runtime.ReadMemStats(&ms)
	return ms.HeapAlloc
}

// watchHeap samples the live heap while a case is open. When it has grown by more than heapGrowthLimit since
// the case began, one line goes to stderr (the parent reads it if the process then dies on an allocation that is
// itself small: the address space was used up by this request, not by earlier ones).
func (f *fuzzer) watchHeap(gi int) (stop func()) {
	h0 := heapNow()
	f.heap0.Store(h0)
	done := make(chan struct{})
	go func() {
		t := time.NewTicker(250 * time.Millisecond)
		defer t.Stop()
		for {
			select {
			case <-done:
				return
			case <-t.C:
				if h := heapNow(); h > h0 && h-h0 > heapGrowthLimit {
					where := ""
					for _, g := range qrynActive(run.Census()) {
						st := strings.SplitN(g.State, ",", 2)[0]
						if st == "running" || st == "runnable" {
							where = g.QrynFrames()[0]
						}
					}
					fmt.Fprintf(os.Stderr, "\nVERIF-RUNAWAY case=%d heap_at_start=%d heap_now=%d computing=%s\n", gi, h0, h, where)
					return
				}
			}
		}
	}()
	var once sync.Once
	return func() { once.Do(func() { close(done) }) }
}

// runaway decides a request that is unanswered at the client timeout and still computing by what it consumes
// rather than by how long it takes: the same goroutine is running in the same qryn frames, and the live heap has
// grown by more than 1 GiB since the request began and keeps rising over three samples 2 s apart.
func (f *fuzzer) runaway(cs *ccase, gi int, cb []byte, g run.Goroutine, stuck []run.Goroutine) bool {
	h0 := f.heap0.Load()
	var hs [3]uint64
	for i := range hs {
		hs[i] = heapNow()
		if i < 2 {
			time.Sleep(2 * time.Second)
		}
	}
	still := false
	for _, g2 := range qrynActive(run.Census()) {
		if g2.ID == g.ID && strings.Join(g2.QrynFrames(), "<") == strings.Join(g.QrynFrames(), "<") {
			still = true
		}
	}
	f.c.Cover("still-computing-heap-growth", fmt.Sprintf("%s|%s|grown>1GiB=%v rising=%v", cs.Gen.Endpoint, g.QrynFrames()[0], hs[2] > h0+1<<30, hs[1] > hs[0] && hs[2] > hs[1]), 1)
	if !still || hs[2] < h0+1<<30 || hs[1] <= hs[0] || hs[2] <= hs[1] {
		return false
	}
	fr := g.QrynFrames()[0]
	sig := "runaway/" + sigEndpoint(cs.Gen.Endpoint) + "/" + fr
	if pads(string(cb)) {
		sig = paddingSig
	}
	f.c.Violation(sig, fmt.Sprintf("%s: no complete HTTP answer after %v; the request is still computing in %s and the live heap has grown from %d MiB when it began to %d, %d, %d MiB (samples 2 s apart), on a result set of at most %d rows; request %s; database script %s",
		cs.Gen.Endpoint, clientWait, fr, h0>>20, hs[0]>>20, hs[1]>>20, hs[2]>>20, shapeRows(cs.DB.Shape), clip(cs.Gen.Req.String(), 400), cs.DB.class()),
		map[string]any{"case_index": gi, "case": json.RawMessage(cb), "goroutine": clip(g.Raw, 4000)})
	return true
}

// judgeNoAnswer applies the logical wedge criterion after the client timeout.
// spinning: bounded progress. The scripted result sets are small (at most a few thousand rows) and this process
// serves one request at a time in this lane: a request whose goroutine is still running in the same qryn function
// in every one of nine more dumps 5 s apart (60 s after it was sent, with no heap growth - that is runaway's case)
// is not slow, it does not end.
func (f *fuzzer) spinning(cs *ccase, gi int, cb []byte, g run.Goroutine) bool {
	fr := g.QrynFrames()[0]
	for i := 0; i < 9; i++ {
		time.Sleep(5 * time.Second)
		g2, ok := qrynActive(run.Census())[g.ID]
		if !ok || len(g2.QrynFrames()) == 0 || g2.QrynFrames()[0] != fr {
			return false
		}
		if st := strings.SplitN(g2.State, ",", 2)[0]; st != "running" && st != "runnable" {
			return false
		}
	}
	f.c.Violation("spinning/"+sigEndpoint(cs.Gen.Endpoint)+"/"+fr, fmt.Sprintf("%s: no complete HTTP answer after %v; the request's goroutine was running in %s in each of eleven dumps over 60 s, on a result set of at most %d rows and with a flat heap; request %s; database script %s",
		cs.Gen.Endpoint, clientWait+47*time.Second, fr, shapeRows(cs.DB.Shape), clip(cs.Gen.Req.String(), 400), cs.DB.class()),
		map[string]any{"case_index": gi, "case": json.RawMessage(cb), "goroutine": clip(g.Raw, 4000)})
	fmt.Fprintf(os.Stderr, "\nVERIF-SPINNING case=%d computing=%s\n", gi, fr)
	return true
}

func (f *fuzzer) judgeNoAnswer(cs *ccase, gi int, o outcome) {
	c := f.c
	d1 := qrynActive(run.Census())
	time.Sleep(2 * time.Second)
	d2 := qrynActive(run.Census())
	var stuck []run.Goroutine
	for id, g := range d1 {
		if g2, ok := d2[id]; ok && strings.Join(g.QrynFrames(), "<") == strings.Join(g2.QrynFrames(), "<") {
			stuck = append(stuck, g2)
		}
	}
	cb, _ := json.Marshal(cs)
	c.Case(cs.class(o.answer))
	if len(stuck) == 0 {
		c.Undecided("request unanswered at the client timeout but no goroutine sits in the same qryn frames in two dumps (" + clip(o.err, 100) + ")")
		return
	}
	// a goroutine of the request that is running or runnable in either dump means the request is
	// still computing (a slow, possibly very slow, request): not decidable as "blocked forever" here
	for _, set := range []map[string]run.Goroutine{d1, d2} {
		for _, g := range set {
			st := strings.SplitN(g.State, ",", 2)[0]
			if st == "running" || st == "runnable" || st == "syscall" {
				if f.runaway(cs, gi, cb, g, stuck) {
					return
				}
				if f.spinning(cs, gi, cb, g) {
					return
				}
				c.Undecided("request unanswered after " + clientWait.String() + " but still computing in " + g.QrynFrames()[0])
				c.Cover("still-computing-at-timeout", cs.Gen.Endpoint+"|"+g.QrynFrames()[0]+"|"+strings.Join(cs.Gen.Specials, ","), 1)
				return
			}
		}
	}
	sort.Slice(stuck, func(i, j int) bool { return len(stuck[i].QrynFrames()) > len(stuck[j].QrynFrames()) })
	// prefer the handler goroutine (created by net/http) for the signature
	top := stuck[0]
	for _, g := range stuck {
		if strings.Contains(g.CreatedBy, "net/http") {
			top = g
			break
		}
	}
	raw := ""
	for _, g := range stuck {
		raw += g.Raw + "\n\n"
	}
	fr := top.QrynFrames()[0]
	c.Violation("wedged/"+sigEndpoint(cs.Gen.Endpoint)+"/"+fr, fmt.Sprintf("%s: no complete HTTP answer after %v (%s); %d goroutine(s) of the request sit in the same qryn frames in two dumps 2 s apart, the handler in %s [%s]; request %s; database script %s",
		cs.Gen.Endpoint, clientWait, o.answer, len(stuck), fr, top.State, clip(cs.Gen.Req.String(), 400), cs.DB.class()),
		map[string]any{"case_index": gi, "case": json.RawMessage(cb), "client_error": o.err, "goroutines": clip(raw, 8000)})
}

// Replay re-runs the case of a replay file (cases are regenerated from the seed and the case
// index; run with VERIF_SEED set to the seed stored in the file).
func Replay(c *run.Ctx, path string) {
	b, err := os.ReadFile(path)
	if err != nil {
		c.Undecided("cannot read replay file: " + err.Error())
		return
	}
	var doc struct {
		Seed int64  `json:"seed"`
		Sig  string `json:"sig"`
		Case struct {
			Index int `json:"case_index"`
		} `json:"case"`
	}
	if err := json.Unmarshal(b, &doc); err != nil {
		c.Undecided("cannot parse replay file: " + err.Error())
		return
	}
	if doc.Seed != c.Seed() {
		fmt.Printf("the file was recorded with VERIF_SEED=%d; re-run with that seed\n", doc.Seed)
		c.Undecided("replay needs VERIF_SEED=" + fmt.Sprint(doc.Seed))
		return
	}
	if strings.Contains(doc.Sig, "/concurrent") {
		var cd struct {
			Case struct {
				Concurrent concSpec `json:"concurrent"`
			} `json:"case"`
		}
		json.Unmarshal(b, &cd)
		c.Case("replay")
		c.Case("replay|" + doc.Sig)
		runConcurrentRound(c, cd.Case.Concurrent.Round-1000000, cd.Case.Concurrent.PerClient)
		return
	}
	tail := strings.Contains(doc.Sig, "/loki.tail/")
	out := c.RunChild(run.ChildSpec{Prop: "C12", Name: "fuzz", Cfg: childCfg{Start: doc.Case.Index, N: 1, Tail: tail}, Timeout: 5 * time.Minute, MemKB: memKB})
	c.Case("replay")
	c.Case("replay|" + doc.Sig)
	if !out.Completed && out.OpenIdx >= 0 && out.Exit != exitStall && out.Exit != exitLeak && out.Exit != exitRecycle && !out.TimedOut {
		var open openCase
		json.Unmarshal(out.OpenCase, &open)
		reportDeath(c, out, open)
	}
	fmt.Printf("replay of case %d: child exit %d completed %v\n%s\n", doc.Case.Index, out.Exit, out.Completed, tailS(out.Stderr, 3000))
}
