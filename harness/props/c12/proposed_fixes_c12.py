import re
def sub(p, old, new, count=1):
    s=open(p).read()
    assert s.count(old)==count, (p, old[:60], s.count(old))
    s=s.replace(old,new)
    open(p,'w').write(s)

# P1: Loki query_range / query validate step and window (controller)
sub('reader/controller/queryRangeController.go','''	if err != nil {
		PromError(400, err.Error(), w)
		return
	}
	ch, err := q.QueryRangeService.QueryRange(''','''	if err != nil {
		PromError(400, err.Error(), w)
		return
	}
	if stepMs := int64(step * 1000); stepMs <= 0 || end < start || (end-start)/1e6/stepMs > 11000 {
		PromError(400, "step must be positive, end must not be before start and the window must not exceed 11000 steps", w)
		return
	}
	ch, err := q.QueryRangeService.QueryRange(''')
sub('reader/controller/queryRangeController.go','''	if err != nil {
		PromError(400, err.Error(), w)
		return
	}
	ch, err := q.QueryRangeService.QueryInstant(''','''	if err != nil {
		PromError(400, err.Error(), w)
		return
	}
	if !(int64(step*1000) > 0) || !(step <= 300) {
		PromError(400, "step must be positive and at most 300s", w)
		return
	}
	ch, err := q.QueryRangeService.QueryInstant(''')
# P2: range [0s] rejected at plan time
sub('reader/logql/logql_transpiler_v2/planner.go','''	duration, err := shared.GetDuration(script)
	if err != nil {
		return nil, err
	}
''','''	duration, err := shared.GetDuration(script)
	if err != nil {
		return nil, err
	}
	if duration <= 0 {
		return nil, &shared.NotSupportedError{Msg: "the range of a metric query must be positive"}
	}
''')
# P3: FixPeriodPlanner goroutine recovers, and drains its input when it stops early
sub('reader/logql/logql_transpiler_v2/planner_from_fix.go','''	go func() {
		defer close(res)
		for entries := range _in {''','''	go func() {
		defer close(res)
		defer func() {
			go func() {
				for range _in {
				}
			}()
		}()
		defer shared.TamePanic(res)
		for entries := range _in {''')
# P4: Tail supports log queries only
sub('reader/service/queryRangeService.go','''	res := NewWatcher(make(chan model.QueryRangeOutput))
''','''	if sqlQuery[0].IsMatrix() {
		return nil, fmt.Errorf("tail supports log queries only")
	}
	res := NewWatcher(make(chan model.QueryRangeOutput))
''')
# P5: aggregator stream length bounded and positive
sub('reader/logql/logql_transpiler_v2/internal_planner/planner_generic_aggregator.go','	if streamLen > 4000000000 {','	if streamLen <= 0 || streamLen > 1000000 {')
# P11: a stage that recovers from a panic or stops on an error drains its input
sub('reader/logql/logql_transpiler_v2/internal_planner/planner_generic.go','''		defer close(out)
		defer shared.TamePanic(out)
''','''		defer close(out)
		defer func() {
			go func() {
				for range _in {
				}
			}()
		}()
		defer shared.TamePanic(out)
''')
s=open('reader/service/queryRangeService.go').read()
s,n=re.subn(r'(?m)^(\t+)onErr\(e\.Err, res\)\n', lambda m: m.group(0)+m.group(1)+'go func() {\n'+m.group(1)+'\tfor range out {\n'+m.group(1)+'\t}\n'+m.group(1)+'}()\n', s)
assert n==3, n
open('reader/service/queryRangeService.go','w').write(s)
# P6: tempo span goroutine: recover, close rows, drain-safe send, id length checks
sub('reader/service/tempoService.go','''	go func() {
		defer close(res)
		parser := fastjson.Parser{}
		for rows.Next() {''','''	go func() {
		defer close(res)
		defer rows.Close()
		defer func() {
			if err := recover(); err != nil {
				fmt.Println("panic while decoding a stored span:", err)
			}
		}()
		parser := fastjson.Parser{}
		for rows.Next() {''')
sub('reader/service/tempoService.go','''			var (
				span        *v1.Span
				serviceName string
			)
			switch zipkin.payloadType {''','''			var (
				span        *v1.Span
				serviceName string
			)
			if len(zipkin.traceId) < 16 || len(zipkin.spanId) < 8 || zipkin.payload == "" {
				continue
			}
			switch zipkin.payloadType {''')
# P7: TraceQL result goroutine: recover + array length check
sub('reader/traceql/transpiler/reqest_processor.go','''		defer rows.Close()
		defer close(res)
''','''		defer rows.Close()
		defer close(res)
		defer func() {
			if err := recover(); err != nil {
				logger.Error("ERROR[TRP#2]: ", err)
			}
		}()
''')
sub('reader/traceql/transpiler/reqest_processor.go','''			for i := range durationsNs {
				if durationsNs[i] == timestampsNs[i] {''','''			if len(durationsNs) != len(spanIds) || len(timestampsNs) != len(spanIds) {
				continue
			}
			for i := range durationsNs {
				if durationsNs[i] == timestampsNs[i] {''')
# P8: tempo and pyroscope handlers recover like the others
s=open('reader/controller/tempoController.go').read()
for fn in ['Trace','Tags','TagsV2','ValuesV2','Values','Search']:
    old='func (t *TempoController) %s(w http.ResponseWriter, r *http.Request) {\n' % fn
    assert s.count(old)==1, fn
    s=s.replace(old, old+'\tdefer tamePanic(w, r)\n')
# P9: trace id length
s=s.replace('''	bTraceId := make([]byte, 32)
	_, err = hex.Decode(bTraceId, []byte(traceId))''','''	if len(traceId) > 64 {
		PromError(400, "traceId is too long", w)
		return
	}
	bTraceId := make([]byte, 32)
	_, err = hex.Decode(bTraceId, []byte(traceId))''')
# P10: TagsV2 / ValuesV2 check the error of both branches
assert s.count('''		cRes, err = t.Service.TagsV2(internalCtx, q, timespan[0], timespan[1], limit)
		if err != nil {
			PromError(500, err.Error(), w)
			return
		}
	}
''')==1
s=s.replace('''		cRes, err = t.Service.TagsV2(internalCtx, q, timespan[0], timespan[1], limit)
		if err != nil {
			PromError(500, err.Error(), w)
			return
		}
	}
''','''		cRes, err = t.Service.TagsV2(internalCtx, q, timespan[0], timespan[1], limit)
	}
	if err != nil {
		PromError(500, err.Error(), w)
		return
	}
''')
assert s.count('''		cRes, err = t.Service.ValuesV2(internalCtx, tag, q, timespan[0], timespan[1], limit)
		if err != nil {
			PromError(500, err.Error(), w)
			return
		}
	}
''')==1
s=s.replace('''		cRes, err = t.Service.ValuesV2(internalCtx, tag, q, timespan[0], timespan[1], limit)
		if err != nil {
			PromError(500, err.Error(), w)
			return
		}
	}
''','''		cRes, err = t.Service.ValuesV2(internalCtx, tag, q, timespan[0], timespan[1], limit)
	}
	if err != nil {
		PromError(500, err.Error(), w)
		return
	}
''')
# trace handler: drain the span channel when it stops early (json.Marshal error)
old = """	res, err := t.Service.Query(internalCtx, start*1e9, end*1e9, []byte(traceId), accept == "application/protobuf")
	if err != nil {
		PromError(500, err.Error(), w)
		return
	}
"""
assert s.count(old)==1
s=s.replace(old, old+"""	spans := res
	defer func() { // whatever ends this handler early, the producer must not stay blocked
		go func() {
			for range spans {
			}
		}()
	}()
""")
open('reader/controller/tempoController.go','w').write(s)
s=open('reader/controller/profController.go').read()
n=0
def addtp(m):
    global n
    n+=1
    return m.group(0)+'\tdefer tamePanic(w, r)\n'
s=re.sub(r'func \(pc \*ProfController\) (ProfileTypes|LabelNames|LabelValues|SelectMergeStackTraces|SelectSeries|MergeProfiles|Series|ProfileStats|RenderDiff|AnalyzeQuery)\(w http.ResponseWriter, r \*http.Request\) \{\n', addtp, s)
assert n==10, n
open('reader/controller/profController.go','w').write(s)
# P12: Prometheus query_range: end before start
sub('reader/controller/promQueryRangeController.go','''	if req.Step <= 0 {''','''	if req.End.Before(req.Start) {
		PromError(400, "end timestamp must not be before start time", w)
		return
	}
	if req.Step <= 0 {''')
