package c12

import (
	"context"
	"encoding/json"
	"fmt"
	"hash/fnv"
	"math/rand"
	"os"
	"runtime"
	"strings"
	"sync"
	"sync/atomic"
	"time"

	"verif/harness/engines/rdcat"
	"verif/harness/engines/run"
)

// The concurrent lane: C12 quantifies over schedules. The sequential lanes have one request in
// the reader at a time, so state shared BETWEEN requests (package-level tables, pools, caches the
// pipeline stages keep) is only ever touched by one of them. Here eight clients send at once; the
// queries are the ones whose pipelines continue in Go (parsers, filters, line_format with every
// template function the planner registers, with arguments that differ per line), mixed with
// canonical requests to the other families. Observed: process death (runtime-fatal errors such as
// "concurrent map writes" cannot be recovered by any handler), requests without an HTTP answer,
// and what is left behind when the lane is quiet again.

var concQueries = []string{
	// template functions with arguments taken from the line (so that they differ line by line)
	"{a=\"b\"} | logfmt | line_format `{{ regexReplaceAll .msg ._entry \"#\" }}`",
	"{a=\"b\"} | logfmt | line_format `{{ regexReplaceAllLiteral .level ._entry .msg }}`",
	"{a=\"b\"} | json | line_format `{{ regexReplaceAll .level ._entry \"<$0>\" }} {{ .v }}`",
	"{a=\"b\"} | line_format `{{ regexReplaceAll (trunc 4 ._entry) ._entry \"-\" }}`",
	"{a=\"b\"} | logfmt | line_format `{{ regexReplaceAll (printf \"%s|%s\" .x .n) ._entry \"_\" }}`",
	"{a=\"b\"} | logfmt | line_format `{{ .msg | upper | trunc 5 }} {{ add .n 1 }} {{ replace \"a\" \"b\" .msg }}`",
	"{a=\"b\"} | json | line_format `{{ fromJson ._entry }} {{ date \"2006-01-02\" now }} {{ div .v 0 }}`",
	"{a=\"b\"} | logfmt | line_format `{{ ToUpper .level }}{{ Replace .msg \"a\" \"b\" -1 }}{{ TrimSpace ._entry }}`",
	"{a=\"b\"} | logfmt | label_format z=`{{ regexReplaceAll .x .msg \"\" }}` | line_format `{{ .z }}`",
	"{a=\"b\"} | logfmt | line_format `{{ regexReplaceAll \"(\" ._entry \"\" }}`",
	"{a=\"b\"} | logfmt | line_format `{{ repeat 3 .level }}{{ indent 2 .msg }}{{ substr 0 3 .msg }}{{ mod .n 0 }}`",
	// the Go-side pipelines of the sequential lanes
	`{a="b"} | json`, `{a="b"} | logfmt`, `{a="b"} | logfmt | level="err" | line_format "{{.msg}}"`, `{a="b"} | json | drop level | label_format z=x`,
	`{a="b"} | json | v > 50`, `{a="b"} | logfmt | n >= 5 and level="info"`, `{a="b"} |~ "e.*r" | regexp "(?P<w>\\w+)"`, `{a="b"} | pattern "<m> <_>"`,
	`rate({a="b"} | json [5s])`, `count_over_time({a="b"} | logfmt | level="err" [10s])`, `sum by (x) (count_over_time({a="b"} | json [10s]))`,
	`sum_over_time({a="b"} | json | unwrap v [10s])`, `avg_over_time({a="b"} | logfmt | unwrap v [10s]) by (x)`, `max_over_time({a="b"} | json | unwrap v [5s]) > 3`,
	"sum_over_time({a=\"b\"} | logfmt | line_format `{{ regexReplaceAll .msg ._entry \"1\" }}` | unwrap n [10s])",
	`quantile_over_time(0.5, {a="b"} | logfmt | unwrap n [10s]) by (level)`, `first_over_time({a="b"} | logfmt | unwrap n [10s])`,
}

// concRequest draws the j-th request of a client.
func concRequest(r *rand.Rand) (rdcat.Req, string) {
	if r.Intn(10) < 3 {
		for {
			ep := rdcat.PickEndpoint(r)
			if ep.Name != "loki.tail" {
				return ep.Canon, ep.Name
			}
		}
	}
	q := concQueries[r.Intn(len(concQueries))]
	if r.Intn(6) == 0 {
		return rdcat.Req{Method: "GET", Path: "/loki/api/v1/query", RawQuery: rdcat.Q("query", q, "time", fmt.Sprint(rdcat.ToS*1e9), "limit", "5000")}, "loki.query"
	}
	kv := []string{"query", q, "start", fmt.Sprint(rdcat.FromS * 1e9), "end", fmt.Sprint(rdcat.ToS * 1e9), "step", "5", "limit", "5000"}
	if r.Intn(3) == 0 {
		kv = append(kv, "direction", "forward")
	}
	return rdcat.Req{Method: "GET", Path: "/loki/api/v1/query_range", RawQuery: rdcat.Q(kv...)}, "loki.query_range"
}

type concSpec struct {
	Round, Clients, PerClient int
}

// childConcurrent runs one round of the concurrent lane.
func childConcurrent(c *run.Ctx, cfg childCfg) {
	f := &fuzzer{c: c, lane: cfg.Lane, plog: &panicLog{}}
	var nstmt atomic.Int64
	f.conc = func(ctx context.Context, k rdcat.Kind, q string) rdcat.Answer {
		h := fnv.New64a()
		h.Write([]byte(q))
		n := nstmt.Add(1)
		r := rand.New(rand.NewSource(int64(h.Sum64()>>1) + n*7919 + int64(cfg.Start)))
		rows := rdcat.WellShaped(k, r, []int{7, 100, 100, 1000, 3000}[r.Intn(5)], rdcat.FromS*1e9, rdcat.ToS*1e9)
		a := rdcat.OK(k, rows)
		if r.Intn(12) == 0 && len(rows) > 0 {
			a.ErrAt = r.Intn(len(rows))
			a.RowErr = fmt.Errorf("code: 241, message: scripted failure while reading row %d", a.ErrAt)
		}
		return a
	}
	f.newSession()
	f.rd = startReader(f)
	spec := concSpec{Round: cfg.Start, Clients: 8, PerClient: cfg.Concurrent}
	warm := rdcat.NewClient(f.rd.Server.URL, clientWait)
	for _, n := range []string{"loki.query_range", "prom.query_range", "tempo.search.traceql", "pyro.LabelNames"} {
		warm.Do(rdcat.ByName(n).Canon)
	}
	time.Sleep(20 * time.Millisecond)
	sb, _ := json.Marshal(spec)
	c.BeginCase(cfg.Start, openCase{Trigger: "concurrent", WedgeKey: "concurrent", Endpoint: "concurrent", Case: sb})
	f.plog.take()
	base := census()
	openBefore := f.openRows()
	var inflight, maxInflight, answered, overlapped atomic.Int64
	var mu sync.Mutex
	unanswered := []string{}
	timedOut := 0
	byStatus := map[string]int{}
	var wg sync.WaitGroup
	for k := 0; k < spec.Clients; k++ {
		wg.Add(1)
		go func(k int) {
			defer wg.Done()
			r := c.Rng(fmt.Sprintf("c12/conc/%d/%d", spec.Round, k))
			cl := rdcat.NewClient(f.rd.Server.URL, clientWait)
			for j := 0; j < spec.PerClient; j++ {
				rq, ep := concRequest(r)
				n := inflight.Add(1)
				for {
					m := maxInflight.Load()
					if n <= m || maxInflight.CompareAndSwap(m, n) {
						break
					}
				}
				resp := cl.Do(rq)
				if inflight.Add(-1) > 0 {
					overlapped.Add(1)
				}
				mu.Lock()
				switch {
				case resp.Status != 0 && !resp.TimedOut:
					answered.Add(1)
					byStatus[fmt.Sprintf("%s/%dxx", ep, resp.Status/100)]++
				case resp.TimedOut:
					timedOut++
				default:
					unanswered = append(unanswered, clip(rq.String(), 300)+" -> "+clip(resp.Err, 120))
				}
				mu.Unlock()
			}
		}(k)
	}
	wg.Wait()
	for k, v := range byStatus {
		c.Cover("concurrent-lane/answers", k, v)
	}
	c.Event("concurrent_lane_requests_answered", int(answered.Load()))
	c.Event("concurrent_lane_max_requests_in_flight", int(maxInflight.Load()))
	c.Floor("requests answered while other requests were in flight", 0, int(overlapped.Load()))
	c.Case(fmt.Sprintf("concurrent|round=%d", spec.Round))
	if timedOut > 0 {
		c.Undecided("request of the concurrent lane unanswered at the client timeout")
	}
	if len(unanswered) > 0 {
		plog := f.plog.take()
		head, frame := panicFrame(plog)
		where := frame
		if where == "" {
			where = "no-panic-logged"
		}
		c.Violation("no-response/concurrent/"+where, fmt.Sprintf("concurrent lane (8 clients): %d request(s) had their connection closed without an HTTP response; handler panic: %s at %s; first: %s",
			len(unanswered), head, frame, unanswered[0]), map[string]any{"case_index": cfg.Start, "concurrent": spec, "unanswered": unanswered[:min(len(unanswered), 10)], "panic_log": clip(plog, 4000)})
	}
	lr, lg := f.quiesce(base, openBefore, 5*time.Second)
	if (len(lg) > 0 || lr > 0) && computing(lg) != "" {
		lr, lg = f.quiesce(base, openBefore, 10*time.Second)
	}
	switch {
	case (len(lg) > 0 || lr > 0) && computing(lg) != "":
		c.Undecided("work of the concurrent lane still computing 15s after its last answer, in " + computing(lg))
	case len(lg) > 0:
		dump := ""
		for _, g := range run.Census() {
			for _, l := range lg {
				if g.Signature() == l {
					dump += g.Raw + "\n\n"
					break
				}
			}
		}
		c.Violation("goroutine-leak/concurrent/"+leakFrame(lg, "concurrent"), fmt.Sprintf("concurrent lane (8 clients x %d requests): 5 s after the last answer %d kind(s) of goroutines started for the requests are still alive and blocked (and %d driver.Rows still open), e.g. %s",
			spec.PerClient, len(lg), lr, clip(lg[0], 300)), map[string]any{"case_index": cfg.Start, "concurrent": spec, "leaked": lg, "goroutines": clip(dump, 6000)})
	case lr > 0:
		c.Violation("rows-not-closed/concurrent", fmt.Sprintf("concurrent lane: 5 s after the last answer %d driver.Rows are still open and no goroutine is left to close them", lr),
			map[string]any{"case_index": cfg.Start, "concurrent": spec, "open_rows": clipAll(f.sess.OpenRows(), 300)})
	default:
		c.Floor("quiescence checks passed", 0, 1)
	}
	c.EndCase(cfg.Start)
	_ = os.Stderr
	_ = strings.TrimSpace
}

// childOutage: the database goes away and comes back. The production registry checks a node at most every 30 s, so
// the round first lets that interval pass; then the node is down (connections refused, pings fail), the registry is
// pinged as the watchdog pings it, and read requests arrive — each must be answered (an error is fine). Then the
// node is back, pinged again, and requests must be answered as before.
func childOutage(c *run.Ctx, cfg childCfg) {
	f := &fuzzer{c: c, lane: cfg.Lane, plog: &panicLog{}}
	f.newSession()
	f.rd = startReader(f)
	cl := rdcat.NewClient(f.rd.Server.URL, clientWait)
	reqs := []string{"loki.labels", "loki.query_range", "prom.series", "tempo.search.tags", "pyro.LabelNames"}
	for _, n := range reqs {
		cl.Do(rdcat.ByName(n).Canon)
	}
	sb, _ := json.Marshal(map[string]any{"outage": true})
	c.BeginCase(cfg.Start, openCase{Trigger: "outage", WedgeKey: "outage", Endpoint: "outage", Case: sb})
	time.Sleep(31 * time.Second)
	ping := func() string {
		done := make(chan error, 1)
		go func() { done <- f.reg.Ping() }()
		select {
		case err := <-done:
			if err != nil {
				return "error"
			}
			return "ok"
		case <-time.After(10 * time.Second):
			return "no-return"
		}
	}
	phase := func(name string) bool {
		for _, n := range reqs {
			stmts0 := f.sess.LogLen()
			resp := cl.Do(rdcat.ByName(n).Canon)
			c.Cover("outage/"+name, fmt.Sprintf("%s answered %dxx", n, resp.Status/100), 1)
			if resp.Status != 0 && !resp.TimedOut {
				c.Floor("requests answered around a database outage", 0, 1)
				continue
			}
			// no answer: blocked, spinning, or merely slow?
			var dumps [3]map[string]run.Goroutine
			var heaps, allocs [3]uint64
			for i := range dumps {
				dumps[i] = qrynActive(run.Census())
				var ms runtime.MemStats
				runtime.ReadMemStats(&ms)
				heaps[i], allocs[i] = ms.HeapAlloc, ms.TotalAlloc
				if i < 2 {
					time.Sleep(2 * time.Second)
				}
			}
			for id, g := range dumps[0] {
				g1, ok1 := dumps[1][id]
				g2, ok2 := dumps[2][id]
				if !ok1 || !ok2 || strings.Join(g.QrynFrames(), "<") != strings.Join(g1.QrynFrames(), "<") || strings.Join(g.QrynFrames(), "<") != strings.Join(g2.QrynFrames(), "<") {
					continue
				}
				st := strings.SplitN(g2.State, ",", 2)[0]
				fr := g.QrynFrames()[0]
				what := "blocked"
				if st == "running" || st == "runnable" {
					// running in the same frames in three dumps over 4 s after a 15 s wait, without a statement to the database
					// and without allocating: no input-dependent work is left that could still end
					if f.sess.LogLen() != stmts0 || allocs[2]-allocs[0] > 4<<20 {
						continue
					}
					what = "spinning"
				}
				c.Violation("wedged/around-database-outage/"+fr, fmt.Sprintf("%s (%s phase of a database outage): no HTTP answer after %v; a goroutine of the request is %s in %s in three dumps 2 s apart (no statement reached the database, %d bytes allocated meanwhile)",
					n, name, clientWait, what, fr, allocs[2]-allocs[0]), map[string]any{"case_index": cfg.Start, "outage": true, "goroutine": clip(g2.Raw, 3000)})
				return false
			}
			c.Undecided("request unanswered around a database outage, cause not established")
			return false
		}
		return true
	}
	f.sess.Down.Store(true)
	c.Cover("outage/ping", "node down: "+ping(), 1)
	if !phase("down") {
		os.Exit(exitStall)
	}
	f.sess.Down.Store(false)
	c.Cover("outage/ping", "node back: "+ping(), 1)
	if !phase("back") {
		os.Exit(exitStall)
	}
	c.Case("outage")
	c.EndCase(cfg.Start)
}
