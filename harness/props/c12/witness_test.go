package c12

import (
	"context"
	"database/sql/driver"
	"fmt"
	"os"
	"os/exec"
	"strings"
	"testing"
	"time"

	"verif/harness/engines/rdcat"
	"verif/harness/engines/run"
	"verif/harness/engines/sqldrv"
)

// Hand-minimised witnesses of the defects C12 reported on the tree it was developed against.
// Development aid: each witness runs in a re-executed copy of the test binary (several of them
// kill the process) and the outcome is logged; the test never fails (the defects get fixed).
//
//	go test ./props/c12 -run Witness -v
type witness struct {
	name string
	req  rdcat.Req
	rows func(k rdcat.Kind) ([]string, [][]driver.Value, error)
}

func one(k rdcat.Kind, want rdcat.Kind, row ...driver.Value) ([]string, [][]driver.Value, error) {
	if k != want {
		return rdcat.ColNames(k), nil, nil
	}
	return rdcat.ColNames(k), [][]driver.Value{row}, nil
}

const nsFrom, nsTo = "1700000000000000000", "1700003600000000000"

var witnesses = []witness{
	{"step=0 metric query", rdcat.Req{Method: "GET", Path: "/loki/api/v1/query_range", RawQuery: rdcat.Q("query", `rate({a="b"}[5s])`, "start", nsFrom, "end", nsTo, "step", "0")},
		func(k rdcat.Kind) ([]string, [][]driver.Value, error) {
			return one(k, rdcat.KMatrix, uint64(7), map[string]string{"a": "b"}, 1.0, int64(1700000005e9))
		}},
	{"range [0s]", rdcat.Req{Method: "GET", Path: "/loki/api/v1/query_range", RawQuery: rdcat.Q("query", `rate({a="b"}[0s])`, "start", nsFrom, "end", nsTo, "step", "5")},
		func(k rdcat.Kind) ([]string, [][]driver.Value, error) {
			return one(k, rdcat.KMatrix, uint64(7), map[string]string{"a": "b"}, 1.0, int64(1700000005e9))
		}},
	{"reversed window", rdcat.Req{Method: "GET", Path: "/loki/api/v1/query_range", RawQuery: rdcat.Q("query", `rate({a="b"}[5s])`, "start", nsTo, "end", nsFrom, "step", "5")},
		func(k rdcat.Kind) ([]string, [][]driver.Value, error) {
			return one(k, rdcat.KMatrix, uint64(7), map[string]string{"a": "b"}, 1.0, int64(1700000005e9))
		}},
	{"window from 0 with step 1ms", rdcat.Req{Method: "GET", Path: "/loki/api/v1/query_range", RawQuery: rdcat.Q("query", `rate({a="b"}[5s])`, "start", "0", "end", nsTo, "step", "0.001")},
		func(k rdcat.Kind) ([]string, [][]driver.Value, error) {
			return one(k, rdcat.KMatrix, uint64(7), map[string]string{"a": "b"}, 1.0, int64(1700000005e9))
		}},
	{"tail of a metric query (plain GET)", rdcat.Req{Method: "GET", Path: "/loki/api/v1/tail", RawQuery: rdcat.Q("query", `rate({a="b"}[5s])`)},
		func(k rdcat.Kind) ([]string, [][]driver.Value, error) {
			return one(k, rdcat.KMatrix, uint64(7), map[string]string{"a": "b"}, 1.0, time.Now().UnixNano())
		}},
	{"stored span with a 2-byte trace id", rdcat.Req{Method: "GET", Path: "/api/traces/0123456789abcdef0123456789abcdef"},
		func(k rdcat.Kind) ([]string, [][]driver.Value, error) {
			return one(k, rdcat.KTraceSpans, "ab", "12345678", "", int64(1), int64(1), int64(1), `{}`)
		}},
	{"stored OTLP span with an empty payload", rdcat.Req{Method: "GET", Path: "/api/traces/0123456789abcdef0123456789abcdef"},
		func(k rdcat.Kind) ([]string, [][]driver.Value, error) {
			return one(k, rdcat.KTraceSpans, "0123456789abcdef", "12345678", "", int64(1), int64(1), int64(2), ``)
		}},
	{"stored OTLP JSON span whose attributes are not objects", rdcat.Req{Method: "GET", Path: "/api/traces/0123456789abcdef0123456789abcdef"},
		func(k rdcat.Kind) ([]string, [][]driver.Value, error) {
			return one(k, rdcat.KTraceSpans, "0123456789abcdef", "12345678", "", int64(1), int64(1), int64(2), `{"attributes":[1]}`)
		}},
	{"TraceQL result row with arrays of different length", rdcat.Req{Method: "GET", Path: "/api/search", RawQuery: rdcat.Q("q", `{.a="b"}`, "start", "1700000000", "end", "1700003600")},
		func(k rdcat.Kind) ([]string, [][]driver.Value, error) {
			if k == rdcat.KTQLCount {
				return rdcat.ColNames(k), [][]driver.Value{{int64(5)}}, nil
			}
			return one(k, rdcat.KTQLTraces, "00", []string{"a", "b"}, []int64{1}, []int64{1, 2}, int64(1), 1.0, "s", "n")
		}},
	{"trace id of 66 hex digits", rdcat.Req{Method: "GET", Path: "/api/traces/" + strings.Repeat("ab", 33)},
		func(k rdcat.Kind) ([]string, [][]driver.Value, error) { return rdcat.ColNames(k), nil, nil }},
	{"tags v2 without start, database error", rdcat.Req{Method: "GET", Path: "/api/v2/search/tags"},
		func(k rdcat.Kind) ([]string, [][]driver.Value, error) { return nil, nil, fmt.Errorf("code: 241") }},
	{"profile type id without colons", rdcat.Req{Method: "POST", Path: "/querier.v1.QuerierService/ProfileTypes", Body: `{"start":1700000000000,"end":1700003600000}`, CType: "application/json"},
		func(k rdcat.Kind) ([]string, [][]driver.Value, error) {
			return one(k, rdcat.KProfTypes, "a", []interface{}{"cpu", "nanoseconds"})
		}},
	{"prom subquery [100y:1s]", rdcat.Req{Method: "GET", Path: "/api/v1/query", RawQuery: rdcat.Q("query", `(up)[100y:1s]`, "time", "1700003600")},
		func(k rdcat.Kind) ([]string, [][]driver.Value, error) { return rdcat.ColNames(k), nil, nil }},
	{"Go-side metric query, rows outside the window (stage panics, upstream not drained)", rdcat.Req{Method: "GET", Path: "/loki/api/v1/query", RawQuery: rdcat.Q("query", `count_over_time({a="b"} | logfmt [10s])`, "time", nsTo, "step", "5", "limit", "5000")},
		func(k rdcat.Kind) ([]string, [][]driver.Value, error) {
			if k != rdcat.KStreams {
				return rdcat.ColNames(k), nil, nil
			}
			var rows [][]driver.Value
			for i := 0; i < 300; i++ {
				rows = append(rows, []driver.Value{uint64(7), map[string]string{"a": "b"}, "x=1", int64(1600000000e9) + int64(i)})
			}
			return rdcat.ColNames(k), rows, nil
		}},
}

func TestWitness(t *testing.T) {
	if idx := os.Getenv("C12_WITNESS"); idx != "" {
		var i int
		fmt.Sscan(idx, &i)
		runWitness(witnesses[i])
		return
	}
	for i, w := range witnesses {
		cmd := exec.Command(os.Args[0], "-test.run", "^TestWitness$")
		cmd.Env = append(os.Environ(), fmt.Sprintf("C12_WITNESS=%d", i))
		out, err := cmd.CombinedOutput()
		s := string(out)
		res := ""
		if j := strings.LastIndex(s, "WITNESS-OUTCOME:"); j >= 0 {
			res = strings.SplitN(s[j:], "\n", 2)[0]
		}
		head, frame := deathHead(s)
		if res == "" {
			res = fmt.Sprintf("PROCESS DIED (%v): %s at %s", err, head, frame)
		}
		t.Logf("%-80s %s", w.name, res)
	}
}

func runWitness(w witness) {
	sess := sqldrv.NewSession("witness", nil)
	sess.SetHandler(func(ctx context.Context, q string) (*sqldrv.Rows, error) {
		cols, rows, err := w.rows(rdcat.Classify(q))
		if err != nil {
			return nil, err
		}
		return sqldrv.NewRows(cols, rows), nil
	})
	rd := sqldrv.StartReader(sqldrv.NewRegistry(sess, ""), "")
	cl := rdcat.NewClient(rd.Server.URL, 4*time.Second)
	base := census()
	resp := cl.Do(w.req)
	time.Sleep(1500 * time.Millisecond)
	leaked := run.CensusDiff(base, census())
	fmt.Printf("\nWITNESS-OUTCOME: status=%d err=%q timed-out=%v leaked-goroutines=%d %v body=%.80q\n", resp.Status, resp.Err, resp.TimedOut, len(leaked), leaked, resp.Body)
	os.Exit(0)
}
