// Package c03: log and metric ingest decodes every entry to exactly one faithful row.
// Real router + real parsers + real insert services, fake ClickHouse client (E-CHW);
// bodies rendered from abstract cases so the expected rows are known by construction.
package c03

import (
	"bytes"
	"context"
	"fmt"
	"sort"
	"strconv"
	"strings"
	"sync"
	"time"

	wmodel "github.com/metrico/qryn/writer/model"
	"github.com/metrico/qryn/writer/utils/numbercache"
	"github.com/metrico/qryn/writer/utils/unmarshal"

	"verif/harness/engines/chw"
	"verif/harness/engines/gen"
	"verif/harness/engines/run"
	"verif/harness/props/reg"
)

func init() {
	reg.Register(&reg.Prop{ID: "C03", Level: "exploration", Main: Main, Child: Child})
}

type childCfg struct {
	Writer chw.WriterCfg `json:"writer"`
	Start  int           `json:"start"`
	N      int           `json:"n"`
	Tag    string        `json:"tag"`
}

func Main(c *run.Ctx) {
	c.SetRule("cases = abstract (streams × entries) with unique stream ids, rendered per protocol and pushed through the real router; " +
		"distinct key = protocol × {single,multi}-chunk × stream-count class × entry-count class × hostile flag; non-trivial = at least one entry")
	c.Assume("the fake insert client decodes ch-go column objects directly; ClickHouse itself is not involved")
	c.Assume("stream attribution of a sample row is via the label document stored for its fingerprint (unique sid label per stream)")
	n := c.Pick(1800, 36000)
	per := c.Pick(450, 3000)
	cfgs := []chw.WriterCfg{
		{DBTimer: 0.003, RetryAttempts: 1, ChannelsSample: 2, ChannelsTimeSeries: 2},
		{DBTimer: 0.002, RetryAttempts: 1, ChannelsSample: 1, ChannelsTimeSeries: 1, Bernstein: true, DBBulk: 64 << 10},
	}
	idx := 0
	k := 0
	for idx < n {
		cc := childCfg{Writer: cfgs[k%len(cfgs)], Start: idx, N: min(per, n-idx), Tag: fmt.Sprintf("b%d", k)}
		out := c.RunChild(run.ChildSpec{Prop: "C03", Name: "ingest", Cfg: cc, Timeout: 10 * time.Minute})
		if !out.Completed {
			head, frame := run.PanicHead(out.Stderr)
			if out.TimedOut {
				c.Undecided("child watchdog expired")
				c.Note("child timed out: " + tail(out.Stderr, 2000))
			} else {
				c.Violation("child-death/"+frame, fmt.Sprintf("ingest child died (exit %d) on a well-formed body: %s in %s; open case: %s", out.Exit, head, frame, string(out.OpenCase)),
					map[string]any{"cfg": cc, "open_case": out.OpenCase, "stderr": tail(out.Stderr, 4000)})
			}
		}
		idx += cc.N
		k++
	}
	for _, p := range gen.LogProtos {
		c.Floor("proto:"+p, 1, 0)
	}
	c.Floor("multi-chunk bodies", 2, 0)
	c.Floor("influx bodies with several numeric fields on a line", c.Pick(100, 2000), 0)
	c.Floor("bodies read by a late reader: single-portion", c.Pick(20, 400), 0)
	c.Floor("bodies read by a late reader: multi-portion", c.Pick(3, 60), 0)
	c.Floor("multi-stream bodies checked for stream isolation", c.Pick(100, 2000), 0)
}

type nocache struct{}

func (nocache) CheckAndSet(k uint64) bool              { return false }
func (n nocache) DB(string) numbercache.ICache[uint64] { return n }

var isoParsers = map[string]unmarshal.ParsingFunction{
	"loki-json-values": unmarshal.DecodePushRequestStringV2, "loki-json-entries": unmarshal.DecodePushRequestStringV2, "loki-proto": unmarshal.UnmarshalProtoV2,
	"remote-write": unmarshal.UnmarshallMetricsWriteProtoV2, "influx-log": unmarshal.UnmarshalInfluxDBLogsV2, "influx-metric": unmarshal.UnmarshalInfluxDBLogsV2,
	"datadog-logs": unmarshal.UnmarshallDatadogV2JSONV2, "datadog-metrics": unmarshal.UnmarshallDatadogMetricsV2JSONV2, "otlp-logs": unmarshal.UnmarshalOTLPLogsV2,
}

// docsOf runs the exported parser of the protocol over a body holding the given streams and returns, per
// stream id, the label document(s) and fingerprint(s) it produced.
func docsOf(c *run.Ctx, gi int, tag string, proto string, streams []gen.Stream) (map[string]map[string]bool, error) {
	r := c.Rng(fmt.Sprintf("c03/iso/%d/%s", gi, tag))
	rq := gen.Render(r, proto, gen.LogCase{Streams: streams})
	body := rq.Body
	if proto == "loki-proto" || proto == "remote-write" {
		b, err := gen.Unsnappy(body)
		if err != nil {
			return nil, err
		}
		body = b
	}
	out := map[string]map[string]bool{}
	var perr error
	for rsp := range isoParsers[proto](parserCtx(), bytes.NewReader(body), nocache{}) {
		if rsp.Error != nil {
			perr = rsp.Error
			continue
		}
		if ts, ok := rsp.TimeSeriesRequest.(*wmodel.TimeSeriesData); ok && ts != nil {
			for k, doc := range ts.MLabels {
				sid := chw.SidIn(doc)
				if sid == "" {
					continue
				}
				if out[sid] == nil {
					out[sid] = map[string]bool{}
				}
				// the document's key order is not part of the identity: compare the decoded label set
				canon := doc
				if m, err := gen.StrictJSONStringMap([]byte(doc)); err == nil {
					kv := make([]string, 0, len(m))
					for _, l := range m {
						kv = append(kv, fmt.Sprintf("%q=%q", l[0], l[1]))
					}
					sort.Strings(kv)
					canon = "{" + strings.Join(kv, ",") + "}"
				}
				out[sid][fmt.Sprintf("%d %s", ts.MFingerprint[k], canon)] = true
			}
		}
	}
	return out, perr
}

// isolation: what a stream becomes (label document, fingerprint) must not depend on which other streams travel
// in the same body, nor on their order: the body with all streams, the body with the streams reversed and a body
// per stream must agree for every stream.
func isolation(c *run.Ctx, gi int, proto string, lc gen.LogCase) {
	if isoParsers[proto] == nil {
		return
	}
	full, err := docsOf(c, gi, "full", proto, lc.Streams)
	if err != nil {
		return // rejected bodies are the main monitor's subject
	}
	rev := append([]gen.Stream{}, lc.Streams...)
	for i, j := 0, len(rev)-1; i < j; i, j = i+1, j-1 {
		rev[i], rev[j] = rev[j], rev[i]
	}
	variants := map[string][]gen.Stream{"reversed": rev}
	for k, st := range lc.Streams {
		variants[fmt.Sprintf("alone-%d", k)] = []gen.Stream{st}
	}
	names := make([]string, 0, len(variants))
	for n := range variants {
		names = append(names, n)
	}
	sort.Strings(names)
	c.Floor("multi-stream bodies checked for stream isolation", 0, 1)
	for _, n := range names {
		got, err := docsOf(c, gi, n, proto, variants[n])
		if err != nil {
			continue
		}
		for _, st := range variants[n] {
			a, b := keysOf(full[st.SID]), keysOf(got[st.SID])
			if len(a) == 0 || len(b) == 0 {
				continue // streams without entries of the kind the protocol stores
			}
			if strings.Join(a, " | ") != strings.Join(b, " | ") {
				c.Violation("stream-depends-on-neighbours/"+proto, fmt.Sprintf("%s: stream %s becomes %v in the body with all %d streams but %v in the body %q: its series identity depends on the other entries of the request",
					proto, st.SID, first(a, 2), len(lc.Streams), first(b, 2), n), map[string]any{"case_index": gi, "proto": proto, "streams": lc.Streams, "variant": n})
				return
			}
		}
	}
}

// parserCtx: what the ingest controllers put into the context before calling a parser (the Influx decoder reads
// the timestamp precision from it)
func parserCtx() context.Context {
	return context.WithValue(context.Background(), "precision", time.Nanosecond)
}

// allDocs parses a raw body and returns every (fingerprint, decoded label set) it produced.
func allDocs(proto string, body []byte) (map[string]bool, error) {
	out := map[string]bool{}
	var perr error
	for rsp := range isoParsers[proto](parserCtx(), bytes.NewReader(body), nocache{}) {
		if rsp.Error != nil {
			perr = rsp.Error
			continue
		}
		if ts, ok := rsp.TimeSeriesRequest.(*wmodel.TimeSeriesData); ok && ts != nil {
			for k, doc := range ts.MLabels {
				canon := doc
				if m, err := gen.StrictJSONStringMap([]byte(doc)); err == nil {
					kv := make([]string, 0, len(m))
					for _, l := range m {
						kv = append(kv, fmt.Sprintf("%q=%q", l[0], l[1]))
					}
					sort.Strings(kv)
					canon = "{" + strings.Join(kv, ",") + "}"
				}
				out[fmt.Sprintf("%d %s", ts.MFingerprint[k], canon)] = true
			}
		}
	}
	return out, perr
}

// samplesOf reads what the protocol's parser hands over for a body; pause is how long the reader stays away
// before it takes each portion (0 = takes them as they come).
func samplesOf(proto string, body []byte, pause time.Duration) (map[string]int, int, error) {
	if proto == "loki-proto" || proto == "remote-write" {
		b, err := gen.Unsnappy(body)
		if err != nil {
			return nil, 0, err
		}
		body = b
	}
	out := map[string]int{}
	portions := 0
	var perr error
	res := isoParsers[proto](parserCtx(), bytes.NewReader(body), nocache{})
	for {
		if pause > 0 && portions < 4 {
			time.Sleep(pause)
		}
		rsp, ok := <-res
		if !ok {
			break
		}
		if rsp.Error != nil {
			perr = rsp.Error
			continue
		}
		portions++
		if sp, ok := rsp.SamplesRequest.(*wmodel.TimeSamplesData); ok && sp != nil {
			for k := range sp.MFingerprint {
				out[fmt.Sprintf("%d|%d|%q|%v|%d", sp.MFingerprint[k], sp.MTimestampNS[k], sp.MMessage[k], sp.MValue[k], sp.MType[k])]++
			}
		}
	}
	return out, portions, perr
}

// slowReader: the parsers hand a body over in portions through a channel; what they hand over may not depend on
// how promptly the other side takes each portion (a request handler on a starved or briefly stopped process
// comes back late). The same body is read once promptly and once by a reader that stays away 1.3 s before every
// portion; both must receive the same samples.
func slowReader(c *run.Ctx, gi int, proto string, body []byte) {
	fast, pf, errF := samplesOf(proto, body, 0)
	slow, ps, errS := samplesOf(proto, body, 1300*time.Millisecond)
	if errF != nil || errS != nil {
		if (errF == nil) != (errS == nil) {
			c.Violation("late-reader/outcome-differs/"+proto, fmt.Sprintf("%s: a prompt reader of the parser's portions got error %v, one that takes each portion 1.3 s late got %v", proto, errF, errS),
				map[string]any{"case": gi, "proto": proto})
		}
		return
	}
	multi := "single-portion"
	if pf > 1 {
		multi = "multi-portion"
	}
	c.Floor("bodies read by a late reader: "+multi, 0, 1)
	var miss, extra []string
	for k, n := range fast {
		if slow[k] < n {
			miss = append(miss, k)
		}
	}
	for k, n := range slow {
		if fast[k] < n {
			extra = append(extra, k)
		}
	}
	if len(miss)+len(extra) > 0 || pf != ps {
		sort.Strings(miss)
		sort.Strings(extra)
		if len(miss) > 2 {
			miss = miss[:2]
		}
		if len(extra) > 2 {
			extra = extra[:2]
		}
		c.Violation("late-reader/samples-differ/"+proto+"/"+multi, fmt.Sprintf("%s: a reader that takes each portion 1.3 s late received %d portion(s) and different samples than a prompt reader (%d portions): missing e.g. %v, extra e.g. %v",
			proto, ps, pf, miss, extra), map[string]any{"case": gi, "proto": proto, "portions_prompt": pf, "portions_late": ps})
	}
}

// influxLookalikes: two different series of the line protocol whose lines read the same once the escapes are
// taken away (a tag value holding `,host=a` beside a tag `host=a`; a measurement holding `,env=prod` beside a tag
// `env=prod`). In one body each must become what it becomes when it travels alone.
func influxLookalikes(c *run.Ctx, gi int) {
	r := c.Rng(fmt.Sprintf("c03/lookalike/%d", gi))
	id := fmt.Sprintf("sid-il%d-0", gi)
	ts := int64(1700000000000000000) + int64(r.Intn(86400))*1e9
	pairs := [][2]string{
		{`cpu,dc=x\,host\=a,sid=` + id, `cpu,dc=x,host=a,sid=` + id},
		{`app\,env=prod,sid=` + id, `app,env=prod,sid=` + id},
		{`cpu,sid=` + id + `,k=v\,w\=1`, `cpu,sid=` + id + `,k=v,w=1`},
	}
	p := pairs[r.Intn(len(pairs))]
	if r.Intn(2) == 0 {
		p[0], p[1] = p[1], p[0]
	}
	la := fmt.Sprintf("%s message=\"la\" %d\n", p[0], ts)
	lb := fmt.Sprintf("%s message=\"lb\" %d\n", p[1], ts+1)
	both, err := allDocs("influx-log", []byte(la+lb))
	a, errA := allDocs("influx-log", []byte(la))
	b, errB := allDocs("influx-log", []byte(lb))
	if err != nil || errA != nil || errB != nil {
		c.Cover("influx look-alike series", "a body was rejected (not judged)", 1)
		return
	}
	c.Floor("influx bodies with two series that read the same without their escapes", 0, 1)
	want := map[string]bool{}
	for k := range a {
		want[k] = true
	}
	for k := range b {
		want[k] = true
	}
	if strings.Join(keysOf(both), " | ") != strings.Join(keysOf(want), " | ") {
		c.Violation("stream-depends-on-neighbours/influx-log/escaped-separators", fmt.Sprintf("influx lines %q and %q in one body become %v; each alone: %v and %v", strings.TrimSpace(la), strings.TrimSpace(lb), keysOf(both), keysOf(a), keysOf(b)),
			map[string]any{"case_index": gi, "body": la + lb})
	}
}

// influxFields: a line of the line protocol may carry several numeric fields; each field is a series of its own
// (__name__ = the field's name, the line's tags), and every field's sample belongs to that series. The fields of
// a line carry pairwise different values, so a sample identifies its field.
func influxFields(c *run.Ctx, gi int) {
	r := c.Rng(fmt.Sprintf("c03/fields/%d", gi))
	names := []string{"usage_user", "usage_system", "idle", "load1", "n", "bytes_in", "bytes_out", "temp"}
	var sb strings.Builder
	type exp struct {
		field, sid string
		ts         int64
		val        float64
	}
	var want []exp
	nl := 1 + r.Intn(4)
	for l := 0; l < nl; l++ {
		sid := fmt.Sprintf("sid-if%d-%d", gi, l)
		ts := int64(1700000000000000000) + int64(r.Intn(86400))*1e9 + int64(l)
		nf := 2 + r.Intn(3)
		perm := r.Perm(len(names))
		sb.WriteString("cpu,sid=" + sid + ",host=h" + strconv.Itoa(r.Intn(3)) + " ")
		for f := 0; f < nf; f++ {
			v := float64(1000*(l+1)+f*10) + float64(r.Intn(4))*0.25
			if f > 0 {
				sb.WriteString(",")
			}
			if v == float64(int64(v)) && r.Intn(2) == 0 {
				sb.WriteString(names[perm[f]] + "=" + strconv.FormatInt(int64(v), 10) + "i")
			} else {
				sb.WriteString(names[perm[f]] + "=" + strconv.FormatFloat(v, 'f', -1, 64))
			}
			want = append(want, exp{names[perm[f]], sid, ts, v})
		}
		sb.WriteString(" " + strconv.FormatInt(ts, 10) + "\n")
	}
	body := sb.String()
	nameOf := map[uint64]string{} // fingerprint -> "__name__|sid" of its series document
	type smp struct {
		fp  uint64
		ts  int64
		val float64
	}
	var got []smp
	var perr error
	for rsp := range isoParsers["influx-metric"](parserCtx(), bytes.NewReader([]byte(body)), nocache{}) {
		if rsp.Error != nil {
			perr = rsp.Error
			continue
		}
		if ts, ok := rsp.TimeSeriesRequest.(*wmodel.TimeSeriesData); ok && ts != nil {
			for k, doc := range ts.MLabels {
				if m, err := gen.StrictJSONStringMap([]byte(doc)); err == nil {
					var n, sid string
					for _, l := range m {
						if l[0] == "__name__" {
							n = l[1]
						} else if l[0] == "sid" {
							sid = l[1]
						}
					}
					nameOf[ts.MFingerprint[k]] = n + "|" + sid
				}
			}
		}
		if sp, ok := rsp.SamplesRequest.(*wmodel.TimeSamplesData); ok && sp != nil {
			for k := range sp.MFingerprint {
				got = append(got, smp{sp.MFingerprint[k], sp.MTimestampNS[k], sp.MValue[k]})
			}
		}
	}
	if perr != nil {
		c.Cover("influx multi-field lines", "a body was rejected (not judged)", 1)
		return
	}
	c.Floor("influx bodies with several numeric fields on a line", 0, 1)
	for _, w := range want {
		found, where := false, ""
		for _, g := range got {
			if g.ts == w.ts && g.val == w.val {
				found = true
				where = nameOf[g.fp]
				break
			}
		}
		if !found {
			c.Violation("influx-field/sample-missing", fmt.Sprintf("influx line with several fields: no sample for field %s=%v of stream %s; body %q", w.field, w.val, w.sid, body),
				map[string]any{"case_index": gi, "body": body})
			return
		}
		if where != w.field+"|"+w.sid {
			c.Violation("influx-field/sample-in-another-fields-series", fmt.Sprintf("influx line with several fields: the sample of field %s (value %v, stream %s) carries the fingerprint of series %q; body %q", w.field, w.val, w.sid, where, body),
				map[string]any{"case_index": gi, "body": body})
			return
		}
	}
	if len(got) != len(want) {
		c.Violation("influx-field/sample-count", fmt.Sprintf("influx lines with %d numeric fields in all produced %d samples; body %q", len(want), len(got), body), map[string]any{"case_index": gi, "body": body})
	}
}

func keysOf(m map[string]bool) []string {
	out := make([]string, 0, len(m))
	for k := range m {
		out = append(out, k)
	}
	sort.Strings(out)
	return out
}

func tail(s string, n int) string {
	if len(s) > n {
		return s[len(s)-n:]
	}
	return s
}

func classN(n int) string {
	switch {
	case n == 0:
		return "0"
	case n == 1:
		return "1"
	case n <= 10:
		return "2-10"
	case n <= 1000:
		return "11-1000"
	}
	return ">1000"
}

type item struct {
	idx int
	req gen.Request
	lc  gen.LogCase
	key string
	rec *chw.ReqRecord
}

func Child(c *run.Ctx, name string) {
	var cfg childCfg
	if err := run.ChildCfg(&cfg); err != nil {
		panic(err)
	}
	led := chw.NewLedger(nil)
	w := chw.StartWriter(cfg.Writer, led)
	sess := chw.NewSession(w)
	items := make([]*item, cfg.N)
	var late sync.WaitGroup
	defer late.Wait()
	for i := 0; i < cfg.N; i++ {
		gi := cfg.Start + i
		r := c.Rng(fmt.Sprintf("c03/case/%d", gi))
		proto := gen.LogProtos[gi%len(gen.LogProtos)]
		o := gen.LogOpts{ID: fmt.Sprintf("c%d", gi), Proto: proto, Streams: 1 + r.Intn(6), MaxEntries: 1 + r.Intn(30),
			Hostile: r.Intn(2) == 0, BaseNs: 1700000000000000000 + int64(r.Intn(86400*3))*1e9}
		if gi%37 == 5 || gi%37 == 6 {
			o.Big = true
			// the flush thresholds themselves: exactly 1000 / 2000 / 3000 points, one below, one above
			if x := []int{0, 1000, 2000, 999, 0, 1001, 3000, 0}[(gi/37)%8]; x > 0 {
				o.Exact = x
			}
		}
		o.TTLLabel = gi%4 == 1 || o.Big && gi%2 == 0
		o.Unordered = gi%3 == 1
		o.ZoneTwins = gi%7 == 3 && !o.Big
		if r.Intn(8) == 0 {
			o.Streams = 20 + r.Intn(30)
		}
		lc := gen.NewLogCase(r, o)
		rq := gen.Render(r, proto, lc)
		ne := len(rq.Expect)
		if len(lc.Streams) >= 2 && len(lc.Streams) <= 6 && !o.Big {
			isolation(c, gi, proto, lc)
		}
		if gi%10 == 4 {
			influxLookalikes(c, gi)
		}
		if gi%10 == 7 {
			influxFields(c, gi)
		}
		if gi%50 == 9 || gi%185 == 5 { // 185 = 5*37: big bodies (several portions), every protocol in turn
			late.Add(1)
			go func(body []byte) {
				defer late.Done()
				slowReader(c, gi, proto, body)
			}(rq.Body)
		}
		key := fmt.Sprintf("%s|multi=%v|streams=%s|entries=%s|hostile=%v", proto, rq.MultiChunk, classN(len(lc.Streams)), classN(ne), o.Hostile)
		items[i] = &item{idx: gi, req: rq, lc: lc, key: key}
	}
	// 8 concurrent clients
	var wg sync.WaitGroup
	ch := make(chan *item)
	for g := 0; g < 8; g++ {
		wg.Add(1)
		go func(g int) {
			defer wg.Done()
			for it := range ch {
				it.rec = sess.Send(g, &it.req)
			}
		}(g)
	}
	for _, it := range items {
		ch <- it
	}
	close(ch)
	wg.Wait()
	// quiesce: all requests are answered, so all of their rows were flushed
	blocks := led.Snapshot()
	ix := chw.BuildIndex(blocks)
	c.Event("insert_blocks", len(blocks))
	c.Event("sample_rows", len(ix.Samples))
	c.Event("series_rows", len(ix.Series))
	// observed rows per sid (only rows of successful blocks count as "produced")
	obs := map[string]map[string]int{}
	unattributed := 0
	for _, s := range ix.Samples {
		if !s.Blk.Succeeded() {
			continue
		}
		sid := ix.SIDofFP[s.FP]
		if sid == "" {
			unattributed++
			continue
		}
		if obs[sid] == nil {
			obs[sid] = map[string]int{}
		}
		obs[sid][chw.RowKey(sid, s.TsNs, s.Line, s.Value, s.Type)]++
	}
	for _, b := range blocks {
		if !b.Rect || b.EncodeErr != "" {
			c.Violation("non-rectangular/"+b.Table, fmt.Sprintf("block %d into %s: column rows %v (%s) while pushing well-formed bodies", b.Seq, b.Table, b.ColRows, b.EncodeErr),
				map[string]any{"cfg": cfg, "block": b.Seq, "cols": b.ColNames, "rows": b.ColRows})
		}
	}
	// two different streams under one fingerprint: inherent with the optional 32-bit Bernstein fingerprint (birthday
	// bound reached at ~10^5 label sets), a defect with the default 64-bit one
	sidsOfFP := map[uint64]map[string]bool{}
	for _, sr := range ix.Series {
		if sid := chw.SidIn(sr.Labels); sid != "" {
			if sidsOfFP[sr.FP] == nil {
				sidsOfFP[sr.FP] = map[string]bool{}
			}
			sidsOfFP[sr.FP][sid] = true
		}
	}
	collided := map[string]bool{}
	for fp, ss := range sidsOfFP {
		if len(ss) < 2 {
			continue
		}
		names := keysOf(ss)
		if cfg.Writer.Bernstein {
			for _, n := range names {
				collided[n] = true
			}
			c.Cover("not-judged", "streams sharing a 32-bit Bernstein fingerprint with another stream", len(names))
		} else {
			c.Violation("fingerprint-collision", fmt.Sprintf("streams %v share fingerprint %d", names, fp), map[string]any{"cfg": cfg, "streams": names})
		}
	}
	fpOfSid := map[string]map[uint64]bool{}
	for fp, sid := range ix.SIDofFP {
		if fpOfSid[sid] == nil {
			fpOfSid[sid] = map[uint64]bool{}
		}
		fpOfSid[sid][fp] = true
	}
	for _, it := range items {
		c.Case(it.key)
		c.Cover("protocol", it.req.Proto, 1)
		c.Floor("proto:"+it.req.Proto, 1, 1)
		if it.req.MultiChunk {
			c.Floor("multi-chunk bodies", 2, 1)
		}
		if it.idx < cfg.Start+3 {
			c.Sample(map[string]any{"proto": it.req.Proto, "path": it.req.Path, "streams": it.req.Streams, "entries": len(it.req.Expect), "body_prefix": clip(string(it.req.Body), 300), "status": it.rec.Status})
		}
		replay := map[string]any{"cfg": cfg, "case_index": it.idx, "proto": it.req.Proto, "path": it.req.Path, "content_type": it.req.ContentType, "body": clipBytes(it.req.Body, 1<<16)}
		if it.rec.Status < 200 || it.rec.Status > 299 {
			c.Violation("rejected/"+it.req.Proto+shapeOf(it), fmt.Sprintf("well-formed %s body answered %d %s (%s): its entries produced no rows", it.req.Proto, it.rec.Status, clip(it.rec.Body, 200), it.rec.Err), replay)
			continue
		}
		exp := map[string]int{}
		sids := map[string]bool{}
		for _, e := range it.req.Expect {
			exp[chw.ExpKey(e)]++
			sids[e.SID] = true
		}
		skip := false
		for sid := range sids {
			skip = skip || collided[sid]
		}
		if skip {
			continue
		}
		var missing, extra []string
		got := map[string]int{}
		for sid := range sids {
			for k, n := range obs[sid] {
				got[k] += n
			}
			if len(fpOfSid[sid]) > 1 {
				c.Violation("fp-split/"+it.req.Proto, fmt.Sprintf("stream %s of one request has %d fingerprints", sid, len(fpOfSid[sid])), replay)
			}
		}
		for k, n := range exp {
			if got[k] < n {
				missing = append(missing, fmt.Sprintf("%s x%d", k, n-got[k]))
			}
		}
		for k, n := range got {
			if exp[k] < n {
				extra = append(extra, fmt.Sprintf("%s x%d", k, n-exp[k]))
			}
		}
		if len(missing)+len(extra) > 0 {
			sort.Strings(missing)
			sort.Strings(extra)
			kind := "mismatch"
			if len(extra) == 0 {
				kind = "dropped"
			} else if len(missing) == 0 {
				kind = "duplicated-or-foreign"
			}
			replay["missing"] = first(missing, 10)
			replay["extra"] = first(extra, 10)
			c.Violation(kind+"/"+it.req.Proto+shapeOf(it), fmt.Sprintf("%s: rows differ from the submitted entries: %d missing (e.g. %v), %d unexpected (e.g. %v)", it.req.Proto, len(missing), first(missing, 2), len(extra), first(extra, 2)), replay)
		}
	}
	if unattributed > 0 {
		c.Violation("unattributed-rows", fmt.Sprintf("%d sample rows carry a fingerprint for which no series row / label document with a stream id was produced", unattributed), map[string]any{"cfg": cfg})
	}
	w.Shutdown()
}

func shapeOf(it *item) string {
	if it.req.MultiChunk {
		return "/multi-chunk"
	}
	return ""
}

func first(s []string, n int) []string {
	if len(s) > n {
		return s[:n]
	}
	return s
}

func clip(s string, n int) string {
	if len(s) > n {
		return s[:n] + "…"
	}
	return s
}

func clipBytes(b []byte, n int) []byte {
	if len(b) > n {
		return b[:n]
	}
	return b
}
