// Package c06: a stored span reads back as the span that was pushed.
// Write side: exported OTLP / Zipkin parsers → trace rows and tag rows. Read side: the rows
// are replayed as database rows (scripted database/sql driver) into the real trace read path.
package c06

import (
	"bytes"
	"context"
	"database/sql/driver"
	"encoding/hex"
	"fmt"
	"math"
	"sort"
	"strings"
	"time"

	clconfig "github.com/metrico/cloki-config"
	rmodel "github.com/metrico/qryn/reader/model"
	rservice "github.com/metrico/qryn/reader/service"
	wconfig "github.com/metrico/qryn/writer/config"
	wmodel "github.com/metrico/qryn/writer/model"
	"github.com/metrico/qryn/writer/utils/numbercache"
	"github.com/metrico/qryn/writer/utils/unmarshal"
	common "go.opentelemetry.io/proto/otlp/common/v1"

	"verif/harness/engines/gen"
	"verif/harness/engines/run"
	"verif/harness/engines/sqldrv"
	"verif/harness/props/reg"
)

func init() {
	reg.Register(&reg.Prop{ID: "C06", Level: "exploration", Main: Main, Child: Child})
}

type childCfg struct {
	Start int `json:"start"`
	N     int `json:"n"`
}

func Main(c *run.Ctx) {
	c.SetRule("span batches (1–20 resource/scope groups, attributes of every AnyValue kind incl. nested lists/maps, maximal ids, string or numeric Zipkin timestamps, array and NDJSON framing, shuffled field order, > 64 KiB spans) " +
		"through the exported OTLP/Zipkin parsers, then through the real trace read path; distinct key = protocol × framing × group-count class × attribute kinds present × hostile flag")
	c.Assume("service name is judged only when exactly one candidate attribute is present (resource service.name for OTLP, localEndpoint.serviceName for Zipkin)")
	c.Assume("double attributes: the tag row must exist and its value must equal the pushed value within 1e-6 (the 6-decimal rendering is not judged); the decoded payload must carry the exact double")
	total := c.Pick(1500, 60000)
	per := c.Pick(750, 7500)
	for s := 0; s < total; s += per {
		cc := childCfg{Start: s, N: min(per, total-s)}
		out := c.RunChild(run.ChildSpec{Prop: "C06", Name: "roundtrip", Cfg: cc, Timeout: 4 * time.Minute})
		if !out.Completed {
			if out.TimedOut {
				c.Undecided("child watchdog expired")
				continue
			}
			head, frame := run.PanicHead(out.Stderr)
			c.Violation("process-death/"+frame, fmt.Sprintf("process died while storing/reading back a well-formed span batch: %s at %s; case %s", head, frame, clip(string(out.OpenCase), 300)),
				map[string]any{"case": out.OpenCase, "stderr": tail(out.Stderr, 4000)})
		}
	}
	for _, f := range []string{"proto:otlp-traces", "proto:zipkin-json", "proto:zipkin-ndjson", "spans with nested attributes", "spans > 64 KiB", "pushes delivered by the parser in several chunks", "exports in which spans of different traces share a span id"} {
		c.Floor(f, 1, 0)
	}
	c.Floor("spans read back and compared", total, 0)
}

type nocache struct{}

func (nocache) CheckAndSet(k uint64) bool              { return false }
func (n nocache) DB(string) numbercache.ICache[uint64] { return n }

func Child(c *run.Ctx, name string) {
	var cfg childCfg
	run.ChildCfg(&cfg)
	wconfig.Cloki = clconfig.New(clconfig.CLOKI_WRITER, nil, "", "")
	var current [][]driver.Value
	sess := sqldrv.NewSession("c06", func(ctx context.Context, q string) (*sqldrv.Rows, error) {
		return sqldrv.NewRows([]string{"trace_id", "span_id", "parent_id", "timestamp_ns", "duration_ns", "payload_type", "payload"}, current), nil
	})
	registry := sqldrv.NewRegistry(sess, "")
	svc := rservice.NewTempoService(rmodel.ServiceData{Session: registry})
	for i := 0; i < cfg.N; i++ {
		gi := cfg.Start + i
		r := c.Rng(fmt.Sprintf("c06/case/%d", gi))
		kind := gi % 3 // 0 otlp, 1 zipkin array, 2 zipkin ndjson
		o := gen.SpanOpts{ID: fmt.Sprintf("c%d", gi), N: 1 + r.Intn(8), Groups: 1 + r.Intn(3), Hostile: r.Intn(2) == 0, BaseNs: 1700000000000000000 + int64(r.Intn(86400))*1e9,
			Zipkin: kind != 0, Nested: kind == 0 && r.Intn(2) == 0}
		if r.Intn(10) == 0 {
			o.Groups = 10 + r.Intn(11)
			o.N = 20 + r.Intn(20)
		}
		if gi%29 == 3 {
			o.BigAttrs = true // > 64 KiB spans
		}
		o.ReuseSpanIDs = gi%5 == 2 // spans of different traces with one and the same span id
		if gi%500 == 77 || gi%500 == 78 || gi%500 == 79 {
			// enough rows to cross the parser's 1 MiB chunk threshold several times
			o.Groups, o.N, o.Hostile = 2+r.Intn(3), 2500+r.Intn(1500), false
		}
		sc := gen.NewSpanCase(r, o)
		var rq gen.Request
		var parser unmarshal.ParsingFunction
		switch kind {
		case 0:
			rq, parser = gen.RenderOTLP(r, sc), unmarshal.UnmarshalOTLPV2
		case 1:
			rq, parser = gen.RenderZipkin(r, sc, false), unmarshal.UnmarshalZipkinJSONV2
		default:
			rq, parser = gen.RenderZipkin(r, sc, true), unmarshal.UnmarshalZipkinNDJSONV2
		}
		kinds := map[string]bool{}
		big := false
		for _, s := range sc.Spans {
			for _, a := range append(append([]gen.Attr{}, s.Attrs...), s.ResAttrs...) {
				kinds[a.Kind] = true
				if len(a.S) > 64<<10 {
					big = true
				}
			}
		}
		ks := []string{}
		for k := range kinds {
			ks = append(ks, k)
		}
		sort.Strings(ks)
		c.BeginCase(gi, map[string]any{"proto": rq.Proto, "spans": len(sc.Spans), "body_prefix": fmt.Sprintf("%q", clipB(rq.Body, 200))})
		c.Case(fmt.Sprintf("%s|groups=%d|kinds=%s|hostile=%v|big=%v", rq.Proto, min(o.Groups, 4), strings.Join(ks, "+"), o.Hostile, big))
		c.Floor("proto:"+rq.Proto, 0, 1)
		if kinds["array"] || kinds["kvlist"] {
			c.Floor("spans with nested attributes", 0, 1)
		}
		if big {
			c.Floor("spans > 64 KiB", 0, 1)
		}
		if sc.Reused > 0 {
			c.Floor("exports in which spans of different traces share a span id", 0, 1)
		}
		if i < 2 {
			c.Sample(map[string]any{"proto": rq.Proto, "spans": len(sc.Spans), "first_span": sc.Spans[0]})
		}
		replay := map[string]any{"case_index": gi, "proto": rq.Proto, "content_type": rq.ContentType, "body": clipB(rq.Body, 1<<16)}
		// ---- write side
		var traces wmodel.TempoSamples
		var tags wmodel.TempoTag
		var perr error
		// like controller.doParse/doPush the consumer keeps every chunk it was handed and reads it later, while the
		// parser goes on with the rest of the body: the chunks are merged only after the channel is closed
		var chunks []*wmodel.ParserResponse
		for resp := range parser(context.Background(), bytes.NewReader(rq.Body), nocache{}) {
			if resp.Error != nil {
				perr = resp.Error
				continue
			}
			chunks = append(chunks, resp)
		}
		if len(chunks) > 1 {
			c.Floor("pushes delivered by the parser in several chunks", 0, 1)
		}
		for _, resp := range chunks {
			if t, ok := resp.SpansRequest.(*wmodel.TempoSamples); ok && t != nil {
				traces.MTraceId = append(traces.MTraceId, t.MTraceId...)
				traces.MSpanId = append(traces.MSpanId, t.MSpanId...)
				traces.MParentId = append(traces.MParentId, t.MParentId...)
				traces.MName = append(traces.MName, t.MName...)
				traces.MTimestampNs = append(traces.MTimestampNs, t.MTimestampNs...)
				traces.MDurationNs = append(traces.MDurationNs, t.MDurationNs...)
				traces.MServiceName = append(traces.MServiceName, t.MServiceName...)
				traces.MPayloadType = append(traces.MPayloadType, t.MPayloadType...)
				traces.MPayload = append(traces.MPayload, t.MPayload...)
			}
			if t, ok := resp.SpansAttrsRequest.(*wmodel.TempoTag); ok && t != nil {
				tags.MTraceId = append(tags.MTraceId, t.MTraceId...)
				tags.MSpanId = append(tags.MSpanId, t.MSpanId...)
				tags.MTimestampNs = append(tags.MTimestampNs, t.MTimestampNs...)
				tags.MDurationNs = append(tags.MDurationNs, t.MDurationNs...)
				tags.MKey = append(tags.MKey, t.MKey...)
				tags.MVal = append(tags.MVal, t.MVal...)
			}
		}
		if perr != nil {
			c.Violation("rejected/"+rq.Proto, fmt.Sprintf("well-formed %s span batch rejected: %v", rq.Proto, perr), replay)
			c.EndCase(gi)
			continue
		}
		// one trace row per span
		rowOf := map[string][]int{}
		for j := range traces.MSpanId {
			k := hex.EncodeToString(traces.MTraceId[j]) + "/" + hex.EncodeToString(traces.MSpanId[j])
			rowOf[k] = append(rowOf[k], j)
		}
		tagRows := map[string][]int{}
		for j := range tags.MSpanId {
			k := hex.EncodeToString(tags.MTraceId[j]) + "/" + hex.EncodeToString(tags.MSpanId[j])
			tagRows[k] = append(tagRows[k], j)
		}
		if len(traces.MSpanId) != len(sc.Spans) {
			c.Violation("trace-row-count/"+rq.Proto, fmt.Sprintf("%d spans pushed, %d trace rows produced", len(sc.Spans), len(traces.MSpanId)), replay)
		}
		for _, sp := range sc.Spans {
			// a span is identified by (trace id, span id): span ids are only unique inside a trace
			id := hex.EncodeToString(sp.TraceID) + "/" + hex.EncodeToString(sp.SpanID)
			rows := rowOf[id]
			if len(rows) != 1 {
				c.Violation("trace-row-per-span/"+rq.Proto, fmt.Sprintf("span %s has %d trace rows (exactly one expected)", id, len(rows)), replay)
				continue
			}
			j := rows[0]
			var d []string
			if !bytes.Equal(traces.MTraceId[j], sp.TraceID) || len(traces.MTraceId[j]) != 16 {
				d = append(d, fmt.Sprintf("trace_id %x≠%x", traces.MTraceId[j], sp.TraceID))
			}
			if len(traces.MSpanId[j]) != 8 {
				d = append(d, "span id not 8 bytes")
			}
			if traces.MParentId[j] != string(sp.ParentID) {
				d = append(d, fmt.Sprintf("parent %x≠%x", traces.MParentId[j], sp.ParentID))
			}
			if traces.MTimestampNs[j] != sp.StartNs {
				d = append(d, fmt.Sprintf("start %d≠%d", traces.MTimestampNs[j], sp.StartNs))
			}
			if traces.MDurationNs[j] != sp.DurNs {
				d = append(d, fmt.Sprintf("duration %d≠%d", traces.MDurationNs[j], sp.DurNs))
			}
			if traces.MName[j] != sp.Name {
				d = append(d, fmt.Sprintf("name %q≠%q", traces.MName[j], sp.Name))
			}
			if sp.Service != "" && traces.MServiceName[j] != sp.Service {
				d = append(d, fmt.Sprintf("service %q≠%q", traces.MServiceName[j], sp.Service))
			}
			if len(d) > 0 {
				c.Violation("trace-row-fields/"+rq.Proto+"/"+fieldClass(d), fmt.Sprintf("trace row of span %s differs from the pushed span: %s", id, strings.Join(d, "; ")), replay)
			}
			// one tag row per flattened attribute, same ids and times
			exp := sp.ExpectedTags()
			seen := map[string]int{}
			for _, t := range tagRows[id] {
				seen[tags.MKey[t]]++
				if !bytes.Equal(tags.MTraceId[t], sp.TraceID) || tags.MTimestampNs[t] != sp.StartNs || tags.MDurationNs[t] != sp.DurNs {
					c.Violation("tag-row-ids-times/"+rq.Proto, fmt.Sprintf("tag row %q of span %s bears trace %x start %d duration %d, the span has %x %d %d", tags.MKey[t], id, tags.MTraceId[t], tags.MTimestampNs[t], tags.MDurationNs[t], sp.TraceID, sp.StartNs, sp.DurNs), replay)
				}
				if v, ok := exp[tags.MKey[t]]; ok && v != tags.MVal[t] && !floatEq(v, tags.MVal[t]) {
					c.Violation("tag-row-value/"+rq.Proto, fmt.Sprintf("tag row %q of span %s has value %q, the attribute is %q", tags.MKey[t], id, tags.MVal[t], v), replay)
				}
			}
			seenKeys := make([]string, 0, len(seen))
			for k := range seen {
				seenKeys = append(seenKeys, k)
			}
			sort.Strings(seenKeys)
			for _, k := range seenKeys {
				if _, ok := exp[k]; !ok {
					c.Cover("tag rows beyond the flattened attributes (key)", k, 1)
					if !derivedTagKeys[k] {
						c.Violation("tag-row-for-absent-attribute/"+rq.Proto, fmt.Sprintf("span %s has a tag row %q = %q, but neither the span nor its resource carries that attribute (attributes: %v)", id, k, clip(tagVal(&tags, tagRows[id], k), 60), gen.SortedKeys(exp)), replay)
						break
					}
				}
			}
			for _, k := range gen.SortedKeys(exp) {
				if seen[k] != 1 {
					c.Violation("tag-row-per-attribute/"+rq.Proto, fmt.Sprintf("flattened attribute %q of span %s has %d tag rows (exactly one expected)", k, id, seen[k]), replay)
					break
				}
			}
		}
		// ---- read side: replay the stored rows per trace
		byTrace := map[string][]int{}
		for j := range traces.MTraceId {
			byTrace[string(traces.MTraceId[j])] = append(byTrace[string(traces.MTraceId[j])], j)
		}
		spanByID := map[string]gen.Span{}
		for _, sp := range sc.Spans {
			spanByID[string(sp.TraceID)+"/"+string(sp.SpanID)] = sp
		}
		for tid, rows := range byTrace {
			sort.Slice(rows, func(a, b int) bool { return traces.MTimestampNs[rows[a]] < traces.MTimestampNs[rows[b]] })
			current = nil
			for _, j := range rows {
				current = append(current, []driver.Value{string(traces.MTraceId[j]), string(traces.MSpanId[j]), traces.MParentId[j], traces.MTimestampNs[j], traces.MDurationNs[j], int64(traces.MPayloadType[j]), string(traces.MPayload[j])})
			}
			qctx, qcancel := context.WithTimeout(context.Background(), 30*time.Second)
			ch, err := svc.Query(qctx, 0, 0, []byte(hex.EncodeToString([]byte(tid))), false)
			defer qcancel()
			if qctx.Err() != nil {
				c.Undecided("trace read path did not answer within 30 s")
				break
			}
			if err != nil {
				c.Violation("read-error/"+rq.Proto, "trace read path returned an error: "+err.Error(), replay)
				continue
			}
			got := 0
			for resp := range ch {
				got++
				sp, ok := spanByID[tid+"/"+string(resp.Span.SpanId)]
				if !ok {
					c.Violation("read-unknown-span/"+rq.Proto, fmt.Sprintf("read path returned span id %x that was not pushed", resp.Span.SpanId), replay)
					continue
				}
				c.Floor("spans read back and compared", 0, 1)
				var d []string
				if !bytes.Equal(resp.Span.TraceId, sp.TraceID) {
					d = append(d, "trace id")
				}
				if resp.Span.Name != sp.Name {
					d = append(d, fmt.Sprintf("name %q≠%q", resp.Span.Name, sp.Name))
				}
				if int64(resp.Span.StartTimeUnixNano) != sp.StartNs || int64(resp.Span.EndTimeUnixNano) != sp.StartNs+sp.DurNs {
					d = append(d, "times")
				}
				if !bytes.Equal(resp.Span.ParentSpanId, sp.ParentID) {
					d = append(d, fmt.Sprintf("parent %x≠%x", resp.Span.ParentSpanId, sp.ParentID))
				}
				if sp.Service != "" && resp.ServiceName != sp.Service {
					d = append(d, fmt.Sprintf("service %q≠%q", resp.ServiceName, sp.Service))
				}
				have := map[string]*common.AnyValue{}
				for _, kv := range resp.Span.Attributes {
					have[kv.Key] = kv.Value
				}
				for _, a := range append(append([]gen.Attr{}, sp.ResAttrs...), sp.Attrs...) {
					v, ok := have[a.Key]
					if !ok {
						d = append(d, fmt.Sprintf("attribute %q missing", a.Key))
						continue
					}
					if !sameValue(a, v) {
						d = append(d, fmt.Sprintf("attribute %q = %v, pushed %v", a.Key, clip(v.String(), 80), clip(fmt.Sprint(a), 80)))
					}
				}
				if len(d) > 0 {
					c.Violation("read-back-differs/"+rq.Proto+"/"+fieldClass(d), fmt.Sprintf("span %x read back differs from the pushed span: %s", sp.SpanID, strings.Join(first(d, 4), "; ")), replay)
				}
			}
			if got != len(rows) {
				c.Violation("read-back-count/"+rq.Proto, fmt.Sprintf("trace %x: %d rows stored, %d spans read back", tid, len(rows), got), replay)
			}
		}
		c.EndCase(gi)
	}
}

// derivedTagKeys: tag rows the writer derives from the span itself rather than from an attribute
var derivedTagKeys = map[string]bool{"name": true, "local_endpoint_service_name": true, "remote_endpoint_service_name": true, "service.name": true, "remoteService.name": true}

func tagVal(tags *wmodel.TempoTag, rows []int, key string) string {
	for _, t := range rows {
		if tags.MKey[t] == key {
			return tags.MVal[t]
		}
	}
	return ""
}

func fieldClass(d []string) string {
	f := d[0]
	if i := strings.IndexAny(f, " "); i > 0 {
		f = f[:i]
	}
	return f
}

func floatEq(a, b string) bool {
	var x, y float64
	if _, err := fmt.Sscanf(a, "%g", &x); err != nil {
		return false
	}
	if _, err := fmt.Sscanf(b, "%g", &y); err != nil {
		return false
	}
	return math.Abs(x-y) <= 1e-6
}

func sameValue(a gen.Attr, v *common.AnyValue) bool {
	if v == nil {
		return false
	}
	switch a.Kind {
	case "str":
		x, ok := v.Value.(*common.AnyValue_StringValue)
		return ok && x.StringValue == a.S
	case "int":
		x, ok := v.Value.(*common.AnyValue_IntValue)
		return ok && x.IntValue == a.I
	case "bool":
		x, ok := v.Value.(*common.AnyValue_BoolValue)
		return ok && x.BoolValue == a.B
	case "double":
		x, ok := v.Value.(*common.AnyValue_DoubleValue)
		return ok && x.DoubleValue == a.D
	case "array":
		x, ok := v.Value.(*common.AnyValue_ArrayValue)
		if !ok || x.ArrayValue == nil || len(x.ArrayValue.Values) != len(a.Arr) {
			return false
		}
		for i := range a.Arr {
			if !sameValue(a.Arr[i], x.ArrayValue.Values[i]) {
				return false
			}
		}
		return true
	case "kvlist":
		x, ok := v.Value.(*common.AnyValue_KvlistValue)
		if !ok || x.KvlistValue == nil || len(x.KvlistValue.Values) != len(a.KV) {
			return false
		}
		for i := range a.KV {
			if x.KvlistValue.Values[i].Key != a.KV[i].Key || !sameValue(a.KV[i], x.KvlistValue.Values[i].Value) {
				return false
			}
		}
		return true
	}
	return false
}

func first(s []string, n int) []string {
	if len(s) > n {
		return s[:n]
	}
	return s
}
func clip(s string, n int) string {
	if len(s) > n {
		return s[:n] + "…"
	}
	return s
}
func clipB(b []byte, n int) []byte {
	if len(b) > n {
		return b[:n]
	}
	return b
}
func tail(s string, n int) string {
	if len(s) > n {
		return s[len(s)-n:]
	}
	return s
}
