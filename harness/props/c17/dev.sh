#!/bin/bash
# dev helper: build the private runner and run C17 (evidence/replays go to a scratch VERIF_DIR)
. /verif/env.sh
export VERIF_TIER="${1:-quick}"
export VERIF_SEED="${VERIF_SEED:-1}"
SCR=/var/tmp/c17dev; mkdir -p $SCR/dir
cp /verif/known_findings.txt $SCR/dir/ 2>/dev/null
export VERIF_DIR=$SCR/dir VERIF_SCRATCH=$SCR/scratch
cd /verif/harness && $GO build -o $SCR/vrun ./props/c17/devrun || exit 2
cd $SCR && time ./vrun C17
