// Package c17 decides property C17: Prometheus and Pyroscope label matchers select exactly the
// matching series; each selected series reaches the PromQL engine once, under its own label set,
// with its samples inside the requested range in ascending order and through a cursor that honours
// the seek/next contract, so a PromQL query over raw samples returns what Prometheus returns.
//
// Four monitors, each in its own child process (a panic in a goroutine of the code under test kills
// the child; the parent attributes the death to the case that was open):
//
//	cursor   model.Series.Iterator() against a sequential model of the chunkenc.Iterator contract
//	matchers TranspileLabelMatchers / prof StreamSelectorPlanner SQL executed by E-CHSQL over generated
//	         index tables, against a Prometheus matcher evaluator
//	select   CLokiQuerier.Select over E-SQLDRV (handler = E-CHSQL) for hint combinations of the raw path
//	promql   GET /api/v1/query_range and /api/v1/query through the real router against the upstream
//	         promql engine over an in-memory reference storage
package c17

import (
	"fmt"
	"strings"
	"sync"
	"time"

	"verif/harness/engines/run"
	"verif/harness/props/reg"
)

func init() {
	reg.Register(&reg.Prop{ID: "C17", Level: "exploration", Main: Main, Child: Child})
}

type childCfg struct {
	Start int `json:"start"`
	N     int `json:"n"`
}

type monitor struct {
	name  string
	quick int
	thor  int
	per   int // cases per child
}

var monitors = []monitor{
	{"cursor", 5000, 500000, 125000},
	{"matchers", 1600, 60000, 15000},
	{"select", 600, 20000, 5000},
	{"promql", 600, 20000, 5000},
}

func Main(c *run.Ctx) {
	c.SetRule("four monitors: (cursor) random Seek/Next/At sequences on model.Series.Iterator() over sample arrays of length 0..200 vs a sequential model of the chunkenc.Iterator contract; " +
		"(matchers) random Prometheus matcher sets / Pyroscope selectors -> real transpilers -> SQL executed by E-CHSQL over generated index tables vs a Prometheus matcher evaluator; " +
		"(select) CLokiQuerier.Select over the scripted driver for raw-path hint combinations; (promql) /api/v1/query_range and /api/v1/query through the real router vs the upstream promql engine over an in-memory reference storage. " +
		"distinct key = monitor x structural class (array-length/duplicate/target class; matcher-op x label-presence class; hint class; expression shape x step class)")
	c.Assume("E-CHSQL computes what ClickHouse returns for the emitted SQL (DESIGN appendix A); in particular match() is an unanchored RE2 search (A3) and bitShiftLeft keeps the width of its first argument (A4)")
	c.Assume("Prometheus matcher rules are judged (DESIGN appendix E): regex matchers fully anchored, a matcher against an absent label sees the empty string")
	c.Assume("Pyroscope: a stored profile series carries its tags, service_name, and the pseudo-labels __name__/__period_type__/__period_unit__ (parts of the type id); __sample_type__/__sample_unit__/__profile_type__ hold for a series iff one of its sample type/unit pairs satisfies the matcher; selectors with two or more matchers on these multi-valued pseudo-labels over series with several pairs are probes, not judged")
	c.Assume("sample timestamps are whole milliseconds (as remote-write stores them); a sample exactly on the left edge of a selection window (T-range, T-lookback, hints.Start) is a probe: Prometheus 2.x includes it, Prometheus 3.x and qryn exclude it")
	c.Assume("PromQL requests use start/end on 15 s boundaries, so the controller's rounding of start and end is the identity; series holding two samples in one millisecond are not generated for the promql monitor (Prometheus cannot store them)")
	c.Assume("log streams (type 1) sharing the label index are neither required nor forbidden in a metric selection (type separation belongs to C07/C13)")

	type job struct {
		m     monitor
		start int
		n     int
	}
	var jobs []job
	for _, m := range monitors {
		total := c.Pick(m.quick, m.thor)
		per := m.per
		if c.Quick() {
			per = total
		}
		for s := 0; s < total; s += per {
			jobs = append(jobs, job{m, s, min(per, total-s)})
		}
		c.Floor(m.name+": cases decided", total*9/10, 0)
	}
	// the monitors run side by side; the children of one monitor run one after the other, so that the
	// first witness recorded for a signature does not depend on which child finishes first
	var wg sync.WaitGroup
	for _, m := range monitors {
		wg.Add(1)
		go func(name string) {
			defer wg.Done()
			for _, j := range jobs {
				if j.m.name == name {
					runJob(c, j.m.name, j.start, j.n)
				}
			}
		}(m.name)
	}
	wg.Wait()

	// what every run must have observed
	for _, f := range []string{
		"cursor: sequences with a Seek between two samples", "cursor: sequences with a Seek beyond the last sample", "cursor: arrays with duplicate timestamps",
		"matchers: prom sets with =", "matchers: prom sets with !=", "matchers: prom sets with =~", "matchers: prom sets with !~", "matchers: prom sets on __name__",
		"matchers: prom cases selecting some but not all series", "matchers: pyro selectors on a pseudo-label", "matchers: pyro selectors on a tag",
		"matchers: pyro cases selecting some but not all series",
		"select: series handed over and compared", "select: hint class step<15s", "select: hint class unaligned start", "select: hint class function without pre-aggregation", "select: hint class instant (step 0)",
		"promql: range queries compared", "promql: instant queries compared", "promql: non-empty reference results",
	} {
		c.Floor(f, 1, 0)
	}
}

func runJob(c *run.Ctx, name string, start, n int) {
	out := c.RunChild(run.ChildSpec{Prop: "C17", Name: name, Cfg: childCfg{Start: start, N: n}, Timeout: 25 * time.Minute})
	if out.Completed {
		return
	}
	if out.TimedOut {
		c.Undecided(name + ": child watchdog expired")
		return
	}
	head, frame := run.PanicHead(out.Stderr)
	if head == "" {
		c.Undecided(fmt.Sprintf("%s: child ended without a verdict (exit %d): %s", name, out.Exit, clip(tail(out.Stderr, 300), 300)))
		return
	}
	c.Violation("process-death/"+name+"/"+frame,
		fmt.Sprintf("process died in monitor %s: %s at %s; open case %s", name, head, frame, clip(string(out.OpenCase), 400)),
		map[string]any{"monitor": name, "case": out.OpenCase, "stderr": tail(out.Stderr, 4000)})
}

func Child(c *run.Ctx, name string) {
	var cfg childCfg
	run.ChildCfg(&cfg)
	switch name {
	case "cursor":
		childCursor(c, cfg)
	case "matchers":
		childMatchers(c, cfg)
	case "select":
		childSelect(c, cfg)
	case "promql":
		childPromQL(c, cfg)
	default:
		c.Undecided("unknown child " + name)
	}
}

func clip(s string, n int) string {
	if len(s) > n {
		return s[:n] + "…"
	}
	return s
}

func tail(s string, n int) string {
	if len(s) > n {
		return s[len(s)-n:]
	}
	return s
}

func oneLine(s string) string { return strings.Join(strings.Fields(s), " ") }
