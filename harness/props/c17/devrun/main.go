// vrun <property> [--replay file]   |   vrun --child <property> <name>
package main

import (
	"fmt"
	"os"
	"sort"

	"verif/harness/engines/run"
	"verif/harness/props/reg"

	_ "verif/harness/props/c17"
)

func main() {
	if len(os.Args) < 2 {
		ids := []string{}
		for id := range reg.Props {
			ids = append(ids, id)
		}
		sort.Strings(ids)
		fmt.Println("usage: vrun <property>; registered:", ids)
		os.Exit(2)
	}
	if os.Args[1] == "--child" {
		p := reg.Props[os.Args[2]]
		if p == nil || p.Child == nil {
			fmt.Fprintln(os.Stderr, "no child for", os.Args[2])
			os.Exit(3)
		}
		c := run.OpenChild(p.ID, p.Level, os.Getenv("VERIF_WAL"))
		p.Child(c, os.Args[3])
		c.Finish()
		os.Exit(0)
	}
	p := reg.Props[os.Args[1]]
	if p == nil {
		fmt.Fprintln(os.Stderr, "unknown property", os.Args[1])
		os.Exit(2)
	}
	c := run.Open(p.ID, p.Level)
	if len(os.Args) >= 4 && os.Args[2] == "--replay" {
		if p.Replay == nil {
			fmt.Println("replay not supported for", p.ID, "- re-run the check with the seed stored in the file")
			os.Exit(2)
		}
		p.Replay(c, os.Args[3])
	} else {
		p.Main(c)
	}
	code := c.Finish()
	run.CleanupScratch()
	os.Exit(code)
}
