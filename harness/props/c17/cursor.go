package c17

import (
	"fmt"
	"math/rand"

	"github.com/metrico/qryn/reader/model"

	"verif/harness/engines/run"
)

// ---- monitor 1: cursor model check --------------------------------------------------------
//
// The contract (chunkenc.Iterator, as worded in the property): Seek(t) positions on the first
// sample with timestamp >= t, never moving backwards from the current position, or reports the
// end; Next advances by one; At returns the current sample. The model below is that sentence.

type curOp struct {
	Op string `json:"op"` // "seek" | "next"
	T  int64  `json:"t,omitempty"`
}

type curCase struct {
	Ts  []int64 `json:"ts"`
	Ops []curOp `json:"ops"`
}

// cursorModel is the sequential specification.
type cursorModel struct {
	ts  []int64
	pos int // -1 before the first advance
}

func (m *cursorModel) next() bool { m.pos++; return m.pos < len(m.ts) }
func (m *cursorModel) seek(t int64) bool {
	if m.pos < 0 {
		m.pos = 0
	}
	for m.pos < len(m.ts) && m.ts[m.pos] < t {
		m.pos++
	}
	return m.pos < len(m.ts)
}

// runCursor executes the case on the real iterator and returns ("", "") if it conforms, otherwise
// (signature, description). Sample values are the sample's index, so At() reveals the position.
func runCursor(cs curCase) (sig, desc string) {
	samples := make([]model.Sample, len(cs.Ts))
	for i, t := range cs.Ts {
		samples[i] = model.Sample{TimestampMs: t, Value: float64(i)}
	}
	step := -1
	defer func() {
		if r := recover(); r != nil {
			if len(cs.Ts) == 0 {
				sig = "cursor/empty-series-panic"
			} else {
				sig = "cursor/panic"
			}
			desc = fmt.Sprintf("operation %d (%+v) on timestamps %v panicked: %v", step, cs.Ops[step], clipTs(cs.Ts), r)
		}
	}()
	it := (&model.Series{Samples: samples}).Iterator()
	m := &cursorModel{ts: cs.Ts, pos: -1}
	prev := -1 // actual position after the previous operation
	for i, op := range cs.Ops {
		step = i
		var got, want bool
		if op.Op == "seek" {
			want = m.seek(op.T)
			got = it.Seek(op.T)
		} else {
			want = m.next()
			got = it.Next()
		}
		what := fmt.Sprintf("operation %d %s", i, op.Op)
		if op.Op == "seek" {
			what = fmt.Sprintf("operation %d Seek(%d)", i, op.T)
		}
		if got != want {
			if op.Op == "seek" && got {
				at, _ := it.At()
				return "cursor/seek-end-not-reported", fmt.Sprintf("%s on timestamps %v (position before: %d): no sample at or after %d remains, yet Seek returned true (At() = %d)", what, clipTs(cs.Ts), prev, op.T, at)
			}
			if op.Op == "seek" {
				return "cursor/seek-reports-end-early", fmt.Sprintf("%s on timestamps %v (position before: %d): sample %d (t=%d) is at or after %d, yet Seek returned false", what, clipTs(cs.Ts), prev, m.pos, cs.Ts[m.pos], op.T)
			}
			return "cursor/next-wrong-result", fmt.Sprintf("%s on timestamps %v (position before: %d): Next returned %v, want %v", what, clipTs(cs.Ts), prev, got, want)
		}
		if !want {
			return "", "" // exhausted: behaviour after the end is unspecified
		}
		at, v := it.At()
		p := int(v)
		if p < 0 || p >= len(cs.Ts) || cs.Ts[p] != at {
			return "cursor/at-inconsistent", fmt.Sprintf("%s on timestamps %v: At() = (%d, %v) is not a stored sample", what, clipTs(cs.Ts), at, v)
		}
		if p == m.pos {
			prev = p
			continue
		}
		if op.Op == "next" {
			return "cursor/next-wrong-position", fmt.Sprintf("%s on timestamps %v (position before: %d): now at index %d (t=%d), want index %d (t=%d)", what, clipTs(cs.Ts), prev, p, at, m.pos, cs.Ts[m.pos])
		}
		// Seek landed elsewhere than the model
		switch {
		case at < op.T:
			return "cursor/seek-lands-before-t", fmt.Sprintf("%s on timestamps %v (position before: %d): landed on index %d with t=%d < %d; the first sample at or after %d is index %d (t=%d)", what, clipTs(cs.Ts), prev, p, at, op.T, op.T, m.pos, cs.Ts[m.pos])
		case p < prev:
			return "cursor/seek-moves-backwards", fmt.Sprintf("%s on timestamps %v: the cursor was at index %d (t=%d, already >= %d) and moved back to index %d (t=%d)", what, clipTs(cs.Ts), prev, cs.Ts[prev], op.T, p, at)
		case at == cs.Ts[m.pos]:
			// same timestamp, another one of several samples sharing it: Prometheus storage never holds
			// two samples of one series at one timestamp, so "first" is not demanded here
			m.pos = p
		default:
			return "cursor/seek-skips-samples", fmt.Sprintf("%s on timestamps %v (position before: %d): landed on index %d (t=%d) although index %d (t=%d) is the first sample at or after %d", what, clipTs(cs.Ts), prev, p, at, m.pos, cs.Ts[m.pos], op.T)
		}
		prev = p
	}
	return "", ""
}

func clipTs(ts []int64) string {
	if len(ts) <= 24 {
		return fmt.Sprint(ts)
	}
	return fmt.Sprintf("%v…(%d timestamps)", ts[:24], len(ts))
}

// shrinkCursor greedily removes samples and operations while the same signature persists.
func shrinkCursor(cs curCase, sig string) curCase {
	for changed := true; changed; {
		changed = false
		for i := 0; i < len(cs.Ts); i++ {
			n := curCase{Ts: append(append([]int64{}, cs.Ts[:i]...), cs.Ts[i+1:]...), Ops: cs.Ops}
			if s, _ := runCursor(n); s == sig {
				cs, changed = n, true
				i--
			}
		}
		for i := 0; i < len(cs.Ops); i++ {
			n := curCase{Ts: cs.Ts, Ops: append(append([]curOp{}, cs.Ops[:i]...), cs.Ops[i+1:]...)}
			if s, _ := runCursor(n); s == sig {
				cs, changed = n, true
				i--
			}
		}
	}
	// normalise timestamps to 10,20,30… keeping order/equalities and the relative place of seek targets
	return cs
}

func genCursor(r *rand.Rand) (cs curCase, key string) {
	var n int
	lenClass := ""
	switch k := r.Intn(10); {
	case k == 0:
		n, lenClass = 0, "0"
	case k == 1:
		n, lenClass = 1, "1"
	case k <= 3:
		n, lenClass = 2+r.Intn(2), "2-3"
	case k <= 6:
		n, lenClass = 4+r.Intn(12), "4-15"
	default:
		n, lenClass = 16+r.Intn(185), "16-200"
	}
	dups := r.Intn(4) == 0
	t := int64(1000 + r.Intn(50))
	hasDup := false
	for i := 0; i < n; i++ {
		if i > 0 {
			if dups && r.Intn(3) == 0 {
				hasDup = true
			} else {
				t += int64(1 + r.Intn(20))
			}
		}
		cs.Ts = append(cs.Ts, t)
	}
	nops := 1 + r.Intn(12)
	mode := r.Intn(3) // 0 seek only, 1 mixed, 2 mostly next
	cur := int64(990)
	if n > 0 {
		cur = cs.Ts[0] - 5
	}
	nseek, nnext := 0, 0
	targets := map[string]bool{}
	for i := 0; i < nops; i++ {
		if mode == 0 || (mode == 1 && r.Intn(2) == 0) || (mode == 2 && r.Intn(5) == 0) {
			var tt int64
			switch r.Intn(6) {
			case 0: // exact timestamp of some sample
				if n > 0 {
					tt = cs.Ts[r.Intn(n)]
					targets["exact"] = true
				}
			case 1: // between two samples
				if n > 1 {
					j := r.Intn(n - 1)
					tt = cs.Ts[j] + 1
					if cs.Ts[j+1] > cs.Ts[j]+1 {
						targets["between"] = true
					}
				}
			case 2: // beyond the end
				if n > 0 {
					tt = cs.Ts[n-1] + 1 + int64(r.Intn(5))
				} else {
					tt = 1000
				}
				targets["beyond"] = true
			case 3: // before the first
				tt = cur - int64(r.Intn(20))
				targets["before"] = true
			default: // moving forward from the last target (how the engine uses it)
				cur += int64(r.Intn(40))
				tt = cur
				targets["forward"] = true
			}
			cs.Ops = append(cs.Ops, curOp{Op: "seek", T: tt})
			nseek++
		} else {
			cs.Ops = append(cs.Ops, curOp{Op: "next"})
			nnext++
		}
	}
	opClass := "mixed"
	if nnext == 0 {
		opClass = "seek-only"
	} else if nseek == 0 {
		opClass = "next-only"
	}
	tk := ""
	for _, k := range []string{"before", "exact", "between", "beyond", "forward"} {
		if targets[k] {
			tk += k[:2]
		}
	}
	key = fmt.Sprintf("cursor/len=%s/dups=%v/ops=%s/targets=%s", lenClass, hasDup, opClass, tk)
	return
}

func childCursor(c *run.Ctx, cfg childCfg) {
	type witness struct {
		cs   curCase
		desc string
		n    int
	}
	found := map[string]*witness{}
	decided, between, beyond, dupArrays := 0, 0, 0, 0
	sampled := cfg.Start != 0
	const batch = 1000
	for b := cfg.Start; b < cfg.Start+cfg.N; b += batch {
		c.BeginCase(b, map[string]any{"monitor": "cursor", "batch": b})
		for gi := b; gi < min(b+batch, cfg.Start+cfg.N); gi++ {
			r := c.Rng(fmt.Sprintf("c17/cursor/%d", gi))
			cs, key := genCursor(r)
			c.Case(key)
			if !sampled && len(cs.Ts) >= 2 && len(cs.Ts) <= 6 && len(cs.Ops) <= 6 {
				sampled = true
				c.Sample(map[string]any{"monitor": "cursor", "case": cs})
			}
			for i := 1; i < len(cs.Ts); i++ {
				if cs.Ts[i] == cs.Ts[i-1] {
					dupArrays++
					break
				}
			}
			for _, op := range cs.Ops {
				if op.Op == "seek" && len(cs.Ts) > 0 {
					if op.T > cs.Ts[len(cs.Ts)-1] {
						beyond++
					} else if op.T > cs.Ts[0] {
						exact := false
						for _, t := range cs.Ts {
							exact = exact || t == op.T
						}
						if !exact {
							between++
						}
					}
				}
			}
			sig, desc := runCursor(cs)
			decided++
			if sig == "" {
				continue
			}
			c.Event("cursor: nonconforming sequences", 1)
			c.Cover("cursor mismatch kinds", sig, 1)
			w := found[sig]
			if w == nil {
				found[sig] = &witness{cs: cs, desc: desc, n: 1}
			} else {
				w.n++
				if len(cs.Ts)+len(cs.Ops) < len(w.cs.Ts)+len(w.cs.Ops) {
					w.cs, w.desc = cs, desc
				}
			}
		}
		c.EndCase(b)
	}
	for sig, w := range found {
		small := shrinkCursor(w.cs, sig)
		_, desc := runCursor(small)
		c.Violation(sig, fmt.Sprintf("%s [minimised witness; %d sequences of this run fail this way] (reader/model/prometheus.go seriesIt.Seek)", desc, w.n),
			map[string]any{"monitor": "cursor", "timestamps": small.Ts, "ops": small.Ops, "original": w.cs})
	}
	c.Floor("cursor: cases decided", 0, decided)
	c.Floor("cursor: sequences with a Seek between two samples", 0, between)
	c.Floor("cursor: sequences with a Seek beyond the last sample", 0, beyond)
	c.Floor("cursor: arrays with duplicate timestamps", 0, dupArrays)
}

var _ = run.Scratch
