package c17

import (
	"context"
	"database/sql/driver"
	"errors"
	"fmt"
	"math/rand"
	"sort"
	"strings"
	"time"

	"github.com/metrico/cloki-config/config"
	lshared "github.com/metrico/qryn/reader/logql/logql_transpiler_v2/shared"
	rmodel "github.com/metrico/qryn/reader/model"
	profparser "github.com/metrico/qryn/reader/prof/parser"
	proftr "github.com/metrico/qryn/reader/prof/transpiler"
	promtr "github.com/metrico/qryn/reader/promql/transpiler"
	rservice "github.com/metrico/qryn/reader/service"
	sqlsel "github.com/metrico/qryn/reader/utils/sql_select"
	"github.com/metrico/qryn/reader/utils/tables"
	"github.com/prometheus/prometheus/model/labels"
	"github.com/prometheus/prometheus/storage"

	"verif/harness/engines/chsql"
	"verif/harness/engines/run"
	"verif/harness/engines/sqldrv"
)

// ---- monitor 2: matcher sets -> SQL -> E-CHSQL vs the Prometheus evaluator -----------------

type promCase struct {
	Cluster  bool       `json:"cluster"`
	Series   []*mSeries `json:"series"`
	Matchers []pmatcher `json:"matchers"`
}

func toPromMatchers(ms []pmatcher) ([]*labels.Matcher, error) {
	out := make([]*labels.Matcher, len(ms))
	for i, m := range ms {
		t := map[string]labels.MatchType{"=": labels.MatchEqual, "!=": labels.MatchNotEqual, "=~": labels.MatchRegexp, "!~": labels.MatchNotRegexp}[m.Op]
		pm, err := labels.NewMatcher(t, m.Name, m.Val)
		if err != nil {
			return nil, err
		}
		out[i] = pm
	}
	return out, nil
}

func dbMap(cluster bool) *rmodel.DataDatabasesMap {
	cl := ""
	if cluster {
		cl = "c1"
	}
	return &rmodel.DataDatabasesMap{Config: &config.ClokiBaseDataBase{Node: "n1", Name: "db", ClusterName: cl}}
}

var errUndecided = errors.New("undecided")

// promSelected runs the real transpiler and executes its statement; it returns the fingerprints
// of the rows.
func promSelected(pc *promCase) (fps map[uint64]bool, sqlText string, err error) {
	db := chsql.QrynSchema(pc.Cluster)
	fillMetrics(db, pc.Series)
	ms, err := toPromMatchers(pc.Matchers)
	if err != nil {
		return nil, "", fmt.Errorf("%w: generator produced an invalid matcher: %v", errUndecided, err)
	}
	hints := &storage.SelectHints{Start: (baseSec - 300) * 1000, End: (baseSec + 60) * 1000}
	dm := dbMap(pc.Cluster)
	pctx := lshared.PlannerContext{IsCluster: pc.Cluster, From: time.Unix(0, hints.Start*1000000), To: time.Unix(0, hints.End*1000000),
		Ctx: context.Background(), Type: 2}
	tables.PopulateTableNames(&pctx, dm)
	q, err := promtr.TranspileLabelMatchers(hints, &pctx, ms...)
	if err != nil {
		return nil, "", fmt.Errorf("transpiler error: %w", err)
	}
	var opts []int
	if pc.Cluster {
		opts = []int{sqlsel.STRING_OPT_INLINE_WITH}
	}
	sqlText, err = q.Query.String(&sqlsel.Ctx{Params: map[string]sqlsel.SQLObject{}}, opts...)
	if err != nil {
		return nil, "", fmt.Errorf("transpiler error: %w", err)
	}
	res, err := db.Exec(sqlText)
	if err != nil {
		return nil, sqlText, err
	}
	fps = map[uint64]bool{}
	for _, row := range res.Rows {
		fp, ok := row[0].(uint64)
		if !ok {
			return nil, sqlText, fmt.Errorf("%w: fingerprint column of type %T", errUndecided, row[0])
		}
		fps[fp] = true
	}
	return fps, sqlText, nil
}

// judgeProm returns ("", …) if the selection is exact.
func judgeProm(pc *promCase) (sig, desc, sqlText string, undecided string) {
	got, sqlText, err := promSelected(pc)
	if err != nil {
		var re *chsql.RaiseError
		switch {
		case errors.As(err, &re):
			return "matchers/prom/statement-raises/" + re.Rule, fmt.Sprintf("matchers %s: ClickHouse rejects the statement: %v; SQL: %s", matchersString(pc.Matchers), err, clip(sqlText, 600)), sqlText, ""
		case errors.Is(err, chsql.ErrUnsupported), errors.Is(err, errUndecided):
			return "", "", sqlText, "matchers/prom: " + clip(err.Error(), 120)
		}
		return "matchers/prom/transpile-error", fmt.Sprintf("matchers %s: %v", matchersString(pc.Matchers), err), sqlText, ""
	}
	type diff struct {
		kind, feat string
		s          *mSeries
	}
	var diffs []diff
	for _, s := range pc.Series {
		if !s.isMetric() {
			continue
		}
		want := promMatchAll(pc.Matchers, s.Labels)
		if want == got[s.FP] {
			continue
		}
		kind := "missing"
		if got[s.FP] {
			kind = "extra"
		}
		diffs = append(diffs, diff{kind, explain(pc.Matchers, s.Labels, len(pc.Matchers)), s})
	}
	if len(diffs) == 0 {
		return "", "", sqlText, ""
	}
	sort.SliceStable(diffs, func(i, j int) bool { return featRank(diffs[i].feat) < featRank(diffs[j].feat) })
	d := diffs[0]
	sig = "matchers/prom/" + rootCause(d.feat)
	if d.feat == "unexplained" {
		sig += "/" + d.kind + "/ops=" + opsKey(pc.Matchers)
	}
	detail := d.kind + "/" + d.feat
	verb := "is not selected although its labels satisfy every matcher"
	if d.kind == "extra" {
		verb = "is selected although its labels do not satisfy every matcher"
	}
	desc = fmt.Sprintf("[%s] matchers %s over %d stored series: series %s %s (Prometheus rules: anchored regex, absent label = \"\"); SQL: %s",
		detail, matchersString(pc.Matchers), len(pc.Series), labelsJSON(d.s.Labels), verb, clip(sqlText, 500))
	return sig, desc, sqlText, ""
}

// rootCause groups the features by the defect behind them (the signature); the feature itself
// stays in the description and in the coverage table.
func rootCause(feat string) string {
	switch {
	case strings.HasSuffix(feat, "-on-absent-label"):
		return "absent-label-not-seen-as-empty"
	case strings.HasSuffix(feat, "-unanchored"):
		return "regex-not-anchored"
	}
	return feat
}

func featRank(f string) int {
	for i, p := range featurePriority {
		if p == f {
			return i
		}
	}
	if f == "nine-or-more-index-matchers" {
		return len(featurePriority)
	}
	return len(featurePriority) + 1
}

func shrinkProm(pc promCase, sig string) promCase {
	same := func(c promCase) bool { s, _, _, _ := judgeProm(&c); return s == sig }
	for changed := true; changed; {
		changed = false
		for i := 0; i < len(pc.Series) && len(pc.Series) > 1; i++ {
			n := pc
			n.Series = append(append([]*mSeries{}, pc.Series[:i]...), pc.Series[i+1:]...)
			if same(n) {
				pc, changed = n, true
				i--
			}
		}
		for i := 0; i < len(pc.Matchers) && len(pc.Matchers) > 1; i++ {
			n := pc
			n.Matchers = append(append([]pmatcher{}, pc.Matchers[:i]...), pc.Matchers[i+1:]...)
			if same(n) {
				pc, changed = n, true
				i--
			}
		}
		for si, s := range pc.Series {
			for _, name := range labelNames(s.Labels) {
				if len(s.Labels) <= 1 {
					break
				}
				cp := *s
				cp.Labels = map[string]string{}
				for k, v := range s.Labels {
					if k != name {
						cp.Labels[k] = v
					}
				}
				n := pc
				n.Series = append([]*mSeries{}, pc.Series...)
				n.Series[si] = &cp
				if same(n) {
					pc, changed = n, true
					s = &cp
				}
			}
		}
	}
	return pc
}

func genPlainMatcher(r *rand.Rand, names, vals []string) pmatcher {
	m := pmatcher{Name: pick(r, names), Op: pick(r, []string{"=", "!=", "=~", "!~"})}
	if m.Op == "=" || m.Op == "!=" {
		m.Val = pick(r, vals)
		if r.Intn(8) == 0 {
			m.Val = "zz" // a value nobody has
		}
	} else {
		m.Val = pick(r, safeRegexes)
		if r.Intn(3) == 0 { // alternation of whole values
			m.Val = pick(r, vals) + "|" + pick(r, vals)
			m.Val = strings.ReplaceAll(m.Val, ".", "\\.")
		}
	}
	return m
}

func genPromCase(r *rand.Rand, gi int) (pc promCase, class string) {
	nv := 2 + r.Intn(4)
	perm := r.Perm(len(valuePool))
	vals := make([]string, nv)
	for i := range vals {
		vals[i] = valuePool[perm[i]]
	}
	pc.Cluster = r.Intn(4) == 0
	mode := gi % 8
	common := []string{"__name__", "job"}
	if r.Intn(2) == 0 {
		common = append(common, "instance")
	}
	optional := []string{"env", "zone", "le", "path"}[:1+r.Intn(4)]
	switch mode {
	case 0, 1:
		class = "plain"
	case 2:
		class = "absent"
	case 3:
		class = "anchor"
	case 4:
		class = "emptyval"
	case 5:
		class = "many"
		common = []string{"__name__", "job", "instance"}
	default:
		class = "mixed"
	}
	pc.Series = genMetricSeries(r, common, optional, vals, class == "emptyval" || (class == "mixed" && r.Intn(3) == 0))
	// log streams sharing the index (noise, not judged)
	used := map[uint64]bool{}
	for _, s := range pc.Series {
		used[s.FP] = true
	}
	for i := r.Intn(3); i > 0; i-- {
		p := pick(r, pc.Series)
		n := &mSeries{FP: randFP(r, used), Labels: p.Labels, Type: 1, Days: []int32{baseDay}}
		pc.Series = append(pc.Series, n)
	}
	for _, s := range pc.Series {
		s.Samples = []mSample{{Ms: (baseSec+1)*1000 + int64(r.Intn(50000)), V: float64(r.Intn(100))}}
	}
	var sets []map[string]string
	for _, s := range pc.Series {
		sets = append(sets, s.Labels)
	}
	target := pick(r, pc.Series).Labels // most matchers are made to hold for one stored series, so that selections are not all empty
	plain := func(n int) []pmatcher {
		for try := 0; ; try++ {
			var ms []pmatcher
			for i := 0; i < n; i++ {
				m := genPlainMatcher(r, common, vals)
				for k := 0; k < 30 && !promMatch(m, target) && (n >= 9 || r.Intn(4) != 0); k++ {
					m = genPlainMatcher(r, common, vals)
				}
				ms = append(ms, m)
			}
			if len(setFeatures(ms, sets)) == 0 || try > 50 {
				return ms
			}
		}
	}
	switch class {
	case "plain":
		pc.Matchers = plain(1 + r.Intn(4))
	case "many":
		pc.Matchers = plain(9 + r.Intn(2))
	case "absent", "emptyval":
		pc.Matchers = plain(r.Intn(3))
		m := pmatcher{Name: pick(r, optional), Op: pick(r, []string{"=", "!=", "=~", "!~"})}
		switch m.Op {
		case "=", "!=":
			m.Val = pick(r, append([]string{"", "zz"}, vals...))
		default:
			m.Val = pick(r, append([]string{".*", ".+", "", "a?|b"}, safeRegexes...))
		}
		if r.Intn(10) == 0 {
			m.Name = "x9" // a label no series carries
		}
		pc.Matchers = append(pc.Matchers, m)
	case "anchor":
		pc.Matchers = plain(r.Intn(3))
		pc.Matchers = append(pc.Matchers, pmatcher{Name: pick(r, common), Op: pick(r, []string{"=~", "!~"}), Val: pick(r, anchorRegexes)})
	default:
		for i := 1 + r.Intn(5); i > 0; i-- {
			m := pmatcher{Name: pick(r, labelPool), Op: pick(r, []string{"=", "!=", "=~", "!~"})}
			if m.Op == "=" || m.Op == "!=" {
				m.Val = pick(r, append([]string{"", "zz"}, vals...))
			} else {
				m.Val = pick(r, append(append([]string{""}, safeRegexes...), anchorRegexes...))
			}
			pc.Matchers = append(pc.Matchers, m)
		}
	}
	r.Shuffle(len(pc.Matchers), func(i, j int) { pc.Matchers[i], pc.Matchers[j] = pc.Matchers[j], pc.Matchers[i] })
	return
}

// ---- Pyroscope ------------------------------------------------------------------------------

type pSeries struct {
	FP         uint64            `json:"fp"`
	Name       string            `json:"name"`
	PeriodType string            `json:"period_type"`
	PeriodUnit string            `json:"period_unit"`
	STU        [][2]string       `json:"sample_types_units"`
	Service    string            `json:"service_name"`
	Tags       map[string]string `json:"tags"`
}

type pyroCase struct {
	Series    []*pSeries `json:"series"`
	Selectors []pmatcher `json:"selectors"`
}

var multiValued = map[string]bool{"__sample_type__": true, "__sample_unit__": true, "__profile_type__": true}
var pseudoLabels = map[string]bool{"__name__": true, "__period_type__": true, "__period_unit__": true, "__sample_type__": true,
	"__sample_unit__": true, "__profile_type__": true, "service_name": true}

// labelSets returns one label set per sample type/unit pair (what Pyroscope calls a series).
func (s *pSeries) labelSets() []map[string]string {
	var out []map[string]string
	for _, p := range s.STU {
		m := map[string]string{"__name__": s.Name, "__period_type__": s.PeriodType, "__period_unit__": s.PeriodUnit, "service_name": s.Service,
			"__sample_type__": p[0], "__sample_unit__": p[1],
			"__profile_type__": fmt.Sprintf("%s:%s:%s:%s:%s", s.Name, p[0], p[1], s.PeriodType, s.PeriodUnit)}
		for k, v := range s.Tags {
			m[k] = v
		}
		out = append(out, m)
	}
	return out
}

// pyroWant: (selected under "one pair satisfies every matcher", selected under "every matcher is
// satisfied by some pair"). The case is judged only where both readings agree.
func pyroWant(sel []pmatcher, s *pSeries) (samePair, anyPair bool) {
	sets := s.labelSets()
	for _, l := range sets {
		if promMatchAll(sel, l) {
			samePair = true
		}
	}
	anyPair = true
	for _, m := range sel {
		ok := false
		for _, l := range sets {
			ok = ok || promMatch(m, l)
		}
		anyPair = anyPair && ok
	}
	return
}

func fillProfiles(db *chsql.DB, series []*pSeries) {
	ps, gin, keys, prof := db.Tables["profiles_series"], db.Tables["profiles_series_gin"], db.Tables["profiles_series_keys"], db.Tables["profiles"]
	for _, s := range series {
		typeID := s.Name + ":" + s.PeriodType + ":" + s.PeriodUnit
		stu := chsql.Array{}
		for _, p := range s.STU {
			stu = append(stu, chsql.Tuple{p[0], p[1]})
		}
		// profiles_series_mv: tags = arrayConcat(input tags, [('service_name', service_name)])
		tags := chsql.Array{}
		for _, k := range labelNames(s.Tags) {
			tags = append(tags, chsql.Tuple{k, s.Tags[k]})
		}
		tags = append(tags, chsql.Tuple{"service_name", s.Service})
		// the index tables are ReplacingMergeTrees fed by every push: until the parts are merged a series that pushed
		// twice owns every index row twice, and a series that pushed on the day before as well owns a row per day
		days := []int32{int32(baseDay)}
		switch s.FP % 3 {
		case 0:
			days = append(days, int32(baseDay))
		case 1:
			days = append(days, int32(baseDay)-1)
		}
		for _, d := range days {
			ps.Rows = append(ps.Rows, []chsql.Value{chsql.Date(d), typeID, stu, s.Service, s.FP, tags})
			for _, kv := range tags {
				t := kv.(chsql.Tuple)
				gin.Rows = append(gin.Rows, []chsql.Value{chsql.Date(d), t[0], t[1], typeID, stu, s.Service, s.FP})
				keys.Rows = append(keys.Rows, []chsql.Value{chsql.Date(d), t[0], t[1], uint64(len(t[1].(string)))})
			}
		}
		prof.Rows = append(prof.Rows, []chsql.Value{uint64(baseSec+5) * 1000000000, s.FP, typeID, stu, s.Service, uint64(1000000000), "", "",
			chsql.Array{}, chsql.Array{}, chsql.Array{}})
	}
}

var (
	profNames   = []string{"process_cpu", "memory", "goroutine", "cpu"}
	profPTypes  = []string{"cpu", "space", "goroutine"}
	profPUnits  = []string{"nanoseconds", "bytes", "count"}
	profPairs   = [][2]string{{"cpu", "nanoseconds"}, {"samples", "count"}, {"alloc_space", "bytes"}, {"inuse_space", "bytes"}}
	profSvcs    = []string{"svc-a", "svc-b", "a"}
	profTagKeys = []string{"env", "zone", "pod", "x9"}
)

func pyroSelectorText(sel []pmatcher) string {
	parts := make([]string, len(sel))
	for i, m := range sel {
		parts[i] = fmt.Sprintf("%s%s%q", m.Name, m.Op, m.Val)
	}
	return "{" + strings.Join(parts, ", ") + "}"
}

func pyroCtx() *lshared.PlannerContext {
	pctx := lshared.PlannerContext{From: time.Unix(baseSec-60, 0), To: time.Unix(baseSec+60, 0), Ctx: context.Background()}
	tables.PopulateTableNames(&pctx, dbMap(false))
	return &pctx
}

func pyroSelected(pc *pyroCase) (fps map[uint64]bool, sqlText string, err error) {
	db := chsql.QrynSchema(false)
	fillProfiles(db, pc.Series)
	script, err := profparser.Parse(pyroSelectorText(pc.Selectors))
	if err != nil {
		return nil, "", fmt.Errorf("%w: selector rejected by the parser: %v", errUndecided, err)
	}
	// the fingerprint planner as the exported entry points build it for a script (not a planner type picked here)
	var fpPlanner lshared.SQLRequestPlanner = &proftr.StreamSelectorPlanner{Selectors: script.Selectors}
	if pl, perr := proftr.PlanLabelNames([]*profparser.Script{script}); perr == nil {
		if ln, ok := pl.(*proftr.LabelNamesPlanner); ok {
			if u, ok := ln.Fingerprints.(*proftr.UnionAllPlanner); ok && len(u.Mains) == 1 {
				fpPlanner = u.Mains[0]
			}
		}
	}
	q, err := fpPlanner.Process(pyroCtx())
	if err != nil {
		return nil, "", fmt.Errorf("transpiler error: %w", err)
	}
	sqlText, err = q.String(sqlsel.DefaultCtx())
	if err != nil {
		return nil, "", fmt.Errorf("transpiler error: %w", err)
	}
	res, err := db.Exec(sqlText)
	if err != nil {
		return nil, sqlText, err
	}
	fps = map[uint64]bool{}
	for _, row := range res.Rows {
		fp, ok := row[0].(uint64)
		if !ok {
			return nil, sqlText, fmt.Errorf("%w: fingerprint column of type %T", errUndecided, row[0])
		}
		fps[fp] = true
	}
	return fps, sqlText, nil
}

func kvCount(sel []pmatcher) int {
	n := 0
	for _, m := range sel {
		if !pseudoLabels[m.Name] {
			n++
		}
	}
	return n
}

func judgePyro(pc *pyroCase) (sig, desc, sqlText, undecided string, probe bool) {
	got, sqlText, err := pyroSelected(pc)
	if err != nil {
		var re *chsql.RaiseError
		switch {
		case errors.As(err, &re):
			return "matchers/pyro/statement-raises/" + re.Rule, fmt.Sprintf("selector %s: ClickHouse rejects the statement: %v; SQL: %s", pyroSelectorText(pc.Selectors), err, clip(sqlText, 600)), sqlText, "", false
		case errors.Is(err, chsql.ErrUnsupported), errors.Is(err, errUndecided):
			return "", "", sqlText, "matchers/pyro: " + clip(err.Error(), 120), false
		}
		return "matchers/pyro/transpile-error", fmt.Sprintf("selector %s: %v", pyroSelectorText(pc.Selectors), err), sqlText, "", false
	}
	type diff struct {
		kind, feat, where string
		s                 *pSeries
	}
	var diffs []diff
	for _, s := range pc.Series {
		same, any := pyroWant(pc.Selectors, s)
		if same != any {
			probe = true // the two readings of the multi-valued pseudo-labels differ: not judged
			continue
		}
		if same == got[s.FP] {
			continue
		}
		kind := "missing"
		if got[s.FP] {
			kind = "extra"
		}
		// name the feature on the pair that decides the expectation
		feat, where := "unexplained", "tag"
		best := 1 << 30
		for _, l := range s.labelSets() {
			for _, m := range pc.Selectors {
				if f := matcherFeature(m, l); f != "" && featRank(f) < best {
					best, feat = featRank(f), f
					where = "tag"
					if pseudoLabels[m.Name] {
						where = "pseudo-label"
					}
				}
			}
		}
		if feat == "unexplained" && kvCount(pc.Selectors) >= 9 {
			feat = "nine-or-more-index-matchers"
		}
		diffs = append(diffs, diff{kind, feat, where, s})
	}
	if len(diffs) == 0 {
		return "", "", sqlText, "", probe
	}
	sort.SliceStable(diffs, func(i, j int) bool { return featRank(diffs[i].feat) < featRank(diffs[j].feat) })
	d := diffs[0]
	sig = fmt.Sprintf("matchers/pyro/%s/%s", rootCause(d.feat), d.where)
	if d.feat == "unexplained" {
		sig = "matchers/pyro/unexplained/" + d.kind + "/ops=" + opsKey(pc.Selectors)
	}
	detail := d.kind + "/" + d.feat
	verb := "is not selected although its labels satisfy every matcher"
	if d.kind == "extra" {
		verb = "is selected although its labels do not satisfy every matcher"
	}
	desc = fmt.Sprintf("[%s] selector %s over %d stored profile series: series {type %s:%s:%s, sample types %v, service_name %q, tags %v} %s; SQL: %s",
		detail, pyroSelectorText(pc.Selectors), len(pc.Series), d.s.Name, d.s.PeriodType, d.s.PeriodUnit, d.s.STU, d.s.Service, d.s.Tags, verb, clip(sqlText, 500))
	return sig, desc, sqlText, "", probe
}

func shrinkPyro(pc pyroCase, sig string) pyroCase {
	same := func(c pyroCase) bool { s, _, _, _, _ := judgePyro(&c); return s == sig }
	for changed := true; changed; {
		changed = false
		for i := 0; i < len(pc.Series) && len(pc.Series) > 1; i++ {
			n := pc
			n.Series = append(append([]*pSeries{}, pc.Series[:i]...), pc.Series[i+1:]...)
			if same(n) {
				pc, changed = n, true
				i--
			}
		}
		for i := 0; i < len(pc.Selectors) && len(pc.Selectors) > 1; i++ {
			n := pc
			n.Selectors = append(append([]pmatcher{}, pc.Selectors[:i]...), pc.Selectors[i+1:]...)
			if same(n) {
				pc, changed = n, true
				i--
			}
		}
		for si, s := range pc.Series {
			for _, name := range labelNames(s.Tags) {
				cp := *s
				cp.Tags = map[string]string{}
				for k, v := range s.Tags {
					if k != name {
						cp.Tags[k] = v
					}
				}
				n := pc
				n.Series = append([]*pSeries{}, pc.Series...)
				n.Series[si] = &cp
				if same(n) {
					pc, changed = n, true
					s = &cp
				}
			}
		}
	}
	return pc
}

func genPyroCase(r *rand.Rand, gi int) (pc pyroCase, class string) {
	n := 1 + r.Intn(8)
	used := map[uint64]bool{}
	seen := map[string]bool{}
	tagVals := []string{"a", "b", "ab", "prod"}
	if gi%5 == 2 {
		// values a selector can only carry as escapes (the selector text is written with %q: \x01, \x7f, \a, \v); ASCII only: the generators cut values by bytes
		tagVals = append(tagVals, "a\x01", "z\x7fw", "q\vr", "bell\a")
	}
	mode := gi % 7
	for i := 0; i < n; i++ {
		s := &pSeries{FP: randFP(r, used), Name: pick(r, profNames[:3]), PeriodType: pick(r, profPTypes[:2]), PeriodUnit: pick(r, profPUnits[:2]),
			Service: pick(r, profSvcs), Tags: map[string]string{}}
		s.STU = [][2]string{pick(r, profPairs)}
		if r.Intn(3) == 0 {
			p := pick(r, profPairs)
			if p != s.STU[0] {
				s.STU = append(s.STU, p)
			}
		}
		if mode == 0 || mode == 1 { // every series carries every tag in play
			s.Tags["env"], s.Tags["zone"] = pick(r, tagVals), pick(r, tagVals)
		} else {
			for _, k := range profTagKeys[:3] {
				if r.Intn(2) == 0 {
					s.Tags[k] = pick(r, tagVals)
				}
			}
		}
		key := fmt.Sprint(s.Name, s.PeriodType, s.PeriodUnit, s.STU, s.Service, labelsKey(s.Tags))
		if seen[key] {
			continue
		}
		seen[key] = true
		pc.Series = append(pc.Series, s)
	}
	var sets []map[string]string
	for _, s := range pc.Series {
		sets = append(sets, s.labelSets()...)
	}
	domain := func(name string) []string {
		switch name {
		case "__name__":
			return profNames
		case "__period_type__":
			return profPTypes
		case "__period_unit__", "__sample_unit__":
			return profPUnits
		case "__sample_type__":
			return []string{"cpu", "samples", "alloc_space", "inuse_space", "zz"}
		case "service_name":
			return append([]string{"zz"}, profSvcs...)
		case "__profile_type__":
			return []string{"process_cpu:cpu:nanoseconds:cpu:nanoseconds", "memory:alloc_space:bytes:space:bytes", "goroutine:samples:count:cpu:nanoseconds"}
		}
		return append([]string{"zz"}, tagVals...)
	}
	allOps := []string{"=", "!=", "=~", "!~"}
	genOps := func(name string, anchorSensitive bool, ops []string) pmatcher {
		m := pmatcher{Name: name, Op: pick(r, ops)}
		vs := domain(name)
		if m.Op == "=" || m.Op == "!=" {
			m.Val = pick(r, vs)
			return m
		}
		v := pick(r, vs)
		if anchorSensitive {
			switch r.Intn(4) {
			case 3:
				m.Val = "^" + v[:1] + "|" + pick(r, vs) + "$" // the user's own anchors around an alternation
			case 0:
				m.Val = v[:1+r.Intn(len(v))] // a prefix
			case 1:
				m.Val = v[r.Intn(len(v)):] // a suffix
			default:
				m.Val = v[:1] + "."
			}
			return m
		}
		switch r.Intn(4) {
		case 0:
			m.Val = ".+"
		case 1:
			m.Val = v + "|" + pick(r, vs)
		case 2:
			m.Val = v[:1] + ".*"
		default:
			m.Val = "(" + v + ")"
		}
		return m
	}
	gen := func(name string, anchorSensitive bool) pmatcher { return genOps(name, anchorSensitive, allOps) }
	plainNames := []string{"__name__", "__period_type__", "__period_unit__", "service_name"}
	if mode == 0 || mode == 1 {
		plainNames = append(plainNames, "env", "zone")
	}
	plain := func(n int, names []string) []pmatcher {
		target := pick(r, sets)
		for try := 0; ; try++ {
			var ms []pmatcher
			for i := 0; i < n; i++ {
				m := gen(pick(r, names), false)
				for k := 0; k < 30 && !promMatch(m, target) && (n >= 9 || r.Intn(4) != 0); k++ {
					m = gen(pick(r, names), false)
				}
				ms = append(ms, m)
			}
			if len(setFeatures(ms, sets)) == 0 || try > 50 {
				return ms
			}
		}
	}
	switch mode {
	case 0:
		class = "plain"
		pc.Selectors = plain(r.Intn(5), plainNames)
	case 1:
		class = "plain-multivalued"
		pc.Selectors = plain(r.Intn(3), plainNames)
		pc.Selectors = append(pc.Selectors, plain(1, []string{"__sample_type__", "__sample_unit__", "__profile_type__"})...)
	case 2:
		class = "absent"
		pc.Selectors = plain(r.Intn(3), plainNames)
		m := gen(pick(r, profTagKeys), false)
		if r.Intn(3) == 0 {
			m.Val = ""
			if m.Op == "=~" || m.Op == "!~" {
				m.Val = ".*"
			}
		}
		pc.Selectors = append(pc.Selectors, m)
	case 3:
		class = "anchor"
		pc.Selectors = plain(r.Intn(3), plainNames)
		m := genOps(pick(r, append([]string{"__sample_type__", "__sample_unit__", "env"}, plainNames...)), true, []string{"=~", "!~"})
		pc.Selectors = append(pc.Selectors, m)
	case 4:
		class = "many"
		// nine or more tag matchers (the key/value index part of the selector)
		for _, s := range pc.Series {
			s.Tags["env"], s.Tags["zone"] = pick(r, tagVals), pick(r, tagVals)
		}
		sets = nil
		for _, s := range pc.Series {
			sets = append(sets, s.labelSets()...)
		}
		pc.Selectors = plain(9+r.Intn(2), []string{"env", "zone"})
	case 6:
		// what dashboards send: two to four equalities on distinct tags (and sometimes the service), values taken
		// from one stored series so that other series satisfy a part of them
		class = "all-equal"
		target := pick(r, pc.Series)
		keys := append([]string{}, profTagKeys...)
		r.Shuffle(len(keys), func(i, j int) { keys[i], keys[j] = keys[j], keys[i] })
		for _, k := range keys[:2+r.Intn(3)] {
			v, ok := target.Tags[k]
			if !ok || r.Intn(5) == 0 {
				v = pick(r, tagVals)
			}
			pc.Selectors = append(pc.Selectors, pmatcher{Name: k, Op: "=", Val: v})
		}
		if r.Intn(3) == 0 {
			pc.Selectors = append(pc.Selectors, pmatcher{Name: "service_name", Op: "=", Val: target.Service})
		}
	default:
		class = "mixed"
		all := []string{"__name__", "__period_type__", "__period_unit__", "__sample_type__", "__sample_unit__", "__profile_type__", "service_name", "env", "zone", "pod", "x9"}
		for i := r.Intn(5); i > 0; i-- {
			pc.Selectors = append(pc.Selectors, gen(pick(r, all), r.Intn(3) == 0))
		}
	}
	for i := range pc.Selectors {
		if pc.Selectors[i].Val == "" && (pc.Selectors[i].Op == "=~" || pc.Selectors[i].Op == "!~") {
			pc.Selectors[i].Val = ".*"
		}
	}
	r.Shuffle(len(pc.Selectors), func(i, j int) { pc.Selectors[i], pc.Selectors[j] = pc.Selectors[j], pc.Selectors[i] })
	return
}

// ---- Pyroscope Series endpoint: label sets handed out ---------------------------------------

// pyroSeriesLabels runs the real ProfService.TimeSeries over the scripted driver.
func pyroSeriesLabels(pc *pyroCase, sess *sqldrv.Session, reg *sqldrv.Registry, cur **chsql.DB, und *string) (map[string]bool, error) {
	db := chsql.QrynSchema(false)
	fillProfiles(db, pc.Series)
	*cur = db
	*und = ""
	svc := &rservice.ProfService{DataSession: reg}
	res, err := svc.TimeSeries(context.Background(), []string{pyroSelectorText(pc.Selectors)}, nil, time.Unix(baseSec-60, 0), time.Unix(baseSec+60, 0))
	if err != nil {
		return nil, err
	}
	out := map[string]bool{}
	for _, ls := range res.LabelsSet {
		m := map[string]string{}
		for _, p := range ls.Labels {
			m[p.Name] = p.Value
		}
		out[labelsKey(m)] = true
	}
	return out, nil
}

func childMatchers(c *run.Ctx, cfg childCfg) {
	// execute-mode session for the Series endpoint
	var curDB *chsql.DB
	var und string
	sess := sqldrv.NewSession("c17-pyro", func(ctx context.Context, q string) (*sqldrv.Rows, error) {
		return execOn(curDB, q, &und)
	})
	reg := sqldrv.NewRegistry(sess, "")

	decided := 0
	shrunk := map[string]bool{}
	for i := 0; i < cfg.N; i++ {
		gi := cfg.Start + i
		r := c.Rng(fmt.Sprintf("c17/matchers/%d", gi))
		if gi%2 == 0 {
			pc, class := genPromCase(r, gi/2)
			var sets []map[string]string
			for _, s := range pc.Series {
				sets = append(sets, s.Labels)
			}
			feats := setFeatures(pc.Matchers, sets)
			key := fmt.Sprintf("matchers/prom/%s/ops=%s/n=%d/features=%s/cluster=%v", class, opsKey(pc.Matchers), min(len(pc.Matchers), 9), strings.Join(feats, "+"), pc.Cluster)
			c.BeginCase(gi, map[string]any{"monitor": "matchers/prom", "case": pc})
			c.Case(key)
			if gi < 2 {
				c.Sample(map[string]any{"monitor": "matchers/prom", "matchers": matchersString(pc.Matchers), "series": len(pc.Series), "class": class})
			}
			// oracle cross-check: the evaluator written here against Prometheus' own labels.Matcher
			if pms, err := toPromMatchers(pc.Matchers); err == nil {
				dis := false
				for mi, m := range pc.Matchers {
					for _, s := range pc.Series {
						if promMatch(m, s.Labels) != pms[mi].Matches(s.Labels[m.Name]) {
							dis = true
						}
					}
				}
				if dis {
					c.Undecided("matchers/prom: oracle disagreement between the evaluator and labels.Matcher")
					c.EndCase(gi)
					continue
				}
			}
			sig, desc, sqlText, undecided := judgeProm(&pc)
			c.EndCase(gi)
			if undecided != "" {
				c.Undecided(undecided)
				continue
			}
			decided++
			for _, m := range pc.Matchers {
				c.Floor("matchers: prom sets with "+m.Op, 0, 1)
				c.Cover("prom matcher op x label", m.Op+" "+map[bool]string{true: "__name__", false: "other"}[m.Name == "__name__"], 1)
				if m.Name == "__name__" {
					c.Floor("matchers: prom sets on __name__", 0, 1)
				}
			}
			nsel, nmet := 0, 0
			for _, s := range pc.Series {
				if s.isMetric() {
					nmet++
					if promMatchAll(pc.Matchers, s.Labels) {
						nsel++
					}
				}
			}
			if nsel > 0 && nsel < nmet {
				c.Floor("matchers: prom cases selecting some but not all series", 0, 1)
			}
			c.Cover("prom case class", class, 1)
			if sig != "" {
				c.Event("matchers/prom: disagreements", 1)
				c.Cover("matcher mismatch kinds", "prom "+strings.SplitN(strings.TrimPrefix(desc, "["), "]", 2)[0], 1)
				w := pc
				if !shrunk[sig] {
					shrunk[sig] = true
					w = shrinkProm(pc, sig)
					_, desc, sqlText, _ = judgeProm(&w)
				}
				c.Violation(sig, desc+" (reader/logql/logql_transpiler_v2/clickhouse_planner/planner_stream_select.go via reader/promql/transpiler/shared.go fingerprintsQuery)",
					map[string]any{"monitor": "matchers/prom", "case": w, "sql": sqlText, "original": pc})
			}
			continue
		}
		pc, class := genPyroCase(r, gi/2)
		var sets []map[string]string
		for _, s := range pc.Series {
			sets = append(sets, s.labelSets()...)
		}
		feats := setFeatures(pc.Selectors, sets)
		names := map[string]bool{}
		for _, m := range pc.Selectors {
			if pseudoLabels[m.Name] {
				names[m.Name] = true
			} else {
				names["tag"] = true
			}
		}
		var nl []string
		for k := range names {
			nl = append(nl, k)
		}
		sort.Strings(nl)
		key := fmt.Sprintf("matchers/pyro/%s/ops=%s/n=%d/on=%s/features=%s", class, opsKey(pc.Selectors), min(len(pc.Selectors), 9), strings.Join(nl, "+"), strings.Join(feats, "+"))
		c.BeginCase(gi, map[string]any{"monitor": "matchers/pyro", "case": pc})
		c.Case(key)
		if gi < 2 {
			c.Sample(map[string]any{"monitor": "matchers/pyro", "selector": pyroSelectorText(pc.Selectors), "series": len(pc.Series), "class": class})
		}
		sig, desc, sqlText, undecided, probe := judgePyro(&pc)
		if undecided != "" {
			c.EndCase(gi)
			c.Undecided(undecided)
			continue
		}
		decided++
		if probe {
			c.Event("matchers/pyro: probe (readings of multi-valued pseudo-labels differ; not judged)", 1)
		}
		for _, m := range pc.Selectors {
			if pseudoLabels[m.Name] {
				c.Floor("matchers: pyro selectors on a pseudo-label", 0, 1)
			} else {
				c.Floor("matchers: pyro selectors on a tag", 0, 1)
			}
			c.Cover("pyro matcher op x label", m.Op+" "+map[bool]string{true: m.Name, false: "tag"}[pseudoLabels[m.Name]], 1)
		}
		nsel := 0
		for _, s := range pc.Series {
			if a, b := pyroWant(pc.Selectors, s); a && b {
				nsel++
			}
		}
		if nsel > 0 && nsel < len(pc.Series) {
			c.Floor("matchers: pyro cases selecting some but not all series", 0, 1)
		}
		c.Cover("pyro case class", class, 1)
		if sig != "" {
			c.Event("matchers/pyro: disagreements", 1)
			c.Cover("matcher mismatch kinds", "pyro "+strings.SplitN(strings.TrimPrefix(desc, "["), "]", 2)[0], 1)
			w := pc
			if !shrunk[sig] {
				shrunk[sig] = true
				w = shrinkPyro(pc, sig)
				_, desc, sqlText, _, _ = judgePyro(&w)
			}
			c.Violation(sig, desc+" (reader/prof/transpiler/planner_selector.go getMatchers/getMatcherClause)",
				map[string]any{"monitor": "matchers/pyro", "case": w, "sql": sqlText, "original": pc})
		} else if !probe && len(feats) == 0 {
			// label sets handed out by the Series endpoint: judged only for selectors without a matcher on
			// a multi-valued pseudo-label (otherwise which pairs of a selected series are listed is a probe)
			multi := false
			for _, m := range pc.Selectors {
				multi = multi || multiValued[m.Name]
			}
			if !multi && len(pc.Selectors) > 0 && kvCount(pc.Selectors) < 9 {
				got, err := pyroSeriesLabels(&pc, sess, reg, &curDB, &und)
				switch {
				case und != "":
					c.Undecided("matchers/pyro-series: " + clip(und, 120))
				case err != nil:
					c.Violation("matchers/pyro-series/error", fmt.Sprintf("Series for %s failed: %v", pyroSelectorText(pc.Selectors), err), map[string]any{"case": pc})
				default:
					want := map[string]bool{}
					for _, s := range pc.Series {
						if a, _ := pyroWant(pc.Selectors, s); a {
							for _, l := range s.labelSets() {
								want[labelsKey(l)] = true
							}
						}
					}
					c.Event("matchers/pyro: Series label sets compared", 1)
					for k := range want {
						if !got[k] {
							c.Violation("matchers/pyro-series/missing-label-set", fmt.Sprintf("Series for %s: label set %s of a selected series is not listed", pyroSelectorText(pc.Selectors), k), map[string]any{"case": pc})
							break
						}
					}
					for k := range got {
						if !want[k] {
							c.Violation("matchers/pyro-series/foreign-label-set", fmt.Sprintf("Series for %s: listed label set %s belongs to no selected series", pyroSelectorText(pc.Selectors), k), map[string]any{"case": pc})
							break
						}
					}
				}
			}
		}
		c.EndCase(gi)
	}
	c.Floor("matchers: cases decided", 0, decided)
}

// execOn runs q on db and converts the result for database/sql. Unsupported statements set *und.
func execOn(db *chsql.DB, q string, und *string) (*sqldrv.Rows, error) {
	if db == nil {
		return nil, fmt.Errorf("no database")
	}
	res, err := db.Exec(q)
	if err != nil {
		var re *chsql.RaiseError
		if !errors.As(err, &re) {
			*und = err.Error()
		}
		return nil, err
	}
	cols := make([]string, len(res.Cols))
	for i, cdef := range res.Cols {
		cols[i] = cdef.Name
	}
	data := make([][]driver.Value, len(res.Rows))
	for i, row := range res.Rows {
		data[i] = make([]driver.Value, len(row))
		for j, v := range row {
			data[i][j] = toDriver(v)
		}
	}
	return sqldrv.NewRows(cols, data), nil
}

var _ = run.Scratch
