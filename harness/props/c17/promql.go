package c17

import (
	"context"
	"encoding/json"
	"fmt"
	"math"
	"math/rand"
	"net/http"
	"net/http/httptest"
	"net/url"
	"regexp"
	"sort"
	"strconv"
	"strings"
	"time"

	"github.com/prometheus/prometheus/model/labels"
	"github.com/prometheus/prometheus/promql"
	"github.com/prometheus/prometheus/storage"
	"github.com/prometheus/prometheus/tsdb/tsdbutil"

	"verif/harness/engines/chsql"
	"verif/harness/engines/run"
	"verif/harness/engines/sqldrv"
)

// ---- monitor 4: PromQL end to end vs the upstream engine over a reference storage ------------

// refStorage is the in-memory reference: the same samples, Prometheus matcher rules, a list
// iterator with a lower-bound Seek.
type refStorage struct{ series []*mSeries }

type refSample struct {
	t int64
	v float64
}

func (s refSample) T() int64   { return s.t }
func (s refSample) V() float64 { return s.v }

func (r *refStorage) Querier(ctx context.Context, mint, maxt int64) (storage.Querier, error) {
	return &refQuerier{r}, nil
}

type refQuerier struct{ st *refStorage }

func (q *refQuerier) LabelValues(string, ...*labels.Matcher) ([]string, storage.Warnings, error) {
	return nil, nil, nil
}
func (q *refQuerier) LabelNames(...*labels.Matcher) ([]string, storage.Warnings, error) {
	return nil, nil, nil
}
func (q *refQuerier) Close() error { return nil }

func (q *refQuerier) Select(sortSeries bool, hints *storage.SelectHints, ms ...*labels.Matcher) storage.SeriesSet {
	var pm []pmatcher
	for _, m := range ms {
		pm = append(pm, pmatcher{Name: m.Name, Op: m.Type.String(), Val: m.Value})
	}
	var out []storage.Series
	for _, s := range q.st.series {
		if !s.isMetric() || !promMatchAll(pm, s.Labels) {
			continue
		}
		var smp []tsdbutil.Sample
		for _, p := range s.Samples {
			smp = append(smp, refSample{p.Ms, p.V})
		}
		if len(smp) == 0 {
			continue
		}
		var ls labels.Labels
		for _, n := range labelNames(s.Labels) {
			if s.Labels[n] != "" {
				ls = append(ls, labels.Label{Name: n, Value: s.Labels[n]})
			}
		}
		out = append(out, storage.NewListSeries(ls, smp))
	}
	sort.Slice(out, func(i, j int) bool { return labels.Compare(out[i].Labels(), out[j].Labels()) < 0 })
	return &refSet{series: out, i: -1}
}

type refSet struct {
	series []storage.Series
	i      int
}

func (s *refSet) Next() bool                 { s.i++; return s.i < len(s.series) }
func (s *refSet) At() storage.Series         { return s.series[s.i] }
func (s *refSet) Err() error                 { return nil }
func (s *refSet) Warnings() storage.Warnings { return nil }

type selInfo struct {
	Range  int64  `json:"range"`  // ms, 0 = instant selector (lookback applies)
	Offset int64  `json:"offset"` // ms
	Func   string `json:"func"`   // nearest enclosing call/aggregation (what the engine puts into SelectHints.Func)
}

type pqCase struct {
	Series  []*mSeries `json:"series"`
	Expr    string     `json:"expr"`
	Shape   string     `json:"shape"`
	Sels    []selInfo  `json:"selectors"`
	Instant bool       `json:"instant"`
	Start   int64      `json:"start"` // seconds
	End     int64      `json:"end"`
	Step    int64      `json:"step"` // seconds
}

func genPQCase(r *rand.Rand, gi int) pqCase {
	pc := pqCase{}
	pc.Start = baseSec + 15*int64(r.Intn(4))
	pc.End = pc.Start + 15*int64(1+r.Intn(6))
	pc.Step = pick(r, []int64{1, 2, 3, 4, 5, 6, 7, 9, 10, 12, 13, 14})
	pc.Instant = gi%5 == 4
	if pc.Instant {
		pc.Start += int64(r.Intn(15))
		pc.End, pc.Step = pc.Start, 0
	}
	// series: metrics m and n over job x instance
	used := map[uint64]bool{}
	seen := map[string]bool{}
	n := 2 + r.Intn(5)
	for i := 0; i < n; i++ {
		s := &mSeries{FP: randFP(r, used), Type: 2, Days: []int32{baseDay}, Labels: map[string]string{
			"__name__": pick(r, []string{"m", "m", "n"}), "job": pick(r, []string{"a", "b"}), "instance": pick(r, []string{"a", "b", "ab"})}}
		if r.Intn(8) == 0 {
			s.Type = 0
		}
		if i == 1 && r.Intn(2) == 0 { // a partner for binary operations
			s.Labels["__name__"] = "n"
			s.Labels["job"], s.Labels["instance"] = pc.Series[0].Labels["job"], pc.Series[0].Labels["instance"]
		}
		if i == 0 {
			s.Labels["__name__"] = "m"
		}
		if seen[labelsKey(s.Labels)] {
			continue
		}
		seen[labelsKey(s.Labels)] = true
		pc.Series = append(pc.Series, s)
	}
	lo, hi := (pc.Start-340)*1000, (pc.End+20)*1000
	for _, s := range pc.Series {
		interval := pick(r, []int64{3000, 5000, 10000, 15000})
		onSeconds := r.Intn(5) == 0
		counter := r.Intn(2) == 0
		t := lo + r.Int63n(interval)
		if onSeconds {
			t = t / 1000 * 1000
		}
		stopAt := hi
		switch r.Intn(8) {
		case 0: // the series ends around the staleness horizon of the first evaluation
			stopAt = (pc.Start-310)*1000 + r.Int63n(40000)
		case 1: // the series ends inside the window
			stopAt = pc.Start*1000 + r.Int63n((pc.End-pc.Start)*1000+1)
		}
		gapFrom, gapTo := int64(-1), int64(-1)
		if r.Intn(3) == 0 {
			gapFrom = lo + r.Int63n(hi-lo)
			gapTo = gapFrom + 20000 + r.Int63n(100000)
		}
		v := float64(r.Intn(50))
		for ; t <= stopAt; t += interval {
			tt := t
			if !onSeconds {
				tt += r.Int63n(interval/2) + 1
				if tt%1000 == 0 {
					tt++
				}
			}
			if counter {
				v += float64(r.Intn(10))
				if r.Intn(40) == 0 {
					v = float64(r.Intn(3))
				}
			} else {
				v = float64(r.Intn(200)-50) / 2
			}
			if tt >= gapFrom && tt < gapTo {
				continue
			}
			if len(s.Samples) > 0 && s.Samples[len(s.Samples)-1].Ms >= tt {
				continue
			}
			s.Samples = append(s.Samples, mSample{Ms: tt, V: v})
		}
	}
	// expression
	multi := false // {__name__=~"m|n"} only where the metric name survives (else equal label sets collide)
	sel := func() string {
		k := r.Intn(6)
		if k == 2 && !multi {
			k = 5
		}
		switch k {
		case 0:
			return `m{job="a"}`
		case 1:
			return `m{job=~"a|b",instance!="b"}`
		case 2:
			return `{__name__=~"m|n"}`
		case 3:
			return `m{instance!~"a.*"}`
		}
		return "m"
	}
	rng := func() (string, int64) {
		R := pick(r, []int64{20, 30, 45, 60})
		if !pc.Instant && r.Intn(4) == 0 { // a range shorter than the step
			R = max(1, pc.Step-int64(1+r.Intn(3)))
		}
		return fmt.Sprintf("[%ds]", R), R * 1000
	}
	switch k := gi % 10; {
	case k == 0:
		pc.Expr, pc.Shape, pc.Sels = "m", "selector", []selInfo{{}}
	case k == 1:
		multi = true
		pc.Expr, pc.Shape, pc.Sels = sel(), "selector-with-matchers", []selInfo{{}}
	case k == 2:
		rs, R := rng()
		f := pick(r, []string{"rate", "increase", "irate", "delta"})
		pc.Expr, pc.Shape, pc.Sels = fmt.Sprintf("%s(%s%s)", f, sel(), rs), "range-func:"+f, []selInfo{{Range: R, Func: f}}
	case k == 3:
		rs, R := rng()
		f := pick(r, []string{"avg_over_time", "max_over_time", "min_over_time", "sum_over_time", "count_over_time", "last_over_time"})
		pc.Expr, pc.Shape, pc.Sels = fmt.Sprintf("%s(%s%s)", f, sel(), rs), "range-func:"+f, []selInfo{{Range: R, Func: f}}
	case k == 4 || k == 9:
		a := pick(r, []string{"sum by (job) (%s)", "sum without (instance) (%s)", "avg by (job) (%s)", "max(%s)", "count(%s)", "min by (instance) (%s)"})
		pc.Expr, pc.Shape, pc.Sels = fmt.Sprintf(a, sel()), "aggregation", []selInfo{{Func: strings.Fields(strings.SplitN(a, "(", 2)[0])[0]}}
	case k == 5:
		switch r.Intn(4) {
		case 0:
			pc.Expr = "m + on(job, instance) n"
		case 1:
			pc.Expr = "m / on(job, instance) group_left n"
		case 2:
			pc.Expr = `m{job="a"} - ignoring(job) m{job="b"}`
		default:
			pc.Expr = "m * 2 > 10"
		}
		pc.Shape, pc.Sels = "binary", []selInfo{{}, {}}
	case k == 6:
		f := pick(r, []string{"abs", "ceil", "timestamp", "floor"})
		pc.Expr, pc.Shape, pc.Sels = fmt.Sprintf("%s(%s)", f, sel()), "instant-func:"+f, []selInfo{{Func: f}}
	case k == 7:
		rs, R := rng()
		pc.Expr, pc.Shape, pc.Sels = fmt.Sprintf("sum by (job) (rate(m%s))", rs), "aggregation-over-range-func", []selInfo{{Range: R, Func: "rate"}}
	default:
		switch r.Intn(4) {
		case 3:
			// two selectors whose windows lie on different UTC days: n exists (index rows and samples) two days
			// before the window of m only
			const twoDays = int64(2 * 86400 * 1000)
			for _, s := range pc.Series {
				if s.Labels["__name__"] == "n" {
					s.Days = []int32{baseDay - 2}
					for i := range s.Samples {
						s.Samples[i].Ms -= twoDays
					}
				}
			}
			pc.Expr, pc.Shape, pc.Sels = pick(r, []string{"m or n offset 2d", "n offset 2d or m", "m + on(job, instance) n offset 2d"}), "selectors-on-different-days", []selInfo{{}, {Offset: twoDays}}
		case 0:
			rs, R := rng()
			f := pick(r, []string{"quantile_over_time(0.5, %s%s)", "stddev_over_time(%s%s)"})
			pc.Expr, pc.Shape, pc.Sels = fmt.Sprintf(f, sel(), rs), "range-func-without-downsampling", []selInfo{{Range: R, Func: strings.SplitN(f, "(", 2)[0]}}
		case 1:
			off := pick(r, []int64{15, 30, 7})
			pc.Expr, pc.Shape, pc.Sels = fmt.Sprintf("m offset %ds", off), "selector-offset", []selInfo{{Offset: off * 1000}}
		default:
			rs, R := rng()
			pc.Expr, pc.Shape, pc.Sels = fmt.Sprintf("m%s", rs), "bare-range-selector", []selInfo{{Range: R}}
			if !pc.Instant { // a bare range vector is only valid in an instant query
				pc.Expr, pc.Shape = fmt.Sprintf("max_over_time(m%s) - min_over_time(m%s)", rs, rs), "binary-of-range-funcs"
				pc.Sels = []selInfo{{Range: R, Func: "max_over_time"}, {Range: R, Func: "min_over_time"}}
			}
		}
	}
	if gi%7 == 3 {
		pc.acrossMidnight(gi / 7 % 3)
	}
	return pc
}

// acrossMidnight moves the whole case (window, samples) so that a UTC midnight lies 195 s or 600 s before the first
// evaluation or 15 s after it, and files the series rows under the days the samples then fall on, as the writer
// does: a series that lives on has a row on both days, one that ended before midnight on the first only. The
// date range of the index and label reads then covers two days with unequal numbers of rows per series.
func (pc *pqCase) acrossMidnight(k int) {
	d := []int64{195, -15, 600}[k]
	aligned := pc.Start - (pc.Start-baseSec)%15
	midnight := (baseSec/86400 + 1) * 86400
	shift := midnight + d - aligned
	pc.Start += shift
	pc.End += shift
	for _, s := range pc.Series {
		days := map[int32]bool{}
		for i := range s.Samples {
			s.Samples[i].Ms += shift * 1000
			days[int32(s.Samples[i].Ms/86400000)] = true
		}
		if len(days) == 0 {
			days[int32(pc.Start/86400)] = true
		}
		s.Days = s.Days[:0]
		for day := range days {
			s.Days = append(s.Days, day)
		}
		sort.Slice(s.Days, func(i, j int) bool { return s.Days[i] < s.Days[j] })
	}
}

func (pc *pqCase) evalTimes() []int64 {
	if pc.Instant {
		return []int64{pc.Start * 1000}
	}
	var out []int64
	for t := pc.Start; t <= pc.End; t += pc.Step {
		out = append(out, t*1000)
	}
	return out
}

// leftEdgeProbe: some sample lies exactly on the left edge of a window the query looks at.
func (pc *pqCase) leftEdgeProbe() bool {
	edges := map[int64]bool{}
	for _, T := range pc.evalTimes() {
		for _, s := range pc.Sels {
			w := s.Range
			if w == 0 {
				w = 300000
			}
			edges[T-s.Offset-w] = true
		}
	}
	for _, s := range pc.Series {
		for _, p := range s.Samples {
			if edges[p.Ms] {
				return true
			}
		}
	}
	return false
}

// stepClass names how the querier treats the request: "raw" (rows of samples_v3 as they are),
// "step-buckets" (processHints replaces the samples by one per step bucket; the bucket grid starts at
// hints.Start = start - 5m - offset while the selector is read at T - offset, so the grid coincides with
// the evaluation timestamps only if the step divides 5m) or "step>range" (processHints drops samples by timestamp modulo step).
func (pc *pqCase) stepClass() string {
	if pc.Instant {
		return "raw-instant"
	}
	cls := "raw"
	for _, s := range pc.Sels {
		if instantFuncs[s.Func] && s.Range == 0 {
			c := "step-buckets/grid-aligned"
			if 300000%(pc.Step*1000) != 0 {
				c = "step-buckets/grid-misaligned"
			}
			if s.Func == "timestamp" {
				c += "/timestamp()"
			}
			if cls == "raw" || strings.Contains(c, "misaligned") {
				cls = c
			}
		}
	}
	if cls != "raw" {
		return cls
	}
	for _, s := range pc.Sels {
		if rangeFuncs[s.Func] && s.Range > 0 && s.Range < pc.Step*1000 {
			return "step>range"
		}
	}
	return cls
}

type pqResult struct {
	typ    string
	series map[string][]mSample
	scalar *mSample
}

func refResult(res *promql.Result) (*pqResult, error) {
	if res.Err != nil {
		return nil, res.Err
	}
	out := &pqResult{series: map[string][]mSample{}}
	lk := func(ls labels.Labels) string {
		m := map[string]string{}
		for _, l := range ls {
			m[l.Name] = l.Value
		}
		return labelsKey(m)
	}
	switch v := res.Value.(type) {
	case promql.Matrix:
		out.typ = "matrix"
		for _, s := range v {
			for _, p := range s.Points {
				out.series[lk(s.Metric)] = append(out.series[lk(s.Metric)], mSample{p.T, p.V})
			}
		}
	case promql.Vector:
		out.typ = "vector"
		for _, s := range v {
			out.series[lk(s.Metric)] = append(out.series[lk(s.Metric)], mSample{s.T, s.V})
		}
	case promql.Scalar:
		out.typ = "scalar"
		out.scalar = &mSample{v.T, v.V}
	default:
		return nil, fmt.Errorf("unexpected result type %T", res.Value)
	}
	return out, nil
}

func parseHTTP(body []byte) (*pqResult, error) {
	var doc struct {
		Status string `json:"status"`
		Error  string `json:"error"`
		Data   struct {
			ResultType string `json:"resultType"`
			Result     []struct {
				Metric map[string]string `json:"metric"`
				Values [][]any           `json:"values"`
				Value  []any             `json:"value"`
			} `json:"result"`
		} `json:"data"`
	}
	dec := json.NewDecoder(strings.NewReader(string(body)))
	dec.UseNumber()
	if err := dec.Decode(&doc); err != nil {
		return nil, fmt.Errorf("response is not JSON: %v", err)
	}
	if doc.Status != "success" {
		return nil, fmt.Errorf("status %q: %s", doc.Status, doc.Error)
	}
	out := &pqResult{typ: doc.Data.ResultType, series: map[string][]mSample{}}
	pt := func(p []any) (mSample, error) {
		if len(p) != 2 {
			return mSample{}, fmt.Errorf("point %v", p)
		}
		tn, ok1 := p[0].(json.Number)
		vs, ok2 := p[1].(string)
		if !ok1 || !ok2 {
			return mSample{}, fmt.Errorf("point %v", p)
		}
		tf, err := strconv.ParseFloat(string(tn), 64)
		if err != nil {
			return mSample{}, err
		}
		v, err := strconv.ParseFloat(vs, 64)
		if err != nil {
			return mSample{}, err
		}
		return mSample{Ms: int64(math.Round(tf * 1000)), V: v}, nil
	}
	for _, s := range doc.Data.Result {
		k := labelsKey(s.Metric)
		if _, dup := out.series[k]; dup {
			return nil, fmt.Errorf("series %s listed twice", k)
		}
		out.series[k] = []mSample{}
		for _, p := range s.Values {
			x, err := pt(p)
			if err != nil {
				return nil, err
			}
			out.series[k] = append(out.series[k], x)
		}
		if s.Value != nil {
			x, err := pt(s.Value)
			if err != nil {
				return nil, err
			}
			out.series[k] = append(out.series[k], x)
		}
	}
	return out, nil
}

func closeEnough(a, b float64) bool {
	if math.IsNaN(a) || math.IsNaN(b) {
		return math.IsNaN(a) && math.IsNaN(b)
	}
	if a == b {
		return true
	}
	d := math.Abs(a - b)
	return d <= 1e-12 || d <= 1e-9*math.Max(math.Abs(a), math.Abs(b))
}

// comparePQ names the first difference (kind, description).
func comparePQ(got, want *pqResult) (kind, desc string) {
	if got.typ != want.typ {
		return "result-type", fmt.Sprintf("result type %s, Prometheus returns %s", got.typ, want.typ)
	}
	var keys []string
	for k := range want.series {
		keys = append(keys, k)
	}
	sort.Strings(keys)
	for _, k := range keys {
		g, ok := got.series[k]
		if !ok {
			return "series-missing", fmt.Sprintf("series {%s} (%d points in Prometheus' answer, first %+v) is missing", k, len(want.series[k]), want.series[k][0])
		}
		w := want.series[k]
		gi, wi := 0, 0
		for gi < len(g) || wi < len(w) {
			switch {
			case wi == len(w) || (gi < len(g) && g[gi].Ms < w[wi].Ms):
				return "point-extra", fmt.Sprintf("series {%s}: point at t=%d (value %v) that Prometheus does not return", k, g[gi].Ms, g[gi].V)
			case gi == len(g) || w[wi].Ms < g[gi].Ms:
				return "point-missing", fmt.Sprintf("series {%s}: no point at t=%d where Prometheus returns %v", k, w[wi].Ms, w[wi].V)
			case !closeEnough(g[gi].V, w[wi].V):
				return "value", fmt.Sprintf("series {%s} at t=%d: value %v, Prometheus returns %v", k, g[gi].Ms, g[gi].V, w[wi].V)
			}
			gi++
			wi++
		}
	}
	var extra []string
	for k := range got.series {
		if _, ok := want.series[k]; !ok {
			extra = append(extra, k)
		}
	}
	sort.Strings(extra)
	if len(extra) > 0 {
		return "series-extra", fmt.Sprintf("series {%s} (%d points) that Prometheus does not return", extra[0], len(got.series[extra[0]]))
	}
	return "", ""
}

type pqRig struct {
	reader *sqldrv.Reader
	sess   *sqldrv.Session
	cur    *chsql.DB
	und    string
	eng    *promql.Engine
}

func newPQRig() *pqRig {
	rig := &pqRig{}
	rig.sess = sqldrv.NewSession("c17-promql", func(ctx context.Context, q string) (*sqldrv.Rows, error) {
		return execOn(rig.cur, q, &rig.und)
	})
	rig.reader = sqldrv.StartReader(sqldrv.NewRegistry(rig.sess, ""), "")
	// the reference engine: same options as reader/router/prometheusQueryRangeRouter.go
	rig.eng = promql.NewEngine(promql.EngineOpts{MaxSamples: 5000000, Timeout: 30 * time.Second})
	return rig
}

func (rig *pqRig) run(pc *pqCase) (got, want *pqResult, status int, gotErr, wantErr error, sqls []string) {
	db := chsql.QrynSchema(false)
	fillMetrics(db, pc.Series)
	rig.cur, rig.und = db, ""
	from := rig.sess.LogLen()
	var u string
	if pc.Instant {
		u = fmt.Sprintf("/api/v1/query?query=%s&time=%d", url.QueryEscape(pc.Expr), pc.Start)
	} else {
		u = fmt.Sprintf("/api/v1/query_range?query=%s&start=%d&end=%d&step=%d", url.QueryEscape(pc.Expr), pc.Start, pc.End, pc.Step)
	}
	rec := httptest.NewRecorder()
	req, _ := http.NewRequest("GET", u, nil)
	rig.reader.Router.ServeHTTP(rec, req)
	status = rec.Code
	for _, st := range rig.sess.Statements(from) {
		sqls = append(sqls, st.SQL)
	}
	if status/100 == 2 {
		got, gotErr = parseHTTP(rec.Body.Bytes())
	} else {
		gotErr = fmt.Errorf("HTTP %d: %s", status, clip(rec.Body.String(), 300))
	}
	ref := &refStorage{series: pc.Series}
	var q promql.Query
	var err error
	if pc.Instant {
		q, err = rig.eng.NewInstantQuery(ref, nil, pc.Expr, time.Unix(pc.Start, 0))
	} else {
		q, err = rig.eng.NewRangeQuery(ref, nil, pc.Expr, time.Unix(pc.Start, 0), time.Unix(pc.End, 0), time.Duration(pc.Step)*time.Second)
	}
	if err != nil {
		wantErr = err
		return
	}
	res := q.Exec(context.Background())
	want, wantErr = refResult(res)
	q.Close()
	return
}

func pqJudge(rig *pqRig, pc *pqCase) (sig, desc string, undecided string, nonEmpty bool, sqls []string) {
	got, want, _, gotErr, wantErr, sqls := rig.run(pc)
	if rig.und != "" {
		return "", "", "promql: " + clip(rig.und, 120), false, sqls
	}
	if wantErr != nil {
		return "", "", "promql: the reference engine rejects the generated query: " + clip(wantErr.Error(), 100), false, sqls
	}
	ep := "range"
	if pc.Instant {
		ep = "instant"
	}
	prefix := fmt.Sprintf("promql/%s/%s", ep, pc.stepClass())
	nonEmpty = len(want.series) > 0
	if gotErr != nil {
		return prefix + "/error/" + strings.SplitN(pc.Shape, ":", 2)[0], fmt.Sprintf("%s: qryn answers with an error (%v) where Prometheus returns %d series", pc.reqString(), gotErr, len(want.series)), "", nonEmpty, sqls
	}
	kind, d := comparePQ(got, want)
	if kind == "" {
		return "", "", "", nonEmpty, sqls
	}
	if kind == "point-missing" || kind == "series-missing" {
		// a set operator (or / unless / and) lets a point of one operand decide over a point of the other: a point that
		// is missing at t while a series with the same labels apart from the name has a point at t that Prometheus does
		// not return is the consequence of that extra point - name the cause
		if k2, at, v, ok := extraTwin(got, want); ok && setOpRe.MatchString(pc.Expr) {
			kind, d = "point-extra", fmt.Sprintf("series {%s}: point at t=%d (value %v) that Prometheus does not return (and which, through the set operator, displaces: %s)", k2, at, v, d)
		}
	}
	return pqSignature(ep, pc.stepClass(), kind), fmt.Sprintf("[%s] %s: %s", kind, pc.reqString(), d), "", nonEmpty, sqls
}

var setOpRe = regexp.MustCompile(`\b(or|unless|and)\b`)
var nameLblRe = regexp.MustCompile(`__name__="[^"]*",`)

// extraTwin finds a point qryn returns and Prometheus does not, on a series whose labels apart from the name are
// those of a series that misses a point at the same time.
func extraTwin(got, want *pqResult) (key string, at int64, v float64, ok bool) {
	has := func(ps []mSample, ms int64) bool {
		for _, p := range ps {
			if p.Ms == ms {
				return true
			}
		}
		return false
	}
	var keys []string
	for k := range got.series {
		keys = append(keys, k)
	}
	sort.Strings(keys)
	for _, k2 := range keys {
		for _, p := range got.series[k2] {
			if has(want.series[k2], p.Ms) {
				continue
			}
			// p is extra on k2; does a twin miss a point at p.Ms?
			for k, wps := range want.series {
				if k != k2 && nameLblRe.ReplaceAllString(k, "") == nameLblRe.ReplaceAllString(k2, "") && has(wps, p.Ms) && !has(got.series[k], p.Ms) {
					return k2, p.Ms, p.V, true
				}
			}
		}
	}
	return "", 0, 0, false
}

// pqSignature: hint class x mismatch kind. Within the classes whose treatment by processHints
// cannot agree with Prometheus on any kind of point (misaligned bucket grid, timestamp() over
// buckets, the modulo-step filter) the kinds are one signature; where the bucket grid coincides with
// the evaluation timestamps only "a sample Prometheus already considers stale is still returned"
// (extra point / extra series) is one signature and every other kind keeps its own.
func pqSignature(ep, class, kind string) string {
	switch {
	case strings.HasSuffix(class, "/timestamp()"):
		return "promql/" + ep + "/step-buckets/timestamp()"
	case class == "step-buckets/grid-misaligned", class == "step>range":
		return "promql/" + ep + "/" + class
	case class == "step-buckets/grid-aligned" && (kind == "point-extra" || kind == "series-extra"):
		return "promql/" + ep + "/" + class + "/extra"
	}
	return "promql/" + ep + "/" + class + "/" + kind
}

func (pc *pqCase) reqString() string {
	if pc.Instant {
		return fmt.Sprintf("query %q at time=%d", pc.Expr, pc.Start)
	}
	return fmt.Sprintf("query_range %q start=%d end=%d step=%ds", pc.Expr, pc.Start, pc.End, pc.Step)
}

// shrinkPQ drops series and samples while the same signature persists.
func shrinkPQ(rig *pqRig, pc pqCase, sig string) pqCase {
	same := func(c pqCase) bool {
		if c.leftEdgeProbe() {
			return false
		}
		s, _, _, _, _ := pqJudge(rig, &c)
		return s == sig
	}
	budget := 400
	for changed := true; changed && budget > 0; {
		changed = false
		for i := 0; i < len(pc.Series) && len(pc.Series) > 1 && budget > 0; i++ {
			n := pc
			n.Series = append(append([]*mSeries{}, pc.Series[:i]...), pc.Series[i+1:]...)
			budget--
			if same(n) {
				pc, changed = n, true
				i--
			}
		}
		// samples: halves, then singles
		for si := range pc.Series {
			for chunk := len(pc.Series[si].Samples) / 2; chunk >= 1 && budget > 0; chunk /= 2 {
				for off := 0; off < len(pc.Series[si].Samples) && budget > 0; {
					s := pc.Series[si]
					end := min(off+chunk, len(s.Samples))
					cp := *s
					cp.Samples = append(append([]mSample{}, s.Samples[:off]...), s.Samples[end:]...)
					n := pc
					n.Series = append([]*mSeries{}, pc.Series...)
					n.Series[si] = &cp
					budget--
					if same(n) {
						pc, changed = n, true
					} else {
						off += chunk
					}
				}
			}
		}
		if !pc.Instant && budget > 0 { // shorten the window
			for pc.End-15 > pc.Start && budget > 0 {
				n := pc
				n.End -= 15
				budget--
				if !same(n) {
					break
				}
				pc, changed = n, true
			}
		}
	}
	return pc
}

func childPromQL(c *run.Ctx, cfg childCfg) {
	rig := newPQRig()
	decided := 0
	shrunk := map[string]bool{}
	for i := 0; i < cfg.N; i++ {
		gi := cfg.Start + i
		r := c.Rng(fmt.Sprintf("c17/promql/%d", gi))
		pc := genPQCase(r, gi)
		probe := pc.leftEdgeProbe()
		ep := "range"
		if pc.Instant {
			ep = "instant"
		}
		key := fmt.Sprintf("promql/%s/%s/%s", ep, pc.Shape, pc.stepClass())
		if probe {
			key += "/left-edge-probe"
		}
		c.BeginCase(gi, map[string]any{"monitor": "promql", "case": pc})
		c.Case(key)
		if gi < 1 {
			c.Sample(map[string]any{"monitor": "promql", "request": pc.reqString(), "series": len(pc.Series)})
		}
		sig, desc, undecided, nonEmpty, sqls := pqJudge(rig, &pc)
		c.EndCase(gi)
		if undecided != "" {
			c.Undecided(undecided)
			continue
		}
		decided++
		c.Cover("promql expression shape", pc.Shape, 1)
		c.Cover("promql hint class", pc.stepClass(), 1)
		if nonEmpty {
			c.Floor("promql: non-empty reference results", 0, 1)
		}
		if pc.Instant {
			c.Floor("promql: instant queries compared", 0, 1)
		} else {
			c.Floor("promql: range queries compared", 0, 1)
		}
		if sig == "" {
			continue
		}
		if probe {
			c.Event("promql: probe differences (a sample exactly on the left edge of a window; not judged)", 1)
			continue
		}
		c.Event("promql: disagreements", 1)
		c.Cover("promql mismatch kinds", pc.stepClass()+" "+strings.SplitN(strings.TrimPrefix(desc, "["), "]", 2)[0], 1)
		w := pc
		if !shrunk[sig] {
			shrunk[sig] = true
			w = shrinkPQ(rig, pc, sig)
			_, desc, _, _, sqls = pqJudge(rig, &w)
		}
		where := " (reader/service/promQueryable.go Select / reader/promql/transpiler/transpiler.go)"
		switch {
		case strings.Contains(sig, "step-buckets"):
			where = " (reader/promql/transpiler/transpiler.go processHints: samples are replaced by one argMax per step bucket, stamped with the bucket end, on a grid that starts at hints.Start)"
		case strings.Contains(sig, "step>range"):
			where = " (reader/promql/transpiler/transpiler.go processHints: the filter timestamp_ms % step == 0 or >= step-range assumes evaluation timestamps that are multiples of the step)"
		}
		c.Violation(sig, desc+where,
			map[string]any{"monitor": "promql", "case": w, "sql": sqls})
	}
	c.Floor("promql: cases decided", 0, decided)
}

var _ = run.Scratch
var _ = rand.Int
