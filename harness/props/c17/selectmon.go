package c17

import (
	"context"
	"fmt"
	"math/rand"
	"sort"
	"strings"

	rmodel "github.com/metrico/qryn/reader/model"
	rservice "github.com/metrico/qryn/reader/service"
	"github.com/prometheus/prometheus/storage"

	"verif/harness/engines/chsql"
	"verif/harness/engines/run"
	"verif/harness/engines/sqldrv"
)

// ---- monitor 3: CLokiQuerier.Select end to end ------------------------------------------------

type selHints struct {
	Start int64  `json:"start"`
	End   int64  `json:"end"`
	Step  int64  `json:"step"`
	Range int64  `json:"range"`
	Func  string `json:"func"`
	Class string `json:"class"`
}

type selCase struct {
	Cluster  bool       `json:"cluster"`
	Series   []*mSeries `json:"series"`
	Matchers []pmatcher `json:"matchers"`
	Hints    selHints   `json:"hints"`
	// Twins: label set that two fingerprints carry ("" = none)
	Twins string `json:"twins,omitempty"`
}

// the functions for which processHints buckets the samples per step before the engine sees them
var instantFuncs = map[string]bool{"": true, "abs": true, "absent": true, "ceil": true, "exp": true, "floor": true, "ln": true, "log2": true, "log10": true,
	"round": true, "scalar": true, "sgn": true, "sort": true, "sqrt": true, "timestamp": true, "atan": true, "cos": true, "cosh": true, "sin": true,
	"sinh": true, "tan": true, "tanh": true, "deg": true, "rad": true}
var rangeFuncs = map[string]bool{"absent_over_time": true, "deriv": true, "idelta": true, "irate": true, "rate": true, "resets": true, "min_over_time": true,
	"max_over_time": true, "sum_over_time": true, "count_over_time": true, "stddev_over_time": true, "stdvar_over_time": true, "last_over_time": true,
	"present_over_time": true, "delta": true, "increase": true, "avg_over_time": true}
var noDownsample = map[string]bool{"quantile_over_time": true, "stddev_over_time": true, "stdvar_over_time": true}

func genHints(r *rand.Rand, k int) selHints {
	h := selHints{}
	start := (baseSec - 300) * 1000
	length := int64(60+15*r.Intn(20)) * 1000
	switch k % 5 {
	case 0:
		h.Class = "step<15s"
		h.Step = pick(r, []int64{1000, 2000, 5000, 7000, 10000, 14999})
		h.Func = pick(r, []string{"", "", "sum", "rate", "avg_over_time", "abs", "timestamp", "max_over_time", "count", "avg"})
		if r.Intn(2) == 0 {
			start += int64(1 + r.Intn(14999))
		}
	case 1:
		h.Class = "unaligned start"
		h.Step = pick(r, []int64{15000, 30000, 60000})
		h.Func = pick(r, []string{"", "sum", "rate", "avg_over_time", "max_over_time", "last_over_time"})
		start += int64(1 + r.Intn(14999))
	case 2:
		h.Class = "function without pre-aggregation"
		h.Step = pick(r, []int64{15000, 30000, 60000})
		h.Func = pick(r, []string{"quantile_over_time", "stddev_over_time", "stdvar_over_time"})
	case 3:
		h.Class = "range<15s"
		h.Step = pick(r, []int64{15000, 30000})
		h.Func = pick(r, []string{"rate", "max_over_time", "sum_over_time", "irate"})
		h.Range = pick(r, []int64{1000, 5000, 14999})
	default:
		h.Class = "instant (step 0)"
		h.Step = 0
		h.Func = pick(r, []string{"", "sum", "rate", "avg_over_time", "abs"})
		if r.Intn(2) == 0 {
			start += int64(r.Intn(15000))
		}
	}
	if rangeFuncs[h.Func] || noDownsample[h.Func] {
		if h.Range == 0 {
			h.Range = pick(r, []int64{5000, 15000, 30000, 60000})
		}
	} else {
		h.Range = 0
	}
	h.Start, h.End = start, start+length
	return h
}

// rawPath mirrors the condition under which the querier reads samples_v3 (promQueryable.go
// transpileLabelMatchers); the generator only emits hints for which it holds, and the monitor
// additionally verifies from the statement log that samples_v3 was read.
func rawPath(h selHints) bool {
	sup, ok := map[string]bool{"avg_over_time": true, "min_over_time": true, "max_over_time": true, "sum_over_time": true, "count_over_time": true,
		"quantile_over_time": false, "stddev_over_time": false, "stdvar_over_time": false, "last_over_time": true, "present_over_time": true,
		"absent_over_time": true, "": true, "abs": true, "absent": true, "ceil": true, "exp": true, "floor": true, "ln": true, "log2": true, "log10": true,
		"round": true, "scalar": true, "sgn": true, "sort": true, "sqrt": true, "timestamp": true, "atan": true, "cos": true, "cosh": true, "sin": true,
		"sinh": true, "tan": true, "tanh": true, "deg": true, "rad": true, "sum": true, "min": true, "max": true, "group": true, "avg": true}[h.Func]
	return h.Start%15000 != 0 || h.Step < 15000 || (h.Range > 0 && h.Range < 15000) || !(sup || !ok)
}

func genSelCase(r *rand.Rand, gi int) selCase {
	sc := selCase{Cluster: r.Intn(4) == 0}
	for {
		sc.Hints = genHints(r, gi)
		if rawPath(sc.Hints) {
			break
		}
	}
	h := sc.Hints
	vals := []string{"a", "b", "ab"}
	common := []string{"__name__", "job"}
	sc.Series = genMetricSeries(r, common, []string{"env", "le"}, vals, r.Intn(8) == 0)
	used := map[uint64]bool{}
	var sets []map[string]string
	for _, s := range sc.Series {
		used[s.FP] = true
		sets = append(sets, s.Labels)
	}
	dupMode := r.Intn(5) == 0
	for _, s := range sc.Series {
		n := r.Intn(31)
		if r.Intn(10) == 0 {
			n = 0
		}
		var ts []int64
		for i := 0; i < n; i++ {
			var t int64
			switch r.Intn(12) {
			case 0:
				t = h.Start + 1
			case 1:
				t = h.End
			case 2:
				t = h.End + 1
			case 3:
				t = h.Start - int64(1+r.Intn(20000))
			case 4:
				t = h.End + int64(1+r.Intn(20000))
			case 5:
				t = h.Start + 2
				if r.Intn(4) == 0 {
					t = h.Start // the left edge itself: probe
				}
			default:
				t = h.Start + 1 + r.Int63n(h.End-h.Start)
			}
			ts = append(ts, t)
			if dupMode && r.Intn(4) == 0 {
				ts = append(ts, t)
			}
		}
		sort.Slice(ts, func(i, j int) bool { return ts[i] < ts[j] })
		if !dupMode { // distinct milliseconds
			out := ts[:0]
			for i, t := range ts {
				if i == 0 || t != ts[i-1] {
					out = append(out, t)
				}
			}
			ts = out
		}
		for _, t := range ts {
			s.Samples = append(s.Samples, mSample{Ms: t, V: float64(r.Intn(2000)) / 4})
		}
	}
	// twins: a second fingerprint for the label set of the series with the smallest fingerprint, larger than every
	// other (two writers with different fingerprint settings, or a changed hash): all other series sort between
	// them. What the twins themselves come out as is not judged; every other series must be untouched.
	if len(sc.Series) >= 3 && r.Intn(4) == 0 {
		lo, hi := sc.Series[0], sc.Series[0]
		for _, s := range sc.Series {
			if s.FP < lo.FP {
				lo = s
			}
			if s.FP > hi.FP {
				hi = s
			}
		}
		if hi.FP < 1<<64-2 && lo.isMetric() {
			tw := &mSeries{FP: hi.FP + 1, Labels: lo.Labels, Type: lo.Type, Days: lo.Days}
			for _, p := range lo.Samples {
				tw.Samples = append(tw.Samples, mSample{Ms: p.Ms + 1, V: p.V + 1000})
			}
			used[tw.FP] = true
			sc.Series = append(sc.Series, tw)
			sc.Twins = labelsKey(lo.Labels)
		}
	}
	// a log stream with the labels of a metric series and samples in range (noise)
	if r.Intn(3) == 0 {
		p := pick(r, sc.Series)
		sc.Series = append(sc.Series, &mSeries{FP: randFP(r, used), Labels: p.Labels, Type: 1, Days: []int32{baseDay},
			Samples: []mSample{{Ms: h.Start + 5, V: 0}}})
	}
	target := pick(r, sc.Series).Labels
	for try := 0; ; try++ {
		sc.Matchers = nil
		for i := 1 + r.Intn(3); i > 0; i-- {
			m := genPlainMatcher(r, common, vals)
			for k := 0; k < 30 && !promMatch(m, target) && r.Intn(4) != 0; k++ {
				m = genPlainMatcher(r, common, vals)
			}
			sc.Matchers = append(sc.Matchers, m)
		}
		if len(setFeatures(sc.Matchers, sets)) == 0 || try > 50 {
			break
		}
	}
	return sc
}

type handed struct {
	labels  map[string]string
	samples []mSample
}

func runSelect(sc *selCase, reg *sqldrv.Registry, sess *sqldrv.Session, cur **chsql.DB, und *string) (out []handed, sqls []string, err error) {
	db := chsql.QrynSchema(sc.Cluster)
	fillMetrics(db, sc.Series)
	*cur, *und = db, ""
	cl := ""
	if sc.Cluster {
		cl = "c1"
	}
	reg.Use(sess, cl)
	from := sess.LogLen()
	ms, err := toPromMatchers(sc.Matchers)
	if err != nil {
		return nil, nil, err
	}
	ctx := context.Background()
	q := (&rservice.CLokiQueriable{ServiceData: rmodel.ServiceData{Session: reg}}).SetOidAndDB(ctx)
	querier, err := q.Querier(ctx, sc.Hints.Start, sc.Hints.End)
	if err != nil {
		return nil, nil, err
	}
	h := &storage.SelectHints{Start: sc.Hints.Start, End: sc.Hints.End, Step: sc.Hints.Step, Range: sc.Hints.Range, Func: sc.Hints.Func}
	ss := querier.Select(false, h, ms...)
	for _, st := range sess.Statements(from) {
		sqls = append(sqls, st.SQL)
	}
	if ss.Err() != nil {
		return nil, sqls, ss.Err()
	}
	for ss.Next() {
		s := ss.At()
		hd := handed{labels: map[string]string{}}
		for _, l := range s.Labels() {
			hd.labels[l.Name] = l.Value
		}
		it := s.Iterator()
		for it.Next() {
			t, v := it.At()
			hd.samples = append(hd.samples, mSample{Ms: t, V: v})
		}
		out = append(out, hd)
	}
	return out, sqls, ss.Err()
}

// judgeSelect returns the first rule the hand-over breaks.
func judgeSelect(sc *selCase, out []handed) (sig, desc string, compared int, probe bool) {
	h := sc.Hints
	preagg := h.Step != 0 && instantFuncs[h.Func]
	filtered := h.Step != 0 && rangeFuncs[h.Func] && h.Step > h.Range
	mode := "raw"
	if preagg {
		mode = "step-buckets"
	} else if filtered {
		mode = "step>range"
	}
	byKey := map[string]*mSeries{}
	for _, s := range sc.Series {
		if s.isMetric() {
			byKey[labelsKey(s.Labels)] = s
		}
	}
	seen := map[string]bool{}
	for _, hd := range out {
		k := labelsKey(hd.labels)
		if sc.Twins != "" && k == sc.Twins {
			probe = true // two fingerprints under one label set: not judged
			continue
		}
		if seen[k] {
			return "select/" + mode + "/series-handed-twice", fmt.Sprintf("label set %s is handed over twice", k), compared, probe
		}
		seen[k] = true
		s := byKey[k]
		if s == nil {
			return "select/" + mode + "/foreign-label-set", fmt.Sprintf("a series is handed over under label set %s, which no stored metric series has", k), compared, probe
		}
		if !promMatchAll(sc.Matchers, s.Labels) {
			return "select/" + mode + "/series-extra", fmt.Sprintf("series %s is handed over although it does not satisfy %s", k, matchersString(sc.Matchers)), compared, probe
		}
		for i, p := range hd.samples {
			if i > 0 && p.Ms < hd.samples[i-1].Ms {
				return "select/" + mode + "/samples-not-ascending", fmt.Sprintf("series %s: sample %d has t=%d after t=%d", k, i, p.Ms, hd.samples[i-1].Ms), compared, probe
			}
			lo, hi := h.Start, h.End
			if preagg { // bucket end times: allow the bucket that contains End
				hi = h.End + h.Step - 1
			}
			if p.Ms < lo || p.Ms > hi {
				return "select/" + mode + "/sample-outside-range", fmt.Sprintf("series %s: sample t=%d lies outside the requested range [%d, %d]", k, p.Ms, h.Start, h.End), compared, probe
			}
		}
		compared++
		if mode == "step-buckets" {
			continue
		}
		// stored samples inside (Start, End]; a sample exactly at Start is a probe
		var want []mSample
		for _, p := range s.Samples {
			if p.Ms == h.Start {
				probe = true
			}
			if p.Ms > h.Start && p.Ms <= h.End {
				want = append(want, p)
			}
		}
		got := append([]mSample{}, hd.samples...)
		if n := len(got); n > 0 {
			f := got[:0]
			for _, p := range got {
				if p.Ms != h.Start {
					f = append(f, p)
				}
			}
			got = f
		}
		norm := func(x []mSample) string {
			y := append([]mSample{}, x...)
			sort.SliceStable(y, func(i, j int) bool {
				if y[i].Ms != y[j].Ms {
					return y[i].Ms < y[j].Ms
				}
				return y[i].V < y[j].V
			})
			return fmt.Sprint(y)
		}
		if mode == "raw" && norm(got) != norm(want) {
			return "select/raw/samples-differ", fmt.Sprintf("series %s: handed samples %s, stored samples inside (%d, %d] are %s", k, clip(norm(got), 300), h.Start, h.End, clip(norm(want), 300)), compared, probe
		}
		if mode == "step>range" {
			have := map[mSample]int{}
			for _, p := range want {
				have[p]++
			}
			for _, p := range got {
				if have[p] == 0 {
					return "select/step>range/foreign-sample", fmt.Sprintf("series %s: handed sample %+v is not a stored sample inside the range", k, p), compared, probe
				}
				have[p]--
			}
		}
	}
	// every matching series with a sample inside the range must be handed over
	for k, s := range byKey {
		if seen[k] || !promMatchAll(sc.Matchers, s.Labels) || (sc.Twins != "" && k == sc.Twins) {
			continue
		}
		in, edge := 0, false
		for _, p := range s.Samples {
			if p.Ms > h.Start && p.Ms <= h.End {
				in++
			}
			edge = edge || p.Ms == h.Start
		}
		if in == 0 {
			if edge {
				probe = true
			}
			continue
		}
		if mode == "step>range" {
			continue // which samples survive the step filter is judged end to end (promql monitor)
		}
		return "select/" + mode + "/series-missing", fmt.Sprintf("series %s satisfies %s and has %d samples inside (%d, %d] but is not handed over", k, matchersString(sc.Matchers), in, h.Start, h.End), compared, probe
	}
	return "", "", compared, probe
}

func childSelect(c *run.Ctx, cfg childCfg) {
	var curDB *chsql.DB
	var und string
	sess := sqldrv.NewSession("c17-select", func(ctx context.Context, q string) (*sqldrv.Rows, error) {
		return execOn(curDB, q, &und)
	})
	reg := sqldrv.NewRegistry(sess, "")
	sqldrv.StartReader(reg, "") // sets the reader configuration the services read
	decided := 0
	for i := 0; i < cfg.N; i++ {
		gi := cfg.Start + i
		r := c.Rng(fmt.Sprintf("c17/select/%d", gi))
		sc := genSelCase(r, gi)
		h := sc.Hints
		aligned := h.Start%15000 == 0
		fclass := "other"
		switch {
		case h.Func == "":
			fclass = "none"
		case instantFuncs[h.Func]:
			fclass = "instant-func"
		case noDownsample[h.Func]:
			fclass = "range-func-no-downsample"
		case rangeFuncs[h.Func]:
			fclass = "range-func"
		default:
			fclass = "aggregation"
		}
		key := fmt.Sprintf("select/%s/step=%d/aligned=%v/func=%s/range-vs-step=%s/cluster=%v", h.Class, h.Step, aligned, fclass,
			map[bool]string{true: "lt", false: "ge"}[h.Range < h.Step], sc.Cluster)
		c.BeginCase(gi, map[string]any{"monitor": "select", "case": sc})
		c.Case(key)
		if gi < 1 {
			c.Sample(map[string]any{"monitor": "select", "hints": h, "matchers": matchersString(sc.Matchers), "series": len(sc.Series)})
		}
		out, sqls, err := runSelect(&sc, reg, sess, &curDB, &und)
		c.EndCase(gi)
		if und != "" {
			c.Undecided("select: " + clip(und, 120))
			continue
		}
		if err != nil {
			c.Violation("select/error/"+h.Class, fmt.Sprintf("Select(%s, hints %+v) failed: %v", matchersString(sc.Matchers), h, err), map[string]any{"monitor": "select", "case": sc, "sql": sqls})
			decided++
			continue
		}
		raw := false
		for _, q := range sqls {
			if strings.Contains(q, "metrics_15s") {
				raw = false
				break
			}
			raw = raw || strings.Contains(q, "samples_v3")
		}
		if !raw {
			c.Undecided("select: hints did not select the raw-sample path")
			continue
		}
		sig, desc, compared, probe := judgeSelect(&sc, out)
		decided++
		c.Floor("select: series handed over and compared", 0, compared)
		c.Floor("select: hint class "+h.Class, 0, 1)
		c.Cover("select hint class", h.Class, 1)
		if probe {
			c.Event("select: probe (a sample exactly on hints.Start; not judged)", 1)
		}
		if sig != "" {
			c.Event("select: disagreements", 1)
			c.Cover("select mismatch kinds", sig, 1)
			c.Violation(sig, fmt.Sprintf("Select(%s, start=%d end=%d step=%d range=%d func=%q): %s (reader/service/promQueryable.go Select; reader/promql/transpiler/transpiler.go)",
				matchersString(sc.Matchers), h.Start, h.End, h.Step, h.Range, h.Func, desc),
				map[string]any{"monitor": "select", "case": sc, "sql": sqls, "handed": fmt.Sprint(out)})
		}
	}
	c.Floor("select: cases decided", 0, decided)
}

var _ = run.Scratch
