package c17

import (
	"database/sql/driver"
	"encoding/json"
	"fmt"
	"math/rand"
	"regexp"
	"sort"
	"strings"

	"verif/harness/engines/chsql"
)

// ---- abstract databases ----------------------------------------------------------------------

const (
	baseSec = int64(1700000010) // 2023-11-14T22:13:30Z, a multiple of 15 s
	baseDay = int32(19675)      // toDate(baseSec)
)

type mSample struct {
	Ms int64   `json:"ms"` // timestamp in milliseconds (stored as Ms*1e6 ns)
	V  float64 `json:"v"`
}

type mSeries struct {
	FP      uint64            `json:"fp"`
	Labels  map[string]string `json:"labels"`
	Type    uint8             `json:"type"` // 2 metric, 0 both, 1 log stream (noise)
	Days    []int32           `json:"days"` // dates of the series rows
	Samples []mSample         `json:"samples"`
}

func (s *mSeries) isMetric() bool { return s.Type == 2 || s.Type == 0 }

func labelNames(m map[string]string) []string {
	ns := make([]string, 0, len(m))
	for k := range m {
		ns = append(ns, k)
	}
	sort.Strings(ns)
	return ns
}

func labelsKey(m map[string]string) string {
	var sb strings.Builder
	for _, n := range labelNames(m) {
		if m[n] == "" {
			continue // an empty value is an absent label in the Prometheus data model
		}
		fmt.Fprintf(&sb, "%s=%q,", n, m[n])
	}
	return sb.String()
}

// labelsJSON renders the label document as the writer stores it (a flat JSON object).
func labelsJSON(m map[string]string) string {
	var sb strings.Builder
	sb.WriteByte('{')
	for i, n := range labelNames(m) {
		if i > 0 {
			sb.WriteByte(',')
		}
		k, _ := json.Marshal(n)
		v, _ := json.Marshal(m[n])
		sb.Write(k)
		sb.WriteByte(':')
		sb.Write(v)
	}
	sb.WriteByte('}')
	return sb.String()
}

// fillMetrics fills time_series, time_series_gin (what the materialized view time_series_gin_view
// derives: one row per (series row, label pair), carrying date, fingerprint and type) and samples_v3.
func fillMetrics(db *chsql.DB, series []*mSeries) {
	ts, gin, sm := db.Tables["time_series"], db.Tables["time_series_gin"], db.Tables["samples_v3"]
	for _, s := range series {
		doc := labelsJSON(s.Labels)
		for _, d := range s.Days {
			ts.Rows = append(ts.Rows, []chsql.Value{chsql.Date(d), s.FP, doc, "", s.Type})
			for _, n := range labelNames(s.Labels) {
				gin.Rows = append(gin.Rows, []chsql.Value{chsql.Date(d), n, s.Labels[n], s.FP, s.Type})
			}
		}
		for _, p := range s.Samples {
			sm.Rows = append(sm.Rows, []chsql.Value{s.FP, p.Ms * 1000000, p.V, "", s.Type})
		}
	}
}

var (
	labelPool = []string{"__name__", "job", "instance", "env", "zone", "le", "path", "x9"}
	valuePool = []string{"a", "b", "ab", "ba", "abc", "a.b", "A", "1"}
)

func pick[T any](r *rand.Rand, xs []T) T { return xs[r.Intn(len(xs))] }

func randFP(r *rand.Rand, used map[uint64]bool) uint64 {
	for {
		var fp uint64
		switch r.Intn(3) {
		case 0:
			fp = uint64(1 + r.Intn(1000))
		case 1:
			fp = r.Uint64() | 1<<63 // above MaxInt64: exercises the unsigned scan
		default:
			fp = r.Uint64() >> 1
		}
		if fp != 0 && !used[fp] {
			used[fp] = true
			return fp
		}
	}
}

// genMetricSeries builds 1..8 series. common: labels every metric series carries; optional labels
// are present on some series only. vals: the values in play.
func genMetricSeries(r *rand.Rand, common, optional []string, vals []string, emptyVals bool) []*mSeries {
	n := 1 + r.Intn(8)
	used := map[uint64]bool{}
	seen := map[string]bool{}
	var out []*mSeries
	for i := 0; i < n; i++ {
		s := &mSeries{FP: randFP(r, used), Labels: map[string]string{}, Type: 2, Days: []int32{baseDay}}
		if r.Intn(6) == 0 {
			s.Type = 0
		}
		for try := 0; try < 20; try++ {
			s.Labels = map[string]string{}
			for _, l := range common {
				s.Labels[l] = pick(r, vals)
			}
			for _, l := range optional {
				if r.Intn(2) == 0 {
					s.Labels[l] = pick(r, vals)
					if emptyVals && r.Intn(6) == 0 {
						s.Labels[l] = ""
					}
				}
			}
			// a series that differs from an earlier one in exactly one label
			if i > 0 && r.Intn(3) == 0 {
				p := out[r.Intn(len(out))]
				s.Labels = map[string]string{}
				for k, v := range p.Labels {
					s.Labels[k] = v
				}
				ns := labelNames(s.Labels)
				if len(ns) > 0 {
					k := pick(r, ns)
					s.Labels[k] = pick(r, vals)
				}
			}
			if len(s.Labels) > 0 && !seen[labelsKey(s.Labels)] {
				break
			}
		}
		if len(s.Labels) == 0 || seen[labelsKey(s.Labels)] {
			continue
		}
		seen[labelsKey(s.Labels)] = true
		if r.Intn(5) == 0 {
			s.Days = append(s.Days, baseDay+1) // the series was also seen on the next day
		}
		out = append(out, s)
	}
	if len(out) == 0 {
		s := &mSeries{FP: randFP(r, used), Labels: map[string]string{}, Type: 2, Days: []int32{baseDay}}
		for _, l := range common {
			s.Labels[l] = pick(r, vals)
		}
		if len(s.Labels) == 0 {
			s.Labels["job"] = pick(r, vals)
		}
		out = append(out, s)
	}
	return out
}

// ---- matchers and the Prometheus evaluator -----------------------------------------------------

type pmatcher struct {
	Name string `json:"name"`
	Op   string `json:"op"`
	Val  string `json:"val"`
}

func (m pmatcher) String() string { return fmt.Sprintf("%s%s%q", m.Name, m.Op, m.Val) }

func matchersString(ms []pmatcher) string {
	parts := make([]string, len(ms))
	for i, m := range ms {
		parts[i] = m.String()
	}
	return "{" + strings.Join(parts, ",") + "}"
}

var reCache = map[string]*regexp.Regexp{}

func compileRe(p string) *regexp.Regexp {
	if re, ok := reCache[p]; ok {
		return re
	}
	re, err := regexp.Compile(p)
	if err != nil {
		re = nil
	}
	reCache[p] = re
	return re
}

// promMatch is the judged rule (DESIGN appendix E): a matcher is evaluated against the label's
// value, an absent label has the value ""; regular expressions are fully anchored.
func promMatch(m pmatcher, lbls map[string]string) bool {
	v := lbls[m.Name]
	switch m.Op {
	case "=":
		return v == m.Val
	case "!=":
		return v != m.Val
	case "=~":
		return compileRe("^(?:" + m.Val + ")$").MatchString(v)
	default: // !~
		return !compileRe("^(?:" + m.Val + ")$").MatchString(v)
	}
}

func promMatchAll(ms []pmatcher, lbls map[string]string) bool {
	for _, m := range ms {
		if !promMatch(m, lbls) {
			return false
		}
	}
	return true
}

// indexMatch is NOT an oracle: it is the behaviour of a plain key/value index lookup (the label
// must be present; match() is a search). It is only used to name the feature of a matcher that
// explains a disagreement, i.e. to build stable signatures and case classes.
func indexMatch(m pmatcher, lbls map[string]string) bool {
	v, ok := lbls[m.Name]
	if !ok {
		return false
	}
	switch m.Op {
	case "=":
		return v == m.Val
	case "!=":
		return v != m.Val
	case "=~":
		return compileRe(m.Val).MatchString(v)
	default:
		return !compileRe(m.Val).MatchString(v)
	}
}

// matcherFeature names why promMatch and indexMatch differ for (m, labels); "" if they agree.
func matcherFeature(m pmatcher, lbls map[string]string) string {
	if promMatch(m, lbls) == indexMatch(m, lbls) {
		return ""
	}
	_, present := lbls[m.Name]
	opn := map[string]string{"=": "eq", "!=": "neq", "=~": "re", "!~": "nre"}[m.Op]
	if !present {
		switch m.Op {
		case "=":
			return "eq-empty-on-absent-label"
		case "=~":
			return "re-matching-empty-on-absent-label"
		}
		return opn + "-on-absent-label"
	}
	return opn + "-unanchored"
}

var featurePriority = []string{
	"neq-on-absent-label", "nre-on-absent-label", "eq-empty-on-absent-label", "re-matching-empty-on-absent-label",
	"re-unanchored", "nre-unanchored",
}

// setFeatures lists the features present for any (matcher, series) pair.
func setFeatures(ms []pmatcher, sets []map[string]string) []string {
	have := map[string]bool{}
	for _, m := range ms {
		for _, l := range sets {
			if f := matcherFeature(m, l); f != "" {
				have[f] = true
			}
		}
	}
	var out []string
	for _, f := range featurePriority {
		if have[f] {
			out = append(out, f)
		}
	}
	return out
}

// explain returns the feature naming a disagreement on one series.
func explain(ms []pmatcher, lbls map[string]string, kvCount int) string {
	have := map[string]bool{}
	for _, m := range ms {
		if f := matcherFeature(m, lbls); f != "" {
			have[f] = true
		}
	}
	for _, f := range featurePriority {
		if have[f] {
			return f
		}
	}
	if kvCount >= 9 {
		return "nine-or-more-index-matchers"
	}
	return "unexplained"
}

func opsKey(ms []pmatcher) string {
	have := map[string]bool{}
	for _, m := range ms {
		have[m.Op] = true
	}
	var out []string
	for _, o := range []string{"=", "!=", "=~", "!~"} {
		if have[o] {
			out = append(out, o)
		}
	}
	return strings.Join(out, "")
}

// regexes whose anchored and unanchored reading coincide on the value pool, and ones where they differ
var (
	safeRegexes   = []string{"a.*|b.*|A.*|1.*", ".+", "ab|ba|zz", "(a|b|ab|ba|abc)", "[^q]+", "a\\.b|abc|1", ".*"}
	anchorRegexes = []string{"a", "b", "a.", "ab?", "a|b", "a\\.b", "[ab]", "b$", "^a", "A|1", "(?i)a",
		// anchors written by the user inside an alternation bind to the outer branches only
		"^a|b$", "^ab|zz$", "^zz|a$", "^a$|^b$", "^(a|b)$"}
)

// ---- chsql.Value -> driver.Value ---------------------------------------------------------------

func toDriver(v chsql.Value) driver.Value {
	switch x := v.(type) {
	case uint8, uint16, uint32, uint64, int8, int16, int32, int64, float64, string:
		return x
	case chsql.Date:
		return int64(x)
	case chsql.DateTime:
		return int64(x)
	case chsql.Null:
		return nil
	case *chsql.Map:
		m := map[string]string{}
		for i, k := range x.Keys {
			m[fmt.Sprint(k)] = fmt.Sprint(x.Vals[i])
		}
		return m
	case chsql.Tuple:
		out := make([]any, len(x))
		for i, e := range x {
			out[i] = toDriver(e)
		}
		return out
	case chsql.Array:
		// Array(Tuple(..)) -> [][]any ; Array(String) -> []string ; otherwise []any
		allTuple, allString := len(x) > 0, len(x) > 0
		for _, e := range x {
			if _, ok := e.(chsql.Tuple); !ok {
				allTuple = false
			}
			if _, ok := e.(string); !ok {
				allString = false
			}
		}
		switch {
		case len(x) == 0:
			return [][]any{}
		case allTuple:
			out := make([][]any, len(x))
			for i, e := range x {
				out[i] = toDriver(e).([]any)
			}
			return out
		case allString:
			out := make([]string, len(x))
			for i, e := range x {
				out[i] = e.(string)
			}
			return out
		}
		out := make([]any, len(x))
		for i, e := range x {
			out[i] = toDriver(e)
		}
		return out
	}
	return fmt.Sprint(v)
}
