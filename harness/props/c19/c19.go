// Package c19: retention settings converge to the configuration and re-applying them is a
// no-op (DESIGN §3 C19). The real maintenance.Rotate runs against E-CAT on a catalogue that
// the real maintenance.Update created.
package c19

import (
	"context"
	"encoding/json"
	"errors"
	"fmt"
	"math"
	"math/rand"
	"os"
	"runtime"
	"runtime/debug"
	"sort"
	"strconv"
	"strings"
	"sync"
	"time"

	clconfig "github.com/metrico/cloki-config"
	"github.com/metrico/cloki-config/config"
	"github.com/metrico/qryn/ctrl"
	"github.com/metrico/qryn/ctrl/logger"
	"github.com/metrico/qryn/ctrl/qryn/heputils"
	"github.com/metrico/qryn/ctrl/qryn/maintenance"

	"verif/harness/engines/cat"
	"verif/harness/engines/chtcp"
	"verif/harness/engines/run"
	"verif/harness/props/reg"
)

func init() {
	reg.Register(&reg.Prop{ID: "C19", Level: "fault_enumeration", Main: Main, Replay: Replay})
}

const dbName = "qryn"
const clusterName = "qcl"

// Tier is one ttl_policy entry (cloki-config TTLPolicy{Timeout, MoveTo}).
type Tier struct {
	Seconds float64 `json:"seconds"`
	Disk    string  `json:"disk"`
}

// Cfg is a retention configuration.
type Cfg struct {
	TTLDays int    `json:"ttl_days"`
	Tiers   []Tier `json:"tiers"`
	Policy  string `json:"storage_policy"`
}

// Scenario: a deployment and a sequence of configurations, one per process start.
type Scenario struct {
	Clustered bool  `json:"clustered"`
	Cloud     bool  `json:"cloud"`
	Cfgs      []Cfg `json:"configs"`
	// PlainDefault: the server's default storage policy holds only the disk "default" (a table can be moved to
	// another disk only once it is on a configured policy that holds it); false = the default policy holds every disk
	PlainDefault bool `json:"plain_default,omitempty"`
}

var allDisks = []string{"default", "cold", "warm", "s3"}

func (s *Scenario) policies() map[string][]string {
	p := map[string][]string{"default": allDisks, "tiered": allDisks, "archive": allDisks}
	if s.PlainDefault {
		p["default"] = []string{"default"}
	}
	return p
}

func (c Cfg) String() string {
	var ts []string
	for _, t := range c.Tiers {
		ts = append(ts, fmt.Sprintf("%s->%s", time.Duration(t.Seconds*float64(time.Second)), t.Disk))
	}
	return fmt.Sprintf("{ttl_days=%d tiers=[%s] storage_policy=%q}", c.TTLDays, strings.Join(ts, ","), c.Policy)
}

func (c Cfg) policies() []maintenance.RotatePolicy {
	out := make([]maintenance.RotatePolicy, len(c.Tiers))
	for i, t := range c.Tiers {
		out[i] = maintenance.RotatePolicy{TTL: time.Duration(t.Seconds * float64(time.Second)), MoveTo: t.Disk}
	}
	return out
}

var (
	durations = []float64{1, 59, 3600, 91800, 129600, 360000, 100 * 86400, 100 * 365 * 86400} // 1s 59s 1h 25h30m 36h 100h 100d 100y
	disks     = []string{"cold", "warm", "s3"}
	ttlDays   = []int{1, 7, 365}
	policiesL = []string{"", "tiered", "archive"}
)

func genCfg(r *rand.Rand) Cfg {
	c := Cfg{TTLDays: ttlDays[r.Intn(3)], Policy: policiesL[r.Intn(3)]}
	if r.Intn(3) == 0 {
		c.Policy = ""
	}
	n := r.Intn(4)
	for i := 0; i < n; i++ {
		c.Tiers = append(c.Tiers, Tier{durations[r.Intn(len(durations))], disks[r.Intn(len(disks))]})
	}
	return c
}

func genScenario(r *rand.Rand) Scenario {
	s := Scenario{Clustered: r.Intn(2) == 0, Cloud: r.Intn(3) == 0}
	n := 1 + r.Intn(4)
	for i := 0; i < n; i++ {
		switch {
		case i >= 2 && r.Intn(3) == 0:
			s.Cfgs = append(s.Cfgs, s.Cfgs[r.Intn(i-1)]) // revert to an earlier configuration
		case i >= 1 && r.Intn(2) == 0:
			// change one aspect only
			c := s.Cfgs[i-1]
			c.Tiers = append([]Tier(nil), c.Tiers...)
			switch r.Intn(3) {
			case 0:
				c.TTLDays = ttlDays[r.Intn(3)]
			case 1:
				c.Policy = policiesL[r.Intn(3)]
			default:
				c.Tiers = genCfg(r).Tiers
			}
			s.Cfgs = append(s.Cfgs, c)
		default:
			s.Cfgs = append(s.Cfgs, genCfg(r))
		}
	}
	if r.Intn(2) == 0 {
		// a server whose default policy has one disk: tier moves need a configured storage policy
		s.PlainDefault = true
		for i := range s.Cfgs {
			if s.Cfgs[i].Policy == "" {
				s.Cfgs[i].Tiers = nil
			}
		}
	}
	return s
}

// fixed scenarios present under every seed
func fixedScenarios() []Scenario {
	oneTier := Cfg{TTLDays: 7, Tiers: []Tier{{3600, "cold"}}, Policy: "tiered"}
	return []Scenario{
		{Cfgs: []Cfg{oneTier}},
		{Clustered: true, Cloud: true, Cfgs: []Cfg{oneTier}},
		{Cfgs: []Cfg{{TTLDays: 7}}},
		{Clustered: true, Cfgs: []Cfg{{TTLDays: 365}}},
		{Cfgs: []Cfg{{TTLDays: 1, Tiers: []Tier{{1, "cold"}, {59, "warm"}}}}},
		{Cfgs: []Cfg{{TTLDays: 7, Tiers: []Tier{{100 * 365 * 86400, "s3"}}}}},
		{Cfgs: []Cfg{{TTLDays: 7, Tiers: []Tier{{100 * 86400, "cold"}}, Policy: "tiered"}, {TTLDays: 1, Tiers: []Tier{{100 * 86400, "cold"}}, Policy: "tiered"}}},
		{Cfgs: []Cfg{{TTLDays: 7}, {TTLDays: 365}, {TTLDays: 7}}},
		{Clustered: true, Cfgs: []Cfg{{TTLDays: 7}, {TTLDays: 7, Policy: "tiered"}, {TTLDays: 7, Policy: "archive"}, {TTLDays: 7}}},
		{PlainDefault: true, Cfgs: []Cfg{{TTLDays: 7}, oneTier}},
		{PlainDefault: true, Clustered: true, Cfgs: []Cfg{{TTLDays: 7}, {TTLDays: 7, Policy: "archive"}, {TTLDays: 30, Tiers: []Tier{{86400, "s3"}, {7200, "warm"}}, Policy: "archive"}}},
	}
}

// ---------------------------------------------------------------------------------------
// What the property statement requires of a table, from the configuration alone.

var sampleTables = map[string]bool{"samples_v3": true, "tempo_traces": true, "metrics_15s": true, "profiles": true}
var indexTables = map[string]bool{"time_series": true, "time_series_gin": true, "tempo_traces_attrs_gin": true, "tempo_traces_kv": true,
								"profiles_series": true, "profiles_series_gin": true, "profiles_series_keys": true}
var metaTables = map[string]bool{"ver": true, "settings": true} // bookkeeping, not data

type want struct {
	Seconds int64
	Action  string
	Dest    string
}

func (w want) String() string {
	if w.Action == "delete" {
		return fmt.Sprintf("delete after %ds", w.Seconds)
	}
	return fmt.Sprintf("to %s '%s' after %ds", w.Action, w.Dest, w.Seconds)
}

func required(cfg Cfg, minSeconds int64) []want {
	var out []want
	for _, t := range cfg.Tiers {
		s := int64(math.Round(t.Seconds))
		if s < minSeconds {
			s = minSeconds // "tier moves never earlier than one minute / one day"
		}
		out = append(out, want{s, "disk", t.Disk})
	}
	out = append(out, want{int64(cfg.TTLDays) * 86400, "delete", ""})
	sortWants(out)
	return out
}

func sortWants(w []want) {
	sort.Slice(w, func(i, j int) bool {
		if w[i].Seconds != w[j].Seconds {
			return w[i].Seconds < w[j].Seconds
		}
		if w[i].Action != w[j].Action {
			return w[i].Action < w[j].Action
		}
		return w[i].Dest < w[j].Dest
	})
}

type finding struct {
	Table, Rule string
	desc        func() string
}

func (f finding) Desc() string { return f.desc() }

// checkState compares every data table of the catalogue with the configuration.
func checkState(st *cat.Catalogue, cfg Cfg) (fs []finding, undecided []string) {
	for _, name := range st.Names(dbName) {
		o := st.Get(dbName, name)
		if o.Kind != cat.KMergeTree || metaTables[name] {
			continue
		}
		var min int64
		switch {
		case sampleTables[name]:
			min = 60
		case indexTables[name]:
			min = 86400
		default:
			undecided = append(undecided, "data table "+name+" is neither a known sample nor index table")
			continue
		}
		exp := required(cfg, min)
		if len(o.TTL) == 0 {
			fs = append(fs, finding{name, "ttl-unset", func() string {
				return fmt.Sprintf("table %s has no TTL at all; configuration %s requires [%s]", name, cfg, joinWants(exp))
			}})
		} else {
			var got []want
			unknown := ""
			for _, it := range o.TTL {
				if !it.Known {
					unknown = it.Text
				}
				got = append(got, want{it.Seconds, it.Action, it.Dest})
			}
			if unknown != "" {
				undecided = append(undecided, "TTL element cannot be evaluated: "+unknown)
			} else {
				sortWants(got)
				if !sameWants(got, exp) {
					rule := "ttl-mismatch"
					for _, g := range got {
						if g.Action != "delete" && g.Seconds < min {
							rule = "tier-below-minimum"
						}
					}
					if rule == "ttl-mismatch" {
						for _, e := range exp {
							if e.Seconds > math.MaxInt32 {
								rule = "tier-overflow-int32"
							}
						}
					}
					fs = append(fs, finding{name, rule, func() string {
						return fmt.Sprintf("table %s has TTL [%s] (%s); configuration %s requires [%s]", name, joinWants(got), o.TTLText, cfg, joinWants(exp))
					}})
				}
			}
		}
		if cfg.Policy != "" && o.StoragePolicy() != cfg.Policy {
			fs = append(fs, finding{name, "storage-policy-mismatch", func() string {
				return fmt.Sprintf("table %s has storage policy %q; configured %q", name, o.StoragePolicy(), cfg.Policy)
			}})
		}
	}
	return
}

func sameWants(a, b []want) bool {
	if len(a) != len(b) {
		return false
	}
	for i := range a {
		if a[i] != b[i] {
			return false
		}
	}
	return true
}

func joinWants(w []want) string {
	s := make([]string, len(w))
	for i := range w {
		s[i] = w[i].String()
	}
	return strings.Join(s, "; ")
}

// ---------------------------------------------------------------------------------------
// Marker groups (rotate.go Rotate): which tables a settings row of type 'rotate' speaks for.

type group struct {
	kind   string // ttl | policy | both
	tables []string
}

var groups = map[string]group{
	"v3_storage_policy":        {"policy", []string{"time_series", "time_series_gin", "samples_v3"}},
	"v1_traces_storage_policy": {"policy", []string{"tempo_traces", "tempo_traces_attrs_gin", "tempo_traces_kv"}},
	"metrics_15s":              {"both", []string{"metrics_15s"}},
	"v3_samples_days":          {"ttl", []string{"samples_v3"}},
	"v3_time_series_days":      {"ttl", []string{"time_series", "time_series_gin"}},
	"v1_traces_days":           {"ttl", []string{"tempo_traces"}},
	"tempo_attrs_v1":           {"ttl", []string{"tempo_traces_attrs_gin", "tempo_traces_kv"}},
}

var fpName = func() map[string]string {
	m := map[string]string{}
	for n := range groups {
		fp := heputils.FingerprintLabelsDJBHashPrometheus([]byte(fmt.Sprintf(`{"type":%q, "name":%q`, "rotate", n)))
		m[fmt.Sprint(fp)] = n
	}
	return m
}()

func markerOf(e *cat.Entry) (name, value string, ok bool) {
	if !e.IsVersionWrite() || e.Stmt.Name.Name != "settings" {
		return
	}
	for i, c := range e.Stmt.Cols {
		switch c {
		case "name":
			name = e.Stmt.Rows[0][i].Str
		case "value":
			value = e.Stmt.Rows[0][i].Str
		}
	}
	return name, value, true
}

// ---------------------------------------------------------------------------------------

type rotRun struct {
	cn      *cat.Conn
	err     error
	markers []finding // marker-ahead findings
	unknown []string
	alters  []string // setting name per ALTER statement attempted
	cur     string
	inRun   int // markers whose tables were all altered earlier in this run
	earlier int // markers justified by alters of an earlier run
}

func (s *Scenario) cluster() string {
	if s.Clustered {
		return clusterName
	}
	return ""
}

func (s *Scenario) mode() int {
	m := maintenance.CLUST_MODE_SINGLE
	if s.Cloud {
		m = maintenance.CLUST_MODE_CLOUD
	}
	if s.Clustered {
		m |= maintenance.CLUST_MODE_DISTRIBUTED
	}
	return m
}

func runRotate(st *cat.Catalogue, s *Scenario, cfg Cfg, f *cat.Fault, learned map[string][]string) (r *rotRun) {
	r = &rotRun{cn: cat.NewConn(st, dbName, f)}
	altered := map[string]map[string]bool{} // table -> value applied in this run
	r.cn.OnApplied = func(e *cat.Entry, c *cat.Catalogue) {
		if e.Stmt.Verb == cat.VAlter {
			for _, a := range e.Stmt.Actions {
				v := ""
				if a.Kind == "modify_ttl" {
					v = "ttl:" + a.TTLText
				} else if a.Kind == "modify_setting" {
					for _, kv := range a.Settings {
						if kv[0] == "storage_policy" {
							v = "policy:" + kv[1]
						}
					}
				}
				if v != "" {
					if altered[e.Stmt.Name.Name] == nil {
						altered[e.Stmt.Name.Name] = map[string]bool{}
					}
					altered[e.Stmt.Name.Name][v] = true
				}
			}
			return
		}
		name, value, ok := markerOf(e)
		if !ok {
			return
		}
		if value == "" {
			return // an empty value records nothing as applied (it can only force the next run to re-apply)
		}
		ttlCanon := cat.Normalize(value)
		g, known := groups[name]
		if !known {
			// a group the oracle has no table list for: its tables are those the code altered
			// to the marker's value before writing it, the first time the marker is seen
			tables, ok := learned[name]
			if !ok {
				for t, vals := range altered {
					if vals["ttl:"+ttlCanon] || vals["policy:"+value] {
						tables = append(tables, t)
					}
				}
				sort.Strings(tables)
				if len(tables) == 0 {
					idx := e.Index
					r.markers = append(r.markers, finding{name, "marker-before-alter", func() string {
						return fmt.Sprintf("marker ('rotate','%s') = %q was written at statement %d although no table had been altered to it in this run (group unknown to the oracle)", name, value, idx)
					}})
					return
				}
				learned[name] = tables
				r.unknown = append(r.unknown, name+"="+strings.Join(tables, "+"))
			}
			g = group{"both", tables}
		}
		allInRun := true
		for _, t := range g.tables {
			o := c.Get(dbName, t)
			if o == nil {
				r.markers = append(r.markers, finding{name, "marker-before-alter", func() string {
					return fmt.Sprintf("marker ('rotate','%s') written but table %s does not exist", name, t)
				}})
				continue
			}
			okTTL := o.TTLText == ttlCanon
			okPol := o.StoragePolicy() == value
			good := (g.kind == "ttl" && okTTL) || (g.kind == "policy" && okPol) || (g.kind == "both" && (okTTL || okPol))
			if !good {
				idx := e.Index
				r.markers = append(r.markers, finding{name, "marker-before-alter", func() string {
					return fmt.Sprintf("marker ('rotate','%s') = %q was written at statement %d while table %s of its group had not been altered to it (TTL %q, storage policy %q)",
						name, value, idx, t, o.TTLText, o.StoragePolicy())
				}})
			}
			if !altered[t]["ttl:"+ttlCanon] && !altered[t]["policy:"+value] {
				allInRun = false
			}
		}
		if allInRun {
			r.inRun++
		} else {
			r.earlier++
		}
	}
	func() {
		defer func() {
			if p := recover(); p != nil {
				r.err = fmt.Errorf("panic in Rotate: %v", p)
			}
		}()
		r.err = maintenance.Rotate(r.cn, s.cluster(), s.Clustered, cfg.policies(), cfg.TTLDays, cfg.Policy, cat.NoLog{})
	}()
	// attribute statements to settings
	cur := "?"
	for _, e := range r.cn.Log {
		if e.Stmt == nil || e.Err == cat.ErrDead {
			continue
		}
		switch e.Stmt.Verb {
		case cat.VSelectSet:
			if n, ok := fpName[e.Stmt.Arg]; ok {
				cur = n
			} else {
				cur = "fp" + e.Stmt.Arg
			}
		case cat.VAlter:
			r.alters = append(r.alters, cur)
		}
		if e.Injected != "" {
			r.cur = cur
		}
	}
	return r
}

func runUpdate(st *cat.Catalogue, s *Scenario, cfg Cfg) error {
	cn := cat.NewConn(st, dbName, nil)
	err := maintenance.Update(cn, dbName, s.cluster(), s.mode(), cfg.TTLDays, cfg.Policy, "", false, cat.NoLog{})
	if err == nil && len(cn.Unmodelled) > 0 {
		err = fmt.Errorf("unmodelled: %s", cn.Unmodelled[0])
	}
	return err
}

type viol struct {
	Sig, Desc string
	Replay    any
}

type caseRec struct {
	key string
}

type result struct {
	cases     []string
	viols     []viol
	undecided []string
	events    map[string]int
	cover     map[string]int
	stmts     []int
	sample    any
}

type replayCase struct {
	Scenario Scenario   `json:"scenario"`
	Step     int        `json:"step"`
	Fault    *cat.Fault `json:"fault,omitempty"`
	Then     string     `json:"then,omitempty"`
}

var initCache sync.Map // deployment+policy -> *cat.Catalogue after Update on an empty database

func initialState(s *Scenario, cfg Cfg) (*cat.Catalogue, error) {
	key := fmt.Sprintf("%v/%v/%s/%v", s.Clustered, s.Cloud, cfg.Policy, s.PlainDefault)
	if v, ok := initCache.Load(key); ok {
		return v.(*cat.Catalogue).Clone(), nil
	}
	st := cat.New(dbName)
	st.Policies = s.policies()
	if err := runUpdate(st, s, cfg); err != nil {
		return nil, err
	}
	initCache.Store(key, st.Clone())
	return st, nil
}

func markerKind(setting string) string {
	if g, ok := groups[setting]; ok && g.kind == "policy" {
		return "storage-policy-marker"
	}
	return "ttl-marker"
}

// evalScenario runs one scenario with all its fault points.
func evalScenario(sc Scenario) *result {
	res := &result{events: map[string]int{}, cover: map[string]int{}}
	seen := map[string]bool{}
	// one witness per signature and scenario; descriptions are only built for those
	v := func(sig string, desc func() string, rc replayCase) {
		if !seen[sig] {
			seen[sig] = true
			res.viols = append(res.viols, viol{sig, desc(), rc})
		}
	}
	learned := map[string][]string{}
	st, err := initialState(&sc, sc.Cfgs[0])
	if err != nil {
		res.undecided = append(res.undecided, "Update on an empty database failed: "+err.Error())
		res.cases = append(res.cases, "")
		return res
	}
	depl := "single"
	if sc.Clustered {
		depl = "clustered"
	}
	for step, cfg := range sc.Cfgs {
		// process start: Init (Update) then Rotate, as /repo/main.go initDB does
		if err := runUpdate(st, &sc, cfg); err != nil {
			res.undecided = append(res.undecided, "Update on the existing database failed: "+err.Error())
			res.cases = append(res.cases, "")
			return res
		}
		before := st
		ref := before.Clone()
		rr := runRotate(ref, &sc, cfg, nil, learned)
		rcRef := replayCase{Scenario: sc, Step: step}
		res.cases = append(res.cases, fmt.Sprintf("%s|uninterrupted|tiers%d|policy%v|step%d", depl, len(cfg.Tiers), cfg.Policy != "", min(step, 1)))
		res.stmts = append(res.stmts, len(rr.cn.Log))
		res.events["rotate_runs"]++
		res.events["markers_written_after_alters_of_same_run"] += rr.inRun
		if len(rr.cn.Unmodelled) > 0 {
			res.undecided = append(res.undecided, "unmodelled statement: "+rr.cn.Unmodelled[0])
			return res
		}
		for _, u := range rr.unknown {
			res.cover["learned-group/"+u]++
		}
		if rr.err != nil {
			v("rotate/uninterrupted-fails", func() string { return fmt.Sprintf("Rotate with %s fails without any fault: %v", cfg, rr.err) }, rcRef)
			return res
		}
		for _, m := range rr.markers {
			v(m.Table+"/"+m.Rule, func() string { return m.Desc() + " — uninterrupted run, " + cfg.String() }, rcRef)
		}
		// (1) the state after a complete run equals the configuration
		refFind, und := checkState(ref, cfg)
		res.undecided = append(res.undecided, und...)
		for _, f := range refFind {
			sig := f.Table + "/" + f.Rule
			if f.Rule == "tier-overflow-int32" {
				sig = "ttl_policy/" + f.Rule // one code path (rotateTables) for every table
			}
			v(sig, func() string {
				return f.Desc() + fmt.Sprintf(" — after an uninterrupted Update+Rotate (step %d of the scenario)", step)
			}, rcRef)
		}
		refCanon := ref.Canon()
		// (2) unchanged configuration: no ALTER
		again := runRotate(ref.Clone(), &sc, cfg, nil, learned)
		res.events["rotate_runs"]++
		if again.err != nil {
			v("rotate/rerun-fails", func() string { return fmt.Sprintf("second Rotate with unchanged %s fails: %v", cfg, again.err) }, rcRef)
		}
		for _, a := range uniq(again.alters) {
			v(a+"/rerun-alter", func() string {
				return fmt.Sprintf("a second run with unchanged configuration %s issued %d ALTER statement(s), among them for setting '%s'", cfg, len(again.alters), a)
			}, rcRef)
		}
		if len(again.alters) == 0 {
			res.events["reruns_without_alter"]++
		} else {
			res.events["reruns_with_alter"]++
		}
		rerunAlters := strings.Join(again.alters, ",")
		// what a clean history shows for the next configuration (reported at the next step)
		cleanBad := map[string]bool{}
		if step+1 < len(sc.Cfgs) {
			cleanNext := ref.Clone()
			if err := runUpdate(cleanNext, &sc, sc.Cfgs[step+1]); err != nil {
				res.undecided = append(res.undecided, "Update failed: "+err.Error())
				return res
			}
			runRotate(cleanNext, &sc, sc.Cfgs[step+1], nil, learned)
			res.events["rotate_runs"]++
			cf, _ := checkState(cleanNext, sc.Cfgs[step+1])
			for _, x := range cf {
				cleanBad[x.Table+"/"+x.Rule] = true
			}
		}
		// (3) fault at every statement, then restart
		n := len(rr.cn.Log)
		for i := 0; i < n; i++ {
			for _, kind := range cat.Kinds {
				f := cat.Fault{Index: i, Kind: kind}
				fs := before.Clone()
				fr := runRotate(fs, &sc, cfg, &f, learned)
				res.events["rotate_runs"]++
				rc := replayCase{Scenario: sc, Step: step, Fault: &f}
				if !fr.cn.Fired {
					res.cases = append(res.cases, "")
					res.events["fault_points_never_reached"]++
					continue
				}
				res.events["fault_runs"]++
				verb := "?"
				for _, e := range fr.cn.Log {
					if e.Injected != "" && e.Stmt != nil {
						verb = e.Stmt.Verb
						if _, _, ok := markerOf(e); ok {
							verb = "INSERT marker"
						}
					}
				}
				res.cover[kind+"/"+verb]++
				res.cases = append(res.cases, fmt.Sprintf("%s|%s|%s|%s|step%d", depl, kind, verb, fr.cur, min(step, 1)))
				ctx := func() string {
					return fmt.Sprintf(" — %s, step %d, configuration %s, fault %s in the section of setting '%s'", depl, step, cfg, f.String(), fr.cur)
				}
				for _, m := range fr.markers {
					v(m.Table+"/"+m.Rule, func() string { return m.Desc() + ctx() }, rc)
				}
				// (3a) the next run with the same configuration completes the work
				rs := fs.Clone()
				r2 := runRotate(rs, &sc, cfg, nil, learned)
				res.events["rotate_runs"]++
				res.events["markers_written_after_alters_of_same_run"] += r2.inRun
				res.events["markers_justified_by_alters_of_interrupted_run"] += r2.earlier
				for _, m := range r2.markers {
					v(m.Table+"/"+m.Rule, func() string { return m.Desc() + " (restart)" + ctx() }, rc)
				}
				if r2.err != nil {
					v(fr.cur+"/restart-fails", func() string { return fmt.Sprintf("the run after the interrupted one fails: %v", r2.err) + ctx() }, rc)
				} else {
					if c2 := rs.Canon(); c2 != refCanon {
						d := cat.Diff(refCanon, c2)
						if len(d) > 4 {
							d = d[:4]
						}
						v(fr.cur+"/restart-diverges", func() string {
							return "after interruption and restart the state differs from the uninterrupted run's: " + strings.Join(d, " || ") + ctx()
						}, rc)
					} else {
						res.events["restarts_converged"]++
					}
					r3 := runRotate(rs.Clone(), &sc, cfg, nil, learned)
					res.events["rotate_runs"]++
					if a := strings.Join(r3.alters, ","); a != rerunAlters {
						for _, x := range uniq(r3.alters) {
							v(x+"/rerun-alter-after-restart", func() string {
								return fmt.Sprintf("after interruption and restart a further run with unchanged configuration issued ALTERs for %v (an uninterrupted history gives [%s])", r3.alters, rerunAlters) + ctx()
							}, rc)
						}
					}
				}
				// (3b) the configuration changes before the interrupted run is repeated
				if step+1 < len(sc.Cfgs) {
					next := sc.Cfgs[step+1]
					ns := fs.Clone() // (Update with the next configuration does not touch an up-to-date schema: checked once per step above)
					r4 := runRotate(ns, &sc, next, nil, learned)
					res.events["rotate_runs"]++
					res.events["interrupted_then_changed"]++
					rc.Then = "next configuration"
					if r4.err != nil {
						v(fr.cur+"/restart-fails", func() string {
							return fmt.Sprintf("the run with the next configuration %s after the interrupted one fails: %v", next, r4.err) + ctx()
						}, rc)
						continue
					}
					for _, m := range r4.markers {
						v(m.Table+"/"+m.Rule, func() string { return m.Desc() + " (next configuration)" + ctx() }, rc)
					}
					nf, _ := checkState(ns, next)
					for _, x := range nf {
						if cleanBad[x.Table+"/"+x.Rule] {
							continue
						}
						which := "ttl-marker"
						if x.Rule == "storage-policy-mismatch" {
							which = "storage-policy-marker"
						}
						v(which+"/stale-after-interrupted-change", func() string {
							return fmt.Sprintf("a run with %s was interrupted (%s), the next run used %s and completed, yet %s", cfg, f.String(), next, x.Desc()) + ctx()
						}, rc)
					}
				}
			}
		}
		st = ref
	}
	// the whole sequence converged to the last configuration: covered by (1) of the last step
	res.sample = map[string]any{"scenario": sc, "statements_per_step": res.stmts}
	return res
}

func uniq(a []string) []string {
	seen := map[string]bool{}
	var out []string
	for _, x := range a {
		if !seen[x] {
			seen[x] = true
			out = append(out, x)
		}
	}
	return out
}

func parallel[T any, R any](in []T, f func(T) R) []R {
	out := make([]R, len(in))
	n := runtime.NumCPU()
	if n > 16 {
		n = 16
	}
	var wg sync.WaitGroup
	next := 0
	var mu sync.Mutex
	for w := 0; w < n; w++ {
		wg.Add(1)
		go func() {
			defer wg.Done()
			for {
				mu.Lock()
				i := next
				next++
				mu.Unlock()
				if i >= len(in) {
					return
				}
				out[i] = f(in[i])
			}
		}()
	}
	wg.Wait()
	return out
}

func Main(c *run.Ctx) {
	debug.SetGCPercent(400)
	c.SetRule("real maintenance.Update then maintenance.Rotate against E-CAT for each configuration of a scenario (1-4 configurations, one per process start). " +
		"After a complete run every MergeTree data table (all but ver/settings) must have TTL = {tier moves at max(duration, 1 min sample tables / 1 day index tables) to the configured disk, delete after ttl_days} " +
		"(semantic comparison of evaluated intervals) and the configured storage policy if one is configured; a 'rotate' marker may only be written when every table of its group carries the marker's value; " +
		"fault at every statement x {before, after, verwrite} + next run must reach the uninterrupted run's state; a run with unchanged configuration issues no ALTER; " +
		"an interrupted run followed by a run with the next configuration must reach that configuration")
	c.Assume("one catalogue stands for the whole cluster (ON CLUSTER reaches every node)")
	c.Assume("NOW() strictly increases from statement to statement (logical clock): argMax(value, inserted_at) picks the latest INSERT; real NOW() has 1 s resolution, ties are not modelled")
	c.Assume("storage policies tiered and archive hold every disk; the server's default policy holds every disk, or (half of the generated scenarios) only the disk default - then MODIFY TTL ... TO DISK is refused (code 450) for a table that is not on a configured policy, and configurations without a policy have no tier moves. Policy compatibility on MODIFY SETTING and readonly settings are not modelled")
	c.Assume("with no storage policy configured nothing is required of a table's storage policy")
	c.Assume("node lists: every other list goes through the production RotateAll/rotateDB over the native protocol to one fake server (E-CHTCP) per node that executes each statement text on the node's catalogue; result sets are one String/UInt64 column")
	nScen := c.Pick(200, 5000)
	rng := c.Rng("c19-scenarios")
	scen := fixedScenarios()
	for len(scen) < nScen {
		scen = append(scen, genScenario(rng))
	}
	results := parallel(scen, evalScenario)
	cfgs := 0
	stmtHist := map[int]int{}
	for i, r := range results {
		cfgs += len(scen[i].Cfgs)
		for _, k := range r.cases {
			c.Case(k)
		}
		for _, u := range r.undecided {
			c.Undecided(u)
		}
		for _, v := range r.viols {
			c.Violation(v.Sig, v.Desc, v.Replay)
		}
		for k, n := range r.events {
			c.Event(k, n)
		}
		for k, n := range r.cover {
			if strings.HasPrefix(k, "learned-group/") {
				c.Cover("groups_learned_from_log", strings.TrimPrefix(k, "learned-group/"), n)
				continue
			}
			c.Cover("fault_kind/statement", k, n)
		}
		for _, n := range r.stmts {
			stmtHist[n]++
		}
		if r.sample != nil {
			c.Sample(r.sample)
		}
	}
	hist := map[string]int{}
	for k, v := range stmtHist {
		hist[fmt.Sprint(k)] = v
	}
	c.Extra("scenarios", len(scen))
	c.Extra("configurations", cfgs)
	c.Extra("rotate_statements_histogram", hist)
	c.Floor("scenarios", nScen, len(scen))
	c.Floor("configurations", nScen, cfgs)
	fr, conv := 0, 0
	for _, r := range results {
		fr += r.events["fault_runs"]
		conv += r.events["restarts_converged"]
	}
	c.Floor("fault_runs", nScen*30, fr)
	c.Floor("restarts_converged", nScen*30, conv)
	nodeListMonitor(c)
	// every statement of every Rotate run of every generated configuration x 3 kinds was
	// faulted; the configurations themselves are a PRNG sample of the configuration space
	c.Exhaustive(false)
	c.Note("fault points are enumerated exhaustively per configuration; configurations and change sequences are PRNG-chosen (plus 9 fixed scenarios), hence exhaustive=false")
}

// nodeListMonitor drives ctrl.Rotate (the entry point the binary calls) over a configured list of data nodes: every
// configured node must end with its own retention, whatever the other nodes look like (same cluster name, same
// database name, different hosts). The per-node work is the real maintenance.Rotate on one catalogue per node; only
// the connection is replaced (hook ctrl.VerifSetProject, build tag verif).
func nodeListMonitor(c *run.Ctx) {
	r := c.Rng("c19-node-lists")
	for k := 0; k < c.Pick(12, 120); k++ {
		n := 2 + r.Intn(3)
		// every other list is rotated by the production entry point itself (RotateAll -> rotateDB: dial, parse the
		// ttl_policy timeouts, Rotate) against one fake native-protocol server (E-CHTCP) per node in front of the
		// node's catalogue; the others through the replaced entry point, without sockets
		native := k%2 == 1
		type node struct {
			db  config.ClokiBaseDataBase
			cfg Cfg
			st  *cat.Catalogue
			srv *chtcp.Server
		}
		var nodes []*node
		clusters := []string{"", "main", "main", "eu"}
		for i := 0; i < n; i++ {
			cfg := genCfg(r)
			cl := clusters[r.Intn(len(clusters))]
			sc := &Scenario{Clustered: cl != ""}
			st, err := initialState(sc, Cfg{Policy: cfg.Policy})
			if err != nil {
				c.Undecided("node list: initial state: " + err.Error())
				return
			}
			db := config.ClokiBaseDataBase{Name: dbName, Host: fmt.Sprintf("ch-%d", i), Port: 9000, ClusterName: cl, TTLDays: cfg.TTLDays, StoragePolicy: cfg.Policy}
			for _, t := range cfg.Tiers {
				db.TTLPolicy = append(db.TTLPolicy, struct {
					Timeout string `json:"ttl_policy" mapstructure:"ttl_policy" default:""`
					MoveTo  string `json:"move_to" mapstructure:"move_to" default:""`
				}{Timeout: spellTimeout(r, t.Seconds, native), MoveTo: t.Disk})
			}
			nd := &node{db: db, cfg: cfg, st: st}
			if native {
				srv, err := chtcp.Start()
				if err != nil {
					c.Undecided("node list: fake server: " + err.Error())
					return
				}
				cn := cat.NewConn(st, dbName, nil)
				var mu sync.Mutex
				srv.Handler = func(_ string, body string) (*chtcp.Result, *chtcp.Exc) {
					mu.Lock()
					defer mu.Unlock()
					return serveStatement(cn, body)
				}
				nd.srv = srv
				nd.db.Host, nd.db.Port = "127.0.0.1", uint32(srv.Port())
			}
			nodes = append(nodes, nd)
		}
		byHost := map[string]*node{}
		var dbs []config.ClokiBaseDataBase
		for _, nd := range nodes {
			byHost[nd.db.Host] = nd
			dbs = append(dbs, nd.db)
		}
		replaced := func(base []config.ClokiBaseDataBase, lg logger.ILogger) error {
				// what maintenance.RotateAll does per node, on the node's catalogue instead of a dialled connection
				for _, d := range base {
					nd := byHost[d.Host]
					if nd == nil {
						return fmt.Errorf("unknown node %s", d.Host)
					}
					var pol []maintenance.RotatePolicy
					for _, p := range d.TTLPolicy {
						dur, err := time.ParseDuration(p.Timeout)
						if err != nil {
							return err
						}
						pol = append(pol, maintenance.RotatePolicy{TTL: dur, MoveTo: p.MoveTo})
					}
					if err := maintenance.Rotate(cat.NewConn(nd.st, dbName, nil), d.ClusterName, d.ClusterName != "", pol, d.TTLDays, d.StoragePolicy, cat.NoLog{}); err != nil {
						return err
					}
				}
				return nil
			}
		if native {
			replaced = nil // keep the production entry point
		}
		restore := ctrl.VerifSetProject("qryn",
			func(*config.ClokiBaseDataBase, logger.ILogger) error { return nil }, nil, replaced)
		conf := clconfig.New(clconfig.CLOKI_WRITER, nil, "", "")
		conf.Setting.DATABASE_DATA = dbs
		err := func() (err error) {
			defer func() {
				if p := recover(); p != nil {
					err = fmt.Errorf("panic: %v", p)
				}
			}()
			return ctrl.Rotate(conf, "qryn")
		}()
		restore()
		for _, nd := range nodes {
			if nd.srv != nil {
				c.Event("statements served over the native protocol", len(nd.srv.Since(0, chtcp.KQuery)))
				for _, e := range nd.srv.Since(0, chtcp.KError) {
					c.Undecided("node list: fake native server: " + e.Body)
				}
				nd.srv.Close()
			}
		}
		c.Case(fmt.Sprintf("node-list|n=%d|native=%v", n, native))
		c.Floor("node lists rotated through ctrl.Rotate", 0, 1)
		if native {
			c.Floor("node lists rotated by the production RotateAll over the native protocol", 0, 1)
		}
		if err != nil && strings.Contains(err.Error(), "unmodelled") {
			c.Undecided("node list: " + err.Error())
			continue
		}
		if err != nil {
			c.Violation("node-list/rotate-fails", fmt.Sprintf("ctrl.Rotate over %d healthy nodes failed: %v", n, err), map[string]any{"nodes": dbs})
			continue
		}
		for _, nd := range nodes {
			fs, und := checkState(nd.st, nd.cfg)
			for _, u := range und {
				c.Undecided("node list: " + u)
			}
			// same signatures as the single-database monitor (<table>/<rule>): what is known there is known here
			seen := map[string]bool{}
			for _, f := range fs {
				sig := f.Table + "/" + f.Rule
				if seen[sig] {
					continue
				}
				seen[sig] = true
				c.Violation(sig, fmt.Sprintf("after ctrl.Rotate over %d configured data nodes, node %s (cluster %q, database %s) does not carry its configured retention %s: %s",
					n, nd.db.Host, nd.db.ClusterName, nd.db.Name, nd.cfg, f.Desc()), map[string]any{"nodes": dbs, "node": nd.db.Host})
			}
		}
	}
	c.Floor("node lists rotated through ctrl.Rotate", c.Pick(12, 120), 0)
	c.Floor("node lists rotated by the production RotateAll over the native protocol", c.Pick(6, 60), 0)
}

// spellTimeout writes a tier's timeout as an operator may: Go's own rendering, or (varied) a decimal number of
// the largest unit in which it is a whole or a half number (1.5h, 90m, 0.5m) - all exact for time.ParseDuration.
func spellTimeout(r *rand.Rand, seconds float64, varied bool) string {
	d := time.Duration(seconds * float64(time.Second))
	if !varied || d <= 0 {
		return d.String()
	}
	var forms []string
	for _, u := range []struct {
		d time.Duration
		s string
	}{{time.Hour, "h"}, {time.Minute, "m"}, {time.Second, "s"}} {
		if d%(u.d/2) == 0 {
			forms = append(forms, strconv.FormatFloat(float64(d)/float64(u.d), 'f', -1, 64)+u.s)
		}
	}
	forms = append(forms, d.String())
	return forms[r.Intn(len(forms))]
}

// serveStatement executes one statement text (arguments already bound by the client) on the catalogue.
func serveStatement(cn *cat.Conn, body string) (*chtcp.Result, *chtcp.Exc) {
	fail := func(err error) (*chtcp.Result, *chtcp.Exc) {
		var ex *cat.Exception
		if errors.As(err, &ex) {
			return nil, &chtcp.Exc{Code: int(ex.Code), Name: ex.Name, Message: ex.Message}
		}
		return nil, &chtcp.Exc{Code: 1000, Name: "DB::Exception", Message: "unmodelled: " + err.Error()}
	}
	t := strings.ToUpper(strings.TrimSpace(body))
	if !strings.HasPrefix(t, "SELECT") && !strings.HasPrefix(t, "SHOW") {
		if err := cn.Exec(context.Background(), body); err != nil {
			return fail(err)
		}
		return nil, nil
	}
	rows, err := cn.Query(context.Background(), body)
	if err != nil {
		return fail(err)
	}
	res := &chtcp.Result{Name: "_value", Type: "String"}
	for rows.Next() {
		var sv string
		if err := rows.Scan(&sv); err != nil {
			var uv uint64
			if err2 := rows.Scan(&uv); err2 != nil {
				return fail(fmt.Errorf("result row: %v", err))
			}
			res.Type = "UInt64"
			res.Values = append(res.Values, uv)
			continue
		}
		res.Values = append(res.Values, sv)
	}
	return res, nil
}

// Replay re-runs one stored case verbosely.
func Replay(c *run.Ctx, file string) {
	b, err := os.ReadFile(file)
	if err != nil {
		c.Undecided("replay file unreadable")
		return
	}
	var doc struct {
		Case replayCase `json:"case"`
	}
	if err := json.Unmarshal(b, &doc); err != nil || len(doc.Case.Scenario.Cfgs) == 0 {
		c.Undecided("replay file malformed")
		return
	}
	rc := doc.Case
	sc := rc.Scenario
	sc.Cfgs = sc.Cfgs[:min(len(sc.Cfgs), rc.Step+2)]
	learned := map[string][]string{}
	st, _ := initialState(&sc, sc.Cfgs[0])
	for step := 0; step < rc.Step; step++ {
		runUpdate(st, &sc, sc.Cfgs[step])
		runRotate(st, &sc, sc.Cfgs[step], nil, learned)
	}
	runUpdate(st, &sc, sc.Cfgs[rc.Step])
	r := runRotate(st, &sc, sc.Cfgs[rc.Step], rc.Fault, learned)
	fmt.Printf("--- step %d Rotate with %s, fault %s: returned %v\n", rc.Step, sc.Cfgs[rc.Step], rc.Fault.String(), r.err)
	for _, e := range r.cn.Log {
		fmt.Printf("   %3d %-9s applied=%-5v err=%v  %s\n", e.Index, e.Injected, e.Applied, e.Err, e.Short())
	}
	res := evalScenario(sc)
	c.Case("replay")
	c.Case("replay2")
	var sigs []string
	for _, v := range res.viols {
		c.Violation(v.Sig, v.Desc, v.Replay)
		sigs = append(sigs, v.Sig)
	}
	fmt.Println("signatures of the whole scenario:", uniq(sigs))
}
