// Package c15: query responses are always one well-formed document of the documented shape.
//
// The real reader (router, controllers, services, planners, post-processors, streaming JSON
// writers) runs in-process on top of the scripted database/sql driver. A case is a result
// set (series × rows, label/line bytes, float values, fingerprints, row counts around the
// reader's batch sizes) generated so that it honours the ORDER BY contract of the statement
// that would have produced it, plus the request that consumes it. The oracle decodes the whole
// body strictly with encoding/json and compares the document with the scripted rows.
package c15

import (
	"context"
	"encoding/json"
	"fmt"
	"math"
	"os"
	"sort"
	"strings"
	"sync"
	"sync/atomic"
	"time"

	"verif/harness/engines/rdcat"
	"verif/harness/engines/run"
	"verif/harness/engines/sqldrv"
	"verif/harness/props/reg"
)

func init() {
	reg.Register(&reg.Prop{ID: "C15", Level: "exploration", Main: Main, Child: Child, Replay: Replay})
}

type childCfg struct {
	Start int `json:"start"`
	N     int `json:"n"`
	Lane  int `json:"lane"`
	// Concurrent > 0: that many readers (one scripted database each) answer their cases at the same time in one
	// process; every document is judged as usual. (The response writers share process-wide encoder pools.)
	Concurrent int `json:"concurrent,omitempty"`
}

func Main(c *run.Ctx) {
	c.SetRule("a case = one scripted result set (0…50 series, row totals around the reader's batch sizes 100 and 3000, fingerprint 0 first/middle/last, hostile label and line bytes, boundary floats) answered to the query, label, series and trace endpoints of the real reader; " +
		"distinct key = endpoint class × series-count bucket × row-count bucket × fingerprint-0 position × worst string class × worst float class")
	c.Assume("rows are delivered grouped by series wherever the statement orders by fingerprint; a third of the cases keep the grouping but not the fingerprint order (a violation that needs this is reported with the feature unsorted-series-order)")
	c.Assume("matrix endpoints resample (range fill, lookback): a point that is not a scripted row is accepted when it repeats the latest scripted row of its series inside the fill window; rows with value 0 are dropped by the Loki metric pipeline by design")
	c.Assume("result sets containing NaN/±Inf are judged for document syntax only")
	total := c.Pick(1000, 50000)
	lanes := c.Pick(4, 10)
	per := (total + lanes - 1) / lanes
	var wg sync.WaitGroup
	for l := 0; l < lanes; l++ {
		wg.Add(1)
		go func(l int) {
			defer wg.Done()
			start, end := l*per, min(total, (l+1)*per)
			for start < end {
				out := c.RunChild(run.ChildSpec{Prop: "C15", Name: "cases", Cfg: childCfg{Start: start, N: end - start, Lane: l}, Timeout: 40 * time.Minute, MemKB: 24 << 20})
				if out.Completed {
					break
				}
				if out.OpenIdx < 0 {
					c.Undecided(fmt.Sprintf("child ended (exit %d, timed out %v) outside a case", out.Exit, out.TimedOut))
					c.Note("child ended outside a case: " + tail(out.Stderr, 1500))
					break
				}
				// a well-shaped result set must not kill the reader: that is C12's subject, here the case is undecided
				head, frame := run.PanicHead(out.Stderr)
				c.Undecided("reader process died on a well-shaped result set (" + head + " at " + frame + ")")
				c.Note(fmt.Sprintf("case %d killed the child: %s at %s", out.OpenIdx, head, frame))
				start = out.OpenIdx + 1
			}
		}(l)
	}
	wg.Wait()
	// the same kind of cases with eight requests in flight
	if out := c.RunChild(run.ChildSpec{Prop: "C15", Name: "concurrent", Cfg: childCfg{Start: total, N: c.Pick(60, 600), Concurrent: 8}, Timeout: 30 * time.Minute, MemKB: 24 << 20,
		Env: []string{"GOMAXPROCS=2"}}); !out.Completed { // few processors: the handlers share scheduler-local caches, as on a small pod
		c.Undecided("concurrent lane: child did not complete")
	}
	c.Floor("documents judged with eight requests in flight", c.Pick(200, 2000), 0)
	for _, cl := range classNames() {
		c.Floor("class:"+cl, c.Pick(3, 100), 0)
	}
	c.Floor("documents decoded and compared", total*6/10, 0)
}

func tail(s string, n int) string {
	if len(s) > n {
		return s[len(s)-n:]
	}
	return s
}

type runner struct {
	sess *sqldrv.Session
	rd   *sqldrv.Reader
	cl   *rdcat.Client
	cur  atomic.Pointer[Case]
	reqs int
}

func newRunner(name string) *runner {
	rn := &runner{}
	rn.sess = sqldrv.NewSession(name, nil)
	rn.sess.Tables = []string{"samples_v3", "time_series", "metrics_15s"}
	rn.sess.SetHandler(rdcat.Handler(func(ctx context.Context, n int, k rdcat.Kind, sql string) rdcat.Answer {
		cs := rn.cur.Load()
		if cs == nil {
			return rdcat.OK(k, nil)
		}
		return rdcat.OK(k, cs.rows(k))
	}))
	rn.rd = sqldrv.StartReader(sqldrv.NewRegistry(rn.sess, ""), "")
	rn.cl = rdcat.NewClient(rn.rd.Server.URL, 120*time.Second)
	return rn
}

// run sends the request of the case and judges the answer.
func (rn *runner) run(cs *Case) (rdcat.Resp, []rdcat.Finding) {
	rn.cur.Store(cs)
	rn.reqs++
	resp := rn.cl.Do(cs.Req)
	if resp.Status == 0 {
		return resp, []rdcat.Finding{{Rule: "no-response", Detail: resp.Err}}
	}
	if resp.Status != 200 {
		if cs.ValidityOnly {
			// an error answer is acceptable for NaN/Inf; it must still be a document
			if _, f := rdcat.DecodeStrict(resp.Body); f != nil {
				return resp, []rdcat.Finding{*f}
			}
			return resp, nil
		}
		return resp, []rdcat.Finding{{Rule: "error-status", Detail: fmt.Sprintf("HTTP %d %.200s", resp.Status, resp.Body)}}
	}
	fs := cs.validate(resp.Body)
	if cs.ValidityOnly {
		var keep []rdcat.Finding
		for _, f := range fs {
			if f.Rule == "invalid-json" || f.Rule == "trailing-data" || f.Rule == "shape" {
				keep = append(keep, f)
			}
		}
		fs = keep
	}
	return resp, fs
}

var rulePriority = []string{"harness", "no-response", "invalid-json", "trailing-data", "error-status", "shape", "duplicate-stream-object", "duplicate-series-object", "unknown-series", "missing-series",
	"row-missing", "row-duplicated", "row-unexpected", "string-mismatch", "value-loss", "timestamp-order", "timestamp-loss"}

func primary(fs []rdcat.Finding) []rdcat.Finding {
	for _, rule := range rulePriority {
		for _, f := range fs {
			if f.Rule == rule {
				return []rdcat.Finding{f}
			}
		}
	}
	if len(fs) > 0 {
		return fs[:1]
	}
	return nil
}

func hasRule(fs []rdcat.Finding, rule string) bool {
	for _, f := range fs {
		if f.Rule == rule {
			return true
		}
	}
	return false
}

// ---------- case features ----------

func (c *Case) allStrings(f func(s *string, isLine bool)) { c.visitStrings(f, false) }

// visitStrings calls f on every label name/value, line and name of the case (all = also the
// ones the repairs must not touch: the metric name and the lines of Go-side pipeline cases).
func (c *Case) visitStrings(f func(s *string, isLine bool), all bool) {
	mapStrings := func(m map[string]string) map[string]string {
		o := make(map[string]string, len(m))
		for k, v := range m {
			f(&k, false)
			f(&v, false)
			o[k] = v
		}
		return o
	}
	for i := range c.Logs {
		c.Logs[i].Labels = mapStrings(c.Logs[i].Labels)
		if c.Interleave && !all {
			continue // the lines are JSON documents the query parses
		}
		for j := range c.Logs[i].Rows {
			f(&c.Logs[i].Rows[j].Line, true)
		}
	}
	for i := range c.Prom {
		for j := range c.Prom[i].Labels {
			if c.Prom[i].Labels[j][0] == "__name__" && !all {
				continue
			}
			f(&c.Prom[i].Labels[j][0], false)
			f(&c.Prom[i].Labels[j][1], false)
		}
	}
	for i := range c.Strings {
		f(&c.Strings[i], false)
	}
	for i := range c.Docs {
		c.Docs[i] = mapStrings(c.Docs[i])
	}
	for i := range c.Spans {
		f(&c.Spans[i].Name, false)
		for j := range c.Spans[i].Tags {
			f(&c.Spans[i].Tags[j][0], false)
			f(&c.Spans[i].Tags[j][1], false)
		}
	}
	for i := range c.Hits {
		f(&c.Hits[i].Service, false)
		f(&c.Hits[i].Name, false)
	}
	for i := range c.TQL {
		f(&c.TQL[i].Service, false)
		f(&c.TQL[i].Name, false)
	}
}

func (c *Case) allFloats(f func(v *float64)) {
	for i := range c.Logs {
		for j := range c.Logs[i].Rows {
			f(&c.Logs[i].Rows[j].Value)
		}
	}
	for i := range c.Prom {
		for j := range c.Prom[i].Samples {
			f(&c.Prom[i].Samples[j].V)
		}
	}
	for i := range c.TQL {
		f(&c.TQL[i].DurMs)
	}
}

var strRank = []string{"invalid-utf8", "control-byte", "u2028", "quote-backslash", "non-ascii", "64KiB"}
var floatRank = []string{"nan", "inf", "huge", "zero", "fraction"}

func (c *Case) strClasses() map[string]bool {
	m := map[string]bool{}
	c.allStrings(func(s *string, _ bool) { m[rdcat.StrClass(*s)] = true })
	return m
}

func (c *Case) floatClasses() map[string]bool {
	m := map[string]bool{}
	isMetric := strings.Contains(c.Class, "matrix") || strings.Contains(c.Class, "vector") || strings.HasPrefix(c.Class, "prom.query") || c.Class == "tempo.search.traceql"
	if !isMetric || strings.HasSuffix(c.Class, ".pipeline") {
		return m
	}
	c.allFloats(func(v *float64) { m[floatClass(*v)] = true })
	return m
}

// floatClass merges rdcat's classes into the ones signatures use.
func floatClass(v float64) string {
	switch c := rdcat.FloatClass(v); c {
	case "subnormal":
		return "fraction"
	case "0", "-0":
		return "zero"
	default:
		return c
	}
}

func worst(m map[string]bool, rank []string, def string) string {
	for _, k := range rank {
		if m[k] {
			return k
		}
	}
	return def
}

func (c *Case) nTop() int {
	return len(c.Logs) + len(c.Prom) + len(c.Strings) + len(c.Docs) + len(c.Spans) + len(c.Hits) + len(c.TQL)
}

func (c *Case) nRows() int {
	n := len(c.Strings) + len(c.Docs) + len(c.Spans) + len(c.Hits) + len(c.TQL)
	for _, s := range c.Logs {
		n += len(s.Rows)
	}
	for _, s := range c.Prom {
		n += len(s.Samples)
	}
	return n
}

// fp0 reports the position of the fingerprint-0 series among the series that have rows.
func (c *Case) fp0() string {
	var fps []uint64
	for _, s := range c.Logs {
		if len(s.Rows) > 0 {
			fps = append(fps, s.Fp)
		}
	}
	for _, s := range c.Prom {
		if len(s.Samples) > 0 {
			fps = append(fps, s.Fp)
		}
	}
	if c.Interleave {
		return ""
	}
	for i, f := range fps {
		if f == 0 {
			switch {
			case i == 0:
				return "first"
			case i == len(fps)-1:
				return "last"
			}
			return "middle"
		}
	}
	return ""
}

func bucket(n int) string {
	switch {
	case n == 0:
		return "0"
	case n == 1:
		return "1"
	case n < 99:
		return "2-98"
	case n <= 101:
		return fmt.Sprint(n)
	case n < 999:
		return "102-998"
	case n <= 1001:
		return fmt.Sprint(n)
	case n < 2999:
		return "1002-2998"
	case n <= 3001:
		return fmt.Sprint(n)
	}
	return ">3001"
}

func (c *Case) key() string {
	nser := len(c.Logs) + len(c.Prom)
	sb := "n/a"
	if len(c.Logs)+len(c.Prom) > 0 || strings.HasPrefix(c.Class, "loki.query") || strings.HasPrefix(c.Class, "prom.query") {
		switch {
		case nser <= 3:
			sb = fmt.Sprint(nser)
		case nser <= 10:
			sb = "4-10"
		default:
			sb = ">10"
		}
	}
	return strings.Join([]string{c.Class, "series=" + sb, "rows=" + bucket(c.nRows()), "fp0=" + c.fp0(), "str=" + worst(c.strClasses(), strRank, "plain"), "float=" + worst(c.floatClasses(), floatRank, "-"), c.Order}, "|")
}

// ---------- diagnosis: which aspect of the case is necessary for the failure ----------

var repairSeq int

func (c *Case) repairStrings(class string) bool {
	changed := false
	c.allStrings(func(s *string, isLine bool) {
		if rdcat.StrClass(*s) == class {
			repairSeq++
			*s = fmt.Sprintf("r%d", repairSeq)
			changed = true
		}
	})
	return changed
}

func (c *Case) repairFloats(class string) bool {
	changed := false
	c.allFloats(func(v *float64) {
		if floatClass(*v) == class {
			*v = 2
			changed = true
		}
	})
	c.ValidityOnly = false
	c.allFloats(func(v *float64) {
		if math.IsNaN(*v) || math.IsInf(*v, 0) {
			c.ValidityOnly = true
		}
	})
	return changed
}

func (c *Case) repairFp0() bool {
	changed := false
	for i := range c.Logs {
		if c.Logs[i].Fp == 0 {
			c.Logs[i].Fp = 0x7fffffffffff0000 + uint64(i)
			changed = true
		}
	}
	for i := range c.Prom {
		if c.Prom[i].Fp == 0 {
			c.Prom[i].Fp = 0x7fffffffffff0000 + uint64(i)
			changed = true
		}
	}
	return changed
}

func (c *Case) asc() bool {
	if c.Class == "loki.query_range.streams" {
		return strings.Contains(c.Req.RawQuery, "direction=forward")
	}
	return c.Class != "loki.query.streams"
}

func (c *Case) repairOrder() bool {
	if c.Order != "grouped-unsorted" {
		return false
	}
	asc := c.asc()
	sort.SliceStable(c.Logs, func(i, j int) bool {
		if asc {
			return c.Logs[i].Fp < c.Logs[j].Fp
		}
		return c.Logs[i].Fp > c.Logs[j].Fp
	})
	sort.SliceStable(c.Prom, func(i, j int) bool { return c.Prom[i].Fp < c.Prom[j].Fp })
	c.Order = "contract"
	return true
}

// truncate keeps about `limit` rows in total (proportionally per series, at least one where there was one).
func (c *Case) truncate(limit int) bool {
	n := c.nRows()
	if n <= limit {
		return false
	}
	keep := func(k int) int {
		if k == 0 {
			return 0
		}
		return max(1, k*limit/n)
	}
	for i := range c.Logs {
		c.Logs[i].Rows = c.Logs[i].Rows[:keep(len(c.Logs[i].Rows))]
	}
	for i := range c.Prom {
		c.Prom[i].Samples = c.Prom[i].Samples[:keep(len(c.Prom[i].Samples))]
	}
	c.Strings = c.Strings[:min(len(c.Strings), keep(len(c.Strings)))]
	c.Docs = c.Docs[:min(len(c.Docs), keep(len(c.Docs)))]
	c.Spans = c.Spans[:min(len(c.Spans), keep(len(c.Spans)))]
	c.Hits = c.Hits[:min(len(c.Hits), keep(len(c.Hits)))]
	c.TQL = c.TQL[:min(len(c.TQL), keep(len(c.TQL)))]
	return true
}

func (c *Case) dropTop(i int) {
	switch {
	case len(c.Logs) > 0:
		c.Logs = append(c.Logs[:i:i], c.Logs[i+1:]...)
	case len(c.Prom) > 0:
		c.Prom = append(c.Prom[:i:i], c.Prom[i+1:]...)
	case len(c.Strings) > 0:
		c.Strings = append(c.Strings[:i:i], c.Strings[i+1:]...)
	case len(c.Docs) > 0:
		c.Docs = append(c.Docs[:i:i], c.Docs[i+1:]...)
	case len(c.Spans) > 0:
		c.Spans = append(c.Spans[:i:i], c.Spans[i+1:]...)
	case len(c.Hits) > 0:
		c.Hits = append(c.Hits[:i:i], c.Hits[i+1:]...)
	case len(c.TQL) > 0:
		c.TQL = append(c.TQL[:i:i], c.TQL[i+1:]...)
	}
}

// diagnose finds the aspects of the case without which the rule no longer fails and returns
// the simplified case (all unnecessary aspects repaired) and the feature string.
func (rn *runner) diagnose(cs *Case, rule string) (*Case, string, int) {
	cur := cs.clone()
	probes := 0
	var necessary []string
	try := func(name string, repair func(*Case) bool) bool {
		cand := cur.clone()
		if !repair(cand) {
			return false
		}
		probes++
		_, fs := rn.run(cand)
		if hasRule(fs, rule) {
			cur = cand // the aspect is irrelevant
			return false
		}
		necessary = append(necessary, name)
		return true
	}
	for _, cl := range strRank {
		cl := cl
		if !cur.strClasses()[cl] {
			continue
		}
		try("string:"+cl, func(c *Case) bool { return c.repairStrings(cl) })
	}
	for _, cl := range floatRank {
		cl := cl
		if !cur.floatClasses()[cl] {
			continue
		}
		try("float:"+cl, func(c *Case) bool { return c.repairFloats(cl) })
	}
	if pos := cur.fp0(); pos != "" {
		if !try("fingerprint-0-"+pos, func(c *Case) bool { return c.repairFp0() }) {
			try("unsorted-series-order", func(c *Case) bool { return c.repairOrder() })
		} else if cur.Order == "grouped-unsorted" {
			// is the position reachable under the contract? keep the feature as observed
		}
	} else {
		try("unsorted-series-order", func(c *Case) bool { return c.repairOrder() })
	}
	if len(necessary) > 0 {
		// the failure is explained by a value; truncation could only remove the culprit
	} else if !try("rows>=3000", func(c *Case) bool { return c.truncate(2990) }) {
		if !try("rows>100", func(c *Case) bool { return c.truncate(100) }) {
			try("rows>=100", func(c *Case) bool { return c.truncate(99) })
		}
	}
	if n := cur.nTop(); n > 1 && (len(cur.Logs) > 0 || len(cur.Prom) > 0) {
		// does one series alone fail?
		single := false
		for i := 0; i < min(n, 6) && !single; i++ {
			cand := cur.clone()
			for j := n - 1; j >= 0; j-- {
				if j != i {
					cand.dropTop(j)
				}
			}
			probes++
			if _, fs := rn.run(cand); hasRule(fs, rule) {
				cur = cand
				single = true
			}
		}
		if !single && len(necessary) == 0 {
			necessary = append(necessary, "several-series")
		}
	}
	feature := "any-result"
	if len(necessary) > 0 {
		feature = strings.Join(necessary[:min(2, len(necessary))], "+")
	}
	return cur, feature, probes
}

// minimise shrinks the (diagnosed) case greedily while the rule keeps failing.
func (rn *runner) minimise(cs *Case, rule string, budget int) *Case {
	cur := cs
	fails := func(cand *Case) bool {
		if budget <= 0 {
			return false
		}
		budget--
		_, fs := rn.run(cand)
		return hasRule(fs, rule)
	}
	for progress := true; progress && budget > 0; {
		progress = false
		for i := cur.nTop() - 1; i >= 0 && cur.nTop() > 1; i-- {
			cand := cur.clone()
			cand.dropTop(i)
			if fails(cand) {
				cur, progress = cand, true
			}
		}
		for i := range cur.Logs {
			for len(cur.Logs[i].Rows) > 1 {
				cand := cur.clone()
				h := len(cand.Logs[i].Rows) / 2
				cand.Logs[i].Rows = cand.Logs[i].Rows[:h]
				if !fails(cand) {
					cand = cur.clone()
					cand.Logs[i].Rows = cand.Logs[i].Rows[h:]
					if !fails(cand) {
						break
					}
				}
				cur, progress = cand, true
			}
		}
		for i := range cur.Prom {
			for len(cur.Prom[i].Samples) > 1 {
				cand := cur.clone()
				h := len(cand.Prom[i].Samples) / 2
				cand.Prom[i].Samples = cand.Prom[i].Samples[:h]
				if !fails(cand) {
					cand = cur.clone()
					cand.Prom[i].Samples = cand.Prom[i].Samples[h:]
					if !fails(cand) {
						break
					}
				}
				cur, progress = cand, true
			}
		}
		// drop labels / tags one at a time
		for i := range cur.Logs {
			if cur.Interleave {
				break // the label set must stay the one the lines produce
			}
			for k := range cur.Logs[i].Labels {
				if len(cur.Logs[i].Labels) <= 1 {
					break
				}
				cand := cur.clone()
				delete(cand.Logs[i].Labels, k)
				if fails(cand) {
					cur, progress = cand, true
				}
			}
		}
		for i := range cur.Spans {
			if len(cur.Spans[i].Tags) > 0 {
				cand := cur.clone()
				cand.Spans[i].Tags = nil
				if fails(cand) {
					cur, progress = cand, true
				}
			}
		}
	}
	return cur
}

func (c *Case) summary() string {
	var sb strings.Builder
	fmt.Fprintf(&sb, "%s %s; ", c.Req.Method, c.Req.Target())
	switch {
	case len(c.Logs) > 0:
		fmt.Fprintf(&sb, "rows (fingerprint, labels, %s, timestamp_ns):", map[bool]string{true: "value", false: "line"}[strings.Contains(c.Class, "matrix") || strings.Contains(c.Class, "vector")])
		n := 0
		for _, s := range c.Logs {
			for _, r := range s.Rows {
				if n < 6 {
					lb, _ := json.Marshal(s.Labels)
					if strings.Contains(c.Class, "matrix") && !c.Interleave || strings.Contains(c.Class, "vector") {
						fmt.Fprintf(&sb, " (%d, %s, %s, %d)", s.Fp, lb, fmtF(r.Value), r.TsNs)
					} else {
						fmt.Fprintf(&sb, " (%d, %s, %q, %d)", s.Fp, lb, clip(r.Line, 40), r.TsNs)
					}
				}
				n++
			}
		}
		if n > 6 {
			fmt.Fprintf(&sb, " … %d rows in %d series", n, len(c.Logs))
		}
	case len(c.Prom) > 0:
		sb.WriteString("rows (fingerprint, value, timestamp_ms):")
		n := 0
		for _, s := range c.Prom {
			for _, r := range s.Samples {
				if n < 6 {
					fmt.Fprintf(&sb, " (%d, %s, %d)", s.Fp, fmtF(r.V), r.TsMs)
				}
				n++
			}
		}
		if n > 6 {
			fmt.Fprintf(&sb, " … %d rows in %d series", n, len(c.Prom))
		}
		lb, _ := json.Marshal(c.Prom[0].Labels)
		fmt.Fprintf(&sb, "; labels of the first series %s", clip(string(lb), 120))
	case len(c.Strings) > 0:
		fmt.Fprintf(&sb, "rows: %q", c.Strings[:min(4, len(c.Strings))])
	case len(c.Docs) > 0:
		b, _ := json.Marshal(c.Docs[:min(3, len(c.Docs))])
		fmt.Fprintf(&sb, "label documents: %s", clip(string(b), 200))
	case len(c.Spans) > 0:
		s := c.Spans[0]
		fmt.Fprintf(&sb, "%d span rows, first: span_id %s payload_type %d name %q tags %q", len(c.Spans), s.SpanID, s.PayloadType, clip(s.Name, 40), s.Tags)
	case len(c.Hits) > 0:
		fmt.Fprintf(&sb, "%d search rows, first: %+v", len(c.Hits), c.Hits[0])
	case len(c.TQL) > 0:
		fmt.Fprintf(&sb, "%d trace rows, first: %+v", len(c.TQL), c.TQL[0])
	default:
		sb.WriteString("empty result set")
	}
	return sb.String()
}

func fmtF(v float64) string { return fmt.Sprintf("%v", v) }

func clip(s string, n int) string {
	if len(s) > n {
		return s[:n] + "…"
	}
	return s
}

func Child(c *run.Ctx, name string) {
	var cfg childCfg
	if err := run.ChildCfg(&cfg); err != nil {
		panic(err)
	}
	if cfg.Concurrent > 0 {
		childConcurrent(c, cfg)
		return
	}
	rn := newRunner(fmt.Sprintf("c15-%d-%d", cfg.Lane, os.Getpid()))
	minimised := map[string]bool{}
	decoded := 0
	for i := 0; i < cfg.N; i++ {
		gi := cfg.Start + i
		r := c.Rng(fmt.Sprintf("c15/case/%d", gi))
		cs := genCase(r, gi)
		c.BeginCase(gi, map[string]any{"class": cs.Class, "req": cs.Req.String(), "rows": cs.nRows()})
		resp, fs := rn.run(cs)
		c.Case(cs.key())
		c.Floor("class:"+cs.Class, 0, 1)
		c.Cover("class/status", fmt.Sprintf("%s/%d", cs.Class, resp.Status), 1)
		if gi%97 == 0 {
			c.Sample(map[string]any{"class": cs.Class, "request": cs.Req.String(), "rows": cs.nRows(), "series": len(cs.Logs) + len(cs.Prom), "status": resp.Status, "body_bytes": len(resp.Body), "findings": len(fs)})
		}
		if !hasRule(fs, "invalid-json") && !hasRule(fs, "no-response") && resp.Status == 200 {
			decoded++
		}
		if cs.ValidityOnly {
			c.Event("nan_inf_result_sets_judged_for_syntax_only", 1)
		}
		// one verdict per case: the most fundamental rule that failed (the others are its consequences)
		for _, f := range primary(fs) {
			if f.Rule == "harness" {
				c.Undecided(f.Detail)
				continue
			}
			small, feature, probes := rn.diagnose(cs, f.Rule)
			c.Event("diagnosis_probes", probes)
			sig := cs.Class + "/" + f.Rule + "/" + feature
			c.Cover("violations", sig, 1)
			if minimised[sig] {
				// the parent de-duplicates by signature; a witness was already sent
				c.Violation(sig, "", nil)
				continue
			}
			minimised[sig] = true
			w := rn.minimise(small, f.Rule, 250)
			wresp, wfs := rn.run(w)
			var wf rdcat.Finding
			for _, x := range wfs {
				if x.Rule == f.Rule {
					wf = x
				}
			}
			c.Violation(sig, fmt.Sprintf("%s: %s | witness: %s | answer: HTTP %d %s", cs.Class, wf, w.summary(), wresp.Status, clip(string(wresp.Body), 400)),
				map[string]any{"case": w.wire(), "findings": wfs, "status": wresp.Status, "body": clip(string(wresp.Body), 4000), "original_case_index": gi, "original_finding": f.String()})
		}
		c.EndCase(gi)
	}
	c.Floor("documents decoded and compared", 0, decoded)
	c.Event("requests_sent", rn.reqs)
}

// childConcurrent: several readers answer at once. A violation here is reported with the concurrency in its
// signature when the same case is fine on its own.
func childConcurrent(c *run.Ctx, cfg childCfg) {
	var wg sync.WaitGroup
	var mu sync.Mutex
	reported := map[string]bool{}
	for g := 0; g < cfg.Concurrent; g++ {
		wg.Add(1)
		rn := newRunner(fmt.Sprintf("c15-conc-%d-%d", g, os.Getpid()))
		go func(g int, rn *runner) {
			defer wg.Done()
			fast := rn.cl
			slowCl := rdcat.NewClient(rn.rd.Server.URL, 120*time.Second)
			slowCl.SlowLink()
			for i := 0; i < cfg.N; i++ {
				gi := cfg.Start + g*cfg.N + i
				r := c.Rng(fmt.Sprintf("c15/case/%d", gi))
				// the first cases of every reader are big documents over a slow link, all at the same time: handlers
				// are parked in the middle of a write while others build their answers
				slow := i < 3
				rn.cl = fast
				if slow {
					rn.cl = slowCl
				}
				cs := genCase(r, gi)
				// mostly answers of some size (query endpoints), so that writes overlap
				for try := 0; try < 6 && cs.nRows() < 500; try++ {
					cs = genCase(r, gi)
				}
				if slow {
					// the clients on the slow link ask for the big documents
					cs = bigPromCase(r, gi)
				}
				resp, fs := rn.run(cs)
				if slow {
					c.Cover("concurrent lane: answers read over a slow link", fmt.Sprintf("%s/%dKiB", cs.Class, len(resp.Body)>>10>>8<<8), 1)
				}
				c.Floor("documents judged with eight requests in flight", 0, 1)
				for _, f := range primary(fs) {
					if f.Rule == "harness" || f.Rule == "no-response" {
						continue
					}
					sig := cs.Class + "/" + f.Rule + "/concurrent-responses"
					mu.Lock()
					seen := reported[sig]
					reported[sig] = true
					mu.Unlock()
					if seen {
						c.Violation(sig, "", nil)
						continue
					}
					c.Violation(sig, fmt.Sprintf("%s with %d requests in flight: %s | %s | answer: HTTP %d %s", cs.Class, cfg.Concurrent, f, cs.summary(), resp.Status, clip(string(resp.Body), 400)),
						map[string]any{"case": cs.wire(), "status": resp.Status, "body": clip(string(resp.Body), 4000), "concurrent": cfg.Concurrent})
				}
			}
		}(g, rn)
	}
	wg.Wait()
}

// Replay re-runs the case stored in a replay file.
func Replay(c *run.Ctx, path string) {
	b, err := os.ReadFile(path)
	if err != nil {
		c.Undecided("cannot read replay file: " + err.Error())
		return
	}
	var doc struct {
		Sig  string `json:"sig"`
		Case struct {
			Case Case `json:"case"`
		} `json:"case"`
	}
	if err := json.Unmarshal(b, &doc); err != nil {
		c.Undecided("cannot parse replay file: " + err.Error())
		return
	}
	cs := &doc.Case.Case
	cs.unwire()
	rn := newRunner("c15-replay")
	defer rn.rd.Server.Close()
	resp, fs := rn.run(cs)
	c.Case(cs.key())
	c.Case(cs.key() + "|replay")
	fmt.Printf("replay %s: HTTP %d, %d bytes, findings %v\nbody: %s\n", cs.Class, resp.Status, len(resp.Body), fs, clip(string(resp.Body), 2000))
	parts := strings.SplitN(doc.Sig, "/", 3)
	for _, f := range fs {
		if len(parts) == 3 && f.Rule == parts[1] {
			c.Violation(doc.Sig, cs.Class+": "+f.String()+" | "+cs.summary(), map[string]any{"case": cs})
		}
	}
}
