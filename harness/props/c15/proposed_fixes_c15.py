import re
def sub(p, old, new, count=1):
    s=open(p).read()
    assert s.count(old)>=count, (p, old, s.count(old))
    s=s.replace(old,new)
    open(p,'w').write(s)
# F1: streams writer and Tail open the first stream object also for fingerprint 0
sub('reader/service/queryRangeService.go','\t\t\tif lastFp != e.Fingerprint {\n','\t\t\tif i == 0 || lastFp != e.Fingerprint {\n')
# F2: FixPeriodPlanner starts the first series also when its fingerprint is 0
sub('reader/logql/logql_transpiler_v2/planner_from_fix.go','\t\t\t\tif entry.Fingerprint != fingerprint {\n\t\t\t\t\texportEntries()\n','\t\t\t\tif values == nil || entry.Fingerprint != fingerprint {\n\t\t\t\t\texportEntries()\n')
# F3: tempo tag names / values are JSON strings
s=open('reader/controller/tempoController.go').read()
assert s.count('w.Write([]byte(strconv.Quote(tag)))')==1 and s.count('w.Write([]byte(strconv.Quote(val)))')==1
s=s.replace('w.Write([]byte(strconv.Quote(tag)))','bTag, _ := json.Marshal(tag)\n\t\tw.Write(bTag)')
s=s.replace('w.Write([]byte(strconv.Quote(val)))','bVal, _ := json.Marshal(val)\n\t\tw.Write(bVal)')
open('reader/controller/tempoController.go','w').write(s)
# F4: scalar rendered without loss
sub('reader/controller/promQueryRangeController.go','w.Write([]byte(fmt.Sprintf(`%f, "%f"`, float64(val.T)/1000, val.V)))','w.Write([]byte(fmt.Sprintf(`%f, "%s"`, float64(val.T)/1000, strconv.FormatFloat(val.V, \'f\', -1, 64))))')
# F5: one object per stream: no intermediate flush
sub('reader/logql/logql_transpiler_v2/internal_planner/planner_fingerprint_optimizer.go','''			if size < 3000 {
				return nil
			}
			for _, ents := range fpMap {
				c <- ents
			}
			fpMap = make(map[uint64][]shared.LogEntry)
			size = 0
			return nil''','''			return nil''')
