package c15

import (
	"database/sql/driver"
	"encoding/base64"
	"encoding/json"
	"fmt"
	"math"
	"math/rand"
	"os"
	"sort"
	"strconv"
	"strings"
	"unicode/utf8"

	"verif/harness/engines/rdcat"
)

// Case is one scripted result set and the request that consumes it.
type Case struct {
	Idx   int       `json:"idx"`
	Class string    `json:"class"`
	Req   rdcat.Req `json:"req"`
	// exactly one of the following models is used by a class
	Logs       []rdcat.LogSeries   `json:"logs,omitempty"`
	Interleave bool                `json:"interleave,omitempty"` // rows ordered by timestamp only (Go-side pipeline statements)
	// Dropped: rows the database returns as well and a filter stage running in the reader drops (not expected in the answer)
	Dropped []rdcat.LogSeries `json:"dropped,omitempty"`
	Prom       []rdcat.PromSeries  `json:"prom,omitempty"`
	Strings    []string            `json:"strings,omitempty"`
	Docs       []map[string]string `json:"docs,omitempty"`
	RawDocs    bool                `json:"raw_docs,omitempty"` // label documents written with bytes >= 0x20 unescaped
	Spans      []rdcat.Span        `json:"spans,omitempty"`
	Hits       []rdcat.TraceHit    `json:"hits,omitempty"`
	TQL        []rdcat.TQLTrace    `json:"tql,omitempty"`
	// Portioned: the complexity probe is answered with 25e6 index rows, so the search is processed in portions;
	// every portion's statement is answered with the same traces (the later ones ask for the ids found so far again)
	Portioned bool `json:"portioned,omitempty"`
	// resampling description for matrix/vector classes
	FromNs    int64 `json:"from_ns,omitempty"`
	StepNs    int64 `json:"step_ns,omitempty"`
	FillNs    int64 `json:"fill_ns,omitempty"`
	EvalNs    int64 `json:"eval_ns,omitempty"`
	TsShiftNs int64 `json:"ts_shift_ns,omitempty"` // visible timestamp = row timestamp + shift (downsampled statement)
	// ValidityOnly: the result contains NaN/±Inf: only the document syntax is judged
	ValidityOnly bool   `json:"validity_only,omitempty"`
	Order        string `json:"order,omitempty"` // contract | grouped-unsorted
}

// fixBits copies float values into their JSON-safe carriers (before logging) and back (after loading).
func (c *Case) fixBits(load bool) {
	for i := range c.Logs {
		for j := range c.Logs[i].Rows {
			r := &c.Logs[i].Rows[j]
			if load {
				r.Value = math.Float64frombits(r.VBits)
			} else {
				r.VBits = math.Float64bits(r.Value)
			}
		}
	}
	for i := range c.Prom {
		for j := range c.Prom[i].Samples {
			r := &c.Prom[i].Samples[j]
			if load {
				r.V = math.Float64frombits(r.VBits)
			} else {
				r.VBits = math.Float64bits(r.V)
			}
		}
	}
}

// clone is a deep, byte-exact copy.
func (c *Case) clone() *Case {
	o := *c
	o.Logs = make([]rdcat.LogSeries, len(c.Logs))
	for i, s := range c.Logs {
		o.Logs[i] = rdcat.LogSeries{Fp: s.Fp, Labels: map[string]string{}, Rows: append([]rdcat.LogRow{}, s.Rows...)}
		for k, v := range s.Labels {
			o.Logs[i].Labels[k] = v
		}
	}
	o.Prom = make([]rdcat.PromSeries, len(c.Prom))
	for i, s := range c.Prom {
		o.Prom[i] = rdcat.PromSeries{Fp: s.Fp, Labels: append([][2]string{}, s.Labels...), Samples: append([]rdcat.PromSample{}, s.Samples...)}
	}
	o.Strings = append([]string{}, c.Strings...)
	o.Docs = make([]map[string]string, len(c.Docs))
	for i, d := range c.Docs {
		o.Docs[i] = map[string]string{}
		for k, v := range d {
			o.Docs[i][k] = v
		}
	}
	o.Spans = make([]rdcat.Span, len(c.Spans))
	for i, s := range c.Spans {
		o.Spans[i] = s
		o.Spans[i].Tags = append([][2]string{}, s.Tags...)
	}
	o.Dropped = append([]rdcat.LogSeries{}, c.Dropped...)
	o.Hits = append([]rdcat.TraceHit{}, c.Hits...)
	o.TQL = make([]rdcat.TQLTrace, len(c.TQL))
	for i, t := range c.TQL {
		o.TQL[i] = t
		o.TQL[i].SpanIDs = append([]string{}, t.SpanIDs...)
		o.TQL[i].DurNs = append([]int64{}, t.DurNs...)
		o.TQL[i].TsNs = append([]int64{}, t.TsNs...)
	}
	return &o
}

// wire returns a copy that survives JSON: floats as bit patterns, strings that are not valid
// UTF-8 (or start with the marker) as "b64:"+base64. unwire reverses it.
func (c *Case) wire() *Case {
	o := c.clone()
	o.fixBits(false)
	o.visitStrings(func(s *string, _ bool) {
		if !utf8.ValidString(*s) || strings.HasPrefix(*s, "b64:") {
			*s = "b64:" + base64.StdEncoding.EncodeToString([]byte(*s))
		}
	}, true)
	return o
}

func (c *Case) unwire() {
	c.fixBits(true)
	c.visitStrings(func(s *string, _ bool) {
		if strings.HasPrefix(*s, "b64:") {
			if b, err := base64.StdEncoding.DecodeString((*s)[4:]); err == nil {
				*s = string(b)
			}
		}
	}, true)
}

// classes and their weights in the schedule
var classes = []struct {
	name   string
	weight int
}{
	{"loki.query_range.streams", 14}, {"loki.query_range.streams.pipeline", 6}, {"loki.query.streams", 4},
	{"loki.query_range.matrix", 12}, {"loki.query_range.matrix.pipeline", 3}, {"loki.query.vector", 5},
	{"loki.labels", 3}, {"loki.label.values", 3}, {"loki.series", 4},
	{"prom.labels", 2}, {"prom.label.values", 3}, {"prom.series", 3},
	{"prom.query_range", 10}, {"prom.query_range.downsampled", 3}, {"prom.query.vector", 5}, {"prom.query.scalar", 2},
	{"tempo.trace", 6}, {"tempo.search.tags", 3}, {"tempo.search.traceql", 4},
	{"tempo.tags", 2}, {"tempo.tag.values", 2}, {"tempo.v2.tags", 2}, {"tempo.v2.tag.values", 2},
}

func classNames() []string {
	var out []string
	for _, c := range classes {
		out = append(out, c.name)
	}
	return out
}

func pickClass(r *rand.Rand) string {
	if only := os.Getenv("VERIF_C15_CLASS"); only != "" { // development aid: restrict the schedule to one class
		r.Intn(100)
		return only
	}
	t := 0
	for _, c := range classes {
		t += c.weight
	}
	x := r.Intn(t)
	for _, c := range classes {
		x -= c.weight
		if x < 0 {
			return c.name
		}
	}
	return classes[0].name
}

const baseS = int64(1700000010) // multiple of 5, 10 and 15 s

// totals are the row counts placed around the reader's batch sizes: ClickhouseGetterPlanner
// batches 100 rows per channel message, ResponseOptimizerPlanner flushes at 3000 rows,
// the label endpoints stream row by row.
var totalsSmall = []int{0, 1, 2, 3, 5, 10, 50, 99, 100, 101, 199, 200, 201, 300}
var totalsBig = []int{999, 1000, 1001, 2999, 3000, 3001, 6001}

func drawTotal(r *rand.Rand, allowBig bool) int {
	if allowBig && r.Intn(12) == 0 {
		return totalsBig[r.Intn(len(totalsBig))]
	}
	return totalsSmall[r.Intn(len(totalsSmall))]
}

// split distributes total rows over n series: random composition, sometimes with a series
// boundary exactly on a batch boundary, sometimes with empty series.
func split(r *rand.Rand, total, n int) []int {
	out := make([]int, n)
	if n == 0 {
		return out
	}
	switch r.Intn(4) {
	case 0: // equal
		for i := range out {
			out[i] = total / n
		}
		out[n-1] += total - (total/n)*n
	case 1: // first series ends exactly on the 100-row batch boundary
		if total >= 100 && n >= 2 {
			out[0] = 100
			rest := split(r, total-100, n-1)
			copy(out[1:], rest)
			break
		}
		fallthrough
	default:
		cuts := make([]int, n-1)
		for i := range cuts {
			cuts[i] = r.Intn(total + 1)
		}
		sort.Ints(cuts)
		prev := 0
		for i, c := range cuts {
			out[i] = c - prev
			prev = c
		}
		out[n-1] = total - prev
	}
	return out
}

func seriesCount(r *rand.Rand, total int) int {
	n := []int{1, 1, 2, 2, 3, 5, 10, 50}[r.Intn(8)]
	if total == 0 {
		return []int{0, 1, 3}[r.Intn(3)]
	}
	return n
}

func hostileOrSafe(r *rand.Rand, p int) string {
	switch x := r.Intn(100); {
	case x < p:
		return rdcat.HostileStr(r, 4)
	case x == 99:
		return ""
	default:
		return rdcat.SafeStr(r, 1, 10)
	}
}

// labelSet draws 1–5 labels; names mostly safe, values hostile with probability p %.
func labelSet(r *rand.Rand, p int, serial int) map[string]string {
	m := map[string]string{"s": fmt.Sprint(serial)} // keeps label sets distinct
	seen := map[string]bool{"s": true}
	for i := 0; i < r.Intn(5); i++ {
		k := rdcat.SafeStr(r, 1, 6)
		if r.Intn(100) < p/3 {
			k = rdcat.HostileStr(r, 2)
		}
		dk := rdcat.JSONDecoded(k)
		if seen[dk] || k == "" {
			continue
		}
		seen[dk] = true
		m[k] = hostileOrSafe(r, p)
	}
	return m
}

func line(r *rand.Rand, p int) string {
	if r.Intn(400) == 0 { // a 64 KiB line
		return strings.Repeat("y"+rdcat.HostilePieces[r.Intn(len(rdcat.HostilePieces))], 33000)[:65536]
	}
	return hostileOrSafe(r, p)
}

func drawFloat(r *rand.Rand, special bool) float64 {
	switch x := r.Intn(10); {
	case x < 5:
		return rdcat.Floats[r.Intn(len(rdcat.Floats))]
	case x == 5 && special:
		return rdcat.SpecialFloats[r.Intn(len(rdcat.SpecialFloats))]
	case x < 8:
		return float64(r.Intn(1000)+1) / []float64{1, 2, 3, 7, 10, 1000, 1e6}[r.Intn(7)]
	default:
		return math.Float64frombits(r.Uint64()&^(0x7ff<<52) | uint64(1+r.Intn(2046))<<52) // any finite normal float
	}
}

// placeFp0 assigns fingerprints and orders the series.
//
//	contract asc/desc: sorted by fingerprint as the ORDER BY demands (0 comes first / last);
//	grouped-unsorted: rows stay grouped by series, series in arbitrary order (fp 0 anywhere).
func orderSeries(r *rand.Rand, n int, asc bool) (fps []uint64, order string) {
	fps = make([]uint64, n)
	used := map[uint64]bool{}
	for i := range fps {
		for {
			v := uint64(r.Int63())<<1 | uint64(r.Intn(2))
			if v != 0 && !used[v] {
				fps[i] = v
				used[v] = true
				break
			}
		}
	}
	withZero := n > 0 && r.Intn(4) == 0
	if withZero {
		fps[r.Intn(n)] = 0
	}
	order = "contract"
	if r.Intn(3) == 0 {
		return fps, "grouped-unsorted"
	}
	sort.Slice(fps, func(i, j int) bool {
		if asc {
			return fps[i] < fps[j]
		}
		return fps[i] > fps[j]
	})
	return fps, order
}

func ns(s int64) string { return fmt.Sprint(s * 1e9) }

func genCase(r *rand.Rand, idx int) *Case {
	c := &Case{Idx: idx, Class: pickClass(r)}
	p := []int{0, 20, 60}[r.Intn(3)] // share of hostile strings
	switch c.Class {
	case "loki.query_range.streams", "loki.query.streams":
		total := drawTotal(r, true)
		n := seriesCount(r, total)
		forward := c.Class == "loki.query_range.streams" && r.Intn(2) == 0
		fps, order := orderSeries(r, n, forward)
		c.Order = order
		sizes := split(r, total, n)
		for i := 0; i < n; i++ {
			s := rdcat.LogSeries{Fp: fps[i], Labels: labelSet(r, p, i)}
			for j := 0; j < sizes[i]; j++ {
				s.Rows = append(s.Rows, rdcat.LogRow{TsNs: 0, Line: line(r, p)})
			}
			c.Logs = append(c.Logs, s)
		}
		if c.Class == "loki.query.streams" {
			stampRows(r, c.Logs, (baseS+3600-300)*1e9, (baseS+3600)*1e9, forward)
			c.Req = rdcat.Req{Method: "GET", Path: "/loki/api/v1/query", RawQuery: rdcat.Q("query", `{a="b"}`, "time", ns(baseS+3600), "limit", "100000")}
		} else {
			stampRows(r, c.Logs, baseS*1e9, (baseS+3600)*1e9, forward)
			dir := "backward"
			if forward {
				dir = "forward"
			}
			c.Req = rdcat.Req{Method: "GET", Path: "/loki/api/v1/query_range", RawQuery: rdcat.Q("query", `{a="b"}`, "start", ns(baseS), "end", ns(baseS+3600), "limit", "100000", "direction", dir)}
		}
	case "loki.query_range.streams.pipeline":
		// `| json` continues in Go: the statement orders by timestamp only, the label set of an
		// entry is the stored one plus the string members of the line, the line is unchanged
		total := drawTotal(r, true)
		if r.Intn(5) == 0 { // the Go-side response optimiser flushes every 3000 rows
			total = []int{2999, 3000, 3001, 3100, 6001}[r.Intn(5)]
		}
		n := seriesCount(r, total)
		sizes := split(r, total, n)
		c.Interleave = true
		for i := 0; i < n; i++ {
			lbl := labelSet(r, 0, i)
			k := rdcat.SafeStr(r, 1, 6)
			s := rdcat.LogSeries{Fp: uint64(r.Int63()) | 1, Labels: lbl}
			lbl["k"] = k
			for j := 0; j < sizes[i]; j++ {
				pay, _ := json.Marshal([]any{j, strings.ToValidUTF8(hostileOrSafe(r, p), "?")})
				s.Rows = append(s.Rows, rdcat.LogRow{Line: `{"k":"` + k + `","i":` + string(pay) + `}`})
			}
			c.Logs = append(c.Logs, s)
		}
		if n > 0 && r.Intn(3) == 0 {
			// a line filter after the parser stage runs in the reader: the kept lines carry KEEPME, and the database
			// also returns runs of more than a hundred lines without it - newer than every kept line (scanned first)
			// and in the middle of them - which the filter drops batch after batch
			for i := range c.Logs {
				for j := range c.Logs[i].Rows {
					c.Logs[i].Rows[j].Line = strings.Replace(c.Logs[i].Rows[j].Line, `"i":[`, `"m":["KEEPME"],"i":[`, 1)
				}
			}
			stampRows(r, c.Logs, baseS*1e9, (baseS+1800)*1e9, false)
			for run, lo := range []int64{baseS + 3000, baseS + 900} {
				d := rdcat.LogSeries{Fp: c.Logs[0].Fp, Labels: c.Logs[0].Labels}
				for j := 0; j < 130+r.Intn(100); j++ {
					d.Rows = append(d.Rows, rdcat.LogRow{TsNs: (lo+int64(j)/2)*1e9 + 500000000 + int64(j%2)*1000 + int64(run), Line: `{"k":"` + c.Logs[0].Labels["k"] + `","i":[` + fmt.Sprint(j) + `,"dropped"]}`})
				}
				c.Dropped = append(c.Dropped, d)
			}
			c.Req = rdcat.Req{Method: "GET", Path: "/loki/api/v1/query_range", RawQuery: rdcat.Q("query", `{a="b"} | json |= "KEEPME"`, "start", ns(baseS), "end", ns(baseS+3600), "limit", "100000")}
			break
		}
		stampRows(r, c.Logs, baseS*1e9, (baseS+3600)*1e9, false)
		c.Req = rdcat.Req{Method: "GET", Path: "/loki/api/v1/query_range", RawQuery: rdcat.Q("query", `{a="b"} | json`, "start", ns(baseS), "end", ns(baseS+3600), "limit", "100000")}
	case "loki.query_range.matrix", "loki.query.vector", "loki.query_range.matrix.pipeline":
		genLokiMatrix(r, c, p)
	case "loki.labels", "prom.labels", "loki.label.values", "prom.label.values", "tempo.tags", "tempo.tag.values", "tempo.v2.tags", "tempo.v2.tag.values":
		total := drawTotal(r, false)
		seen := map[string]bool{}
		for i := 0; i < total; i++ {
			s := hostileOrSafe(r, p) + fmt.Sprint(i)
			if r.Intn(50) == 0 {
				s = line(r, 100)
			}
			d := rdcat.JSONDecoded(s)
			if seen[d] {
				continue
			}
			seen[d] = true
			c.Strings = append(c.Strings, s)
		}
		nsT := rdcat.Q("start", ns(baseS), "end", ns(baseS+3600))
		sT := rdcat.Q("start", fmt.Sprint(baseS), "end", fmt.Sprint(baseS+3600))
		switch c.Class {
		case "loki.labels":
			c.Req = rdcat.Req{Method: "GET", Path: "/loki/api/v1/labels", RawQuery: nsT}
		case "loki.label.values":
			c.Req = rdcat.Req{Method: "GET", Path: "/loki/api/v1/label/job/values", RawQuery: nsT}
			if r.Intn(2) == 0 {
				c.Req.RawQuery += "&" + rdcat.Q("query", `{a="b"}`)
			}
		case "prom.labels":
			c.Req = rdcat.Req{Method: "GET", Path: "/api/v1/labels", RawQuery: sT}
		case "prom.label.values":
			c.Req = rdcat.Req{Method: "GET", Path: "/api/v1/label/job/values", RawQuery: sT}
			if r.Intn(2) == 0 {
				c.Req.RawQuery += "&" + rdcat.Q("match[]", `up{job="x"}`)
			}
		case "tempo.tags":
			c.Req = rdcat.Req{Method: "GET", Path: "/api/search/tags"}
		case "tempo.tag.values":
			c.Req = rdcat.Req{Method: "GET", Path: "/api/search/tag/service.name/values"}
		case "tempo.v2.tags":
			c.Req = rdcat.Req{Method: "GET", Path: "/api/v2/search/tags", RawQuery: sT}
			if r.Intn(2) == 0 {
				c.Req.RawQuery += "&" + rdcat.Q("q", `{.a="b"}`)
			}
		case "tempo.v2.tag.values":
			c.Req = rdcat.Req{Method: "GET", Path: "/api/v2/search/tag/.service.name/values", RawQuery: sT + "&" + rdcat.Q("q", `{.a="b"}`)}
		}
	case "loki.series", "prom.series":
		total := drawTotal(r, false)
		for i := 0; i < total; i++ {
			c.Docs = append(c.Docs, labelSet(r, p, i))
		}
		c.RawDocs = r.Intn(2) == 0
		if c.Class == "loki.series" {
			c.Req = rdcat.Req{Method: "GET", Path: "/loki/api/v1/series", RawQuery: rdcat.Q("match[]", `{a="b"}`, "start", ns(baseS), "end", ns(baseS+3600))}
		} else {
			c.Req = rdcat.Req{Method: "GET", Path: "/api/v1/series", RawQuery: rdcat.Q("match[]", `up{job="x"}`, "start", fmt.Sprint(baseS), "end", fmt.Sprint(baseS+3600))}
		}
	case "prom.query_range", "prom.query_range.downsampled", "prom.query.vector", "prom.query.scalar":
		genProm(r, c, p)
	case "tempo.trace":
		total := []int{0, 1, 2, 3, 10, 99, 100, 101, 500}[r.Intn(9)]
		tid := rdcat.HexID(r, 16)
		seen := map[string]bool{}
		for i := 0; i < total; i++ {
			s := rdcat.Span{TraceID: tid, SpanID: rdcat.HexID(r, 8), TsNs: baseS*1e9 + int64(i)*1000 + int64(r.Intn(1000)), DurNs: int64(r.Intn(1e9)), PayloadType: 1 + r.Intn(2),
				Name: strings.ToValidUTF8(hostileOrSafe(r, p), "?"), Service: rdcat.SafeStr(r, 1, 6)}
			if seen[s.SpanID] {
				continue
			}
			seen[s.SpanID] = true
			if i > 0 && len(c.Spans) > 0 && r.Intn(6) == 0 {
				// the other half of a shared span: same span id, its own row (start time, name)
				s.SpanID = c.Spans[r.Intn(len(c.Spans))].SpanID
			}
			if r.Intn(3) == 0 {
				s.ParentID = rdcat.HexID(r, 8)
			}
			tk := map[string]bool{"service.name": true}
			for j := 0; j < r.Intn(4); j++ {
				k := strings.ToValidUTF8(hostileOrSafe(r, p/2), "?")
				if k == "" || tk[k] || strings.HasPrefix(k, "localEndpoint") || strings.HasPrefix(k, "remoteEndpoint") {
					continue
				}
				tk[k] = true
				s.Tags = append(s.Tags, [2]string{k, strings.ToValidUTF8(hostileOrSafe(r, p), "?")})
			}
			if s.PayloadType == 2 && r.Intn(3) == 0 {
				// numeric attributes: 64-bit integers no double holds (ids, nanosecond clocks, offsets), and doubles
				ints := []int64{1700000000123456789, 9007199254740993, -9007199254740993, math.MaxInt64, math.MinInt64, 0, -1, 404, 1 << 53, r.Int63()}
				dbls := []float64{2.5e6, 0.1, 1e21, 5e-324, -0.0, 1.7976931348623157e308, 123456789.125, float64(r.Int63()) / 3}
				for j := 0; j < 1+r.Intn(3); j++ {
					k := fmt.Sprintf("num.%d", j)
					if r.Intn(2) == 0 {
						s.Nums = append(s.Nums, rdcat.NumTag{Key: k, Int: ints[r.Intn(len(ints))], IsInt: true})
					} else {
						s.Nums = append(s.Nums, rdcat.NumTag{Key: k, Dbl: dbls[r.Intn(len(dbls))]})
					}
				}
			}
			c.Spans = append(c.Spans, s)
		}
		c.Req = rdcat.Req{Method: "GET", Path: "/api/traces/" + tid}
	case "tempo.search.tags":
		total := []int{0, 1, 2, 3, 20, 100, 101}[r.Intn(7)]
		for i := 0; i < total; i++ {
			c.Hits = append(c.Hits, rdcat.TraceHit{TraceID: strings.ToUpper(rdcat.HexID(r, 16)), Service: hostileOrSafe(r, p), Name: hostileOrSafe(r, p), StartNs: baseS*1e9 + r.Int63n(3600e9), DurMs: r.Int63n(100000)})
		}
		c.Req = rdcat.Req{Method: "GET", Path: "/api/search", RawQuery: rdcat.Q("tags", `service.name="x"`, "start", fmt.Sprint(baseS), "end", fmt.Sprint(baseS+3600), "limit", "1000")}
	case "tempo.search.traceql":
		total := []int{0, 1, 2, 3, 20, 100, 101}[r.Intn(7)]
		if r.Intn(3) == 0 {
			c.Portioned = true
			total = []int{0, 0, 1}[r.Intn(3)]
		}
		for i := 0; i < total; i++ {
			t := rdcat.TQLTrace{TraceID: rdcat.HexID(r, 16), Service: hostileOrSafe(r, p), Name: hostileOrSafe(r, p), StartNs: baseS*1e9 + r.Int63n(3600e9),
				DurMs: math.Abs(drawFloat(r, false))}
			if math.IsInf(t.DurMs, 0) || t.DurMs > 1e300 {
				t.DurMs = 12.5
			}
			for j := 0; j < r.Intn(5); j++ {
				t.SpanIDs = append(t.SpanIDs, rdcat.HexID(r, 8))
				t.DurNs = append(t.DurNs, r.Int63n(1e9))
				t.TsNs = append(t.TsNs, t.StartNs+int64(j)*1000+1)
			}
			c.TQL = append(c.TQL, t)
		}
		c.Req = rdcat.Req{Method: "GET", Path: "/api/search", RawQuery: rdcat.Q("q", `{.a="b"}`, "start", fmt.Sprint(baseS), "end", fmt.Sprint(baseS+3600), "limit", "1000")}
	}
	return c
}

// stampRows gives every row a distinct ns timestamp inside [from,to), ordered within a
// series as the statement orders them.
func stampRows(r *rand.Rand, ss []rdcat.LogSeries, from, to int64, asc bool) {
	used := map[int64]bool{}
	for i := range ss {
		n := len(ss[i].Rows)
		ts := make([]int64, 0, n)
		for len(ts) < n {
			var t int64
			switch r.Intn(8) {
			case 0:
				t = from + int64(r.Intn(3))
			case 1:
				t = to - 1 - int64(r.Intn(3))
			case 2:
				t = from + r.Int63n((to-from)/1e9)*1e9 // whole seconds
			default:
				t = from + r.Int63n(to-from)
			}
			if used[t] {
				continue
			}
			used[t] = true
			ts = append(ts, t)
		}
		sort.Slice(ts, func(a, b int) bool {
			if asc {
				return ts[a] < ts[b]
			}
			return ts[a] > ts[b]
		})
		for j := range ss[i].Rows {
			ss[i].Rows[j].TsNs = ts[j]
		}
	}
}

func genLokiMatrix(r *rand.Rand, c *Case, p int) {
	const dS = 5 // range of the query: [5s]
	total := drawTotal(r, c.Class == "loki.query_range.matrix")
	n := seriesCount(r, total)
	sizes := split(r, total, n)
	maxRows := 0
	for _, s := range sizes {
		maxRows = max(maxRows, s)
	}
	special := r.Intn(6) == 0
	switch c.Class {
	case "loki.query.vector":
		// window = [time-300s, time], step 5 s: 61 slots
		stepS := int64(5)
		for i := range sizes {
			sizes[i] = min(sizes[i], 61)
		}
		fps, order := orderSeries(r, n, true)
		c.Order = order
		from := baseS + 3600 - 300
		for i := 0; i < n; i++ {
			s := rdcat.LogSeries{Fp: fps[i], Labels: labelSet(r, p, i)}
			for _, k := range pickSlots(r, 61, sizes[i]) {
				s.Rows = append(s.Rows, rdcat.LogRow{TsNs: (from + int64(k)*stepS) * 1e9, Value: drawFloat(r, special)})
			}
			c.Logs = append(c.Logs, s)
		}
		c.FromNs, c.StepNs, c.FillNs = from*1e9, stepS*1e9, dS*1e9
		q := `rate({a="b"}[5s])`
		if special {
			q = `avg_over_time({a="b"} | json v="v" | unwrap v [5s]) by (a)`
		}
		c.Req = rdcat.Req{Method: "GET", Path: "/loki/api/v1/query", RawQuery: rdcat.Q("query", q, "time", ns(baseS+3600), "step", "5", "limit", "100")}
	case "loki.query_range.matrix":
		stepMs := []int64{5000, 5000, 10000, 1000, 500, 15000}[r.Intn(6)]
		// rows lie on multiples of the range (the statement emits intDiv(ts, 5s)*5s) that are also on the step grid
		gridMs := stepMs
		if gridMs < dS*1000 {
			gridMs = dS * 1000
		}
		slots := min(max(720, 2*maxRows+2), 10000) // at most 11000 steps, as Prometheus allows
		fps, order := orderSeries(r, n, true)
		c.Order = order
		for i := 0; i < n; i++ {
			s := rdcat.LogSeries{Fp: fps[i], Labels: labelSet(r, p, i)}
			for _, k := range pickSlots(r, slots*int(stepMs)/int(gridMs), sizes[i]) {
				s.Rows = append(s.Rows, rdcat.LogRow{TsNs: baseS*1e9 + int64(k)*gridMs*1e6, Value: drawFloat(r, special)})
			}
			c.Logs = append(c.Logs, s)
		}
		end := baseS + int64(slots)*stepMs/1000
		c.FromNs, c.StepNs, c.FillNs = baseS*1e9, stepMs*1e6, dS*1e9
		q := `rate({a="b"}[5s])`
		if special {
			q = `avg_over_time({a="b"} | json v="v" | unwrap v [5s]) by (a)`
		}
		c.Req = rdcat.Req{Method: "GET", Path: "/loki/api/v1/query_range", RawQuery: rdcat.Q("query", q, "start", ns(baseS), "end", ns(end), "step", fmt.Sprintf("%g", float64(stepMs)/1000), "limit", "100")}
	case "loki.query_range.matrix.pipeline":
		// count_over_time over a Go-side pipeline: the statement returns log rows ordered by time
		c.Interleave = true
		for i := 0; i < n; i++ {
			lbl := labelSet(r, 0, i)
			k := rdcat.SafeStr(r, 1, 6)
			lbl["k"] = k
			s := rdcat.LogSeries{Fp: uint64(r.Int63()) | 1, Labels: lbl}
			for j := 0; j < sizes[i]; j++ {
				s.Rows = append(s.Rows, rdcat.LogRow{Line: `{"k":"` + k + `"}`})
			}
			c.Logs = append(c.Logs, s)
		}
		stampRows(r, c.Logs, baseS*1e9, (baseS+3600)*1e9, false)
		c.FromNs, c.StepNs, c.FillNs = baseS*1e9, 5e9, dS*1e9
		c.Req = rdcat.Req{Method: "GET", Path: "/loki/api/v1/query_range", RawQuery: rdcat.Q("query", `count_over_time({a="b"} | json [5s])`, "start", ns(baseS), "end", ns(baseS+3600), "step", "5", "limit", "100")}
	}
	for _, s := range c.Logs {
		for _, row := range s.Rows {
			if math.IsNaN(row.Value) || math.IsInf(row.Value, 0) {
				c.ValidityOnly = true
			}
		}
	}
}

// pickSlots draws k distinct slot indices out of n, ascending; often a dense prefix/suffix.
func pickSlots(r *rand.Rand, n, k int) []int {
	if k > n {
		k = n
	}
	out := make([]int, 0, k)
	switch r.Intn(4) {
	case 0: // dense from the start
		for i := 0; i < k; i++ {
			out = append(out, i)
		}
	case 1: // dense up to the end
		for i := n - k; i < n; i++ {
			out = append(out, i)
		}
	default:
		perm := r.Perm(n)[:k]
		sort.Ints(perm)
		out = perm
	}
	return out
}

func genProm(r *rand.Rand, c *Case, p int) {
	total := drawTotal(r, c.Class == "prom.query_range")
	genPromSized(r, c, p, total, seriesCount(r, total))
}

// bigPromCase: a query_range answer of several MiB (a few series of ~9000 points each), for the clients on a
// slow link in the concurrent lane.
func bigPromCase(r *rand.Rand, idx int) *Case {
	c := &Case{Idx: idx, Class: "prom.query_range"}
	n := 4 + r.Intn(4)
	genPromSized(r, c, 0, n*9000, n)
	return c
}

func genPromSized(r *rand.Rand, c *Case, p int, total, n int) {
	if c.Class == "prom.query.scalar" {
		n = 1
		total = 1 + r.Intn(3)
	}
	sizes := split(r, total, n)
	special := r.Intn(8) == 0 && c.Class != "prom.query.scalar"
	fps, order := orderSeries(r, n, true)
	c.Order = order
	mk := func(i int) rdcat.PromSeries {
		lbl := labelSet(r, p, i)
		ps := rdcat.PromSeries{Fp: fps[i], Labels: [][2]string{{"__name__", "up"}}}
		ks := make([]string, 0, len(lbl))
		for k := range lbl {
			ks = append(ks, k)
		}
		sort.Strings(ks)
		for _, k := range ks {
			if k == "__name__" {
				continue
			}
			ps.Labels = append(ps.Labels, [2]string{k, lbl[k]})
		}
		return ps
	}
	switch c.Class {
	case "prom.query_range", "prom.query_range.downsampled":
		stepS := int64(5)
		if c.Class == "prom.query_range.downsampled" {
			stepS = 15
			c.TsShiftNs = 1e6 // the statement returns bucket timestamps minus 1 ms
		}
		maxRows := 0
		for _, s := range sizes {
			maxRows = max(maxRows, s)
		}
		slots := min(max(720, 2*maxRows+1), 10000)
		slots -= slots % 3
		// steps with a millisecond part (5.05 s, 1.005 s, 2.5 s): the points' times then have millisecond parts, some
		// below 100 (rendered with leading zeros: .050, .005)
		stepMs, stepStr := stepS*1000, fmt.Sprint(stepS)
		if c.Class == "prom.query_range" {
			stepStr = []string{"5", "5", "5.05", "1.005", "2.5"}[r.Intn(5)]
			// the step in force is what the API's duration parser makes of the text (float seconds -> nanoseconds,
			// truncated; the engine then works in whole milliseconds): 1.005 is 1004 ms
			f, _ := strconv.ParseFloat(stepStr, 64)
			stepMs = int64(f*1e9) / 1e6
		}
		for i := 0; i < n; i++ {
			ps := mk(i)
			for _, k := range pickSlots(r, slots+1, min(sizes[i], slots+1)) {
				ts := baseS*1000 + int64(k)*stepMs
				if c.TsShiftNs != 0 {
					ts--
				}
				ps.Samples = append(ps.Samples, rdcat.PromSample{TsMs: ts, V: drawFloat(r, special)})
			}
			c.Prom = append(c.Prom, ps)
		}
		c.FromNs, c.StepNs, c.FillNs = baseS*1e9, stepMs*1e6, 300e9
		endS := baseS + (int64(slots)*stepMs+999)/1000
		c.Req = rdcat.Req{Method: "GET", Path: "/api/v1/query_range", RawQuery: rdcat.Q("query", `up`, "start", fmt.Sprint(baseS), "end", fmt.Sprint(endS), "step", stepStr)}
	case "prom.query.vector", "prom.query.scalar":
		evalS := baseS + 3600
		for i := 0; i < n; i++ {
			ps := mk(i)
			for _, k := range pickSlots(r, 299, min(sizes[i], 299)) {
				ps.Samples = append(ps.Samples, rdcat.PromSample{TsMs: (evalS-298+int64(k))*1000 + int64(r.Intn(2))*int64(r.Intn(1000)), V: drawFloat(r, special)})
			}
			for j := range ps.Samples {
				if ps.Samples[j].TsMs > evalS*1000 {
					ps.Samples[j].TsMs = evalS * 1000
				}
			}
			c.Prom = append(c.Prom, ps)
		}
		c.EvalNs = evalS * 1e9
		q := "up"
		if c.Class == "prom.query.scalar" {
			q = "scalar(up)"
		}
		c.Req = rdcat.Req{Method: "GET", Path: "/api/v1/query", RawQuery: rdcat.Q("query", q, "time", fmt.Sprint(evalS))}
	}
	for _, s := range c.Prom {
		for _, row := range s.Samples {
			if math.IsNaN(row.V) || math.IsInf(row.V, 0) {
				c.ValidityOnly = true
			}
		}
	}
}

// rawLabelDoc writes a label document the way a byte-transparent encoder does: only the
// characters JSON requires are escaped, bytes >= 0x20 (also invalid UTF-8) are copied.
func rawLabelDoc(m map[string]string) string {
	ks := make([]string, 0, len(m))
	for k := range m {
		ks = append(ks, k)
	}
	sort.Strings(ks)
	esc := func(s string) string {
		var sb strings.Builder
		sb.WriteByte('"')
		for i := 0; i < len(s); i++ {
			b := s[i]
			switch {
			case b == '"' || b == '\\':
				sb.WriteByte('\\')
				sb.WriteByte(b)
			case b < 0x20:
				fmt.Fprintf(&sb, `\u%04x`, b)
			default:
				sb.WriteByte(b)
			}
		}
		sb.WriteByte('"')
		return sb.String()
	}
	var sb strings.Builder
	sb.WriteByte('{')
	for i, k := range ks {
		if i > 0 {
			sb.WriteByte(',')
		}
		sb.WriteString(esc(k) + ":" + esc(m[k]))
	}
	sb.WriteByte('}')
	return sb.String()
}

// rows renders the scripted answer of the case for a statement kind.
func (c *Case) rows(k rdcat.Kind) [][]driver.Value {
	switch k {
	case rdcat.KStreams:
		if c.Interleave {
			return rdcat.InterleavedStreamsRows(append(append([]rdcat.LogSeries{}, c.Logs...), c.Dropped...), false)
		}
		return rdcat.StreamsRows(c.Logs)
	case rdcat.KMatrix:
		return rdcat.MatrixRows(c.Logs)
	case rdcat.KPromSamples:
		return rdcat.PromSampleRows(c.Prom)
	case rdcat.KPromLabels:
		return rdcat.PromLabelRows(c.Prom)
	case rdcat.KLabelKeys, rdcat.KLabelVals, rdcat.KTempoKeys, rdcat.KTempoVals:
		return rdcat.StringRows(c.Strings)
	case rdcat.KSeries:
		var docs []string
		for _, d := range c.Docs {
			if c.RawDocs {
				docs = append(docs, rawLabelDoc(d))
			} else {
				b, _ := json.Marshal(d)
				docs = append(docs, string(b))
			}
		}
		return rdcat.StringRows(docs)
	case rdcat.KTraceSpans:
		return rdcat.SpanRows(c.Spans)
	case rdcat.KTempoSearch:
		return rdcat.TraceHitRows(c.Hits)
	case rdcat.KTQLCount:
		if c.Portioned {
			return [][]driver.Value{{int64(25000000)}}
		}
		return [][]driver.Value{{int64(5)}}
	case rdcat.KTQLTraces:
		return rdcat.TQLRows(c.TQL)
	}
	return nil
}

func matrixSeriesOfLogs(ss []rdcat.LogSeries) []rdcat.MatrixSeries {
	var out []rdcat.MatrixSeries
	for _, s := range ss {
		m := rdcat.MatrixSeries{Key: rdcat.LabelKey(s.Labels), Name: fmt.Sprintf("fp=%d", s.Fp)}
		for _, r := range s.Rows {
			m.Points = append(m.Points, rdcat.Point{TsNs: r.TsNs, V: r.Value})
		}
		out = append(out, m)
	}
	return out
}

func matrixSeriesOfProm(ss []rdcat.PromSeries, shift int64) []rdcat.MatrixSeries {
	var out []rdcat.MatrixSeries
	for _, s := range ss {
		lm := map[string]string{}
		for _, kv := range s.Labels {
			lm[kv[0]] = kv[1]
		}
		m := rdcat.MatrixSeries{Key: rdcat.LabelKey(lm), Name: fmt.Sprintf("fp=%d", s.Fp)}
		for _, p := range s.Samples {
			m.Points = append(m.Points, rdcat.Point{TsNs: p.TsMs*1e6 + shift, V: p.V})
		}
		out = append(out, m)
	}
	return out
}

// validate judges the body against the case.
func (c *Case) validate(body []byte) []rdcat.Finding {
	switch c.Class {
	case "loki.query_range.streams", "loki.query.streams":
		return rdcat.ValidateStreams(body, c.Logs)
	case "loki.query_range.streams.pipeline":
		exp := make([]rdcat.LogSeries, len(c.Logs))
		copy(exp, c.Logs)
		return rdcat.ValidateStreams(body, exp)
	case "loki.query_range.matrix":
		return rdcat.ValidateMatrix(body, matrixSeriesOfLogs(c.Logs), rdcat.MatrixOpts{FillNs: c.FillNs, FromNs: c.FromNs, StepNs: c.StepNs, ZeroDropped: true})
	case "loki.query_range.matrix.pipeline":
		ms := matrixSeriesOfLogs(c.Logs)
		return rdcat.ValidateMatrix(body, ms, rdcat.MatrixOpts{FillNs: c.FillNs, FromNs: c.FromNs, StepNs: c.StepNs, ShapeOnly: true})
	case "loki.query.vector":
		return rdcat.ValidateVector(body, matrixSeriesOfLogs(c.Logs), rdcat.MatrixOpts{FillNs: c.FillNs, ZeroDropped: true}, 0)
	case "loki.labels", "loki.label.values", "prom.labels", "prom.label.values":
		return rdcat.ValidateStringList(body, "data", c.Strings)
	case "tempo.tags":
		return rdcat.ValidateStringList(body, "tagNames", c.Strings)
	case "tempo.tag.values":
		return rdcat.ValidateStringList(body, "tagValues", c.Strings)
	case "tempo.v2.tags":
		return rdcat.ValidateTagsV2(body, c.Strings)
	case "tempo.v2.tag.values":
		return rdcat.ValidateValuesV2(body, c.Strings)
	case "loki.series", "prom.series":
		return rdcat.ValidateSeriesList(body, c.Docs)
	case "prom.query_range", "prom.query_range.downsampled":
		return rdcat.ValidateMatrix(body, matrixSeriesOfProm(c.Prom, c.TsShiftNs), rdcat.MatrixOpts{FillNs: c.FillNs, FromNs: c.FromNs, StepNs: c.StepNs})
	case "prom.query.vector":
		return rdcat.ValidateVector(body, matrixSeriesOfProm(c.Prom, 0), rdcat.MatrixOpts{}, c.EvalNs)
	case "prom.query.scalar":
		var last *rdcat.PromSample
		for i := range c.Prom[0].Samples {
			s := &c.Prom[0].Samples[i]
			if last == nil || s.TsMs >= last.TsMs {
				last = s
			}
		}
		return rdcat.ValidateScalar(body, last.V, c.EvalNs)
	case "tempo.trace":
		return rdcat.ValidateTrace(body, c.Spans)
	case "tempo.search.tags":
		return rdcat.ValidateSearch(body, c.Hits)
	case "tempo.search.traceql":
		return rdcat.ValidateTQL(body, c.TQL)
	}
	return []rdcat.Finding{{Rule: "harness", Detail: "no validator for " + c.Class}}
}
