// Package c04: series identity depends only on the label set; every sample's series is indexed.
// Three monitors: (1) fingerprints / label documents from the exported parsers across
// permutations and protocols, (2) series-row conservation over push histories with cache
// resets, failed series inserts and client retries, (3) the same in several process time zones.
package c04

import (
	"bytes"
	"context"
	"fmt"
	"sort"
	"strings"
	"time"

	chproto "github.com/ClickHouse/ch-go/proto"
	clconfig "github.com/metrico/cloki-config"
	"github.com/metrico/cloki-config/config"
	wconfig "github.com/metrico/qryn/writer/config"
	wmodel "github.com/metrico/qryn/writer/model"
	"github.com/metrico/qryn/writer/utils/numbercache"
	"github.com/metrico/qryn/writer/utils/unmarshal"

	"verif/harness/engines/chw"
	"verif/harness/engines/gen"
	"verif/harness/engines/run"
	"verif/harness/props/reg"
)

func init() {
	reg.Register(&reg.Prop{ID: "C04", Level: "exploration", Main: Main, Child: Child})
}

type childCfg struct {
	Mode      string        `json:"mode"` // fp | history
	FPType    uint          `json:"fp_type"`
	N         int           `json:"n"`
	Start     int           `json:"start"`
	Writer    chw.WriterCfg `json:"writer"`
	TZ        string        `json:"tz"`
	Histories int           `json:"histories"`
}

func Main(c *run.Ctx) {
	c.SetRule("(1) random label sets (hostile bytes in values) × random permutations × every protocol that can carry the set unchanged → fingerprints and label documents from the exported parsers; " +
		"(2) histories of pushes over days with cache resets, failed series inserts followed by client retries, clustered and single mode; (3) the same histories in process time zones east and west of UTC with samples at UTC and local midnight ± 1 s; " +
		"distinct key = monitor × protocol/operation sequence class × zone")
	c.Assume("read-side search rule for a sample at t: a series row dated d is discoverable iff date(t − 30 min) ≤ d ≤ date(t) in UTC (lower bound FormatFromDate(from=t), upper bound of the labels/series endpoints for to=t)")
	c.Assume("fingerprint collisions are judged for the default CityHash type only; the optional Bernstein type is 32-bit")
	nsets := c.Pick(2000, 100000)
	for _, fpt := range []uint{1, 0} { // 1 = CityHash (default), 0 = Bernstein
		n := nsets
		if fpt == 0 {
			n = nsets / 4
		}
		out := c.RunChild(run.ChildSpec{Prop: "C04", Name: "fp", Cfg: childCfg{Mode: "fp", FPType: fpt, N: n}, Timeout: 45 * time.Minute})
		childEnd(c, out, "fp")
	}
	zones := []string{"UTC", "America/New_York", "Asia/Tokyo"}
	if !c.Quick() {
		zones = []string{"UTC", "America/New_York", "Pacific/Honolulu", "Asia/Tokyo", "Pacific/Kiritimati", "Europe/Berlin", "America/St_Johns"}
	}
	hist := c.Pick(10, 70)
	k := 0
	for _, tz := range zones {
		for _, wc := range []chw.WriterCfg{
			{DBTimer: 0.002, RetryAttempts: 1, ChannelsSample: 1, ChannelsTimeSeries: 1},
			{DBTimer: 0.002, RetryAttempts: 2, ChannelsSample: 2, ChannelsTimeSeries: 2, CacheTTLms: 40},
			{DBTimer: 0.003, RetryAttempts: 1, ChannelsSample: 2, ChannelsTimeSeries: 1, ClusterName: "cl"},
		} {
			cc := childCfg{Mode: "history", Writer: wc, TZ: tz, Histories: hist, Start: k * hist}
			out := c.RunChild(run.ChildSpec{Prop: "C04", Name: "history", Cfg: cc, Env: []string{"TZ=" + tz}, Timeout: 45 * time.Minute})
			childEnd(c, out, "history/"+tz)
			k++
		}
	}
	c.Floor("label sets fingerprinted", nsets, 0)
	c.Floor("series-cache operations checked against the model", 1000, 0)
	c.Floor("neighbouring label sets fingerprinted", 100, 0)
	c.Floor("acknowledged samples checked for a discoverable series row", 200, 0)
	c.Floor("histories with a failed series insert followed by a client retry", 1, 0)
	c.Floor("pushes whose first series insert attempt fails", 1, 0)
	c.Floor("histories with a cache reset between pushes", 1, 0)
	c.Floor("samples within 1 s of UTC or local midnight", 10, 0)
	c.Floor("bodies listing one stream twice with entries on different days", 3, 0)
	c.Floor("pushes with one stream's entries on several UTC days and out of time order", 10, 0)
}

func childEnd(c *run.Ctx, out run.ChildOutcome, what string) {
	if out.Completed {
		return
	}
	if out.TimedOut {
		c.Undecided("child watchdog expired (" + what + ")")
		return
	}
	head, frame := run.PanicHead(out.Stderr)
	c.Violation("child-death/"+what+"/"+frame, fmt.Sprintf("child (%s) died: %s %s", what, head, frame), map[string]any{"stderr": tailS(out.Stderr, 4000)})
}

func tailS(s string, n int) string {
	if len(s) > n {
		return s[len(s)-n:]
	}
	return s
}

func Child(c *run.Ctx, name string) {
	var cfg childCfg
	if err := run.ChildCfg(&cfg); err != nil {
		panic(err)
	}
	switch cfg.Mode {
	case "fp":
		childFP(c, cfg)
		if cfg.FPType == 1 {
			childCacheViews(c, cfg)
		}
	case "history":
		childHistory(c, cfg)
	}
}

// ---- monitor 1 ----

type nocache struct{}

func (nocache) CheckAndSet(k uint64) bool              { return false }
func (n nocache) DB(string) numbercache.ICache[uint64] { return n }

type parsed struct {
	fps  []uint64
	docs []string
	err  error
}

func runParser(fn unmarshal.ParsingFunction, ctx context.Context, body []byte) parsed {
	var p parsed
	for r := range fn(ctx, bytes.NewReader(body), nocache{}) {
		if r.Error != nil {
			p.err = r.Error
			continue
		}
		if ts, ok := r.TimeSeriesRequest.(*wmodel.TimeSeriesData); ok && ts != nil {
			p.fps = append(p.fps, ts.MFingerprint...)
			p.docs = append(p.docs, ts.MLabels...)
		}
	}
	return p
}

var fpProtos = []string{"loki-json-values", "loki-json-entries", "loki-proto", "remote-write", "otlp-logs"}

func parserFor(proto string) (unmarshal.ParsingFunction, context.Context) {
	ctx := context.Background()
	switch proto {
	case "loki-json-values", "loki-json-entries":
		return unmarshal.DecodePushRequestStringV2, ctx
	case "loki-proto":
		return unmarshal.UnmarshalProtoV2, ctx
	case "remote-write":
		return unmarshal.UnmarshallMetricsWriteProtoV2, ctx
	case "otlp-logs":
		return unmarshal.UnmarshalOTLPLogsV2, ctx
	}
	panic(proto)
}

// bodyFor renders one stream with the given ordered label list in the protocol (snappy
// framing is undone: the exported parsers receive what the middleware hands them).
func bodyFor(c *run.Ctx, proto string, labels [][2]string, i int) []byte {
	return bodyForN(c, proto, labels, i, 1)
}

// bodyForN: one stream with n entries (the parsers hand a long stream on in several calls / chunks).
func bodyForN(c *run.Ctx, proto string, labels [][2]string, i, n int) []byte {
	r := c.Rng(fmt.Sprintf("c04/body/%d/%s", i, proto))
	es := make([]gen.Entry, n)
	for k := range es {
		es[k] = gen.Entry{TsNs: 1700000000000000000 + int64(k)*1000000, Line: "l", HasLine: proto != "remote-write", HasValue: proto == "remote-write", Value: 1}
	}
	lc := gen.LogCase{Streams: []gen.Stream{{SID: "x", Labels: labels, Entries: es}}}
	rq := gen.Render(r, proto, lc)
	if proto == "loki-proto" || proto == "remote-write" {
		b, err := gen.Unsnappy(rq.Body)
		if err != nil {
			panic(err)
		}
		return b
	}
	return rq.Body
}

func childFP(c *run.Ctx, cfg childCfg) {
	cl := clconfig.New(clconfig.CLOKI_WRITER, nil, "", "")
	cl.Setting.FingerPrintType = cfg.FPType
	wconfig.Cloki = cl
	seen := map[uint64]string{} // fingerprint → canonical label set
	names := []string{"app", "env", "host", "job", "level", "pod", "zone", "k8s_ns", "a", "b", "c_1", "_x", "Z9"}
	collisions := 0
	for i := 0; i < cfg.N; i++ {
		r := c.Rng(fmt.Sprintf("c04/set/%d/%d", cfg.FPType, i))
		n := 1 + r.Intn(6)
		perm := r.Perm(len(names))
		var labels [][2]string
		hostile := i%2 == 0
		for j := 0; j < n; j++ {
			v := gen.SafeStr(r, 1, 8)
			if hostile && r.Intn(2) == 0 {
				v = gen.HostileStr(r, 4)
				if len(v) > 90 {
					v = strings.ToValidUTF8(v[:60], "")
				}
			}
			if v == "" {
				v = "v"
			}
			labels = append(labels, [2]string{names[perm[j]], v})
		}
		// the reserved label __ttl_days__ (sets the rows' retention, is not part of the series) at any position of
		// the list, for one set in six; one set in twelve is pushed as a long stream (2500 entries: remote write is
		// handed on every 1000 samples, the Loki parsers cut chunks) whose rows must all belong to one series
		ttlAt := -1
		if i%6 == 1 {
			ttlAt = r.Intn(len(labels) + 1)
		}
		entries := 1
		if i%12 == 1 || i%12 == 8 {
			entries = 2500
		}
		withTTL := func(ls [][2]string) [][2]string {
			if ttlAt < 0 {
				return ls
			}
			at := min(ttlAt, len(ls))
			out := append([][2]string{}, ls[:at]...)
			out = append(out, [2]string{"__ttl_days__", "7"})
			return append(out, ls[at:]...)
		}
		canon := canonical(labels)
		var ref uint64
		var refDoc string
		protosUsed := 0
		for pi, proto := range fpProtos {
			if i%len(fpProtos) != pi && pi != 0 && !(entries > 1 && proto == "remote-write") {
				continue // every set goes through Loki JSON and one more protocol (long streams: remote write as well)
			}
			for rep := 0; rep < 2; rep++ {
				ls := append([][2]string{}, labels...)
				if rep == 1 {
					r.Shuffle(len(ls), func(a, b int) { ls[a], ls[b] = ls[b], ls[a] })
				}
				fn, ctx := parserFor(proto)
				p := runParser(fn, ctx, bodyForN(c, proto, withTTL(ls), i, entries))
				if ttlAt >= 0 {
					c.Floor("label sets carrying the reserved retention label", 0, 1)
				}
				if entries > 1 && p.err == nil && len(p.fps) > 0 {
					c.Floor("long streams (2500 entries) fingerprinted", 0, 1)
					docSet := func(d string) string {
						if m, err := gen.StrictJSONStringMap([]byte(d)); err == nil {
							return canonicalMap(m)
						}
						return "not JSON: " + d
					}
					for k := range p.fps {
						// the documents may list the keys in another order (OTLP builds them per record); what they
						// decode to must be one set
						if p.fps[k] != p.fps[0] || (p.docs[k] != p.docs[0] && docSet(p.docs[k]) != docSet(p.docs[0])) {
							c.Violation("fingerprint-depends-on-position-in-request", fmt.Sprintf("label set %s pushed as one stream of %d entries via %s: series row %d has fingerprint %d and document %q, row 0 has %d and %q",
								canon, entries, proto, k, p.fps[k], p.docs[k], p.fps[0], p.docs[0]), map[string]any{"labels": withTTL(ls), "proto": proto, "fp_type": cfg.FPType, "entries": entries})
							break
						}
					}
				}
				if p.err != nil || len(p.fps) == 0 {
					c.Violation("parser-rejects/"+proto, fmt.Sprintf("well-formed one-stream %s body rejected: %v", proto, p.err), map[string]any{"labels": ls, "fp_type": cfg.FPType})
					continue
				}
				protosUsed++
				if ref == 0 && refDoc == "" {
					ref, refDoc = p.fps[0], p.docs[0]
				}
				if p.fps[0] != ref {
					what := "permutation"
					if rep == 0 {
						what = "protocol"
					}
					c.Violation("fingerprint-depends-on-"+what, fmt.Sprintf("label set %s: fingerprint %d via %s (order %d) but %d via loki-json-values", canon, p.fps[0], proto, rep, ref),
						map[string]any{"labels": ls, "proto": proto, "fp_type": cfg.FPType})
				}
				// the stored document is valid JSON decoding to exactly the set
				m, err := gen.StrictJSONStringMap([]byte(p.docs[0]))
				if err != nil {
					c.Violation("label-document-invalid-json/"+classOfBadByte(labels), fmt.Sprintf("label document %q for set %s is not valid JSON: %v", p.docs[0], canon, err),
						map[string]any{"labels": ls, "proto": proto, "doc": p.docs[0]})
				} else if got := canonicalMap(m); got != canon {
					c.Violation("label-document-differs", fmt.Sprintf("label document %q decodes to %s, the pushed set is %s", p.docs[0], got, canon), map[string]any{"labels": ls, "proto": proto})
				}
			}
		}
		// neighbours: sets whose concatenated names and values read the same as this one's but which are different
		// sets (a byte moved across a name/value boundary, two values swapped, one label folded into the value of
		// another). Each must get its own fingerprint and document, and pushing them must not change what the
		// base set gets afterwards (fingerprints do not depend on what the process has seen before).
		if i%3 == 0 && ref != 0 {
			fpOf := func(ls [][2]string) (uint64, string, bool) {
				fn, ctx := parserFor("loki-json-values")
				p := runParser(fn, ctx, bodyFor(c, "loki-json-values", ls, i))
				if p.err != nil || len(p.fps) == 0 {
					return 0, "", false
				}
				return p.fps[0], p.docs[0], true
			}
			for _, nb := range neighbours(labels) {
				nc := canonical(nb.labels)
				if nc == canon {
					continue
				}
				f, doc, ok := fpOf(nb.labels)
				if !ok {
					continue
				}
				c.Floor("neighbouring label sets fingerprinted", 0, 1)
				c.Cover("neighbour-kinds", nb.kind, 1)
				if f == ref && cfg.FPType == 1 {
					c.Violation("fingerprint-shared-by-neighbouring-sets/"+nb.kind, fmt.Sprintf("different label sets %s and %s get the same fingerprint %d", canon, nc, f), map[string]any{"a": labels, "b": nb.labels, "fp_type": cfg.FPType})
				}
				if m, err := gen.StrictJSONStringMap([]byte(doc)); err == nil && canonicalMap(m) != nc {
					c.Violation("label-document-differs", fmt.Sprintf("label document %q decodes to %s, the pushed set is %s", doc, canonicalMap(m), nc), map[string]any{"labels": nb.labels})
				}
				if prev, ok := seen[f]; ok && prev != nc && cfg.FPType == 1 {
					c.Violation("fingerprint-collision", fmt.Sprintf("different label sets %s and %s share fingerprint %d", prev, nc, f), map[string]any{"a": prev, "b": nc})
				}
				seen[f] = nc
				// and the neighbour again after the base: same value both times
				if f2, _, ok := fpOf(nb.labels); ok && f2 != f {
					c.Violation("fingerprint-depends-on-history", fmt.Sprintf("label set %s: fingerprint %d, then %d when pushed again", nc, f, f2), map[string]any{"labels": nb.labels, "fp_type": cfg.FPType})
				}
			}
			if again, _, ok := fpOf(labels); ok && again != ref {
				c.Violation("fingerprint-depends-on-history", fmt.Sprintf("label set %s: fingerprint %d at first, %d after its neighbouring sets were pushed", canon, ref, again), map[string]any{"labels": labels, "fp_type": cfg.FPType})
			}
		}
		c.Case(fmt.Sprintf("fp|type%d|n=%d|hostile=%v|proto=%s", cfg.FPType, n, hostile, fpProtos[i%len(fpProtos)]))
		c.Floor("label sets fingerprinted", 0, 1)
		if i < 2 {
			c.Sample(map[string]any{"monitor": "fingerprint", "labels": labels, "fingerprint": ref, "document": refDoc})
		}
		if prev, ok := seen[ref]; ok && prev != canon {
			collisions++
			if cfg.FPType == 1 {
				c.Violation("fingerprint-collision", fmt.Sprintf("different label sets %s and %s share fingerprint %d", prev, canon, ref), map[string]any{"a": prev, "b": canon})
			}
		}
		seen[ref] = canon
	}
	c.Event(fmt.Sprintf("distinct_fingerprints_type%d", cfg.FPType), len(seen))
	if cfg.FPType == 0 && collisions > 0 {
		c.Note(fmt.Sprintf("Bernstein (32-bit) fingerprint type: %d collisions among %d sets (inherent at this width, not judged)", collisions, cfg.N))
	}
}

type neighbour struct {
	kind   string
	labels [][2]string
}

func nameByte(b byte) bool {
	return b == '_' || (b >= 'a' && b <= 'z') || (b >= 'A' && b <= 'Z') || (b >= '0' && b <= '9')
}

func neighbours(ls [][2]string) []neighbour {
	var out []neighbour
	has := func(set [][2]string, name string, except int) bool {
		for j, l := range set {
			if j != except && l[0] == name {
				return true
			}
		}
		return false
	}
	cp := func() [][2]string { return append([][2]string{}, ls...) }
	for j, l := range ls {
		n, v := l[0], l[1]
		if len(v) >= 2 && nameByte(v[0]) && !has(ls, n+v[:1], j) {
			x := cp()
			x[j] = [2]string{n + v[:1], v[1:]}
			out = append(out, neighbour{"byte-moved-from-value-to-name", x})
		}
		if len(n) >= 2 && !(n[len(n)-2] >= '0' && n[len(n)-2] <= '9' && len(n) == 2) && !has(ls, n[:len(n)-1], j) {
			x := cp()
			x[j] = [2]string{n[:len(n)-1], n[len(n)-1:] + v}
			out = append(out, neighbour{"byte-moved-from-name-to-value", x})
		}
		if j+1 < len(ls) && ls[j+1][1] != v {
			x := cp()
			x[j][1], x[j+1][1] = x[j+1][1], x[j][1]
			out = append(out, neighbour{"values-swapped", x})
			y := append(cp()[:j+1], ls[j+2:]...)
			y[j] = [2]string{n, v + ls[j+1][0] + ls[j+1][1]}
			out = append(out, neighbour{"label-folded-into-previous-value", y})
		}
	}
	// the set plus a label with an empty value, and the set with one value emptied: different label sets
	for _, extra := range []string{"zz_empty", "a0"} {
		if !has(ls, extra, -1) {
			out = append(out, neighbour{"empty-valued-label-added", append(cp(), [2]string{extra, ""})})
			break
		}
	}
	if len(ls) >= 2 && ls[0][1] != "" {
		x := cp()
		x[0][1] = ""
		out = append(out, neighbour{"value-emptied", x})
	}
	return out
}

func classOfBadByte(labels [][2]string) string {
	for _, l := range labels {
		for i := 0; i < len(l[1]); i++ {
			if l[1][i] < 0x20 || l[1][i] == 0x7f {
				return "control-byte"
			}
		}
	}
	return "other"
}

func canonical(ls [][2]string) string {
	s := make([]string, len(ls))
	for i, l := range ls {
		s[i] = fmt.Sprintf("%q=%q", l[0], l[1])
	}
	sort.Strings(s)
	return "{" + strings.Join(s, ",") + "}"
}

func canonicalMap(m [][2]string) string { return canonical(m) }

// ---- monitor 1b: the series cache with several data nodes ----

// childCacheViews checks the real series cache (writer/utils/numbercache) against a sequential model: a
// (fingerprint, day) key marked through one data node's view is known for that node only; a clustered node's
// view never remembers anything (its series rows are always sent). Then the same through the parser: the same
// stream pushed to node n1, then to node n2, must produce a series row for each node.
func childCacheViews(c *run.Ctx, cfg childCfg) {
	nodes := map[string]*wmodel.DataDatabasesMap{
		"n1":  {ClokiBaseDataBase: config.ClokiBaseDataBase{Node: "n1", Name: "db"}},
		"n2":  {ClokiBaseDataBase: config.ClokiBaseDataBase{Node: "n2", Name: "db"}},
		"n12": {ClokiBaseDataBase: config.ClokiBaseDataBase{Node: "n12", Name: "db"}}, // a name with another node's name as prefix
		"cl":  {ClokiBaseDataBase: config.ClokiBaseDataBase{Node: "cl", Name: "db", ClusterName: "qcl"}},
	}
	cache := numbercache.NewCache[uint64](time.Hour, func(v uint64) []byte {
		return []byte{byte(v), byte(v >> 8), byte(v >> 16), byte(v >> 24), byte(v >> 32), byte(v >> 40), byte(v >> 48), byte(v >> 56)}
	}, nodes)
	defer cache.Stop()
	r := c.Rng("c04/cache-views")
	names := []string{"n1", "n2", "n12", "cl"}
	model := map[string]bool{}
	keys := make([]uint64, 12)
	for i := range keys {
		keys[i] = r.Uint64()
	}
	keys = append(keys, 0, 1, 0x3231, 0x32) // incl. keys whose bytes look like the tail of a node name
	for op := 0; op < c.Pick(4000, 40000); op++ {
		n := names[r.Intn(len(names))]
		k := keys[r.Intn(len(keys))]
		got := cache.DB(n).CheckAndSet(k)
		mk := fmt.Sprintf("%s|%d", n, k)
		want := model[mk] && n != "cl"
		model[mk] = true
		c.Floor("series-cache operations checked against the model", 0, 1)
		if got != want {
			c.Violation("series-cache/view-disagrees-with-model", fmt.Sprintf("operation %d: CheckAndSet(%d) through the view of node %s returned %v, the model says %v (a key is known per node; clustered nodes remember nothing)", op, k, n, got, want),
				map[string]any{"op": op, "node": n, "key": k})
			break
		}
	}
	// through the parser
	labels := [][2]string{{"sid", "cache-views"}, {"app", "x"}}
	for _, n := range []string{"n1", "n2", "n1", "n12"} {
		fn, ctx := parserFor("loki-json-values")
		var p parsed
		for rsp := range fn(ctx, bytes.NewReader(bodyFor(c, "loki-json-values", labels, 0)), cache.DB(n)) {
			if ts, ok := rsp.TimeSeriesRequest.(*wmodel.TimeSeriesData); ok && ts != nil {
				p.fps = append(p.fps, ts.MFingerprint...)
			}
		}
		mk := "parser|" + n
		if !model[mk] && len(p.fps) == 0 {
			c.Violation("series-cache/no-series-row-for-second-node", fmt.Sprintf("the stream was pushed to node %s for the first time and no series row was produced for it (the sample is acknowledged on a node that has no index row)", n), map[string]any{"node": n})
		}
		model[mk] = true
		c.Floor("series-cache operations checked against the model", 0, 1)
	}
}

// ---- monitors 2 and 3 ----

type push struct {
	op      string
	req     *gen.Request
	rec     *chw.ReqRecord
	streams []gen.Stream
}

func utcDate(ns int64) string { return time.Unix(0, ns).UTC().Format("2006-01-02") }

func childHistory(c *run.Ctx, cfg childCfg) {
	for hI := 0; hI < cfg.Histories; hI++ {
		gi := cfg.Start + hI
		runHistory(c, cfg, gi)
	}
}

var started bool
var gWriter *chw.Writer
var gLedger *chw.Ledger
var gSess *chw.Session
var failSeries int32

func runHistory(c *run.Ctx, cfg childCfg, gi int) {
	r := c.Rng(fmt.Sprintf("c04/history/%d", gi))
	if !started {
		gLedger = chw.NewLedger(nil)
		gLedger.SetScript(func(table string, nth int, blk *chw.Block) chw.Outcome {
			if strings.HasPrefix(table, "time_series") && failSeries > 0 {
				failSeries--
				return chw.Err
			}
			return chw.OK
		})
		gWriter = chw.StartWriter(cfg.Writer, gLedger)
		gSess = chw.NewSession(gWriter)
		started = true
	}
	loc := time.Local
	// 2 streams per history, reused across its pushes
	mkStream := func(k int) gen.Stream {
		sid := fmt.Sprintf("sid-h%d-%d", gi, k)
		return gen.Stream{SID: sid, Labels: [][2]string{{"sid", sid}, {"app", gen.SafeStr(r, 2, 6)}}}
	}
	streams := []gen.Stream{mkStream(0), mkStream(1)}
	baseDay := time.Date(2023, 11, 10+r.Intn(10), 0, 0, 0, 0, time.UTC)
	var hist []*push
	ops := []string{}
	nops := 3 + r.Intn(6)
	hadRetry, hadReset := false, false
	midnight := 0
	unordered := 0
	for o := 0; o < nops; o++ {
		op := []string{"push", "push", "push-next-day", "fail-series+retry", "cache-reset", "push-midnight", "push-unordered-days", "fail-series-once", "big-push-first-series-fails"}[r.Intn(9)]
		if o == 0 && gi%3 == 0 {
			op = []string{"fail-series+retry", "fail-series-once"}[(gi/3)%2]
		}
		if o == 1 && gi%3 == 1 {
			op = "push-midnight"
		}
		if o == 1 && gi%3 == 2 {
			op = "push-unordered-days"
		}
		if o == 2 && gi%4 == 1 {
			op = "push-stream-twice"
		}
		ops = append(ops, op)
		tsFor := func() int64 {
			switch op {
			case "push-next-day":
				baseDay = baseDay.Add(24 * time.Hour)
				return baseDay.Add(time.Duration(r.Intn(86400)) * time.Second).UnixNano()
			case "push-midnight":
				midnight++
				var t time.Time
				if r.Intn(2) == 0 {
					t = baseDay.Add(24 * time.Hour) // UTC midnight
				} else {
					y, m, d := baseDay.Date()
					t = time.Date(y, m, d+1, 0, 0, 0, 0, loc) // local midnight
				}
				return t.Add(time.Duration(r.Intn(3)-1) * time.Second).UnixNano()
			}
			return baseDay.Add(time.Duration(r.Intn(86400)) * time.Second).UnixNano()
		}
		if op == "cache-reset" {
			hadReset = true
			if cfg.Writer.CacheTTLms > 0 {
				time.Sleep(time.Duration(cfg.Writer.CacheTTLms*2+20) * time.Millisecond)
			}
			continue
		}
		// build the body: one or both streams with 1–3 entries
		var lc gen.LogCase
		for k := range streams {
			if k == 1 && r.Intn(2) == 0 {
				continue
			}
			st := streams[k]
			st.Entries = nil
			ne := 1 + r.Intn(3)
			t0 := tsFor()
			for e := 0; e < ne; e++ {
				st.Entries = append(st.Entries, gen.Entry{TsNs: t0 + int64(e), Line: fmt.Sprintf("L[h%d-%d-%d-%d]", gi, o, k, e), HasLine: true})
			}
			if op == "push-unordered-days" {
				// one stream object whose entries lie on several UTC days and are not in time order (legal for every
				// push protocol): each day present needs its own series row
				st.Entries = nil
				ne = 2 + r.Intn(3)
				var ts []int64
				if r.Intn(2) == 0 {
					// straddle UTC midnight by a few seconds
					m := baseDay.Add(24 * time.Hour)
					ts = append(ts, m.Add(time.Duration(1+r.Intn(20))*time.Second).UnixNano(), m.Add(-time.Duration(1+r.Intn(20))*time.Second).UnixNano())
				}
				for len(ts) < ne {
					ts = append(ts, baseDay.Add(time.Duration(r.Intn(3))*24*time.Hour+time.Duration(r.Intn(86400))*time.Second).UnixNano())
				}
				switch r.Intn(3) {
				case 0:
					sort.Slice(ts, func(a, b int) bool { return ts[a] > ts[b] })
				case 1:
					r.Shuffle(len(ts), func(a, b int) { ts[a], ts[b] = ts[b], ts[a] })
				}
				days := map[string]bool{}
				for e, t := range ts {
					days[utcDate(t)] = true
					st.Entries = append(st.Entries, gen.Entry{TsNs: t, Line: fmt.Sprintf("L[h%d-%d-%d-%d]", gi, o, k, e), HasLine: true})
				}
				if len(days) > 1 && !sort.SliceIsSorted(ts, func(a, b int) bool { return ts[a] < ts[b] }) {
					unordered++
				}
			}
			lc.Streams = append(lc.Streams, st)
		}
		if op == "push-stream-twice" && len(lc.Streams) > 0 {
			// one body that lists a stream twice (legal for every push protocol; agents that batch per flush do it): the
			// second object's entries lie two days after the first's, and that day needs its series row like any other
			st := lc.Streams[0]
			t1 := st.Entries[0].TsNs + int64(48*time.Hour)
			st.Entries = nil
			for e := 0; e < 1+r.Intn(2); e++ {
				st.Entries = append(st.Entries, gen.Entry{TsNs: t1 + int64(e), Line: fmt.Sprintf("L[h%d-%d-9-%d]", gi, o, e), HasLine: true})
			}
			lc.Streams = append(lc.Streams, st)
			c.Floor("bodies listing one stream twice with entries on different days", 0, 1)
		}
		proto := []string{"loki-json-values", "loki-proto", "loki-json-entries"}[r.Intn(3)]
		send := func(tag string) *push {
			rq := gen.Render(r, proto, lc)
			p := &push{op: tag, req: &rq, streams: lc.Streams}
			p.rec = gSess.Send(0, &rq)
			hist = append(hist, p)
			return p
		}
		if op == "big-push-first-series-fails" {
			// a body of several MiB with streams nobody has pushed before (one parser portion per stream): the series
			// insert of the first portion fails on every attempt, those of the later portions succeed. The push may
			// only be acknowledged if every stream's series row got in.
			blc := gen.NewLogCase(r, gen.LogOpts{ID: fmt.Sprintf("hb%d-%d", gi, o), Proto: "loki-json-values", Streams: 3, MaxEntries: 3, BaseNs: tsFor(), Huge: true})
			rq := gen.Render(r, "loki-json-values", blc)
			failSeries = int32(cfg.Writer.RetryAttempts)
			bp := &push{op: "push(series insert of the first portion fails)", req: &rq, streams: blc.Streams}
			bp.rec = gSess.Send(0, &rq)
			failSeries = 0
			hist = append(hist, bp)
			c.Floor("multi-portion pushes whose first series insert fails", 0, 1)
			c.Cover("history-events", fmt.Sprintf("multi-portion push, first series insert fails: answered %dxx", bp.rec.Status/100), 1)
		} else if op == "fail-series-once" {
			// only the first attempt of the series insert fails: the writer's own retry of the same request has to
			// bring the row in before the push is acknowledged
			failSeries = 1
			p := send("push(series insert fails once)")
			failSeries = 0
			c.Floor("pushes whose first series insert attempt fails", 0, 1)
			c.Cover("history-events", fmt.Sprintf("series insert fails once: answered %dxx", p.rec.Status/100), 1)
		} else if op == "fail-series+retry" {
			hadRetry = true
			failSeries = int32(cfg.Writer.RetryAttempts) // every attempt of the series insert fails
			p := send("push(series insert fails)")
			failSeries = 0
			if p.rec.Status >= 400 || p.rec.Status == 0 {
				send("client retry")
			} else {
				c.Cover("history-events", "series failure did not surface as an error (no series row was due)", 1)
			}
		} else {
			send(op)
		}
	}
	// oracle
	blocks := gLedger.Snapshot()
	type sk struct{ sid, date string }
	seriesOK := map[sk]int64{}
	seriesFailed := map[sk]bool{}
	failedAt := map[sk][]int64{} // ticks at which a failed series insert carrying (stream, day) returned
	for _, b := range blocks {
		if !strings.HasPrefix(b.Table, "time_series") {
			continue
		}
		ix := chw.BuildIndex([]*chw.Block{b})
		for _, sr := range ix.Series {
			sid := chw.SidIn(sr.Labels)
			k := sk{sid, sr.Date}
			if !b.Succeeded() {
				seriesFailed[k] = true
				failedAt[k] = append(failedAt[k], b.RetT)
				continue
			}
			if t, ok := seriesOK[k]; !ok || b.RetT < t {
				seriesOK[k] = b.RetT
			}
		}
	}
	// UTC days (with the 30 min margin) on which each stream has samples anywhere in the history
	sampleDays := map[sk]bool{}
	for _, p := range hist {
		for _, st := range p.streams {
			for _, e := range st.Entries {
				sampleDays[sk{st.SID, utcDate(e.TsNs)}] = true
				sampleDays[sk{st.SID, utcDate(e.TsNs - int64(30*time.Minute))}] = true
			}
		}
	}
	opsKey := strings.Join(ops, ",")
	checked := 0
	for _, p := range hist {
		if p.rec.Status < 200 || p.rec.Status > 299 {
			continue
		}
		for _, st := range p.streams {
			for _, e := range st.Entries {
				checked++
				lo, hi := utcDate(e.TsNs-int64(30*time.Minute)), utcDate(e.TsNs)
				ok := false
				for _, d := range []string{lo, hi} {
					if t, found := seriesOK[sk{st.SID, d}]; found && t < p.rec.AnsT {
						ok = true
					}
				}
				secOfDay := (e.TsNs / 1e9) % 86400
				_, off := time.Unix(0, e.TsNs).In(loc).Zone()
				locSec := ((e.TsNs/1e9+int64(off))%86400 + 86400) % 86400
				if secOfDay <= 1 || secOfDay >= 86399 || locSec <= 1 || locSec >= 86399 {
					c.Floor("samples within 1 s of UTC or local midnight", 0, 1)
				}
				if !ok {
					var have []string
					for k, t := range seriesOK {
						if k.sid == st.SID {
							have = append(have, fmt.Sprintf("%s@tick%d", k.date, t))
						}
					}
					sort.Strings(have)
					// a series row of this stream dated on a day on which it has no samples is a misdated row
					kind := "series-row-missing"
					for k := range seriesOK {
						if k.sid == st.SID && !sampleDays[k] {
							kind = "series-row-under-wrong-day"
						}
					}
					for k := range seriesFailed {
						if k.sid == st.SID && !sampleDays[k] {
							kind = "series-row-under-wrong-day"
						}
					}
					cause := "plain"
					if seriesFailed[sk{st.SID, lo}] || seriesFailed[sk{st.SID, hi}] {
						cause = "after-failed-series-insert"
					}
					zone := "utc"
					if _, o := time.Now().In(loc).Zone(); o < 0 {
						zone = "west-of-utc"
					} else if o > 0 {
						zone = "east-of-utc"
					}
					sig := kind + "/" + cause
					if kind == "series-row-under-wrong-day" {
						sig += "/" + zone
					}
					if cause == "after-failed-series-insert" {
						// which push was acknowledged without its row: the one whose own insert failed, the client's
						// retry after an error answer, or a later push of the stream
						own := false // did an insert carrying this push's series row fail while the push was open?
						for _, d := range []string{lo, hi} {
							for _, t := range failedAt[sk{st.SID, d}] {
								if t >= p.rec.SendT && t <= p.rec.AnsT {
									own = true
								}
							}
						}
						switch {
						case own:
							sig += "/same-request"
						case p.op == "client retry":
							sig += "/client-retry-after-error-answer"
						default:
							sig += "/later-push"
						}
					}
					c.Violation(sig, fmt.Sprintf("sample of stream %s at %s (UTC day %s) was acknowledged (%d, op %q, zone %s, cluster %q) but no successfully inserted series row dated %s..%s exists before the answer; series rows of the stream: %v",
						st.SID, time.Unix(0, e.TsNs).UTC().Format(time.RFC3339), hi, p.rec.Status, p.op, cfg.TZ, cfg.Writer.ClusterName, lo, hi, have),
						map[string]any{"cfg": cfg, "history": gi, "ops": ops, "stream": st.SID, "ts": e.TsNs})
				}
			}
		}
	}
	c.Case(fmt.Sprintf("history|tz=%s|cluster=%v|ttl=%d|%s", cfg.TZ, cfg.Writer.ClusterName != "", cfg.Writer.CacheTTLms, opsKey))
	c.Floor("acknowledged samples checked for a discoverable series row", 0, checked)
	if unordered > 0 {
		c.Floor("pushes with one stream's entries on several UTC days and out of time order", 0, unordered)
	}
	if hadRetry {
		c.Floor("histories with a failed series insert followed by a client retry", 0, 1)
	}
	if hadReset && cfg.Writer.CacheTTLms > 0 {
		c.Floor("histories with a cache reset between pushes", 0, 1)
	}
	if gi%50 == 0 {
		c.Sample(map[string]any{"monitor": "history", "tz": cfg.TZ, "ops": ops, "acknowledged_samples": checked})
	}
	_ = chproto.Date(0)
}
