// Package c02: every INSERT block is rectangular and made only of whole submitted rows.
// Online assertion in the fake client (equal column lengths, ch-go's own encoder accepts the
// block) plus an offline comparison of every decoded row with the rows submitted.
package c02

import (
	"fmt"
	"sort"
	"strings"

	"verif/harness/engines/chw"
	"verif/harness/engines/gen"
	"verif/harness/engines/run"
	"verif/harness/props/c01"
	"verif/harness/props/reg"
)

func init() {
	reg.Register(&reg.Prop{ID: "C02", Level: "exploration", Main: Main, Child: Child})
}

func Main(c *run.Ctx) {
	c.SetRule("same concurrent/faulty/targeted workload as C01 plus shape stress (one-row, > 10 000-row and multi-chunk bodies, spans with hundreds of tags); " +
		"every block handed to the fake client is checked; distinct key = configuration × table × outcome × row-count class × in-flight class")
	c.Assume("rows are identified by unique ids embedded in every field that can carry one (line text, stream id label, span ids/names, profile tags/function names)")
	c.Assume("series rows (time_series) are attributed through the stream id in their label document")
	cfgs := c01.Configs(c.Quick())
	if c.Quick() {
		cfgs = cfgs[:4]
	}
	c01.RunConfigs(c, "C02", cfgs, c.Pick(60, 300), c.Pick(150, 500), true)
	c.Floor("blocks checked", 50, 0)
	c.Floor("blocks of more than 50 MiB", 1, 0)
	c.Floor("profile blocks holding more than 32 MiB of payloads", 1, 0)
	c.Floor("rows compared with submitted rows", 1000, 0)
	c.Floor("single-chunk requests found whole in one successful block", 20, 0)
	c.Floor("rows sent again after a failed INSERT compared field by field", 50, 0)
}

func Child(c *run.Ctx, name string) {
	var wl chw.WorkCfg
	if err := run.ChildCfg(&wl); err != nil {
		panic(err)
	}
	h := chw.RunWorkload(c.Seed(), wl, func(p string) { c.BeginCase(0, map[string]any{"phase": p, "cfg": wl}) })
	c.EndCase(0)
	Check(c, wl, h)
	// C02 shares C01's floors (declared by RunConfigs): feed them from the same history
	c01.EvidenceOnly(c, wl, h)
}

func classRows(n int) string {
	switch {
	case n == 0:
		return "0"
	case n == 1:
		return "1"
	case n <= 100:
		return "2-100"
	case n <= 10000:
		return "101-10000"
	}
	return ">10000"
}

func Check(c *run.Ctx, wl chw.WorkCfg, h *chw.History) {
	a := chw.Analyze(h.Items, h.Blocks)
	ck := fmt.Sprintf("t%v/b%d/c%d/r%d/%s", wl.Writer.DBTimer, wl.Writer.DBBulk, wl.Writer.ChannelsSample, wl.Writer.RetryAttempts, wl.Writer.ClusterName)
	rows := 0
	for i, b := range h.Blocks {
		n := 0
		if len(b.ColRows) > 0 {
			n = b.ColRows[0]
		}
		rows += len(b.Rows)
		bytes := 0
		for _, row := range b.Rows {
			for _, cell := range row {
				if sv, ok := cell.(string); ok {
					bytes += len(sv)
				}
			}
		}
		if bytes > 50<<20 {
			c.Floor("blocks of more than 50 MiB", 0, 1)
		}
		if bytes > 32<<20 && strings.HasPrefix(b.Table, "profiles_input") {
			c.Floor("profile blocks holding more than 32 MiB of payloads", 0, 1)
		}
		infl := "alone"
		if b.InFlight > 0 {
			infl = "concurrent"
		}
		c.Case(fmt.Sprintf("%s|%s|%s|%s|%s", ck, b.Table, b.Outcome, classRows(n), infl))
		c.Cover("blocks(table/rows)", b.Table+"/"+classRows(n), 1)
		if i < 2 {
			c.Sample(map[string]any{"cfg": ck, "seq": b.Seq, "table": b.Table, "columns": b.ColNames, "column_rows": b.ColRows, "outcome": b.Outcome, "first_row": fmt.Sprintf("%v", firstRow(b))})
		}
		if !b.Rect || b.EncodeErr != "" {
			c.Violation("non-rectangular/"+strings.TrimSuffix(b.Table, "_dist"), fmt.Sprintf("block %d into %s (cfg %s): per-column row counts %v for columns %v; ch-go encoder: %q", b.Seq, b.Table, ck, b.ColRows, b.ColNames, b.EncodeErr),
				map[string]any{"cfg": wl, "block": b.Seq, "columns": b.ColNames, "column_rows": b.ColRows, "encode_error": b.EncodeErr})
		}
	}
	c.Floor("blocks checked", 50, len(h.Blocks))
	c.Floor("rows compared with submitted rows", 1000, rows)
	c.Event("rows_compared", rows)
	for i, f := range a.Foreign {
		if i >= 5 {
			break
		}
		c.Violation("foreign-row/"+tableIn(f), f+fmt.Sprintf(" (cfg %s)", ck), map[string]any{"cfg": wl, "all": first(a.Foreign, 20)})
	}
	for i, d := range a.Dup {
		if i >= 5 {
			break
		}
		c.Violation("dup-row/"+tableIn(d), d+fmt.Sprintf(" (cfg %s)", ck), map[string]any{"cfg": wl, "all": first(a.Dup, 20)})
	}
	// a row that is sent again (retry after a failed INSERT) is the same row in every field
	nretried, reported := 0, 0
	for id, occs := range a.Occ {
		if len(occs) < 2 {
			continue
		}
		var ref string
		var refBlk *chw.Block
		for _, oc := range occs {
			if oc.Idx < 0 || oc.Idx >= len(oc.Blk.Rows) {
				continue
			}
			row := rowText(oc.Blk.Rows[oc.Idx])
			if refBlk == nil {
				ref, refBlk = row, oc.Blk
				continue
			}
			if oc.Blk == refBlk {
				continue // duplicates inside one block are reported above
			}
			nretried++
			if row != ref && reported < 5 {
				reported++
				c.Violation("resent-row-differs/"+strings.TrimSuffix(oc.Blk.Table, "_dist"), fmt.Sprintf("row %s was sent in block %d and again in block %d (cfg %s) with different field values: %q vs %q", clip(id, 80), refBlk.Seq, oc.Blk.Seq, ck, clip(ref, 300), clip(row, 300)),
					map[string]any{"cfg": wl, "row": id, "first": clip(ref, 2000), "again": clip(row, 2000)})
			}
		}
	}
	c.Floor("rows sent again after a failed INSERT compared field by field", 0, nretried)
	c.Event("foreign_rows", len(a.Foreign))
	c.Event("duplicated_rows", len(a.Dup))
	// rows of a request are all in the block(s) whose outcome it was told
	for i, it := range h.Items {
		if it.Rec == nil || it.Rec.Status < 200 || it.Rec.Status > 299 || it.Hostile {
			continue
		}
		var main []string
		pfx := map[string]string{"logs": "spl|", "spans": "tr|", "profile": "prof|"}[it.Kind]
		for k := range a.Expected[i] {
			if strings.HasPrefix(k, pfx) {
				main = append(main, k)
			}
		}
		if len(main) == 0 {
			continue
		}
		// candidate blocks: successful blocks returned before the answer holding the first row
		whole := false
		for _, oc := range a.Occ[main[0]] {
			if !oc.Blk.Succeeded() || oc.Blk.RetT >= it.Rec.AnsT {
				continue
			}
			all := true
			for _, k := range main[1:] {
				in := false
				for _, o2 := range a.Occ[k] {
					if o2.Blk == oc.Blk {
						in = true
						break
					}
				}
				if !in {
					all = false
					break
				}
			}
			if all {
				whole = true
				break
			}
		}
		if whole {
			c.Floor("single-chunk requests found whole in one successful block", 20, 1)
			continue
		}
		// not in one block: the parser may have handed the body over in several portions (it cuts by the size of the
		// rows it produces - resource attributes are repeated on every span - which cannot be told from the body
		// size). Each portion has its own block; what the request was told covers all of them, so every row must be
		// in SOME successful block that returned before the answer.
		var out []string
		for _, k := range main {
			ok := false
			for _, oc := range a.Occ[k] {
				if oc.Blk.Succeeded() && oc.Blk.RetT < it.Rec.AnsT {
					ok = true
					break
				}
			}
			if !ok {
				out = append(out, k)
			}
		}
		if len(out) == 0 {
			c.Cover("requests", "answered 2xx, rows spread over several successful blocks (several parser portions)", 1)
			continue
		}
		c.Violation("left-out/"+it.Kind+"/"+phaseKind(it.Phase), fmt.Sprintf("%s request (%s, phase %s, cfg %s) answered %d: %d of its %d rows are in no successful block that returned before the answer, e.g. %s", it.Kind, it.Req.Proto, it.Phase, ck, it.Rec.Status, len(out), len(main), out[0]),
			map[string]any{"cfg": wl, "proto": it.Req.Proto, "phase": it.Phase, "rows": first(out, 10)})
	}
}

func phaseKind(p string) string {
	if i := strings.Index(p, ":"); i > 0 {
		return p[:i]
	}
	return p
}

func tableIn(s string) string {
	for _, t := range []string{"samples_v3", "time_series", "tempo_traces_attrs_gin", "tempo_traces", "profiles_input"} {
		if strings.Contains(s, "("+t) {
			return t
		}
	}
	return "?"
}

func firstRow(b *chw.Block) any {
	if len(b.Rows) > 0 {
		s := fmt.Sprintf("%v", b.Rows[0])
		if len(s) > 300 {
			s = s[:300] + "…"
		}
		return s
	}
	return nil
}

func first(s []string, n int) []string {
	if len(s) > n {
		return s[:n]
	}
	return s
}

// rowText renders a row for comparison; a cell holding a JSON object of strings (a label document) is rendered
// with sorted keys, its key order is not part of the row.
func rowText(row []any) string {
	parts := make([]string, len(row))
	for i, cell := range row {
		parts[i] = fmt.Sprintf("%v", cell)
		if sv, ok := cell.(string); ok && strings.HasPrefix(sv, "{") {
			if m, err := gen.StrictJSONStringMap([]byte(sv)); err == nil {
				kv := make([]string, 0, len(m))
				for _, l := range m {
					kv = append(kv, fmt.Sprintf("%q:%q", l[0], l[1]))
				}
				sort.Strings(kv)
				parts[i] = "{" + strings.Join(kv, ",") + "}"
			}
		}
	}
	return "[" + strings.Join(parts, " ") + "]"
}

func clip(s string, n int) string {
	if len(s) > n {
		return s[:n] + "…"
	}
	return s
}
