// Package c11 decides property C11: the SQL generated for TraceQL selects exactly the traces the
// query describes.
//
// Technique (translation validation): generated TraceQL scripts are rendered, parsed back by qryn's
// parser, and sent through the real read path (GET /api/search → controller → service → planners →
// simple/complex request processors). Every SQL statement qryn issues is executed by the reference
// ClickHouse-subset interpreter (E-CHSQL) over tables filled the way the writer fills them. The
// returned trace (and span) sets are compared with an independent direct TraceQL evaluator
// (engines/reftraceql, written from the property text). Any statement ClickHouse would reject is a
// violation by itself ("the statement is always syntactically valid").
package c11

import (
	"encoding/json"
	"errors"
	"fmt"
	"os"
	"path/filepath"
	"regexp"
	"sort"
	"strings"
	"sync"
	"time"

	rt "verif/harness/engines/reftraceql"
	"verif/harness/engines/run"
	"verif/harness/props/reg"
)

func init() {
	reg.Register(&reg.Prop{ID: "C11", Level: "translation_validation", Main: Main, Child: Child, Replay: Replay})
}

// caseRec is one (script, database, request) triple.
type caseRec struct {
	Idx    int        `json:"idx"`
	Script *rt.Script `json:"script"`
	Text   string     `json:"text"`
	DB     *rt.DB     `json:"db"`
	Req    request    `json:"request"`
}

func (cs *caseRec) clone() *caseRec {
	n := *cs
	n.Script = cs.Script.Clone()
	n.DB = cs.DB.Clone()
	return &n
}

// result of evaluating one case.
type result struct {
	Class    string // generator-bug | undecided | violation | qryn-rejects | outside-property | probe | judged-ok
	Why      string
	Kind     string // violation kind
	Sig      string
	Desc     string
	Expected any
	Got      any
	Answer   *answer
	Verdict  *rt.Verdict
	Follows  string // probe: the reading qryn's answer is consistent with ("" = none)
	SpansCmp bool   // span sets were judged
}

type env struct {
	c   *run.Ctx
	rig *rig
}

var reErrNum = regexp.MustCompile(`[0-9]+`)

func rejectClass(body string) string {
	var doc struct {
		Error string `json:"error"`
	}
	json.Unmarshal([]byte(body), &doc)
	m := doc.Error
	if m == "" {
		m = body
	}
	switch {
	case strings.Contains(m, "not supported operator"):
		return "not-supported-operator"
	case strings.Contains(m, "unsupported attribute"):
		return "unsupported-attribute"
	case strings.Contains(m, "unsupported statement"):
		return "unsupported-statement"
	case strings.Contains(m, "are not supported"):
		return "empty-selector-form"
	case strings.Contains(m, "not a time duration"):
		return "duration-needs-duration-literal"
	case strings.Contains(m, "time: "):
		return "go-duration-syntax"
	case strings.Contains(m, "strconv.ParseFloat"):
		return "number-syntax"
	}
	m = reErrNum.ReplaceAllString(m, "N")
	if len(m) > 60 {
		m = m[:60]
	}
	return "other:" + m
}

func raiseClass(s *stmtRec) string {
	if strings.Contains(s.SQL, " and () ") || strings.Contains(s.SQL, "WHERE ()") {
		return "EMPTY_CONDITION"
	}
	return strings.TrimPrefix(s.ErrClass, "raise:")
}

func selectionDoc(sel *rt.Selection) any {
	m := map[string][]string{}
	for _, t := range sel.Traces {
		sp := t.Spans
		if sp == nil {
			sp = []string{}
		}
		m[t.ID] = sp
	}
	return m
}

func answerDoc(a *answer) any {
	m := map[string][]string{}
	for _, t := range a.Traces {
		ids := []string{}
		for _, s := range t.SpanSet.Spans {
			ids = append(ids, s.SpanID)
		}
		sort.Strings(ids)
		m[t.TraceID] = ids
	}
	return m
}

// once evaluates a case on exactly the path the request names.
func (e *env) once(cs *caseRec) *result {
	res := &result{}
	if err := parseBack(cs.Script); err != nil {
		res.Class, res.Why = "generator-bug", err.Error()
		return res
	}
	cs.Text = cs.Script.String()
	cs.Req.Script = cs.Text
	from, to := cs.Req.StartS*1e9, cs.Req.EndS*1e9
	v, err := rt.EvalAll(cs.Script, cs.DB, from, to)
	refOutside := ""
	var ute *rt.ErrUnsupportedTerm
	if errors.As(err, &ute) {
		refOutside = ute.Why
	} else if err != nil {
		res.Class, res.Why = "undecided", "reference evaluator: "+err.Error()
		return res
	}
	res.Verdict = v
	chdb, err := load(cs.DB, cs.Req.Cluster, cs.Req.WriterZoneS)
	if err != nil {
		res.Class, res.Why = "undecided", "table load: "+err.Error()
		return res
	}
	a := e.rig.search(chdb, &cs.Req)
	res.Answer = a
	shape := shapeClass(cs.Script)
	switch {
	case a.TimedOut:
		res.Class, res.Why = "undecided", "watchdog: no answer within 120 s"
	case a.Panic != "":
		res.Class = "violation"
		res.Kind = "planner-panics/" + a.PanicFrame
		res.Desc = fmt.Sprintf("script %s is accepted by the parser but the planner panics (%s at %s): no statement is produced, the HTTP connection is dropped", cs.Text, a.Panic, a.PanicFrame)
	case a.Unsupported != nil:
		w := a.Unsupported.Err
		if len(w) > 90 {
			w = w[:90]
		}
		res.Class, res.Why = "undecided", "chsql-unsupported: "+w
	case a.Raise != nil:
		res.Class = "violation"
		res.Kind = "statement-raises/" + raiseClass(a.Raise)
		res.Desc = fmt.Sprintf("script %s is accepted by parser and planner, but ClickHouse rejects the %s statement: %s | SQL: %s",
			cs.Text, a.Raise.Kind, a.Raise.Err, clip(a.Raise.SQL, 900))
	case a.Status != 200:
		res.Class, res.Why = "qryn-rejects", rejectClass(a.Body)
	case a.BadJSON != "":
		res.Class, res.Why = "undecided", "response is not JSON (C15's subject): "+a.BadJSON
	case refOutside != "":
		res.Class, res.Why = "outside-property", refOutside
	case !v.TracesAgree:
		res.Class, res.Why = "probe", strings.Join(v.Splitters, "+")
		for _, alt := range v.Alts {
			if rt.ValidCut(alt.Sel, a.traceIDs(), cs.Req.Limit) == "" {
				res.Follows = alt.Reading
				break
			}
		}
	default:
		res.Class = "judged-ok"
		kind := rt.ValidCut(v.Base, a.traceIDs(), cs.Req.Limit)
		switch kind {
		case "":
		case "unselected-trace-returned", "duplicate-trace":
			res.Kind = "trace-set-differs:extra"
		case "selected-trace-missing", "fewer-than-limit":
			res.Kind = "trace-set-differs:missing"
		default:
			res.Kind = "limit/" + kind
		}
		if res.Kind == "" && (len(cs.Script.Sels) == 1 || rt.AllOr(cs.Script)) && v.SpansAgree {
			res.SpansCmp = true
			want := map[string][]string{}
			for _, t := range v.Base.Traces {
				want[t.ID] = t.Spans
			}
			for _, t := range a.Traces {
				got := []string{}
				for _, s := range t.SpanSet.Spans {
					got = append(got, s.SpanID)
				}
				sort.Strings(got)
				if strings.Join(got, ",") != strings.Join(want[t.TraceID], ",") {
					res.Kind = "span-set-differs:missing"
					w := map[string]bool{}
					for _, id := range want[t.TraceID] {
						w[id] = true
					}
					for _, id := range got {
						if !w[id] {
							res.Kind = "span-set-differs:extra"
						}
					}
					kind = fmt.Sprintf("trace %s: spans %v, expected %v", t.TraceID, got, want[t.TraceID])
					break
				}
			}
		}
		if res.Kind != "" {
			res.Class = "violation"
			res.Expected, res.Got = selectionDoc(v.Base), answerDoc(a)
			eb, _ := json.Marshal(res.Expected)
			gb, _ := json.Marshal(res.Got)
			res.Desc = fmt.Sprintf("script %s window [%d,%d)s limit %d: %s; every reading of the property selects %s, qryn returned %s",
				cs.Text, cs.Req.StartS, cs.Req.EndS, cs.Req.Limit, kind, clip(string(eb), 400), clip(string(gb), 400))
		}
	}
	if res.Class == "violation" {
		if a.Raise == nil && a.Panic == "" {
			shape = mismatchClass(cs.Script)
		}
		res.Sig = shape + "/" + res.Kind
		// {A} && {B}: is the answer exactly what intersecting the selectors' span sets (instead of their trace
		// sets) gives? Then it is that one defect whatever the terms are; any other wrong answer keeps its own signature.
		if len(cs.Script.Sels) == 2 && cs.Script.Ops[0] == "&&" && (strings.HasPrefix(res.Kind, "trace-set-differs") || strings.HasPrefix(res.Kind, "limit/")) {
			// (under any admissible reading of the terms: which stored texts count as numbers etc. is not this defect)
			for _, rd := range append([]rt.Reading{{}}, rt.Readings(cs.Script)...) {
				if alt, err := rt.EvalSpanIntersect(cs.Script, cs.DB, from, to, rd); err == nil && rt.ValidCut(alt, a.traceIDs(), cs.Req.Limit) == "" {
					res.Sig = "{A}&&{B}/spans-intersected-instead-of-traces"
					break
				}
			}
		}
	}
	return res
}

func clip(s string, n int) string {
	if len(s) > n {
		return s[:n] + "…"
	}
	return s
}

// eval evaluates a case; a mismatch seen on the complex-processor or cluster path is re-checked on
// the plain path so that the signature says whether the path matters.
func (e *env) eval(cs *caseRec) *result {
	res := e.once(cs)
	if res.Class != "violation" || (cs.Req.Complexity == 0 && !cs.Req.Cluster) {
		return res
	}
	plain := cs.clone()
	plain.Req.Complexity, plain.Req.Cluster = 0, false
	if p := e.once(plain); p.Class == "violation" {
		// the plain path fails too: the script's shape is the input class (report what the plain path shows)
		if p.Kind != res.Kind {
			p.Desc += " [seen first on the complex/cluster path as " + res.Kind + "]"
			return p
		}
		return res
	}
	where := "complex-processor"
	if cs.Req.Complexity > 0 && cs.Req.Cluster {
		half := cs.clone()
		half.Req.Cluster = false
		if p := e.once(half); p.Class != "violation" {
			where = "cluster"
		}
	} else if cs.Req.Cluster {
		where = "cluster"
	}
	// the mismatch exists only on that path: the path is the call site, the script's shape matters little
	group := "chain"
	if len(cs.Script.Sels) == 1 {
		group = "single"
		if cs.Script.Sels[0].Expr == nil {
			group = "{}"
		}
	}
	res.Sig = where + ":" + group + "/" + res.Kind
	return res
}

// ---- minimisation --------------------------------------------------------------------------

func collectSeqs(q *rt.Seq, out *[]*rt.Seq) {
	if q == nil {
		return
	}
	*out = append(*out, q)
	for _, it := range q.Items {
		if it.Sub != nil {
			collectSeqs(it.Sub, out)
		}
	}
}

// shrinks lists one-step reductions of a case.
func shrinks(cs *caseRec) []*caseRec {
	var out []*caseRec
	add := func(f func(n *caseRec) bool) {
		n := cs.clone()
		if f(n) {
			out = append(out, n)
		}
	}
	if cs.Req.Complexity != 0 {
		add(func(n *caseRec) bool { n.Req.Complexity = 0; return true })
	}
	if cs.Req.Cluster {
		add(func(n *caseRec) bool { n.Req.Cluster = false; return true })
	}
	for i := range cs.DB.Traces {
		i := i
		add(func(n *caseRec) bool { n.DB.Traces = append(n.DB.Traces[:i], n.DB.Traces[i+1:]...); return true })
	}
	for i := range cs.Script.Sels {
		i := i
		if len(cs.Script.Sels) > 1 {
			add(func(n *caseRec) bool {
				n.Script.Sels = append(n.Script.Sels[:i], n.Script.Sels[i+1:]...)
				j := i
				if j >= len(n.Script.Ops) {
					j = len(n.Script.Ops) - 1
				}
				n.Script.Ops = append(n.Script.Ops[:j], n.Script.Ops[j+1:]...)
				return true
			})
		}
		if cs.Script.Sels[i].Agg != nil {
			add(func(n *caseRec) bool { n.Script.Sels[i].Agg = nil; return true })
		}
		var seqs []*rt.Seq
		collectSeqs(cs.Script.Sels[i].Expr, &seqs)
		for si, q := range seqs {
			for ii := range q.Items {
				si, ii := si, ii
				if len(q.Items) > 1 {
					add(func(n *caseRec) bool {
						var ns []*rt.Seq
						collectSeqs(n.Script.Sels[i].Expr, &ns)
						t := ns[si]
						t.Items = append(t.Items[:ii], t.Items[ii+1:]...)
						j := ii
						if j >= len(t.Ops) {
							j = len(t.Ops) - 1
						}
						t.Ops = append(t.Ops[:j], t.Ops[j+1:]...)
						return true
					})
				}
				if q.Items[ii].Sub != nil && len(q.Items[ii].Sub.Items) == 1 {
					add(func(n *caseRec) bool {
						var ns []*rt.Seq
						collectSeqs(n.Script.Sels[i].Expr, &ns)
						ns[si].Items[ii] = ns[si].Items[ii].Sub.Items[0]
						return true
					})
				}
			}
		}
	}
	for i, tr := range cs.DB.Traces {
		for j, sp := range tr.Spans {
			i, j := i, j
			if len(tr.Spans) > 1 {
				add(func(n *caseRec) bool {
					t := n.DB.Traces[i]
					t.Spans = append(t.Spans[:j], t.Spans[j+1:]...)
					return true
				})
			}
			for k := range sp.Attrs {
				k := k
				add(func(n *caseRec) bool {
					s := n.DB.Traces[i].Spans[j]
					s.Attrs = append(s.Attrs[:k], s.Attrs[k+1:]...)
					return true
				})
			}
		}
	}
	if cs.Req.Limit != 20 {
		add(func(n *caseRec) bool { n.Req.Limit = 20; return true })
	}
	return out
}

func (e *env) minimise(cs *caseRec, sig string) (*caseRec, *result) {
	cur := cs
	curRes := e.eval(cur)
	budget := 600
	for progress := true; progress && budget > 0; {
		progress = false
		for _, cand := range shrinks(cur) {
			budget--
			if budget <= 0 {
				break
			}
			r := e.eval(cand)
			if r.Class == "violation" && r.Sig == sig {
				cur, curRes, progress = cand, r, true
				break
			}
		}
	}
	return cur, curRes
}

// ---- batches -------------------------------------------------------------------------------

type stats struct {
	Programs      int            `json:"programs"`
	Inputs        int            `json:"inputs"`
	GeneratorBugs int            `json:"generator_rejected"`
	Judged        int            `json:"disagreements_checked"`
	SpansJudged   int            `json:"span_sets_checked"`
	Probes        int            `json:"probes"`
	Rejected      int            `json:"qryn_rejects"`
	Outside       int            `json:"outside_property"`
	Undecided     int            `json:"undecided"`
	Violating     int            `json:"violating_cases"`
	Complex       int            `json:"complex_path_judged"`
	Cluster       int            `json:"cluster_judged"`
	LimitCuts     int            `json:"limit_cut_judged"`
	AggJudged     int            `json:"aggregate_judged"`
	ChainJudged   int            `json:"chain_judged"`
	Statements    int            `json:"statements_executed"`
	TagsValues    int            `json:"tags_values_requests"`
	Shapes        map[string]int `json:"shapes"`
}

func (s *stats) add(o *stats) {
	s.Programs += o.Programs
	s.Inputs += o.Inputs
	s.GeneratorBugs += o.GeneratorBugs
	s.Judged += o.Judged
	s.SpansJudged += o.SpansJudged
	s.Probes += o.Probes
	s.Rejected += o.Rejected
	s.Outside += o.Outside
	s.Undecided += o.Undecided
	s.Violating += o.Violating
	s.Complex += o.Complex
	s.Cluster += o.Cluster
	s.LimitCuts += o.LimitCuts
	s.AggJudged += o.AggJudged
	s.ChainJudged += o.ChainJudged
	s.Statements += o.Statements
	s.TagsValues += o.TagsValues
	for k, v := range o.Shapes {
		s.Shapes[k] += v
	}
}

// directed scripts: one per shape the property's quantifier names, so that every run meets them.
var directed = []string{
	`{.a = "x"}`, `{}`, `{duration > 1s}`, `{name = "op1"}`, `{span.n > 5}`, `{resource.b != "x"}`,
	`{.a = "x" && .n >= 5}`, `{.a = "x" || .b = "y"}`, `{(.a = "x" || .b = "y") && .n < 7}`,
	`{.a = "x" && (.n > 1 || (.b =~ "^x$" && name != "op2"))}`, `{.a = "x" && .a = "x"}`,
	`{duration >= 500ms && .a = "x"}`, `{duration > 1s || .a = "x"}`,
	`{.a = "x"} | count() > 1`, `{.n > 0} | avg(.n) >= 5`, `{.a != "y"} | max(duration) > 1.5s`, `{.n >= 0} | sum(span.n) < 10`, `{name =~ "^op[12]$"} | min(duration) <= 500ms`,
	`{.n >= 0} | sum(.n) >= 7`, `{.n >= 0} | min(.n) < 5`, `{name != "zz"} | sum(duration) > 2s`, `{name != "zz"} | avg(duration) <= 1s`, `{.n >= 0} | max(.n) = 7`, `{name != "zz"} | count() = 2`,
	`{.a = "x"} && {.b = "y"}`, `{.a = "x"} || {.b = "y"}`, `{.a = "x"} && {.n > 1} && {name = "op1"}`, `{.a = "x"} || {.b = "y"} || {.n = 7}`,
	`{.a = "x"} && {.b = "y"} || {.n > 1} | count() > 1`, `{.a = "x"} | count() > 0 && {.n > 1} | avg(.n) > 1`,
}

func genCase(c *run.Ctx, idx int) *caseRec {
	r := c.Rng(fmt.Sprintf("case-%d", idx))
	cs := &caseRec{Idx: idx}
	cs.Req.StartS, cs.Req.EndS = genWindow(r)
	cs.DB = genDB(r, cs.Req.StartS*1e9, cs.Req.EndS*1e9)
	cs.Script = genScript(r)
	if idx < 2*len(directed) {
		if s, err := fromText(directed[idx%len(directed)]); err == nil {
			cs.Script = s
		}
	}
	if r.Intn(100) < 70 {
		plant(r, cs.DB, cs.Script, cs.Req.StartS*1e9, cs.Req.EndS*1e9)
	}
	aimAggregates(r, cs.DB, cs.Script, cs.Req.StartS*1e9, cs.Req.EndS*1e9)
	if r.Intn(100) < 45 {
		cs.Req.Limit = 1 + r.Intn(4)
	} else {
		cs.Req.Limit = 20
	}
	if r.Intn(100) < 28 {
		portions := int64(2 + r.Intn(3))
		cs.Req.Complexity = portions*10000000 - int64(r.Intn(1000))
	}
	cs.Req.Cluster = r.Intn(100) < 15
	cs.Req.WriterZoneS = []int64{0, 0, 39600, -28800, 19800}[cs.Idx%5]
	return cs
}

func runBatch(c *run.Ctx, from, n int) *stats {
	e := &env{c: c, rig: newRig()}
	defer e.rig.close()
	st := &stats{Shapes: map[string]int{}}
	seenScripts := map[string]bool{}
	minimised := map[string]bool{}
	for idx := from; idx < from+n; idx++ {
		cs := genCase(c, idx)
		res := e.eval(cs)
		c.BeginCase(idx, cs.Text)
		shape := shapeClass(cs.Script)
		c.Cover("outcome", res.Class, 1)
		if res.Class == "generator-bug" {
			st.GeneratorBugs++
			c.Event("generator-rejected", 1)
			c.Note("generator bug (excluded): " + res.Why)
			c.EndCase(idx)
			continue
		}
		st.Inputs++
		if !seenScripts[cs.Text] {
			seenScripts[cs.Text] = true
			st.Programs++
		}
		st.Shapes[shape]++
		c.Cover("shape", shape, 1)
		if res.Answer != nil {
			st.Statements += len(res.Answer.Stmts)
		}
		path := "simple"
		if cs.Req.Complexity > 0 {
			path = "complex"
		}
		if cs.Req.Cluster {
			path += "+cluster"
		}
		key := caseKey(cs.Script) + "@" + path
		switch res.Class {
		case "undecided":
			st.Undecided++
			c.Case(key)
			c.Undecided(res.Why)
		case "qryn-rejects":
			st.Rejected++
			c.Case("")
			c.Cover("qryn-rejects", res.Why, 1)
		case "outside-property":
			st.Outside++
			c.Case("")
			c.Cover("outside-property", res.Why, 1)
		case "probe":
			st.Probes++
			c.Case("")
			for _, s := range res.Verdict.Splitters {
				c.Cover("probe-splitter", s, 1)
			}
			f := res.Follows
			if f == "" {
				f = "(no reading)"
			}
			c.Cover("probe-qryn-follows", f, 1)
			if res.Follows == "" && st.Probes < 40 {
				c.Note(fmt.Sprintf("probe (not judged): %s — readings differ on %s; qryn's answer %v matches none of them", cs.Text, res.Why, res.Answer.traceIDs()))
			}
		case "judged-ok", "violation":
			c.Case(key)
			judged := res.Answer != nil && res.Answer.Raise == nil && res.Answer.Panic == ""
			if judged {
				st.Judged++
				if res.SpansCmp {
					st.SpansJudged++
				}
				if cs.Req.Complexity > 0 {
					st.Complex++
				}
				if cs.Req.Cluster {
					st.Cluster++
				}
				if len(res.Verdict.Base.Traces) > cs.Req.Limit {
					st.LimitCuts++
				}
				if len(cs.Script.Sels) > 1 {
					st.ChainJudged++
				}
				for _, sel := range cs.Script.Sels {
					if sel.Agg != nil {
						st.AggJudged++
						break
					}
				}
			}
			c.Cover("path", path, 1)
			if res.Class == "judged-ok" && idx%6 == 0 {
				diff, planned := inCompany(cs.Text, &cs.Req)
				c.Floor("statements planned while five other clients planned the same text", 0, planned)
				if diff != "" {
					sig := "in-company/statement-differs"
					st.Violating++
					c.Cover("violation", sig, 1)
					c.Violation(sig, fmt.Sprintf("script %s: planned by six clients at once, %s", cs.Text, diff), map[string]any{"case": cs, "stage": "in-company"})
				}
			}
			if res.Class == "judged-ok" {
				c.Sample(map[string]any{"script": cs.Text, "window_s": []int64{cs.Req.StartS, cs.Req.EndS}, "limit": cs.Req.Limit, "path": path,
					"traces_in_db": len(cs.DB.Traces), "selected": res.Verdict.Base.IDs(), "returned": res.Answer.traceIDs(), "readings": res.Verdict.Readings})
			} else {
				st.Violating++
				c.Cover("violation", res.Sig, 1)
				rep, rr := cs, res
				if !minimised[res.Sig] {
					minimised[res.Sig] = true
					rep, rr = e.minimise(cs, res.Sig)
				}
				c.Violation(res.Sig, rr.Desc, replayDoc(rep, rr))
			}
		}
		// tags / values v2 with the same script (single selectors only: chains are rejected by the planner)
		if idx%9 == 4 && len(cs.Script.Sels) == 1 && res.Class != "qryn-rejects" && res.Class != "undecided" {
			e.tagsValues(cs, st)
		}
		c.EndCase(idx)
	}
	return st
}

func replayDoc(cs *caseRec, r *result) any {
	doc := map[string]any{"case": cs, "expected": r.Expected, "got": r.Got}
	if r.Answer != nil {
		doc["statements"] = r.Answer.Stmts
		doc["status"] = r.Answer.Status
	}
	return doc
}

// tagsValues: PlanTagsV2 / PlanValuesV2 with q — only "the statement is always valid" is judged
// (the property does not say which tags such a request lists).
func (e *env) tagsValues(cs *caseRec, st *stats) {
	c := e.c
	chdb, err := load(cs.DB, cs.Req.Cluster, cs.Req.WriterZoneS)
	if err != nil {
		return
	}
	for _, key := range []string{"", "a"} {
		rq := cs.Req
		rq.Limit = 2000 // what the controller passes when the client names no limit
		rq.Complexity = 0
		_, a, err := e.rig.tagsValues(chdb, &rq, key)
		st.TagsValues++
		what := "tags-v2"
		if key != "" {
			what = "values-v2"
		}
		c.Case(what + ":" + selClass(cs.Script.Sels[0], true))
		switch {
		case a.Panic != "":
			sig := what + ":" + selClass(cs.Script.Sels[0], false) + "/planner-panics/" + a.PanicFrame
			c.Cover("violation", sig, 1)
			c.Violation(sig, fmt.Sprintf("%s with q=%s: the planner panics (%s at %s)", what, cs.Text, a.Panic, a.PanicFrame),
				map[string]any{"case": cs, "endpoint": what, "key": key})
		case a.Unsupported != nil:
			c.Undecided("chsql-unsupported (" + what + "): " + clip(a.Unsupported.Err, 80))
		case a.Raise != nil:
			sig := what + "/statement-raises/" + raiseClass(a.Raise)
			c.Cover("violation", sig, 1)
			c.Violation(sig, fmt.Sprintf("%s with q=%s: ClickHouse rejects the statement: %s | SQL: %s", what, cs.Text, a.Raise.Err, clip(a.Raise.SQL, 900)),
				map[string]any{"case": cs, "endpoint": what, "key": key, "statements": a.Stmts})
		case err != nil:
			c.Cover("qryn-rejects", what+": "+rejectClass(err.Error()), 1)
		default:
			c.Cover("outcome", what+"-answered", 1)
		}
	}
}

// ---- entry points --------------------------------------------------------------------------

type childCfg struct {
	From int `json:"from"`
	N    int `json:"n"`
}

const rule = "for each generated (script, database, window, limit): qryn's parser accepts the script; every SQL statement the read path issues executes in E-CHSQL without a ClickHouse error; when all readings of the property agree, the returned trace ids are a valid `limit`-cut of the traces the reference evaluator selects (and, for single selectors and chains of || only, each returned span set equals the spans matched by the selector(s))"

func Main(c *run.Ctx) {
	c.SetRule(rule)
	c.Assume("E-CHSQL (DESIGN Appendix A) computes what ClickHouse would return for the statements qryn emits; tables hold one merged part in ORDER BY key order")
	c.Assume("tables are filled as the writer fills them: one tempo_traces row per span, one tempo_traces_attrs_gin row per (span, key) with `name` and `service.name` always present, one value per key per span")
	c.Assume("the reader process runs in UTC; the index tables' date column is the calendar day of the span in the writer's zone (UTC, UTC+11, UTC-8 or UTC+5:30 by case)")
	c.Assume("ambiguity policy (Appendix E): regex anchoring, label scope, number-vs-text equality, numeric text grammar, association of mixed &&/|| and aggregates over no value are readings; a case is judged only if all readings agree")
	n := c.Pick(2400, 40000)
	total := &stats{Shapes: map[string]int{}}
	if c.Quick() {
		total.add(runBatch(c, 0, n))
	} else {
		const children = 10
		per := n / children
		var wg sync.WaitGroup
		var mu sync.Mutex
		sem := make(chan struct{}, 4)
		for k := 0; k < children; k++ {
			wg.Add(1)
			go func(k int) {
				defer wg.Done()
				sem <- struct{}{}
				defer func() { <-sem }()
				name := fmt.Sprintf("batch-%d", k)
				out := c.RunChild(run.ChildSpec{Prop: "C11", Name: name, Cfg: childCfg{From: k * per, N: per}, Timeout: 40 * time.Minute})
				if !out.Completed {
					c.Undecided(fmt.Sprintf("child %s did not complete (exit %d, timed out %v, open case %d %s): %s", name, out.Exit, out.TimedOut, out.OpenIdx, string(out.OpenCase), clip(tail(out.Stderr), 300)))
					return
				}
				b, err := os.ReadFile(statsPath(name))
				if err != nil {
					c.Undecided("child " + name + " left no statistics")
					return
				}
				st := &stats{Shapes: map[string]int{}}
				if json.Unmarshal(b, st) == nil {
					mu.Lock()
					total.add(st)
					mu.Unlock()
				}
			}(k)
		}
		wg.Wait()
	}
	report(c, total, n)
}

func tail(s string) string {
	if len(s) > 400 {
		return s[len(s)-400:]
	}
	return s
}

func statsPath(name string) string { return filepath.Join(run.Scratch(), "c11-"+name+".json") }

func Child(c *run.Ctx, name string) {
	var cfg childCfg
	if err := run.ChildCfg(&cfg); err != nil {
		fmt.Fprintln(os.Stderr, "bad child cfg:", err)
		os.Exit(3)
	}
	st := runBatch(c, cfg.From, cfg.N)
	b, _ := json.Marshal(st)
	os.WriteFile(statsPath(name), b, 0644)
}

func report(c *run.Ctx, st *stats, n int) {
	c.Extra("programs", st.Programs)
	c.Extra("inputs", st.Inputs)
	c.Extra("disagreements_checked", st.Judged)
	c.Extra("span_sets_checked", st.SpansJudged)
	c.Extra("probes_not_judged", st.Probes)
	c.Extra("qryn_rejects", st.Rejected)
	c.Extra("outside_property", st.Outside)
	c.Extra("generator_rejected", st.GeneratorBugs)
	c.Extra("violating_cases", st.Violating)
	c.Extra("statements_executed", st.Statements)
	c.Extra("tags_values_requests", st.TagsValues)
	c.Extra("shape_classes", st.Shapes)
	c.Extra("judged_on_complex_processor", st.Complex)
	c.Extra("judged_in_cluster_mode", st.Cluster)
	c.Extra("judged_with_limit_cut", st.LimitCuts)
	c.Extra("judged_with_aggregate", st.AggJudged)
	c.Extra("judged_chains", st.ChainJudged)
	c.Exhaustive(false)
	c.Floor("cases-generated", n, st.Inputs+st.GeneratorBugs)
	c.Floor("judged-cases", n/4, st.Judged)
	c.Floor("judged-on-complex-processor", n/40, st.Complex)
	c.Floor("judged-in-cluster-mode", n/80, st.Cluster)
	c.Floor("judged-with-limit-cut", n/40, st.LimitCuts)
	c.Floor("span-sets-judged", n/10, st.SpansJudged)
	c.Floor("judged-with-aggregate", n/20, st.AggJudged)
	c.Floor("judged-chains", n/40, st.ChainJudged)
	c.Floor("shape-classes", 8, len(st.Shapes))
	c.Floor("statements planned while five other clients planned the same text", n/10, 0)
	if st.GeneratorBugs*50 > n {
		c.Undecided(fmt.Sprintf("generator: %d of %d scripts rejected by the parser (> 2%%)", st.GeneratorBugs, n))
	}
}

// Replay re-runs a stored case.
func Replay(c *run.Ctx, path string) {
	c.SetRule(rule)
	b, err := os.ReadFile(path)
	if err != nil {
		c.Undecided("cannot read replay: " + err.Error())
		return
	}
	var doc struct {
		Case struct {
			Case     *caseRec `json:"case"`
			Endpoint string   `json:"endpoint"`
			Stage    string   `json:"stage"`
		} `json:"case"`
		Sig string `json:"sig"`
	}
	if err := json.Unmarshal(b, &doc); err != nil || doc.Case.Case == nil {
		c.Undecided("cannot decode replay")
		return
	}
	e := &env{c: c, rig: newRig()}
	defer e.rig.close()
	cs := doc.Case.Case
	if doc.Case.Endpoint != "" {
		st := &stats{Shapes: map[string]int{}}
		e.tagsValues(cs, st)
		c.Case("replay-a")
		c.Case("replay-b")
		return
	}
	if doc.Case.Stage == "in-company" {
		if err := parseBack(cs.Script); err != nil {
			c.Undecided("replay: " + err.Error())
			return
		}
		cs.Text = cs.Script.String()
		c.Case("replay-a")
		c.Case("replay-b")
		for i := 0; i < 20; i++ {
			if diff, _ := inCompany(cs.Text, &cs.Req); diff != "" {
				c.Violation("in-company/statement-differs", fmt.Sprintf("script %s: planned by six clients at once, %s", cs.Text, diff), map[string]any{"case": cs, "stage": "in-company"})
				return
			}
		}
		return
	}
	res := e.eval(cs)
	c.Case("replay:" + caseKey(cs.Script))
	c.Case("replay:" + shapeClass(cs.Script))
	fmt.Printf("replay: script %s -> %s %s %s\n", cs.Text, res.Class, res.Sig, res.Why)
	if res.Class == "violation" {
		c.Violation(res.Sig, res.Desc, replayDoc(cs, res))
	}
	if res.Class == "undecided" {
		c.Undecided(res.Why)
	}
}

func jsonIndent(v any) ([]byte, error) { return json.MarshalIndent(v, "", " ") }
