#!/bin/bash
# Proposed repairs for the C11 findings, as edits relative to the root of a qryn checkout (used with
# /verif/mut.sh <name> "bash .../proposed_fixes.sh" C11 : with all of them the check is `held`, quick and thorough).
# Part 1 (small, safe): duration terms and the index filter; tags/values v2 GROUP BY; tags v2 with {};
# attrless upper bound; complex processor lower bound. Part 2: chains (planComplex, && per trace, nested
# max(timestamp_ns)), no narrowing of the window in the complex processor, float literal rendering.
python3 - <<'PY'
import re
def sub(path, old, new, count=1):
    s=open(path).read()
    assert old in s, (path, old)
    s=s.replace(old,new,count)
    open(path,'w').write(s)
d='reader/traceql/transpiler/clickhouse_transpiler/'
# F1 duration terms are not indexable by key: no key filter at all when one is present
sub(d+'attr_condition.go','''	where     []sql.SQLCondition
}''','''	where     []sql.SQLCondition
	noWhere   bool
}''')
sub(d+'attr_condition.go','''			t.Label != "name" {
			continue
		}''','''			t.Label != "name" {
			a.noWhere = true
			continue
		}''')
sub(d+'attr_condition.go','''	res := main.AndWhere(sql.Or(a.where...)).AndHaving(having)''','''	res := main
	if !a.noWhere && len(a.where) > 0 {
		res = res.AndWhere(sql.Or(a.where...))
	}
	res = res.AndHaving(having)''')
# F4 tags/values: distinct instead of group by span
sub(d+'select_tags_planner.go','''		With(withMain, withPreSelectTags).
		Select(''','''		With(withMain, withPreSelectTags).
		Distinct(true).
		Select(''')
sub(d+'select_tags_planner.go''',''')).GroupBy(sql.NewRawObject("trace_id"), sql.NewRawObject("span_id"))''','''))''')
# F5 tags with {}
sub(d+'expression_planner_simple.go','''	p.analyze()

	var res shared.SQLRequestPlanner = &AttrConditionPlanner{
		Main:           NewInitIndexPlanner(false),
		Terms:          p.termIdx,
		Conds:          p.cond,
		AggregatedAttr: p.aggAttr,
	}
	res = &SelectTagsPlanner{Main: res}''','''	p.analyze()

	if p.cond == nil {
		return &AllTagsRequestPlanner{}, nil
	}

	var res shared.SQLRequestPlanner = &AttrConditionPlanner{
		Main:           NewInitIndexPlanner(false),
		Terms:          p.termIdx,
		Conds:          p.cond,
		AggregatedAttr: p.aggAttr,
	}
	res = &SelectTagsPlanner{Main: res}''')
# F6 attrless upper bound
sub(d+'attrless.go','''			sql.Le(sql.NewRawObject("timestamp_ns"), sql.NewIntVal(ctx.To.UnixNano())),''','''			sql.Lt(sql.NewRawObject("timestamp_ns"), sql.NewIntVal(ctx.To.UnixNano())),''')
# F7 complex processor: never move the lower bound out of the requested window
sub('reader/traceql/transpiler/complex_request_processor.go','''	if int64(len(res)) != ctx.Limit {
		from = ctx.From
	}''','''	if int64(len(res)) != ctx.Limit || from.Before(ctx.From) {
		from = ctx.From
	}''')
sub('reader/traceql/transpiler/complex_request_processor.go','''from.Nanosecond() == 0 ||''','''from.IsZero() ||''')
PY
# ---- part 2
python3 - <<'PY'
def sub(path, old, new, count=1):
    s=open(path).read()
    assert old in s, (path, old[:60])
    s=s.replace(old,new,count)
    open(path,'w').write(s)
d='reader/traceql/transpiler/clickhouse_transpiler/'
# complex processor: no narrowing at all
sub('reader/traceql/transpiler/complex_request_processor.go','''	if int64(len(res)) != ctx.Limit || from.Before(ctx.From) {
		from = ctx.From
	}''','''	from = ctx.From''')
for f,kw in (('complex_and.go','intersect'),('complex_or.go','union')):
    s=open(d+f).read()
    s=s.replace('''		selects[i].Select(
			append(selects[i].GetSelect(),
				sql.NewSimpleCol("max(timestamp_ns)", "max_timestamp_ns"))...)''','''		tsCol := "max(timestamp_ns)"
		switch op.(type) {
		case *ComplexAndPlanner, *ComplexOrPlanner, ComplexAndPlanner, ComplexOrPlanner:
			tsCol = "max(max_timestamp_ns)"
		}
		selects[i].Select(
			append(selects[i].GetSelect(),
				sql.NewSimpleCol(tsCol, "_max_ts"))...)''')
    s=s.replace('''				sql.NewSimpleCol("max_timestamp_ns", "max_timestamp_ns")).''','''				sql.NewSimpleCol("_max_ts", "max_timestamp_ns"),
				sql.NewSimpleCol(fmt.Sprintf("%d", i), "op_idx")).''')
    if f=='complex_and.go':
        s=s.replace('''		From(sql.NewCol(&intersect{
			selects: selects,
		}, c.Prefix+"a")).
		GroupBy(sql.NewRawObject("trace_id")).''','''		From(sql.NewCol(&union{
			selects: selects,
		}, c.Prefix+"a")).
		GroupBy(sql.NewRawObject("trace_id")).
		AndHaving(sql.Eq(sql.NewRawObject("uniqExact(op_idx)"), sql.NewIntVal(int64(len(selects))))).''')
    open(d+f,'w').write(s)
# planComplex: || of &&-groups
s=open(d+'planner.go').read()
i=s.index('func (p *planner) planComplex(')
j=s.index('func (p *planner) planEval()')
s=s[:i]+'''func (p *planner) planComplex(root iExpressionPlanner, current iExpressionPlanner,
	script *traceql_parser.TraceQLScript) {
	var orOps, andOps []iExpressionPlanner
	for cur := script; cur != nil; cur = cur.Tail {
		andOps = append(andOps, &simpleExpressionPlanner{script: cur, prefix: p.getPrefix()})
		if cur.AndOr != "&&" {
			if len(andOps) == 1 {
				orOps = append(orOps, andOps[0])
			} else {
				orOps = append(orOps, &complexExpressionPlanner{prefix: p.getPrefix(), _fn: "&&", _operands: andOps})
			}
			andOps = nil
		}
	}
	if len(orOps) == 1 {
		root.setOps(orOps)
		return
	}
	root.setOps([]iExpressionPlanner{&complexExpressionPlanner{prefix: p.getPrefix(), _fn: "||", _operands: orOps}})
}

'''+s[j:]
open(d+'planner.go','w').write(s)
PY
gofmt -l reader/traceql || true
python3 - <<'PY'
p='reader/utils/sql_select/objects.go'
s=open(p).read()
s=s.replace('return fmt.Sprintf("%f", f.val), nil','return strconv.FormatFloat(f.val, \'f\', -1, 64), nil')
if '"strconv"' not in s:
    s=s.replace('import (','import (\n\t"strconv"',1)
open(p,'w').write(s)
PY
