package c11

import (
	"fmt"
	"os"
	"testing"

	"verif/harness/engines/reftraceql"
)

func tinyDB() *reftraceql.DB {
	S := int64(1700000000) * 1e9
	return &reftraceql.DB{Traces: []*reftraceql.Trace{
		{ID: "000102030405060708090a0b0c0d0e0f", Spans: []*reftraceql.Span{
			{SpanID: "1111111111111111", TS: S + 10, Dur: 2e9, Name: "op1", Service: "svc", Attrs: []reftraceql.Attr{{Key: "a", Val: "x", Scope: "span"}}},
			{SpanID: "2222222222222222", TS: S + 20, Dur: 5e8, Name: "op2", Service: "svc", Attrs: []reftraceql.Attr{{Key: "b", Val: "y", Scope: "span"}, {Key: "n", Val: "7", Scope: "span"}}},
		}},
		{ID: "100102030405060708090a0b0c0d0e0f", Spans: []*reftraceql.Span{
			{SpanID: "3333333333333333", TS: S + 30, Dur: 3e9, Name: "op1", Service: "svc2", Attrs: []reftraceql.Attr{{Key: "a", Val: "x", Scope: "span"}, {Key: "b", Val: "y", Scope: "span"}}},
		}},
	}}
}

func TestPlumb(t *testing.T) {
	r := newRig()
	defer r.close()
	tdb := tinyDB()
	db, err := load(tdb, false)
	if err != nil {
		t.Fatal(err)
	}
	qs := []string{`{.a="x"}`, `{}`, `{duration > 1s}`, `{.a="x"} && {.b="y"}`, `{.a="x"} || {.b="y"}`, `{.a="x" && duration > 1s}`,
		`{.a="x"} | count() > 0`, `{.n > 5} | avg(.n) > 1`, `{.a="x"} || {.b="y"} || {.n=7}`, `{.a="x"} && {.b="y"} && {.n=7}`, `{duration > 1s || .b = "y"}`}
	if s := os.Getenv("Q"); s != "" {
		qs = []string{s}
	}
	for _, q := range qs {
		for _, cx := range []int64{0, 25000000} {
			a := r.search(db, &request{Script: q, StartS: 1700000000, EndS: 1700000100, Limit: 20, Complexity: cx})
			fmt.Printf("== %s cx=%d -> %d traces=%v", q, cx, a.Status, a.traceIDs())
			for _, tr := range a.Traces {
				fmt.Printf(" spans=%v", tr.SpanSet.Spans)
			}
			fmt.Println()
			if a.Status != 200 {
				fmt.Println("   body:", a.Body)
			}
			for _, s := range a.Stmts {
				if s.Err != "" || os.Getenv("SQL") != "" {
					fmt.Printf("   [%s] rows=%d err=%s\n      %s\n", s.Kind, s.Rows, s.Err, s.SQL)
				}
			}
		}
	}
}
