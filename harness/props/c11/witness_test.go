package c11

import (
	"encoding/json"
	"fmt"
	"os"
	"testing"

	rt "verif/harness/engines/reftraceql"
	"verif/harness/engines/run"
)

// Minimal witnesses of the defects the check reports on the unchanged tree. Each must either still
// show its signature or — once qryn is repaired — be judged correct; it must never be undecided.

const wS = int64(1700000000)

func wspan(id string, off, dur int64, kv ...string) *rt.Span {
	s := &rt.Span{SpanID: id, TS: wS*1e9 + off, Dur: dur, Name: "op", Service: "svc"}
	for i := 0; i+1 < len(kv); i += 2 {
		s.Attrs = append(s.Attrs, rt.Attr{Key: kv[i], Val: kv[i+1], Scope: "span"})
	}
	return s
}

const (
	tA = "000000000000000000000000000000aa"
	tB = "000000000000000000000000000000bb"
)

type witness struct {
	name   string
	script string
	db     *rt.DB
	req    request // window [wS, wS+100)
	sig    string
}

func witnesses() []witness {
	win := request{StartS: wS, EndS: wS + 100, Limit: 20}
	one := func(spans ...*rt.Span) *rt.DB { return &rt.DB{Traces: []*rt.Trace{{ID: tA, Spans: spans}}} }
	lim1 := win
	lim1.Limit = 1
	return []witness{
		{"duration-only selector renders `and ()`", `{duration > 1s}`, one(wspan("0000000000000001", 10, 2e9)), win,
			"duration-only/statement-raises/EMPTY_CONDITION"},
		{"duration term under || is not in the index filter", `{duration > 1s || .a = "x"}`, one(wspan("0000000000000001", 10, 2e9)), win,
			"duration-or/trace-set-differs:missing"},
		{"&& between selectors intersects spans, not traces", `{.a = "x"} && {.b = "y"}`,
			one(wspan("0000000000000001", 10, 1, "a", "x"), wspan("0000000000000002", 20, 1, "b", "y")), win,
			"selector&&selector/trace-set-differs:missing"},
		{"chain of three: max(timestamp_ns) from a sub-select without that column", `{.a = "x"} || {.b = "y"} || {.n = 7}`,
			one(wspan("0000000000000001", 10, 1, "a", "x")), win, "chain3(||)/statement-raises/UNKNOWN_IDENTIFIER"},
		{"chain of four &&: planComplex indexes operands() of a simple planner", `{.a = "x"} && {.a = "x"} && {.a = "x"} && {.a = "x"}`,
			one(wspan("0000000000000001", 10, 1, "a", "x")), win, "chain4(&&)/planner-panics/clickhouse_transpiler.(*planner).planComplex"},
		{"`{}`: trace ids are limited with `timestamp_ns <= to`", `{}`,
			&rt.DB{Traces: []*rt.Trace{{ID: tA, Spans: []*rt.Span{wspan("0000000000000001", 100e9, 1)}}, {ID: tB, Spans: []*rt.Span{wspan("0000000000000002", 10, 1)}}}}, lim1,
			"{}/trace-set-differs:missing"},
		{"float literal rendered with %f", `{.n > 0.0000001}`, one(wspan("0000000000000001", 10, 1, "n", "0.00000005")), win,
			"long-decimal-literal/trace-set-differs:extra"},
	}
}

func TestWitnesses(t *testing.T) {
	c := run.Open("C11", "translation_validation")
	e := &env{c: c, rig: newRig()}
	defer e.rig.close()
	for _, w := range witnesses() {
		s, err := fromText(w.script)
		if err != nil {
			t.Fatalf("%s: %v", w.script, err)
		}
		cs := &caseRec{Script: s, DB: w.db, Req: w.req}
		r := e.eval(cs)
		switch {
		case r.Class == "violation" && r.Sig == w.sig:
			t.Logf("DEFECT PRESENT  %-45s %s", w.sig, w.name)
		case r.Class == "judged-ok":
			t.Logf("repaired        %-45s %s", w.sig, w.name)
		default:
			t.Errorf("%s: class %s sig %q why %q (expected %q or judged-ok)", w.script, r.Class, r.Sig, r.Why, w.sig)
		}
		if os.Getenv("C11_SHOW") != "" {
			b, _ := json.MarshalIndent(map[string]any{"expected": r.Expected, "got": r.Got, "desc": r.Desc}, "", " ")
			fmt.Println(w.script, string(b))
		}
	}
}

// The complex request processor moves the lower window bound to a trace's start time, which comes
// from the unwindowed traces table: a span older than the requested window is then matched.
func TestWitnessComplexProcessor(t *testing.T) {
	c := run.Open("C11", "translation_validation")
	e := &env{c: c, rig: newRig()}
	defer e.rig.close()
	s, _ := fromText(`{.b = "y"}`)
	// found by search over trace ids (the partition of ids among iterations is a hash): see c11 replays
	for i := 0; i < 64; i++ {
		id := fmt.Sprintf("%032x", i+1)
		db := &rt.DB{Traces: []*rt.Trace{{ID: id, Spans: []*rt.Span{
			wspan("0000000000000001", -5e9, 1, "b", "y"), // five seconds before the window
			wspan("0000000000000002", 10, 1, "b", "y"),
		}}}}
		cs := &caseRec{Script: s, DB: db, Req: request{StartS: wS, EndS: wS + 100, Limit: 1, Complexity: 39999999}}
		r := e.eval(cs)
		if r.Class == "violation" {
			t.Logf("DEFECT PRESENT  %s with trace id %s: %s", r.Sig, id, r.Desc)
			return
		}
		if r.Class != "judged-ok" {
			t.Fatalf("class %s %s", r.Class, r.Why)
		}
	}
	t.Log("no witness among 64 trace ids (repaired, or the first partition never held the trace)")
}

func TestWitnessTags(t *testing.T) {
	c := run.Open("C11", "translation_validation")
	e := &env{c: c, rig: newRig()}
	defer e.rig.close()
	db := &rt.DB{Traces: []*rt.Trace{{ID: tA, Spans: []*rt.Span{wspan("0000000000000001", 10, 1, "a", "x")}}}}
	chdb, _ := load(db, false, 0)
	for _, q := range []string{`{.a = "x"}`, `{}`} {
		for _, key := range []string{"", "a"} {
			vals, a, err := e.rig.tagsValues(chdb, &request{Script: q, StartS: wS, EndS: wS + 100, Limit: 2000}, key)
			switch {
			case a.Panic != "":
				t.Logf("DEFECT PRESENT  q=%s key=%q: planner panics at %s", q, key, a.PanicFrame)
			case a.Raise != nil:
				t.Logf("DEFECT PRESENT  q=%s key=%q: %s", q, key, a.Raise.Err)
			case err != nil:
				t.Logf("q=%s key=%q rejected: %v", q, key, err)
			default:
				t.Logf("q=%s key=%q -> %v", q, key, vals)
			}
		}
	}
}
