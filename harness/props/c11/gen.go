package c11

import (
	"encoding/hex"
	"fmt"
	"math/rand"
	"sort"
	"strconv"
	"strings"

	traceql_parser "github.com/metrico/qryn/reader/traceql/parser"

	rt "verif/harness/engines/reftraceql"
)

// ---- vocabulary ----------------------------------------------------------------------------

type keyDef struct {
	name  string
	scope string // hidden truth: "span" | "resource"
	num   bool   // values are mostly numeric text
}

var keys = []keyDef{
	{"a", "span", false}, {"http.method", "span", false}, {"err-kind", "span", false},
	{"n", "span", true}, {"http.status_code", "span", true},
	{"b", "resource", false}, {"k8s.pod_name", "resource", false}, {"cpu", "resource", true},
	// attributes whose own names begin with a scope word (OpenTracing's span.kind) beside their unprefixed namesakes
	{"span.kind", "span", false}, {"kind", "span", false}, {"resource.type", "resource", false}, {"type", "span", false}, {"span.weight", "span", true}, {"weight", "span", true},
}

var (
	strVals   = []string{"x", "y", "GET", "POST", "alpha", "ba", "a.b", "foo bar", "it's", `q"t`, `b\s`}
	numVals   = []string{"0", "1", "5", "7", "10", "-3", "2.5", "200", "404", "500", "0.25"}
	tinyNums  = []string{"0.0000001", "4.9999999", "2.50000001"} // literals only: more than six fraction digits
	oddNums   = []string{"05", "5.0", "1e3", "+5", "inf", "nan", ".5", "5.", "0x10", " 5"}
	nonNums   = []string{"n/a", "x", ""}
	names     = []string{"op1", "op2", "GET /x", "5", "db.query"}
	services  = []string{"svc", "api", "db"}
	durations = []int64{0, 1000, 5e8, 1e9, 1e9 + 1, 15e8, 2e9, 6e10, 36e11}
	durLits   = []string{"0ns", "1us", "1000ns", "500ms", "0.5s", "1s", "1.5s", "2s", "1m", "1h", "2000ms"}
	regexes   = []string{"^x$", "x|y", "^(GET|POST)$", "G.T", ".*a.*", "a", "^ba", "a\\.b", "foo.bar", "^op[12]$", "op", "[0-9]+", "^[0-9]+$", "P.*", "^$", ".+"}
)

const baseS = int64(1700000000) // 2023-11-14 22:13:20 UTC; next UTC midnight is 1700006400

func pick[T any](r *rand.Rand, xs []T) T { return xs[r.Intn(len(xs))] }

func contains(xs []string, s string) bool {
	for _, x := range xs {
		if x == s {
			return true
		}
	}
	return false
}

func randHex(r *rand.Rand, n int) string {
	b := make([]byte, n)
	r.Read(b)
	return hex.EncodeToString(b)
}

// ---- database ------------------------------------------------------------------------------

func genWindow(r *rand.Rand) (startS, endS int64) {
	lens := []int64{1, 2, 10, 100, 3600, 90000}
	l := pick(r, lens)
	switch r.Intn(4) {
	case 0: // crosses UTC midnight
		startS = 1700006400 - 1 - r.Int63n(l) // end falls on or after midnight
	case 1: // starts at midnight
		startS = 1700006400
	default:
		startS = baseS + r.Int63n(5000)
	}
	return startS, startS + l
}

func genTS(r *rand.Rand, from, to int64, grid []int64) int64 {
	switch x := r.Intn(100); {
	case x < 55:
		return pick(r, grid)
	case x < 65:
		return from + r.Int63n(to-from)
	case x < 80:
		return pick(r, []int64{from - 1, from, to - 1, to})
	case x < 90:
		return from - 2 - r.Int63n(pick(r, []int64{10, 1e9, 3600e9, 2 * 86400e9}))
	default:
		return to + 1 + r.Int63n(pick(r, []int64{10, 1e9, 3600e9, 2 * 86400e9}))
	}
}

func genValue(r *rand.Rand, k keyDef, probeData bool) string {
	if k.num {
		switch x := r.Intn(100); {
		case x < 78:
			return pick(r, numVals)
		case x < 92 || !probeData:
			return pick(r, nonNums[:2])
		default:
			return pick(r, oddNums)
		}
	}
	if r.Intn(100) < 6 {
		return pick(r, numVals) // a string attribute that happens to hold digits
	}
	return pick(r, strVals)
}

func genDB(r *rand.Rand, from, to int64) *rt.DB {
	db := &rt.DB{}
	probeData := r.Intn(5) == 0
	nT := 1 + r.Intn(10)
	if r.Intn(3) == 0 {
		nT = 1 + r.Intn(4)
	}
	// a small grid of instants inside the window so that ties and near-ties occur
	var grid []int64
	for i := 0; i < 6; i++ {
		grid = append(grid, from+r.Int63n(to-from))
	}
	usedKeys := make([]keyDef, 0, 5)
	for _, i := range r.Perm(len(keys))[:3+r.Intn(4)] {
		usedKeys = append(usedKeys, keys[i])
	}
	seen := map[string]bool{}
	for t := 0; t < nT; t++ {
		tr := &rt.Trace{ID: randHex(r, 16)}
		nS := 1 + r.Intn(8)
		if r.Intn(2) == 0 {
			nS = 1 + r.Intn(3)
		}
		svc := pick(r, services)
		resAttrs := []rt.Attr{}
		for _, k := range usedKeys {
			if k.scope == "resource" && r.Intn(2) == 0 {
				resAttrs = append(resAttrs, rt.Attr{Key: k.name, Val: genValue(r, k, probeData), Scope: "resource"})
			}
		}
		for s := 0; s < nS; s++ {
			id := randHex(r, 8)
			for seen[id] {
				id = randHex(r, 8)
			}
			seen[id] = true
			sp := &rt.Span{SpanID: id, TS: genTS(r, from, to, grid), Name: pick(r, names), Service: svc}
			if r.Intn(10) == 0 {
				sp.Service = pick(r, services)
			}
			if r.Intn(3) == 0 {
				sp.Dur = r.Int63n(3e9)
			} else {
				sp.Dur = pick(r, durations)
			}
			if r.Intn(8) != 0 {
				sp.Attrs = append(sp.Attrs, resAttrs...)
			}
			for _, k := range usedKeys {
				if k.scope == "span" && r.Intn(100) < 45 {
					sp.Attrs = append(sp.Attrs, rt.Attr{Key: k.name, Val: genValue(r, k, probeData), Scope: "span"})
				}
			}
			if len(sp.Attrs) > 5 {
				sp.Attrs = sp.Attrs[:5]
			}
			tr.Spans = append(tr.Spans, sp)
		}
		db.Traces = append(db.Traces, tr)
	}
	return db
}

// ---- scripts -------------------------------------------------------------------------------

type scriptGen struct {
	r     *rand.Rand
	terms []*rt.Term // terms generated so far (for repeats)
	probe bool       // allow constructs whose reading is open
	weird bool       // allow forms the grammar accepts but the planner is expected to refuse
}

func (g *scriptGen) literal(k keyDef) (kind int, str string, lit string, tick bool) {
	r := g.r
	if k.num && r.Intn(100) < 85 {
		if r.Intn(100) < 3 {
			return rt.KNum, "", pick(r, tinyNums), false
		}
		return rt.KNum, "", pick(r, numVals), false
	}
	if !k.num && r.Intn(100) < 4 {
		return rt.KNum, "", pick(r, numVals), false
	}
	s := pick(r, strVals)
	if k.num {
		s = pick(r, append(append([]string{}, nonNums...), numVals...))
	}
	return rt.KStr, s, "", r.Intn(8) == 0 && !strings.ContainsAny(s, "`\\")
}

func (g *scriptGen) term() *rt.Term {
	r := g.r
	if len(g.terms) > 0 && r.Intn(100) < 18 {
		c := *pick(r, g.terms)
		// the same comparison in the other spelling of its value: .n = 5 beside .n = "5" are different terms
		// (numeric against text comparison) although their values print alike without the quotes
		if r.Intn(3) == 0 && (c.Op == "=" || c.Op == "!=") && c.Scope != "" {
			switch {
			case c.Kind == rt.KNum:
				c.Kind, c.Str, c.Lit, c.Tick = rt.KStr, c.Lit, "", false
			case c.Kind == rt.KStr && contains(numVals, c.Str):
				c.Kind, c.Lit, c.Str, c.Tick = rt.KNum, c.Str, "", false
			}
		}
		return &c
	}
	t := &rt.Term{}
	switch x := r.Intn(100); {
	case x < 12: // duration intrinsic
		t.Name, t.Op, t.Kind, t.Lit = "duration", pick(r, []string{">", ">=", "<", "<=", "=", "!="}), rt.KDur, pick(r, durLits)
		if g.weird {
			switch y := r.Intn(100); {
			case y < 10:
				t.Lit = "1d" // grammar accepts the unit
			case y < 20:
				t.Kind, t.Lit = rt.KNum, "5" // grammar accepts it; not a duration
			case y < 25:
				t.Op = "=~"
				t.Kind, t.Str = rt.KStr, "1"
			}
		}
	case x < 22: // name intrinsic / attribute forms of it
		t.Name = "name"
		if r.Intn(4) == 0 {
			t.Scope = pick(r, []string{".", "span."})
		}
		if r.Intn(100) < 70 {
			t.Op, t.Kind, t.Str = pick(r, []string{"=", "!="}), rt.KStr, pick(r, names)
		} else if r.Intn(100) < 80 {
			t.Op, t.Kind, t.Str = pick(r, []string{"=~", "!~"}), rt.KStr, pick(r, regexes)
		} else {
			t.Op, t.Kind, t.Lit = pick(r, []string{"=", "!=", ">", "<"}), rt.KNum, "5"
		}
	case x < 24 && g.weird: // bare label other than the intrinsics (grammar accepts it)
		t.Name, t.Op, t.Kind, t.Str = "foo", "=", rt.KStr, "x"
	default:
		k := pick(r, keys)
		if r.Intn(100) < 6 {
			k = keyDef{"service.name", "resource", false}
		}
		if r.Intn(100) < 4 {
			k = keyDef{"zz", "span", false}
		}
		t.Name = k.name
		switch y := r.Intn(100); {
		case y < 55:
			t.Scope = "."
		case y < 88 || !g.probe:
			t.Scope = k.scope + "."
		default:
			t.Scope = pick(r, []string{"span.", "resource."})
		}
		var tick bool
		t.Kind, t.Str, t.Lit, tick = g.literal(k)
		t.Tick = tick
		if k.name == "service.name" {
			t.Kind, t.Str, t.Lit = rt.KStr, pick(r, services), ""
		}
		switch t.Kind {
		case rt.KNum:
			t.Op = pick(r, []string{"=", "!=", ">", ">=", "<", "<=", ">", "<"})
			if g.weird && r.Intn(100) < 10 {
				t.Op = "=~"
			}
		default:
			switch z := r.Intn(100); {
			case z < 45:
				t.Op = "="
			case z < 65:
				t.Op = "!="
			case z < 80:
				t.Op, t.Str = "=~", pick(r, regexes)
			default:
				t.Op, t.Str = "!~", pick(r, regexes)
			}
			if g.weird && r.Intn(100) < 15 {
				t.Op = pick(r, []string{">", "<="})
			}
			if (t.Op == "=~" || t.Op == "!~") && strings.Contains(t.Str, "`") {
				t.Tick = false
			}
		}
		if g.weird && r.Intn(100) < 10 {
			t.Kind, t.Lit, t.Op = rt.KDur, "5s", "="
		}
	}
	g.terms = append(g.terms, t)
	return t
}

func (g *scriptGen) seq(depth int) *rt.Seq {
	r := g.r
	n := 1
	switch x := r.Intn(100); {
	case x < 35:
		n = 1
	case x < 70:
		n = 2
	case x < 90:
		n = 3
	default:
		n = 4
	}
	wide := depth == 1 && r.Intn(100) < 5
	if wide {
		n = 9 + r.Intn(4) // more distinct terms than fit one byte of the per-span bit set
	}
	q := &rt.Seq{}
	homog := ""
	if r.Intn(100) < 60 {
		homog = pick(r, []string{"&&", "||"})
	}
	for i := 0; i < n; i++ {
		it := &rt.Item{}
		if !wide && depth < 3 && r.Intn(100) < 22 {
			it.Sub = g.seq(depth + 1)
		} else {
			it.Term = g.term()
		}
		q.Items = append(q.Items, it)
		if i > 0 {
			op := homog
			if op == "" {
				op = pick(r, []string{"&&", "||"})
			}
			q.Ops = append(q.Ops, op)
		}
	}
	return q
}

func (g *scriptGen) agg() *rt.Agg {
	r := g.r
	a := &rt.Agg{Cmp: pick(r, []string{">", ">=", "<", "<=", "=", "!="})}
	switch x := r.Intn(100); {
	case x < 40:
		a.Fn, a.Num = "count", pick(r, []string{"0", "1", "2", "3", "1.5"})
		if g.weird && r.Intn(100) < 25 {
			a.Unit = "s"
		}
	case x < 70:
		a.Fn, a.Name = pick(r, []string{"avg", "min", "max", "sum"}), "duration"
		a.Num, a.Unit = pick(r, []string{"0", "1", "500", "1.5", "2", "1000"}), pick(r, []string{"ns", "us", "ms", "s", "m", "h"})
		if g.weird && r.Intn(100) < 20 {
			a.Unit = pick(r, []string{"", "d"})
		}
	default:
		k := pick(r, []keyDef{keys[3], keys[4], keys[7], keys[0]})
		a.Fn, a.Name = pick(r, []string{"avg", "min", "max", "sum"}), k.name
		switch y := r.Intn(100); {
		case y < 55:
			a.Scope = "."
		case y < 90 || !g.probe:
			a.Scope = k.scope + "."
		default:
			a.Scope = pick(r, []string{"span.", "resource."})
		}
		a.Num = pick(r, []string{"0", "1", "5", "7", "10", "-3", "2.5", "200", "404", "3.75"})
		if g.weird && r.Intn(100) < 20 {
			a.Unit = "s"
		}
	}
	return a
}

func genScript(r *rand.Rand) *rt.Script {
	g := &scriptGen{r: r, probe: r.Intn(4) == 0, weird: r.Intn(12) == 0}
	n := 1
	switch x := r.Intn(100); {
	case x < 52:
		n = 1
	case x < 82:
		n = 2
	case x < 93:
		n = 3
	default:
		n = 4
	}
	s := &rt.Script{}
	homog := ""
	if r.Intn(100) < 60 {
		homog = pick(r, []string{"&&", "||"})
	}
	for i := 0; i < n; i++ {
		sel := &rt.Selector{}
		emptyP := 0
		if n == 1 {
			emptyP = 8
		} else if g.weird {
			emptyP = 15
		}
		if r.Intn(100) >= emptyP {
			sel.Expr = g.seq(1)
		}
		aggP := 30
		if n == 1 {
			aggP = 50
		}
		if r.Intn(100) < aggP && (sel.Expr != nil || g.weird) {
			sel.Agg = g.agg()
		}
		s.Sels = append(s.Sels, sel)
		if i > 0 {
			op := homog
			if op == "" {
				op = pick(r, []string{"&&", "||"})
			}
			s.Ops = append(s.Ops, op)
		}
	}
	return s
}

// ---- parse back with qryn's parser ----------------------------------------------------------

func flattenQ(e *traceql_parser.AttrSelectorExp, out *[]string) {
	for e != nil {
		if e.Head != nil {
			*out = append(*out, e.Head.Label+" "+e.Head.Op+" "+valueToken(e.Head.Val))
		}
		if e.ComplexHead != nil {
			*out = append(*out, "(")
			flattenQ(e.ComplexHead, out)
			*out = append(*out, ")")
		}
		if e.AndOr != "" {
			*out = append(*out, e.AndOr)
		}
		e = e.Tail
	}
}

// valueToken: the token the parser read for a value, taken from the parsed fields (not from Value.String(), which is
// what the planner keys terms by and therefore part of what is being judged).
func valueToken(v traceql_parser.Value) string {
	switch {
	case v.StrVal != nil:
		return v.StrVal.Str
	case v.FVal != "":
		return v.FVal
	}
	return v.TimeVal
}

func flattenR(q *rt.Seq, out *[]string) {
	for i, it := range q.Items {
		if i > 0 {
			*out = append(*out, q.Ops[i-1])
		}
		if it.Term != nil {
			*out = append(*out, it.Term.Label()+" "+it.Term.Op+" "+it.Term.ValueText())
		} else {
			*out = append(*out, "(")
			flattenR(it.Sub, out)
			*out = append(*out, ")")
		}
	}
}

// parseBack parses the rendered script with qryn's parser and checks that qryn read the same
// token structure the generator meant (selectors, operators, terms, aggregators).
func parseBack(s *rt.Script) error {
	text := s.String()
	p, err := traceql_parser.Parse(text)
	if err != nil {
		return fmt.Errorf("parser rejects %q: %v", text, err)
	}
	i := 0
	for cur := p; cur != nil; cur = cur.Tail {
		if i >= len(s.Sels) {
			return fmt.Errorf("parser found more selectors in %q", text)
		}
		sel := s.Sels[i]
		var a, b []string
		flattenQ(cur.Head.AttrSelector, &a)
		if sel.Expr != nil {
			flattenR(sel.Expr, &b)
		}
		if strings.Join(a, " ") != strings.Join(b, " ") {
			return fmt.Errorf("selector %d of %q read as %q, meant %q", i, text, a, b)
		}
		if (cur.Head.Aggregator == nil) != (sel.Agg == nil) {
			return fmt.Errorf("aggregator presence differs in %q", text)
		}
		if ag := cur.Head.Aggregator; ag != nil {
			if ag.Fn != sel.Agg.Fn || ag.Attr != sel.Agg.Scope+sel.Agg.Name || ag.Cmp != sel.Agg.Cmp || ag.Num != sel.Agg.Num || ag.Measurement != sel.Agg.Unit {
				return fmt.Errorf("aggregator of %q read as %+v, meant %+v", text, *ag, *sel.Agg)
			}
		}
		if i < len(s.Ops) {
			if cur.AndOr != s.Ops[i] {
				return fmt.Errorf("chain operator %d of %q read as %q", i, text, cur.AndOr)
			}
		} else if cur.AndOr != "" {
			return fmt.Errorf("extra chain operator in %q", text)
		}
		i++
	}
	if i != len(s.Sels) {
		return fmt.Errorf("parser found %d selectors in %q, meant %d", i, text, len(s.Sels))
	}
	return nil
}

// ---- shape classes -------------------------------------------------------------------------

func seqHasOr(q *rt.Seq) bool {
	for _, o := range q.Ops {
		if o == "||" {
			return true
		}
	}
	for _, it := range q.Items {
		if it.Sub != nil && seqHasOr(it.Sub) {
			return true
		}
	}
	return false
}

func isDur(t *rt.Term) bool { return t.Scope == "" && t.Name == "duration" }

func selClass(sel *rt.Selector, withAgg bool) string {
	c := "selector"
	if sel.Expr == nil {
		c = "{}"
	} else {
		ts := sel.Expr.Terms()
		nd := 0
		for _, t := range ts {
			if isDur(t) {
				nd++
			}
		}
		switch {
		case nd == len(ts):
			c = "duration-only"
		case nd > 0 && seqHasOr(sel.Expr):
			c = "duration-or"
		}
	}
	if withAgg && sel.Agg != nil {
		switch {
		case sel.Agg.Fn == "count":
			c += "|count"
		case sel.Agg.Scope == "" && sel.Agg.Name == "duration":
			c += "|agg(duration)"
		default:
			c += "|agg(attr)"
		}
	}
	return c
}

// shapeClass is the coarse class used in violation signatures: few enough classes that one defect
// has one or two signatures for every seed, fine enough that a different defect gets another one.
//
//	single selector:  {} | selector | duration-only | duration-or, "selector" also with its aggregator kind
//	chains:           chainN(&&|‖|mixed) for N ≥ 3, <class>&&<class> | <class>||<class> for two selectors
func shapeClass(s *rt.Script) string {
	return shapeClass0(s)
}

// mismatchClass is the class under which a wrong answer (not a rejected statement) is filed: scripts
// holding a numeric literal with more than six fraction digits form their own class, because there
// the rendering of the literal into SQL decides the outcome whatever the script's shape is.
func mismatchClass(s *rt.Script) string {
	if hasLongDecimal(s) {
		return "long-decimal-literal"
	}
	return shapeClass0(s)
}

func longDecimal(lit string) bool {
	i := strings.IndexByte(lit, '.')
	return i >= 0 && len(lit)-i-1 > 6
}

func hasLongDecimal(s *rt.Script) bool {
	for _, t := range s.Terms() {
		if t.Kind == rt.KNum && longDecimal(t.Lit) {
			return true
		}
	}
	for _, sel := range s.Sels {
		if sel.Agg != nil && longDecimal(sel.Agg.Num) {
			return true
		}
	}
	return false
}

func shapeClass0(s *rt.Script) string {
	switch n := len(s.Sels); {
	case n == 1:
		if c := selClass(s.Sels[0], false); c != "selector" {
			return c
		}
		return selClass(s.Sels[0], true)
	case n == 2:
		return selClass(s.Sels[0], false) + s.Ops[0] + selClass(s.Sels[1], false)
	default:
		and, or := false, false
		for _, o := range s.Ops {
			if o == "&&" {
				and = true
			} else {
				or = true
			}
		}
		k := "&&"
		if and && or {
			k = "mixed"
		} else if or {
			k = "||"
		}
		return fmt.Sprintf("chain%d(%s)", n, k)
	}
}

func seqKey(q *rt.Seq, depth int, ops, pre, kinds map[string]bool, maxDepth *int) {
	if depth > *maxDepth {
		*maxDepth = depth
	}
	for _, o := range q.Ops {
		ops["b"+o] = true
	}
	for _, it := range q.Items {
		if it.Sub != nil {
			seqKey(it.Sub, depth+1, ops, pre, kinds, maxDepth)
			continue
		}
		t := it.Term
		ops[t.Op] = true
		p := t.Scope
		if p == "" {
			p = t.Name
		}
		pre[p] = true
		kinds[[]string{"s", "n", "d"}[t.Kind]] = true
	}
}

func setStr(m map[string]bool) string {
	var ks []string
	for k := range m {
		ks = append(ks, k)
	}
	sort.Strings(ks)
	return strings.Join(ks, "")
}

// caseKey is the fine structural class used for distinct-case counting: per selector the set of
// boolean operators, nesting depth, term operators, label prefixes, literal kinds and aggregator.
func caseKey(s *rt.Script) string {
	var parts []string
	for i, sel := range s.Sels {
		p := "{}"
		if sel.Expr != nil {
			ops, pre, kinds := map[string]bool{}, map[string]bool{}, map[string]bool{}
			d := 0
			seqKey(sel.Expr, 1, ops, pre, kinds, &d)
			p = fmt.Sprintf("{%d:%s:%s:%s:d%d}", len(sel.Expr.Terms()), setStr(ops), setStr(pre), setStr(kinds), d)
		}
		if sel.Agg != nil {
			p += "|" + sel.Agg.Fn + "(" + sel.Agg.Scope
			if sel.Agg.Scope == "" {
				p += sel.Agg.Name
			}
			p += ")" + sel.Agg.Cmp + sel.Agg.Unit
		}
		if i > 0 {
			parts = append(parts, s.Ops[i-1])
		}
		parts = append(parts, p)
	}
	return strings.Join(parts, "")
}

// ---- text → AST (directed scripts, replays of hand-written witnesses) -------------------------

func splitLabel(l string) (scope, name string) {
	for _, p := range []string{"span.", "resource.", "."} {
		if strings.HasPrefix(l, p) {
			return p, l[len(p):]
		}
	}
	return "", l
}

func seqFromQ(e *traceql_parser.AttrSelectorExp) (*rt.Seq, error) {
	q := &rt.Seq{}
	for e != nil {
		it := &rt.Item{}
		switch {
		case e.Head != nil:
			t := &rt.Term{Op: e.Head.Op}
			t.Scope, t.Name = splitLabel(e.Head.Label)
			switch v := e.Head.Val; {
			case v.StrVal != nil:
				s, err := v.StrVal.Unquote()
				if err != nil {
					return nil, err
				}
				t.Kind, t.Str, t.Tick = rt.KStr, s, v.StrVal.Str[0] == '`'
			case v.FVal != "":
				t.Kind, t.Lit = rt.KNum, v.FVal
			default:
				t.Kind, t.Lit = rt.KDur, v.TimeVal
			}
			it.Term = t
		case e.ComplexHead != nil:
			sub, err := seqFromQ(e.ComplexHead)
			if err != nil {
				return nil, err
			}
			it.Sub = sub
		}
		q.Items = append(q.Items, it)
		if e.AndOr != "" {
			q.Ops = append(q.Ops, e.AndOr)
		}
		e = e.Tail
	}
	return q, nil
}

// fromText builds the reference AST for a hand-written script (using qryn's parser for tokenising only;
// parseBack re-checks the rendering).
func fromText(text string) (*rt.Script, error) {
	p, err := traceql_parser.Parse(text)
	if err != nil {
		return nil, err
	}
	s := &rt.Script{}
	for cur := p; cur != nil; cur = cur.Tail {
		sel := &rt.Selector{}
		if cur.Head.AttrSelector != nil {
			sel.Expr, err = seqFromQ(cur.Head.AttrSelector)
			if err != nil {
				return nil, err
			}
		}
		if ag := cur.Head.Aggregator; ag != nil {
			a := &rt.Agg{Fn: ag.Fn, Cmp: ag.Cmp, Num: ag.Num, Unit: ag.Measurement}
			a.Scope, a.Name = splitLabel(ag.Attr)
			sel.Agg = a
		}
		s.Sels = append(s.Sels, sel)
		if cur.AndOr != "" {
			s.Ops = append(s.Ops, cur.AndOr)
		}
	}
	if err := parseBack(s); err != nil {
		return nil, err
	}
	return s, nil
}

// ---- planting -------------------------------------------------------------------------------

func keyScope(name string) string {
	for _, k := range keys {
		if k.name == name {
			return k.scope
		}
	}
	if name == "service.name" {
		return "resource"
	}
	return "span"
}

func setAttr(sp *rt.Span, key, val string) {
	switch key {
	case "name":
		sp.Name = val
		return
	case "service.name":
		sp.Service = val
		return
	}
	for i := range sp.Attrs {
		if sp.Attrs[i].Key == key {
			sp.Attrs[i].Val = val
			return
		}
	}
	if len(sp.Attrs) >= 5 {
		sp.Attrs = sp.Attrs[:4]
	}
	sp.Attrs = append(sp.Attrs, rt.Attr{Key: key, Val: val, Scope: keyScope(key)})
}

// satisfying picks stored text that makes the term true under every reading (ok=false: none found).
func satisfying(r *rand.Rand, t *rt.Term) (string, bool) {
	pool := append(append([]string{}, strVals...), names...)
	pool = append(pool, services...)
	if t.Kind == rt.KNum {
		pool = numVals
	}
	probe := &rt.Span{SpanID: "00", Attrs: []rt.Attr{{Key: "k", Scope: "span"}}}
	pt := *t
	pt.Scope, pt.Name = ".", "k"
	s := &rt.Script{Sels: []*rt.Selector{{Expr: &rt.Seq{Items: []*rt.Item{{Term: &pt}}}}}}
	db := &rt.DB{Traces: []*rt.Trace{{ID: "00", Spans: []*rt.Span{probe}}}}
	cands := append([]string{}, pool...)
	if t.Kind == rt.KStr && t.Op == "=" {
		cands = append([]string{t.Str}, cands...)
	}
	for _, i := range r.Perm(len(cands)) {
		probe.Attrs[0].Val = cands[i]
		v, err := rt.EvalAll(s, db, 0, 1)
		if err == nil && v.TracesAgree && len(v.Base.Traces) == 1 {
			return cands[i], true
		}
	}
	return "", false
}

// plant makes individual terms of the script true on individual spans (a different span per term,
// chosen at random), so that selectors match through different spans of one trace and aggregates
// see several values — the situations the per-span bit-set, the grouping and the chain operators
// have to get right.
func plant(r *rand.Rand, db *rt.DB, s *rt.Script, from, to int64) {
	for _, sel := range s.Sels {
		for _, t := range sel.Expr.Terms() {
			if t.Scope == "" && t.Name != "name" && t.Name != "duration" {
				continue
			}
			for _, tr := range db.Traces {
				if r.Intn(100) >= 40 {
					continue
				}
				targets := []*rt.Span{pick(r, tr.Spans)}
				if sel.Agg != nil {
					// aggregates need several matching spans per trace
					for _, sp := range tr.Spans {
						if r.Intn(2) == 0 {
							targets = append(targets, sp)
						}
					}
				}
				for _, sp := range targets {
					plantTerm(r, sp, t, from, to)
				}
			}
		}
	}
	for _, sel := range s.Sels {
		if a := sel.Agg; a != nil && a.Scope != "" {
			for _, tr := range db.Traces {
				for _, sp := range tr.Spans {
					if r.Intn(100) < 50 {
						setAttr(sp, a.Name, pick(r, numVals))
					}
				}
			}
		}
	}
}

func plantTerm(r *rand.Rand, sp *rt.Span, t *rt.Term, from, to int64) {
	if isDur(t) {
		ns, _, err := rt.ParseDur(t.Lit)
		if err != nil || t.Kind != rt.KDur {
			return
		}
		switch t.Op {
		case "=", ">=", "<=":
			sp.Dur = ns
		case ">", "!=":
			sp.Dur = ns + 1 + r.Int63n(1000)
		case "<":
			if ns > 0 {
				sp.Dur = ns - 1
			}
		}
		return
	}
	if v, ok := satisfying(r, t); ok {
		setAttr(sp, t.Name, v)
	}
	if r.Intn(3) == 0 && (sp.TS < from || sp.TS >= to) {
		sp.TS = from + r.Int63n(to-from)
	}
}

// aimAggregates moves aggregate thresholds onto values the data actually produces (the aggregate of
// one of the traces), so that the comparison separates traces and sum/avg/min/max differ in outcome.
func aimAggregates(r *rand.Rand, db *rt.DB, s *rt.Script, from, to int64) {
	for _, sel := range s.Sels {
		a := sel.Agg
		if a == nil || sel.Expr == nil || r.Intn(100) >= 60 {
			continue
		}
		var vals []float64
		for _, tr := range db.Traces {
			if v, ok := rt.AggregateValue(sel, tr, from, to); ok {
				vals = append(vals, v)
			}
		}
		if len(vals) == 0 {
			continue
		}
		v := pick(r, vals)
		switch {
		case a.Fn == "count":
			if a.Unit == "" {
				a.Num = strconv.FormatFloat(v, 'f', -1, 64)
			}
		case a.Scope == "" && a.Name == "duration":
			if a.Unit != "" && a.Unit != "d" && v >= 0 && v < 9e15 {
				a.Num, a.Unit = strconv.FormatInt(int64(v), 10), "ns"
			}
		default:
			if a.Unit == "" {
				a.Num = strconv.FormatFloat(v, 'f', -1, 64)
				if longDecimal(a.Num) && r.Intn(10) != 0 {
					a.Num = strconv.FormatFloat(v, 'f', 3, 64) // near the value, short enough for any renderer
				}
			}
		}
	}
}
