package c11

import (
	"fmt"
	"os"
	"testing"

	"verif/harness/engines/run"
)

func TestDbg(t *testing.T) {
	c := run.Open("C11", "translation_validation")
	e := &env{c: c, rig: newRig()}
	q := os.Getenv("Q")
	counts := map[string]int{}
	shown := 0
	for i := 0; i < 300; i++ {
		cs := genCase(c, 100000+i)
		if q != "" {
			s, err := fromText(q)
			if err != nil {
				t.Fatal(err)
			}
			cs.Script = s
		}
		if os.Getenv("PLAIN") != "" {
			cs.Req.Complexity, cs.Req.Cluster = 0, false
		}
		r := e.eval(cs)
		k := r.Class + " " + r.Sig + " " + r.Why
		counts[k]++
		if r.Class == os.Getenv("SHOW") && shown < 3 {
			shown++
			m, mr := cs, r
			if r.Class == "violation" {
				m, mr = e.minimise(cs, r.Sig)
			}
			b, _ := jsonIndent(replayDoc(m, mr))
			fmt.Println(mr.Desc)
			fmt.Println(string(b))
		}
	}
	for k, n := range counts {
		fmt.Println(n, k)
	}
}
