package c11

import (
	"context"
	"database/sql/driver"
	"encoding/hex"
	"encoding/json"
	"errors"
	"fmt"
	"hash/fnv"
	"net/http"
	"net/http/httptest"
	"net/url"
	"os"
	"runtime/debug"
	"sort"
	"strings"
	"sync"
	"syscall"
	"time"

	"github.com/metrico/qryn/reader/logql/logql_transpiler_v2/shared"
	"github.com/metrico/qryn/reader/model"
	traceql_parser "github.com/metrico/qryn/reader/traceql/parser"
	traceql_transpiler "github.com/metrico/qryn/reader/traceql/transpiler"
	"github.com/metrico/qryn/reader/traceql/transpiler/clickhouse_transpiler"
	sqlsel "github.com/metrico/qryn/reader/utils/sql_select"
	"github.com/metrico/qryn/reader/utils/tables"

	"verif/harness/engines/chsql"
	"verif/harness/engines/reftraceql"
	"verif/harness/engines/sqldrv"
)

// stmtRec is one statement qryn issued during a request and what the reference interpreter did with it.
type stmtRec struct {
	SQL      string `json:"sql"`
	Kind     string `json:"kind"` // estimate | data | other
	Err      string `json:"err,omitempty"`
	ErrClass string `json:"err_class,omitempty"` // raise:<rule> | unsupported
	Rows     int    `json:"rows"`
}

// rig is the read path of qryn (router → controller → service → planners → request processors)
// on top of a scripted driver whose statements are executed by E-CHSQL over the case's tables.
type rig struct {
	sess   *sqldrv.Session
	reg    *sqldrv.Registry
	reader *sqldrv.Reader

	mu         sync.Mutex
	db         *chsql.DB
	complexity int64 // > 0: answer the complexity estimate with this number
	log        []stmtRec
}

var rigSeq int

func newRig() *rig {
	// qryn formats the window's dates with the process-local zone (init.go: ctx.From.Format);
	// which zone a deployment runs in is C13's subject, here the process runs in UTC.
	time.Local = time.UTC
	rigSeq++
	r := &rig{}
	r.sess = sqldrv.NewSession(fmt.Sprintf("c11-%d", rigSeq), r.handle)
	r.sess.Tables = append(r.sess.Tables, "tempo_traces", "tempo_traces_attrs_gin", "tempo_traces_kv")
	r.reg = sqldrv.NewRegistry(r.sess, "")
	r.reader = sqldrv.StartReader(r.reg, "")
	return r
}

func (r *rig) close() { r.reader.Server.Close() }

func isEstimate(q string) bool {
	return strings.Contains(q, "pre_final") && strings.HasSuffix(strings.TrimSpace(q), "FROM pre_final")
}

func errClass(err error) string {
	var re *chsql.RaiseError
	if errors.As(err, &re) {
		return "raise:" + re.Rule
	}
	if errors.Is(err, chsql.ErrUnsupported) {
		return "unsupported"
	}
	return "other"
}

func (r *rig) handle(ctx context.Context, q string) (*sqldrv.Rows, error) {
	r.mu.Lock()
	db, cx := r.db, r.complexity
	r.mu.Unlock()
	rec := stmtRec{SQL: q, Kind: "other"}
	if isEstimate(q) {
		rec.Kind = "estimate"
	} else if strings.Contains(q, "index_grouped") {
		rec.Kind = "data"
	}
	var rows *sqldrv.Rows
	res, err := db.Exec(q)
	if err != nil {
		rec.Err, rec.ErrClass = err.Error(), errClass(err)
		// what a ClickHouse server answers to a statement it rejects
		err = fmt.Errorf("code: 62, message: %s", err.Error())
	} else {
		rec.Rows = len(res.Rows)
		cols := make([]string, len(res.Cols))
		for i, c := range res.Cols {
			cols[i] = c.Name
		}
		data := make([][]driver.Value, len(res.Rows))
		for i, row := range res.Rows {
			data[i] = make([]driver.Value, len(row))
			for j, v := range row {
				dv, cerr := toDriver(v, res.Cols[j].Type)
				if cerr != nil && err == nil {
					err = cerr
					rec.Err, rec.ErrClass = cerr.Error(), "unsupported"
				}
				data[i][j] = dv
			}
		}
		if rec.Kind == "estimate" && cx > 0 && err == nil {
			data = [][]driver.Value{{cx}}
			cols = []string{"_count"}
		}
		rows = sqldrv.NewRows(cols, data)
	}
	r.mu.Lock()
	r.log = append(r.log, rec)
	r.mu.Unlock()
	if err != nil {
		return nil, err
	}
	return rows, nil
}

// toDriver converts an E-CHSQL value into what clickhouse-go hands to database/sql for the column type.
func toDriver(v chsql.Value, typ string) (driver.Value, error) {
	switch x := v.(type) {
	case uint8:
		return uint64(x), nil
	case uint16:
		return uint64(x), nil
	case uint32:
		return uint64(x), nil
	case uint64:
		return x, nil
	case int8:
		return int64(x), nil
	case int16:
		return int64(x), nil
	case int32:
		return int64(x), nil
	case int64:
		return x, nil
	case float64:
		return x, nil
	case string:
		return x, nil
	case chsql.Null:
		return nil, nil
	case chsql.Date:
		return time.Unix(int64(x)*86400, 0).UTC(), nil
	case chsql.DateTime:
		return time.Unix(int64(x), 0).UTC(), nil
	case *chsql.Map:
		m := map[string]string{}
		for i, k := range x.Keys {
			ks, ok1 := k.(string)
			vs, ok2 := x.Vals[i].(string)
			if !ok1 || !ok2 {
				return nil, fmt.Errorf("c11: cannot convert map %s", typ)
			}
			m[ks] = vs
		}
		return m, nil
	case chsql.Tuple:
		out := make([]any, len(x))
		for i, e := range x {
			d, err := toDriver(e, "")
			if err != nil {
				return nil, err
			}
			out[i] = d
		}
		return out, nil
	case chsql.Array:
		inner := strings.TrimSuffix(strings.TrimPrefix(typ, "Array("), ")")
		switch {
		case strings.HasPrefix(inner, "Nullable("):
			return nil, fmt.Errorf("c11: cannot convert %s", typ)
		case inner == "String" || strings.HasPrefix(inner, "FixedString") || strings.HasPrefix(inner, "LowCardinality"):
			out := make([]string, len(x))
			for i, e := range x {
				s, ok := e.(string)
				if !ok {
					return nil, fmt.Errorf("c11: %s holds %T", typ, e)
				}
				out[i] = s
			}
			return out, nil
		case strings.HasPrefix(inner, "Int"):
			out := make([]int64, len(x))
			for i, e := range x {
				d, _ := toDriver(e, "")
				n, ok := d.(int64)
				if !ok {
					return nil, fmt.Errorf("c11: %s holds %T", typ, e)
				}
				out[i] = n
			}
			return out, nil
		case strings.HasPrefix(inner, "UInt"):
			out := make([]uint64, len(x))
			for i, e := range x {
				d, _ := toDriver(e, "")
				n, ok := d.(uint64)
				if !ok {
					return nil, fmt.Errorf("c11: %s holds %T", typ, e)
				}
				out[i] = n
			}
			return out, nil
		case strings.HasPrefix(inner, "Float"):
			out := make([]float64, len(x))
			for i, e := range x {
				f, ok := e.(float64)
				if !ok {
					return nil, fmt.Errorf("c11: %s holds %T", typ, e)
				}
				out[i] = f
			}
			return out, nil
		case strings.HasPrefix(inner, "Tuple"):
			out := make([][]any, len(x))
			for i, e := range x {
				d, err := toDriver(e, "")
				if err != nil {
					return nil, err
				}
				out[i], _ = d.([]any)
			}
			return out, nil
		}
		return nil, fmt.Errorf("c11: cannot convert %s", typ)
	}
	return nil, fmt.Errorf("c11: cannot convert %T (%s)", v, typ)
}

// ---- tables --------------------------------------------------------------------------------

func rawID(h string) string {
	b, err := hex.DecodeString(h)
	if err != nil {
		panic(err)
	}
	return string(b)
}

func valID(s string) uint64 {
	h := fnv.New64a()
	h.Write([]byte(s))
	return h.Sum64() % 10000
}

// load fills qryn's three trace tables from the abstract database exactly as the writer does
// (writer/utils/unmarshal: one tempo_traces row per span; one tempo_traces_attrs_gin row per
// (span, key) with `name` and `service.name` always present; tempo_traces_kv through the
// materialized view's SELECT). Rows are stored in each table's ORDER BY key order, i.e. as one
// merged part: that is the order a ClickHouse server scans them in.
func load(tdb *reftraceql.DB, cluster bool, zoneS int64) (*chsql.DB, error) {
	db := chsql.QrynSchema(cluster)
	tt, gin, kv := db.Tables["tempo_traces"], db.Tables["tempo_traces_attrs_gin"], db.Tables["tempo_traces_kv"]
	kvSeen := map[string]bool{}
	for _, tr := range tdb.Traces {
		tid := rawID(tr.ID)
		for _, sp := range tr.Spans {
			sid := rawID(sp.SpanID)
			tt.Rows = append(tt.Rows, []chsql.Value{"0", tid, sid, "", sp.Name, sp.TS, sp.Dur, sp.Service, int8(2), ""})
			date := chsql.Date(floorDiv(sp.TS+zoneS*1e9, 86400e9))
			kvs := [][2]string{{"name", sp.Name}, {"service.name", sp.Service}}
			for _, a := range sp.Attrs {
				kvs = append(kvs, [2]string{a.Key, a.Val})
			}
			for _, e := range kvs {
				gin.Rows = append(gin.Rows, []chsql.Value{"0", date, e[0], e[1], tid, sid, sp.TS, sp.Dur})
				k := fmt.Sprintf("%d\x00%s\x00%s", date, e[0], e[1])
				if !kvSeen[k] {
					kvSeen[k] = true
					kv.Rows = append(kv.Rows, []chsql.Value{"0", date, e[0], valID(e[1]), e[1]})
				}
			}
		}
	}
	// ORDER BY (oid, trace_id, timestamp_ns)
	sort.SliceStable(tt.Rows, func(i, j int) bool {
		a, b := tt.Rows[i], tt.Rows[j]
		if a[1].(string) != b[1].(string) {
			return a[1].(string) < b[1].(string)
		}
		return a[5].(int64) < b[5].(int64)
	})
	// ORDER BY (oid, date, key, val, timestamp_ns, trace_id, span_id)
	sort.SliceStable(gin.Rows, func(i, j int) bool {
		a, b := gin.Rows[i], gin.Rows[j]
		if a[1].(chsql.Date) != b[1].(chsql.Date) {
			return a[1].(chsql.Date) < b[1].(chsql.Date)
		}
		for _, c := range []int{2, 3} {
			if a[c].(string) != b[c].(string) {
				return a[c].(string) < b[c].(string)
			}
		}
		if a[6].(int64) != b[6].(int64) {
			return a[6].(int64) < b[6].(int64)
		}
		for _, c := range []int{4, 5} {
			if a[c].(string) != b[c].(string) {
				return a[c].(string) < b[c].(string)
			}
		}
		return false
	})
	for _, t := range []*chsql.Table{tt, gin, kv} {
		if err := t.Check(); err != nil {
			return nil, err
		}
	}
	return db, nil
}

func floorDiv(a, b int64) int64 {
	q := a / b
	if a%b != 0 && (a < 0) != (b < 0) {
		q--
	}
	return q
}

// ---- requests ------------------------------------------------------------------------------

type spanOut struct {
	SpanID string `json:"spanID"`
	Start  string `json:"startTimeUnixNano"`
	Dur    string `json:"durationNanos"`
}

type traceOut struct {
	TraceID string `json:"traceID"`
	SpanSet struct {
		Spans   []spanOut `json:"spans"`
		Matched int       `json:"matched"`
	} `json:"spanSet"`
	Start string `json:"startTimeUnixNano"`
}

type answer struct {
	Status int
	Body   string
	Traces []traceOut
	Stmts  []stmtRec
	// derived
	Raise       *stmtRec // first statement ClickHouse would reject
	Unsupported *stmtRec // first statement outside E-CHSQL's subset
	TimedOut    bool
	BadJSON     string
	Panic       string // the handler panicked (net/http would drop the connection)
	PanicFrame  string
}

// qrynFrame extracts the first qryn function of a stack dump.
func qrynFrame(stack string) string {
	for _, l := range strings.Split(stack, "\n") {
		l = strings.TrimSpace(l)
		if strings.HasPrefix(l, "github.com/metrico/qryn/") {
			if j := strings.LastIndex(l, "("); j > 0 {
				l = l[:j]
			}
			l = strings.TrimPrefix(l, "github.com/metrico/qryn/")
			if j := strings.LastIndex(l, "/"); j >= 0 {
				l = l[j+1:]
			}
			return l
		}
	}
	return "?"
}

func (a *answer) traceIDs() []string {
	out := make([]string, len(a.Traces))
	for i, t := range a.Traces {
		out[i] = t.TraceID
	}
	return out
}

type request struct {
	Script     string `json:"q"`
	StartS     int64  `json:"start"`
	EndS       int64  `json:"end"`
	Limit      int    `json:"limit"`
	Complexity int64  `json:"complexity,omitempty"`
	Cluster    bool   `json:"cluster,omitempty"`
	// WriterZoneS: offset from UTC (seconds) of the zone the writer / the ClickHouse server computed the index
	// tables' `date` column in (proto.ColDate.Append(time.Unix(ts,0)) and toDate() both take the local calendar day)
	WriterZoneS int64 `json:"writer_zone_s,omitempty"`
}

func (r *rig) prepare(db *chsql.DB, rq *request) {
	cl := ""
	if rq.Cluster {
		cl = "c1"
	}
	r.reg.Use(r.sess, cl)
	r.mu.Lock()
	r.db, r.complexity, r.log = db, rq.Complexity, nil
	r.mu.Unlock()
}

func (r *rig) finish(a *answer) {
	r.mu.Lock()
	a.Stmts = append([]stmtRec(nil), r.log...)
	r.mu.Unlock()
	for i := range a.Stmts {
		s := &a.Stmts[i]
		if strings.HasPrefix(s.ErrClass, "raise:") && a.Raise == nil {
			a.Raise = s
		}
		if (s.ErrClass == "unsupported" || s.ErrClass == "other") && a.Unsupported == nil {
			a.Unsupported = s
		}
	}
}

// search runs GET /api/search?q=… through the real router.
func (r *rig) search(db *chsql.DB, rq *request) *answer {
	r.prepare(db, rq)
	v := url.Values{}
	v.Set("q", rq.Script)
	v.Set("start", fmt.Sprint(rq.StartS))
	v.Set("end", fmt.Sprint(rq.EndS))
	v.Set("limit", fmt.Sprint(rq.Limit))
	req := httptest.NewRequest(http.MethodGet, "/api/search?"+v.Encode(), nil)
	rec := httptest.NewRecorder()
	done := make(chan struct{})
	a := &answer{}
	go func() {
		defer close(done)
		// net/http recovers a handler panic per connection (the client sees a dropped connection);
		// the router is called directly here, so the recovery is done the same way.
		defer func() {
			if p := recover(); p != nil {
				a.Panic = fmt.Sprint(p)
				a.PanicFrame = qrynFrame(string(debug.Stack()))
			}
		}()
		r.reader.Router.ServeHTTP(rec, req)
	}()
	select {
	case <-done:
	case <-time.After(120 * time.Second):
		a.TimedOut = true
		r.finish(a)
		return a
	}
	a.Status = rec.Code
	a.Body = rec.Body.String()
	if a.Panic != "" {
		r.finish(a)
		return a
	}
	if a.Status == 200 {
		var doc struct {
			Traces []traceOut `json:"traces"`
		}
		if err := json.Unmarshal(rec.Body.Bytes(), &doc); err != nil {
			a.BadJSON = err.Error()
		}
		a.Traces = doc.Traces
	}
	r.finish(a)
	return a
}

// direct drives the planners the way TempoService.SearchTraceQL does, without HTTP (diagnostics).
func (r *rig) direct(db *chsql.DB, rq *request) (*answer, error) {
	r.prepare(db, rq)
	a := &answer{Status: 200}
	defer r.finish(a)
	script, err := traceql_parser.Parse(rq.Script)
	if err != nil {
		return a, err
	}
	planner, err := traceql_transpiler.Plan(script)
	if err != nil {
		return a, err
	}
	ctx, cancel := context.WithTimeout(context.Background(), 120*time.Second)
	defer cancel()
	conn, _ := r.reg.GetDB(ctx)
	pc := &shared.PlannerContext{IsCluster: rq.Cluster, From: time.Unix(rq.StartS, 0), To: time.Unix(rq.EndS, 0),
		Limit: int64(rq.Limit), Ctx: ctx, CHDb: r.sess, CancelCtx: cancel}
	tables.PopulateTableNames(pc, conn)
	ch, err := planner.Process(pc)
	if err != nil {
		return a, err
	}
	for infos := range ch {
		for _, ti := range infos {
			a.Traces = append(a.Traces, fromInfo(ti))
		}
	}
	return a, nil
}

func fromInfo(ti model.TraceInfo) traceOut {
	t := traceOut{TraceID: ti.TraceID, Start: ti.StartTimeUnixNano}
	t.SpanSet.Matched = ti.SpanSet.Matched
	for _, s := range ti.SpanSet.Spans {
		t.SpanSet.Spans = append(t.SpanSet.Spans, spanOut{SpanID: s.SpanID, Start: s.StartTimeUnixNano, Dur: s.DurationNanos})
	}
	return t
}

// tagsValues drives PlanTagsV2 / PlanValuesV2 (the calls TempoService.TagsV2 / ValuesV2 make).
func (r *rig) tagsValues(db *chsql.DB, rq *request, key string) (vals []string, a *answer, err error) {
	r.prepare(db, rq)
	a = &answer{Status: 200}
	defer r.finish(a)
	defer func() {
		if p := recover(); p != nil {
			a.Panic = fmt.Sprint(p)
			a.PanicFrame = qrynFrame(string(debug.Stack()))
			err = fmt.Errorf("panic: %v", p)
		}
	}()
	script, err := traceql_parser.Parse(rq.Script)
	if err != nil {
		return nil, a, err
	}
	ctx, cancel := context.WithTimeout(context.Background(), 120*time.Second)
	defer cancel()
	conn, _ := r.reg.GetDB(ctx)
	pc := &shared.PlannerContext{IsCluster: rq.Cluster, From: time.Unix(rq.StartS, 0), To: time.Unix(rq.EndS, 0),
		Limit: int64(rq.Limit), Ctx: ctx, CHDb: r.sess}
	tables.PopulateTableNames(pc, conn)
	var planner shared.GenericTraceRequestProcessor[string]
	if key == "" {
		planner, err = traceql_transpiler.PlanTagsV2(script)
	} else {
		planner, err = traceql_transpiler.PlanValuesV2(script, key)
	}
	if err != nil {
		return nil, a, err
	}
	ch, err := func() (chan []string, error) {
		defer muteStderr()() // SimpleTagsV2RequestProcessor println()s every statement
		return planner.Process(pc)
	}()
	if err != nil {
		return nil, a, err
	}
	for part := range ch {
		vals = append(vals, part...)
	}
	return vals, a, nil
}

// muteStderr points fd 2 at /dev/null until the returned function is called (qryn's tags-v2
// processor prints every statement with the println builtin).
func muteStderr() func() {
	null, err := os.OpenFile(os.DevNull, os.O_WRONLY, 0)
	if err != nil {
		return func() {}
	}
	saved, err := syscall.Dup(2)
	if err != nil {
		null.Close()
		return func() {}
	}
	syscall.Dup2(int(null.Fd()), 2)
	return func() {
		syscall.Dup2(saved, 2)
		syscall.Close(saved)
		null.Close()
	}
}

// statementText renders the search statement the ClickHouse planner produces for a script text (parse, plan,
// process, print), nothing is executed.
func statementText(text string, rq *request, limit int64) (out string, err error) {
	defer func() {
		if p := recover(); p != nil {
			err = fmt.Errorf("panic: %v", p)
		}
	}()
	script, err := traceql_parser.Parse(text)
	if err != nil {
		return "", err
	}
	plan, err := clickhouse_transpiler.Plan(script)
	if err != nil {
		return "", err
	}
	sel, err := plan.Process(&shared.PlannerContext{IsCluster: rq.Cluster, From: time.Unix(rq.StartS, 0), To: time.Unix(rq.EndS, 0), Limit: limit,
		TracesAttrsTable: "tempo_traces_attrs_gin", TracesAttrsDistTable: "tempo_traces_attrs_gin_dist", TracesTable: "tempo_traces",
		TracesDistTable: "tempo_traces_dist", TracesKVTable: "tempo_traces_kv", TracesKVDistTable: "tempo_traces_kv_dist", VersionInfo: map[string]int64{}})
	if err != nil {
		return "", err
	}
	return sel.String(&sqlsel.Ctx{Params: map[string]sqlsel.SQLObject{}, Result: map[string]sqlsel.SQLObject{}})
}

// inCompany: the statement of a script must not depend on who else is planning the same text at the same moment.
// Six clients plan and print the script forty times each, side by side, each with a limit of its own; every
// statement must be the one a client planning alone gets for that limit. Returns the first difference.
func inCompany(text string, rq *request) (diff string, planned int) {
	const clients, rounds = 6, 40
	want := make([]string, clients)
	for k := range want {
		w, err := statementText(text, rq, int64(rq.Limit+k))
		if err != nil {
			return "", 0 // not plannable alone: judged by the ordinary path
		}
		if again, err := statementText(text, rq, int64(rq.Limit+k)); err != nil || again != w {
			return "", 0 // (a statement that differs from one sequential planning to the next is C14's subject)
		}
		want[k] = w
	}
	var wg sync.WaitGroup
	var mu sync.Mutex
	start := make(chan struct{})
	for k := 0; k < clients; k++ {
		wg.Add(1)
		go func(k int) {
			defer wg.Done()
			<-start
			for i := 0; i < rounds; i++ {
				got, err := statementText(text, rq, int64(rq.Limit+k))
				mu.Lock()
				planned++
				if diff == "" {
					if err != nil {
						diff = fmt.Sprintf("client %d round %d: %v (alone: a statement of %d bytes)", k, i, err, len(want[k]))
					} else if got != want[k] {
						diff = fmt.Sprintf("client %d round %d: statement differs from the one planned alone | in company: %s | alone: %s", k, i, clip(got, 700), clip(want[k], 700))
					}
				}
				mu.Unlock()
			}
		}(k)
	}
	close(start)
	wg.Wait()
	return diff, planned
}
