package c20

import (
	"fmt"
	"net/url"
	"os"
	"path/filepath"
	"regexp"
	"sort"
	"strconv"
	"strings"
	"time"

	"verif/harness/engines/run"
)

// The listener monitor: the walk of the dumped route table covers the router main() hands to
// its listener. What the PROCESS serves is decided by which sockets it listens on, so the
// monitor reads the listening TCP sockets of the running binary from /proc and sends
// credential-less and wrong-credential requests for every dumped route to every listener
// other than the application port. Nothing but "the request was served (2xx)" counts.

// listenPorts returns the TCP ports the process (pid) listens on.
func listenPorts(pid int) ([]int, error) {
	fds, err := os.ReadDir(fmt.Sprintf("/proc/%d/fd", pid))
	if err != nil {
		return nil, err
	}
	inodes := map[string]bool{}
	for _, fd := range fds {
		l, err := os.Readlink(fmt.Sprintf("/proc/%d/fd/%s", pid, fd.Name()))
		if err == nil && strings.HasPrefix(l, "socket:[") {
			inodes[strings.TrimSuffix(strings.TrimPrefix(l, "socket:["), "]")] = true
		}
	}
	ports := map[int]bool{}
	for _, f := range []string{"tcp", "tcp6"} {
		b, err := os.ReadFile(fmt.Sprintf("/proc/%d/net/%s", pid, f))
		if err != nil {
			continue
		}
		for i, l := range strings.Split(string(b), "\n") {
			fs := strings.Fields(l)
			if i == 0 || len(fs) < 10 || fs[3] != "0A" || !inodes[fs[9]] {
				continue
			}
			j := strings.LastIndex(fs[1], ":")
			if p, err := strconv.ParseUint(fs[1][j+1:], 16, 16); err == nil {
				ports[int(p)] = true
			}
		}
	}
	out := []int{}
	for p := range ports {
		out = append(out, p)
	}
	sort.Ints(out)
	return out, nil
}

var portKnobRe = regexp.MustCompile(`"([A-Z][A-Z0-9_]*PORT[A-Z0-9_]*)"`)

// portKnobs lists the environment-style names ending in / containing PORT that the sources of
// the tree under test mention besides the two the rig sets anyway. An instance is started with
// each of them set to a free port, so that a listener that only exists under a configuration
// is there to be found.
func portKnobs() []string {
	seen := map[string]bool{"PORT": true, "CLICKHOUSE_PORT": true}
	out := []string{}
	filepath.WalkDir(repoDir, func(p string, d os.DirEntry, err error) error {
		if err != nil {
			return nil
		}
		if d.IsDir() {
			switch d.Name() {
			case ".git", "node_modules", "vendor", "test", "docker":
				return filepath.SkipDir
			}
			return nil
		}
		if !strings.HasSuffix(p, ".go") || strings.HasSuffix(p, "_test.go") {
			return nil
		}
		b, err := os.ReadFile(p)
		if err != nil {
			return nil
		}
		for _, m := range portKnobRe.FindAllStringSubmatch(string(b), -1) {
			if !seen[m[1]] {
				seen[m[1]] = true
				out = append(out, m[1])
			}
		}
		return nil
	})
	sort.Strings(out)
	return out
}

// extraListeners probes every listener of the instance other than the application port.
func extraListeners(c *run.Ctx, in *instance, tag string) {
	main := 0
	if u, err := url.Parse(in.base); err == nil {
		main, _ = strconv.Atoi(u.Port())
	}
	var ports []int
	// a listener opened a moment after the application one is still a listener: look three times
	for i := 0; i < 3; i++ {
		p, err := listenPorts(in.cmd.Process.Pid)
		if err != nil {
			c.Undecided("the listening sockets of the binary cannot be read from /proc")
			return
		}
		ports = p
		if i < 2 {
			time.Sleep(150 * time.Millisecond)
		}
	}
	sawMain := false
	for _, p := range ports {
		if p == main {
			sawMain = true
		}
	}
	if !sawMain {
		c.Undecided("the application port is not among the listening sockets read from /proc")
		return
	}
	c.Event("listening_sockets_seen", len(ports))
	c.Cover("listeners", tag, len(ports))
	wrong := []string{"Basic " + b64(in.cfg.Login+":nope"+in.cfg.Pass)}
	for _, p := range ports {
		if p == main {
			continue
		}
		base := fmt.Sprintf("http://127.0.0.1:%d", p)
		served, probes := 0, 0
		first := ""
		for _, r := range in.routes {
			if !r.HasHandler || r.NoTemplate {
				continue
			}
			ms := r.Methods
			if len(ms) == 0 {
				ms = []string{"GET", "POST"}
			}
			for _, m := range ms {
				if m == "OPTIONS" {
					continue
				}
				u := base + concretePath(r.Template)
				if r.Prefix {
					u += "verifx"
				}
				for ai, auth := range [][]string{nil, wrong} {
					ct, body := "", ""
					if m != "GET" && m != "HEAD" {
						if pb, ok := authBody[r.Template]; ok {
							ct, body = pb.ct, pb.body
						}
					}
					a := in.send(m, u, auth, combo{}, ct, body, nil, 5*time.Second)
					probes++
					c.Event("requests_sent_to_other_listeners", 1)
					if a.Status/100 == 2 {
						served++
						if first == "" {
							first = fmt.Sprintf("%s %s [%s, Authorization %s] was answered %d %q", m, strings.TrimPrefix(u, base), tag,
								[]string{"absent", "wrong-password"}[ai], a.Status, short(a.Body, 120))
						}
					}
				}
			}
		}
		if served > 0 {
			c.Violation("listener=other/route=*/served-without-credentials",
				fmt.Sprintf("%s listens on a second port (%d) besides the application port %d; %d of %d requests without the right credentials for routes of the dumped table were served there; first: %s",
					tag, p, main, served, probes, first), map[string]any{"mode": in.cfg.Mode, "cfg": in.cfg.Name})
		}
	}
}
