// Package c20 decides property C20: with basic auth configured no registered route is
// reachable without exactly the configured credentials (DESIGN §3 C20).
//
// Rig: the REAL qryn binary (go build -tags verif /repo) is started in MODE=writer and
// MODE=reader against E-CHTCP (a fake native-protocol ClickHouse). The hook file dumps the
// real mux route table. Every dumped route x method is then hit with a matrix of bad
// Authorization headers x {Accept-Encoding: gzip} x {Origin}; the oracle watches the HTTP
// answer and the fake server's interaction log.
package c20

import (
	"bytes"
	"compress/gzip"
	"encoding/base64"
	"encoding/json"
	"fmt"
	"io"
	"io/fs"
	"net"
	"net/http"
	"os"
	"os/exec"
	"path/filepath"
	"regexp"
	"sort"
	"strings"
	"sync"
	"sync/atomic"
	"syscall"
	"time"

	"github.com/gorilla/websocket"

	"verif/harness/engines/chtcp"
	"verif/harness/engines/run"
	"verif/harness/props/reg"
)

func init() {
	reg.Register(&reg.Prop{ID: "C20", Level: "exploration", Main: Main, Replay: Replay})
}

// repoDir is the tree the binary is built from: /repo, or the scratch copy ./check was
// pointed at with VERIF_REPO (seeded-break validation).
var repoDir = func() string {
	if d := os.Getenv("VERIF_REPO"); d != "" {
		return d
	}
	return "/repo"
}()

// ---------------------------------------------------------------------------------------
// configuration of one instance of the binary

type instCfg struct {
	Mode  string `json:"mode"` // writer | reader
	Name  string `json:"cfg"`  // A | B
	Login string `json:"login"`
	Pass  string `json:"pass"`
	Cors  string `json:"cors"` // "" = CORS off, otherwise CORS_ALLOW_ORIGIN
	// Source: where the credentials come from. "" = both from QRYN_LOGIN / QRYN_PASSWORD; "file" = both from the
	// JSON config file (-config); "file+env-password" / "file+env-login" = both in the file, one of them overridden
	// from the environment (CLOKI_PASSWORD / QRYN_LOGIN) - Login/Pass are always the EFFECTIVE credentials
	Source string `json:"source,omitempty"`
	// Knobs: further environment names set to a free port each (see portKnobs)
	Knobs []string `json:"knobs,omitempty"`
	// HTTPExtras: the config file also sets every routing-related http setting to a non-default value
	// (api_prefix, api_prom_prefix, websocket, gzip off, debug)
	HTTPExtras bool `json:"http_extras,omitempty"`
	// Procs: GOMAXPROCS of the binary (0 = all cores): a container with one CPU
	Procs int `json:"procs,omitempty"`
}

type route struct {
	Template   string   `json:"template"`
	Methods    []string `json:"methods"`
	HasHandler bool     `json:"has_handler"`
	Prefix     bool     `json:"prefix,omitempty"`
	Depth      int      `json:"depth"`
	NoTemplate bool     `json:"no_template,omitempty"`
}

// header class: one bad Authorization value.
var proxyIdentityHeaders = []string{"X-Forwarded-User", "X-Remote-User", "Remote-User", "X-Auth-Request-User", "X-WEBAUTH-USER", "X-Authenticated-User", "X-Forwarded-Preferred-Username", "X-Auth-Token"}

var reXHeader = regexp.MustCompile("\"([Xx]-[A-Za-z0-9]+(?:-[A-Za-z0-9]+)*)\"")

// identityHeaders: the headers identity-aware proxies set, plus every X- header name written in the non-test Go
// sources of the tree the binary is built from (at most 24 in all).
var identityHeaders = sync.OnceValue(func() []string {
	seen := map[string]bool{}
	out := append([]string(nil), proxyIdentityHeaders...)
	for _, h := range out {
		seen[strings.ToLower(h)] = true
	}
	var found []string
	for _, sub := range []string{"reader", "writer", "shared", "ctrl", "main.go"} {
		filepath.WalkDir(filepath.Join(repoDir, sub), func(p string, d fs.DirEntry, err error) error {
			if err != nil || d.IsDir() || !strings.HasSuffix(p, ".go") || strings.HasSuffix(p, "_test.go") || strings.HasSuffix(p, ".pb.go") {
				return nil
			}
			b, err := os.ReadFile(p)
			if err != nil {
				return nil
			}
			for _, m := range reXHeader.FindAllStringSubmatch(string(b), -1) {
				if !seen[strings.ToLower(m[1])] {
					seen[strings.ToLower(m[1])] = true
					found = append(found, m[1])
				}
			}
			return nil
		})
	}
	sort.Strings(found)
	out = append(out, found...)
	if len(out) > 24 {
		out = out[:24]
	}
	return out
})

type hdrClass struct {
	Name      string
	Values    []string // nil = header absent; several = several Authorization lines
	Malformed bool     // not a well-formed `Basic <base64 of user:pass>`: 400 is acceptable too
}

type combo struct {
	Name   string
	Gzip   bool
	Origin bool
}

var combos = []combo{
	{"plain", false, false},
	{"gzip+origin", true, true},
	{"gzip", true, false},
	{"origin", false, true},
}

func b64(s string) string { return base64.StdEncoding.EncodeToString([]byte(s)) }

func swapCase(s string) string {
	b := []byte(s)
	for i, ch := range b {
		switch {
		case ch >= 'a' && ch <= 'z':
			b[i] = ch - 32
		case ch >= 'A' && ch <= 'Z':
			b[i] = ch + 32
		}
	}
	return string(b)
}

// classes returns the bad header values for (login, pass); the first quickClasses are the quick tier.
func classes(login, pass string) []hdrClass {
	basic := func(up string) []string { return []string{"Basic " + b64(up)} }
	right := b64(login + ":" + pass)
	cs := []hdrClass{
		{"absent", nil, false},
		{"bearer", []string{"Bearer x"}, true},
		{"malformed-base64", []string{"Basic !!!!not*base64!!!!"}, true},
		{"wrong-password", basic(login + ":" + "nope" + pass), false},
		{"password-prefix", basic(login + ":" + pass[:len(pass)-1]), false},
		{"wrong-user", basic("x" + login + ":" + pass), false},
		{"base64-trailing-garbage", []string{"Basic " + right + "*!*!"}, true},
		// empty secrets: what a lookup of an unknown login in a table yields when the miss is not told from a hit
		{"unknown-user-empty-password", basic("x" + login + ":"), false},
		{"both-empty", basic(":"), false},
		// the right header with the case of its base64 text changed (another byte string; equal only to a comparison
		// that folds case)
		{"right-header-case-swapped", []string{"Basic " + swapCase(right)}, true},
		{"right-header-lower-cased", []string{"Basic " + strings.ToLower(right)}, true},
		// the right characters with the colon in another place (equal only to a comparison of login and password glued together)
		{"colon-shifted-left", basic(login[:len(login)-1] + ":" + login[len(login)-1:] + pass), false},
		{"colon-shifted-right", basic(login + pass[:1] + ":" + pass[1:]), false},
		// thorough tier
		{"empty", []string{""}, true},
		{"bearer-right-b64", []string{"Bearer " + right}, true},
		{"scheme-only", []string{"Basic"}, true},
		{"lowercase-scheme", []string{"basic " + right}, true},
		{"uppercase-scheme", []string{"BASIC " + right}, true},
		{"no-colon", basic(login + pass), true},
		{"user-only", basic(login), true},
		{"password-suffix", basic(login + ":" + pass + "x"), false},
		{"user-prefix", basic(login[:len(login)-1] + ":" + pass), false},
		{"user-suffix", basic(login + "x:" + pass), false},
		{"empty-password", basic(login + ":"), false},
		{"empty-user", basic(":" + pass), false},
		{"extra-colon-middle", basic(login + "::" + pass), false},
		{"extra-colon-end", basic(login + ":" + pass + ":"), false},
		{"extra-colon-front", basic(":" + login + ":" + pass), false},
		{"user-with-colon", basic(login[:1] + ":" + login[1:] + ":" + pass), false},
		{"swapped", basic(pass + ":" + login), false},
		{"case-changed-user", basic(swapCase(login) + ":" + pass), false},
		{"case-changed-password", basic(login + ":" + swapCase(pass)), false},
		{"space-before-user", basic(" " + login + ":" + pass), false},
		{"space-after-password", basic(login + ":" + pass + " "), false},
		{"space-around-colon", basic(login + " : " + pass), false},
		{"base64-garbage-inside", []string{"Basic " + right[:2] + "*" + right[2:]}, true},
		{"two-headers-first-wrong", []string{"Basic " + b64(login+":nope"), "Basic " + right}, false},
		{"two-headers-first-bearer", []string{"Bearer x", "Basic " + right}, true},
	}
	if i := strings.Index(pass, ":"); i > 0 {
		cs = append(cs, hdrClass{"password-up-to-colon", basic(login + ":" + pass[:i]), false},
			hdrClass{"password-after-colon", basic(login + ":" + pass[i+1:]), false})
	}
	// drop classes that happen to coincide with the right header (cannot be, but be safe)
	out := cs[:0]
	for _, c := range cs {
		if len(c.Values) == 1 && c.Values[0] == "Basic "+right {
			continue
		}
		out = append(out, c)
	}
	return out
}

const quickClasses = 13

// ---------------------------------------------------------------------------------------
// the rig

type instance struct {
	cfg    instCfg
	cmd    *exec.Cmd
	done   chan struct{}
	srv    *chtcp.Server
	stdin  io.WriteCloser
	base   string
	logf   string
	routes []route
	cl     *http.Client
}

func goBin() string {
	if g := os.Getenv("GO"); g != "" {
		return g
	}
	return "go"
}

func buildBinary(c *run.Ctx) (string, bool) {
	out := filepath.Join(run.Scratch(), "qryn-verif")
	cmd := exec.Command(goBin(), "build", "-tags", "verif", "-o", out, ".")
	cmd.Dir = repoDir
	b, err := cmd.CombinedOutput()
	if err != nil {
		c.Undecided("build of /repo with -tags verif failed")
		s := string(b)
		if len(s) > 1500 {
			s = s[len(s)-1500:]
		}
		c.Note("build failed: " + err.Error() + ": " + s)
		return "", false
	}
	return out, true
}

func freePort() int {
	l, err := net.Listen("tcp", "127.0.0.1:0")
	if err != nil {
		return 0
	}
	defer l.Close()
	return l.Addr().(*net.TCPAddr).Port
}

func tail(path string, n int) string {
	b, _ := os.ReadFile(path)
	if len(b) > n {
		b = b[len(b)-n:]
	}
	return string(b)
}

func (in *instance) alive() bool {
	select {
	case <-in.done:
		return false
	default:
		return true
	}
}

func (in *instance) stop() {
	if in.cmd != nil && in.cmd.Process != nil {
		syscall.Kill(-in.cmd.Process.Pid, syscall.SIGKILL)
		select {
		case <-in.done:
		case <-time.After(5 * time.Second):
		}
	}
	if in.stdin != nil {
		in.stdin.Close()
	}
	if in.srv != nil {
		in.srv.Close()
	}
	if in.cl != nil {
		in.cl.CloseIdleConnections()
	}
}

var instSeq int

// start launches the binary; ok=false means the rig could not be brought up (inconclusive).
func start(c *run.Ctx, bin string, cfg instCfg) (*instance, bool) {
	for attempt := 0; attempt < 3; attempt++ {
		in, retry := startOnce(c, bin, cfg)
		if in != nil {
			return in, true
		}
		if !retry {
			break
		}
	}
	c.Undecided("instance " + cfg.Mode + "/" + cfg.Name + " did not come up")
	return nil, false
}

func startOnce(c *run.Ctx, bin string, cfg instCfg) (in *instance, retry bool) {
	instSeq++
	srv, err := chtcp.Start()
	if err != nil {
		c.Note("cannot start E-CHTCP: " + err.Error())
		return nil, false
	}
	dir := filepath.Join(run.Scratch(), fmt.Sprintf("c20-%s-%s-%d", cfg.Mode, cfg.Name, instSeq))
	os.MkdirAll(dir, 0755)
	port := freePort()
	routesOut := filepath.Join(dir, "routes.jsonl")
	in = &instance{cfg: cfg, srv: srv, done: make(chan struct{}), logf: filepath.Join(dir, "out.log"),
		base: fmt.Sprintf("http://127.0.0.1:%d", port)}
	cmd := exec.Command(bin)
	cmd.Dir = dir
	env := []string{}
	for _, e := range os.Environ() {
		k := strings.SplitN(e, "=", 2)[0]
		switch {
		case strings.HasPrefix(k, "QRYN_"), strings.HasPrefix(k, "CLOKI_"), strings.HasPrefix(k, "CLICKHOUSE_"),
			strings.HasPrefix(k, "CORS_"), k == "MODE", k == "PORT", k == "HOST", k == "key", k == "CLUSTER_NAME",
			k == "READONLY", k == "OMIT_CREATE_TABLES":
			continue
		}
		env = append(env, e)
	}
	env = append(env, "MODE="+cfg.Mode)
	switch cfg.Source {
	case "":
		env = append(env, "QRYN_LOGIN="+cfg.Login, "QRYN_PASSWORD="+cfg.Pass)
	default:
		fileLogin, filePass := cfg.Login, cfg.Pass
		switch cfg.Source {
		case "file+env-password":
			filePass = "stale-" + cfg.Pass // the file still holds the old secret, the environment the rotated one
			env = append(env, "CLOKI_PASSWORD="+cfg.Pass)
		case "file+env-login":
			fileLogin = "old-" + cfg.Login
			env = append(env, "QRYN_LOGIN="+cfg.Login)
		}
		docMap := map[string]any{"auth_settings": map[string]any{"basic": map[string]any{"username": fileLogin, "password": filePass}}}
		if cfg.HTTPExtras {
			docMap["http_settings"] = map[string]any{"api_prefix": "/qryn", "api_prom_prefix": "/prom", "gzip": false, "gzip_static": false, "debug": true,
				"websocket": map[string]any{"enable": true}, "cors": map[string]any{"enable": true, "origin": "*"}}
		}
		doc, _ := json.Marshal(docMap)
		cf := filepath.Join(dir, "qryn.json")
		if err := os.WriteFile(cf, doc, 0600); err != nil {
			c.Note("cannot write config file: " + err.Error())
			return nil, false
		}
		cmd.Args = append(cmd.Args, "-config", cf)
	}
	env = append(env,
		"key=true", // boolEnv reads the variable literally named `key`: skips initDB
		"VERIF_NO_DB_HEALTHCHECK=1", "VERIF_ROUTES_OUT="+routesOut, "VERIF_EXIT_ON_STDIN_EOF=1",
		"CLICKHOUSE_SERVER=127.0.0.1", fmt.Sprintf("CLICKHOUSE_PORT=%d", srv.Port()), "CLICKHOUSE_DB=qryn",
		"HOST=127.0.0.1", fmt.Sprintf("PORT=%d", port))
	if cfg.Cors != "" {
		env = append(env, "CORS_ALLOW_ORIGIN="+cfg.Cors)
	}
	for _, k := range cfg.Knobs {
		env = append(env, fmt.Sprintf("%s=%d", k, freePort()))
	}
	if cfg.Procs > 0 {
		env = append(env, fmt.Sprintf("GOMAXPROCS=%d", cfg.Procs))
	}
	cmd.Env = env
	lf, _ := os.Create(in.logf)
	cmd.Stdout, cmd.Stderr = lf, lf
	cmd.SysProcAttr = &syscall.SysProcAttr{Setpgid: true}
	// the binary exits when this pipe closes, i.e. also when this process is killed
	if in.stdin, err = cmd.StdinPipe(); err != nil {
		c.Note("stdin pipe: " + err.Error())
	}
	if err := cmd.Start(); err != nil {
		lf.Close()
		srv.Close()
		c.Note("cannot start binary: " + err.Error())
		return nil, false
	}
	in.cmd = cmd
	go func() { cmd.Wait(); lf.Close(); close(in.done) }()
	tr := &http.Transport{DisableCompression: true, MaxIdleConnsPerHost: 4, IdleConnTimeout: 30 * time.Second}
	in.cl = &http.Client{Transport: tr, CheckRedirect: func(*http.Request, []*http.Request) error { return http.ErrUseLastResponse }}

	deadline := time.Now().Add(90 * time.Second) // generous watchdog; expiry = inconclusive
	for time.Now().Before(deadline) {
		if !in.alive() {
			t := tail(in.logf, 1200)
			c.Note(fmt.Sprintf("binary %s/%s exited during start-up: %s", cfg.Mode, cfg.Name, t))
			in.stop()
			return nil, strings.Contains(t, "address already in use")
		}
		if _, err := os.Stat(routesOut); err == nil {
			if cn, err := net.DialTimeout("tcp", fmt.Sprintf("127.0.0.1:%d", port), time.Second); err == nil {
				cn.Close()
				break
			}
		}
		time.Sleep(20 * time.Millisecond)
	}
	b, err := os.ReadFile(routesOut)
	if err != nil {
		c.Note(fmt.Sprintf("no route dump from %s/%s: %s", cfg.Mode, cfg.Name, tail(in.logf, 800)))
		in.stop()
		return nil, false
	}
	for _, l := range strings.Split(strings.TrimSpace(string(b)), "\n") {
		var r route
		if json.Unmarshal([]byte(l), &r) == nil {
			in.routes = append(in.routes, r)
		}
	}
	return in, false
}

// quiesce waits until the fake server has logged no new query-level interaction for a short
// while (bounded). It never contributes to a verdict.
func (in *instance) quiesce() {
	last := len(in.srv.Interactions(0))
	stable := 0
	for i := 0; i < 100 && stable < 4; i++ {
		time.Sleep(50 * time.Millisecond)
		n := len(in.srv.Interactions(0))
		if n == last {
			stable++
		} else {
			stable, last = 0, n
		}
	}
}

// ---------------------------------------------------------------------------------------
// requests

var varRe = regexp.MustCompile(`\{([A-Za-z0-9_]+)(?::[^}]*)?\}`)

func concretePath(tpl string) string {
	return varRe.ReplaceAllStringFunc(tpl, func(m string) string {
		name := varRe.FindStringSubmatch(m)[1]
		if strings.EqualFold(name, "traceId") {
			return "0000000000000000000000000000beef"
		}
		return "verifx"
	})
}

// authorized-case inputs that make DB-backed handlers touch the database
const tsNs = "1700000000000000000"

var authQuery = map[string]string{
	"/loki/api/v1/query_range":         `query=%7Bjob%3D%22verif%22%7D&start=1699999000000000000&end=1700000000000000000&limit=5`,
	"/loki/api/v1/query":               `query=%7Bjob%3D%22verif%22%7D&time=1700000000000000000&limit=5`,
	"/loki/api/v1/label":               `start=1699999000000000000&end=1700000000000000000`,
	"/loki/api/v1/labels":              `start=1699999000000000000&end=1700000000000000000`,
	"/loki/api/v1/label/{name}/values": `start=1699999000000000000&end=1700000000000000000`,
	"/loki/api/v1/series":              `match[]=%7Bjob%3D%22verif%22%7D&start=1699999000000000000&end=1700000000000000000`,
	"/api/v1/labels":                   `start=1699999000&end=1700000000`,
	"/api/v1/label/{name}/values":      `start=1699999000&end=1700000000`,
	"/api/v1/series":                   `match[]=up&start=1699999000&end=1700000000`,
	"/api/v1/query":                    `query=up&time=1700000000`,
	"/api/v1/query_range":              `query=up&start=1699999000&end=1700000000&step=60`,
	"/api/search/tags":                 ``,
	"/tempo/api/search/tags":           ``,
	"/api/search":                      `tags=service.name%3Dverif&limit=5&start=1699999000&end=1700000000`,
	"/tempo/api/search":                `tags=service.name%3Dverif&limit=5&start=1699999000&end=1700000000`,
	"/api/search/tag/{tag}/values":     ``,
	"/api/v2/search/tags":              ``,
	"/influx/api/v2/write":             `precision=ns`,
	"/pyroscope/render-diff":           `leftQuery=a&rightQuery=b`,
}

type bodySpec struct{ ct, body string }

var authBody = map[string]bodySpec{
	"/loki/api/v1/push":      {"application/json", `{"streams":[{"stream":{"job":"verif","level":"info"},"values":[["` + tsNs + `","hello from C20"]]}]}`},
	"/influx/api/v2/write":   {"text/plain", "verif_m,job=verif value=1 " + tsNs + "\n"},
	"/api/v2/logs":           {"application/json", `[{"ddsource":"verif","ddtags":"env:verif","hostname":"h","message":"hello from C20","service":"verif"}]`},
	"/api/v2/series":         {"application/json", `{"series":[{"metric":"verif.metric","type":0,"points":[{"timestamp":1700000000,"value":0.7}],"resources":[{"name":"h","type":"host"}]}]}`},
	"/cf/v1/insert":          {"application/json", `{"DispatchNamespace":"verif","Event":{},"EventTimestampMs":1700000000000,"EventType":"fetch","Logs":[{"Level":"log","Message":["hello"],"TimestampMs":1700000000000}],"Outcome":"ok","ScriptName":"verif"}`},
	"/{target}/_doc":         {"application/json", `{"message":"hello from C20","level":"info"}`},
	"/{target}/_create/{id}": {"application/json", `{"message":"hello from C20","level":"info"}`},
	"/{target}/_doc/{id}":    {"application/json", `{"message":"hello from C20","level":"info"}`},
	"/_bulk":                 {"application/json", "{\"index\":{\"_index\":\"verif\"}}\n{\"message\":\"hello from C20\"}\n"},
	"/{target}/_bulk":        {"application/json", "{\"index\":{\"_index\":\"verif\"}}\n{\"message\":\"hello from C20\"}\n"},
	"/tempo/spans":           {"application/json", `[{"id":"1234ef4500000001","traceId":"d6e9329d67b6146c0000000000000001","timestamp":1700000000000000,"duration":1000,"name":"verif","localEndpoint":{"serviceName":"verif"},"tags":{"k":"v"}}]`},
	"/api/v2/spans":          {"application/json", `[{"id":"1234ef4500000002","traceId":"d6e9329d67b6146c0000000000000002","timestamp":1700000000000000,"duration":1000,"name":"verif","localEndpoint":{"serviceName":"verif"},"tags":{"k":"v"}}]`},
}

type reqSpec struct {
	Mode   string   `json:"mode"`
	Cfg    string   `json:"cfg"`
	Route  string   `json:"route"`
	Method string   `json:"method"`
	Class  string   `json:"header_class"`
	Combo  string   `json:"combo"`
	Auth   []string `json:"authorization"` // nil = absent
	URL    string   `json:"url"`
}

type answer struct {
	Err     string      `json:"err,omitempty"`
	Timeout bool        `json:"timeout,omitempty"`
	Status  int         `json:"status"`
	Body    string      `json:"body"`
	BadGzip bool        `json:"bad_gzip,omitempty"`
	Header  http.Header `json:"-"`
}

func (in *instance) send(method, url string, auth []string, cb combo, ct, body string, extra map[string]string, to time.Duration) answer {
	var rd io.Reader
	if body != "" {
		rd = strings.NewReader(body)
	}
	req, err := http.NewRequest(method, url, rd)
	if err != nil {
		return answer{Err: err.Error()}
	}
	if auth != nil {
		req.Header["Authorization"] = append([]string{}, auth...)
	}
	if cb.Gzip {
		req.Header.Set("Accept-Encoding", "gzip")
	}
	if cb.Origin {
		req.Header.Set("Origin", "http://evil.example")
	}
	if ct != "" {
		req.Header.Set("Content-Type", ct)
	}
	for k, v := range extra {
		req.Header.Set(k, v)
	}
	cl := *in.cl
	cl.Timeout = to
	resp, err := cl.Do(req)
	if err != nil {
		a := answer{Err: err.Error()}
		if ne, ok := err.(net.Error); ok && ne.Timeout() {
			a.Timeout = true
		}
		return a
	}
	defer resp.Body.Close()
	raw, rerr := io.ReadAll(io.LimitReader(resp.Body, 1<<20))
	a := answer{Status: resp.StatusCode, Header: resp.Header}
	if rerr != nil {
		if ne, ok := rerr.(net.Error); ok && ne.Timeout() {
			a.Timeout = true // e.g. a streaming / websocket style answer
		}
	}
	if strings.Contains(resp.Header.Get("Content-Encoding"), "gzip") && len(raw) > 0 {
		zr, err := gzip.NewReader(bytes.NewReader(raw))
		if err == nil {
			dec, err2 := io.ReadAll(io.LimitReader(zr, 1<<20))
			if err2 != nil {
				a.BadGzip = true
			}
			raw = dec
		} else {
			a.BadGzip = true
		}
	}
	a.Body = string(raw)
	return a
}

func short(s string, n int) string {
	if len(s) > n {
		return s[:n] + "…"
	}
	return s
}

// ---------------------------------------------------------------------------------------
// the oracle

type target struct {
	r      route
	method string
	ref    string // marker of the handler body seen with the right credentials ("" = none)
}

type failure struct {
	tpl, method, class, rule, desc string
	replay                         any
}

type filter struct {
	Mode, Cfg, Route, Method, Class, Combo string
}

func (f *filter) match(mode, cfg, route, method, class, cmb string) bool {
	if f == nil {
		return true
	}
	ok := func(a, b string) bool { return a == "" || a == b }
	return ok(f.Mode, mode) && ok(f.Cfg, cfg) && ok(f.Route, route) && ok(f.Method, method) && ok(f.Class, class) && ok(f.Combo, cmb)
}

const authErr400 = "Invalid authorization header"

func marker(body string) string {
	b := strings.TrimSpace(body)
	if len(b) < 8 {
		return ""
	}
	if len(b) > 40 {
		b = b[:40]
	}
	return b
}

type stats struct {
	requests      int
	authorizedDB  int
	unauthQueries int
	skipped       int
}

// runInstance walks one instance. It returns false if the instance could not be evaluated.
func runInstance(c *run.Ctx, bin string, cfg instCfg, flt *filter, st *stats, routeTables map[string][]route) bool {
	in, ok := start(c, bin, cfg)
	if !ok {
		return false
	}
	defer in.stop()
	tag := cfg.Mode + "/" + cfg.Name
	routeTables[tag] = in.routes
	if flt == nil {
		extraListeners(c, in, tag)
	}

	// the walk list
	var targets []*target
	dupTarget := map[string]bool{}
	skipped := 0 // routes that cannot be walked (no path template)
	for _, r := range in.routes {
		if !r.HasHandler {
			continue // a sub-router node, not a route
		}
		if r.NoTemplate {
			skipped++
			st.skipped++
			c.Undecided("route without a path template cannot be walked")
			continue
		}
		ms := r.Methods
		if len(ms) == 0 {
			ms = []string{"GET", "POST"}
		}
		for _, m := range ms {
			if dupTarget[r.Template+"|"+m] {
				// registered twice: mux serves the first registration, the second is shadowed
				c.Event("shadowed_duplicate_registrations", 1)
				continue
			}
			dupTarget[r.Template+"|"+m] = true
			targets = append(targets, &target{r: r, method: m})
		}
	}
	if len(targets) == 0 {
		c.Undecided("the route dump holds no walkable route")
		return false
	}
	nRoutes := 0
	seen := map[string]bool{}
	for _, t := range targets {
		if !seen[t.r.Template] {
			seen[t.r.Template] = true
			nRoutes++
		}
	}
	if flt == nil {
		switch cfg.Mode {
		case "writer":
			c.Floor("routes_walked_writer_side", 20, 0)
			if cfg.Name == "A" {
				c.Floor("routes_walked_writer_side", 20, nRoutes)
			}
		case "reader":
			c.Floor("routes_walked_reader_side", 35, 0)
			if cfg.Name == "A" {
				c.Floor("routes_walked_reader_side", 35, nRoutes)
			}
		}
	}
	c.Cover("routes", tag, nRoutes)
	c.Cover("route_methods", tag, len(targets))

	// shuffle the walk order (seeded): the verdict must not depend on request order
	rng := c.Rng("order/" + tag)
	rng.Shuffle(len(targets), func(i, j int) { targets[i], targets[j] = targets[j], targets[i] })

	right := []string{"Basic " + b64(cfg.Login+":"+cfg.Pass)}
	// values of a trailing path variable as a client may write them: plain, and ending like the name of a static file
	// (a rule that lets "assets" through by the look of the path must not let these through)
	assetEnds := []string{"", ".js", ".css", ".png", ".json", ".map", ".ico", ".woff2", ".html", ".svg"}
	var urlSeq atomic.Int64
	url := func(t *target, authorized bool) string {
		u := in.base + concretePath(t.r.Template)
		if t.r.Prefix {
			u += "verifx"
		}
		if !authorized && (strings.HasSuffix(t.r.Template, "}") || t.r.Prefix) {
			u += assetEnds[int(urlSeq.Add(1))%len(assetEnds)]
		}
		if authorized {
			if q := authQuery[t.r.Template]; q != "" {
				u += "?" + q
			}
		}
		return u
	}

	died := func(what string) bool {
		if in.alive() {
			return false
		}
		c.Undecided("binary exited during " + what)
		c.Note(fmt.Sprintf("%s: binary exited during %s: %s", tag, what, tail(in.logf, 1500)))
		return true
	}

	// ---- phase 1: right credentials (reference bodies, proof that the matrix reaches handlers)
	authCombos := []combo{combos[0]}
	if cfg.Cors != "" || !c.Quick() {
		authCombos = append(authCombos, combos[1])
	}
	var fails []failure
	hung := map[string]bool{}
	for _, t := range targets {
		for ci, cb := range authCombos {
			if !flt.match(cfg.Mode, cfg.Name, t.r.Template, t.method, "right", cb.Name) {
				continue
			}
			ct, body := "", ""
			if t.method == "POST" || t.method == "PUT" || t.method == "PATCH" {
				if bs, ok := authBody[t.r.Template]; ok {
					ct, body = bs.ct, bs.body
				} else if strings.HasPrefix(t.r.Template, "/querier.") || strings.HasPrefix(t.r.Template, "/settings.") {
					ct, body = "application/json", `{}`
				} else {
					ct, body = "application/json", `{}`
				}
			}
			if hung[t.r.Template+"|"+t.method] {
				continue // already seen not to answer (see below); do not wait again
			}
			before := in.srv.Seq()
			a := in.send(t.method, url(t, true), right, cb, ct, body, nil, 3*time.Second)
			st.requests++
			key := fmt.Sprintf("%s|%s|%s|right|%s", cfg.Mode, t.r.Template, t.method, cb.Name)
			c.Case(key)
			spec := reqSpec{cfg.Mode, cfg.Name, t.r.Template, t.method, "right", cb.Name, right, url(t, true)}
			if a.Err != "" {
				if died("an authorized request to " + t.r.Template) {
					return false
				}
				// A handler that does not answer an authorized request (websocket-style routes,
				// handlers that hang on a database error) is not C20's business: no 401 came back,
				// nothing more can be said. Short timeout, authorized case only.
				hung[t.r.Template+"|"+t.method] = true
				c.Undecided("authorized request got no answer within the client timeout")
				c.Note(fmt.Sprintf("%s %s %s (authorized): %s", tag, t.method, t.r.Template, short(a.Err, 200)))
				if len(in.srv.Since(before, chtcp.KQuery)) > 0 {
					st.authorizedDB++
					c.Cover("authorized_db_interaction", cfg.Mode+" "+t.method+" "+t.r.Template, 1)
				}
				continue
			}
			c.Cover("status_authorized", fmt.Sprintf("%s/%d", cfg.Mode, a.Status), 1)
			if a.Status == 401 || (a.Status == 400 && strings.Contains(a.Body, authErr400)) {
				fails = append(fails, failure{t.r.Template, t.method, "right", "rejected",
					fmt.Sprintf("%s %s with the configured credentials (login %q password %q, cfg %s, %s) was answered %d %q",
						t.method, t.r.Template, cfg.Login, cfg.Pass, tag, cb.Name, a.Status, short(a.Body, 80)),
					map[string]any{"request": spec, "answer": a}})
				continue
			}
			if a.Status == 404 || a.Status == 405 {
				// the concrete path did not select the route: the walk would be vacuous for it
				if a.Status == 405 || strings.Contains(a.Body, "404 page not found") {
					c.Undecided("walked path did not select the dumped route")
					c.Note(fmt.Sprintf("%s %s %s -> %d %q", tag, t.method, url(t, true), a.Status, short(a.Body, 60)))
				}
			}
			if len(in.srv.Since(before, chtcp.KQuery)) > 0 {
				st.authorizedDB++
				c.Cover("authorized_db_interaction", cfg.Mode+" "+t.method+" "+t.r.Template, 1)
			}
			if ci == 0 {
				t.ref = marker(a.Body)
				// the auth layer's own texts are never handler markers
				if strings.HasPrefix(t.ref, "Unauthorized") || strings.HasPrefix(t.ref, authErr400) {
					t.ref = ""
				}
			}
		}
	}
	if died("the authorized phase") {
		return false
	}
	in.quiesce()

	// liveness control for unanswered requests: a route that answered in the authorized phase
	var ctl *target
	for _, t := range targets {
		if hung[t.r.Template+"|"+t.method] || t.method != "GET" {
			continue
		}
		if ctl == nil || t.r.Template == "/ready" {
			ctl = t
		}
	}
	if ctl == nil {
		ctl = targets[0]
	}

	// ---- phase 2: every bad header, strictly sequential
	cls := classes(cfg.Login, cfg.Pass)
	cbs := combos
	if c.Quick() && flt == nil {
		cls = cls[:quickClasses]
		cbs = combos[:2]
	}
	failed := map[string]failure{}    // "tpl|method|class" -> first failure of that cell (matrix)
	optFailed := map[string]failure{} // the same for the OPTIONS probes on routes without OPTIONS
	condemned := map[string]bool{}    // route|method with a confirmed no-answer witness
	addFail := func(f failure) {
		m := failed
		if f.rule == "cors-options-bypass" {
			m = optFailed
		}
		k := f.tpl + "|" + f.method + "|" + f.class
		if _, dup := m[k]; !dup {
			m[k] = f
		}
	}
	var spellSeq atomic.Int64
	var idHeader [2]string // set by the identity-header pass: a header naming a user, as a proxy in front may set it
	evalUnauth := func(t *target, hc hdrClass, cb combo, method string, registered bool) {
		if idHeader[0] != "" {
			hc.Name += "+" + idHeader[0]
		}
		u := url(t, false)
		// one request in three writes the route's path as a client, a probe or a proxy may: with a trailing slash, or
		// with a doubled leading slash. The router may take that for the route (then 401), clean it (redirect) or
		// not know it (404/405) - but nothing may be served
		respelled := ""
		if !t.r.Prefix && !strings.HasSuffix(u, "/") {
			switch int(spellSeq.Add(1)) % 6 {
			case 1, 3:
				u += "/"
				respelled = "trailing-slash"
			case 5:
				u = in.base + "/" + strings.TrimPrefix(u, in.base)
				respelled = "doubled-leading-slash"
			}
		}
		ct, body := "", ""
		extra := map[string]string{}
		if method == "POST" || method == "PUT" {
			// the same small body an authorized client would send: if the request got through,
			// the handler would touch the database and the fake would see it
			if bs, ok := authBody[t.r.Template]; ok {
				ct, body = bs.ct, bs.body
			} else {
				ct, body = "application/json", `{}`
			}
		}
		if idHeader[0] != "" {
			extra[idHeader[0]] = idHeader[1]
		}
		if method == "OPTIONS" {
			extra["Access-Control-Request-Method"] = t.method
			extra["Access-Control-Request-Headers"] = "authorization,content-type"
		}
		if method == "GET" {
			if q := authQuery[t.r.Template]; q != "" {
				u += "?" + q
			}
		}
		spec := reqSpec{cfg.Mode, cfg.Name, t.r.Template, method, hc.Name, cb.Name, hc.Values, u}
		c.Case(fmt.Sprintf("%s|%s|%s|%s|%s", cfg.Mode, t.r.Template, method, hc.Name, cb.Name))
		rk := t.r.Template + "|" + method
		to := 15 * time.Second
		if hung[t.r.Template+"|"+t.method] {
			// the handler of this route is known not to answer (authorized phase): if the request
			// got through, waiting long would tell nothing more
			to = 2 * time.Second
		}
		if condemned[rk] {
			to = 500 * time.Millisecond
		}
		before := in.srv.Seq()
		a := in.send(method, u, hc.Values, cb, ct, body, extra, to)
		st.requests++
		mk := func(rule, desc string) failure {
			return failure{t.r.Template, method, hc.Name, rule, desc, map[string]any{"request": spec, "answer": a,
				"login": cfg.Login, "password": cfg.Pass, "cors": cfg.Cors}}
		}
		what := fmt.Sprintf("%s %s [%s, Authorization %s: %q, %s]", method, t.r.Template, tag, hc.Name, hc.Values, cb.Name)
		if respelled != "" {
			what = fmt.Sprintf("%s %s written with a %s (%s) [%s, Authorization %s: %q, %s]", method, t.r.Template, respelled, strings.TrimPrefix(u, in.base), tag, hc.Name, hc.Values, cb.Name)
		}
		if a.Err != "" {
			if !in.alive() {
				return // reported by the caller through died()
			}
			// No answer. Not a wall-clock verdict: a liveness control (another route of the same
			// server, which must produce some HTTP answer within the same time) follows every
			// unanswered attempt; the witness stands only if the control is answered every time
			// and the cell never is (4 of 4; 1 of 1 once the route has a confirmed witness).
			live := func() bool {
				k := in.send(ctl.method, url(ctl, false), nil, combos[0], "", "", nil, to)
				st.requests++
				return k.Err == ""
			}
			if condemned[rk] {
				if live() {
					addFail(mk("no-answer", what+" got no HTTP answer ("+short(a.Err, 120)+") while the server answered a control request, like the confirmed witnesses on this route"))
				} else {
					c.Undecided("transient transport error")
				}
				return
			}
			n := 0
			for i := 0; i < 3 && live(); i++ {
				in.quiesce()
				if b := in.send(method, u, hc.Values, cb, ct, body, extra, to); b.Err != "" {
					n++
				}
				st.requests++
			}
			if n == 3 && live() && in.alive() {
				condemned[rk] = true
				addFail(mk("no-answer", what+" got no HTTP answer 4 times in a row ("+short(a.Err, 120)+
					") while the server answered a control request on another route each time: the request passed the auth layer and hangs in the handler"))
			} else {
				c.Undecided("transient transport error")
			}
			return
		}
		c.Cover("status_unauthorized", fmt.Sprintf("%s/%d", cfg.Mode, a.Status), 1)
		okStatus := a.Status == 401 || (a.Status == 400 && hc.Malformed)
		if !registered {
			// a method the route table does not register (CORS preflight probe): the router may
			// refuse it itself, but nothing may be served
			okStatus = okStatus || a.Status == 400 || a.Status == 404 || a.Status == 405
			c.Cover("status_options_probe", fmt.Sprintf("%s/%d", cfg.Mode, a.Status), 1)
		}
		if respelled != "" {
			okStatus = okStatus || a.Status == 400 || a.Status == 404 || a.Status == 405 || a.Status == 301 || a.Status == 308
			c.Cover("status_respelled_path", fmt.Sprintf("%s/%s/%d", cfg.Mode, respelled, a.Status), 1)
			c.Floor("unauthorized requests with the path written another way (trailing slash, doubled slash)", 0, 1)
		}
		if a.BadGzip {
			c.Undecided("undecodable gzip body")
			c.Note(fmt.Sprintf("undecodable gzip body: %s -> %d, %d bytes", what, a.Status, len(a.Body)))
		}
		handlerBody := t.ref != "" && strings.Contains(a.Body, t.ref)
		qs := in.srv.Interactions(before)
		st.unauthQueries += len(qs)
		evidence := ""
		if handlerBody {
			evidence += "; the answer carries the handler's body"
		}
		if len(qs) > 0 {
			evidence += fmt.Sprintf("; %d database interaction(s) during the request, first: %s %q", len(qs), qs[0].Lib, short(qs[0].Body, 100))
		}
		switch {
		case !okStatus:
			rule := "not-rejected"
			if a.Status == 400 && strings.Contains(a.Body, authErr400) {
				rule = "status-400-for-wellformed-header"
			}
			if !registered {
				rule = "cors-options-bypass"
			}
			f := mk(rule, fmt.Sprintf("%s was answered %d %q, expected 401%s%s", what, a.Status, short(a.Body, 80),
				map[bool]string{true: " (or 400: malformed header)", false: ""}[hc.Malformed], evidence))
			if len(qs) > 0 {
				f.replay.(map[string]any)["interactions"] = qs
			}
			addFail(f)
		case handlerBody:
			addFail(mk("handler-body", fmt.Sprintf("%s: status %d, but %q%s", what, a.Status, short(a.Body, 100), evidence)))
		case len(qs) > 0:
			// the only evidence is the interaction log, and background activity must not cause an
			// alarm: reproduce three more times in isolation
			rep := 0
			for i := 0; i < 3; i++ {
				in.quiesce()
				b0 := in.srv.Seq()
				in.send(method, u, hc.Values, cb, ct, body, extra, to)
				st.requests++
				if q2 := in.srv.Interactions(b0); len(q2) > 0 {
					rep++
				}
			}
			if rep == 3 {
				f := mk("db-interaction", fmt.Sprintf("%s was answered %d but caused a database interaction every time (4 of 4)%s", what, a.Status, evidence))
				f.replay.(map[string]any)["interactions"] = qs
				addFail(f)
			} else {
				c.Event("unattributed_query_during_unauth_request", 1)
			}
		}
	}

	// history: authorized live-tail sessions (a websocket upgrade takes the connection over from the HTTP server) from
	// a client that accepts gzip, before the unauthorized requests and again every four hundred of them: whatever such a
	// session leaves behind in the process must not open the door to the next request
	tailTpl := ""
	for _, t := range targets {
		if strings.HasSuffix(t.r.Template, "/tail") && t.method == "GET" {
			tailTpl = t.r.Template
		}
	}
	tailSessions := func(n int) {
		for i := 0; i < n && tailTpl != ""; i++ {
			d := websocket.Dialer{HandshakeTimeout: 3 * time.Second}
			h := http.Header{"Authorization": right, "Accept-Encoding": {"gzip"}}
			u := "ws" + strings.TrimPrefix(in.base, "http") + concretePath(tailTpl) + "?query=%7Ba%3D%22b%22%7D"
			conn, _, err := d.Dial(u, h)
			if err != nil {
				c.Event("tail sessions refused", 1)
				continue
			}
			conn.SetReadDeadline(time.Now().Add(150 * time.Millisecond))
			conn.ReadMessage()
			conn.Close()
			c.Floor("authorized tail sessions opened before unauthorized requests", 0, 1)
		}
	}
	tailSessions(4)
	phaseStart := in.srv.Seq()
	cells := 0
	for _, t := range targets {
		for _, hc := range cls {
			for _, cb := range cbs {
				if cells%400 == 399 {
					tailSessions(2)
					phaseStart = in.srv.Seq()
				}
				if !flt.match(cfg.Mode, cfg.Name, t.r.Template, t.method, hc.Name, cb.Name) {
					continue
				}
				evalUnauth(t, hc, cb, t.method, true)
				cells++
			}
		}
		if died("the unauthenticated matrix (last route " + t.r.Template + ")") {
			return false
		}
	}
	// identity headers: no Authorization, but a header that names the configured user - the ones proxies set, and
	// every X- header the tree under test itself mentions (dictionary from the sources)
	absent := hdrClass{"absent", nil, false}
	for hi, h := range identityHeaders() {
		for ti, t := range targets {
			if (ti+hi)%4 != 0 && !strings.Contains(strings.ToLower(h), "user") && !strings.Contains(strings.ToLower(h), "auth") {
				continue // headers that do not look like an identity: a quarter of the routes each
			}
			if !flt.match(cfg.Mode, cfg.Name, t.r.Template, t.method, "absent", "plain") {
				continue
			}
			idHeader = [2]string{h, []string{cfg.Login, "1", "true"}[(ti+hi)%3]}
			if strings.Contains(strings.ToLower(h), "user") {
				idHeader[1] = cfg.Login
			}
			evalUnauth(t, absent, combos[0], t.method, true)
			c.Floor("unauthorized requests carrying an identity header", 0, 1)
			cells++
		}
		idHeader = [2]string{}
		if died("the identity-header pass (" + h + ")") {
			return false
		}
	}
	// CORS preflights: OPTIONS without credentials on every route (once per template)
	if cfg.Cors != "" {
		done := map[string]bool{}
		for _, t := range targets {
			if done[t.r.Template] {
				continue
			}
			done[t.r.Template] = true
			registered := false
			for _, m := range t.r.Methods {
				if m == "OPTIONS" {
					registered = true // then it is already part of the matrix above
				}
			}
			if registered {
				continue
			}
			for _, hc := range cls[:2] { // absent, bearer
				for _, cb := range []combo{combos[3], combos[1]} {
					if !flt.match(cfg.Mode, cfg.Name, t.r.Template, "OPTIONS", hc.Name, cb.Name) {
						continue
					}
					evalUnauth(t, hc, cb, "OPTIONS", false)
				}
			}
		}
		if died("the OPTIONS probes") {
			return false
		}
	}
	// concurrent phase: legitimate clients and intruders at the same time on one cheap route. The decision for one
	// request must not depend on what other requests carry at that moment.
	if flt == nil && (cfg.Name == "A" || cfg.Name == "B") {
		var tgt *target
		for i := range targets {
			if targets[i].method == "GET" && targets[i].ref != "" && !hung[targets[i].r.Template+"|GET"] {
				tgt = targets[i]
				if strings.Contains(targets[i].r.Template, "ready") || strings.Contains(targets[i].r.Template, "echo") || strings.Contains(targets[i].r.Template, "buildinfo") {
					break
				}
			}
		}
		if tgt != nil {
			u := url(tgt, false)
			right := []string{"Basic " + b64(cfg.Login+":"+cfg.Pass)}
			var stop atomic.Bool
			var wg sync.WaitGroup
			var legit, intr, through atomic.Int64
			var first atomic.Value
			for g := 0; g < 3; g++ {
				wg.Add(2)
				go func() {
					defer wg.Done()
					for !stop.Load() {
						in.send("GET", u, right, combos[0], "", "", nil, 5*time.Second)
						legit.Add(1)
					}
				}()
				go func(g int) {
					defer wg.Done()
					for k := 0; !stop.Load(); k++ {
						hc := cls[(g+k)%len(cls)]
						a := in.send("GET", u, hc.Values, combos[0], "", "", nil, 5*time.Second)
						intr.Add(1)
						if a.Status >= 200 && a.Status < 300 {
							through.Add(1)
							first.CompareAndSwap(nil, fmt.Sprintf("Authorization %s: %v answered %d %s", hc.Name, hc.Values, a.Status, short(a.Body, 80)))
						}
					}
				}(g)
			}
			time.Sleep(time.Duration(c.Pick(1500, 6000)) * time.Millisecond)
			stop.Store(true)
			wg.Wait()
			c.Floor("bad-credential requests sent while right-credential requests were in flight", 0, int(intr.Load()))
			c.Event("concurrent_phase_legitimate_requests", int(legit.Load()))
			if n := through.Load(); n > 0 {
				c.Violation("route=*/method=GET/header=*/served-while-legitimate-requests-in-flight", fmt.Sprintf("%s/%s: %d of %d requests with bad credentials were served (2xx) while %d requests with the right credentials were in flight on %s; first: %v",
					cfg.Mode, cfg.Name, n, intr.Load(), legit.Load(), tgt.r.Template, first.Load()), map[string]any{"mode": cfg.Mode, "cfg": cfg.Name, "route": tgt.r.Template})
			}
		}
	}
	in.quiesce()
	if n := len(in.srv.Interactions(phaseStart)); n > 0 {
		c.Event("queries_logged_during_unauth_phase", n)
	}

	// ---- group failures by root cause and report
	for _, f := range fails {
		c.Violation(fmt.Sprintf("route=%s/method=%s/header=right/%s", f.tpl, f.method, f.rule), f.desc, f.replay)
	}
	reportGrouped(c, tag, failed, optFailed, flt == nil, len(targets), len(cls), nRoutes)
	c.Cover("unauth_cells", tag, cells)
	return true
}

// reportGrouped turns the failed cells of one instance into violations, one per root cause:
// everything failed -> the auth layer is absent; a header class failed on every route -> the
// auth layer accepts that header; a route failed for every class -> the route is outside the
// auth layer; the rest one by one. Signatures carry no instance name, so that the same defect
// seen through writer and reader is one finding.
func reportGrouped(c *run.Ctx, tag string, failed, optFailed map[string]failure, group bool, nTargets, nClasses, nRoutes int) {
	majority := func(ks []string, m map[string]failure) string {
		n := map[string]int{}
		for _, k := range ks {
			n[m[k].rule]++
		}
		best := ""
		for _, r := range sortedKeys(n) {
			if best == "" || n[r] > n[best] {
				best = r
			}
		}
		return best
	}
	one := func(m map[string]failure, nT int) {
		keys := sortedKeys(m)
		if len(keys) == 0 {
			return
		}
		reported := map[string]bool{}
		if group && len(keys) == nT*nClasses && len(keys) >= 4 {
			f := m[keys[0]]
			c.Violation("route=*/method=*/header=*/"+majority(keys, m),
				fmt.Sprintf("every walked route of %s answers every one of the %d bad Authorization values as if it were right (%d cells); first witness: %s",
					tag, nClasses, len(keys), f.desc), f.replay)
			return
		}
		byClass := map[string][]string{}
		byRoute := map[string][]string{}
		for _, k := range keys {
			f := m[k]
			byClass[f.class] = append(byClass[f.class], k)
			byRoute[f.tpl+"|"+f.method] = append(byRoute[f.tpl+"|"+f.method], k)
		}
		for _, cl := range sortedKeys(byClass) {
			ks := byClass[cl]
			if group && len(ks) == nT && len(ks) >= 2 {
				f := m[ks[0]]
				c.Violation(fmt.Sprintf("route=*/method=*/header=%s/%s", cl, majority(ks, m)),
					fmt.Sprintf("on all %d walked route x method pairs of %s; first witness: %s", len(ks), tag, f.desc), f.replay)
				for _, k := range ks {
					reported[k] = true
				}
			}
		}
		for _, rk := range sortedKeys(byRoute) {
			ks := byRoute[rk]
			left := 0
			for _, k := range ks {
				if !reported[k] {
					left++
				}
			}
			if group && len(ks) == nClasses && nClasses >= 2 && left > 0 {
				f := m[ks[0]]
				c.Violation(fmt.Sprintf("route=%s/method=%s/header=*/%s", f.tpl, f.method, majority(ks, m)),
					fmt.Sprintf("every one of the %d bad Authorization values reaches this route; first witness: %s", nClasses, f.desc), f.replay)
				for _, k := range ks {
					reported[k] = true
				}
			}
		}
		for _, k := range keys {
			if !reported[k] {
				f := m[k]
				c.Violation(fmt.Sprintf("route=%s/method=%s/header=%s/%s", f.tpl, f.method, f.class, f.rule), f.desc, f.replay)
			}
		}
	}
	one(failed, nTargets)
	// OPTIONS probes: two header classes per route, one probe method
	if keys := sortedKeys(optFailed); len(keys) > 0 {
		routes := map[string]bool{}
		for _, k := range keys {
			routes[optFailed[k].tpl] = true
		}
		if group && len(routes) == nRoutes && nRoutes >= 2 {
			f := optFailed[keys[0]]
			c.Violation("route=*/method=OPTIONS/header=*/cors-options-bypass",
				fmt.Sprintf("an OPTIONS request without credentials is served on all %d routes of %s; first witness: %s", nRoutes, tag, f.desc), f.replay)
		} else {
			seen := map[string]bool{}
			for _, k := range keys {
				f := optFailed[k]
				if !seen[f.tpl] {
					seen[f.tpl] = true
					c.Violation(fmt.Sprintf("route=%s/method=OPTIONS/header=%s/cors-options-bypass", f.tpl, f.class), f.desc, f.replay)
				}
			}
		}
	}
}

func sortedKeys[V any](m map[string]V) []string {
	ks := make([]string, 0, len(m))
	for k := range m {
		ks = append(ks, k)
	}
	sort.Strings(ks)
	return ks
}

// ---------------------------------------------------------------------------------------
// cross-check of the dump: every path literal the router sources register must be in the
// table dumped by the matching mode (a route living on a router the walk cannot see would
// otherwise escape the matrix silently).

var litRe = regexp.MustCompile(`\.(?:HandleFunc|Handle)\(\s*"(/[^"]*)"`)

func sourceLiterals(dirs ...string) []string {
	out := []string{}
	for _, d := range dirs {
		files, _ := filepath.Glob(filepath.Join(repoDir, d, "*.go"))
		for _, f := range files {
			if strings.HasSuffix(f, "_test.go") {
				continue
			}
			b, err := os.ReadFile(f)
			if err != nil {
				continue
			}
			for _, l := range strings.Split(string(b), "\n") {
				if strings.HasPrefix(strings.TrimSpace(l), "//") {
					continue
				}
				for _, m := range litRe.FindAllStringSubmatch(l, -1) {
					out = append(out, m[1])
				}
			}
		}
	}
	return out
}

func crossCheck(c *run.Ctx, tables map[string][]route) {
	check := func(tag string, lits []string) {
		tb, ok := tables[tag]
		if !ok {
			return
		}
		have := map[string]bool{}
		for _, r := range tb {
			have[r.Template] = true
		}
		for _, l := range lits {
			if have[l] {
				c.Event("source_route_literals_found_in_dump", 1)
			} else {
				c.Undecided("a route literal of the router sources is not in the dumped route table")
				c.Note(fmt.Sprintf("%s: %q is registered in the sources but not in the dumped table", tag, l))
			}
		}
	}
	common := sourceLiterals("shared/commonroutes")
	check("writer/A", append(sourceLiterals("writer/router"), common...))
	check("reader/A", append(sourceLiterals("reader/router"), common...))
}

func randWord(c *run.Ctx, stream string, n int) string {
	const al = "abcdefghijkmnpqrstuvwxyzABCDEFGHJKLMNPQRSTUVWXYZ23456789"
	r := c.Rng(stream)
	b := make([]byte, n)
	for i := range b {
		b[i] = al[r.Intn(len(al))]
	}
	return string(b)
}

func configs(c *run.Ctx) []instCfg {
	// A: awkward credentials (colon, space, percent, equals, non-ASCII), CORS on
	// B: plain credentials, CORS off
	a := instCfg{Name: "A", Login: "Adm-" + randWord(c, "loginA", 5) + "@qryn", Pass: "p" + randWord(c, "passA", 4) + ":w x%=" + "ß" + randWord(c, "passA2", 3) + "Z", Cors: "*"}
	b := instCfg{Name: "B", Login: "qryn" + randWord(c, "loginB", 4), Pass: "Secret" + randWord(c, "passB", 6), Procs: 1}
	out := []instCfg{}
	for _, mode := range []string{"writer", "reader"} {
		for _, k := range []instCfg{a, b} {
			k.Mode = mode
			out = append(out, k)
		}
	}
	// credentials from the config file, one of them overridden from the environment (a rotated secret, a login
	// injected by the deployment), and from the file alone
	out = append(out,
		instCfg{Mode: "reader", Name: "C", Login: b.Login, Pass: "Rot" + randWord(c, "passC", 6), Source: "file+env-password"},
		instCfg{Mode: "writer", Name: "D", Login: "dep" + randWord(c, "loginD", 4), Pass: b.Pass, Source: "file+env-login"},
		instCfg{Mode: "reader", Name: "E", Login: b.Login, Pass: b.Pass, Source: "file", Cors: "*"})
	// the routing-related settings of the configuration file at non-default values (a deployment behind a reverse
	// proxy under a sub-path)
	out = append(out, instCfg{Mode: "reader", Name: "G", Login: b.Login, Pass: b.Pass, Source: "file", HTTPExtras: true},
		instCfg{Mode: "writer", Name: "G", Login: b.Login, Pass: b.Pass, Source: "file", HTTPExtras: true})
	// port-valued settings the sources name besides the application and database ports: one instance per mode
	// with all of them set
	if ks := portKnobs(); len(ks) > 0 {
		out = append(out, instCfg{Mode: "writer", Name: "F", Login: b.Login, Pass: b.Pass, Knobs: ks},
			instCfg{Mode: "reader", Name: "F", Login: b.Login, Pass: b.Pass, Knobs: ks})
	}
	return out
}

const rule = "real binary (-tags verif) x {writer,reader} x {cfg A: awkward credentials + CORS on, cfg B: plain + CORS off} plus cfg C/D/E: credentials in the JSON config file with the password / the login overridden from the environment / from the file alone; " +
	"for every dumped route x registered method x bad Authorization class x {Accept-Encoding: gzip} x {Origin}: status 401 " +
	"(400 allowed for a header that is not a well-formed Basic <base64 user:pass>), answer does not carry the handler's body, " +
	"no Query packet reaches the fake ClickHouse between request and answer (reproduced 4/4 before it counts); OPTIONS on routes " +
	"that do not register it may be refused by the router (404/405) but never served; the right credentials are never answered " +
	"401 / auth-400 and are seen to reach the database on representative routes"

func Main(c *run.Ctx) {
	runAll(c, nil)
	c.Floor("bad-credential requests sent while right-credential requests were in flight", 500, 0)
}

func runAll(c *run.Ctx, flt *filter) {
	c.SetRule(rule)
	c.Assume("the route table walked is the *mux.Router that main() hands to http.Serve (dumped by the verif hook); other listening sockets of the process are read from /proc and probed with the same routes, handlers reachable in no such way are not examined")
	c.Assume("MODE=all is not run (needs initDB against a catalogue-backed fake); writer and reader route tables are walked separately through the real main()")
	bin, ok := buildBinary(c)
	if !ok {
		return
	}
	st := &stats{}
	tables := map[string][]route{}
	evaluated := 0
	for _, cfg := range configs(c) {
		if flt != nil && !((flt.Mode == "" || flt.Mode == cfg.Mode) && (flt.Cfg == "" || flt.Cfg == cfg.Name)) {
			continue
		}
		if runInstance(c, bin, cfg, flt, st, tables) {
			evaluated++
		}
	}
	if flt == nil {
		crossCheck(c, tables)
	}
	c.Event("instances_evaluated", evaluated)
	c.Event("requests_sent", st.requests)
	c.Event("authorized_requests_with_db_interaction", st.authorizedDB)
	if flt == nil {
		c.Floor("authorized_requests_with_db_interaction", 5, st.authorizedDB)
		c.Floor("instances_evaluated", 4, evaluated)
	}
	nHdr := len(classes("ab", "cd"))
	nCmb := len(combos)
	if c.Quick() {
		nHdr, nCmb = quickClasses, 2
	}
	c.Extra("header_classes", nHdr)
	c.Extra("header_combinations", nCmb)
	c.Extra("route_table", tables)
	c.Event("queries_seen_during_unauthenticated_requests", st.unauthQueries)
	c.Exhaustive(evaluated == 4 && flt == nil && st.skipped == 0)
	if a, ok := tables["writer/A"]; ok {
		for i, r := range a {
			if i < 2 && r.HasHandler {
				c.Sample(map[string]any{"mode": "writer", "route": r})
			}
		}
	}
	if a, ok := tables["reader/A"]; ok {
		for i, r := range a {
			if i < 2 && r.HasHandler {
				c.Sample(map[string]any{"mode": "reader", "route": r})
			}
		}
	}
}

// Replay re-runs the single (mode, cfg, route, method, header class, combination) of a stored
// witness against a freshly built binary. Credentials are re-derived from the stored seed.
func Replay(c *run.Ctx, path string) {
	b, err := os.ReadFile(path)
	if err != nil {
		c.Undecided("cannot read replay file")
		return
	}
	var doc struct {
		Case struct {
			Request reqSpec `json:"request"`
		} `json:"case"`
	}
	if json.Unmarshal(b, &doc) != nil || doc.Case.Request.Route == "" {
		c.Undecided("replay file has no request")
		return
	}
	r := doc.Case.Request
	c.Case("replay-marker") // a replay evaluates few cases; keep the accounting honest
	runAll(c, &filter{Mode: r.Mode, Cfg: r.Cfg, Route: r.Route, Method: "", Class: r.Class, Combo: r.Combo})
}
