// Package c01: a push is acknowledged only after ClickHouse accepted all of its rows.
// History checking: HTTP answers and INSERT block records on one logical clock, under
// concurrent clients, batching configurations and scripted per-INSERT faults.
package c01

import (
	"fmt"
	"os"
	"strings"
	"sync"
	"time"

	"verif/harness/engines/chw"
	"verif/harness/engines/race"
	"verif/harness/engines/run"
	"verif/harness/props/reg"
)

func init() {
	reg.Register(&reg.Prop{ID: "C01", Level: "exploration", Main: Main, Child: Child})
}

// Configs returns the batching configurations swept by a tier.
func Configs(quick bool) []chw.WriterCfg {
	var out []chw.WriterCfg
	if quick {
		return []chw.WriterCfg{
			{DBTimer: 0.002, DBBulk: 0, ChannelsSample: 1, ChannelsTimeSeries: 1, RetryAttempts: 1},
			{DBTimer: 0.02, DBBulk: 1 << 10, ChannelsSample: 2, ChannelsTimeSeries: 2, RetryAttempts: 2},
			{DBTimer: 0.2, DBBulk: 1 << 10, ChannelsSample: 4, ChannelsTimeSeries: 1, RetryAttempts: 5},
			{DBTimer: 0.005, DBBulk: 64 << 10, ChannelsSample: 2, ChannelsTimeSeries: 4, RetryAttempts: 3, ClusterName: "cl"},
			{DBTimer: 0.001, DBBulk: 0, ChannelsSample: 4, ChannelsTimeSeries: 4, RetryAttempts: 3},
			{DBTimer: 0.05, DBBulk: 64 << 10, ChannelsSample: 1, ChannelsTimeSeries: 2, RetryAttempts: 1},
		}
	}
	for _, t := range []float64{0.001, 0.02, 0.2} {
		for _, b := range []int{0, 1 << 10, 64 << 10} {
			for _, ch := range []int{1, 2, 4} {
				for _, ra := range []int{1, 2, 5} {
					if ch == 2 && ra == 2 && b == 0 {
						continue
					}
					cl := ""
					if (ch+ra)%4 == 0 {
						cl = "cl"
					}
					out = append(out, chw.WriterCfg{DBTimer: t, DBBulk: b, ChannelsSample: ch, ChannelsTimeSeries: 5 - ch, RetryAttempts: ra, ClusterName: cl})
				}
			}
		}
	}
	return out
}

func Main(c *run.Ctx) {
	c.SetRule("one child process per batching configuration; each runs concurrent mixed pushes (all ingest protocols) in a calm phase, a random-fault phase and targeted phases " +
		"(every insert into one table fails / fails once / is held while further requests arrive / reconnect refused); " +
		"distinct key = configuration × request kind × protocol × phase × answer class; non-trivial = request with at least one row")
	c.Assume("ClickHouse is the fake insert client (E-CHW): an INSERT 'completed without error' iff the scripted outcome is ok")
	c.Assume("logical clock: a block's return tick is taken before Do returns to the service, a request's answer tick after the reply was read by the client")
	cfgs := Configs(c.Quick())
	RunConfigs(c, "C01", cfgs, c.Pick(60, 300), c.Pick(200, 500), false)
}

// RunConfigs is shared with C02.
func RunConfigs(c *run.Ctx, prop string, cfgs []chw.WriterCfg, calm, faulty int, shape bool) {
	raceBin := os.Getenv("VERIF_RACE_BIN")
	// one child process per configuration, a few at a time (each child has its own writer, fake database and
	// logical clock; nothing is shared between them)
	var wg sync.WaitGroup
	sem := make(chan struct{}, c.Pick(3, 5))
	for i, wc := range cfgs {
		i, wc := i, wc
		wg.Add(1)
		sem <- struct{}{}
		go func() {
			defer wg.Done()
			defer func() { <-sem }()
			runConfig(c, prop, raceBin, i, wc, calm, faulty, shape)
		}()
	}
	wg.Wait()
	for _, f := range []string{"requests acknowledged 2xx", "requests answered with an error", "failed block followed by a successful retry (request 2xx)", "retries exhausted (request >= 400)",
		"request sent while an INSERT of its table was in flight", "two INSERTs in flight at once", "multi-chunk bodies",
		"multi-portion body whose first portion's INSERTs failed for good while later ones succeeded"} {
		c.Floor(f, 1, 0)
	}
}

func runConfig(c *run.Ctx, prop, raceBin string, i int, wc chw.WriterCfg, calm, faulty int, shape bool) {
	{
		wl := chw.WorkCfg{Writer: wc, Stream: fmt.Sprintf("%s/cfg%d", prop, i), Clients: 8 + 8*(i%3), Calm: calm, Faulty: faulty,
			FaultP: 0.25, SlowP: 0.1, Targeted: true, Refuse: i%3 == 0, BigEvery: 17, ShapeMix: shape}
		spec := run.ChildSpec{Prop: prop, Name: "workload", Cfg: wl, Timeout: 15 * time.Minute}
		out := c.RunChild(spec)
		handleChildEnd(c, prop, wl, out, "")
		if raceBin != "" && (i%4 == 0 || !c.Quick()) && i < 12 {
			logp := fmt.Sprintf("%s/race-%s-%d", run.Scratch(), prop, i)
			rs := spec
			rs.Bin = raceBin
			rs.Env = []string{"GORACE=halt_on_error=0 log_path=" + logp}
			wl2 := wl
			wl2.Calm, wl2.Faulty = calm/2, faulty/2
			rs.Cfg = wl2
			out := c.RunChild(rs)
			handleChildEnd(c, prop, wl2, out, "race-build/")
			reports := race.Collect(logp)
			c.Event("race_reports_raw", len(reports))
			for _, r := range race.Dedupe(reports) {
				if race.InScope(r, race.ScopeInsertBatch) {
					c.Violation("race/"+r.Key, "data race on the shared insert batch state: "+r.Summary, map[string]any{"cfg": wl2, "report": r.Text})
				} else {
					c.Cover("out_of_scope_races", r.Key, 1)
				}
			}
		}
	}
}

func handleChildEnd(c *run.Ctx, prop string, wl chw.WorkCfg, out run.ChildOutcome, pfx string) {
	if out.Completed {
		return
	}
	head, frame := run.PanicHead(out.Stderr)
	if out.TimedOut {
		c.Undecided(pfx + "child watchdog expired")
		c.Note("child timed out; stderr tail: " + tail(out.Stderr, 1500))
		return
	}
	if strings.Contains(out.Stderr, "WATCHDOG") || strings.Contains(out.Stderr, "[WD001]") {
		c.Undecided(pfx + "writer watchdog exit")
		return
	}
	c.Violation(pfx+"child-death/"+frame, fmt.Sprintf("writer process died (exit %d) under well-formed pushes: %s in %s", out.Exit, head, frame),
		map[string]any{"cfg": wl, "stderr": tail(out.Stderr, 6000)})
}

func tail(s string, n int) string {
	if len(s) > n {
		return s[len(s)-n:]
	}
	return s
}

func cfgKey(w chw.WriterCfg) string {
	return fmt.Sprintf("t%v/b%d/c%d.%d/r%d/%s", w.DBTimer, w.DBBulk, w.ChannelsSample, w.ChannelsTimeSeries, w.RetryAttempts, w.ClusterName)
}

func Child(c *run.Ctx, name string) {
	var wl chw.WorkCfg
	if err := run.ChildCfg(&wl); err != nil {
		panic(err)
	}
	h := chw.RunWorkload(c.Seed(), wl, func(p string) { c.BeginCase(0, map[string]any{"phase": p, "cfg": wl}) })
	c.EndCase(0)
	Check(c, wl, h)
}

func phaseClass(p string) string { return p }

// Check is the offline history checker for C01.
func Check(c *run.Ctx, wl chw.WorkCfg, h *chw.History) { check(c, wl, h, false) }

// EvidenceOnly feeds the interleaving floors/coverage from a history without judging it
// (used by C02, which shares the workload and declares the same floors).
func EvidenceOnly(c *run.Ctx, wl chw.WorkCfg, h *chw.History) { check(c, wl, h, true) }

func check(c *run.Ctx, wl chw.WorkCfg, h *chw.History, evOnly bool) {
	a := chw.Analyze(h.Items, h.Blocks)
	ck := cfgKey(wl.Writer)
	if !evOnly {
		// the service boundary: a promise of a request object that carried rows is fulfilled without error only after
		// an INSERT into the service's table was called after the hand-over and completed before the fulfilment
		withRows, fulfilled := 0, 0
		for _, sc := range h.Calls {
			if sc.Rows > 0 {
				withRows++
				if sc.DoneT != 0 && sc.Err == "" {
					fulfilled++
				}
			}
		}
		c.Event("service_requests_with_rows", withRows)
		c.Event("service_promises_fulfilled_without_error", fulfilled)
		c.Floor("service promises judged against the INSERTs between hand-over and fulfilment", 1, fulfilled)
		seenKind := map[string]bool{}
		for _, sc := range chw.FulfilledWithoutInsert(h.Calls, h.Blocks) {
			if seenKind[sc.Kind] {
				continue
			}
			seenKind[sc.Kind] = true
			c.Violation("service-promise-fulfilled-without-insert/"+sc.Kind, fmt.Sprintf("cfg %s: a request object with %d row(s) was handed to the %s insert service at tick %d and its promise was fulfilled without error at tick %d, but no successful INSERT into %s was called after the hand-over and returned before the fulfilment",
				ck, sc.Rows, sc.Kind, sc.CallT, sc.DoneT, chw.TableOfKind(sc.Kind)), map[string]any{"cfg": wl, "call": sc})
		}
	}
	c.Event("requests", len(h.Items))
	c.Event("insert_blocks", len(h.Blocks))
	for _, b := range h.Blocks {
		c.Cover("blocks(table/outcome)", b.Table+"/"+string(b.Outcome), 1)
		if b.InFlight > 0 {
			c.Floor("two INSERTs in flight at once", 1, 1)
			c.Cover("interleavings", "two INSERTs in flight at once", 1)
		}
	}
	if h.Refused > 0 {
		c.Cover("interleavings", "reconnect refused", h.Refused)
	}
	stalled := map[*chw.Item]bool{}
	for _, it := range h.Stalled {
		stalled[it] = true
	}
	for i, it := range h.Items {
		rec := it.Rec
		key := fmt.Sprintf("%s|%s|%s|%s", ck, it.Kind, it.Req.Proto, it.Phase)
		if rec == nil || rec.Status == 0 {
			if evOnly {
				continue
			}
			c.Case(key + "|no-answer")
			replay := map[string]any{"cfg": wl, "phase": it.Phase, "proto": it.Req.Proto, "path": it.Req.Path}
			if rec != nil {
				replay["client_error"] = rec.Err
			}
			if h.StallIdle {
				c.Violation("no-answer/"+it.Kind+"/"+it.Phase, fmt.Sprintf("request (%s, phase %s) got no answer although the database kept answering: no INSERT in flight and none for > 5 s when the watchdog (%d s) expired", it.Req.Proto, it.Phase, wl.TimeoutS), replay)
			} else {
				c.Undecided("request unanswered at the watchdog while INSERTs were still active")
			}
			continue
		}
		cls := fmt.Sprintf("%dxx", rec.Status/100)
		if !evOnly {
			c.Case(key + "|" + cls)
		}
		c.Cover("answers(phase/status)", it.Phase+"/"+cls, 1)
		if i < 3 && !evOnly {
			c.Sample(map[string]any{"cfg": ck, "kind": it.Kind, "proto": it.Req.Proto, "phase": it.Phase, "status": rec.Status, "send_tick": rec.SendT, "answer_tick": rec.AnsT, "rows": len(a.OwnedIdentities(i))})
		}
		if it.Req.MultiChunk {
			c.Floor("multi-chunk bodies", 1, 1)
		}
		if it.Phase == "poisoned-first-portion" {
			c.Floor("multi-portion body whose first portion's INSERTs failed for good while later ones succeeded", 1, 1)
		}
		owned := a.OwnedIdentities(i)
		if strings.HasPrefix(it.Phase, "twins:") {
			// which of the twins derives the stream's series row depends on who reaches the series cache first: the
			// series row is judged at the service boundary (above), the samples per request
			o2 := owned[:0:0]
			for _, k := range owned {
				if !strings.HasPrefix(k, "ts|") {
					o2 = append(o2, k)
				}
			}
			owned = o2
			c.Floor("pushes of one new stream by several clients at once", 0, 1)
		}
		// interleaving classes (evidence)
		for _, b := range h.Blocks {
			if rec.SendT > b.CallT && rec.SendT < b.RetT && (strings.HasPrefix(b.Table, "samples") && it.Kind == "logs" || strings.HasPrefix(b.Table, "tempo_traces") && it.Kind == "spans" || strings.HasPrefix(b.Table, "profiles") && it.Kind == "profile") {
				c.Floor("request sent while an INSERT of its table was in flight", 1, 1)
				c.Cover("interleavings", "request sent while an INSERT of its table was in flight", 1)
				break
			}
		}
		if rec.Status >= 200 && rec.Status <= 299 {
			c.Floor("requests acknowledged 2xx", 1, 1)
			var missing []string
			retried := false
			for _, k := range owned {
				if !a.AckedOK(k, rec.AnsT) {
					missing = append(missing, k)
				}
				for _, oc := range a.Occ[k] {
					_ = oc
				}
			}
			for _, k := range owned {
				if hasFailedOcc(a, k) {
					retried = true
					break
				}
			}
			if retried && len(missing) == 0 {
				c.Floor("failed block followed by a successful retry (request 2xx)", 1, 1)
				c.Cover("interleavings", "failed block followed by a successful retry", 1)
			}
			if len(missing) > 0 && !evOnly {
				where := "never in a successful INSERT"
				if a.InAnyOK(missing[0]) {
					where = "only in an INSERT that returned after the answer"
				}
				c.Violation("ack-without-ok-insert/"+it.Kind+"/"+tableOfIdent(missing[0])+"/"+phaseKind(it.Phase),
					fmt.Sprintf("request (%s, phase %s, cfg %s) was answered %d at tick %d but %d of its %d rows were %s, e.g. %s", it.Req.Proto, it.Phase, ck, rec.Status, rec.AnsT, len(missing), len(owned), where, clip(missing[0], 160)),
					map[string]any{"cfg": wl, "phase": it.Phase, "proto": it.Req.Proto, "status": rec.Status, "answer_tick": rec.AnsT, "missing": first(missing, 10), "occurrences": occDump(a, missing[0])})
			}
		} else {
			c.Floor("requests answered with an error", 1, 1)
			if strings.HasPrefix(it.Phase, "exhaust:") {
				c.Floor("retries exhausted (request >= 400)", 1, 1)
				c.Cover("interleavings", "retries exhausted", 1)
			}
			if it.Phase == "calm" && !evOnly {
				c.Note(fmt.Sprintf("well-formed %s push answered %d in the fault-free phase: %s", it.Req.Proto, rec.Status, clip(rec.Body, 120)))
				c.Event("error_answer_without_faults", 1)
			}
			if strings.HasPrefix(it.Phase, "retry-once:") {
				c.Event("single_failure_not_retried_to_success", 1)
			}
		}
	}
}

func hasFailedOcc(a *chw.Analysis, k string) bool {
	for _, oc := range a.Occ[k] {
		if !oc.Blk.Succeeded() {
			return true
		}
	}
	return false
}

func phaseKind(p string) string {
	if i := strings.Index(p, ":"); i > 0 {
		return p[:i]
	}
	return p
}

func tableOfIdent(k string) string {
	switch {
	case strings.HasPrefix(k, "spl|"):
		return "samples"
	case strings.HasPrefix(k, "ts|"):
		return "time_series"
	case strings.HasPrefix(k, "tr|"):
		return "tempo_traces"
	case strings.HasPrefix(k, "tag|"):
		return "tempo_tags"
	case strings.HasPrefix(k, "prof|"):
		return "profiles"
	}
	return "?"
}

func first(s []string, n int) []string {
	if len(s) > n {
		return s[:n]
	}
	return s
}

func clip(s string, n int) string {
	if len(s) > n {
		return s[:n] + "…"
	}
	return s
}

func occDump(a *chw.Analysis, k string) []string {
	var out []string
	for _, oc := range a.Occ[k] {
		out = append(out, fmt.Sprintf("block %d table %s outcome %s call_tick %d return_tick %d row %d", oc.Blk.Seq, oc.Blk.Table, oc.Blk.Outcome, oc.Blk.CallT, oc.Blk.RetT, oc.Idx))
	}
	return out
}
