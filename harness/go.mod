module verif/harness

go 1.24.0

toolchain go1.24.2

require github.com/metrico/qryn v0.0.0

require (
	cel.dev/expr v0.19.1 // indirect
	filippo.io/edwards25519 v1.1.0 // indirect
	github.com/Masterminds/goutils v1.1.1 // indirect
	github.com/Masterminds/semver v1.5.0 // indirect
	github.com/Masterminds/sprig v2.22.0+incompatible // indirect
	github.com/VictoriaMetrics/fastcache v1.12.2 // indirect
	github.com/alecthomas/participle/v2 v2.1.1 // indirect
	github.com/alecthomas/units v0.0.0-20240626203959-61d1e3462e30 // indirect
	github.com/andybalholm/brotli v1.1.1 // indirect
	github.com/antlr4-go/antlr/v4 v4.13.1 // indirect
	github.com/avast/retry-go v3.0.0+incompatible // indirect
	github.com/awnumar/memcall v0.3.0 // indirect
	github.com/awnumar/memguard v0.22.5 // indirect
	github.com/aws/aws-sdk-go v1.55.5 // indirect
	github.com/beorn7/perks v1.0.1 // indirect
	github.com/cespare/xxhash/v2 v2.3.0 // indirect
	github.com/compose-spec/compose-go v1.20.2 // indirect
	github.com/coreos/go-semver v0.3.1 // indirect
	github.com/davecgh/go-spew v1.1.2-0.20180830191138-d8f796af33cc // indirect
	github.com/dennwc/varint v1.0.0 // indirect
	github.com/edsrzf/mmap-go v1.1.0 // indirect
	github.com/fasthttp/websocket v1.5.3 // indirect
	github.com/fatih/color v1.18.0 // indirect
	github.com/felixge/httpsnoop v1.0.4 // indirect
	github.com/fsnotify/fsnotify v1.7.0 // indirect
	github.com/go-faster/city v1.0.1 // indirect
	github.com/go-faster/errors v0.7.1 // indirect
	github.com/go-faster/jx v1.1.0 // indirect
	github.com/go-kit/kit v0.13.0 // indirect
	github.com/go-kit/log v0.2.1 // indirect
	github.com/go-logfmt/logfmt v0.6.0 // indirect
	github.com/go-logr/logr v1.4.2 // indirect
	github.com/go-logr/stdr v1.2.2 // indirect
	github.com/go-playground/locales v0.14.0 // indirect
	github.com/go-playground/universal-translator v0.18.0 // indirect
	github.com/gobwas/glob v0.2.3 // indirect
	github.com/gofiber/fiber/v2 v2.52.5 // indirect
	github.com/gofiber/websocket/v2 v2.2.1 // indirect
	github.com/gogo/protobuf v1.3.2 // indirect
	github.com/golang-jwt/jwt/v5 v5.2.2 // indirect
	github.com/google/cel-go v0.23.0 // indirect
	github.com/google/uuid v1.6.0 // indirect
	github.com/gorilla/schema v1.4.1 // indirect
	github.com/grafana/regexp v0.0.0-20240518133315-a468a5bfb3bc // indirect
	github.com/hashicorp/go-version v1.7.0 // indirect
	github.com/hashicorp/hcl v1.0.0 // indirect
	github.com/huandu/xstrings v1.5.0 // indirect
	github.com/imdario/mergo v0.3.16 // indirect
	github.com/influxdata/telegraf v1.34.1 // indirect
	github.com/influxdata/toml v0.0.0-20190415235208-270119a8ce65 // indirect
	github.com/jedib0t/go-pretty/v6 v6.6.5 // indirect
	github.com/jmespath/go-jmespath v0.4.0 // indirect
	github.com/jpillora/backoff v1.0.0 // indirect
	github.com/json-iterator/go v1.1.12 // indirect
	github.com/julienschmidt/httprouter v1.3.0 // indirect
	github.com/klauspost/compress v1.17.11 // indirect
	github.com/klauspost/pgzip v1.2.6 // indirect
	github.com/kr/logfmt v0.0.0-20210122060352-19f9bcb100e6 // indirect
	github.com/kylelemons/godebug v1.1.0 // indirect
	github.com/leodido/go-urn v1.2.1 // indirect
	github.com/lestrrat-go/file-rotatelogs v2.4.0+incompatible // indirect
	github.com/lestrrat-go/strftime v1.1.0 // indirect
	github.com/magiconair/properties v1.8.9 // indirect
	github.com/mattn/go-colorable v0.1.14 // indirect
	github.com/mattn/go-isatty v0.0.20 // indirect
	github.com/mattn/go-runewidth v0.0.16 // indirect
	github.com/mcuadros/go-defaults v1.2.0 // indirect
	github.com/mitchellh/copystructure v1.2.0 // indirect
	github.com/mitchellh/mapstructure v1.5.1-0.20220423185008-bf980b35cac4 // indirect
	github.com/mitchellh/reflectwalk v1.0.2 // indirect
	github.com/modern-go/concurrent v0.0.0-20180306012644-bacd9c7ef1dd // indirect
	github.com/modern-go/reflect2 v1.0.2 // indirect
	github.com/munnerz/goautoneg v0.0.0-20191010083416-a7dc8b61c822 // indirect
	github.com/mwitkow/go-conntrack v0.0.0-20190716064945-2f068394615f // indirect
	github.com/naoina/go-stringutil v0.1.0 // indirect
	github.com/oklog/ulid v1.3.1 // indirect
	github.com/paulmach/orb v0.11.1 // indirect
	github.com/pelletier/go-toml/v2 v2.0.8 // indirect
	github.com/pierrec/lz4/v4 v4.1.22 // indirect
	github.com/pkg/errors v0.9.1 // indirect
	github.com/pmezard/go-difflib v1.0.1-0.20181226105442-5d4384ee4fb2 // indirect
	github.com/prometheus/client_golang v1.20.5 // indirect
	github.com/prometheus/client_model v0.6.1 // indirect
	github.com/prometheus/common v0.63.0 // indirect
	github.com/prometheus/common/sigv4 v0.1.0 // indirect
	github.com/prometheus/procfs v0.15.1 // indirect
	github.com/rivo/uniseg v0.4.7 // indirect
	github.com/savsgio/gotils v0.0.0-20230208104028-c358bd845dee // indirect
	github.com/segmentio/asm v1.2.0 // indirect
	github.com/shopspring/decimal v1.4.0 // indirect
	github.com/sirupsen/logrus v1.9.3 // indirect
	github.com/spf13/afero v1.11.0 // indirect
	github.com/spf13/cast v1.7.1 // indirect
	github.com/spf13/jwalterweatherman v1.1.0 // indirect
	github.com/spf13/pflag v1.0.5 // indirect
	github.com/spf13/viper v1.16.0 // indirect
	github.com/stoewer/go-strcase v1.3.0 // indirect
	github.com/stretchr/testify v1.10.0 // indirect
	github.com/subosito/gotenv v1.4.2 // indirect
	github.com/tidwall/gjson v1.18.0 // indirect
	github.com/tidwall/match v1.1.1 // indirect
	github.com/tidwall/pretty v1.2.1 // indirect
	github.com/tidwall/tinylru v1.2.1 // indirect
	github.com/tidwall/wal v1.1.8 // indirect
	github.com/valyala/bytebufferpool v1.0.0 // indirect
	github.com/valyala/fasthttp v1.52.0 // indirect
	github.com/valyala/fastjson v1.6.4 // indirect
	github.com/valyala/tcplisten v1.0.0 // indirect
	go.opentelemetry.io/auto/sdk v1.1.0 // indirect
	go.opentelemetry.io/collector/pdata v1.25.0 // indirect
	go.opentelemetry.io/contrib/instrumentation/net/http/otelhttp v0.59.0 // indirect
	go.opentelemetry.io/otel v1.35.0 // indirect
	go.opentelemetry.io/otel/metric v1.35.0 // indirect
	go.opentelemetry.io/otel/trace v1.35.0 // indirect
	go.step.sm/crypto v0.59.1 // indirect
	go.uber.org/atomic v1.11.0 // indirect
	go.uber.org/goleak v1.3.0 // indirect
	go.uber.org/multierr v1.11.0 // indirect
	go.uber.org/zap v1.27.0 // indirect
	golang.org/x/crypto v0.36.0 // indirect
	golang.org/x/exp v0.0.0-20250106191152-7588d65b2ba8 // indirect
	golang.org/x/net v0.36.0 // indirect
	golang.org/x/oauth2 v0.28.0 // indirect
	golang.org/x/sync v0.12.0 // indirect
	golang.org/x/sys v0.31.0 // indirect
	golang.org/x/text v0.23.0 // indirect
	golang.org/x/time v0.10.0 // indirect
	google.golang.org/genproto/googleapis/api v0.0.0-20250219182151-9fdb1cabc7b2 // indirect
	google.golang.org/genproto/googleapis/rpc v0.0.0-20250219182151-9fdb1cabc7b2 // indirect
	google.golang.org/grpc v1.70.0 // indirect
	gopkg.in/go-playground/validator.v9 v9.31.0 // indirect
	gopkg.in/ini.v1 v1.67.0 // indirect
	gopkg.in/yaml.v2 v2.4.0 // indirect
	gopkg.in/yaml.v3 v3.0.1 // indirect
)

replace github.com/metrico/qryn => /repo

replace (
	cloud.google.com/go/compute v0.2.0 => cloud.google.com/go/compute v1.7.0
	github.com/docker/distribution v2.7.1+incompatible => github.com/docker/distribution v2.8.0+incompatible
	github.com/pascaldekloe/mqtt v1.0.0 => github.com/metrico/mqtt v1.0.1-0.20220314083119-cb53cdb0fcbe
	github.com/prometheus/common v0.63.0 => github.com/prometheus/common v0.61.0
	github.com/prometheus/prometheus v0.300.1 => github.com/prometheus/prometheus v1.8.2-0.20220714142409-b41e0750abf5
	//TODO: remove this
	go.opentelemetry.io/collector/pdata v1.12.0 => go.opentelemetry.io/collector/pdata v0.62.1
	go.opentelemetry.io/otel v1.19.0 => go.opentelemetry.io/otel v1.7.0
	go.opentelemetry.io/otel/internal/global v1.19.0 => go.opentelemetry.io/otel/internal/global v1.7.0
	go.opentelemetry.io/otel/metric v1.21.0 => go.opentelemetry.io/otel/metric v0.30.0
	google.golang.org/grpc v1.47.0 => google.golang.org/grpc v1.45.0
	gopkg.in/fatih/pool.v2 v2.0.0 => gopkg.in/fatih/pool.v3 v3.0.0
	k8s.io/api v0.32.3 => k8s.io/api v0.24.17
	k8s.io/apimachinery v0.32.3 => k8s.io/apimachinery v0.24.17
	k8s.io/client-go v12.0.0+incompatible => k8s.io/client-go v0.22.1

)

require (
	github.com/ClickHouse/ch-go v0.65.1
	github.com/ClickHouse/clickhouse-go/v2 v2.34.0
	github.com/anishathalye/porcupine v1.3.0
	github.com/golang/snappy v1.0.0
	github.com/google/pprof v0.0.0-20241029153458-d1b30febd7db
	github.com/gorilla/mux v1.8.1
	github.com/gorilla/websocket v1.5.3
	github.com/jmoiron/sqlx v1.4.0
	github.com/metrico/cloki-config v0.0.82
	github.com/prometheus/prometheus v1.8.2-0.20220714142409-b41e0750abf5
	go.opentelemetry.io/proto/otlp v1.4.0
	google.golang.org/protobuf v1.36.5
)
