package run

import (
	"bytes"
	"encoding/json"
	"fmt"
	"os"
	"os/exec"
	"path/filepath"
	"strings"
	"sync/atomic"
	"syscall"
	"time"
)

// ChildSpec describes one child process: the same binary re-executed with
// `--child <prop> <name>`; Cfg is passed as JSON in VERIF_CHILD_CFG.
type ChildSpec struct {
	Prop    string
	Name    string // sub-command inside the property (free text)
	Cfg     any
	Env     []string      // extra environment (TZ=..., GORACE=...)
	Timeout time.Duration // generous wall-clock watchdog
	Bin     string        // alternative binary (e.g. the -race build); default os.Args[0]
	MemKB   int64         // ulimit -v in KiB (0 = none)
}

type ChildOutcome struct {
	Exit     int
	TimedOut bool
	Signaled bool
	// KilledOutside: ended by a signal without any report of the Go runtime (TimedOut is set as well)
	KilledOutside bool
	Stderr        string // whole, or head and tail of a long one
	OpenIdx       int    // case begun but not ended (-1 none)
	OpenCase      json.RawMessage
	WalLines      int
	Completed     bool // the child wrote its "done" marker
	Wall          time.Duration
}

var scratch string

// Scratch returns a per-run scratch directory outside /repo and /verif.
func Scratch() string {
	if scratch != "" {
		return scratch
	}
	if d := os.Getenv("VERIF_SCRATCH"); d != "" {
		os.MkdirAll(d, 0755)
		scratch = d
		return d
	}
	d, err := os.MkdirTemp("", "verif-run-")
	if err != nil {
		panic(err)
	}
	scratch = d
	return d
}

var childSeq int64

// RunChild runs the child, replays its WAL into c and reports how it ended.
func (c *Ctx) RunChild(spec ChildSpec) ChildOutcome {
	seq := atomic.AddInt64(&childSeq, 1)
	wal := filepath.Join(Scratch(), fmt.Sprintf("wal-%s-%d-%d.jsonl", spec.Prop, os.Getpid(), seq))
	os.Remove(wal)
	cfg, _ := json.Marshal(spec.Cfg)
	bin := spec.Bin
	if bin == "" {
		bin, _ = os.Executable()
	}
	args := []string{"--child", spec.Prop, spec.Name}
	var cmd *exec.Cmd
	if spec.MemKB > 0 {
		sh := fmt.Sprintf("ulimit -v %d; exec \"$0\" \"$@\"", spec.MemKB)
		cmd = exec.Command("/bin/bash", append([]string{"-c", sh, bin}, args...)...)
	} else {
		cmd = exec.Command(bin, args...)
	}
	cmd.Env = append(os.Environ(), "VERIF_CHILD_CFG="+string(cfg), "VERIF_WAL="+wal,
		fmt.Sprintf("VERIF_SEED=%d", c.seed), "VERIF_TIER="+c.tier, "VERIF_SCRATCH="+Scratch())
	cmd.Env = append(cmd.Env, spec.Env...)
	errPath := wal + ".stderr"
	ef, _ := os.Create(errPath)
	cmd.Stderr = ef
	cmd.Stdout = ef
	cmd.SysProcAttr = &syscall.SysProcAttr{Setpgid: true}
	start := time.Now()
	out := ChildOutcome{OpenIdx: -1}
	if err := cmd.Start(); err != nil {
		out.Exit = -1
		out.Stderr = err.Error()
		return out
	}
	done := make(chan error, 1)
	go func() { done <- cmd.Wait() }()
	to := spec.Timeout
	if to == 0 {
		to = 10 * time.Minute
	}
	var werr error
	select {
	case werr = <-done:
	case <-time.After(to):
		out.TimedOut = true
		// SIGQUIT makes the Go runtime dump all goroutines to stderr (the file), then die.
		syscall.Kill(-cmd.Process.Pid, syscall.SIGQUIT)
		select {
		case werr = <-done:
		case <-time.After(15 * time.Second):
			syscall.Kill(-cmd.Process.Pid, syscall.SIGKILL)
			werr = <-done
		}
	}
	ef.Close()
	out.Wall = time.Since(start)
	if werr != nil {
		if ee, ok := werr.(*exec.ExitError); ok {
			out.Exit = ee.ExitCode()
			if ws, ok := ee.Sys().(syscall.WaitStatus); ok && ws.Signaled() {
				out.Signaled = true
			}
		} else {
			out.Exit = -1
		}
	}
	b, _ := os.ReadFile(errPath)
	if len(b) > 128<<10 {
		// head (where a dying process names its cause) and tail
		b = append(append(append([]byte{}, b[:64<<10]...), []byte("\n…\n")...), b[len(b)-(64<<10):]...)
	}
	out.Stderr = string(b)
	if out.Signaled && !out.TimedOut && !strings.Contains(out.Stderr, "panic:") && !strings.Contains(out.Stderr, "fatal error:") && !strings.Contains(out.Stderr, "runtime: ") && !strings.Contains(out.Stderr, "goroutine ") {
		// killed by a signal and the Go runtime reported nothing: the kill came from outside the process (the
		// kernel's out-of-memory killer on a loaded machine, an operator). Nothing can be attributed to the code
		// under test: handled like an expired watchdog (inconclusive for the open case).
		out.KilledOutside, out.TimedOut = true, true
		c.Note(fmt.Sprintf("child %s/%s was killed by a signal from outside (no runtime report on stderr); treated like an expired watchdog", spec.Prop, spec.Name))
	}
	out.OpenIdx, out.OpenCase, out.WalLines = c.ApplyWAL(wal)
	if wb, err := os.ReadFile(wal); err == nil {
		out.Completed = bytes.Contains(wb[max(0, len(wb)-64):], []byte(`"op":"done"`))
	}
	os.Remove(wal)
	os.Remove(errPath)
	return out
}

// PanicHead extracts the first panic / fatal error line and the first qryn frame of a
// goroutine dump: used as the known-finding signature of a process death.
func PanicHead(stderr string) (head string, frame string) {
	lines := strings.Split(stderr, "\n")
	for i, l := range lines {
		if strings.HasPrefix(l, "panic:") || strings.HasPrefix(l, "fatal error:") {
			head = strings.TrimSpace(l)
			for _, m := range lines[i:] {
				m = strings.TrimSpace(m)
				if strings.HasPrefix(m, "github.com/metrico/qryn/") {
					if j := strings.Index(m, "("); j > 0 {
						m = m[:j]
					}
					frame = strings.TrimPrefix(m, "github.com/metrico/qryn/")
					return
				}
			}
			return
		}
	}
	return
}

// ChildCfg decodes the configuration the parent passed.
func ChildCfg(v any) error {
	return json.Unmarshal([]byte(os.Getenv("VERIF_CHILD_CFG")), v)
}

func CleanupScratch() {
	if scratch != "" && os.Getenv("VERIF_SCRATCH") == "" {
		os.RemoveAll(scratch)
	}
}
