// Package run is E-RUN: seeds, case accounting, verdict discipline, evidence, known
// findings, replay files and the parent/child write-ahead-log protocol (DESIGN §2.1, §2.7).
package run

import (
	"bufio"
	"encoding/json"
	"fmt"
	"hash/fnv"
	"math/rand"
	"os"
	"path/filepath"
	"sort"
	"strconv"
	"strings"
	"sync"
	"time"
)

// VerifDir is where evidence/, replays/ and known_findings.txt live (the directory of ./check).
var VerifDir = func() string {
	if d := os.Getenv("VERIF_DIR"); d != "" {
		return d
	}
	return "/verif"
}()

// OutDir is where evidence/ and replays/ are written: VerifDir, except when the check is pointed at a scratch
// copy of the repository (VERIF_OUT, set by ./check with VERIF_REPO) - evidence under /verif only ever
// describes runs against /repo itself.
var OutDir = func() string {
	if d := os.Getenv("VERIF_OUT"); d != "" {
		return d
	}
	return VerifDir
}()

type Violation struct {
	Sig    string `json:"sig"`
	Desc   string `json:"desc"`
	Replay string `json:"replay,omitempty"`
	Known  bool   `json:"known"`
}

type floor struct {
	Required int `json:"required"`
	Observed int `json:"observed"`
}

// Ctx accumulates what one check run observed. In child mode every call is appended to
// the WAL instead (the parent replays it), so a child that dies loses nothing it reported.
type Ctx struct {
	mu         sync.Mutex
	Prop       string
	Level      string
	tier       string
	seed       int64
	start      time.Time
	evals      int
	distinct   map[string]struct{}
	samples    []any
	events     map[string]int
	cover      map[string]map[string]int
	floors     map[string]*floor
	undec      map[string]int
	viol       []Violation
	violSeen   map[string]int
	notes      []string
	assume     []string
	rule       string
	extra      map[string]any
	known      map[string]string
	exhaust    *bool
	wal        *os.File // child mode
	replayN    int
	MaxSamples int
}

func envInt(name string, def int64) int64 {
	if v := os.Getenv(name); v != "" {
		if n, err := strconv.ParseInt(v, 10, 64); err == nil {
			return n
		}
	}
	return def
}

func Open(prop, level string) *Ctx {
	tier := os.Getenv("VERIF_TIER")
	if tier != "thorough" {
		tier = "quick"
	}
	c := &Ctx{Prop: prop, Level: level, tier: tier, seed: envInt("VERIF_SEED", 1), start: time.Now(),
		distinct: map[string]struct{}{}, events: map[string]int{}, cover: map[string]map[string]int{},
		floors: map[string]*floor{}, undec: map[string]int{}, violSeen: map[string]int{}, extra: map[string]any{},
		known: map[string]string{}, MaxSamples: 5}
	c.loadKnown()
	return c
}

// OpenChild is used inside a child process: calls are logged to walPath.
func OpenChild(prop, level, walPath string) *Ctx {
	c := Open(prop, level)
	f, err := os.OpenFile(walPath, os.O_CREATE|os.O_APPEND|os.O_WRONLY, 0644)
	if err != nil {
		fmt.Fprintln(os.Stderr, "cannot open wal:", err)
		os.Exit(3)
	}
	c.wal = f
	return c
}

func (c *Ctx) IsChild() bool { return c.wal != nil }
func (c *Ctx) Tier() string  { return c.tier }
func (c *Ctx) Quick() bool   { return c.tier == "quick" }
func (c *Ctx) Seed() int64   { return c.seed }
func (c *Ctx) Pick(q, t int) int {
	if c.Quick() {
		return q
	}
	return t
}

// Rng returns a PRNG determined by (seed, stream name) only.
func (c *Ctx) Rng(stream string) *rand.Rand {
	return rand.New(rand.NewSource(SubSeed(c.seed, stream)))
}

func SubSeed(seed int64, stream string) int64 {
	h := fnv.New64a()
	fmt.Fprintf(h, "%d/%s", seed, stream)
	return int64(h.Sum64() & 0x7fffffffffffffff)
}

type walOp struct {
	Op string          `json:"op"`
	K  string          `json:"k,omitempty"`
	K2 string          `json:"k2,omitempty"`
	N  int             `json:"n,omitempty"`
	N2 int             `json:"n2,omitempty"`
	S  string          `json:"s,omitempty"`
	V  json.RawMessage `json:"v,omitempty"`
}

func (c *Ctx) emit(op walOp) {
	b, _ := json.Marshal(op)
	b = append(b, '\n')
	c.wal.Write(b)
}

func raw(v any) json.RawMessage {
	b, err := json.Marshal(v)
	if err != nil {
		b, _ = json.Marshal(fmt.Sprintf("%v", v))
	}
	return b
}

// Case counts one evaluation; key identifies its structural class for distinct_nontrivial.
// An empty key means "trivial" (counted as evaluation only).
func (c *Ctx) Case(key string) {
	c.mu.Lock()
	defer c.mu.Unlock()
	if c.wal != nil {
		c.emit(walOp{Op: "case", K: key})
		return
	}
	c.evals++
	if key != "" {
		c.distinct[key] = struct{}{}
	}
}

func (c *Ctx) Sample(v any) {
	c.mu.Lock()
	defer c.mu.Unlock()
	if c.wal != nil {
		c.replayN++
		if c.replayN <= c.MaxSamples {
			c.emit(walOp{Op: "sample", V: raw(v)})
		}
		return
	}
	if len(c.samples) < c.MaxSamples {
		c.samples = append(c.samples, json.RawMessage(raw(v)))
	}
}

func (c *Ctx) Event(kind string, n int) {
	c.mu.Lock()
	defer c.mu.Unlock()
	if c.wal != nil {
		c.emit(walOp{Op: "event", K: kind, N: n})
		return
	}
	c.events[kind] += n
}

func (c *Ctx) Cover(table, key string, n int) {
	c.mu.Lock()
	defer c.mu.Unlock()
	if c.wal != nil {
		c.emit(walOp{Op: "cover", K: table, K2: key, N: n})
		return
	}
	if c.cover[table] == nil {
		c.cover[table] = map[string]int{}
	}
	c.cover[table][key] += n
}

// Floor: a run that observed fewer than `required` of something is inconclusive.
// Observations accumulate across calls (and across children).
func (c *Ctx) Floor(name string, required, observed int) {
	c.mu.Lock()
	defer c.mu.Unlock()
	if c.wal != nil {
		c.emit(walOp{Op: "floor", K: name, N: required, N2: observed})
		return
	}
	f := c.floors[name]
	if f == nil {
		f = &floor{}
		c.floors[name] = f
	}
	if required > f.Required {
		f.Required = required
	}
	f.Observed += observed
}

func (c *Ctx) Undecided(reason string) {
	c.mu.Lock()
	defer c.mu.Unlock()
	if c.wal != nil {
		c.emit(walOp{Op: "undecided", K: reason})
		return
	}
	c.undec[reason]++
}

func (c *Ctx) Note(s string) {
	c.mu.Lock()
	defer c.mu.Unlock()
	if c.wal != nil {
		c.emit(walOp{Op: "note", S: s})
		return
	}
	if len(c.notes) < 200 {
		c.notes = append(c.notes, s)
	}
}

func (c *Ctx) Assume(s string) {
	c.mu.Lock()
	defer c.mu.Unlock()
	if c.wal != nil {
		c.emit(walOp{Op: "assume", S: s})
		return
	}
	for _, a := range c.assume {
		if a == s {
			return
		}
	}
	c.assume = append(c.assume, s)
}

func (c *Ctx) SetRule(s string) {
	c.mu.Lock()
	defer c.mu.Unlock()
	if c.wal != nil {
		c.emit(walOp{Op: "rule", S: s})
		return
	}
	c.rule = s
}

func (c *Ctx) Extra(k string, v any) {
	c.mu.Lock()
	defer c.mu.Unlock()
	if c.wal != nil {
		c.emit(walOp{Op: "extra", K: k, V: raw(v)})
		return
	}
	c.extra[k] = json.RawMessage(raw(v))
}

func (c *Ctx) Exhaustive(b bool) {
	c.mu.Lock()
	defer c.mu.Unlock()
	if c.wal != nil {
		n := 0
		if b {
			n = 1
		}
		c.emit(walOp{Op: "exhaustive", N: n})
		return
	}
	c.exhaust = &b
}

// Violation records a witness. sig is the known-finding signature: a violation whose
// signature is listed in known_findings.txt is reported as KNOWN-FINDING, not VIOLATION.
// replay is written to /verif/replays/<prop>/ (first 20 distinct signatures only).
func (c *Ctx) Violation(sig, desc string, replay any) {
	c.mu.Lock()
	defer c.mu.Unlock()
	if c.wal != nil {
		c.emit(walOp{Op: "violation", K: sig, S: desc, V: raw(replay)})
		return
	}
	c.violation(sig, desc, raw(replay))
}

func (c *Ctx) violation(sig, desc string, replay json.RawMessage) {
	c.violSeen[sig]++
	if c.violSeen[sig] > 1 {
		return
	}
	_, known := c.known[sig]
	v := Violation{Sig: sig, Desc: desc, Known: known}
	if len(c.viol) < 50 {
		dir := filepath.Join(OutDir, "replays", c.Prop)
		os.MkdirAll(dir, 0755)
		p := filepath.Join(dir, fmt.Sprintf("%d-%d.json", c.seed, len(c.viol)))
		doc := map[string]any{"property": c.Prop, "seed": c.seed, "tier": c.tier, "sig": sig, "desc": desc, "case": replay}
		b, _ := json.MarshalIndent(doc, "", " ")
		if os.WriteFile(p, b, 0644) == nil {
			v.Replay = p
		}
	}
	c.viol = append(c.viol, v)
}

func (c *Ctx) ViolationCount() int {
	c.mu.Lock()
	defer c.mu.Unlock()
	n := 0
	for _, v := range c.viol {
		if !v.Known {
			n++
		}
	}
	return n
}

// BeginCase / EndCase bracket a hostile case in a child so that the parent can attribute
// a process death to the last case begun and not ended.
func (c *Ctx) BeginCase(idx int, payload any) {
	c.mu.Lock()
	defer c.mu.Unlock()
	if c.wal != nil {
		c.emit(walOp{Op: "begin", N: idx, V: raw(payload)})
	}
}

func (c *Ctx) EndCase(idx int) {
	c.mu.Lock()
	defer c.mu.Unlock()
	if c.wal != nil {
		c.emit(walOp{Op: "end", N: idx})
	}
}

func (c *Ctx) loadKnown() {
	f, err := os.Open(filepath.Join(VerifDir, "known_findings.txt"))
	if err != nil {
		return
	}
	defer f.Close()
	sc := bufio.NewScanner(f)
	sc.Buffer(make([]byte, 1<<20), 1<<20)
	for sc.Scan() {
		l := strings.TrimSpace(sc.Text())
		if !strings.HasPrefix(l, "known:") {
			continue
		}
		fs := strings.Fields(l)
		prop, key := "", ""
		rest := []string{}
		for _, f := range fs[1:] {
			switch {
			case strings.HasPrefix(f, "property=") && prop == "":
				prop = strings.TrimPrefix(f, "property=")
			case strings.HasPrefix(f, "key=") && key == "":
				key = strings.TrimPrefix(f, "key=")
			default:
				rest = append(rest, f)
			}
		}
		if prop == c.Prop && key != "" {
			c.known[key] = strings.Join(rest, " ")
		}
	}
}

// ApplyWAL replays a child's log into this (parent) context. It returns the payload of a
// case that was begun but not ended (nil if none) and its index.
func (c *Ctx) ApplyWAL(path string) (openIdx int, openPayload json.RawMessage, lines int) {
	openIdx = -1
	f, err := os.Open(path)
	if err != nil {
		return
	}
	defer f.Close()
	sc := bufio.NewScanner(f)
	sc.Buffer(make([]byte, 1<<20), 256<<20)
	c.mu.Lock()
	defer c.mu.Unlock()
	for sc.Scan() {
		var op walOp
		if json.Unmarshal(sc.Bytes(), &op) != nil {
			continue
		}
		lines++
		switch op.Op {
		case "case":
			c.evals++
			if op.K != "" {
				c.distinct[op.K] = struct{}{}
			}
		case "sample":
			if len(c.samples) < c.MaxSamples {
				c.samples = append(c.samples, op.V)
			}
		case "event":
			c.events[op.K] += op.N
		case "cover":
			if c.cover[op.K] == nil {
				c.cover[op.K] = map[string]int{}
			}
			c.cover[op.K][op.K2] += op.N
		case "floor":
			fl := c.floors[op.K]
			if fl == nil {
				fl = &floor{}
				c.floors[op.K] = fl
			}
			if op.N > fl.Required {
				fl.Required = op.N
			}
			fl.Observed += op.N2
		case "undecided":
			c.undec[op.K]++
		case "note":
			if len(c.notes) < 200 {
				c.notes = append(c.notes, op.S)
			}
		case "assume":
			dup := false
			for _, a := range c.assume {
				if a == op.S {
					dup = true
				}
			}
			if !dup {
				c.assume = append(c.assume, op.S)
			}
		case "rule":
			c.rule = op.S
		case "extra":
			c.extra[op.K] = op.V
		case "exhaustive":
			b := op.N == 1
			c.exhaust = &b
		case "violation":
			c.violation(op.K, op.S, op.V)
		case "begin":
			openIdx, openPayload = op.N, op.V
		case "end":
			if op.N == openIdx {
				openIdx, openPayload = -1, nil
			}
		}
	}
	return
}

// Finish writes the evidence file, prints the interface lines and returns the exit code:
// 0 held, 1 violated, 2 inconclusive.
func (c *Ctx) Finish() int {
	c.mu.Lock()
	defer c.mu.Unlock()
	if c.wal != nil {
		c.emit(walOp{Op: "done"})
		c.wal.Close()
		return 0
	}
	unknown := 0
	knownMatched := []string{}
	for _, v := range c.viol {
		if v.Known {
			fmt.Printf("KNOWN-FINDING: property=%s key=%s %s\n", c.Prop, v.Sig, oneLine(v.Desc))
			knownMatched = append(knownMatched, v.Sig)
		} else {
			unknown++
			fmt.Printf("VIOLATION property=%s replay=%s\n", c.Prop, v.Replay)
			fmt.Printf("  sig=%s : %s\n", v.Sig, oneLine(v.Desc))
		}
	}
	inconclusive := []string{}
	fnames := make([]string, 0, len(c.floors))
	for n := range c.floors {
		fnames = append(fnames, n)
	}
	sort.Strings(fnames)
	for _, n := range fnames {
		f := c.floors[n]
		if f.Observed < f.Required {
			inconclusive = append(inconclusive, fmt.Sprintf("floor %s: required %d observed %d", n, f.Required, f.Observed))
		}
	}
	und := 0
	for _, n := range c.undec {
		und += n
	}
	if c.evals > 0 && und*20 > c.evals {
		inconclusive = append(inconclusive, fmt.Sprintf("undecided cases %d of %d (> 5%%)", und, c.evals))
	}
	if c.evals == 0 {
		inconclusive = append(inconclusive, "no case evaluated")
	}
	if len(c.distinct) < 2 {
		inconclusive = append(inconclusive, "fewer than 2 distinct non-trivial cases")
	}
	if c.notes == nil {
		c.notes = []string{}
	}
	cov := map[string]any{
		"evaluations":            c.evals,
		"distinct_nontrivial":    len(c.distinct),
		"rule":                   c.rule,
		"samples":                c.samples,
		"events":                 c.events,
		"floors":                 c.floors,
		"coverage_tables":        c.cover,
		"undecided":              c.undec,
		"notes":                  c.notes,
		"known_findings_matched": knownMatched,
		"violation_details":      c.viol,
	}
	if len(c.samples) == 0 {
		cov["samples"] = []any{"(no sample recorded)"}
	}
	if c.exhaust != nil {
		cov["exhaustive"] = *c.exhaust
	}
	for k, v := range c.extra {
		cov[k] = v
	}
	verdict := "held"
	code := 0
	if unknown > 0 {
		verdict, code = "violated", 1
	} else if len(inconclusive) > 0 {
		verdict, code = "inconclusive", 2
	}
	cov["verdict"] = verdict
	cov["inconclusive_reasons"] = inconclusive
	ev := map[string]any{
		"property_id": c.Prop,
		"tier":        c.tier,
		"seed":        c.seed,
		"level":       c.Level,
		"coverage":    cov,
		"assumptions": c.assume,
		"wall_s":      time.Since(c.start).Seconds(),
		"violations":  unknown,
	}
	if c.assume == nil {
		ev["assumptions"] = []string{}
	}
	os.MkdirAll(filepath.Join(OutDir, "evidence"), 0755)
	b, _ := json.MarshalIndent(ev, "", " ")
	if err := os.WriteFile(filepath.Join(OutDir, "evidence", c.Prop+".json"), b, 0644); err != nil {
		fmt.Println("cannot write evidence:", err)
		if code == 0 {
			code = 2
		}
	}
	fmt.Printf("RESULT property=%s verdict=%s tier=%s seed=%d evaluations=%d distinct=%d known=%d wall=%.1fs\n",
		c.Prop, verdict, c.tier, c.seed, c.evals, len(c.distinct), len(knownMatched), time.Since(c.start).Seconds())
	for _, r := range inconclusive {
		fmt.Println("INCONCLUSIVE:", r)
	}
	return code
}

func oneLine(s string) string {
	s = strings.ReplaceAll(s, "\n", " | ")
	if len(s) > 600 {
		s = s[:600] + "…"
	}
	return s
}
