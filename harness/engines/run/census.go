package run

import (
	"regexp"
	"runtime"
	"sort"
	"strings"
)

// Goroutine is one entry of an in-process goroutine dump.
type Goroutine struct {
	ID        string
	State     string
	Frames    []string // function names, innermost first
	CreatedBy string
	Raw       string
}

var goHead = regexp.MustCompile(`^goroutine (\d+) \[([^\]]*)\]`)

// Census dumps all goroutines of this process.
func Census() []Goroutine {
	buf := make([]byte, 1<<20)
	for {
		n := runtime.Stack(buf, true)
		if n < len(buf) {
			buf = buf[:n]
			break
		}
		buf = make([]byte, 2*len(buf))
	}
	var out []Goroutine
	for _, blk := range strings.Split(string(buf), "\n\n") {
		lines := strings.Split(blk, "\n")
		m := goHead.FindStringSubmatch(lines[0])
		if m == nil {
			continue
		}
		g := Goroutine{ID: m[1], State: m[2], Raw: blk}
		for _, l := range lines[1:] {
			if strings.HasPrefix(l, "\t") {
				continue
			}
			if strings.HasPrefix(l, "created by ") {
				g.CreatedBy = strings.Fields(strings.TrimPrefix(l, "created by "))[0]
				continue
			}
			if i := strings.LastIndex(l, "("); i > 0 {
				l = l[:i]
			}
			g.Frames = append(g.Frames, l)
		}
		out = append(out, g)
	}
	return out
}

// QrynFrames returns the qryn frames of g (innermost first), package prefix stripped.
func (g Goroutine) QrynFrames() []string {
	var out []string
	for _, f := range g.Frames {
		if strings.HasPrefix(f, "github.com/metrico/qryn/") {
			out = append(out, strings.TrimPrefix(f, "github.com/metrico/qryn/"))
		}
	}
	return out
}

// Signature identifies a goroutine by creation site and qryn frames (ids and arguments stripped).
func (g Goroutine) Signature() string {
	return strings.TrimPrefix(g.CreatedBy, "github.com/metrico/qryn/") + " :: " + strings.Join(g.QrynFrames(), " < ")
}

// CensusCount counts goroutines with at least one qryn frame (or created by qryn code),
// grouped by signature, skipping the whitelisted background creators.
func CensusCount(gs []Goroutine, whitelist []string) map[string]int {
	out := map[string]int{}
	for _, g := range gs {
		if len(g.QrynFrames()) == 0 && !strings.Contains(g.CreatedBy, "metrico/qryn") {
			continue
		}
		sig := g.Signature()
		skip := false
		for _, w := range whitelist {
			if strings.Contains(sig, w) {
				skip = true
				break
			}
		}
		if !skip {
			out[sig]++
		}
	}
	return out
}

func CensusDiff(before, after map[string]int) []string {
	var out []string
	for k, n := range after {
		if n > before[k] {
			out = append(out, k)
		}
	}
	sort.Strings(out)
	return out
}
