package rdcat

import (
	"encoding/json"
	"fmt"
	"math/rand"
	"net/url"
	"sort"
	"strings"
)

// Param describes one request parameter: its name and the class of values it takes.
type Param struct {
	Name string
	// Class: time-ns, time-s, time-ms, step, limit, direction, duration, since, text
	Class string
	// Required parameters are sent in 9 of 10 requests, optional ones in 1 of 2.
	Required bool
}

// Endpoint is one read route.
type Endpoint struct {
	Name    string
	Family  string // loki prom tempo pyro
	Method  string
	Path    string // may contain {name}/{tag}/{traceId}
	PathVar string // class of the path variable: label, tag, traceid
	Lang    string // language of the query parameter ("" = none)
	QParam  string // name of the parameter carrying the query (query, match[], q, tags)
	QMulti  bool   // parameter may be repeated
	QOpt    bool   // query is optional
	Params  []Param
	Body    string // "" | pyro-json (the parameters go into a JSON body)
	Kinds   []Kind // statements it issues (first = the one whose rows make the response)
	WS      bool   // websocket endpoint
	// Canon is a canonical well-formed request (used by self-tests and as the C12 baseline).
	Canon Req
	// Weight in the C12 schedule.
	Weight int
}

const (
	FromS = int64(1700000000)
	ToS   = int64(1700003600)
)

var nsT = []Param{{"start", "time-ns", true}, {"end", "time-ns", true}}
var sT = []Param{{"start", "time-s", true}, {"end", "time-s", true}}

func pyroEP(name, method string, lang string, kinds []Kind, fields string, canon string) Endpoint {
	var ps []Param
	for _, f := range strings.Fields(fields) {
		ps = append(ps, Param{f, map[string]string{"start": "time-ms", "end": "time-ms", "step": "step", "name": "text", "group_by": "text", "label_names": "text", "profile_typeID": "proftype"}[f], true})
	}
	return Endpoint{Name: "pyro." + name, Family: "pyro", Method: "POST", Path: "/querier.v1.QuerierService/" + method, Lang: lang, QParam: map[string]string{"LabelNames": "matchers", "LabelValues": "matchers", "Series": "matchers", "AnalyzeQuery": "query"}[method],
		Params: ps, Body: "pyro-json", Kinds: kinds, Weight: 2,
		Canon: Req{Method: "POST", Path: "/querier.v1.QuerierService/" + method, Body: canon, CType: "application/json"}}
}

const pyroSel = `{service_name=\"x\", a!=\"b\"}`
const pyroTID = `process_cpu:cpu:nanoseconds:cpu:nanoseconds`

var msFrom, msTo = fmt.Sprint(FromS * 1000), fmt.Sprint(ToS * 1000)

// Endpoints is the catalogue: every read route registered by reader/router.
var Endpoints = []Endpoint{
	{Name: "loki.query_range", Family: "loki", Method: "GET", Path: "/loki/api/v1/query_range", Lang: "logql", QParam: "query",
		Params: append(append([]Param{}, nsT...), Param{"step", "step", false}, Param{"limit", "limit", false}, Param{"direction", "direction", false}, Param{"since", "duration", false}, Param{"interval", "step", false}),
		Kinds:  []Kind{KStreams, KMatrix}, Weight: 12,
		Canon: Req{Method: "GET", Path: "/loki/api/v1/query_range", RawQuery: Q("query", `{a="b"}`, "start", fmt.Sprint(FromS*1e9), "end", fmt.Sprint(ToS*1e9), "step", "5", "limit", "100")}},
	{Name: "loki.query", Family: "loki", Method: "GET", Path: "/loki/api/v1/query", Lang: "logql", QParam: "query",
		Params: []Param{{"time", "time-ns", false}, {"step", "step", false}, {"limit", "limit", false}},
		Kinds:  []Kind{KStreams, KMatrix}, Weight: 6,
		Canon: Req{Method: "GET", Path: "/loki/api/v1/query", RawQuery: Q("query", `{a="b"}`, "time", fmt.Sprint(ToS*1e9))}},
	{Name: "loki.tail", Family: "loki", Method: "GET", Path: "/loki/api/v1/tail", Lang: "logql", QParam: "query", WS: true,
		Params: []Param{{"limit", "limit", false}, {"start", "time-ns", false}, {"delay_for", "limit", false}},
		Kinds:  []Kind{KStreams, KMatrix}, Weight: 0,
		Canon: Req{Method: "GET", Path: "/loki/api/v1/tail", RawQuery: Q("query", `{a="b"}`)}},
	{Name: "loki.labels", Family: "loki", Method: "GET", Path: "/loki/api/v1/labels", Params: nsT, Kinds: []Kind{KLabelKeys}, Weight: 2,
		Canon: Req{Method: "GET", Path: "/loki/api/v1/labels", RawQuery: Q("start", fmt.Sprint(FromS*1e9), "end", fmt.Sprint(ToS*1e9))}},
	{Name: "loki.label", Family: "loki", Method: "GET", Path: "/loki/api/v1/label", Params: nsT, Kinds: []Kind{KLabelKeys}, Weight: 1,
		Canon: Req{Method: "GET", Path: "/loki/api/v1/label", RawQuery: Q("start", fmt.Sprint(FromS*1e9), "end", fmt.Sprint(ToS*1e9))}},
	{Name: "loki.label.values", Family: "loki", Method: "GET", Path: "/loki/api/v1/label/{name}/values", PathVar: "label", Lang: "logql-selector", QParam: "query", QOpt: true, Params: nsT,
		Kinds: []Kind{KLabelVals}, Weight: 3,
		Canon: Req{Method: "GET", Path: "/loki/api/v1/label/job/values", RawQuery: Q("start", fmt.Sprint(FromS*1e9), "end", fmt.Sprint(ToS*1e9))}},
	{Name: "loki.series", Family: "loki", Method: "GET", Path: "/loki/api/v1/series", Lang: "logql-selector", QParam: "match[]", QMulti: true, Params: nsT,
		Kinds: []Kind{KSeries}, Weight: 3,
		Canon: Req{Method: "GET", Path: "/loki/api/v1/series", RawQuery: Q("match[]", `{a="b"}`, "start", fmt.Sprint(FromS*1e9), "end", fmt.Sprint(ToS*1e9))}},
	{Name: "prom.query_range", Family: "prom", Method: "GET", Path: "/api/v1/query_range", Lang: "promql", QParam: "query",
		Params: append(append([]Param{}, sT...), Param{"step", "step", true}), Kinds: []Kind{KPromSamples, KPromLabels}, Weight: 10,
		Canon: Req{Method: "GET", Path: "/api/v1/query_range", RawQuery: Q("query", `up{job="x"}`, "start", fmt.Sprint(FromS), "end", fmt.Sprint(ToS), "step", "5")}},
	{Name: "prom.query", Family: "prom", Method: "GET", Path: "/api/v1/query", Lang: "promql", QParam: "query",
		Params: []Param{{"time", "time-s", false}}, Kinds: []Kind{KPromSamples, KPromLabels}, Weight: 6,
		Canon: Req{Method: "GET", Path: "/api/v1/query", RawQuery: Q("query", `up{job="x"}`, "time", fmt.Sprint(ToS))}},
	{Name: "prom.labels", Family: "prom", Method: "GET", Path: "/api/v1/labels", Params: sT, Kinds: []Kind{KLabelKeys}, Weight: 2,
		Canon: Req{Method: "GET", Path: "/api/v1/labels", RawQuery: Q("start", fmt.Sprint(FromS), "end", fmt.Sprint(ToS))}},
	{Name: "prom.label.values", Family: "prom", Method: "GET", Path: "/api/v1/label/{name}/values", PathVar: "label", Lang: "promql-selector", QParam: "match[]", QMulti: true, QOpt: true, Params: sT,
		Kinds: []Kind{KLabelVals}, Weight: 3,
		Canon: Req{Method: "GET", Path: "/api/v1/label/job/values", RawQuery: Q("start", fmt.Sprint(FromS), "end", fmt.Sprint(ToS))}},
	{Name: "prom.series", Family: "prom", Method: "GET", Path: "/api/v1/series", Lang: "logql-selector", QParam: "match[]", QMulti: true, Params: sT,
		Kinds: []Kind{KSeries}, Weight: 3,
		Canon: Req{Method: "GET", Path: "/api/v1/series", RawQuery: Q("match[]", `up{job="x"}`, "start", fmt.Sprint(FromS), "end", fmt.Sprint(ToS))}},
	{Name: "tempo.trace", Family: "tempo", Method: "GET", Path: "/api/traces/{traceId}", PathVar: "traceid", Params: []Param{{"start", "time-s", false}, {"end", "time-s", false}},
		Kinds: []Kind{KTraceSpans}, Weight: 6,
		Canon: Req{Method: "GET", Path: "/api/traces/0123456789abcdef0123456789abcdef"}},
	{Name: "tempo.trace.json", Family: "tempo", Method: "GET", Path: "/api/traces/{traceId}/json", PathVar: "traceid", Params: []Param{{"start", "time-s", false}, {"end", "time-s", false}},
		Kinds: []Kind{KTraceSpans}, Weight: 1,
		Canon: Req{Method: "GET", Path: "/api/traces/0123456789abcdef0123456789abcdef/json"}},
	{Name: "tempo.trace.alt", Family: "tempo", Method: "GET", Path: "/tempo/api/traces/{traceId}", PathVar: "traceid", Params: []Param{{"start", "time-s", false}, {"end", "time-s", false}},
		Kinds: []Kind{KTraceSpans}, Weight: 1,
		Canon: Req{Method: "GET", Path: "/tempo/api/traces/0123456789abcdef0123456789abcdef", RawQuery: Q("start", fmt.Sprint(FromS), "end", fmt.Sprint(ToS))}},
	{Name: "tempo.search.tags", Family: "tempo", Method: "GET", Path: "/api/search", Lang: "tempo-tags", QParam: "tags", QOpt: true,
		Params: append(append([]Param{}, Param{"start", "time-s", false}, Param{"end", "time-s", false}), Param{"limit", "limit", false}, Param{"minDuration", "duration", false}, Param{"maxDuration", "duration", false}),
		Kinds:  []Kind{KTempoSearch}, Weight: 4,
		Canon: Req{Method: "GET", Path: "/api/search", RawQuery: Q("tags", `service.name="x"`, "start", fmt.Sprint(FromS), "end", fmt.Sprint(ToS), "limit", "20")}},
	{Name: "tempo.search.traceql", Family: "tempo", Method: "GET", Path: "/api/search", Lang: "traceql", QParam: "q",
		Params: []Param{{"start", "time-s", false}, {"end", "time-s", false}, {"limit", "limit", false}},
		Kinds:  []Kind{KTQLTraces, KTQLCount}, Weight: 8,
		Canon: Req{Method: "GET", Path: "/api/search", RawQuery: Q("q", `{.a="b"}`, "start", fmt.Sprint(FromS), "end", fmt.Sprint(ToS), "limit", "20")}},
	{Name: "tempo.search.alt", Family: "tempo", Method: "GET", Path: "/tempo/api/search", Lang: "traceql", QParam: "q",
		Params: []Param{{"start", "time-s", false}, {"end", "time-s", false}, {"limit", "limit", false}},
		Kinds:  []Kind{KTQLTraces, KTQLCount}, Weight: 1,
		Canon: Req{Method: "GET", Path: "/tempo/api/search", RawQuery: Q("q", `{.a="b"}`, "start", fmt.Sprint(FromS), "end", fmt.Sprint(ToS))}},
	{Name: "tempo.tags", Family: "tempo", Method: "GET", Path: "/api/search/tags", Kinds: []Kind{KTempoKeys}, Weight: 2,
		Canon: Req{Method: "GET", Path: "/api/search/tags"}},
	{Name: "tempo.tags.alt", Family: "tempo", Method: "GET", Path: "/tempo/api/search/tags", Kinds: []Kind{KTempoKeys}, Weight: 1,
		Canon: Req{Method: "GET", Path: "/tempo/api/search/tags"}},
	{Name: "tempo.tag.values", Family: "tempo", Method: "GET", Path: "/api/search/tag/{tag}/values", PathVar: "tag", Kinds: []Kind{KTempoVals}, Weight: 2,
		Canon: Req{Method: "GET", Path: "/api/search/tag/service.name/values"}},
	{Name: "tempo.tag.values.alt", Family: "tempo", Method: "GET", Path: "/tempo/api/search/tag/{tag}/values", PathVar: "tag", Kinds: []Kind{KTempoVals}, Weight: 1,
		Canon: Req{Method: "GET", Path: "/tempo/api/search/tag/service.name/values"}},
	{Name: "tempo.v2.tags", Family: "tempo", Method: "GET", Path: "/api/v2/search/tags", Lang: "traceql", QParam: "q", QOpt: true,
		Params: []Param{{"start", "time-s", false}, {"end", "time-s", false}, {"limit", "limit", false}}, Kinds: []Kind{KTempoKeys, KTQLCount}, Weight: 4,
		Canon: Req{Method: "GET", Path: "/api/v2/search/tags", RawQuery: Q("start", fmt.Sprint(FromS), "end", fmt.Sprint(ToS))}},
	{Name: "tempo.v2.tag.values", Family: "tempo", Method: "GET", Path: "/api/v2/search/tag/{tag}/values", PathVar: "tag", Lang: "traceql", QParam: "q", QOpt: true,
		Params: []Param{{"start", "time-s", false}, {"end", "time-s", false}, {"limit", "limit", false}}, Kinds: []Kind{KTempoVals, KTempoKeys, KTQLCount}, Weight: 4,
		Canon: Req{Method: "GET", Path: "/api/v2/search/tag/.service.name/values", RawQuery: Q("q", `{.a="b"}`, "start", fmt.Sprint(FromS), "end", fmt.Sprint(ToS))}},
	pyroEP("ProfileTypes", "ProfileTypes", "", []Kind{KProfTypes}, "start end", `{"start":`+msFrom+`,"end":`+msTo+`}`),
	pyroEP("LabelNames", "LabelNames", "pyro", []Kind{KProfNames}, "start end", `{"matchers":["{service_name=\"x\"}"],"start":`+msFrom+`,"end":`+msTo+`}`),
	pyroEP("LabelValues", "LabelValues", "pyro", []Kind{KProfVals}, "name start end", `{"name":"service_name","matchers":["{a=\"b\"}"],"start":`+msFrom+`,"end":`+msTo+`}`),
	pyroEP("SelectMergeStacktraces", "SelectMergeStacktraces", "pyro", []Kind{KProfTree}, "profile_typeID start end", `{"profile_typeID":"`+pyroTID+`","label_selector":"`+pyroSel+`","start":`+msFrom+`,"end":`+msTo+`}`),
	pyroEP("SelectSeries", "SelectSeries", "pyro", []Kind{KProfPoints}, "profile_typeID start end step group_by", `{"profile_typeID":"`+pyroTID+`","label_selector":"`+pyroSel+`","start":`+msFrom+`,"end":`+msTo+`,"group_by":["a"],"step":15}`),
	pyroEP("SelectMergeProfile", "SelectMergeProfile", "pyro", []Kind{KProfPayload}, "profile_typeID start end", `{"profile_typeID":"`+pyroTID+`","label_selector":"`+pyroSel+`","start":`+msFrom+`,"end":`+msTo+`}`),
	pyroEP("Series", "Series", "pyro", []Kind{KProfSeries}, "label_names start end", `{"matchers":["{a=\"b\"}"],"label_names":["a"],"start":`+msFrom+`,"end":`+msTo+`}`),
	pyroEP("GetProfileStats", "GetProfileStats", "", []Kind{KProfStats}, "", `{}`),
	pyroEP("AnalyzeQuery", "AnalyzeQuery", "pyro", []Kind{KProfAnalyze}, "start end", `{"query":"{a=\"b\"}","start":`+msFrom+`,"end":`+msTo+`}`),
	{Name: "pyro.render-diff", Family: "pyro", Method: "GET", Path: "/pyroscope/render-diff", Lang: "pyro", QParam: "leftQuery",
		Params: []Param{{"leftFrom", "time-ms", true}, {"leftUntil", "time-ms", true}, {"rightFrom", "time-ms", true}, {"rightUntil", "time-ms", true}},
		Kinds:  []Kind{KProfTree}, Weight: 3,
		Canon: Req{Method: "GET", Path: "/pyroscope/render-diff", RawQuery: Q("leftQuery", pyroTID+`{a="b"}`, "leftFrom", msFrom, "leftUntil", msTo, "rightQuery", pyroTID+`{a="c"}`, "rightFrom", msFrom, "rightUntil", msTo)}},
}

// ByName finds an endpoint.
func ByName(n string) *Endpoint {
	for i := range Endpoints {
		if Endpoints[i].Name == n {
			return &Endpoints[i]
		}
	}
	return nil
}

// Names lists the endpoint names.
func Names() []string {
	var out []string
	for _, e := range Endpoints {
		out = append(out, e.Name)
	}
	sort.Strings(out)
	return out
}

// ---------- parameter values ----------

// timeVal draws a value for a time parameter in the unit (ns per unit given) and its class.
func timeVal(r *rand.Rand, unit int64, isEnd bool) (string, string) {
	base := FromS
	if isEnd {
		base = ToS
	}
	good := fmt.Sprint(base * (1e9 / unit))
	switch x := r.Intn(30); {
	case x < 16:
		return good, ""
	case x == 16:
		return "0", "zero"
	case x == 17:
		return "-1", "neg"
	case x == 18:
		return pick(r, "9223372036854775807", "9223372036854775806", "4611686018427387904"), "huge"
	case x == 19:
		return pick(r, "-9223372036854775808", "-1700000000"), "neg"
	case x == 20:
		return pick(r, "1e30", "1e19", "18446744073709551616", "99999999999999999999999"), "overflow"
	case x == 21:
		return pick(r, "NaN", "nan"), "nan"
	case x == 22:
		return pick(r, "Inf", "-Inf", "+Inf", "inf"), "inf"
	case x == 23:
		return pick(r, "abc", "0x10", "1_000", " 1", "1 ", "١"), "text"
	case x == 24:
		return fmt.Sprint(base) + ".5", "fraction"
	case x == 25:
		return pick(r, "2023-11-14T22:13:20Z", "2023-11-14T22:13:20.123456789+01:00", "0000-01-01T00:00:00Z", "9999-12-31T23:59:59Z"), "rfc3339"
	case x == 26: // reversed: start gets the end value and vice versa
		if isEnd {
			return fmt.Sprint((FromS - 1000) * (1e9 / unit)), "reversed"
		}
		return fmt.Sprint((ToS + 1000) * (1e9 / unit)), "reversed"
	case x == 27: // other unit (seconds where ns are expected, and vice versa)
		if unit == 1 {
			return fmt.Sprint(base), "unit-s-for-ns"
		}
		return fmt.Sprint(base * 1e9), "unit-ns"
	case x == 28: // far apart
		if isEnd {
			return fmt.Sprint((ToS + 86400*365*2) * (1e9 / unit)), "far"
		}
		return fmt.Sprint(86400 * (1e9 / unit)), "far"
	default:
		return "", "missing"
	}
}

func stepVal(r *rand.Rand) (string, string) {
	switch x := r.Intn(24); {
	case x < 9:
		return pick(r, "5", "10", "1", "15", "60", "30"), ""
	case x == 9:
		return pick(r, "0", "0.0", "0s", "-0", "0ms"), "zero"
	case x == 10:
		return pick(r, "-1", "-5s", "-0.001"), "neg"
	case x == 11:
		return pick(r, "0.001", "1e-9", "1ns", "0.0000000001", "1ms", "4e-10"), "tiny"
	case x == 12:
		return pick(r, "1e30", "9223372036", "1e18", "9223372036.854775807", "100y", "1e10"), "huge"
	case x == 13:
		return pick(r, "NaN", "nan"), "nan"
	case x == 14:
		return pick(r, "Inf", "-Inf", "+Inf"), "inf"
	case x == 15:
		return pick(r, "abc", "5 s", "1h2", "s", "5ss"), "text"
	case x == 16:
		return pick(r, "5s", "1m", "1h", "1d", "2w"), "duration"
	case x == 17:
		return "", "missing"
	case x == 18:
		return pick(r, "3600", "7200", "100000"), "gt-window"
	default:
		return pick(r, "5", "10", "0.5", "2.5"), ""
	}
}

func limitVal(r *rand.Rand) (string, string) {
	switch x := r.Intn(16); {
	case x < 5:
		return pick(r, "100", "20", "1000", "5000"), ""
	case x == 5:
		return "0", "zero"
	case x == 6:
		return pick(r, "-1", "-100"), "neg"
	case x == 7, x == 8, x == 9:
		return pick(r, "1", "2", "3", "5", "7"), "small"
	case x == 10:
		return pick(r, "9223372036854775807", "2147483648", "4294967296", "1000000000"), "huge"
	case x == 11:
		return pick(r, "abc", "1e3", "5.5", "NaN", " 5"), "text"
	case x == 12:
		return pick(r, "99", "100", "101"), "batch-edge"
	default:
		return "", "missing"
	}
}

func durVal(r *rand.Rand) (string, string) {
	switch x := r.Intn(10); {
	case x < 4:
		return pick(r, "1ms", "1s", "100us", "5m"), ""
	case x == 4:
		return pick(r, "0", "0s"), "zero"
	case x == 5:
		return pick(r, "-1s", "-5ms"), "neg"
	case x == 6:
		return pick(r, "2562047h", "9999999999h", "1e30s", "292y"), "huge"
	case x == 7:
		return pick(r, "abc", "5", "1 s", "NaN"), "text"
	default:
		return "", "missing"
	}
}

func pathVal(r *rand.Rand, cls string) (string, string) {
	switch cls {
	case "label":
		switch x := r.Intn(10); {
		case x < 6:
			return pick(r, "job", "a", "__name__", "level"), ""
		case x == 6:
			return url.PathEscape(HostileStr(r, 3)), "hostile"
		case x == 7:
			return strings.Repeat("a", 100000), "long"
		case x == 8:
			return url.PathEscape("a'b\\"), "quote"
		default:
			return "%00", "nul"
		}
	case "tag":
		switch x := r.Intn(10); {
		case x < 5:
			return pick(r, "service.name", ".service.name", "span.http.method", "resource.a", "name", "resource.", "span.", "."), ""
		case x == 5:
			return url.PathEscape(HostileStr(r, 3)), "hostile"
		case x == 6:
			return strings.Repeat("a.", 50000), "long"
		case x == 7:
			return url.PathEscape("a'b\\"), "quote"
		case x == 8:
			return pick(r, "resource.", "span.", ".", "resource", "resource.x"), "prefix-only"
		default:
			return "%00", "nul"
		}
	case "traceid":
		switch x := r.Intn(14); {
		case x < 5:
			return HexID(r, 16), ""
		case x == 5:
			return HexID(r, 8), "short"
		case x == 6:
			return HexID(r, 32), "64-hex"
		case x == 7:
			return HexID(r, 33), "66-hex"
		case x == 8:
			return HexID(r, 200), "400-hex"
		case x == 9:
			return HexID(r, 15) + "f", "odd-len-31"
		case x == 10:
			return "zz" + HexID(r, 15), "non-hex"
		case x == 11:
			return url.PathEscape(HostileStr(r, 3)), "hostile"
		case x == 12:
			return strings.ToUpper(HexID(r, 16)), "upper"
		default:
			return HexID(r, 1), "2-hex"
		}
	}
	return "x", ""
}

// GenCase is a generated request and its structural class.
type GenCase struct {
	Req        Req      `json:"req"`
	Endpoint   string   `json:"endpoint"`
	QueryShape string   `json:"query_shape"`
	Specials   []string `json:"specials"` // param=class for every non-ordinary parameter value
}

// Class is the structural class of the request (endpoint | query shape | special parameters).
func (g GenCase) Class() string {
	return g.Endpoint + "|" + g.QueryShape + "|" + strings.Join(g.Specials, ",")
}

// Gen builds a request for the endpoint: query text from the grammar / mutator / random
// bytes, parameters from the boundary pools.
func (e *Endpoint) Gen(r *rand.Rand) GenCase {
	g := GenCase{Endpoint: e.Name, QueryShape: "-"}
	path := e.Path
	if e.PathVar != "" {
		v, cls := pathVal(r, e.PathVar)
		i, j := strings.Index(path, "{"), strings.Index(path, "}")
		path = path[:i] + v + path[j+1:]
		if cls != "" {
			g.Specials = append(g.Specials, "path="+cls)
		}
	}
	var kv []string
	body := map[string]any{}
	addParam := func(name, val string) {
		if e.Body == "pyro-json" {
			// numbers as numbers when they look like ones, otherwise as strings (a type error for the decoder)
			var num json.Number = json.Number(val)
			if _, err := num.Float64(); err == nil && json.Valid([]byte(val)) {
				body[name] = num
			} else {
				body[name] = val
			}
			return
		}
		kv = append(kv, name, val)
	}
	if e.Lang != "" {
		send := true
		if e.QOpt && r.Intn(3) == 0 {
			send = false
			g.QueryShape = "no-query"
		}
		if !e.QOpt && r.Intn(40) == 0 {
			send = false
			g.QueryShape = "no-query"
		}
		if send {
			n := 1
			if e.QMulti && r.Intn(3) == 0 {
				n = 2 + r.Intn(2)
			}
			var qs []string
			for i := 0; i < n; i++ {
				q, shape := GenQuery(r, e.Lang)
				if i == 0 {
					g.QueryShape = shape
				}
				qs = append(qs, q)
			}
			switch {
			case e.Name == "pyro.render-diff":
				t1, t2 := pick(r, profTypes...), ""
				if r.Intn(4) == 0 {
					t2 = pick(r, profTypes...)
				} else {
					t2 = t1
				}
				if t1 != profTypes[0] || t2 != t1 {
					g.Specials = append(g.Specials, "type="+typeClass(t1, t2))
				}
				q2, _ := GenQuery(r, e.Lang)
				kv = append(kv, "leftQuery", t1+qs[0], "rightQuery", t2+q2)
			case e.Body == "pyro-json":
				switch e.QParam {
				case "matchers":
					body["matchers"] = qs
				case "query":
					body["query"] = qs[0]
				default:
					body["label_selector"] = qs[0]
				}
			default:
				for _, q := range qs {
					kv = append(kv, e.QParam, q)
				}
			}
		}
	}
	for _, p := range e.Params {
		prob := 2
		if p.Required {
			prob = 10
		}
		if r.Intn(prob) == 0 {
			if p.Required {
				g.Specials = append(g.Specials, p.Name+"=missing")
			}
			continue
		}
		var v, cls string
		isEnd := strings.Contains(strings.ToLower(p.Name), "end") || strings.Contains(p.Name, "Until")
		switch p.Class {
		case "time-ns":
			v, cls = timeVal(r, 1, isEnd || p.Name == "time")
		case "time-s":
			v, cls = timeVal(r, 1e9, isEnd || p.Name == "time")
		case "time-ms":
			v, cls = timeVal(r, 1e6, isEnd)
		case "step":
			v, cls = stepVal(r)
		case "limit":
			v, cls = limitVal(r)
		case "direction":
			v = pick(r, "forward", "backward", "FORWARD", "", "sideways")
			if v == "forward" {
				cls = "forward"
			}
		case "duration":
			v, cls = durVal(r)
		case "proftype":
			v = pick(r, profTypes...)
			if r.Intn(2) == 0 {
				v = profTypes[0]
			}
			if v != profTypes[0] {
				cls = typeClass(v, v)
			}
		case "text":
			v = pick(r, "a", "service_name", "", HostileStr(r, 2))
			if e.Body == "pyro-json" && (p.Name == "group_by" || p.Name == "label_names") {
				body[p.Name] = []string{v}
				continue
			}
		}
		if cls == "missing" {
			if p.Required {
				g.Specials = append(g.Specials, p.Name+"=missing")
			}
			continue
		}
		if cls != "" {
			g.Specials = append(g.Specials, p.Name+"="+cls)
		}
		addParam(p.Name, v)
	}
	g.Req = Req{Method: e.Method, Path: path, RawQuery: Q(kv...)}
	if e.Body == "pyro-json" {
		b, _ := json.Marshal(body)
		g.Req.Body = string(b)
		g.Req.CType = "application/json"
		switch r.Intn(30) {
		case 0:
			g.Req.CType = "application/proto"
			g.Specials = append(g.Specials, "ctype=proto-with-json-body")
		case 1:
			m, _ := Mutate(r, g.Req.Body)
			g.Req.Body = m
			g.Specials = append(g.Specials, "body=mutated")
		case 2:
			g.Req.Body = ""
			g.Specials = append(g.Specials, "body=empty")
		}
	}
	if e.Method == "GET" && e.Family != "pyro" && e.Family != "tempo" && !e.WS && r.Intn(25) == 0 && e.Name != "loki.query_range" && e.Name != "loki.query" {
		// the label/series and Prometheus routes also accept POST with a form body
		g.Req.Method = "POST"
		g.Req.Body = g.Req.RawQuery
		g.Req.RawQuery = ""
		g.Req.CType = "application/x-www-form-urlencoded"
		g.Specials = append(g.Specials, "method=post-form")
	}
	if e.Name == "tempo.trace" && r.Intn(6) == 0 {
		g.Req.Header = map[string]string{"Accept": "application/protobuf"}
		g.Specials = append(g.Specials, "accept=protobuf")
	}
	sort.Strings(g.Specials)
	return g
}

func typeClass(a, b string) string {
	if a != b {
		return "mismatch"
	}
	switch n := strings.Count(a, ":"); {
	case a == "":
		return "empty"
	case n < 4:
		return "too-few-parts"
	case n > 4:
		return "too-many-parts"
	case len(a) > 1000:
		return "long"
	}
	return "other"
}

// PickEndpoint draws an endpoint by weight.
func PickEndpoint(r *rand.Rand) *Endpoint {
	total := 0
	for _, e := range Endpoints {
		total += e.Weight
	}
	x := r.Intn(total)
	for i := range Endpoints {
		x -= Endpoints[i].Weight
		if x < 0 {
			return &Endpoints[i]
		}
	}
	return &Endpoints[0]
}
